import MokapotVerif.Model.Peps
/-!
# Extension of the C06 model: dispatch tables, default pipelines, result files

(imports only `Model/Peps.lean`; no Mathlib)

1. the two dispatch tables `PEP_ALGORITHM` / `QVALUE_ALGORITHM` with the default
   arguments of `peps_from_scores` / `qvalues_from_scores`
   (peps.py:8-45, qvalues.py:18-24, 195-214)
2. `qvalues_from_peps(scores, targets, peps=None)`: the *default* pipeline, PEPs
   taken from `peps_from_scores_hist_nnls` (qvalues.py:238-239), and
   `qvalues_from_counts` with its factor `pi0 * #T/#D` computed from the labels
   (qvalues.py:286-298)
3. the level loop of `LinearConfidence._assign_confidence` (confidence.py:396-459)
   and the chunked writer `write_to_disk` / `write_confidences`
   (confidence.py:140-177, confidence_writer.py:112-158): which PEP lands in
   which row of `targets.<level>` / `decoys.<level>`.

The numeric kernels stay parameters (see `Model/Peps.lean`).
-/
namespace Mk.Peps

/-! ## 1. dispatch tables -/

/-- the entries of `PEP_ALGORITHM`.  src: mokapot/peps.py:8-21 -/
inductive PepAlg where
  | qvality | qvalityBin | kdeNnls | histNnls
  deriving DecidableEq, Repr

/-- the entries of `QVALUE_ALGORITHM`.  src: mokapot/qvalues.py:18-24 -/
inductive QAlg where
  | tdc | fromPeps | fromCounts
  deriving DecidableEq, Repr

def nmQvality : List Char := "qvality".toList
def nmQvalityBin : List Char := "qvality_bin".toList
def nmKdeNnls : List Char := "kde_nnls".toList
def nmHistNnls : List Char := "hist_nnls".toList
def nmTdc : List Char := "tdc".toList
def nmFromPeps : List Char := "from_peps".toList
def nmFromCounts : List Char := "from_counts".toList

/-- `PEP_ALGORITHM[pep_algorithm]`; an unknown key raises `KeyError` (`none`) — the
`AssertionError` branch behind it is unreachable, no entry is `None`.
src: mokapot/peps.py:39-45 -/
def pepAlgOfName (name : List Char) : Option PepAlg :=
  if name = nmQvality then some .qvality
  else if name = nmQvalityBin then some .qvalityBin
  else if name = nmKdeNnls then some .kdeNnls
  else if name = nmHistNnls then some .histNnls
  else none

/-- `QVALUE_ALGORITHM[qvalue_algorithm]`.  src: mokapot/qvalues.py:207-214 -/
def qAlgOfName (name : List Char) : Option QAlg :=
  if name = nmTdc then some .tdc
  else if name = nmFromPeps then some .fromPeps
  else if name = nmFromCounts then some .fromCounts
  else none

/-- `pep_algorithm="qvality"` / `qvalue_algorithm="tdc"`: the defaults of the two
entry points (`none` = argument omitted).  src: mokapot/peps.py:24, qvalues.py:195 -/
def pepAlgOfArg (arg : Option (List Char)) : Option PepAlg := pepAlgOfName (arg.getD nmQvality)
def qAlgOfArg (arg : Option (List Char)) : Option QAlg := qAlgOfName (arg.getD nmTdc)

/-- `use_binary` handed to `peps_from_scores_qvality` by the table's lambdas -/
def pepAlgUsesBinary (a : PepAlg) : Bool := decide (a = .qvalityBin)

/-- what the numeric kernels return during one call of an estimator: the qvality
kernel (triqler's Python or the compiled binary — same calling convention), the
evaluation grid (`linspace` / bin midpoints) and the NNLS solution -/
structure Kern where
  qv : List Rat → List Rat → List Rat
  es : List Rat
  d : List Rat

/-- the estimator behind each table entry, for a given argsort result `ind`
(used by the qvality wrapper only).  `none`: `hist_nnls` computed `0/0`.
src: mokapot/peps.py:8-21 -/
def pepsOfAlg : PepAlg → Kern → List Psm → List Nat → Option (List Rat)
  | .qvality, k, xs, ind => some (qvalityWrapOf k.qv xs ind)
  | .qvalityBin, k, xs, ind => some (qvalityWrapOf k.qv xs ind)
  | .kdeNnls, k, xs, _ => some (kdeNnlsOf k.es k.d (xs.map (·.1)))
  | .histNnls, k, xs, _ => histNnlsOf k.es k.d (xs.map (·.1))

/-- `peps_from_scores(scores, targets[, pep_algorithm])`.  src: mokapot/peps.py:24-45 -/
def pepsFromScoresOf (arg : Option (List Char)) (k : Kern) (xs : List Psm) (ind : List Nat) :
    Except String (List Rat) :=
  (pepAlgOfArg arg).elim (.error "KeyError")
    (fun a => (pepsOfAlg a k xs ind).elim (.error "nan-all") .ok)

/-- the function of the score that each estimator evaluates, given the kernel
response `g` of qvality and the kernel outputs `es`, `d` (declarative side) -/
def pepFunOfAlg : PepAlg → (Rat → Rat) → Kern → Rat → Rat
  | .qvality, g, _ => g
  | .qvalityBin, g, _ => g
  | .kdeNnls, _, k => kdePepFun k.es k.d
  | .histNnls, _, k => histPepFun k.es k.d

/-! ## 2. default pipelines of the alternative q-value estimators -/

/-- numpy fancy indexing `xs[ind]` -/
def takeIdx {β : Type} (dflt : β) (xs : List β) (ind : List Nat) : List β :=
  ind.map (fun i => xs.getD i dflt)

/-- `qvalues_from_peps(scores, targets)` with `peps=None`: the PEPs are those of
`peps_from_scores_hist_nnls` on the same arrays; `ind = np.argsort(-scores)`.
`none`: the PEPs are NaN (`0/0`) or there is no target.
src: mokapot/qvalues.py:238-260 -/
def fromPepsHistOf (es d : List Rat) (xs : List Psm) (ind : List Nat) : Option (List Rat) :=
  (histNnlsOf es d (xs.map (·.1))).bind
    (fun peps => fromPepsOf (xs.map (·.1)) (takeIdx ((0, false), 0) (xs.zip peps) ind))

def numTargets (xs : List Psm) : Nat := (xs.filter (fun x => x.2)).length
def numDecoys (xs : List Psm) : Nat := (xs.filter (fun x => !x.2)).length

/-- `pi0 * target_decoy_ratio` with `target_decoy_ratio = targets.sum() / (~targets).sum()`.
src: mokapot/qvalues.py:288, 294-295 -/
def countsFactor (pi0 : Rat) (xs : List Psm) : Rat :=
  pi0 * (((numTargets xs : Nat) : Rat) / ((numDecoys xs : Nat) : Rat))

/-- `qvalues_from_counts(scores, targets)` given the estimate `pi0` and
`ind = np.argsort(-scores)`.  Without decoys the ratio is `x/0` (`inf`/`nan`
in numpy): `none`, as when the top-ranked row is a decoy.
src: mokapot/qvalues.py:283-306 -/
def fromCountsPi0Of (pi0 : Rat) (xs : List Psm) (ind : List Nat) : Option (List Rat) :=
  if numDecoys xs = 0 then none
  else fromCountsOf (countsFactor pi0 xs) (xs.map (·.1)) (takeIdx (0, false) xs ind)

/-- the alternative estimators behind `QVALUE_ALGORITHM` (`tdc` is the subject of
C01 and is not repeated here: `none`).  src: mokapot/qvalues.py:18-24 -/
def altQvaluesOfAlg : QAlg → Kern → Rat → List Psm → List Nat → Option (List Rat)
  | .tdc, _, _, _, _ => none
  | .fromPeps, k, _, xs, ind => fromPepsHistOf k.es k.d xs ind
  | .fromCounts, _, pi0, xs, ind => fromCountsPi0Of pi0 xs ind

/-! ## 3. result files: level loop and chunked writer -/

/-- a row of a result file: identifier (`PSMId`), score, q-value, PEP -/
structure ORow where
  id : Nat
  score : Rat
  q : Rat
  pep : Rat
  deriving DecidableEq, Repr

def mkORow (e : ((Nat × Rat) × (Rat × Rat)) × Bool) : ORow :=
  { id := e.1.1.1, score := e.1.1.2, q := e.1.2.1, pep := e.1.2.2 }

/-- `data_chunk[qvalue_column] = qvals_chunk; data_chunk[pep_column] = peps_chunk;
data_chunk.loc[mask, out_columns]` for `mask = targets_chunk` (`keep = true`) or
`~targets_chunk` (`keep = false`): column assignment is positional, the mask
selects rows in order.  src: mokapot/confidence_writer.py:140-146 -/
def maskSel (keep : Bool) (rows : List (Nat × Rat)) (qs ps : List Rat) (ts : List Bool) : List ORow :=
  (((rows.zip (qs.zip ps)).zip ts).filter (fun e => e.2 == keep)).map mkORow

/-- pandas raises (`ValueError` on a column of the wrong length, `IndexError` on
a boolean mask of the wrong length) unless the four chunks have equal lengths -/
def chunkLengthsOk (rows : List (Nat × Rat)) (qs ps : List Rat) (ts : List Bool) : Bool :=
  qs.length == rows.length && ps.length == rows.length && ts.length == rows.length

/-- appends the rows of one chunk to what the two writers hold -/
def appendFiles (a b : List ORow × List ORow) : List ORow × List ORow := (a.1 ++ b.1, a.2 ++ b.2)

/-- one of the four zipped iterators is exhausted (`zip` stops at the shortest) -/
def anyExhausted (rows : List (Nat × Rat)) (qs ps : List Rat) (ts : List Bool) : Bool :=
  rows.isEmpty || qs.isEmpty || ps.isEmpty || ts.isEmpty

/-- the loop `for data_chunk, qvals_chunk, peps_chunk, targets_chunk in zip(...)`
of `write_confidences`: the reader yields consecutive chunks of `c` rows of the
level file, `create_chunks(x, c)` consecutive slices of `c` values of `qvals`,
`peps`, `targets` (each sequence is chunked on its own).  Result: rows appended
to `targets.<level>` and rows selected by the decoy mask.  `fuel` bounds the
number of chunks.  src: mokapot/confidence.py:140-177,
mokapot/confidence_writer.py:137-154, mokapot/utils.py:79-100 -/
def writeGo (c : Nat) : Nat → List (Nat × Rat) → List Rat → List Rat → List Bool →
    Option (List ORow × List ORow)
  | 0, _, _, _, _ => some ([], [])
  | fuel + 1, rows, qs, ps, ts =>
    if anyExhausted rows qs ps ts then some ([], [])
    else if chunkLengthsOk (rows.take c) (qs.take c) (ps.take c) (ts.take c) then
      (writeGo c fuel (rows.drop c) (qs.drop c) (ps.drop c) (ts.drop c)).map
        (appendFiles (maskSel true (rows.take c) (qs.take c) (ps.take c) (ts.take c),
                      maskSel false (rows.take c) (qs.take c) (ps.take c) (ts.take c)))
    else none

/-- `write_confidences(…, decoys, …)`: the decoy file exists iff `decoys`
(`out_paths.pop(1)` otherwise).  src: mokapot/confidence_writer.py:112-158 -/
def writeConfidences (c : Nat) (decoys : Bool) (rows : List (Nat × Rat)) (qs ps : List Rat)
    (ts : List Bool) : Option (List ORow × Option (List ORow)) :=
  (writeGo c rows.length rows qs ps ts).map (fun f => (f.1, if decoys then some f.2 else none))

/-- a row of a level file: identifier, score, target flag -/
structure LRow where
  id : Nat
  score : Rat
  target : Bool
  deriving DecidableEq, Repr

/-- outcome of `peps_from_scores(...)` inside the `try` of the level loop -/
inductive PepCall where
  | ok (peps : List Rat)
  | exitNoDecoys          -- SystemExit("… no decoy hits available for PEP calculation …")
  | exitOther             -- any other SystemExit: re-raised
  | raised                -- any other exception: propagates
  deriving Repr

/-- `except SystemExit as msg: if "no decoy hits available for PEP calculation" in
str(msg): self.peps = np.zeros(len(self.scores)) else: raise`.
src: mokapot/confidence.py:436-444 -/
def levelPeps (n : Nat) : PepCall → Except String (List Rat)
  | .ok p => .ok p
  | .exitNoDecoys => .ok (List.replicate n 0)
  | .exitOther => .error "SystemExit"
  | .raised => .error "raised"

/-- `if peps_error and all(self.peps == 1): raise ValueError(...)`.
src: mokapot/confidence.py:445-446 -/
def pepsErrorGate (pepsError : Bool) (peps : List Rat) : Except String (List Rat) :=
  if pepsError && peps.all (fun p => decide (p = 1)) then .error "ValueError" else .ok peps

/-- `self.scores * (desc * 2 - 1)`.  src: mokapot/confidence.py:421 -/
def signOf (desc : Bool) : Rat := if desc then 1 else -1

def levelPsms (rows : List LRow) : List Psm := rows.map (fun r => (r.score, r.target))
def signedPsms (desc : Bool) (rows : List LRow) : List Psm :=
  rows.map (fun r => (r.score * signOf desc, r.target))

def writeError : String := "pandas-length-error"

/-- one iteration of `for level, data_path, out_path in zip(levels, …)`: the rows of
the level file, q-values `Q` from (score, target), PEPs `P` from (signed score,
target), the gate, then the chunked writer with the level file's own score column.
src: mokapot/confidence.py:396-456 -/
def levelFiles (c : Nat) (decoys desc pepsError : Bool) (Q : List Psm → List Rat)
    (P : List Psm → PepCall) (rows : List LRow) :
    Except String (List ORow × Option (List ORow)) :=
  (levelPeps rows.length (P (signedPsms desc rows))).bind (fun peps =>
    (pepsErrorGate pepsError peps).bind (fun peps' =>
      (writeConfidences c decoys (rows.map (fun r => (r.id, r.score))) (Q (levelPsms rows)) peps'
        (rows.map (fun r => r.target))).elim (.error writeError) .ok))

/-! ## Specification of the result files (declarative) -/

/-- the rows of `targets.<level>` (`keep = true`) / `decoys.<level>` (`keep = false`):
the level rows with that label, in level-file order, each with the q-value and the
PEP of its own position -/
def fileSpec (keep : Bool) (rows : List LRow) (qs ps : List Rat) : List ORow :=
  (((rows.zip (qs.zip ps)).filter (fun e => e.1.target == keep))).map
    (fun e => { id := e.1.id, score := e.1.score, q := e.2.1, pep := e.2.2 })

end Mk.Peps
