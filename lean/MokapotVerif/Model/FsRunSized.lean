import MokapotVerif.Model.FsRunExt
/-!
# Second extension of the file-operation model (C09): how many chunk files are written, how many
are merged; the SQLite result database

src: mokapot/confidence.py:826-881 (`create_sorted_file_iterator`), mokapot/utils.py:79-100
(`create_chunks`), mokapot/tabular_data.py (`get_chunked_data_iterator`);
mokapot/confidence.py:101-170 (`write_to_disk`: `out_paths = [sqlite_path]`), 448-459 (the result
files are unlinked after the database was written), mokapot/confidence_writer.py:123-165.

`Model/FsRunExt.lean` has one number `k` per collection: the chunk files written, merged and
unlinked.  The code computes them from *two* lengths:

* the paths `scores_metadata_paths` — merged by `merge_sort` and unlinked in the `finally` block —
  are `len(scores_slices)` many, `scores_slices = create_chunks(score, CONFIDENCE_CHUNK_SIZE)`:
  one per chunk of the **score array**;
* a chunk file is written for every element of
  `zip(file_iterator, scores_slices, scores_metadata_paths)`: `zip` stops at the shortest, and
  `file_iterator` yields one chunk per `CONFIDENCE_CHUNK_SIZE` rows of the **table**.

With as many scores as rows both numbers are the same and `collOpsKW … = collOps …`.  With more
score chunks than table chunks the code merged (and deleted) files it had not written — whatever
an earlier run left under those names (finding F4, repaired in /repo by f8287a0).  The repaired
code (confidence.py:857-881) records the paths it writes and, when they are fewer than the score
chunks, unlinks them and raises `ValueError` before the merge: `refusedCollOps`, `runOpsChecked`,
`assignOpsSized`.  The loop before the repair is kept as `runOpsKW` / `assignOpsSizedOld`.
Everything here *adds* to the earlier model.
-/
namespace Mk.FsRun

/-! ## sizes -/

/-- `len(create_chunks(data, c))` = `len(range(0, n, c))`: the number of chunks of `n` items,
the last one possibly shorter -/
-- src: mokapot/utils.py:79-100
def chunkCount (n c : Nat) : Nat := (n + c - 1) / c

/-- length of chunk `i` of `n` items (`data[i*c : i*c + c]`) -/
-- src: mokapot/utils.py:100
def sliceLen (n c i : Nat) : Nat := min c (n - i * c)

/-- number of chunk files written: `zip(file_iterator, scores_slices, scores_metadata_paths)`
stops at the shorter of the table's chunks and the score chunks -/
-- src: mokapot/confidence.py:853-864
def writtenCount (nrows nscores c : Nat) : Nat := min (chunkCount nrows c) (chunkCount nscores c)

/-- `chunk_metadata.assign(score=score_chunk)` raises a `ValueError` when the two lengths differ
(mokapot/confidence.py:900): every chunk that is written has as many scores as rows -/
def lensAgree (nrows nscores c : Nat) : Bool :=
  (List.range (writtenCount nrows nscores c)).all
    (fun i => sliceLen nrows c i == sliceLen nscores c i)

/-! ## one collection with its two numbers -/

/-- the body of the loop for one collection, `kw` chunk files written, `c.k` paths merged and
unlinked (confidence.py:843-881) -/
def collOpsKW (prot : Bool) (nl : Nat) (decoys : Bool) (init : Bool) (c : Coll) (kw : Nat) :
    List Op :=
  (if init then xphase1 c.pfx (nlp prot nl) decoys c.hdr else []) ++ (xphase2 c.pfx kw c.data ++
    (xphase3 c.pfx c.k ++ (phase4 nl c.lvhdr c.lvdata ++ (xphase5 c.pfx c.k ++
      (protOps prot nl c.pdata ++ xphase6 c.pfx (nlp prot nl) decoys c.res c.resd)))))

/-- the loop over the collections, each with the number of chunk files it writes -/
def runOpsKW (prot : Bool) (nl : Nat) (decoys : Bool) (req : Bool) :
    Bool → List (Coll × Nat) → List Op
  | _, [] => []
  | seen, e :: rest =>
    collOpsKW prot nl decoys (!(req || (seen && e.1.pfx.isNone))) e.1 e.2 ++
      runOpsKW prot nl decoys req (seen || e.1.pfx.isNone) rest

/-- a collection given by its sizes: prefix, rows of the table, length of the score array -/
structure SizedColl where
  pfx : Option Nat
  nrows : Nat
  nscores : Nat

/-- its file operations are those of a collection with `chunkCount nscores c` paths of which
`writtenCount nrows nscores c` are written -/
def sizedEntry (chunk : Nat) (mk : Option Nat → Nat → Coll) (s : SizedColl) : Coll × Nat :=
  (mk s.pfx (chunkCount s.nscores chunk), writtenCount s.nrows s.nscores chunk)

/-- what a collection does when fewer chunk files were written than there are score chunks
(confidence.py:873-881): the result writers were initialised, `kw` chunk files written; they are
unlinked again and `ValueError` is raised — nothing has been read -/
def refusedCollOps (prot : Bool) (nl : Nat) (decoys : Bool) (init : Bool) (c : Coll) (kw : Nat) :
    List Op :=
  (if init then xphase1 c.pfx (nlp prot nl) decoys c.hdr else []) ++
    (xphase2 c.pfx kw c.data ++ xphase5 c.pfx kw)

/-- the repaired loop: the operations performed, and whether the call completed (`false`: it
stopped with the `ValueError` of the first collection that wrote fewer chunk files than it has
score chunks; the collections before it are complete) -/
def runOpsChecked (prot : Bool) (nl : Nat) (decoys : Bool) (req : Bool) :
    Bool → List (Coll × Nat) → List Op × Bool
  | _, [] => ([], true)
  | seen, e :: rest =>
    if e.2 = e.1.k then
      (collOpsKW prot nl decoys (!(req || (seen && e.1.pfx.isNone))) e.1 e.2 ++
          (runOpsChecked prot nl decoys req (seen || e.1.pfx.isNone) rest).1,
        (runOpsChecked prot nl decoys req (seen || e.1.pfx.isNone) rest).2)
    else (refusedCollOps prot nl decoys (!(req || (seen && e.1.pfx.isNone))) e.1 e.2, false)

/-- `assign_confidence` on collections given by their sizes, with `CONFIDENCE_CHUNK_SIZE = chunk`:
refused (`none`) as in `assignOps`; when some written chunk would get a score slice of another
length (`ValueError` out of `DataFrame.assign`); and when a collection has more score chunks than
table chunks (`ValueError` before the merge) -/
def assignOpsSized (prot : Bool) (nl : Nat) (decoys : Bool) (req : Bool) (chunk : Nat)
    (mk : Option Nat → Nat → Coll) (ss : List SizedColl) : Option (List Op) :=
  if prot && decide (nl < 2) then none
  else if ss.all (fun s => lensAgree s.nrows s.nscores chunk) then
    (if (runOpsChecked prot nl decoys req false (ss.map (sizedEntry chunk mk))).2
      then some (runOpsChecked prot nl decoys req false (ss.map (sizedEntry chunk mk))).1 else none)
  else none

/-- the call before the repair of F4: more score chunks than table chunks were not refused -/
def assignOpsSizedOld (prot : Bool) (nl : Nat) (decoys : Bool) (req : Bool) (chunk : Nat)
    (mk : Option Nat → Nat → Coll) (ss : List SizedColl) : Option (List Op) :=
  if prot && decide (nl < 2) then none
  else if ss.all (fun s => lensAgree s.nrows s.nscores chunk) then
    some (runOpsKW prot nl decoys req false (ss.map (sizedEntry chunk mk)))
  else none

/-- every collection has as many score chunks as table chunks -/
def sizesFit (chunk : Nat) (ss : List SizedColl) : Bool :=
  ss.all (fun s => decide (chunkCount s.nscores chunk ≤ chunkCount s.nrows chunk))

/-! ## the SQLite result database (`sqlite_path=`, CLI `--sqlite_db_path`)

`write_to_disk` replaces the result paths by `[sqlite_path]`: one writer, `UPDATE`/`INSERT`
statements on tables that must exist (the database is an input *and* an output: a declared input
like the result files under `append_to_output_file=True`); afterwards the text result files of the
level — initialised earlier by this run — are unlinked, then the level file. -/

-- src: mokapot/confidence.py:448-459, mokapot/confidence_writer.py:123-165
def sqlFinishLevelOps (p : Option Nat) (decoys : Bool) (db : Name) (res : Nat → Outs → List Nat)
    (l : Nat) : List Op :=
  Op.read (.level l) :: Op.append db (res l) :: Op.unlink (targetOf p l) ::
    ((if decoys then [Op.unlink (decoyOf p l)] else []) ++ [Op.unlink (.level l)])

def sqlPhase6 (p : Option Nat) (n : Nat) (decoys : Bool) (db : Name)
    (res : Nat → Outs → List Nat) : List Op :=
  (List.range n).flatMap (sqlFinishLevelOps p decoys db res)

/-- one collection with `sqlite_path` set (no protein level: the database writer has no statement
for it and raises `KeyError`); the result writers are initialised (`init = true`: a collection
that does not initialise them fails in `os.unlink` unless the files happen to exist) -/
def collOpsSql (nl : Nat) (decoys : Bool) (db : Name) (c : Coll) : List Op :=
  xphase1 c.pfx nl decoys c.hdr ++ (xphase2 c.pfx c.k c.data ++ (xphase3 c.pfx c.k ++
    (phase4 nl c.lvhdr c.lvdata ++ (xphase5 c.pfx c.k ++ sqlPhase6 c.pfx nl decoys db c.res))))

/-- the same with the unlinking of the text result files left out -/
def sqlFinishLevelOpsKeep (db : Name) (res : Nat → Outs → List Nat) (l : Nat) : List Op :=
  [Op.read (.level l), Op.append db (res l), Op.unlink (.level l)]

def collOpsSqlKeep (nl : Nat) (decoys : Bool) (db : Name) (c : Coll) : List Op :=
  xphase1 c.pfx nl decoys c.hdr ++ (xphase2 c.pfx c.k c.data ++ (xphase3 c.pfx c.k ++
    (phase4 nl c.lvhdr c.lvdata ++ (xphase5 c.pfx c.k ++
      (List.range nl).flatMap (sqlFinishLevelOpsKeep db c.res)))))

/-- the database file of the run: a name no chunk, level or result file has -/
def dbName : Name := .other "sqlite"

/-! ## concrete instances (driver, `#guard`s, witnesses) -/

def demoRunKW (prot : Bool) (nl : Nat) (decoys : Bool) (req : Bool)
    (cs : List (Option Nat × Nat × Nat)) : List Op :=
  runOpsKW prot nl decoys req false (cs.map (fun c => (demoColl c.1 c.2.1, c.2.2)))

def demoAssignSized (prot : Bool) (nl : Nat) (decoys : Bool) (req : Bool) (chunk : Nat)
    (ss : List SizedColl) : Option (List Op) :=
  assignOpsSized prot nl decoys req chunk demoColl ss

def demoAssignSizedOld (prot : Bool) (nl : Nat) (decoys : Bool) (req : Bool) (chunk : Nat)
    (ss : List SizedColl) : Option (List Op) :=
  assignOpsSizedOld prot nl decoys req chunk demoColl ss

/-- the operations of the sized call up to its end or its refusal, and whether it completed -/
def demoRunChecked (prot : Bool) (nl : Nat) (decoys : Bool) (req : Bool) (chunk : Nat)
    (ss : List SizedColl) : List Op × Bool :=
  runOpsChecked prot nl decoys req false (ss.map (sizedEntry chunk demoColl))

def demoSql (nl : Nat) (decoys : Bool) (p : Option Nat) (k : Nat) : List Op :=
  collOpsSql nl decoys dbName (demoColl p k)

def demoSqlKeep (nl : Nat) (decoys : Bool) (p : Option Nat) (k : Nat) : List Op :=
  collOpsSqlKeep nl decoys dbName (demoColl p k)

end Mk.FsRun
