/-!
# Model of the cross-validation bookkeeping of `brew`

src: mokapot/dataset.py:633-687 (`_split`), mokapot/brew.py:149 (folds per file),
308-361 (`make_train_sets`), mokapot/parsers/pin.py:315-398 (`get_rows_from_dataframe`,
`concat_and_reindex_chunks`, `parse_in_chunks`), brew.py:186-193 (`_fit_model`, sort by
fold), 224-249 (routing), 394-476 (`_predict`).

Rows are identified with their position `0 … n-1` in the file.  The spectrum key enters
only through its hash (`crc32(str(tuple(x[:2])))`), an arbitrary `Nat` here; the learner is
an arbitrary function.  Nondeterminism (argsort order among equal hashes, `rng.shuffle`
inside each fold, Python set iteration order, `rng.choice`, completion order of worker
threads) never appears as a choice made by the model: theorems quantify over it.
Import-free.
-/
namespace Mk.Brew

/-! ## `_split` -/

/-- positions at which a new value starts in the hash-sorted array:
`np.unique(spectra, return_index=True)[1]` (dataset.py:666) -/
def groupStartsAux : Nat → Option Nat → List Nat → List Nat
  | _, _, [] => []
  | i, prev, h :: rest =>
    if prev = some h then groupStartsAux (i + 1) (some h) rest
    else i :: groupStartsAux (i + 1) (some h) rest

def groupStarts (hs : List Nat) : List Nat := groupStartsAux 0 none hs

/-- `start_split_indices` (dataset.py:669-676): the `i`-th split point is the sum of the
first `i+1` fold sizes `fold_size + (1 if j < remainder else 0)` -/
def splitPoints (n folds : Nat) : List Nat :=
  (List.range (folds - 1)).map (fun i => (i + 1) * (n / folds) + min (i + 1) (n % folds))

/-- `idx_start_unique[np.searchsorted(idx_start_unique, p)]` (dataset.py:680-682): the first
group start at or after `p`; `none` is the `IndexError` of an out-of-range position -/
def firstGE (starts : List Nat) (p : Nat) : Option Nat := starts.find? (fun s => decide (p ≤ s))

/-- `np.split(arr, cuts)` for non-decreasing cut positions; `off` = elements already consumed -/
def npSplit {α : Type} : List α → Nat → List Nat → List (List α)
  | xs, _, [] => [xs]
  | xs, off, c :: cs => xs.take (c - off) :: npSplit (xs.drop (c - off)) c cs

/-- `_split` given the hash-sorted array of `(hash, row index)` pairs (the result of
`np.argsort(spectra)`, any order among equal hashes): the folds before the in-fold shuffle. -/
def splitWith (sorted : List (Nat × Nat)) (folds : Nat) : Option (List (List Nat)) :=
  let starts := groupStarts (sorted.map (·.1))
  ((splitPoints sorted.length folds).mapM (firstGE starts)).map
    (fun cuts => npSplit (sorted.map (·.2)) 0 cuts)

/-- executable instance: stable merge sort by hash as the `argsort` -/
def split (hashes : List Nat) (folds : Nat) : Option (List (List Nat)) :=
  splitWith (hashes.zipIdx.mergeSort (fun a b => decide (a.1 ≤ b.1))) folds

/-! ## `make_train_sets` -/

/-- `set(range(ds)) - set(idx)` in increasing order (one enumeration of the set; the code's
`list(set …)` order is unspecified) (brew.py:339-344) -/
def complement (ds : Nat) (fold : List Nat) : List Nat :=
  (List.range ds).filter (fun i => !fold.contains i)

/-- per-file caps (brew.py:324-331): `subset_max_train // nfiles`, the last file gets the rest -/
def perFileCaps (cap nfiles : Nat) : List Nat :=
  (List.range nfiles).map (fun i => cap / nfiles + (if i + 1 = nfiles then cap - (cap / nfiles) * nfiles else 0))

/-- is sub-sampling applied to file `i` of a fold whose training indices have the given sizes?
(brew.py:346-360: total size above the cap, and this file's cap below the *total* size) -/
def subsampled (caps : List Nat) (sizes : List Nat) (i : Nat) : Bool :=
  decide (caps.sum < sizes.sum) && decide (caps.getD i 0 < sizes.sum)

/-! ## `parse_in_chunks`: materialising the training rows -/

/-- pandas `reindex(idx)` on the concatenated pieces: the row stored under each label
(`none` would be a NaN row for a missing label) (pin.py:350-354) -/
def reindex {ρ : Type} (tbl : List (Nat × ρ)) (idx : List Nat) : List (Option ρ) :=
  idx.map (fun i => tbl.lookup i)

/-- the piece of one chunk that belongs to a training set: `chunk.loc[list(set(train) & set(chunk.index))]`
in file order (one enumeration of the intersection) (pin.py:344-346) -/
def chunkPiece {ρ : Type} (train : List Nat) (chunk : List (Nat × ρ)) : List (Nat × ρ) :=
  chunk.filter (fun p => train.contains p.1)

/-! ## routing and prediction -/

/-- `(fold number, row index)` for every row, fold by fold: `[[i] * len(idx)]` next to
`utils.flatten(test_fold_idx)` (brew.py:225-233) -/
def foldTags (folds : List (List Nat)) : List (Nat × Nat) :=
  folds.zipIdx.flatMap (fun fi => fi.1.map (fun p => (p, fi.2)))

/-- `np.concatenate(model_idx)[np.argsort(flatten(folds))]`: the fold of every row, in row
order (brew.py:236-239).  `n` rows. -/
def route (folds : List (List Nat)) (n : Nat) : List Nat :=
  (List.range n).map (fun p => ((foldTags folds).lookup p).getD 0)

/-- rows of one prediction chunk that go to fold `f`, with their global row index
(`get_index_values`, brew.py:384-387, 428-433) -/
def foldSlice {ρ : Type} (f : Nat) (chunk : List ((Nat × ρ) × Nat)) : List (Nat × ρ) :=
  (chunk.filter (fun x => x.2 == f)).map (·.1)

/-- all rows scored by model `f`, chunk after chunk (`fold_scores[f]`, `orig_idx[f]`) -/
def foldRows {ρ : Type} (f : Nat) (chunks : List (List ((Nat × ρ) × Nat))) : List (Nat × ρ) :=
  (chunks.map (foldSlice f)).flatten

/-- consecutive chunks of `c` rows (fuel = length) -/
def chunksFuel {β : Type} (c : Nat) : Nat → List β → List (List β)
  | 0, _ => []
  | _, [] => []
  | fuel + 1, xs => xs.take c :: chunksFuel c fuel (xs.drop c)

def chunks {β : Type} (c : Nat) (xs : List β) : List (List β) := chunksFuel c xs.length xs

/-- `_predict` for one file: rows are read in chunks of `c`, every chunk is split by the
routing column, model `f` scores its slice, per-fold scores are calibrated with a map
`cal` computed from *that fold's* raw scores and target flags only, the folds are
concatenated and `np.argsort(sum(orig_idx, []))` restores the row order.
`score f r` is model `f`'s raw output on row `r`; `σ` the score type. -/
def predict {ρ σ : Type} [Inhabited σ] (c nfolds : Nat) (rows : List ρ) (routing : List Nat)
    (score : Nat → ρ → σ) (target : ρ → Bool) (cal : List (σ × Bool) → σ → σ) : List σ :=
  let tagged := (rows.zipIdx.map (fun x => (x.2, x.1))).zip routing     -- ((idx,row),fold)
  let chs := chunks c tagged
  let perFold := (List.range nfolds).map (fun f =>
    let rs := foldRows f chs
    let raw := rs.map (fun x => score f x.2)
    let g := cal (raw.zip (rs.map (fun x => target x.2)))
    (rs.map (·.1)).zip (raw.map g))
  let all := perFold.flatten                                              -- (orig idx, calibrated)
  (List.range rows.length).map (fun p => (all.lookup p).getD default)

/-- **Specification** of the returned scores: row `p` gets the calibrated output of the model
of *its own fold*, the calibration map being computed from exactly the rows of that fold
(in file order). -/
def predictSpec {ρ σ : Type} (rows : List ρ) (routing : List Nat)
    (score : Nat → ρ → σ) (target : ρ → Bool) (cal : List (σ × Bool) → σ → σ) : List σ :=
  (rows.zip routing).map (fun x =>
    let f := x.2
    let mine := ((rows.zip routing).filter (fun y => y.2 == f)).map (·.1)
    cal (mine.map (fun r => (score f r, target r))) (score f x.1))

end Mk.Brew

namespace Mk.Brew

/-! ## Decidable checker of the C02 clauses on *observed* folds / training sets / routing
(used by the driver on what the real `brew` did; the clauses are those of the theorems). -/

def foldOf (fs : List (List Nat)) (i : Nat) : Nat := fs.findIdx (fun fold => fold.contains i)

def sameKeySameFold (hashes : List Nat) (fs : List (List Nat)) : Bool :=
  (List.range hashes.length).all (fun i => (List.range hashes.length).all (fun j =>
    !(hashes.getD i 0 == hashes.getD j 0) || foldOf fs i == foldOf fs j))

def isPartition (n : Nat) (fs : List (List Nat)) : Bool :=
  let flat := fs.flatten
  flat.length == n && (List.range n).all (fun i => flat.contains i)

def trainOk (hashes : List Nat) (fold train : List Nat) (capped : Bool) : Bool :=
  train.eraseDups.length == train.length &&
  train.all (fun i => decide (i < hashes.length) && !fold.contains i &&
    fold.all (fun j => !(hashes.getD i 0 == hashes.getD j 0))) &&
  (capped || train.length + fold.length == hashes.length)

/-- names of the violated clauses (empty = all hold) -/
def brewSpecB (folds : Nat) (hashes : List Nat) (fs trains : List (List Nat)) (capped : Bool)
    (routing : List Nat) : List String :=
  (if fs.length == folds then [] else ["fold-count"]) ++
  (if isPartition hashes.length fs then [] else ["not-a-partition"]) ++
  (if sameKeySameFold hashes fs then [] else ["spectrum-split-across-folds"]) ++
  (if trains.length == fs.length && (fs.zip trains).all (fun ft => trainOk hashes ft.1 ft.2 capped)
    then [] else ["training-set-not-disjoint-from-held-out-fold"]) ++
  (if routing == (List.range hashes.length).map (foldOf fs) then [] else ["routing"])

end Mk.Brew
