import MokapotVerif.Model.FsRun
import MokapotVerif.Model.FsRunExt
/-!
# The verify step decided by file content, at write granularity; interrupted command line runs
(C09, third pass)

src: mokapot/mokapot.py:61-73 (the loop over `config.psm_files`: `is_valid_tsv(f_pin)` decides the
branch *from the file as it is now*; `open(path_tsv, "w")`, `pin_to_valid_tsv` writes the header and
then one line per row, `shutil.move(path_tsv, path_pin)`), mokapot/parsers/pin_to_tsv.py:154-220
(`f_out.write` once per line), mokapot/mokapot.py:79-172 (the analysis after the verify step).

`Model/FsRunExt.lean` takes the branch of the verify step as a parameter (`needs j`) and compares
two directories that hold *the same* PIN files.  That leaves out the one leftover that the command
line produces next to the user's input: a run that failed or was interrupted during the verify
step has left `<pin>.tsv` (partly written) in the input directory, or has already moved it over the
PIN.  Here

* the branch is computed from the directory (`needsOf`), the converter is a function of the
  content read last (`convOf`), the loop is sequential (`verifyLoopC`);
* the earlier run is an operation list at the granularity of single `write` calls
  (`verifyMicro`, `cliMicro`) that can be cut anywhere (`crashRun`);
* the analysis starts from an empty record of values read (`cliMainC`): what `is_valid_tsv` read is
  not visible to it.

Import-free apart from the base models.
-/
namespace Mk.FsRun

/-- what the verify step leaves in a PIN file with content `x`: `x` itself when `is_valid_tsv`
accepts it, its conversion otherwise -/
-- src: mokapot/mokapot.py:65-73
def normPin (valid : List Nat → Bool) (cv : List Nat → List Nat) (x : List Nat) : List Nat :=
  if valid x then x else cv x

/-- `not is_valid_tsv(f_pin)` evaluated on the directory -/
-- src: mokapot/mokapot.py:65-67
def needsOf (valid : List Nat → Bool) (fs : FS) (j : Nat) : Bool :=
  !valid (FS.content fs (.pin j))

/-- the converted text as a function of the values read so far: `pin_to_valid_tsv(f_in=f_pin, …)`
reads the handle opened last -/
-- src: mokapot/mokapot.py:70-72
def convOf (cv : List Nat → List Nat) (_ : Nat) (outs : Outs) : List Nat :=
  cv (outs.getLast?.getD [])

/-- one iteration of the verify loop, the branch decided by the content the file has *now* -/
-- src: mokapot/mokapot.py:64-73
def verifyStepC (valid : List Nat → Bool) (cv : List Nat → List Nat) (s : FS × Outs) (j : Nat) :
    FS × Outs :=
  exec s.1 s.2 (verifyOps (needsOf valid s.1) (convOf cv) j)

-- src: mokapot/mokapot.py:63-64 (`if config.verify_pin: for path_pin in config.psm_files`)
def verifyLoopC (valid : List Nat → Bool) (cv : List Nat → List Nat) (js : List Nat)
    (s : FS × Outs) : FS × Outs :=
  js.foldl (verifyStepC valid cv) s

/-- everything after the verify step: `read_pin`, (brew), `assign_confidence`, `--save_models`;
literally the operation list of `cliMainOps` without the verify step -/
-- src: mokapot/mokapot.py:79-172
def cliTail (nf : Nat) (prot : Bool) (nl : Nat) (decoys : Bool) (colls : List Coll)
    (nm : Nat) (mdl : Nat → Outs → List Nat) : List Op :=
  cliMainOps false nf (fun _ => false) (fun _ _ => []) prot nl decoys colls nm mdl

/-- `mokapot.mokapot.main`, branches of the verify step taken from the files: the analysis sees
the directory the verify loop leaves, not the values the loop has read -/
-- src: mokapot/mokapot.py:61-172
def cliMainC (valid : List Nat → Bool) (cv : List Nat → List Nat) (verify : Bool) (nf : Nat)
    (prot : Bool) (nl : Nat) (decoys : Bool) (colls : List Coll)
    (nm : Nat) (mdl : Nat → Outs → List Nat) (fs : FS) : FS × Outs :=
  exec (if verify then (verifyLoopC valid cv (List.range nf) (fs, [])).1 else fs) []
    (cliTail nf prot nl decoys colls nm mdl)

/-! ## write granularity -/

/-- the converted text: everything `pin_to_valid_tsv` writes, in order -/
def cvOf (lines : List Nat → List (List Nat)) (x : List Nat) : List Nat := (lines x).flatten

/-- `open(path_tsv, "w")` (the file exists and is empty), then one `f_out.write` per line -/
-- src: mokapot/mokapot.py:71-72, mokapot/parsers/pin_to_tsv.py:154-220
def convWrites (j : Nat) (ls : List (List Nat)) : List Op :=
  Op.trunc (.pinTsv j) (fun _ => []) :: ls.map (fun ln => Op.append (.pinTsv j) (fun _ => ln))

/-- the verify step of file `j` call by call, as decided in directory `fs` -/
-- src: mokapot/mokapot.py:64-73
def verifyMicro (valid : List Nat → Bool) (lines : List Nat → List (List Nat)) (fs : FS)
    (j : Nat) : List Op :=
  Op.read (.pin j) :: (if valid (FS.content fs (.pin j)) then [] else
    Op.read (.pin j) :: (convWrites j (lines (FS.content fs (.pin j))) ++
      [Op.move (.pinTsv j) (.pin j)]))

/-- a whole command line run call by call: the verify loop over the files `js`, then any
operations `rest` (the analysis; it writes no PIN file and no `<pin>.tsv`) -/
def cliMicro (valid : List Nat → Bool) (lines : List Nat → List (List Nat)) (fs : FS)
    (js : List Nat) (rest : List Op) : List Op :=
  js.flatMap (verifyMicro valid lines fs) ++ rest

/-- an earlier run: the files it was given, what it would do after the verify step, and the number
of file operations after which it failed or was interrupted (`m ≥ length`: it completed) -/
structure Earlier where
  nf : Nat
  rest : List Op
  m : Nat

/-- the directory such a run leaves -/
def crashRun (valid : List Nat → Bool) (lines : List Nat → List (List Nat)) (fs : FS)
    (e : Earlier) : FS :=
  (exec fs [] ((cliMicro valid lines fs (List.range e.nf) e.rest).take e.m)).1

/-- … and a sequence of them, one after the other -/
def crashRuns (valid : List Nat → Bool) (lines : List Nat → List (List Nat)) (fs : FS)
    (es : List Earlier) : FS :=
  es.foldl (crashRun valid lines) fs

/-- neither a PIN file nor a `<pin>.tsv` -/
def notPinName : Name → Bool
  | .pin _ => false
  | .pinTsv _ => false
  | _ => true

/-! ## variants that are *not* the code (refuted in `Mutants/FsRunCrash.lean`) -/

/-- the verify step with a make-style shortcut: a `<pin>.tsv` that is already there is taken for the
converted copy and moved over the PIN (seeded change C09e) -/
def verifyStepProbe (valid : List Nat → Bool) (cv : List Nat → List Nat) (s : FS × Outs) (j : Nat) :
    FS × Outs :=
  if needsOf valid s.1 j && (FS.get s.1 (.pinTsv j)).isSome then
    exec s.1 s.2 [Op.read (.pin j), Op.move (.pinTsv j) (.pin j)]
  else verifyStepC valid cv s j

/-- the verify step with the move done as copy-then-delete (what `shutil.move` does across file
systems): the PIN is truncated and rewritten line by line, then `<pin>.tsv` is unlinked -/
def verifyMicroCopy (valid : List Nat → Bool) (lines : List Nat → List (List Nat)) (fs : FS)
    (j : Nat) : List Op :=
  Op.read (.pin j) :: (if valid (FS.content fs (.pin j)) then [] else
    Op.read (.pin j) :: (convWrites j (lines (FS.content fs (.pin j))) ++
      (Op.trunc (.pin j) (fun _ => []) ::
        (lines (FS.content fs (.pin j))).map (fun ln => Op.append (.pin j) (fun _ => ln))) ++
      [Op.unlink (.pinTsv j)]))

/-! ## a concrete instance (driver, `#guard`s, witnesses)

A PIN file is `[t, n]`: `t` even = a valid table; its conversion has `n` lines `[100], [102], …`
(all even, so the conversion is valid). -/

def demoValid (x : List Nat) : Bool := x.headD 0 % 2 == 0

def demoLines (x : List Nat) : List (List Nat) :=
  (List.range (x.getD 1 0)).map (fun i => [100 + 2 * i])

def demoCv (x : List Nat) : List Nat := cvOf demoLines x

/-- the PIN files of a demo run: `(valid?, number of converted lines)` per file -/
def demoPins (files : List (Bool × Nat)) : FS :=
  (List.range files.length).map
    (fun j => (Name.pin j, [2 * j + (if (files.getD j (true, 0)).1 then 0 else 1) + 10,
      (files.getD j (true, 0)).2]))

end Mk.FsRun
