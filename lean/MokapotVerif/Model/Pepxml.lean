/-!
# Model of the PepXML parser  (mokapot/parsers/pepxml.py)

Import-free.  A PepXML file is modelled after XML parsing (lxml is trusted):
an abstract document `runs → spectrum queries → search results → search hits`,
a hit carrying its attributes and, in document order, its `modification_info`,
`search_score` and `alternative_protein` descendants.  Text is `List Char`
(Python `str` = sequence of code points), numbers written in the file are exact
rationals (`float(text)` is correctly rounded, see DESIGN §2.3), a score value
is the literal `root` or `root e pow` as written (`Num`).

Everything lives in `Mk.Pepxml` (the aggregated root imports all models).
-/
namespace Mk.Pepxml

abbrev Str := List Char

/-! ## The abstract document -/

/-- numeric literal of a `search_score`: text `root` (`pow = none`) or `root e pow` -/
structure Num where
  root : Rat
  pow : Option Int
  deriving Repr

/-- `<mod_aminoacid_mass position= mass=>` -/
structure Mod where
  pos : Nat
  mass : Str
  deriving Repr

/-- the descendants visited by `psm_info.iter(*queries)`, in document order -/
inductive Child where
  | mods (ms : List Mod)                 -- one `modification_info` element
  | score (name : String) (value : Num)  -- `search_score name= value=`
  | alt (protein : Str)                  -- `alternative_protein protein=`
  deriving Repr

structure Hit where
  calcMass : Rat
  peptide : Str
  protein : Str
  missed : Option Int      -- num_missed_cleavages (optional attribute)
  ntt : Option Int         -- num_tol_term (optional attribute)
  nmatched : Option Nat    -- num_matched_peptides (optional attribute)
  children : List Child
  deriving Repr

structure Spectrum where
  scan : Int
  charge : Int
  retTime : Rat
  expMass : Rat
  results : List (List Hit)   -- `search_result` elements, each with its `search_hit`s
  deriving Repr

structure Run where
  baseName : Str
  rawData : Str
  spectra : List Spectrum
  deriving Repr

inductive File where
  | doc (runs : List Run)
  | malformed                 -- lxml raises XMLSyntaxError somewhere in the stream
  deriving Repr

/-! ## `_parse_psm` -/

/-- a value stored in the PSM dict under a feature key -/
inductive Cell where
  | int (i : Int)       -- `int(...)` of an optional attribute
  | text (v : Num)      -- the `value` string of a search score
  deriving Repr

/-- the PSM dict while `_parse_psm` runs (`proteins` still a list) -/
structure Psm where
  msDataFile : Str
  scan : Int
  charge : Int
  retTime : Rat
  expMass : Rat
  calcMass : Rat
  peptide : Str
  proteins : List Str
  label : Bool
  feats : List (String × Cell)
  deriving Repr

/-- the finished record (`proteins` tab-joined) = one row of the data frame -/
structure Row where
  msDataFile : Str
  scan : Int
  charge : Int
  retTime : Rat
  expMass : Rat
  calcMass : Rat
  peptide : Str
  proteins : Str
  label : Bool
  feats : List (String × Cell)
  deriving Repr

/-- `d[k] = v` on an insertion-ordered dict. src: mokapot/parsers/pepxml.py:307 -/
def dictSet (k : String) (v : Cell) : List (String × Cell) → List (String × Cell)
  | [] => [(k, v)]
  | kv :: rest => if kv.1 = k then (kv.1, v) :: rest else kv :: dictSet k v rest

/-- `"[" + mass + "]"` -/
def bracket (mass : Str) : Str := '[' :: (mass ++ [']'])

/-- `s[:idx] + ins + s[idx:]` for `idx ≥ 0` (slices clamp) -/
def insertAt (s : Str) (idx : Nat) (ins : Str) : Str := s.take idx ++ (ins ++ s.drop idx)

/-- one `mod_aminoacid_mass`: insert at `offset + position`, advance the offset
by `2 + len(mass)`.  src: mokapot/parsers/pepxml.py:293-297 -/
def modStep (st : Str × Nat) (m : Mod) : Str × Nat :=
  (insertAt st.1 (st.2 + m.pos) (bracket m.mass), st.2 + (2 + m.mass.length))

/-- one `modification_info` element.  src: mokapot/parsers/pepxml.py:290-299 -/
def insertMods (pep : Str) (ms : List Mod) : Str := (ms.foldl modStep (pep, 0)).1

/-- `attr.split(" ")[0]` -/
def accession (attr : Str) : Str := attr.takeWhile (fun c => c != ' ')

/-- `acc.startswith(decoy_prefix)` -/
def isDecoyAcc (pfx acc : Str) : Bool := pfx.isPrefixOf acc

/-- `if not psm["label"]: psm["label"] = not proteins[-1].startswith(prefix)`
src: mokapot/parsers/pepxml.py:303-304 -/
def relabel (pfx : Str) (label : Bool) (acc : Str) : Bool :=
  if label then label else !(isDecoyAcc pfx acc)

/-- body of the `for element in psm_info.iter(*queries)` loop.
src: mokapot/parsers/pepxml.py:289-307 -/
def childStep (pfx : Str) (p : Psm) : Child → Psm
  | .mods ms => { p with peptide := insertMods p.peptide ms }
  | .alt a => { p with proteins := p.proteins ++ [accession a],
                       label := relabel pfx p.label (accession a) }
  | .score n v => { p with feats := dictSet n (.text v) p.feats }

def optFeat (k : String) (v : Option Int) : List (String × Cell) :=
  (v.map (fun i => [(k, Cell.int i)])).getD []

/-- the three `try: psm[...] = int(psm_info.get(...)) except TypeError: pass` blocks.
src: mokapot/parsers/pepxml.py:269-282 -/
def initFeats (h : Hit) : List (String × Cell) :=
  optFeat "missed_cleavages" h.missed ++ (optFeat "ntt" h.ntt ++
    optFeat "num_matched_peptides" (h.nmatched.map Int.ofNat))

/-- the spectrum's dict (`spec_info`), here: data file name and the spectrum -/
structure SpecInfo where
  msDataFile : Str
  scan : Int
  charge : Int
  retTime : Rat
  expMass : Rat

/-- src: mokapot/parsers/pepxml.py:262-266 -/
def initPsm (pfx : Str) (si : SpecInfo) (h : Hit) : Psm :=
  { msDataFile := si.msDataFile, scan := si.scan, charge := si.charge, retTime := si.retTime,
    expMass := si.expMass, calcMass := h.calcMass, peptide := h.peptide,
    proteins := [accession h.protein],
    label := !(isDecoyAcc pfx (accession h.protein)),
    feats := initFeats h }

/-- `"\t".join(psm["proteins"])`.  src: mokapot/parsers/pepxml.py:309 -/
def finishPsm (p : Psm) : Row :=
  { msDataFile := p.msDataFile, scan := p.scan, charge := p.charge, retTime := p.retTime,
    expMass := p.expMass, calcMass := p.calcMass, peptide := p.peptide,
    proteins := List.intercalate ['\t'] p.proteins, label := p.label, feats := p.feats }

/-- src: mokapot/parsers/pepxml.py:244-310 -/
def parsePsm (pfx : Str) (si : SpecInfo) (h : Hit) : Row :=
  finishPsm (h.children.foldl (childStep pfx) (initPsm pfx si h))

/-! ## Nested generators -/

/-- `if not base_name.endswith(raw_data): base_name += raw_data`
src: mokapot/parsers/pepxml.py:206-209 -/
def dataFile (r : Run) : Str :=
  if r.rawData.isSuffixOf r.baseName then r.baseName else r.baseName ++ r.rawData

def specInfo (file : Str) (s : Spectrum) : SpecInfo :=
  { msDataFile := file, scan := s.scan, charge := s.charge, retTime := s.retTime, expMass := s.expMass }

/-- generator over `search_result` / `search_hit`.  src: mokapot/parsers/pepxml.py:216-241 -/
def parseSpectrum (pfx : Str) (file : Str) (s : Spectrum) : List Row :=
  s.results.flatMap (fun res => res.map (parsePsm pfx (specInfo file s)))

/-- generator of per-spectrum generators.  src: mokapot/parsers/pepxml.py:184-213 -/
def parseRun (pfx : Str) (r : Run) : List (List Row) :=
  r.spectra.map (parseSpectrum pfx (dataFile r))

/-- `chain.from_iterable(chain.from_iterable(map(parse_fun, parser)))`
src: mokapot/parsers/pepxml.py:170-175 -/
def fileRows (pfx : Str) (runs : List Run) : List Row :=
  ((runs.map (parseRun pfx)).flatten).flatten

/-! ## Data frames -/

/-- insertion-ordered union of keys (column order of `DataFrame.from_records`
on dicts and of `pd.concat(..., sort=False)`) -/
def addKey (acc : List String) (k : String) : List String :=
  if acc.contains k then acc else acc ++ [k]

def unionKeys (ks : List String) : List String := ks.foldl addKey []

def rowKeys (r : Row) : List String := r.feats.map (·.1)

/-- a data frame: feature columns (the nine fixed columns are implicit) and rows -/
structure Frame where
  cols : List String
  rows : List Row

inductive Err where
  | notXml       -- ValueError "... is not a PepXML file or is malformed."
  | noPsms       -- KeyError 'ms_data_file' (a file without any search hit)
  | noFiles      -- ValueError "No objects to concatenate"
  | percolator   -- ValueError "... generated by Percolator or PeptideProphet ..."
  deriving Repr, DecidableEq

def frameOf (rows : List Row) : Frame := { cols := unionKeys (rows.flatMap rowKeys), rows := rows }

/-- src: mokapot/parsers/pepxml.py:152-181 -/
def parseFile (pfx : Str) : File → Except Err Frame
  | .malformed => .error .notXml
  | .doc runs =>
    if (fileRows pfx runs).isEmpty then .error .noPsms else .ok (frameOf (fileRows pfx runs))

/-- `[_parse_pepxml(f, decoy_prefix) for f in pepxml_files]`: the first failing file raises -/
def parseFiles (pfx : Str) : List File → Except Err (List Frame)
  | [] => .ok []
  | f :: fs => (parseFile pfx f).bind (fun fr => (parseFiles pfx fs).map (fun frs => fr :: frs))

/-- `pd.concat(frames)` (outer join of the columns, first-appearance order) -/
def concatFrames (frs : List Frame) : Frame :=
  { cols := unionKeys (frs.flatMap (·.cols)), rows := frs.flatMap (·.rows) }

def illegalCols : List String := ["Percolator q-Value", "Percolator PEP", "Percolator SVMScore"]

/-! ## Feature post-processing (`_log_features`) -/

def pow10 (k : Int) : Rat := (10 : Rat) ^ k

def Num.val (n : Num) : Rat := n.root * pow10 (n.pow.getD 0)

def ratAbs (v : Rat) : Rat := if v < 0 then -v else v

/-- symbolic value of a final feature cell; `log10` itself is not modelled:
`log v` = log10 v, `logFill m` = log10 m − 1, `sci r p` = log10 r + p -/
inductive FV where
  | missing
  | plain (v : Rat)
  | log (v : Rat)
  | logFill (vmin : Rat)
  | sci (root : Rat) (pow : Int)
  deriving Repr

def minRat : List Rat → Rat
  | [] => 0
  | x :: xs => xs.foldl min x

def maxRat : List Rat → Rat
  | [] => 0
  | x :: xs => xs.foldl max x

def minInt : List Int → Int
  | [] => 0
  | x :: xs => xs.foldl min x

def maxInt : List Int → Int
  | [] => 0
  | x :: xs => xs.foldl max x

abbrev Col := List (Option Num)

/-- `col.str.contains("e").any()` (a missing cell prints as `nan`) -/
def hasE (col : Col) : Bool := col.any (fun c => c.any (fun n => n.pow.isSome))

/-- `(col.astype(float) > 0).all()` (NaN > 0 is False) -/
def allPos (col : Col) : Bool := col.all (fun c => c.any (fun n => decide (0 < n.val)))

def cellPow (c : Option Num) : Int := (c.bind (·.pow)).getD 0

def plainCell (c : Option Num) : FV := (c.map (fun n => FV.plain n.val)).getD FV.missing

def sciCell (c : Option Num) : FV := (c.map (fun n => FV.sci n.root (n.pow.getD 0))).getD FV.missing

/-- scientific-notation branch.  The `root == 0` patch of lines 351-353 is dead
code here (every value is > 0).  src: mokapot/parsers/pepxml.py:343-359 -/
def sciBranch (col : Col) : List FV :=
  if 4 ≤ (maxInt (col.map cellPow) - minInt (col.map cellPow)).natAbs
  then col.map sciCell else col.map plainCell

def presentVals (col : Col) : List Rat := col.filterMap (fun c => c.map Num.val)

/-- `np.array_equal(col.values, col.values.astype(bool))` -/
def isBinary (col : Col) : Bool := col.all (fun c => c.any (fun n => n.val == 0 || n.val == 1))

def logCell (vmin : Rat) (c : Option Num) : FV :=
  (c.map (fun n => if n.val == 0 then FV.logFill vmin else FV.log n.val)).getD FV.missing

/-- p-value heuristic.  src: mokapot/parsers/pepxml.py:361-377 -/
def stdBranch (col : Col) : List FV :=
  let vals := presentVals col
  let nz := vals.filter (fun v => v != 0)
  if vals.isEmpty then col.map plainCell                 -- min is NaN
  else if minRat vals < 0 then col.map plainCell
  else if isBinary col then col.map plainCell
  else if nz.isEmpty then col.map plainCell              -- col_min is NaN
  else if 10000 ≤ maxRat vals / minRat nz then col.map (logCell (minRat nz))
  else col.map plainCell

/-- `_log_features` on a non-boolean feature column.  src: mokapot/parsers/pepxml.py:313-377 -/
def logFeature (col : Col) : List FV :=
  if hasE col && allPos col then sciBranch col else stdBranch col

/-! ## `read_pepxml` -/

def cellNum : Cell → Num
  | .int i => { root := (i : Rat), pow := none }
  | .text v => v

def rawColumn (rows : List Row) (k : String) : Col :=
  rows.map (fun r => (r.feats.lookup k).map cellNum)

/-- decimal exponent of a positive rational (fuel-bounded search) -/
def decExpAux : Nat → Rat → Int → Int
  | 0, _, k => k
  | f + 1, a, k =>
    if a < 1 then decExpAux f (a * 10) (k - 1)
    else if 10 ≤ a then decExpAux f (a / 10) (k + 1) else k

def decExp (v : Rat) : Int := decExpAux 400 (ratAbs v) 0

/-- how `str(float)` writes a value: exponent form iff the decimal exponent is
`< -4` or `≥ 16` (CPython `float_repr_style = 'short'`) -/
def reprNum (v : Rat) : Num :=
  if v == 0 then { root := v, pow := none }
  else if decExp v < -4 || 16 ≤ decExp v then { root := v / pow10 (decExp v), pow := some (decExp v) }
  else { root := v, pow := none }

def proton : Rat := 100727646677 / 100000000000

/-- src: mokapot/parsers/pepxml.py:82 -/
def massDiff (r : Row) : Rat := r.expMass - r.calcMass

/-- src: mokapot/parsers/pepxml.py:94-96 -/
def absMzDiff (r : Row) : Rat :=
  ratAbs ((r.expMass / r.charge + proton) - (r.calcMass / r.charge + proton))

/-- `np.log10(psms["num_matched_peptides"])`; `_log_features` leaves such a column
unchanged (values are 0 or in [0.301, 19): non-negative, ratio < 10000, no
exponent form).  src: mokapot/parsers/pepxml.py:99-100 -/
def nmCell (c : Option Num) : FV := (c.map (fun n => FV.log n.val)).getD FV.missing

def insLevel (z : Int) : List Int → List Int
  | [] => [z]
  | y :: ys => if z < y then z :: y :: ys else if z = y then y :: ys else y :: insLevel z ys

/-- sorted distinct charges = the columns made by `pd.get_dummies` -/
def chargeLevels (zs : List Int) : List Int := zs.foldr insLevel []

def chargeCol (rows : List Row) (z : Int) : String × List FV :=
  ("charge_" ++ toString z, rows.map (fun r => FV.plain (if r.charge = z then 1 else 0)))

def featCol (rows : List Row) (k : String) : String × List FV :=
  (k, if k = "num_matched_peptides" then (rawColumn rows k).map nmCell
      else logFeature (rawColumn rows k))

/-- the returned data frame: rows (fixed columns) and the feature columns in order -/
structure Table where
  rows : List Row
  feats : List (String × List FV)

/-- src: mokapot/parsers/pepxml.py:81-128 -/
def postProcess (fr : Frame) : Table :=
  { rows := fr.rows,
    feats := fr.cols.map (featCol fr.rows) ++
      ([("mass_diff", logFeature (fr.rows.map (fun r => some (reprNum (massDiff r))))),
        ("abs_mz_diff", logFeature (fr.rows.map (fun r => some (reprNum (absMzDiff r)))))] ++
       (chargeLevels (fr.rows.map (·.charge))).map (chargeCol fr.rows)) }

def checkFrames (frs : List Frame) : Except Err Table :=
  if frs.isEmpty then .error .noFiles
  else if illegalCols.any (fun c => (concatFrames frs).cols.contains c) then .error .percolator
  else .ok (postProcess (concatFrames frs))

/-- `read_pepxml(files, decoy_prefix, to_df=True)`.  src: mokapot/parsers/pepxml.py:20-131 -/
def readPepxml (pfx : Str) (files : List File) : Except Err Table :=
  (parseFiles pfx files).bind checkFrames

/-! ## Specification (declarative) -/

/-- every search hit with its run and spectrum, in document order -/
def hitContexts (runs : List Run) : List (Run × Spectrum × Hit) :=
  runs.flatMap (fun r => r.spectra.flatMap (fun s => s.results.flatten.map (fun h => (r, s, h))))

/-- the PSM the property promises for a hit in its context -/
def psmOf (pfx : Str) (c : Run × Spectrum × Hit) : Row :=
  parsePsm pfx (specInfo (dataFile c.1) c.2.1) c.2.2

def hitsOfSpectrum (s : Spectrum) : Nat := (s.results.map List.length).sum
def hitsOfRun (r : Run) : Nat := (r.spectra.map hitsOfSpectrum).sum
def hitsOfRuns (runs : List Run) : Nat := (runs.map hitsOfRun).sum

/-- all `[mass]` groups of the modifications listed at position `p`, in listed order -/
def bracketsAt (ms : List Mod) (p : Nat) : Str :=
  (ms.filter (fun m => m.pos == p)).flatMap (fun m => bracket m.mass)

/-- **spec of the modified peptide**: N-terminal groups (position 0), then every
residue immediately followed by the groups of the modifications at its
(1-based) position -/
def specInsert (pep : Str) (ms : List Mod) : Str :=
  bracketsAt ms 0 ++ pep.zipIdx.flatMap (fun ci => ci.1 :: bracketsAt ms (ci.2 + 1))

/-- remove every `[...]` group -/
def stripGo : Bool → Str → Str
  | _, [] => []
  | inside, c :: cs =>
    if c == '[' then stripGo true cs
    else if c == ']' then stripGo false cs
    else if inside then stripGo true cs else c :: stripGo false cs

def stripBrackets (s : Str) : Str := stripGo false s

def childMods : Child → Option (List Mod)
  | .mods ms => some ms
  | .score _ _ => none
  | .alt _ => none
def childAlt : Child → Option Str
  | .alt a => some a
  | .mods _ => none
  | .score _ _ => none
def childScore : Child → Option (String × Num)
  | .score n v => some (n, v)
  | .mods _ => none
  | .alt _ => none

def modLists (h : Hit) : List (List Mod) := h.children.filterMap childMods
def scoresOf (h : Hit) : List (String × Num) := h.children.filterMap childScore

/-- all protein accessions of a hit: primary first, then the alternatives in order -/
def allAccs (h : Hit) : List Str := accession h.protein :: (h.children.filterMap childAlt).map accession

/-- **spec of the label**: target unless every accession carries the decoy prefix -/
def specLabel (pfx : Str) (h : Hit) : Bool := !((allAccs h).all (isDecoyAcc pfx))

/-- **spec of a score feature**: the value of the last score with that name -/
def specScore (h : Hit) (name : String) : Option Num := (scoresOf h).reverse.lookup name

/-- is some search score of some hit named like a Percolator output column? -/
def hasPercolatorScore (runss : List (List Run)) : Prop :=
  ∃ k ∈ illegalCols, ∃ runs ∈ runss, ∃ c ∈ hitContexts runs, k ∈ (scoresOf c.2.2).map (·.1)

/-- modification positions ascending and inside the peptide -/
def modsOk (pep : Str) (ms : List Mod) : Prop :=
  ms.Pairwise (fun a b => a.pos ≤ b.pos) ∧ ∀ m ∈ ms, m.pos ≤ pep.length

/-! ## Options of `read_pepxml`: `decoy_prefix` default, `exclude_features`,
`open_modification_bin_size`, and the feature list handed to `LinearPsmDataset`

Added after the default path above (which stays as it is): `readPepxmlX` follows
the same data flow with the two options threaded through; `readPepxml` is the
special case `excl = []`, `bin = none` (proved in `Props/C20Opts.lean`). -/

/-- default of the `decoy_prefix` parameter.  src: mokapot/parsers/pepxml.py:22 -/
def defaultPrefix : Str := ['d', 'e', 'c', 'o', 'y', '_']

/-- the nine non-feature columns.  src: mokapot/parsers/pepxml.py:109-119 -/
def fixedCols : List String :=
  ["ms_data_file", "scan", "ret_time", "label", "exp_mass", "calc_mass", "peptide", "proteins", "charge"]

/-- `nonfeat_cols += exclude_features`.  src: mokapot/parsers/pepxml.py:121-126 -/
def nonfeatCols (excl : List String) : List String := fixedCols ++ excl

/-- `c not in nonfeat_cols` — equivalently (line 334) `col.name in features` for a column of the frame.
src: mokapot/parsers/pepxml.py:127, 334 -/
def isFeat (excl : List String) (c : String) : Bool := !(nonfeatCols excl).contains c

/-- a cell of the returned frame when a column may be left untouched -/
inductive XV where
  | fv (v : FV)              -- float cell made by the post-processing
  | cell (c : Option Cell)   -- untouched dict value: `int`, score text as written, or absent (NaN)
  | flag (b : Bool)          -- untouched `get_dummies` cell (bool dtype)
  deriving Repr

/-- a column of the dict-made frame as `_log_features` receives it; `num_matched_peptides` has
already been replaced by its log10.  src: mokapot/parsers/pepxml.py:99-100 -/
def rawFeat (rows : List Row) (k : String) : List XV :=
  if k = "num_matched_peptides" then (rawColumn rows k).map (fun c => XV.fv (nmCell c))
  else rows.map (fun r => XV.cell (r.feats.lookup k))

/-- `_log_features(col, features)`: `if col.name not in features: return col`.
src: mokapot/parsers/pepxml.py:128, 334-335 -/
def featColX (excl : List String) (rows : List Row) (k : String) : String × List XV :=
  (k, if isFeat excl k then (featCol rows k).2.map XV.fv else rawFeat rows k)

/-- the float columns `mass_diff` / `abs_mz_diff`.  src: mokapot/parsers/pepxml.py:82, 94-96, 128 -/
def massColX (excl : List String) (name : String) (vals : List Rat) : String × List XV :=
  (name, if isFeat excl name then (logFeature (vals.map (fun v => some (reprNum v)))).map XV.fv
         else vals.map (fun v => XV.fv (FV.plain v)))

/-- a `get_dummies` column: bool unless it is a feature (line 336-337: `astype(float)`).
src: mokapot/parsers/pepxml.py:103-105, 334-337 -/
def chargeColX (excl : List String) (rows : List Row) (z : Int) : String × List XV :=
  ("charge_" ++ toString z,
   if isFeat excl ("charge_" ++ toString z) then (chargeCol rows z).2.map XV.fv
   else rows.map (fun r => XV.flag (decide (r.charge = z))))

/-! ### open-modification binning -/

/-- `bins[i]` of `np.arange(lo, hi + b, step=b)` -/
def binStart (lo b : Rat) (i : Int) : Rat := lo + i * b

/-- `len(np.arange(lo, hi + b, step=b))` = ⌈(hi + b − lo) / b⌉ -/
def nBins (lo hi b : Rat) : Int := ((hi + b - lo) / b).ceil

/-- `np.digitize(md, bins) - 1` for increasing `bins`: the last `i` with `bins[i] ≤ md` -/
def binIdx (lo b md : Rat) : Int := ((md - lo) / b).floor

/-- round half to even (`np.rint`) -/
def roundHalfEven (x : Rat) : Int :=
  if x - x.floor < 1 / 2 then x.floor
  else if 1 / 2 < x - x.floor then x.floor + 1
  else if x.floor % 2 = 0 then x.floor else x.floor + 1

/-- `.round(4)` -/
def round4 (x : Rat) : Rat := (roundHalfEven (x * 10000) : Rat) / 10000

/-- `(bins[bin_idx] + b / 2).round(4)` for one PSM.  src: mokapot/parsers/pepxml.py:84-90 -/
def openModTag (b : Rat) (mds : List Rat) (md : Rat) : Rat :=
  round4 (binStart (minRat mds) b (binIdx (minRat mds) b md) + b / 2)

/-- a row of the returned frame: `tag = some t` means the peptide column holds
`row.peptide + "[" + str(t) + "]"`.  src: mokapot/parsers/pepxml.py:91 -/
structure ORow where
  row : Row
  tag : Option Rat
  deriving Repr

def tagRows (bin : Option Rat) (rows : List Row) : List ORow :=
  rows.map (fun r => { row := r, tag := bin.map (fun b => openModTag b (rows.map massDiff) (massDiff r)) })

structure TableX where
  rows : List ORow
  feats : List (String × List XV)
  featCols : List String      -- `feat_cols`, the `feature_columns` of the `LinearPsmDataset` (to_df=False)

/-- all columns of the frame after line 105, in order: the dict keys, `mass_diff`, `abs_mz_diff`, dummies -/
def featNames (fr : Frame) : List String :=
  fr.cols ++ (["mass_diff", "abs_mz_diff"]
    ++ (chargeLevels (fr.rows.map (·.charge))).map (fun z => "charge_" ++ toString z))

/-- src: mokapot/parsers/pepxml.py:81-147 -/
def postProcessX (excl : List String) (bin : Option Rat) (fr : Frame) : TableX :=
  { rows := tagRows bin fr.rows,
    feats := fr.cols.map (featColX excl fr.rows) ++
      ([massColX excl "mass_diff" (fr.rows.map massDiff),
        massColX excl "abs_mz_diff" (fr.rows.map absMzDiff)] ++
       (chargeLevels (fr.rows.map (·.charge))).map (chargeColX excl fr.rows)),
    featCols := (fixedCols ++ featNames fr).filter (isFeat excl) }

def checkFramesX (excl : List String) (bin : Option Rat) (frs : List Frame) : Except Err TableX :=
  if frs.isEmpty then .error .noFiles
  else if illegalCols.any (fun c => (concatFrames frs).cols.contains c) then .error .percolator
  else .ok (postProcessX excl bin (concatFrames frs))

/-- `read_pepxml(files, decoy_prefix, exclude_features, open_modification_bin_size)` for a bin
size `> 0` (other sizes are outside the model).  src: mokapot/parsers/pepxml.py:20-149 -/
def readPepxmlX (pfx : Str) (excl : List String) (bin : Option Rat) (files : List File) : Except Err TableX :=
  (parseFiles pfx files).bind (checkFramesX excl bin)

/-- embedding of the default table's cells -/
def liftCol (kc : String × List FV) : String × List XV := (kc.1, kc.2.map XV.fv)

/-! ## Second pass: the dict-made columns at table level (optional attributes present / absent) and the
`num_matched_peptides` column as `_log_features` receives it

Nothing above is changed.  `attrOf` / `specCell` are declarative (what the property promises for a cell);
`nmLogColumn` is the model of the float column that line 128 hands to `_log_features` after line 100 replaced
the integer column by its `log10` — `featCol` above by-passes `logFeature` for that column, and
`Props/C20Attrs.lean` derives the by-pass from `logFeature` itself instead of assuming it. -/

/-- **spec**: the integer an optional attribute of the hit contributes under feature key `k`
(`num_missed_cleavages`, `num_tol_term`, `num_matched_peptides`).  src: mokapot/parsers/pepxml.py:269-282 -/
def attrOf (h : Hit) (k : String) : Option Int :=
  if k = "missed_cleavages" then h.missed
  else if k = "ntt" then h.ntt
  else if k = "num_matched_peptides" then h.nmatched.map Int.ofNat
  else none

/-- **spec of a dict-made cell**: under key `k` the PSM of hit `h` holds the value of the hit's last search
score of that name, else its optional attribute of that name, else nothing (NaN in the frame) -/
def specCell (h : Hit) (k : String) : Option Cell :=
  ((specScore h k).map Cell.text).or ((attrOf h k).map Cell.int)

/-- an integer as the literal `str(int)` writes (never an exponent) -/
def intNum (i : Int) : Num := { root := (i : Rat), pow := none }

/-- **spec of an optional-attribute cell of the returned table** (attribute values below 10000, no search
score of the same name): the integer itself, or missing -/
def attrCell (v : Option Int) : FV := (v.map (fun i => FV.plain (i : Rat))).getD FV.missing

/-- **spec of a `num_matched_peptides` cell**: `log10` of the count, or missing -/
def nmSpecCell (v : Option Nat) : FV := (v.map (fun n => FV.log (n : Rat))).getD FV.missing

/-- the `num_matched_peptides` column as `_log_features` receives it: line 100 has replaced the counts by
`lg n` (`lg` stands for `np.log10` on the counts; a parameter), line 339 prints the floats with `str`.
src: mokapot/parsers/pepxml.py:99-100, 128, 339 -/
def nmLogColumn (lg : Nat → Rat) (col : List (Option Nat)) : Col :=
  col.map (fun c => c.map (fun n => reprNum (lg n)))

end Mk.Pepxml
