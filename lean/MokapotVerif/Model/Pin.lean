/-!
# Model of PIN / Parquet parsing  (mokapot/parsers/pin.py, parsers/helpers.py,
  utils.py, dataset.py)

Import-free.  Column names are `List Char` (so that the kernel can evaluate
comparisons); `lowerName` is Python's `str.lower()` on ASCII.  A table is a
list of named columns in file order; a cell is missing (`na`), an integer, a
boolean or a string.  Where the real code raises, the model returns
`Except.error`.

The model follows the code as it is: case-insensitive look-up of the reserved
columns by filtering the header, the `nonfeat` list built in the code's order,
the column-chunked scan for missing values (`create_chunks_with_identifier`,
one task per column chunk, every task reading the file in row chunks), the
spectra data frame assembled from the frames appended by the tasks whose chunk
holds all identifier columns, `convert_targets_column`, and the column
existence checks of `OnDiskPsmDataset.__init__`.

Outside the model (and outside the property): tables without data rows (the
text reader yields one empty row chunk, the Parquet reader none), keyword
arguments that name a column already found under another role (duplicated
identifier columns), header names that pandas would rename (duplicates).
-/
namespace Mk.Pin

abbrev Name := List Char

/-- Python `str.lower()` (ASCII). -/
def lowerName (s : Name) : Name := s.map Char.toLower

/-- kinds of exceptions raised while parsing -/
inductive PinErr where
  | missing      -- ValueError "The column ... was not found."
  | ambiguous    -- ValueError "The column ... should be unique."
  | emptyName    -- ValueError "This PIN format is incompatible with mokapot"
  | chunkSize    -- chunk size 0 (ZeroDivisionError / ValueError of range, read_csv)
  | noObjects    -- ValueError "No objects to concatenate"
  | labelCast    -- astype(int) fails (missing or non-numeric label)
  | labelRange   -- ValueError "... contains values not in {-1, 0, 1}"
  | columnCheck  -- ValueError "Column ... not found in data columns of file"
  deriving DecidableEq, Repr

inductive Cell where
  | na
  | int (i : Int)
  | bool (b : Bool)
  | str (s : Name)
  deriving DecidableEq, Repr

def Cell.isNa : Cell → Bool
  | .na => true
  | _ => false

def Cell.isBool : Cell → Bool
  | .bool _ => true
  | _ => false

def Cell.boolVal : Cell → Bool
  | .bool b => b
  | _ => false

def Cell.isInt : Cell → Bool
  | .int _ => true
  | _ => false

def Cell.intVal : Cell → Int
  | .int i => i
  | _ => 0

/-! ## Reserved names (literals of mokapot/parsers/pin.py:173-198) -/
def nSpecid : Name := ['s', 'p', 'e', 'c', 'i', 'd']
def nPeptide : Name := ['p', 'e', 'p', 't', 'i', 'd', 'e']
def nProteins : Name := ['p', 'r', 'o', 't', 'e', 'i', 'n', 's']
def nLabel : Name := ['l', 'a', 'b', 'e', 'l']
def nScannr : Name := ['s', 'c', 'a', 'n', 'n', 'r']
def nModifiedpeptide : Name := ['m', 'o', 'd', 'i', 'f', 'i', 'e', 'd', 'p', 'e', 'p', 't', 'i', 'd', 'e']
def nPrecursor : Name := ['p', 'r', 'e', 'c', 'u', 'r', 's', 'o', 'r']
def nPeptidegroup : Name := ['p', 'e', 'p', 't', 'i', 'd', 'e', 'g', 'r', 'o', 'u', 'p']
def nFilename : Name := ['f', 'i', 'l', 'e', 'n', 'a', 'm', 'e']
def nCalcmass : Name := ['c', 'a', 'l', 'c', 'm', 'a', 's', 's']
def nExpmass : Name := ['e', 'x', 'p', 'm', 'a', 's', 's']
def nRetTime : Name := ['r', 'e', 't', '_', 't', 'i', 'm', 'e']
/-- the default the code searches for the charge column is literally
`"charge_column"` (pin.py:194) -/
def nChargeColumn : Name := ['c', 'h', 'a', 'r', 'g', 'e', '_', 'c', 'o', 'l', 'u', 'm', 'n']
def nCharge : Name := ['c', 'h', 'a', 'r', 'g', 'e']

/-! ## `find_column` and its wrappers -/

/-- src: mokapot/parsers/helpers.py:42-49 -/
def strCompare (ignoreCase : Bool) (a b : Name) : Bool :=
  if ignoreCase then lowerName a == lowerName b else a == b

/-- `found_columns = [c for c in columns if str_compare(c, col)]`
src: mokapot/parsers/helpers.py:51 -/
def foundColumns (ignoreCase : Bool) (col : Name) (columns : List Name) : List Name :=
  columns.filter (fun c => strCompare ignoreCase c col)

/-- `required=True, unique=True`. src: mokapot/parsers/helpers.py:53-61 -/
def requireOne : List Name → Except PinErr Name
  | [] => .error .missing
  | [c] => .ok c
  | _ :: _ :: _ => .error .ambiguous

/-- `unique=True`, `required` given. src: mokapot/parsers/helpers.py:53-61 -/
def pickUnique (required : Bool) : List Name → Except PinErr (Option Name)
  | [] => if required then .error .missing else .ok none
  | [c] => .ok (some c)
  | _ :: _ :: _ => .error .ambiguous

/-- src: mokapot/parsers/helpers.py:88-111 -/
def findRequiredColumn (col : Name) (columns : List Name) : Except PinErr Name :=
  requireOne (foundColumns true col columns)

/-- src: mokapot/parsers/helpers.py:66-85 -/
def findColumns (col : Name) (columns : List Name) : List Name :=
  foundColumns true col columns

/-- `col or default` (an empty string is falsy). src: mokapot/parsers/helpers.py:145 -/
def orDefault : Option Name → Name → Name
  | some c, d => if c.isEmpty then d else c
  | none, d => d

/-- src: mokapot/parsers/helpers.py:114-150 -/
def findOptionalColumn (col : Option Name) (columns : List Name) (dflt : Name) :
    Except PinErr (Option Name) :=
  pickUnique col.isSome (foundColumns col.isNone (orDefault col dflt) columns)

/-! ## Column classification of `read_percolator` -/

/-- the keyword arguments of `read_pin` / `read_percolator` -/
structure PinArgs where
  filename : Option Name := none
  calcmass : Option Name := none
  expmass : Option Name := none
  rt : Option Name := none
  charge : Option Name := none
  deriving DecidableEq, Repr

/-- the columns found by pin.py:173-194 -/
structure Classified where
  specid : Name
  peptides : Name
  proteins : Name
  labels : Name
  scan : Name
  modpep : List Name
  precursors : List Name
  pepgroups : List Name
  filename : Option Name
  calcmass : Option Name
  expmass : Option Name
  rt : Option Name
  charge : Option Name
  deriving DecidableEq, Repr

/-- src: mokapot/parsers/pin.py:173-194 (order of the look-ups = order of the errors) -/
def lookupColumns (args : PinArgs) (columns : List Name) : Except PinErr Classified := do
  let specid ← findRequiredColumn nSpecid columns
  let peptides ← findRequiredColumn nPeptide columns
  let proteins ← findRequiredColumn nProteins columns
  let labels ← findRequiredColumn nLabel columns
  let scan ← findRequiredColumn nScannr columns
  let filename ← findOptionalColumn args.filename columns nFilename
  let calcmass ← findOptionalColumn args.calcmass columns nCalcmass
  let expmass ← findOptionalColumn args.expmass columns nExpmass
  let rt ← findOptionalColumn args.rt columns nRetTime
  let charge ← findOptionalColumn args.charge columns nChargeColumn
  pure { specid, peptides, proteins, labels, scan,
         modpep := findColumns nModifiedpeptide columns,
         precursors := findColumns nPrecursor columns,
         pepgroups := findColumns nPeptidegroup columns,
         filename, calcmass, expmass, rt, charge }

/-- `level_columns`. src: mokapot/parsers/pin.py:186 -/
def Classified.level (k : Classified) : List Name :=
  [k.peptides] ++ k.modpep ++ k.precursors ++ k.pepgroups

/-- `spectra = [c for c in [filename, scan, ret_time, expmass] if c is not None]`
src: mokapot/parsers/pin.py:195 -/
def Classified.spectra (k : Classified) : List Name :=
  k.filename.toList ++ [k.scan] ++ k.rt.toList ++ k.expmass.toList

/-- `alt_charge = [c for c in columns if c.lower().startswith("charge")]`
src: mokapot/parsers/pin.py:198 -/
def altCharge (columns : List Name) : List Name :=
  columns.filter (fun c => nCharge.isPrefixOf (lowerName c))

/-- the charge column is metadata only when another column starts with "charge".
src: mokapot/parsers/pin.py:199-200 -/
def Classified.chargeMeta (k : Classified) (columns : List Name) : List Name :=
  if 1 < (altCharge columns).length then k.charge.toList else []

/-- `nonfeat` in the order in which the code builds it.
src: mokapot/parsers/pin.py:178, 187, 199-204 -/
def Classified.nonfeat (k : Classified) (columns : List Name) : List Name :=
  [k.specid, k.scan, k.peptides, k.proteins, k.labels]
    ++ k.modpep ++ k.precursors ++ k.pepgroups
    ++ k.chargeMeta columns
    ++ k.filename.toList ++ k.calcmass.toList ++ k.expmass.toList ++ k.rt.toList

/-- `features = [c for c in columns if c not in nonfeat]`. src: mokapot/parsers/pin.py:206 -/
def Classified.features (k : Classified) (columns : List Name) : List Name :=
  columns.filter (fun c => !(k.nonfeat columns).contains c)

/-! ## Chunking -/
variable {α : Type}

/-- `[data[i : i + chunk_size] for i in range(0, len(data), chunk_size)]`
(`range(0, n, c)` has `⌈n / c⌉` elements `k * c`). src: mokapot/utils.py:79-100 -/
def createChunks (data : List α) (c : Nat) : List (List α) :=
  (List.range ((data.length + c - 1) / c)).map (fun k => (data.drop (k * c)).take c)

/-- the repaired `create_chunks_with_identifier`. src: mokapot/parsers/pin.py:114-137 -/
def idChunks (data ids : List α) (c : Nat) : List (List α) :=
  if ids.length ≤ c ∧
      ((data.length + ids.length) % c = 0 ∨ ids.length ≤ (data.length + ids.length) % c) then
    createChunks (data ++ ids) c
  else
    createChunks data c ++ [ids]

/-! ## Tables and the chunked scan for missing values -/

structure Table where
  cols : List (Name × List Cell)
  deriving DecidableEq, Repr

/-- `reader.get_column_names()` -/
def Table.header (t : Table) : List Name := t.cols.map (·.1)

/-- the cells of the column called `c` (empty for an unknown name) -/
def Table.column (t : Table) (c : Name) : List Cell := (t.cols.lookup c).getD []

/-- number of data rows (length of the first column) -/
def Table.nrows (t : Table) : Nat := ((t.cols.map (fun p => p.2.length)).head?).getD 0

/-- the `k`-th row chunk of column `c` when the file is read `r` rows at a time
(`reader.get_chunked_data_iterator(chunk_size=r, columns=...)`).
src: mokapot/tabular_data.py:220-229, 315-325 -/
def cellsOf (t : Table) (r k : Nat) (c : Name) : List Cell := ((t.column c).drop (k * r)).take r

/-- number of row chunks of a file with `n` rows -/
def numRowChunks (n r : Nat) : Nat := (n + r - 1) / r

/-- `set(spectra) <= set(column)`. src: mokapot/parsers/pin.py:286 -/
def hasIds [BEq α] (ids chunk : List α) : Bool := ids.all (fun i => chunk.contains i)

/-- the columns whose cells a task tests for missing values: the chunk without
the identifier columns when it holds all of them, the whole chunk otherwise.
src: mokapot/parsers/pin.py:286-288 -/
def scannedCols (ids chunk : List Name) : List Name :=
  if hasIds ids chunk then chunk.filter (fun c => !ids.contains c) else chunk

/-- `na_mask.any(axis=0)` for one column: some row chunk has a missing cell.
src: mokapot/parsers/pin.py:289-294 -/
def naInColumn (t : Table) (r m : Nat) (c : Name) : Bool :=
  (List.range m).any (fun k => (cellsOf t r k c).any Cell.isNa)

/-- result of one task: the scanned columns with a missing value.
src: mokapot/parsers/pin.py:275-296 -/
def scanDrop (t : Table) (ids : List Name) (r m : Nat) (chunk : List Name) : List Name :=
  (scannedCols ids chunk).filter (naInColumn t r m)

/-- side effect of one task: the frames `feature[spectra]` appended to
`df_spectra_list`, one per row chunk, if the chunk holds all identifier columns.
A frame is the map column name ↦ cells.  src: mokapot/parsers/pin.py:285-287 -/
def scanFrames (t : Table) (ids : List Name) (r m : Nat) (chunk : List Name) :
    List (Name → List Cell) :=
  if hasIds ids chunk then (List.range m).map (fun k c => cellsOf t r k c) else []

/-- column `c` of `pd.concat(df_spectra_list)` -/
def concatCol (frames : List (Name → List Cell)) (c : Name) : List Cell :=
  frames.flatMap (fun f => f c)

/-- `convert_targets_column`: a boolean column is kept; otherwise the column is
cast to int (fails on missing / non-numeric cells), values outside {-1,0,1}
are an error, and the target flag is `label == 1`. src: mokapot/utils.py:183-219 -/
def convertTargets (cells : List Cell) : Except PinErr (List Bool) :=
  if cells.all Cell.isBool then .ok (cells.map Cell.boolVal)
  else if !cells.all Cell.isInt then .error .labelCast
  else if cells.any (fun c => c.intVal < -1) || cells.any (fun c => c.intVal > 1) then
    .error .labelRange
  else .ok (cells.map (fun c => c.intVal == 1))

/-! ## The dataset -/

/-- the observable fields of `OnDiskPsmDataset` -/
structure Dataset where
  columns : List Name
  target : Name
  spectrum : List Name
  peptide : Name
  protein : Name
  features : List Name
  metadata : List Name
  level : List Name
  filename : Option Name
  scan : Name
  specid : Name
  calcmass : Option Name
  expmass : Option Name
  rt : Option Name
  charge : Option Name
  /-- `spectra_dataframe[spectrum_columns]`, column by column -/
  spectra : List (Name × List Cell)
  /-- `spectra_dataframe[target_column]` -/
  targets : List Bool
  deriving DecidableEq, Repr

/-- `if column and column not in columns: raise`. src: mokapot/dataset.py:500-505 -/
def checkColumn (fileCols : List Name) (c : Name) : Bool := c.isEmpty || fileCols.contains c

/-- src: mokapot/dataset.py:507-510 -/
def checkColumns (fileCols : List Name) (cs : List Name) : Bool := cs.all (checkColumn fileCols)

/-- src: mokapot/dataset.py:512-526 -/
def datasetChecks (fileCols : List Name) (d : Dataset) : Bool :=
  checkColumns fileCols d.columns && checkColumn fileCols d.target
    && checkColumn fileCols d.peptide && checkColumn fileCols d.protein
    && checkColumns fileCols d.spectrum && checkColumns fileCols d.features
    && checkColumns fileCols d.metadata && checkColumns fileCols d.level
    && checkColumns fileCols d.filename.toList && checkColumn fileCols d.scan
    && checkColumns fileCols d.calcmass.toList && checkColumns fileCols d.expmass.toList
    && checkColumns fileCols d.rt.toList && checkColumns fileCols d.charge.toList
    && checkColumn fileCols d.specid

/-- the fields handed to `OnDiskPsmDataset(...)`; features are those not reported by any task.
src: mokapot/parsers/pin.py:236-271 -/
def mkDataset (t : Table) (k : Classified) (frames : List (Name → List Cell))
    (drops : List (List Name)) (targets : List Bool) : Dataset :=
  { columns := t.header, target := k.labels, spectrum := k.spectra, peptide := k.peptides,
    protein := k.proteins,
    features := (k.features t.header).filter (fun f => !drops.flatten.contains f),
    metadata := k.nonfeat t.header,
    level := k.level, filename := k.filename, scan := k.scan, specid := k.specid,
    calcmass := k.calcmass, expmass := k.expmass, rt := k.rt, charge := k.charge,
    spectra := k.spectra.map (fun c => (c, concatCol frames c)), targets := targets }

/-- the dataset assembled from the classification, the task results (in task
order — `joblib.Parallel` returns results in task order) and the appended frames.
src: mokapot/parsers/pin.py:232-271 -/
def assemble (t : Table) (k : Classified) (frames : List (Name → List Cell))
    (drops : List (List Name)) : Except PinErr Dataset :=
  if frames.isEmpty then .error .noObjects else
  (convertTargets (concatCol frames k.labels)).bind fun targets =>
    if datasetChecks t.header (mkDataset t k frames drops targets) then
      .ok (mkDataset t k frames drops targets)
    else .error .columnCheck

/-- the column chunks handed to the tasks. src: mokapot/parsers/pin.py:217-221 -/
def featSlices (k : Classified) (columns : List Name) (c : Nat) : List (List Name) :=
  idChunks (k.features columns) (k.spectra ++ [k.labels]) c

/-- `read_percolator` with column-chunk size `c` and row-chunk size `r`
(`CHUNK_SIZE_COLUMNS_FOR_DROP_COLUMNS`, `CHUNK_SIZE_ROWS_FOR_DROP_COLUMNS`), the
appended frames taken in the completion order `order` of the tasks (a
re-arrangement of the column chunks).  src: mokapot/parsers/pin.py:140-271 -/
def readPercolatorSched (args : PinArgs) (c r : Nat) (t : Table)
    (order : List (List Name) → List (List Name)) : Except PinErr Dataset :=
  (lookupColumns args t.header).bind fun k =>
    if k.spectra.any (fun s => s.isEmpty) then .error .emptyName
    else if c = 0 ∨ r = 0 then .error .chunkSize
    else
      assemble t k
        ((order (featSlices k t.header c)).flatMap
          (scanFrames t (k.spectra ++ [k.labels]) r (numRowChunks t.nrows r)))
        ((featSlices k t.header c).map
          (scanDrop t (k.spectra ++ [k.labels]) r (numRowChunks t.nrows r)))

/-- executable instance: the tasks complete in task order -/
def readPercolator (args : PinArgs) (c r : Nat) (t : Table) : Except PinErr Dataset :=
  readPercolatorSched args c r t id

/-! ## Specification (declarative) -/

/-- lower-cased names of the columns the parser requires, exactly once each -/
def requiredNames : List Name := [nSpecid, nPeptide, nProteins, nLabel, nScannr]
/-- lower-cased names of the rollup-level columns (any number of each) -/
def levelNames : List Name := [nModifiedpeptide, nPrecursor, nPeptidegroup]
/-- lower-cased names of the optional columns (at most once each) -/
def optionalNames : List Name := [nFilename, nCalcmass, nExpmass, nRetTime]

/-- number of columns whose lower-cased name is `q` -/
def countLower (hdr : List Name) (q : Name) : Nat := hdr.countP (fun c => lowerName c == q)

/-- the first column whose lower-cased name is `q` -/
def pick (hdr : List Name) (q : Name) : Option Name := hdr.find? (fun c => lowerName c == q)

def pickD (hdr : List Name) (q : Name) : Name := (pick hdr q).getD []

/-- a label cell is admissible in a non-boolean label column -/
def Cell.isPm1 (c : Cell) : Bool := c == .int 1 || c == .int 0 || c == .int (-1)

/-- labels are booleans, or integers among 1 / 0 / -1 -/
def labelOk (cells : List Cell) : Bool := cells.all Cell.isBool || cells.all Cell.isPm1

/-- **Well-formed PSM table**: distinct column names, all columns of the same
positive length, every required column present exactly once (up to letter
case), every optional column at most once, labels +1 or -1, 1/0 or booleans. -/
structure WellFormed (t : Table) : Prop where
  nodup : t.header.Nodup
  rows : ∀ p ∈ t.cols, p.2.length = t.nrows
  nonempty : 0 < t.nrows
  required : ∀ q ∈ requiredNames, countLower t.header q = 1
  optional : ∀ q ∈ optionalNames ++ [nChargeColumn], countLower t.header q ≤ 1
  label : labelOk (t.column (pickD t.header nLabel)) = true

/-- executable version of `WellFormed` (used by the driver) -/
def wellFormedB (t : Table) : Bool :=
  decide t.header.Nodup && t.cols.all (fun p => p.2.length == t.nrows) && decide (0 < t.nrows)
    && requiredNames.all (fun q => countLower t.header q == 1)
    && (optionalNames ++ [nChargeColumn]).all (fun q => decide (countLower t.header q ≤ 1))
    && labelOk (t.column (pickD t.header nLabel))

/-- the row is a target: labelled 1 or true -/
def Cell.isTarget (c : Cell) : Bool := c == .bool true || c == .int 1

/-- the "charge_column" column is reserved only if another column starts with "charge" -/
def chargeReserved (hdr : List Name) (c : Name) : Bool :=
  lowerName c == nChargeColumn && decide (1 < hdr.countP (fun x => nCharge.isPrefixOf (lowerName x)))

/-- a column is reserved (never a feature) -/
def isReserved (hdr : List Name) (c : Name) : Bool :=
  (requiredNames ++ levelNames ++ optionalNames).contains (lowerName c) || chargeReserved hdr c

/-- the column has a missing value -/
def hasMissing (t : Table) (c : Name) : Bool := (t.column c).any Cell.isNa

/-- features: the non-reserved columns without missing value, in file order -/
def specFeatures (t : Table) : List Name :=
  t.header.filter (fun c => !isReserved t.header c && !hasMissing t c)

/-- spectrum key: file, scan, retention time, measured mass — those present -/
def specSpectrum (hdr : List Name) : List Name :=
  [nFilename, nScannr, nRetTime, nExpmass].filterMap (pick hdr)

/-- metadata columns in the documented order -/
def specMetadata (hdr : List Name) : List Name :=
  [nSpecid, nScannr, nPeptide, nProteins, nLabel].map (pickD hdr)
    ++ levelNames.flatMap (fun q => hdr.filter (fun c => lowerName c == q))
    ++ hdr.filter (chargeReserved hdr)
    ++ [nFilename, nCalcmass, nExpmass, nRetTime].filterMap (pick hdr)

/-- **Specification of C10**: the dataset a well-formed table must parse into. -/
def specDataset (t : Table) : Dataset :=
  let hdr := t.header
  { columns := hdr
    target := pickD hdr nLabel
    spectrum := specSpectrum hdr
    peptide := pickD hdr nPeptide
    protein := pickD hdr nProteins
    features := specFeatures t
    metadata := specMetadata hdr
    level := [pickD hdr nPeptide] ++ levelNames.flatMap (fun q => hdr.filter (fun c => lowerName c == q))
    filename := pick hdr nFilename
    scan := pickD hdr nScannr
    specid := pickD hdr nSpecid
    calcmass := pick hdr nCalcmass
    expmass := pick hdr nExpmass
    rt := pick hdr nRetTime
    charge := pick hdr nChargeColumn
    spectra := (specSpectrum hdr).map (fun c => (c, t.column c))
    targets := (t.column (pickD hdr nLabel)).map Cell.isTarget }

end Mk.Pin
