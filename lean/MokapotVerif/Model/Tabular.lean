/-!
# Model of the tabular readers and writers
(mokapot/tabular_data.py, mokapot/streaming.py)

Import-free.  Cell values live in an arbitrary type `β` (the model never looks
inside a cell).  A row is the list of its cells under their column names, in
column order; a data frame is a header plus rows, each carrying its pandas
index label.  `none` means "the real code raises" unless a definition says
"not modelled".

Python generators are modelled as the list of the values they yield.
-/
namespace Mk.Tabular
variable {α β σ : Type}

abbrev Name := String
/-- one row of a frame: `(column name, cell)` in column order -/
abbrev Row (β : Type) := List (Name × β)
/-- a row with its index label -/
abbrev IRow (β : Type) := Nat × Row β

/-- a `pd.DataFrame`: column names and index-labelled rows -/
structure DF (β : Type) where
  names : List Name
  rows : List (IRow β)
  deriving DecidableEq, Repr

/-! ## Reference chunking (specification side) -/

/-- cut `xs` into consecutive pieces of `c` elements (the last may be shorter);
the first argument is fuel -/
def chunksFuel (c : Nat) : Nat → List α → List (List α)
  | 0, _ => []
  | f + 1, xs => if xs.isEmpty then [] else xs.take c :: chunksFuel c f (xs.drop c)

/-- **reference chunking** of a list into pieces of size `c` -/
def chunks (c : Nat) (xs : List α) : List (List α) := chunksFuel c xs.length xs

/-- **Specification of a chunking**: nothing lost or reordered, no empty piece,
no piece longer than `c`, every piece but the last exactly `c` long. -/
def IsChunking (c : Nat) (xs : List α) (chs : List (List α)) : Prop :=
  chs.flatten = xs ∧ (∀ ch ∈ chs, 0 < ch.length ∧ ch.length ≤ c) ∧ (∀ ch ∈ chs.dropLast, ch.length = c)

/-- attach consecutive labels `s, s+1, …` (a pandas `RangeIndex(start=s)`) -/
def indexFrom : Nat → List α → List (Nat × α)
  | _, [] => []
  | s, x :: xs => (s, x) :: indexFrom (s + 1) xs

/-- the chunks of a frame as frames: what "reading chunk-wise" must deliver.
`e` says whether a frame without rows is delivered as one empty chunk (text
reader) or as no chunk at all (Parquet / in-memory reader). -/
def splitDF (e : Bool) (c : Nat) (d : DF β) : List (DF β) :=
  if d.rows.isEmpty then (if e then [d] else []) else (chunks c d.rows).map (fun ch => ⟨d.names, ch⟩)

/-! ## Column selection -/

/-- `usecols=cols` of `pd.read_csv`: keep the listed columns, in *file* order.
src: mokapot/tabular_data.py:207-220 -/
def usecols (cols : List Name) (r : Row β) : Row β := r.filter (fun p => cols.contains p.1)

/-- `df[cols]`: the listed columns in the *requested* order (first column of that
name).  src: mokapot/tabular_data.py:209,220,252,259; mokapot/streaming.py:65,86,132,148 -/
def reorder (cols : List Name) (r : Row β) : Row β :=
  cols.filterMap (fun c => (r.lookup c).map (fun v => (c, v)))

/-- are all requested columns present? (`KeyError` / `ValueError` otherwise) -/
def hasAll (names cols : List Name) : Bool := cols.all (fun c => names.contains c)

/-- `df if columns is None else df[columns]` on one row -/
def pick (cols : Option (List Name)) (r : Row β) : Row β := cols.elim r (fun cs => reorder cs r)

/-- the header of `df if columns is None else df[columns]` -/
def outNames (names : List Name) (cols : Option (List Name)) : List Name := cols.elim names id

/-- are the requested columns (if any) all present? -/
def colsOK (names : List Name) (cols : Option (List Name)) : Bool := cols.elim true (hasAll names)

/-- **Specification of reading a table `t` with a column selection**: every row,
under its own index label, restricted to the requested columns in the requested
order (all columns in table order for `None`). -/
def selectDF (cols : Option (List Name)) (t : DF β) : DF β :=
  ⟨outNames t.names cols, t.rows.map (fun ir => (ir.1, pick cols ir.2))⟩

/-- all-or-nothing: a list comprehension that raises if one element raises -/
def optAll : List (Option α) → Option (List α)
  | [] => some []
  | x :: xs => x.bind (fun a => (optAll xs).map (fun as => a :: as))

/-! ## Readers -/

/-- a `TabularDataReader`: `get_column_names`, `read(columns)` and the list of
frames yielded by `get_chunked_data_iterator(chunk_size, columns)`.
src: mokapot/tabular_data.py:54-79 -/
structure Reader (β : Type) where
  names : List Name
  read : Option (List Name) → Option (DF β)
  chunked : Nat → Option (List Name) → Option (List (DF β))

/-! ### In-memory frame reader -/

/-- `DataFrameReader.read`.  src: mokapot/tabular_data.py:251-252 -/
def frameRead (d : DF β) (cols : Option (List Name)) : Option (DF β) :=
  if colsOK d.names cols then some (selectDF cols d) else none

/-- `range(0, n, c)` -/
def framePositions (n c : Nat) : List Nat := (List.range ((n + c - 1) / c)).map (fun k => k * c)

/-- `DataFrameReader.get_chunked_data_iterator`: `df.iloc[pos : pos + c]` for
`pos in range(0, len(df), c)`; the `KeyError` of `chunk[columns]` only arises
when there is a chunk.  src: mokapot/tabular_data.py:254-259 -/
def frameChunked (d : DF β) (c : Nat) (cols : Option (List Name)) : Option (List (DF β)) :=
  if c = 0 then none
  else if d.rows.isEmpty then some []
  else if colsOK d.names cols then
    some ((framePositions d.rows.length c).map (fun pos =>
      selectDF cols ⟨d.names, (d.rows.drop pos).take c⟩))
  else none

def frameReader (d : DF β) : Reader β := ⟨d.names, frameRead d, frameChunked d⟩

/-! ### Delimited-text reader -/

/-- a delimited text file: header line and data lines (cells in file order) -/
structure CsvFile (β : Type) where
  header : List Name
  lines : List (List β)
  deriving DecidableEq, Repr

/-- the parsed rows of the file -/
def CsvFile.rows (f : CsvFile β) : List (Row β) := f.lines.map (fun l => f.header.zip l)

/-- `CSVFileReader._usecols` + `usecols=`: an empty selection parses the first
column (by position) so that the rows are kept; otherwise the named columns in
file order.  src: mokapot/tabular_data.py:207-226 -/
def csvUse (cs : List Name) (r : Row β) : Row β := if cs.isEmpty then r.take 1 else usecols cs r

/-- `chunk if columns is None else chunk[columns]` after `usecols=` -/
def csvPick (cols : Option (List Name)) (r : Row β) : Row β :=
  cols.elim r (fun cs => reorder cs (csvUse cs r))

/-- can the file be parsed with this selection?  A file without any column
raises `EmptyDataError`, an unknown column `ValueError`. -/
def csvOK (f : CsvFile β) (cols : Option (List Name)) : Bool := !f.header.isEmpty && colsOK f.header cols

/-- `CSVFileReader.read`.  src: mokapot/tabular_data.py:214-218 -/
def csvRead (f : CsvFile β) (cols : Option (List Name)) : Option (DF β) :=
  if csvOK f cols then
    some ⟨outNames f.header cols, (indexFrom 0 f.rows).map (fun ir => (ir.1, csvPick cols ir.2))⟩
  else none

/-- the pandas `TextFileReader` with `chunksize=c`: `cur` rows were delivered so
far, the next chunk gets the labels `cur, cur+1, …` (first argument: fuel) -/
def csvIter (c : Nat) : Nat → Nat → List α → List (List (Nat × α))
  | 0, _, _ => []
  | fuel + 1, cur, rows =>
    if rows.isEmpty then []
    else indexFrom cur (rows.take c) :: csvIter c fuel (cur + (rows.take c).length) (rows.drop c)

/-- a file without data rows is delivered as *one empty chunk* -/
def csvChunkRows (c : Nat) (rows : List α) : List (List (Nat × α)) :=
  if rows.isEmpty then [[]] else csvIter c rows.length 0 rows

/-- `CSVFileReader.get_chunked_data_iterator`.  src: mokapot/tabular_data.py:220-229 -/
def csvChunked (f : CsvFile β) (c : Nat) (cols : Option (List Name)) : Option (List (DF β)) :=
  if c = 0 then none
  else if csvOK f cols then
    some ((csvChunkRows c f.rows).map (fun ch =>
      ⟨outNames f.header cols, ch.map (fun ir => (ir.1, csvPick cols ir.2))⟩))
  else none

def csvReader (f : CsvFile β) : Reader β := ⟨f.header, csvRead f, csvChunked f⟩

/-! ### Parquet reader -/

/-- a Parquet file: schema names and row groups of data lines -/
structure PqFile (β : Type) where
  header : List Name
  groups : List (List (List β))
  deriving DecidableEq, Repr

def PqFile.rows (f : PqFile β) : List (Row β) := f.groups.flatten.map (fun l => f.header.zip l)

/-- `ParquetFileReader.read`: `pq.read_table(columns=…)` (unknown column:
`ArrowInvalid`).  src: mokapot/tabular_data.py:302-304 -/
def pqRead (f : PqFile β) (cols : Option (List Name)) : Option (DF β) :=
  if colsOK f.header cols then
    some ⟨outNames f.header cols, (indexFrom 0 f.rows).map (fun ir => (ir.1, pick cols ir.2))⟩
  else none

/-- columns handed to `pf.iter_batches`: the request, except that an empty
selection is batched through the first schema column; pyarrow silently drops
unknown names.  src: mokapot/tabular_data.py:320-327 -/
def pqBatchCols (header : List Name) (cs : List Name) : List Name :=
  if cs.isEmpty then header.take 1 else cs.filter (fun c => header.contains c)

/-- `df if columns is None else df[columns]` on a row of a record batch -/
def pqPick (header : List Name) (cols : Option (List Name)) (r : Row β) : Row β :=
  cols.elim r (fun cs => reorder cs (reorder (pqBatchCols header cs) r))

/-- the running row offset: batch after batch gets the labels `off, off+1, …`
(`df.index = df.index + offset; offset += len(df)`).
src: mokapot/tabular_data.py:329-333 -/
def pqLabel : Nat → List (List α) → List (List (Nat × α))
  | _, [] => []
  | off, b :: bs => indexFrom off b :: pqLabel (off + b.length) bs

/-- `ParquetFileReader.get_chunked_data_iterator` given the record batches that
`pf.iter_batches(c)` delivers; the `KeyError` of `df[columns]` only arises when
there is a batch.  src: mokapot/tabular_data.py:315-334 -/
def pqChunkedWith (batches : List (List (Row β))) (f : PqFile β) (c : Nat)
    (cols : Option (List Name)) : Option (List (DF β)) :=
  if c = 0 then none
  else if batches.isEmpty then some []
  else if colsOK f.header cols then
    some ((pqLabel 0 batches).map (fun ch =>
      ⟨outNames f.header cols, ch.map (fun ir => (ir.1, pqPick f.header cols ir.2))⟩))
  else none

/-- executable instance: pyarrow fills every batch but the last across row
group boundaries (observed with pyarrow 25 for a non-empty column list; checked
by the correspondence run for every row-group size) -/
def pqChunked (f : PqFile β) (c : Nat) (cols : Option (List Name)) : Option (List (DF β)) :=
  pqChunkedWith (chunks c f.rows) f c cols

def pqReader (f : PqFile β) : Reader β := ⟨f.header, pqRead f, pqChunked f⟩

/-! ### Column-renaming reader -/

/-- `self.column_map.get(column, column)`.  src: mokapot/tabular_data.py:128-132 -/
def newName (m : List (Name × Name)) (n : Name) : Name := (m.lookup n).getD n

/-- `dict(zip(all_columns, all_orig_columns))[c]` — the last entry wins.
src: mokapot/tabular_data.py:141-144 -/
def revLookup (m : List (Name × Name)) (orig : List Name) (c : Name) : Option Name :=
  (((orig.map (newName m)).zip orig).reverse).lookup c

/-- `_get_orig_columns` (`KeyError` for an unknown new name).
src: mokapot/tabular_data.py:137-145 -/
def origCols (m : List (Name × Name)) (orig : List Name) (cols : Option (List Name)) :
    Option (Option (List Name)) :=
  cols.elim (some none) (fun cs => (optAll (cs.map (revLookup m orig))).map some)

/-- `df.rename(columns=self.column_map)`.  src: mokapot/tabular_data.py:147-160 -/
def renameDF (m : List (Name × Name)) (d : DF β) : DF β :=
  ⟨d.names.map (newName m), d.rows.map (fun ir => (ir.1, ir.2.map (fun p => (newName m p.1, p.2))))⟩

/-- `ColumnMappedReader`.  src: mokapot/tabular_data.py:111-173 -/
def mappedReader (r : Reader β) (m : List (Name × Name)) : Reader β where
  names := r.names.map (newName m)
  read := fun cols => (origCols m r.names cols).bind (fun oc => (r.read oc).map (renameDF m))
  chunked := fun c cols =>
    (origCols m r.names cols).bind (fun oc => (r.chunked c oc).map (fun chs => chs.map (renameDF m)))

/-! ### Computed-column reader -/

/-- `df[self.column] = self.func(df)`: the function sees the index label and the
(already selected) cells of each row; the new column is appended.
src: mokapot/streaming.py:130-131,146-147 -/
def addCol (col : Name) (fn : Nat → Row β → β) (d : DF β) : DF β :=
  ⟨d.names ++ [col], d.rows.map (fun ir => (ir.1, ir.2 ++ [(col, fn ir.1 ir.2)]))⟩

/-- `_reader_columns`.  src: mokapot/streaming.py:125-126 -/
def readerCols (col : Name) (cs : List Name) : List Name := cs.filter (fun c => c != col)

/-- `ComputedTabularDataReader` (`columns=None` raises in `_reader_columns`; the
condition `columns is not None or …` is always true afterwards).
src: mokapot/streaming.py:90-148 -/
def computedReader (r : Reader β) (col : Name) (fn : Nat → Row β → β) : Reader β where
  names := r.names ++ [col]
  read := fun cols => cols.elim none (fun cs =>
    (r.read (some (readerCols col cs))).bind (fun d => frameRead (addCol col fn d) (some cs)))
  chunked := fun c cols => cols.elim none (fun cs =>
    (r.chunked c (some (readerCols col cs))).bind (fun chs =>
      optAll (chs.map (fun d => frameRead (addCol col fn d) (some cs)))))

/-! ### Column-joining reader -/

/-- `_subset_columns` for one sub-reader: its own columns that are requested,
in its own order.  src: mokapot/streaming.py:40-52 -/
def subsetCols (names : List Name) (cols : Option (List Name)) : Option (List Name) :=
  cols.map (fun cs => names.filter (fun n => cs.contains n))

def DF.index (d : DF β) : List Nat := d.rows.map (fun ir => ir.1)

/-- `pd.concat([a, b], axis=1)` for two frames with the same index: columns side
by side -/
def hzip (a b : DF β) : DF β :=
  ⟨a.names ++ b.names, List.zipWith (fun x y => (x.1, x.2 ++ y.2)) a.rows b.rows⟩

/-- `pd.concat([a, b], axis=1)`: an outer join on the index.  Modelled for equal
indexes (side by side); every other outer join is *not modelled* (`none`). -/
def hcat2 (a b : DF β) : Option (DF β) :=
  if a.index = b.index then some (hzip a b) else none

def hcatFold : DF β → List (DF β) → Option (DF β)
  | a, [] => some a
  | a, b :: rest => (hcat2 a b).bind (fun ab => hcatFold ab rest)

/-- `pd.concat(frames, axis=1)` (`ValueError` for an empty list) -/
def hcatAll : List (DF β) → Option (DF β)
  | [] => none
  | d :: ds => hcatFold d ds

/-- `JoinedTabularDataReader.read`.  src: mokapot/streaming.py:54-65 -/
def joinedRead (rs : List (Reader β)) (cols : Option (List Name)) : Option (DF β) :=
  (optAll (rs.map (fun r => r.read (subsetCols r.names cols)))).bind (fun ds =>
    (hcatAll ds).bind (fun d => frameRead d cols))

/-- `[next(iterator) for iterator in iterators]` (`StopIteration` as soon as one
stream is exhausted) -/
def heads (ls : List (List α)) : Option (List α) := optAll (ls.map List.head?)

/-- the `while True` loop over the chunk streams (first argument: fuel) -/
def rounds : Nat → List (List α) → List (List α)
  | 0, _ => []
  | f + 1, ls => (heads ls).elim [] (fun hs => hs :: rounds f (ls.map List.tail))

/-- `JoinedTabularDataReader.get_chunked_data_iterator`: the chunk streams of
the sub-readers are consumed in lock-step; with no reader at all
`pd.concat([])` raises.  src: mokapot/streaming.py:67-86 -/
def joinedChunked (rs : List (Reader β)) (c : Nat) (cols : Option (List Name)) :
    Option (List (DF β)) :=
  if rs.isEmpty then none
  else
    (optAll (rs.map (fun r => r.chunked c (subsetCols r.names cols)))).bind (fun streams =>
      optAll ((rounds (streams.headD []).length streams).map (fun chunk =>
        (hcatAll chunk).bind (fun d => frameRead d cols))))

def joinedReader (rs : List (Reader β)) : Reader β :=
  ⟨(rs.map (fun r => r.names)).flatten, joinedRead rs, joinedChunked rs⟩

/-! ## Specification of joining tables column-wise -/

/-- cells of row number `j` of a frame (no cells beyond its end) -/
def rowAt (d : DF β) (j : Nat) : Row β := (d.rows[j]?.map (fun ir => ir.2)).getD []

/-- **Specification of the column-wise join** of tables that all carry the index
labels `idx`: the headers one after the other; row number `j` has label `idx[j]`
and the cells of row `j` of every table, one table after the other. -/
def joinDF (idx : List Nat) (ds : List (DF β)) : DF β :=
  ⟨ds.flatMap (fun d => d.names),
   (List.range idx.length).map (fun j => (idx.getD j 0, ds.flatMap (fun d => rowAt d j)))⟩

/-! ## Specification predicates for readers -/

/-- **chunk-wise reading equals reading in one piece**: whenever `read` delivers a
frame `F`, the chunk iterator (for every chunk size ≥ 1) delivers exactly the
consecutive chunks of `F` — same header, same rows, same index labels. -/
def ChunkOK (r : Reader β) : Prop :=
  ∀ c, 1 ≤ c → ∀ cols F, r.read cols = some F → ∃ e, r.chunked c cols = some (splitDF e c F)

/-- a well-formed table: distinct column names, every row has exactly these keys -/
def DF.WF (t : DF β) : Prop := t.names.Nodup ∧ ∀ ir ∈ t.rows, ir.2.map (fun p => p.1) = t.names

instance (t : DF β) : Decidable t.WF := by
  unfold DF.WF
  exact inferInstance

/-- **the reader reads table `t`**: it announces `t`'s columns, and every
admissible column selection returns the specified selection of `t`
(`acceptsNone` tells whether `columns=None` is accepted). -/
structure ReadsTable (r : Reader β) (t : DF β) (acceptsNone : Bool) : Prop where
  names : r.names = t.names
  read : ∀ cols, colsOK t.names cols = true → (cols = none → acceptsNone = true) →
    r.read cols = some (selectDF cols t)
  readNone : acceptsNone = false → r.read none = none

/-! ## Writers -/

/-- a frame handed to a writer (its index is never written: `index=False`,
`preserve_index=False`) -/
structure WFrame (β : Type) where
  names : List Name
  rows : List (Row β)
  deriving DecidableEq, Repr

def rowKeys (r : Row β) : List Name := r.map (fun p => p.1)
def rowVals (r : Row β) : List β := r.map (fun p => p.2)

/-- a `TabularDataWriter` over a storage state `σ`.
src: mokapot/tabular_data.py:320-393 -/
structure Writer (σ β : Type) where
  init : σ → Option σ
  append : σ → WFrame β → Option σ
  fin : σ → Option σ

/-- successive calls, stopping at the first exception -/
def foldOpt (f : σ → α → Option σ) : σ → List α → Option σ
  | s, [] => some s
  | s, a :: as => (f s a).bind (fun s' => foldOpt f s' as)

/-- `initialize(); append_data(f₁); …; finalize()` -/
def runWriter (w : Writer σ β) (s0 : σ) (frames : List (WFrame β)) : Option σ :=
  (w.init s0).bind (fun s => (foldOpt w.append s frames).bind w.fin)

/-! ### Delimited-text writer (storage: the file, `none` = absent) -/

/-- `initialize`: `to_csv` of an empty frame in mode `"w"` — whatever the file
contained is gone.  src: mokapot/tabular_data.py:591-594 -/
def csvInit (cols : List Name) (_old : Option (CsvFile β)) : Option (Option (CsvFile β)) :=
  some (some ⟨cols, []⟩)

/-- `append_data`: `check_valid_data` (column names must equal the writer's, in
order), then `to_csv(mode="a", header=False)`.  Appending to an absent file
would create a header-less file: not modelled.
src: mokapot/tabular_data.py:352-358,600-602 -/
def csvAppend (cols : List Name) (disk : Option (CsvFile β)) (f : WFrame β) :
    Option (Option (CsvFile β)) :=
  if f.names = cols then
    disk.elim none (fun file => some (some ⟨file.header, file.lines ++ f.rows.map rowVals⟩))
  else none

def csvWriter (cols : List Name) : Writer (Option (CsvFile β)) β :=
  ⟨csvInit cols, csvAppend cols, fun s => some s⟩

/-- `get_associated_reader()` on the stored file -/
def csvDiskReader (disk : Option (CsvFile β)) : Option (Reader β) := disk.map csvReader

/-! ### Parquet writer (storage: the file being written and whether its
`pq.ParquetWriter` is still open) -/

structure PqDisk (β : Type) where
  file : PqFile β
  isOpen : Bool
  deriving DecidableEq, Repr

/-- `initialize`: a new `pq.ParquetWriter` truncates the file.
src: mokapot/tabular_data.py:644-647 -/
def pqInit (cols : List Name) (_old : Option (PqDisk β)) : Option (Option (PqDisk β)) :=
  some (some ⟨⟨cols, []⟩, true⟩)

/-- cells of a row in schema order, found *by name*
(`pa.Table.from_pandas(data, schema=…)`; missing column: error) -/
def bySchema (cols : List Name) (r : Row β) : Option (List β) := optAll (cols.map (fun c => r.lookup c))

/-- `append_data`: one `write_table` = one row group; there is no
`check_valid_data` here.  src: mokapot/tabular_data.py:652-656 -/
def pqAppend (cols : List Name) (disk : Option (PqDisk β)) (f : WFrame β) :
    Option (Option (PqDisk β)) :=
  disk.elim none (fun d =>
    if d.isOpen then
      (optAll (f.rows.map (bySchema cols))).map (fun ls =>
        some ⟨⟨d.file.header, d.file.groups ++ [ls]⟩, true⟩)
    else none)

/-- `finalize`: `self.writer.close()`.  src: mokapot/tabular_data.py:649-650 -/
def pqFinalize (disk : Option (PqDisk β)) : Option (Option (PqDisk β)) :=
  disk.elim none (fun d => some (some ⟨d.file, false⟩))

def pqWriter (cols : List Name) : Writer (Option (PqDisk β)) β :=
  ⟨pqInit cols, pqAppend cols, pqFinalize⟩

/-- `get_associated_reader()`; a file whose writer was not closed has no footer
and cannot be read -/
def pqDiskReader (disk : Option (PqDisk β)) : Option (Reader β) :=
  disk.bind (fun d => if d.isOpen then none else some (pqReader d.file))

/-! ### Buffered writer -/

/-- `TableType` -/
inductive Kind where
  | dataframe | dicts | records
  deriving DecidableEq

/-- what `BufferedWriter.append_data` is called with -/
inductive Arg (β : Type) where
  | frame (f : WFrame β)        -- a `pd.DataFrame`
  | dict (r : Row β)            -- one `dict`
  | dictList (rs : List (Row β))   -- a `list[dict]`
  | record (r : Row β)          -- one `np.record`

/-- the rows an argument carries -/
def Arg.rows : Arg β → List (Row β)
  | .frame f => f.rows
  | .dict r => [r]
  | .dictList rs => rs
  | .record r => [r]

/-- the column names an argument carries (a list of dicts: those of its first dict) -/
def Arg.names : Arg β → List Name
  | .frame f => f.names
  | .dict r => rowKeys r
  | .dictList rs => (rs.head?.map rowKeys).getD []
  | .record r => rowKeys r

/-- the `isinstance` test of the `DataFrame` branch and the typeguard signature
`pd.DataFrame | dict | list[dict] | np.record`, per buffer kind: a frame buffer
takes frames, a dict buffer dicts or lists of dicts, a record buffer single
records.  src: mokapot/tabular_data.py:504-529 -/
def argOK : Kind → Arg β → Bool
  | .dataframe, .frame _ => true
  | .dicts, .dict _ => true
  | .dicts, .dictList _ => true
  | .records, .record _ => true
  | _, _ => false

/-- buffer after `append_data` stored its argument: a copy for the first one,
afterwards `pd.concat` / `+=` / `np.append` — the rows go to the end -/
def bufAdd (buf : Option (WFrame β)) (a : Arg β) : WFrame β :=
  buf.elim ⟨a.names, a.rows⟩ (fun b => ⟨b.names, b.rows ++ a.rows⟩)

/-- `_buffer_slice(..., as_dataframe=True)`: a frame buffer keeps its header, a
record array its dtype names, `pd.DataFrame(list_of_dicts)` takes the keys of
the first dict.  src: mokapot/tabular_data.py:475-488 -/
def emitFrame (k : Kind) (b : WFrame β) (slice : List (Row β)) : WFrame β :=
  ⟨if k = Kind.dicts then (slice.head?.map rowKeys).getD [] else b.names, slice⟩

/-- the `while len(self.buffer) >= self.buffer_size` loop (first argument: fuel).
src: mokapot/tabular_data.py:493-499 -/
def flushLoop (w : Writer σ β) (k : Kind) (size : Nat) : Nat → WFrame β → σ → Option (WFrame β × σ)
  | 0, b, s => some (b, s)
  | fuel + 1, b, s =>
    if size ≤ b.rows.length then
      (w.append s (emitFrame k b (b.rows.take size))).bind (fun s' =>
        flushLoop w k size fuel ⟨b.names, b.rows.drop size⟩ s')
    else some (b, s)

/-- `BufferedWriter.append_data`.  src: mokapot/tabular_data.py:504-531 -/
def bufAppend (w : Writer σ β) (k : Kind) (size : Nat) (st : Option (WFrame β) × σ) (a : Arg β) :
    Option (Option (WFrame β) × σ) :=
  if argOK k a then
    (flushLoop w k size (bufAdd st.1 a).rows.length (bufAdd st.1 a) st.2).map (fun p => (some p.1, p.2))
  else none

/-- `_write_buffer(force=True)`: nothing for a `None` buffer; otherwise the loop,
then whatever is left (if anything) in one piece.
src: mokapot/tabular_data.py:490-502 -/
def forceFlush (w : Writer σ β) (k : Kind) (size : Nat) (st : Option (WFrame β) × σ) :
    Option (Option (WFrame β) × σ) :=
  st.1.elim (some st) (fun b =>
    (flushLoop w k size b.rows.length b st.2).bind (fun p =>
      if p.1.rows.isEmpty then some (some p.1, p.2)
      else (w.append p.2 (emitFrame k p.1 p.1.rows)).map (fun s' => (none, s'))))

/-- `BufferedWriter.finalize`.  src: mokapot/tabular_data.py:542-544 -/
def bufFinalize (w : Writer σ β) (k : Kind) (size : Nat) (st : Option (WFrame β) × σ) :
    Option (Option (WFrame β) × σ) :=
  (forceFlush w k size st).bind (fun p => (w.fin p.2).map (fun s' => (p.1, s')))

/-- `initialize(); append_data(a₁); …; finalize()` on a `BufferedWriter`; returns
the storage of the wrapped writer -/
def runBuffered (w : Writer σ β) (k : Kind) (size : Nat) (s0 : σ) (args : List (Arg β)) : Option σ :=
  (w.init s0).bind (fun s =>
    (foldOpt (bufAppend w k size) (none, s) args).bind (fun st =>
      (bufFinalize w k size st).map (fun p => p.2)))

/-- an unbuffered writer takes frames only (typeguard).
src: mokapot/tabular_data.py:600,652 -/
def argFrame : Arg β → Option (WFrame β)
  | .frame f => some f
  | _ => none

/-- `initialize(); append_data(a₁); …; finalize()` on the writer returned by
`TabularDataWriter.from_suffix(…, buffer_size, buffer_type)`: buffered only for
`buffer_size > 1`.  src: mokapot/tabular_data.py:395-419 -/
def runFromSuffix (w : Writer σ β) (k : Kind) (size : Nat) (s0 : σ) (args : List (Arg β)) : Option σ :=
  if 1 < size then runBuffered w k size s0 args
  else (optAll (args.map argFrame)).bind (fun fs => runWriter w s0 fs)

/-! ### The batches a buffered writer hands on (pure bookkeeping, specification side) -/

/-- full batches cut from the front of the buffer, and the rest (first argument: fuel) -/
def cutFull (size : Nat) : Nat → List α → List (List α) × List α
  | 0, xs => ([], xs)
  | fuel + 1, xs =>
    if size ≤ xs.length then
      ((xs.take size) :: (cutFull size fuel (xs.drop size)).1, (cutFull size fuel (xs.drop size)).2)
    else ([], xs)

/-- batches emitted while appending `args` one after the other to buffer `buf`,
and the buffer left behind -/
def emittedAppends (size : Nat) : List α → List (List α) → List (List α) × List α
  | buf, [] => ([], buf)
  | buf, a :: as =>
    let r := cutFull size (buf ++ a).length (buf ++ a)
    (r.1 ++ (emittedAppends size r.2 as).1, (emittedAppends size r.2 as).2)

/-- all batches handed to the wrapped writer, the forced last one included -/
def emitted (size : Nat) (args : List (List α)) : List (List α) :=
  let r := emittedAppends size [] args
  if r.2.isEmpty then r.1 else r.1 ++ [r.2]

/-! ## One-shot `write(data)`  (extension: entry point `TabularDataWriter.write`) -/

/-- `TabularDataWriter.write` as inherited by `CSVFileWriter`: `check_valid_data`
(column names equal the writer's, in order), then `initialize(); append_data(data);
finalize()`.  src: mokapot/tabular_data.py:369-375,389-393 -/
def baseWrite (w : Writer σ β) (cols : List Name) (s : σ) (f : WFrame β) : Option σ :=
  if f.names = cols then runWriter w s [f] else none

/-- `CSVFileWriter.write` -/
def csvWrite1 (cols : List Name) (disk : Option (CsvFile β)) (f : WFrame β) : Option (Option (CsvFile β)) :=
  baseWrite (csvWriter cols) cols disk f

/-- `ParquetFileWriter.write`: `data.to_parquet(file_name, index=False)` — a new,
complete (closed) file with the *frame's own* columns, all rows in one row group;
neither the writer's `columns` nor its schema are consulted and there is no
`check_valid_data`.  src: mokapot/tabular_data.py:675-676 -/
def pqWrite1 (_cols : List Name) (_disk : Option (PqDisk β)) (f : WFrame β) : Option (Option (PqDisk β)) :=
  some (some ⟨⟨f.names, [f.rows.map rowVals]⟩, false⟩)

/-- `BufferedWriter.write`: `self.writer.write(data)` — the buffer is by-passed
and left as it is.  src: mokapot/tabular_data.py:553-554 -/
def bufWrite1 (inner : σ → WFrame β → Option σ) (st : Option (WFrame β) × σ) (f : WFrame β) :
    Option (Option (WFrame β) × σ) :=
  (inner st.2 f).map (fun s' => (st.1, s'))

/-- `TabularDataWriter.from_suffix(…, buffer_size, buffer_type).write(data)` on a
fresh writer object; returns the storage of the file writer.
src: mokapot/tabular_data.py:412-436,553-554 -/
def writeFromSuffix (inner : σ → WFrame β → Option σ) (size : Nat) (s0 : σ) (f : WFrame β) : Option σ :=
  if 1 < size then (bufWrite1 inner (none, s0) f).map (fun p => p.2) else inner s0 f

/-! ## The writer as the caller sees it: `initialize` / `append_data` / `finalize`
one call at a time, context managers, `auto_finalize`  (extension) -/

/-- a writer object in use: `__enter__` (= `initialize`), `append_data`,
`__exit__` (= `finalize`) over its state `τ`.
src: mokapot/tabular_data.py:395-406 -/
structure Sess (τ β : Type) where
  enter : τ → Option τ
  app : τ → Arg β → Option τ
  exit : τ → Option τ

/-- `initialize()` of what `from_suffix` returned: `BufferedWriter.initialize` is
`self.writer.initialize()`, the buffer is not touched.
src: mokapot/tabular_data.py:395-396,556-557 -/
def fsInit (w : Writer σ β) (st : Option (WFrame β) × σ) : Option (Option (WFrame β) × σ) :=
  (w.init st.2).map (fun s => (st.1, s))

/-- `append_data(arg)` on an unbuffered writer: frames only (typeguard) -/
def plainAppend (w : Writer σ β) (st : Option (WFrame β) × σ) (a : Arg β) : Option (Option (WFrame β) × σ) :=
  (argFrame a).bind (fun f => (w.append st.2 f).map (fun s => (st.1, s)))

/-- `append_data(arg)` of what `from_suffix` returned.
src: mokapot/tabular_data.py:434-436,521-548,617-619,669-673 -/
def fsAppend (w : Writer σ β) (k : Kind) (size : Nat) (st : Option (WFrame β) × σ) (a : Arg β) :
    Option (Option (WFrame β) × σ) :=
  if 1 < size then bufAppend w k size st a else plainAppend w st a

/-- `finalize()` of what `from_suffix` returned.
src: mokapot/tabular_data.py:398-399,559-561 -/
def fsFinalize (w : Writer σ β) (k : Kind) (size : Nat) (st : Option (WFrame β) × σ) :
    Option (Option (WFrame β) × σ) :=
  if 1 < size then bufFinalize w k size st else (w.fin st.2).map (fun s => (st.1, s))

/-- the writer object returned by `from_suffix` -/
def fromSuffixSess (w : Writer σ β) (k : Kind) (size : Nat) : Sess (Option (WFrame β) × σ) β :=
  ⟨fsInit w, fsAppend w k size, fsFinalize w k size⟩

/-- `with writer: writer.append_data(a₁); …` — one writer used alone -/
def runSess (w : Sess σ β) (s0 : σ) (args : List (Arg β)) : Option σ :=
  (w.enter s0).bind (fun s => (foldOpt w.app s args).bind w.exit)

/-- `for writer in writers: writer.__enter__()` resp. `__exit__` — every writer
with its current state; an exception ends the run -/
def enterAll (ws : List (Sess σ β × σ)) : Option (List (Sess σ β × σ)) :=
  optAll (ws.map (fun p => (p.1.enter p.2).map (fun t => (p.1, t))))

def exitAll (ws : List (Sess σ β × σ)) : Option (List (Sess σ β × σ)) :=
  optAll (ws.map (fun p => (p.1.exit p.2).map (fun t => (p.1, t))))

/-- `writers[i].append_data(arg)` inside the `with` block -/
def stepAt (ws : List (Sess σ β × σ)) (ia : Nat × Arg β) : Option (List (Sess σ β × σ)) :=
  ws[ia.1]?.bind (fun p => (p.1.app p.2 ia.2).map (fun t => ws.set ia.1 (p.1, t)))

/-- `with auto_finalize(writers): <appends to the writers in any interleaving>`;
an exception anywhere is `none` (the `finally` clause still finalises, the state
of the files after an exception is not modelled).
src: mokapot/tabular_data.py:439-452 -/
def runAuto (ws : List (Sess σ β × σ)) (prog : List (Nat × Arg β)) : Option (List σ) :=
  (enterAll ws).bind (fun st => (foldOpt stepAt st prog).bind (fun st' =>
    (exitAll st').map (fun out => out.map (fun p => p.2))))

/-- the appends of a program that go to writer number `j`, in order -/
def argsFor (j : Nat) (prog : List (Nat × Arg β)) : List (Arg β) :=
  (prog.filter (fun ia => ia.1 == j)).map (fun ia => ia.2)

/-! ## Delimited text with a separator option  (extension: `sep=` of
`from_path` / `from_suffix`, handed on by `get_associated_reader`) -/

/-- a delimited text file together with the separator its lines were written with -/
structure SepFile (β : Type) where
  sep : String
  file : CsvFile β
  deriving DecidableEq, Repr

/-- `CSVFileReader(file_name, sep)`: parsing a file with another separator than
the one it was written with is *not modelled* (`none`).
src: mokapot/tabular_data.py:189-191 -/
def csvReaderSep (sep : String) (d : SepFile β) : Option (Reader β) :=
  if sep = d.sep then some (csvReader d.file) else none

/-- `CSVFileWriter(file_name, columns, sep=sep)`: header and lines are written
with `sep`; appending to a file that was started with another separator is not
modelled.  src: mokapot/tabular_data.py:583-619 -/
def csvWriterSep (cols : List Name) (sep : String) : Writer (Option (SepFile β)) β where
  init := fun _ => some (some ⟨sep, ⟨cols, []⟩⟩)
  append := fun disk f =>
    if f.names = cols then
      disk.elim none (fun d =>
        if d.sep = sep then some (some ⟨sep, ⟨d.file.header, d.file.lines ++ f.rows.map rowVals⟩⟩) else none)
    else none
  fin := fun s => some s

/-- `get_associated_reader()`: `CSVFileReader(self.file_name, sep=self.stdargs["sep"])`.
src: mokapot/tabular_data.py:621-622 -/
def csvAssocReader (sep : String) (disk : Option (SepFile β)) : Option (Reader β) :=
  disk.bind (csvReaderSep sep)

/-! ## Frame readers from a series / an array  (extension) -/

/-- `DataFrameReader.from_series(series, name)`: one column, the series' own
index labels; `name=None` keeps the series' name.
src: mokapot/tabular_data.py:273-278 -/
def seriesReader (sname : Name) (name : Option Name) (vals : List (Nat × β)) : Reader β :=
  frameReader ⟨[name.getD sname], vals.map (fun iv => (iv.1, [(name.getD sname, iv.2)]))⟩

/-- `DataFrameReader.from_array(array, name)`: one column, labels `0, 1, …`.
src: mokapot/tabular_data.py:280-282 -/
def arrayReader (name : Name) (vals : List β) : Reader β :=
  frameReader ⟨[name], indexFrom 0 (vals.map (fun v => [(name, v)]))⟩

/-! ## Second pass: `from_suffix` with its options left to their defaults -/

/-- `buffer_size: int = 0`.  src: mokapot/tabular_data.py:416 -/
def defaultBufferSize : Nat := 0

/-- `buffer_type: TableType = TableType.DataFrame`.  src: mokapot/tabular_data.py:417 -/
def defaultKind : Kind := Kind.dataframe

/-- the object `TabularDataWriter.from_suffix(file_name, columns)` returns when both
buffer options are omitted.  src: mokapot/tabular_data.py:412-436 -/
def fromSuffixDefault (w : Writer σ β) : Sess (Option (WFrame β) × σ) β :=
  fromSuffixSess w defaultKind defaultBufferSize

/-! ## Second pass: one file, several writer objects; objects used again

mokapot itself splits a text file over two writer objects: `confidence.py:692-706`
creates a writer for the output path and calls `initialize()` (header), and
`confidence_writer.py:130-158` later creates *another* writer for the same path
with `from_suffix(path, out_columns)` and only calls `append_data(…)` and
`finalize()` (CSV append mode).  The state of a *file* with the writer objects
created for it is: the buffer of every object, and the storage (shared). -/

/-- `write(data)` of the object `from_suffix` returned, whatever state the object is
in: a `BufferedWriter` hands the frame to the file writer's `write` and leaves its
own buffer alone; an unbuffered writer is the file writer.
src: mokapot/tabular_data.py:389-393,555-556,677-678 -/
def fsWrite (inner : σ → WFrame β → Option σ) (size : Nat) (st : Option (WFrame β) × σ) (f : WFrame β) :
    Option (Option (WFrame β) × σ) :=
  if 1 < size then bufWrite1 inner st f else (inner st.2 f).map (fun s => (st.1, s))

/-- one call on a writer object -/
inductive Call (β : Type) where
  | init                      -- `initialize()` / `__enter__()`
  | app (a : Arg β)           -- `append_data(a)`
  | fin                       -- `finalize()` / `__exit__()`
  | write (f : WFrame β)      -- `write(f)`

/-- one call on the object `from_suffix(…, buffer_size=o.2, buffer_type=o.1)`
returned; `inner` is the `write` of the file writer.
src: mokapot/tabular_data.py:389-406,521-563 -/
def objStep (w : Writer σ β) (inner : σ → WFrame β → Option σ) (o : Kind × Nat) (st : Option (WFrame β) × σ) :
    Call β → Option (Option (WFrame β) × σ)
  | .init => fsInit w st
  | .app a => fsAppend w o.1 o.2 st a
  | .fin => fsFinalize w o.1 o.2 st
  | .write f => fsWrite inner o.2 st f

/-- `objs[j].<call>`: the objects share the storage, each has its own buffer
(an unknown object number: `IndexError`) -/
def fileStep (w : Writer σ β) (inner : σ → WFrame β → Option σ) (objs : List (Kind × Nat))
    (st : List (Option (WFrame β)) × σ) (jc : Nat × Call β) : Option (List (Option (WFrame β)) × σ) :=
  objs[jc.1]?.bind (fun o => st.1[jc.1]?.bind (fun b =>
    (objStep w inner o (b, st.2) jc.2).map (fun p => (st.1.set jc.1 p.1, p.2))))

/-- a program of calls on freshly created writer objects for one file -/
def runCalls (w : Writer σ β) (inner : σ → WFrame β → Option σ) (objs : List (Kind × Nat)) (s0 : σ)
    (calls : List (Nat × Call β)) : Option (List (Option (WFrame β)) × σ) :=
  foldOpt (fileStep w inner objs) (objs.map (fun _ => none), s0) calls

/-- a *use* of the file: `objs[j0].initialize()` followed by any number of
segments `objs[j].append_data(a₁); …; objs[j].finalize()` (one object after the
other, possibly the same one again), or a one-shot `objs[j].write(f)` -/
inductive Episode (β : Type) where
  | run (j0 : Nat) (segs : List (Nat × List (Arg β)))
  | write (j : Nat) (f : WFrame β)

/-- the calls of one segment -/
def segCalls (seg : Nat × List (Arg β)) : List (Nat × Call β) :=
  seg.2.map (fun a => (seg.1, Call.app a)) ++ [(seg.1, Call.fin)]

/-- the calls of an episode -/
def Episode.calls : Episode β → List (Nat × Call β)
  | .run j0 segs => (j0, Call.init) :: segs.flatMap segCalls
  | .write j f => [(j, Call.write f)]

/-- **specification side**: the rows an episode hands over, in call order -/
def Episode.rows : Episode β → List (Row β)
  | .run _ segs => segs.flatMap (fun seg => seg.2.flatMap Arg.rows)
  | .write _ f => f.rows

/-- one object used on its own: a `with writer:` block with these appends, or `write(f)` -/
inductive Use (β : Type) where
  | session (args : List (Arg β))
  | write (f : WFrame β)

/-- the episode object number `j` performs for a use -/
def Use.episode (j : Nat) : Use β → Episode β
  | .session args => .run j [(j, args)]
  | .write f => .write j f

end Mk.Tabular
