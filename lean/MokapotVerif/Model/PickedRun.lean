import MokapotVerif.Model.Picked
import MokapotVerif.Model.Cross
/-!
# Picked-protein, second extension: group names, the protein level of a whole `assign_confidence` call

Added by the second audit of C15 (see `GAPS-C15.md`, "Second pass").  Everything follows the data
flow of the code; the definitions of `Model/Picked.lean` are used, not rewritten.

1. how a protein group gets its name (`", ".join(...)`, fasta.py:551) against how `picked_protein`
   reads the first member back (`.str.split(", ", expand=True)[0]`, picked_protein.py:108-112; before the
   repair bfdfdaf of /repo it was `split(",")` — kept as a refuted variant in `Mutants/PickedRun.lean`);
2. the chunk-wise result writer at the protein level (confidence.py:140-176,
   confidence_writer.py:112-158: four streams cut into pieces of `CONFIDENCE_CHUNK_SIZE` rows);
3. the loop of `assign_confidence` over several collections (confidence.py:667-820): which
   `…targets.proteins` / `…decoys.proteins` receives what (prefixes, shared prefix-less files,
   `append_to_output_file`).

The generic writer model `Mk.Cross.writeChunked` (written for C05 over arbitrary row types) is the
model of item 2; here it is instantiated with the protein level table.
-/
namespace Mk.Picked
variable {α : Type}

/-! ## 1. group names -/

/-- `", ".join(members)`: the name `read_fasta` gives a protein group (and the name
`group_without_decoys` gives a mirrored group). src: mokapot/parsers/fasta.py:551,
mokapot/picked_protein.py:213-215 -/
def joinGroup : List Str → Str
  | [] => []
  | [m] => m
  | m :: m' :: ms => m ++ ',' :: ' ' :: joinGroup (m' :: ms)

/-- does the text hold the separator `", "` somewhere? -/
def hasSep : List Char → Bool
  | [] => false
  | c :: cs => startsSep (c :: cs) || hasSep cs

/-- a protein name that does not hold the separator `", "` (what `.str.split(", ")` assumes; true of every
identifier `read_fasta` produces: the identifier is the header up to the first blank). A comma alone is fine. -/
def commaFree (m : Str) : Prop := hasSep m = false

instance (m : Str) : Decidable (commaFree m) := inferInstanceAs (Decidable (hasSep m = false))

/-! ## 2. the chunk-wise writer at the protein level -/

/-- one data line of `targets.proteins` / `decoys.proteins`: entry, q-value, PEP -/
abbrev ProtLine (α : Type) := Entry α × Rat × Rat

/-- `write_to_disk` + `write_confidences` for the protein level table `arr`: the level file is read
back in pieces of `c` rows, `self.qvals`, `self.peps` and `self.targets` (computed on the *whole*
table) are cut with `create_chunks(…, c)`, the four streams are zipped; of every piece the target
rows go to the first file and — only with `decoys=True` — the decoy rows to the second
(`out_paths.pop(1)` otherwise).  `pep` is the PEP kernel (C06), a parameter.
src: mokapot/confidence.py:140-176, 396-455, mokapot/confidence_writer.py:112-158 -/
def proteinFilesChunked (c : Nat) (qv : List (α × Bool) → List Rat) (pep : List (Entry α) → List Rat)
    (decoys : Bool) (arr : List (Entry α)) : List (ProtLine α) × Option (List (ProtLine α)) :=
  ((Cross.writeChunked c arr (qv (entryLabels arr)) (pep arr) (arr.map (fun e => e.target))).1,
   if decoys then
     some (Cross.writeChunked c arr (qv (entryLabels arr)) (pep arr) (arr.map (fun e => e.target))).2
   else none)

/-- forget the PEP column -/
def dropPep (l : ProtLine α) : Entry α × Rat := (l.1, l.2.1)

/-! ## 3. several collections in one call -/

/-- a collection as the protein level sees it: its prefix (`None` and `""` ↦ `none`, a truthy prefix
↦ its identity; the map prefix ↦ file name is injective) and its protein level table (the entries
`picked_protein` returned for *this* collection's peptide level, in the order
`sort_values(by=score, ascending=False)` left them). -/
structure ProtColl (α : Type) where
  pre : Option Nat
  arr : List (Entry α)

/-- a result file of the protein level: (prefix, is it the decoys file) -/
abbrev ProtName := Option Nat × Bool

/-- the protein result files of a directory: `none` = no such file, `some ls` = its data lines
(the header line is outside the model) -/
abbrev ProtFS (α : Type) := ProtName → Option (List (ProtLine α))

/-- `writer.initialize()`: (re)create the file with the header only -/
def protInit (fs : ProtFS α) (n : ProtName) : ProtFS α := fun m => if m = n then some [] else fs m

/-- `writer.append_data(df)`: creates the file if absent -/
def protAppend (fs : ProtFS α) (n : ProtName) (ls : List (ProtLine α)) : ProtFS α :=
  fun m => if m = n then some ((fs n).getD [] ++ ls) else fs m

/-- `append_here = append_to_output_file or (unprefixed_written and not prefix)`.
src: mokapot/confidence.py:683-688 -/
def protAppendHere (app unprefixedWritten : Bool) (pre : Option Nat) : Bool :=
  app || (unprefixedWritten && pre.isNone)

/-- the writers of the protein level are created: `…targets.proteins` always, `…decoys.proteins` iff
`decoys`; both are initialised unless this collection appends. src: mokapot/confidence.py:690-712 -/
def protOpen (appHere decoys : Bool) (pre : Option Nat) (fs : ProtFS α) : ProtFS α :=
  if appHere then fs
  else if decoys then protInit (protInit fs (pre, false)) (pre, true)
  else protInit fs (pre, false)

/-- `LinearConfidence._assign_confidence` at the protein level: the lines of this collection are
appended to its files. src: mokapot/confidence.py:392-455 -/
def protWrite (c : Nat) (qv : List (α × Bool) → List Rat) (pep : List (Entry α) → List Rat)
    (decoys : Bool) (k : ProtColl α) (fs : ProtFS α) : ProtFS α :=
  if decoys then
    protAppend (protAppend fs (k.pre, false) (proteinFilesChunked c qv pep decoys k.arr).1) (k.pre, true)
      ((proteinFilesChunked c qv pep decoys k.arr).2.getD [])
  else protAppend fs (k.pre, false) (proteinFilesChunked c qv pep decoys k.arr).1

/-- one pass of `for _psms, score, desc, prefix in zip(psms, scores, descs, prefixes)`.
State: the directory and `unprefixed_written`. src: mokapot/confidence.py:667-820 -/
def protStep (c : Nat) (qv : List (α × Bool) → List Rat) (pep : List (Entry α) → List Rat)
    (decoys app : Bool) (st : ProtFS α × Bool) (k : ProtColl α) : ProtFS α × Bool :=
  (protWrite c qv pep decoys k (protOpen (protAppendHere app st.2 k.pre) decoys k.pre st.1),
   st.2 || k.pre.isNone)

/-- the protein result files after one call of `assign_confidence(psms=[…], prefixes=[…],
proteins=…, decoys=…, append_to_output_file=app)` on a directory `fs0`.
src: mokapot/confidence.py:667-820 -/
def protRun (c : Nat) (qv : List (α × Bool) → List Rat) (pep : List (Entry α) → List Rat)
    (decoys app : Bool) (colls : List (ProtColl α)) (fs0 : ProtFS α) : ProtFS α :=
  (colls.foldl (protStep c qv pep decoys app) (fs0, false)).1

/-! ### Specification of the directory after the call -/

/-- the lines a collection contributes to its targets (`decoy = false`) / decoys (`true`) file:
the rows of its own protein level table with that flag, in table order, each with the q-value and
PEP computed over the *whole* table of this collection (no chunk size in sight) -/
def protPart (qv : List (α × Bool) → List Rat) (pep : List (Entry α) → List Rat) (decoy : Bool)
    (k : ProtColl α) : List (ProtLine α) :=
  ((k.arr.zip ((qv (entryLabels k.arr)).zip (pep k.arr))).filter (fun x => x.1.target != decoy))

/-- the last element of a list of collections (used for "the last collection with this prefix") -/
def lastColl : List (ProtColl α) → Option (ProtColl α)
  | [] => none
  | [k] => some k
  | _ :: k :: ks => lastColl (k :: ks)

/-- **Specification.**  A file that no collection of the call owns (or a decoys file when
`decoys=False`) is left as it was.  Otherwise: with `append_to_output_file` every owner appends to
what was there; without it, the prefix-less collections share their file — it holds their parts in
call order — and a file with a prefix of its own holds the part of the *last* collection carrying
that prefix. -/
def protRunSpec (qv : List (α × Bool) → List Rat) (pep : List (Entry α) → List Rat)
    (decoys app : Bool) (colls : List (ProtColl α)) (fs0 : ProtFS α) : ProtFS α := fun n =>
  if (colls.filter (fun k => k.pre == n.1)).isEmpty || (n.2 && !decoys) then fs0 n
  else if app then
    some ((fs0 n).getD [] ++ (colls.filter (fun k => k.pre == n.1)).flatMap (protPart qv pep n.2))
  else if n.1.isNone then some ((colls.filter (fun k => k.pre == n.1)).flatMap (protPart qv pep n.2))
  else (lastColl (colls.filter (fun k => k.pre == n.1))).map (protPart qv pep n.2)

end Mk.Picked
