import MokapotVerif.Model.GroupingExt
/-!
# The strings `read_fasta` hands out (C16, second extension)

`Model/Grouping.lean` keeps a group name as the list of its member names and the value of a
shared peptide as a set of such lists.  The code keeps *strings*:

* a group name is built incrementally, `new_prot = ", ".join([match, prot])` (fasta.py:551);
* `unique_peptides[pep] = next(iter(prots))` is that string (fasta.py:161);
* `shared_peptides[pep] = "; ".join(sorted(prots))` (fasta.py:163) — the set of group names is
  *sorted* (Python's `sorted` on `str`: lexicographic by code point) before it is joined, so the
  value does not depend on the iteration order of the set.

This file adds those string constructions on character lists (`joinWith`, `nameOf`,
`sharedValue`, `render`), the order `strLe` that `sorted` uses, and the declarative description
of a group name (`membersInOrder`: the members in processing order).  Import-free apart from
the grouping model.
-/
namespace Mk.Grouping
variable {α β : Type} [DecidableEq α] [DecidableEq β]

/-! ## `str.join` -/

/-- the part of `sep.join(a :: rest)` after `a`: every further element preceded by `sep` -/
def joinTail (sep : List Char) : List (List Char) → List Char
  | [] => []
  | b :: rest => sep ++ b ++ joinTail sep rest

/-- `sep.join(parts)` -/
def joinWith (sep : List Char) : List (List Char) → List Char
  | [] => []
  | a :: rest => a ++ joinTail sep rest

/-- the separator of group names, `", "`.  src: mokapot/parsers/fasta.py:551 -/
def sepG : List Char := [',', ' ']

/-- the separator of the groups of a shared peptide, `"; "`.  src: mokapot/parsers/fasta.py:163 -/
def sepS : List Char := [';', ' ']

/-- the string under which the code keeps the group with member list `k`
(`", ".join([match, prot])` applied once per joining protein).  src: fasta.py:551 -/
def nameOf (k : GKey (List Char)) : List Char := joinWith sepG k

/-- `new_prot = ", ".join([match, prot])` on the strings the code holds.  src: fasta.py:551 -/
def newProt (matchName prot : List Char) : List Char := joinWith sepG [matchName, prot]

/-! ## `sorted` on strings -/

/-- `a <= b` for Python `str` (lexicographic by code point) -/
def strLe : List Char → List Char → Bool
  | [], _ => true
  | _ :: _, [] => false
  | a :: as, b :: bs => if a = b then strLe as bs else decide (a ≤ b)

/-- `sorted(strings)` (any correct sort gives this list: the order is total and antisymmetric) -/
def sortStrs (l : List (List Char)) : List (List Char) := l.mergeSort strLe

/-! ## the observable values -/

/-- `"; ".join(sorted(prots))` for the set `ks` of group keys; `sortS` is the sort.
src: mokapot/parsers/fasta.py:163 -/
def sharedValue (sortS : List (List Char) → List (List Char)) (ks : List (GKey (List Char))) : List Char :=
  joinWith sepS (sortS (ks.map nameOf))

/-- the `peptide_map` dict as strings: peptide ↦ group name.  src: fasta.py:159-161 -/
def renderUnique (um : List (β × GKey (List Char))) : List (β × List Char) :=
  um.map (fun e => (e.1, nameOf e.2))

/-- the `shared_peptides` dict as strings: peptide ↦ `"; "`-joined sorted group names.
src: fasta.py:162-163 -/
def renderShared (sortS : List (List Char) → List (List Char)) (sh : List (PepEntry (List Char) β)) :
    List (β × List Char) :=
  sh.map (fun e => (e.1, sharedValue sortS e.2))

/-- the `grouped` dict with string keys -/
def renderGroups (gs : List (Group (List Char) β)) : List (List Char × List β) :=
  gs.map (fun g => (nameOf g.1, g.2))

/-- what the attributes of the returned `Proteins` object hold, as Python values (dict items in
insertion order, strings as character lists).  src: mokapot/parsers/fasta.py:155-185 -/
structure Rendered (β : Type) where
  peptideMap : List (β × List Char)
  shared : List (β × List Char)
  proteinMap : List (List Char × List Char)
  hasDecoys : Bool

def render (sortS : List (List Char) → List (List Char)) (o : Out (List Char) β) : Rendered β :=
  { peptideMap := renderUnique o.peptideMap,
    shared := renderShared sortS o.shared,
    proteinMap := o.proteinMap,
    hasDecoys := o.hasDecoys }

/-! ## declarative description of a group name -/

/-- the names of the proteins whose peptide set lies inside `S`, in *processing* order `srt`
(the order of `sorted(proteins.items(), key=-len)`): what a group name lists -/
def membersInOrder (srt : List (Prot α β)) (S : List β) : GKey α :=
  (srt.filter (fun e => subsetB e.2 S)).map (·.1)

/-! ## repeated entries

The same protein listed twice with the same sequence (the same FASTA given twice, overlapping
files): `proteins[prot] = peps` overwrites the value with an equal one and `set.add` ignores
the repeat, so the run is that of the FASTA without the repeats. -/

/-- entries with the same name carry the same peptide set (as far as they have peptides) -/
def consistentB (entries : List (Prot α β)) : Bool :=
  entries.all (fun e => entries.all (fun e' =>
    !decide (e.1 = e'.1) || e.2.isEmpty || e'.2.isEmpty || decide (e.2 = e'.2)))

end Mk.Grouping
