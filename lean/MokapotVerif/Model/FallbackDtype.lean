import MokapotVerif.Model.FallbackFull
/-!
# Stored number types of a score column on its way through `assign_confidence` and `tdc`
(third extension of `Model/Fallback.lean`)

When `brew` falls back to the best feature it hands back that feature's column *as it is stored*
(`_psms.read_data(columns=[feat]).values`, brew.py:281-285): an integer array when the feature is an
integer column — `int64` for a text file, the stored type (`uint16`, `int8`, …) for a Parquet file.
Everything proved so far is about integers with exact arithmetic (`rankScore desc s = -s`).  The code
computes in the array's number type.  This file models the number types and the two conversions the
code makes before it ranks:

* confidence.py:648-655 (after the repair proposed in FINDING-C07.md): `score = np.asarray(score,
  dtype=float)` and only then `if not desc: score = -score`;
* qvalues.py:104-108 (after the repair): `tdc` converts an integer score array to `float64`.

`castF64` is the conversion of an integer to binary64 (round to 53 significant bits, ties to even);
`negInDtype` / `castF32` are what the code did before the repair (negation inside the stored integer
type, conversion to binary32) — they are the refuted variants of `Mutants/FallbackDtype.lean`.

src: mokapot/confidence.py:646-655, mokapot/qvalues.py:104-113, mokapot/brew.py:276-285,
mokapot/model.py:585-600 (`direction=`: an integer ndarray reaches `tdc` through `_update_labels`),
mokapot/dataset.py:723-742 (`_update_labels`: a `Series` is converted with `.astype(float)`).
-/
namespace Mk.Fallback
open Mk

/-! ## integer number types (numpy / Arrow `int8 … int64`, `uint8 … uint64`) -/

/-- an integer number type: `bits` wide, two's complement when `signed` -/
structure IntDtype where
  bits : Nat
  signed : Bool
  deriving Repr, DecidableEq

/-- smallest value of the type -/
def IntDtype.lo (d : IntDtype) : Int := if d.signed then -(2 ^ (d.bits - 1) : Int) else 0

/-- largest value of the type -/
def IntDtype.hi (d : IntDtype) : Int := if d.signed then (2 ^ (d.bits - 1) : Int) - 1 else (2 ^ d.bits : Int) - 1

/-- `x` is a value of the type -/
def inDtype (d : IntDtype) (x : Int) : Bool := Decidable.decide (d.lo ≤ x) && Decidable.decide (x ≤ d.hi)

/-- numpy integer arithmetic wraps around: the value of the type congruent to `x` modulo `2^bits` -/
def wrapTo (d : IntDtype) (x : Int) : Int :=
  if d.signed then (x + (2 ^ (d.bits - 1) : Int)) % (2 ^ d.bits : Int) - (2 ^ (d.bits - 1) : Int)
  else x % (2 ^ d.bits : Int)

/-- `-score` on an integer ndarray of type `d` (confidence.py:652 *before* the repair) -/
def negInDtype (d : IntDtype) (x : Int) : Int := wrapTo d (-x)

/-! ## conversion of an integer to a binary floating point number -/

/-- number of binary digits of `n` (0 for 0) -/
def bitLen (n : Nat) : Nat := if n = 0 then 0 else Nat.log2 n + 1

/-- `n` rounded to `p` significant binary digits, ties to even (IEEE 754 round-to-nearest-even, no
overflow: the exponent range of binary32 / binary64 is not reached by 64-bit integers) -/
def roundNat (p n : Nat) : Nat :=
  if bitLen n ≤ p then n
  else
    let sh := bitLen n - p
    let q := n / 2 ^ sh
    let r := n % 2 ^ sh
    let up := Decidable.decide (2 ^ (sh - 1) < r) || (Decidable.decide (r = 2 ^ (sh - 1)) && Decidable.decide (q % 2 = 1))
    (if up then q + 1 else q) * 2 ^ sh

/-- the integer value of `float(x)` with `p` significant digits (sign and magnitude) -/
def roundBits (p : Nat) (x : Int) : Int :=
  if x < 0 then -((roundNat p x.natAbs : Nat) : Int) else ((roundNat p x.natAbs : Nat) : Int)

/-- `np.asarray(score, dtype=float)` / `scores.astype(np.float64)` on an integer: binary64 has 53 significant
digits.  src: confidence.py:650 (repair), qvalues.py:107-108 (repair) -/
def castF64 (x : Int) : Int := roundBits 53 x

/-- `scores.astype(np.float32)` on an integer (qvalues.py:107-108 *before* the repair): 24 significant digits -/
def castF32 (x : Int) : Int := roundBits 24 x

/-- every value is an integer of magnitude below `2^53` (exactly representable in binary64); true of every
column of a type of at most 53 bits -/
def f64Exact (col : List Int) : Bool := col.all (fun x => Decidable.decide (x.natAbs < 2 ^ 53))

/-! ## the entry of `assign_confidence` on a stored column -/

/-- confidence.py:646-655 (repaired): the column is converted to binary64, then a lower-is-better column is
negated; the result is ranked (and reported) higher-is-better -/
def entryRankTyped (desc : Bool) (col : List Int) : List Int := (col.map castF64).map (rankScore desc)

/-- the rows of the confidence pipeline (C03 model) as ranked for a stored score column of direction `desc` -/
def confInputTyped (desc : Bool) (rows : List Row) : List Row :=
  rows.map (fun r => { r with score := rankScore desc (castF64 r.score) })

/-- the PEP estimator's input for a stored column (entry flip, then confidence.py:421 with `desc = True`) -/
def pepScoresTyped (desc : Bool) (col : List Int) : List Int :=
  pepInput true (entryRankTyped desc col)

/-! ## `tdc` on an integer array; `Model(direction=<feature>)` on the stored column -/

/-- accepted targets of an integer score array in direction `desc` as `tdc` counts them: the array is converted
to binary64 first (qvalues.py:104-113, dataset.py:737-742) -/
def featCountTyped (thr : Rat) (targets : List Bool) (desc : Bool) (col : List Int) : Nat :=
  featCount thr targets desc (col.map castF64)

/-- `(feat_pass, desc)` of `Model(direction=<feature>)` from the stored column of that feature on the training
rows: both directions are counted, higher-is-better wins a tie (model.py:585-600) -/
def dirStartCol (thr : Rat) (targets : List Bool) (col : List Int) : Nat × Bool :=
  dirStart (featCountTyped thr targets true col) (featCountTyped thr targets false col)

/-! ## brew's fallback followed by `assign_confidence`: what is ranked in the end -/

/-- the ranking columns, one per collection, when the pair returned by the tail of `brew` is handed to
`assign_confidence(scores=…, descs=…)` (brew.py:198-304, then confidence.py:646-655) -/
def brewThenRank (reset ensemble : Bool) (ms : List FoldModel) (thr : Rat) (colls : List Coll) (src : Sources) :
    Option (List (List Int)) :=
  (brewFull reset ensemble ms thr colls src).map (fun out =>
    (out.1.zip out.2).map (fun cd => entryRankTyped cd.2 cd.1))

end Mk.Fallback
