import MokapotVerif.Model.Qvalues
/-!
# Model of the best-feature safety net of `brew`

src: mokapot/brew.py:253-304 (comparison and fallback), 212-252 (zero scores when a model is
untrained), mokapot/dataset.py:199-270 / 565-620 (`find_best_feature`), 779-794
(`update_labels` with `convert_targets_column`, after fix D2), mokapot/utils.py:184-220
(`convert_targets_column`), mokapot/confidence.py:626-632 (direction handling, after fix D3).
-/
namespace Mk.Fallback
open Mk

/-! ## label decoding (`convert_targets_column`) -/

inductive RawLabel where
  | int (i : Int)      -- integer / float label column
  | bool (b : Bool)    -- boolean label column
  deriving Repr, DecidableEq

/-- 1 / True ↦ target; 0, −1 / False ↦ decoy; anything else is rejected (ValueError).
src: utils.py:209-220 -/
def decodeLabel : RawLabel → Option Bool
  | .bool b => some b
  | .int i => if i < -1 ∨ i > 1 then none else some (i == 1)

/-- the three encodings of one truth value -/
def encPM1 (t : Bool) : RawLabel := .int (if t then 1 else -1)
def enc01 (t : Bool) : RawLabel := .int (if t then 1 else 0)
def encBool (t : Bool) : RawLabel := .bool t

/-- the *old* `update_labels` (before fix D2): `.astype(bool)` on the raw column -/
def decodeLabelOld : RawLabel → Option Bool
  | .bool b => some b
  | .int i => some (i != 0)

/-! ## counting accepted targets -/

/-- number of PSMs labelled +1 by `_update_labels` (targets with q ≤ thr) -/
def accepted {α : Type} (le : α → α → Bool) (thr : Rat) (xs : List (α × Bool)) : Nat :=
  (updateLabels le thr xs).count 1

/-- `pred_total` (brew.py:263-273): accepted targets summed over the collections, labels decoded
from the raw label column; `none` when a label is out of range -/
def decodeColl {α : Type} (c : List (α × RawLabel)) : Option (List (α × Bool)) :=
  c.mapM (fun x => (decodeLabel x.2).map (fun t => (x.1, t)))

def predTotal {α : Type} (le : α → α → Bool) (thr : Rat) (colls : List (List (α × RawLabel))) : Option Nat :=
  (colls.mapM (fun c => (decodeColl c).map (accepted le thr))).map List.sum

/-! ## `find_best_feature` (dataset.py:580-620): first maximiser, descending direction tried first,
strict improvement needed to replace -/

/-- first index of the maximum (`pd.Series.idxmax`) with its value; `(0,0)` on the empty list -/
def argmaxFirst : List Nat → Nat × Nat
  | [] => (0, 0)
  | x :: xs => if x ≥ (argmaxFirst xs).2 then (0, x) else ((argmaxFirst xs).1 + 1, (argmaxFirst xs).2)

/-- `(feature index, count, desc)` or `none` (RuntimeError: nothing accepted).  `countsDesc`,
`countsAsc` are the accepted counts per feature in the two directions. -/
def bestFeature (countsDesc countsAsc : List Nat) : Option (Nat × Nat × Bool) :=
  let d := argmaxFirst countsDesc
  let a := argmaxFirst countsAsc
  let afterDesc : Option (Nat × Nat × Bool) := if d.2 > 0 then some (d.1, d.2, true) else none
  let bestSoFar := (afterDesc.map (fun b => b.2.1)).getD 0
  if a.2 > bestSoFar then some (a.1, a.2, false) else afterDesc

/-! ## the decision of `brew` -/

structure FoldModel where
  featPass : Nat        -- `feat_pass`: targets accepted by the best feature on the training set
  bestFeat : Nat        -- `best_feat` (index of the feature)
  desc : Bool           -- its direction
  override : Bool
  trained : Bool
  deriving Repr, DecidableEq

/-- `max(enumerate(feat_pass), key=itemgetter(1))`: Python's `max` keeps the *first* maximum -/
def bestOfModels (ms : List FoldModel) : Nat × Nat := argmaxFirst (ms.map (·.featPass))

inductive Decision where
  | useModel                               -- scores of the learned models, descs = [True]*n
  | useFeature (feat : Nat) (desc : Bool)  -- values of that feature, its direction for every collection
  deriving Repr, DecidableEq

/-- brew.py:255-289: unless every model has `override`, fall back iff the best feature accepted
strictly more targets during training than the returned scores do at `test_fdr` -/
def decide (ms : List FoldModel) (pred : Nat) : Decision :=
  if ms.all (·.override) then .useModel
  else
    if (bestOfModels ms).2 > pred then
      .useFeature (ms.getD (bestOfModels ms).1 ⟨0, 0, true, false, false⟩).bestFeat (ms.getD (bestOfModels ms).1 ⟨0, 0, true, false, false⟩).desc
    else .useModel

/-- scores handed to the comparison: the models' scores, or all zeros when some model is
untrained (brew.py:250-252) -/
def comparedScores (ms : List FoldModel) (modelScores : List Int) : List Int :=
  if ms.all (·.trained) then modelScores else modelScores.map (fun _ => 0)

/-! ## direction handling in `assign_confidence` (confidence.py:626-632, fix D3) -/

/-- a lower-is-better score is ranked (and reported) by its negation -/
def rankScore (desc : Bool) (s : Int) : Int := if desc then s else -s

end Mk.Fallback
