import MokapotVerif.Model.Calibrate
/-!
# What `brew` does with the calibrated scores  (mokapot/brew.py:253-306, third audit pass)

`list(_predict(...))` (model: `predictColls`) is not what `brew` returns.  After it, `brew`
counts the targets the returned score vectors accept at `test_fdr` (`pred_total`: one
`update_labels` per collection, on the *whole* collection, all folds pooled, `desc=True`),
compares the count with the best single feature's count during training (`feat_total`: the
largest `feat_pass` of the fold models, or 0 when every model carries `override=True`), and
only if `feat_total > pred_total` replaces the calibrated scores by the raw column of that
feature.  On a tie the calibrated scores are kept.  An exception raised by `_predict` is raised
before any of this is looked at.

A fold model is represented here by `(override, feat_pass)`; the models are in the order
`_predict` sees them (after `fitted.sort(key=fold)`, see `sortByFold`).  The values of the
feature column returned by the fallback belong to property C07 (`Model/Fallback*.lean`); here
the fallback is a constructor carrying the index of the model whose `best_feat` is used.
-/
namespace Mk.Calibrate

/-- the finite value of a float, `none` for `±inf` / `nan` -/
def finOf : XR → Option Rat
  | XR.fin r => some r
  | _ => none

/-- all entries finite -/
def allFin : List XR → Option (List Rat)
  | [] => some []
  | x :: l => Option.bind (finOf x) (fun r => Option.bind (allFin l) (fun rs => some (r :: rs)))

/-- all score vectors finite -/
def allFinColls : List (List XR) → Option (List (List Rat))
  | [] => some []
  | v :: l => Option.bind (allFin v) (fun r => Option.bind (allFinColls l) (fun rs => some (r :: rs)))

/-- `(pred == 1).sum()` for one collection: `update_labels(file, s, target_column, test_fdr)` with
the default `desc=True` on the collection's whole score vector (all folds pooled).
src: mokapot/brew.py:264-275, mokapot/dataset.py:779-794 -/
def predCount (thr : Rat) (scores : List Rat) (rows : List FRow) : Nat :=
  (updateLabels (calLe true) thr (scores.zip (rows.map (fun r => r.target)))).count 1

/-- `pred_total = sum([(pred == 1).sum() for pred in preds])`. src: mokapot/brew.py:264-275 -/
def predTotal (thr : Rat) : List (List Rat) → List (List FRow) → Nat
  | s :: ss, r :: rs => predCount thr s r + predTotal thr ss rs
  | _, _ => 0

/-- `all([m.override for m in models])`. src: mokapot/brew.py:256 -/
def allOverride (ms : List (Bool × Nat)) : Bool := ms.all (fun m => m.1)

/-- `max(enumerate(values), key=itemgetter(1))` continued from a current best `(index, value)`:
Python's `max` keeps the *first* maximal element, a later one replaces it only when strictly larger -/
def maxFirstFrom (best : Nat × Nat) (i : Nat) : List Nat → Nat × Nat
  | [] => best
  | v :: l => if best.2 < v then maxFirstFrom (i, v) (i + 1) l else maxFirstFrom best (i + 1) l

/-- `best_feat_idx, feat_total = max(enumerate(feat_pass of the models), key=itemgetter(1))`;
`(0, 0)` stands for the empty model list (not reachable: `_predict` raises first).
src: mokapot/brew.py:257-260 -/
def bestFeatOfList : List Nat → Nat × Nat
  | [] => (0, 0)
  | v :: l => maxFirstFrom (0, v) 1 l

def bestFeatOf (ms : List (Bool × Nat)) : Nat × Nat := bestFeatOfList (ms.map (fun m => m.2))

/-- `feat_total`: 0 when every model has `override`, otherwise the largest `feat_pass`.
src: mokapot/brew.py:256-262 -/
def featTotal (ms : List (Bool × Nat)) : Nat := if allOverride ms then 0 else (bestFeatOf ms).2

/-- what `brew` hands back as `scores` -/
inductive BrewOut where
  /-- the score vectors of `_predict`, untouched (`descs = [True, …]`) -/
  | kept (scores : List (List XR))
  /-- the raw column `best_feat` of model number `idx` for every collection (C07 owns its content) -/
  | bestFeature (idx : Nat)
  deriving DecidableEq, Repr, Inhabited

/-- `if feat_total > pred_total: <best feature> else: <scores as they are>`.
src: mokapot/brew.py:277-291 -/
def keepDecision (ms : List (Bool × Nat)) (predTot : Nat) (sc : List (List XR)) : BrewOut :=
  if predTot < featTotal ms then BrewOut.bestFeature (bestFeatOf ms).1 else BrewOut.kept sc

/-- the non-ensemble, non-reset path of `brew` from `_predict` to the returned `scores`:
an error of `_predict` propagates; `none` stands for non-finite calibrated scores (a fold with
`t = d` or without decoys — outside the property; `tdc` on `nan` is not modelled).
src: mokapot/brew.py:243-251 (`scores = list(_predict(...))`), 253-291 -/
def brewReturn (c : Nat) (dfs : List Bool) (thr : Rat) (ms : List (Bool × Nat)) (colls : List (List FRow)) :
    Except CalErr (Option BrewOut) :=
  Except.bind (predictColls c dfs thr colls) (fun sc =>
    Except.ok (Option.map (fun fin => keepDecision ms (predTotal thr fin colls) sc) (allFinColls sc)))

/-! ## Declarative side -/

/-- the number of targets of one collection that the pooled score vector accepts at `thr`, by the
defining formula of the q-value (no `tdc`, no labels) -/
def acceptedCount (thr : Rat) (scores : List Rat) (rows : List FRow) : Nat :=
  ((scores.zip (rows.map (fun r => r.target))).filter
    (fun x => x.2 && decide (qSpec (calLe true) (scores.zip (rows.map (fun r => r.target))) x.1 ≤ thr))).length

/-- accepted targets over all collections -/
def acceptedTotal (thr : Rat) : List (List Rat) → List (List FRow) → Nat
  | s :: ss, r :: rs => acceptedCount thr s r + acceptedTotal thr ss rs
  | _, _ => 0

/-- the largest `feat_pass` (0 for no model) -/
def maxFeatPass (ms : List (Bool × Nat)) : Nat := (ms.map (fun m => m.2)).foldr max 0

/-- **Specification** of the decision: the calibrated scores are returned unless some model may be
overruled and the best feature passed strictly more targets than they accept -/
def KeptSpec (thr : Rat) (ms : List (Bool × Nat)) (fin : List (List Rat)) (colls : List (List FRow)) : Prop :=
  (∀ m ∈ ms, m.1 = true) ∨ maxFeatPass ms ≤ acceptedTotal thr fin colls

/-- Boolean form of `KeptSpec` (driver op `keepspec`, mutant witnesses) -/
def keptSpecB (thr : Rat) (ms : List (Bool × Nat)) (fin : List (List Rat)) (colls : List (List FRow)) : Bool :=
  ms.all (fun m => m.1) || decide (maxFeatPass ms ≤ acceptedTotal thr fin colls)

end Mk.Calibrate
