import MokapotVerif.Model.TdcExt
/-!
# C04, third extension: the set accepted at `q ≤ a` when scores are TIED

Learners of high capacity (fully grown trees, the quantifier of C04 names them) return few
distinct scores, so a level file consists of large groups of tied rows.  `tdc` gives all rows of a
tie group the same q-value: it reads the FDR estimate of a group at the group's LAST row
(`fdr_group[np.argmax(n_group)]`, qvalues.py:170-189, groups from `np.unique(scores,
return_counts=True)`, qvalues.py:128).  Hence the set accepted at `q ≤ a` can only end at a
**tie-group boundary** of the best-first level file.  This file states that closed form:

* `tieCuts scores`   — after which rows of the best-first file a cut is possible (last row of a group);
* `cutOk`            — a prefix that ends at a boundary and passes the "+1" test `(D + 1) ≤ a · T`;
* `tiedStop`         — the longest such prefix (0 if none);
* `tiedAccepted`     — the rows of a level file accepted at `q ≤ a`, closed form.

`Props/C04Ties.lean` proves `acceptedRows a level = tiedAccepted a level` (the left side reads
the q-value column computed by the model of `tdc`) for every level file in non-increasing score
order, and the bound `E[FDP] ≤ a` for this stopping rule.  Import-free apart from other models.
-/
namespace Mk.TdcX
open Mk

/-- after which rows of a best-first score column a cut is possible: row `i` is the last row of
the column or the next score differs (`np.unique(scores, return_counts=True)` groups).
src: mokapot/qvalues.py:128, 170-176 -/
def tieCuts (scores : List Int) : List Bool :=
  (List.range scores.length).map
    (fun i => decide (i + 1 = scores.length) || (scores.getD i 0 != scores.getD (i + 1) 0))

/-- targets among the first `p` rows (`cum_targets[p-1]`, qvalues.py:115) -/
def cntTargets {κ : Type} (L : List (κ × Bool)) (p : Nat) : Nat := (L.take p).countP (fun x => x.2)

/-- decoys among the first `p` rows (`cum_decoys[p-1]`, qvalues.py:116) -/
def cntDecoys {κ : Type} (L : List (κ × Bool)) (p : Nat) : Nat := (L.take p).countP (fun x => !x.2)

/-- the first `p ≥ 1` rows end at a tie-group boundary and pass the "+1" test
`(decoys + 1) ≤ a · targets` (the group's FDR estimate is the one of its last row,
qvalues.py:119-124, 177-183) -/
def cutOk {κ : Type} (a : Rat) (cuts : List Bool) (L : List (κ × Bool)) (p : Nat) : Bool :=
  cuts.getD (p - 1) false && decide (0 < p) &&
    decide (((cntDecoys L p + 1 : Nat) : Rat) ≤ a * ((cntTargets L p : Nat) : Rat))

/-- the largest `p ≤ n` with `P p`, 0 if there is none -/
def lastTrue (P : Nat → Bool) : Nat → Nat
  | 0 => 0
  | n + 1 => if P (n + 1) then n + 1 else lastTrue P n

/-- the longest acceptable prefix for a given set of possible cuts -/
def stopWith {κ : Type} (a : Rat) (cuts : List Bool) (L : List (κ × Bool)) : Nat :=
  lastTrue (cutOk a cuts L) L.length

/-- number of rows of a best-first `(score, is target)` column accepted at `q ≤ a` -/
def tiedStop (a : Rat) (L : List (Int × Bool)) : Nat := stopWith a (tieCuts (L.map (·.1))) L

/-- **closed form of the accepted set** of a level file (rows in non-increasing score order) -/
def tiedAccepted (a : Rat) (level : List Row) : List Row :=
  level.take (tiedStop a (level.map (fun r => (r.score, r.target))))

/-- false discovery proportion of the closed-form accepted set (0 when no target is accepted) -/
def tiedFDP (incorrect : Nat → Bool) (a : Rat) (level : List Row) : Rat :=
  (((tiedAccepted a level).countP (fun r => r.target && incorrect r.id) : Nat) : Rat) /
    (((tiedAccepted a level).countP (fun r => r.target) : Nat) : Rat)

end Mk.TdcX
