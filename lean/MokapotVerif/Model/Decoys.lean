/-!
# Model of decoy generation  (mokapot/parsers/fasta.py: `make_decoys`,
`_parse_fasta_files`, `_parse_protein`, `_shuffle_proteins`, `_cleavage_sites`)

Import-free.  A protein sequence is a `List α` (`α = Char` in the driver); a
FASTA file is the `List Char` of its decoded text.  The random permutations
drawn by `np.random.permutation` are a *parameter* `perms : Nat → List Nat`
(one permutation per peptide-interior length, exactly like the `perms` dict of
`_shuffle_proteins`); theorems quantify over every such family.

Where the real code would raise (`IndexError`) the model returns `none`.
-/
namespace Mk.Decoys
variable {α β : Type}

/-! ## small Option helpers (kept explicit so that proofs can unfold them) -/

def optCons : Option β → Option (List β) → Option (List β)
  | some a, some l => some (a :: l)
  | _, _ => none

/-- all-or-nothing evaluation of a list of partial results (a Python list
comprehension in which any element may raise) -/
def sequenceOpt : List (Option β) → Option (List β)
  | [] => some []
  | x :: xs => optCons x (sequenceOpt xs)

/-! ## cleavage sites -/

/-- negative look-ahead `(?!X)`: is the next residue in the blocked class? -/
def nextBlocked (block : α → Bool) : List α → Bool
  | [] => false
  | d :: _ => block d

/-- `[m.end() for m in enzyme_regex.finditer(sequence)]` for an enzyme given by a
residue class `cut` with an optional negative look-ahead class `block`
(`[KR]`: `block = fun _ => false`; `[KR](?!P)`: `block = (· = 'P')`).
`off` is the absolute position of the head of the list.
src: mokapot/parsers/fasta.py:434-439 -/
def matchEnds (cut block : α → Bool) : Nat → List α → List Nat
  | _, [] => []
  | off, c :: rest =>
    if cut c && !nextBlocked block rest then (off + 1) :: matchEnds cut block (off + 1) rest
    else matchEnds cut block (off + 1) rest

/-- `_cleavage_sites`: `[0] + ends + [len(sequence)]`.
src: mokapot/parsers/fasta.py:419-440 -/
def cleavageSites (cut block : α → Bool) (seq : List α) : List Nat :=
  0 :: (matchEnds cut block 0 seq ++ [seq.length])

/-- a residue-class enzyme has no look-ahead -/
def noBlock : α → Bool := fun _ => false

/-! ## `_shuffle_proteins` -/

/-- `[new_seq[i + start] for i in perm]`; `none` is Python's `IndexError`.
src: mokapot/parsers/fasta.py:412 -/
def gather (cur : List α) (start : Nat) (perm : List Nat) : Option (List α) :=
  sequenceOpt (perm.map (fun i => cur[i + start]?))

/-- Python slice assignment `cur[a:b] = vals` (for `a ≤ b`). -/
def sliceAssign (cur : List α) (a b : Nat) (vals : List α) : List α :=
  cur.take a ++ vals ++ cur.drop b

/-- one iteration of the inner loop for the consecutive sites `s`, `e`:
`start = s + 1`, `end = e - 1`, `pep_len = end - start`; skipped when
`pep_len ≤ 1` (in Python `end`/`pep_len` may be negative; truncated
subtraction gives `0 ≤ 1`, the same branch).
src: mokapot/parsers/fasta.py:389-412 -/
def stepPair (perms : Nat → List Nat) (cur : List α) (s e : Nat) : Option (List α) :=
  if e - 1 - (s + 1) ≤ 1 then some cur
  else (gather cur (s + 1) (perms (e - 1 - (s + 1)))).map (sliceAssign cur (s + 1) (e - 1))

/-- the loop `for start_idx, cleavage_site in enumerate(sites)` with the in-place
updates of `new_seq` threaded through (`end_idx >= len(sites): continue` is the
one-element case).  src: mokapot/parsers/fasta.py:384-412 -/
def shuffleLoop (perms : Nat → List Nat) : List Nat → List α → Option (List α)
  | [], cur => some cur
  | [_], cur => some cur
  | s :: e :: rest, cur => (stepPair perms cur s e).bind (shuffleLoop perms (e :: rest))

/-- `np.flip(np.arange(n))` -/
def revPerm (n : Nat) : List Nat := (List.range n).reverse

/-- the `perms` dict after the run: reversal or the drawn permutations.
src: mokapot/parsers/fasta.py:399-410 -/
def permsOf (reverse : Bool) (drawn : Nat → List Nat) : Nat → List Nat :=
  if reverse then revPerm else drawn

/-- what the theorems require of the drawn family: `perms n` is a permutation of
`0..n-1` (true of `np.random.permutation(np.arange(n))` and of `np.flip`). -/
def PermFamily (perms : Nat → List Nat) : Prop := ∀ n, (perms n).Perm (List.range n)

/-- decoy of one protein.  src: mokapot/parsers/fasta.py:380-414 -/
def shuffleProtein (perms : Nat → List Nat) (pre : List Char) (cut block : Char → Bool)
    (p : List Char × List Char) : Option (List Char × List Char) :=
  (shuffleLoop perms (cleavageSites cut block p.2) p.2).map (fun s => (pre ++ p.1, s))

/-- `_shuffle_proteins`.  src: mokapot/parsers/fasta.py:360-416 -/
def shuffleProteins (perms : Nat → List Nat) (pre : List Char) (cut block : Char → Bool)
    (ps : List (List Char × List Char)) : Option (List (List Char × List Char)) :=
  sequenceOpt (ps.map (shuffleProtein perms pre cut block))

/-! ## declarative description of one decoy sequence -/

/-- rearrangement of `l` by the index list `p` -/
def permuteBy (p : List Nat) (l : List α) : List α := p.filterMap (fun i => l[i]?)

/-- a peptide without its first and last residue -/
def interior (pep : List α) : List α := (pep.drop 1).dropLast

/-- **Spec of one peptide**: peptides of length ≤ 3 are kept; otherwise the first and
the last residue stay and the interior is rearranged by the permutation of its length. -/
def shufflePeptide (perms : Nat → List Nat) (pep : List α) : List α :=
  if pep.length ≤ 3 then pep
  else pep.take 1 ++ permuteBy (perms (pep.length - 2)) (interior pep) ++ pep.drop (pep.length - 1)

/-- **Spec of one sequence**: cut `r` (the part of the sequence from the first site on)
into the peptides delimited by consecutive sites and shuffle every peptide on its own. -/
def specLoop (perms : Nat → List Nat) : List Nat → List α → List α
  | [], r => r
  | [_], r => r
  | s :: e :: rest, r =>
    shufflePeptide perms (r.take (e - s)) ++ specLoop perms (e :: rest) (r.drop (e - s))

/-- **Spec of one decoy protein**: prefixed name, peptide-wise shuffled sequence -/
def decoySpec (perms : Nat → List Nat) (pre : List Char) (cut block : Char → Bool)
    (t : List Char × List Char) : List Char × List Char :=
  (pre ++ t.1, specLoop perms (cleavageSites cut block t.2) t.2)

/-- Python `l[a:b]` for `a ≤ b` -/
def slice (l : List α) (a b : Nat) : List α := (l.drop a).take (b - a)

/-! ## FASTA text -/

/-- text-mode `open()` with universal newlines: `\r\n` and lone `\r` become `\n` -/
def univNL : List Char → List Char
  | [] => []
  | [c] => [if c = '\r' then '\n' else c]
  | c :: d :: rest =>
    if c = '\r' ∧ d = '\n' then '\n' :: univNL rest
    else (if c = '\r' then '\n' else c) :: univNL (d :: rest)

/-- `sep.join(xs)` -/
def joinWith (sep : List α) : List (List α) → List α
  | [] => []
  | [x] => x
  | x :: y :: rest => x ++ sep ++ joinWith sep (y :: rest)

def consHead (c : α) : List (List α) → List (List α)
  | [] => [[c]]
  | l :: ls => (c :: l) :: ls

/-- `text.split("\n>")` -/
def splitRecords : List Char → List (List Char)
  | [] => [[]]
  | [c] => [[c]]
  | c :: d :: rest =>
    if c = '\n' ∧ d = '>' then [] :: splitRecords rest
    else consHead c (splitRecords (d :: rest))

/-- `_parse_fasta_files`: `("\n" + "\n".join(texts)).split("\n>")[1:]` — with a line break put in
front, every record (the first included) is preceded by the separator `\n>`; the piece before the
first separator (empty when the text begins with `>`, otherwise blank lines, the line breaks that
join empty files, or other text that precedes the first record) is no record and is dropped.
(Repaired line, /repo f95d0dc; the former `"\n".join(texts)[1:].split("\n>")` is the refuted variant
`parseFastaFilesDropFirstChar` in `Mutants/Decoys.lean`.)
src: mokapot/parsers/fasta.py:313-332 -/
def parseFastaFiles (files : List (List Char)) : List (List Char) :=
  (splitRecords ('\n' :: joinWith ['\n'] (files.map univNL))).drop 1

/-- line boundaries of `str.splitlines` (`\r\n` cannot occur after `univNL`) -/
def isBreak (c : Char) : Bool :=
  c = '\n' || c = '\r' || c = Char.ofNat 0x0b || c = Char.ofNat 0x0c || c = Char.ofNat 0x1c ||
  c = Char.ofNat 0x1d || c = Char.ofNat 0x1e || c = Char.ofNat 0x85 || c = Char.ofNat 0x2028 ||
  c = Char.ofNat 0x2029

/-- `str.splitlines()`: no empty last line after a final break -/
def splitLines : List Char → List (List Char)
  | [] => []
  | c :: rest => if isBreak c then [] :: splitLines rest else consHead c (splitLines rest)

/-- `entry[0].split(" ")[0]` -/
def firstToken (h : List Char) : List Char := h.takeWhile (fun c => c != ' ')

/-- `_parse_protein` on the lines of a record; `entry[0]` of an empty record is an
`IndexError`.  src: mokapot/parsers/fasta.py:335-357 -/
def parseEntry : List (List Char) → Option (List Char × List Char)
  | [] => none
  | [h] => some (firstToken h, [])
  | h :: l :: rest => some (firstToken h, (l :: rest).flatten)

def parseProtein (raw : List Char) : Option (List Char × List Char) := parseEntry (splitLines raw)

/-- `[_parse_protein(p) for p in _parse_fasta_files(fasta)]` -/
def parseFasta (files : List (List Char)) : Option (List (List Char × List Char)) :=
  sequenceOpt ((parseFastaFiles files).map parseProtein)

/-- `textwrap.wrap(seq, width = w)` for a text without blanks and hyphens: pieces of
`w` characters, the last one possibly shorter, none for the empty text. -/
def chunksAux (w : Nat) : Nat → List α → List (List α)
  | 0, _ => []
  | fuel + 1, l => if l.isEmpty then [] else l.take w :: chunksAux w fuel (l.drop w)

def chunks (w : Nat) (l : List α) : List (List α) := chunksAux w l.length l

/-- `"\n".join([">" + prot, "\n".join(wrap(seq))])`.  src: mokapot/parsers/fasta.py:248-252 -/
def renderEntry (w : Nat) (e : List Char × List Char) : List Char :=
  ('>' :: e.1) ++ '\n' :: joinWith ['\n'] (chunks w e.2)

/-- the text written to `out_file`.  src: mokapot/parsers/fasta.py:247-257 -/
def renderFasta (w : Nat) (es : List (List Char × List Char)) : List Char :=
  joinWith ['\n'] (es.map (renderEntry w))

/-- `proteins += decoys` or `proteins = decoys`.  src: mokapot/parsers/fasta.py:236-243 -/
def decoyEntries (perms : Nat → List Nat) (pre : List Char) (cut block : Char → Bool) (concat : Bool)
    (targets : List (List Char × List Char)) : Option (List (List Char × List Char)) :=
  (shuffleProteins perms pre cut block targets).map (fun d => if concat then targets ++ d else d)

/-- `make_decoys`: file texts in, text of the output file out (wrap width `w = 70`).
src: mokapot/parsers/fasta.py:190-260 -/
def makeDecoys (perms : Nat → List Nat) (pre : List Char) (cut block : Char → Bool) (concat : Bool)
    (w : Nat) (files : List (List Char)) : Option (List Char) :=
  ((parseFasta files).bind (decoyEntries perms pre cut block concat)).map (renderFasta w)

/-! ## executable property checker (driver op `spec-C18`) -/

/-- consecutive pairs of a list -/
def pairs : List Nat → List (Nat × Nat)
  | [] => []
  | [_] => []
  | s :: e :: rest => (s, e) :: pairs (e :: rest)

/-- one enzymatic peptide of the target (`t`) against the same stretch of the decoy (`d`) -/
def pepOK [BEq α] (reverse : Bool) (t d : List α) : Bool :=
  d.length == t.length && d.head? == t.head? && d.getLast? == t.getLast? && d.isPerm t &&
  (!reverse || interior d == (interior t).reverse)

/-- the clauses of C18 that hold for every enzyme (sites of the *target* under `cut`/`block`):
same length, same composition, every enzymatic peptide keeps its termini and residues
(and has its interior reversed under `reverse`) -/
def pepsOK [BEq α] (cut block : α → Bool) (reverse : Bool) (t d : List α) : Bool :=
  d.length == t.length && d.isPerm t &&
  (pairs (cleavageSites cut block t)).all (fun p => pepOK reverse (slice t p.1 p.2) (slice d p.1 p.2))

/-- all clauses of C18 for one target/decoy sequence pair under the residue-class enzyme `cut`:
the above plus identical cleavage sites -/
def seqOK [BEq α] (cut : α → Bool) (reverse : Bool) (t d : List α) : Bool :=
  pepsOK cut noBlock reverse t d &&
  cleavageSites cut noBlock d == cleavageSites cut noBlock t

/-! ## general enzymes: the regex is a parameter

`_cleavage_sites` accepts *any* regular expression.  For the theorems that do not depend on
the enzyme being a residue class, the regex is a parameter `ends : List α → List Nat`
(`[m.end() for m in enzyme_regex.finditer(sequence)]`); what `re.finditer` guarantees
(matches are reported left to right, do not overlap and lie inside the text) is the
hypothesis `EndsOK` of the theorems.  `matchEnds cut block 0` is the instance for a residue
class with optional negative look-ahead. -/

/-- `_cleavage_sites` for an arbitrary enzyme.  src: mokapot/parsers/fasta.py:419-440 -/
def cleavageSitesOf (ends : List α → List Nat) (seq : List α) : List Nat :=
  0 :: (ends seq ++ [seq.length])

/-- decoy of one protein, any enzyme.  src: mokapot/parsers/fasta.py:380-414 -/
def shuffleProteinE (perms : Nat → List Nat) (pre : List Char) (ends : List Char → List Nat)
    (p : List Char × List Char) : Option (List Char × List Char) :=
  (shuffleLoop perms (cleavageSitesOf ends p.2) p.2).map (fun s => (pre ++ p.1, s))

/-- `_shuffle_proteins`, any enzyme.  src: mokapot/parsers/fasta.py:360-416 -/
def shuffleProteinsE (perms : Nat → List Nat) (pre : List Char) (ends : List Char → List Nat)
    (ps : List (List Char × List Char)) : Option (List (List Char × List Char)) :=
  sequenceOpt (ps.map (shuffleProteinE perms pre ends))

/-- **Spec of one decoy protein**, any enzyme -/
def decoySpecE (perms : Nat → List Nat) (pre : List Char) (ends : List Char → List Nat)
    (t : List Char × List Char) : List Char × List Char :=
  (pre ++ t.1, specLoop perms (cleavageSitesOf ends t.2) t.2)

/-- src: mokapot/parsers/fasta.py:236-243 -/
def decoyEntriesE (perms : Nat → List Nat) (pre : List Char) (ends : List Char → List Nat) (concat : Bool)
    (targets : List (List Char × List Char)) : Option (List (List Char × List Char)) :=
  (shuffleProteinsE perms pre ends targets).map (fun d => if concat then targets ++ d else d)

/-- `make_decoys`, any enzyme.  src: mokapot/parsers/fasta.py:190-260 -/
def makeDecoysE (perms : Nat → List Nat) (pre : List Char) (ends : List Char → List Nat) (concat : Bool)
    (w : Nat) (files : List (List Char)) : Option (List Char) :=
  ((parseFasta files).bind (decoyEntriesE perms pre ends concat)).map (renderFasta w)

/-- the enzyme-independent clauses of C18 for explicitly given sites of the target -/
def pepsOKAt [BEq α] (sites : List Nat) (reverse : Bool) (t d : List α) : Bool :=
  d.length == t.length && d.isPerm t &&
  (pairs sites).all (fun p => pepOK reverse (slice t p.1 p.2) (slice d p.1 p.2))

/-- executable form of `SitesOK`: non-decreasing, bounded by `n` -/
def sitesOKb (n : Nat) : List Nat → Bool
  | [] => true
  | [s] => s ≤ n
  | s :: e :: rest => s ≤ e && s ≤ n && sitesOKb n (e :: rest)

/-! ## the `perms` dict and the calls of `np.random.permutation` (stateful refinement)

`shuffleLoop` takes the *final* content of the `perms` dict as a function.  The functions
below follow the code: the dict starts empty in every call of `_shuffle_proteins`, is filled
on first need of a length (reversal: `np.flip(np.arange(n))`; shuffling: the retry loop around
`np.random.permutation`), is never overwritten, and is shared by all proteins of the call.
The random generator is the oracle `rng k n` = what the `k`-th call (counted from 0 within
this `make_decoys` call) of `np.random.permutation` returns when given `np.arange(n)`.
The state is `(dict, number of calls made so far)`. -/

abbrev PermDict := List (Nat × List Nat)
abbrev DrawState := PermDict × Nat

/-- `while tries < 100 and np.array_equal(base, perm): perm = np.random.permutation(base); tries += 1`
with `fuel = 100 - tries`; returns the permutation kept and the call counter.
src: mokapot/parsers/fasta.py:402-408 -/
def retryLoop (rng : Nat → Nat → List Nat) (n : Nat) : Nat → Nat → List Nat → List Nat × Nat
  | 0, k, perm => (perm, k)
  | fuel + 1, k, perm =>
    if perm = List.range n then retryLoop rng n fuel (k + 1) (rng k n) else (perm, k)

/-- the value stored under a new key.  src: mokapot/parsers/fasta.py:399-410 -/
def newPerm (reverse : Bool) (rng : Nat → Nat → List Nat) (n k : Nat) : List Nat × Nat :=
  if reverse then (revPerm n, k) else retryLoop rng n 100 k (List.range n)

def permForAux (reverse : Bool) (rng : Nat → Nat → List Nat) (n : Nat) (st : DrawState) :
    Option (List Nat) → List Nat × DrawState
  | some p => (p, st)
  | none => ((newPerm reverse rng n st.2).1,
             ((n, (newPerm reverse rng n st.2).1) :: st.1, (newPerm reverse rng n st.2).2))

/-- `if pep_len not in perms.keys(): perms[pep_len] = …` followed by `perms[pep_len]`.
src: mokapot/parsers/fasta.py:398-412 -/
def permFor (reverse : Bool) (rng : Nat → Nat → List Nat) (n : Nat) (st : DrawState) :
    List Nat × DrawState :=
  permForAux reverse rng n st (st.1.lookup n)

/-- `stepPair` with the dict threaded through.  src: mokapot/parsers/fasta.py:389-412 -/
def stepPairS (reverse : Bool) (rng : Nat → Nat → List Nat) (st : DrawState) (cur : List α) (s e : Nat) :
    Option (List α × DrawState) :=
  if e - 1 - (s + 1) ≤ 1 then some (cur, st)
  else (gather cur (s + 1) (permFor reverse rng (e - 1 - (s + 1)) st).1).map
    (fun v => (sliceAssign cur (s + 1) (e - 1) v, (permFor reverse rng (e - 1 - (s + 1)) st).2))

/-- src: mokapot/parsers/fasta.py:384-412 -/
def shuffleLoopS (reverse : Bool) (rng : Nat → Nat → List Nat) :
    List Nat → List α → DrawState → Option (List α × DrawState)
  | [], cur, st => some (cur, st)
  | [_], cur, st => some (cur, st)
  | s :: e :: rest, cur, st =>
    (stepPairS reverse rng st cur s e).bind (fun r => shuffleLoopS reverse rng (e :: rest) r.1 r.2)

/-- the loop over the proteins; the dict outlives each protein.
src: mokapot/parsers/fasta.py:380-416 -/
def shuffleProteinsS (reverse : Bool) (rng : Nat → Nat → List Nat) (pre : List Char)
    (ends : List Char → List Nat) :
    List (List Char × List Char) → DrawState → Option (List (List Char × List Char) × DrawState)
  | [], st => some ([], st)
  | p :: ps, st =>
    (shuffleLoopS reverse rng (cleavageSitesOf ends p.2) p.2 st).bind (fun r =>
      (shuffleProteinsS reverse rng pre ends ps r.2).map (fun q => ((pre ++ p.1, r.1) :: q.1, q.2)))

/-- `perms = {}` (line 381): every call starts with an empty dict and no call made -/
def drawState0 : DrawState := ([], 0)

/-- `open(out_file, "w+")` + `write`: an existing file is truncated first, so the content
afterwards is the text written, whatever was there.  src: mokapot/parsers/fasta.py:256-257 -/
def writeTrunc (_old : Option (List Char)) (text : List Char) : List Char := text

/-- `make_decoys` with the dict and the generator threaded through: file texts and the
previous content of `out_file` in, content of `out_file` and number of
`np.random.permutation` calls out.  src: mokapot/parsers/fasta.py:190-260 -/
def makeDecoysS (reverse : Bool) (rng : Nat → Nat → List Nat) (pre : List Char)
    (ends : List Char → List Nat) (concat : Bool) (w : Nat) (old : Option (List Char))
    (files : List (List Char)) : Option (List Char × Nat) :=
  (parseFasta files).bind (fun ts =>
    (shuffleProteinsS reverse rng pre ends ts drawState0).map (fun r =>
      (writeTrunc old (renderFasta w (if concat then ts ++ r.1 else r.1)), r.2.2)))

/-! ### pure description of the dict evolution (it depends on the sites only) -/

/-- the function the dict `d` denotes; lengths never entered get the value they *would* get
in reversal mode, resp. the identity (they are never looked up) -/
def famOfDict (reverse : Bool) (d : PermDict) : Nat → List Nat :=
  fun n => (d.lookup n).getD (if reverse then revPerm n else List.range n)

def stateAfterPair (reverse : Bool) (rng : Nat → Nat → List Nat) (st : DrawState) (s e : Nat) : DrawState :=
  if e - 1 - (s + 1) ≤ 1 then st else (permFor reverse rng (e - 1 - (s + 1)) st).2

def stateAfterLoop (reverse : Bool) (rng : Nat → Nat → List Nat) : List Nat → DrawState → DrawState
  | [], st => st
  | [_], st => st
  | s :: e :: rest, st => stateAfterLoop reverse rng (e :: rest) (stateAfterPair reverse rng st s e)

def stateAfterProteins (reverse : Bool) (rng : Nat → Nat → List Nat) (ends : List Char → List Nat) :
    List (List Char × List Char) → DrawState → DrawState
  | [], st => st
  | p :: ps, st =>
    stateAfterProteins reverse rng ends ps (stateAfterLoop reverse rng (cleavageSitesOf ends p.2) st)

/-- what is asked of the generator: every call returns a permutation of its argument -/
def RngOK (rng : Nat → Nat → List Nat) : Prop := ∀ k n, (rng k n).Perm (List.range n)

/-- what is asked of the regex engine: match ends are reported in non-decreasing order and
lie inside the text -/
def EndsOK (ends : List α → List Nat) : Prop :=
  ∀ seq, (ends seq).Pairwise (· ≤ ·) ∧ ∀ s ∈ ends seq, s ≤ seq.length

/-! ### defaults of the public signature -/

/-- `decoy_prefix="decoy_"`.  src: mokapot/parsers/fasta.py:193 -/
def defaultPrefix : List Char := ['d', 'e', 'c', 'o', 'y', '_']
/-- `enzyme="[KR]"`.  src: mokapot/parsers/fasta.py:194 -/
def defaultCut (c : Char) : Bool := c = 'K' || c = 'R'
/-- `textwrap.wrap` default `width=70`.  src: mokapot/parsers/fasta.py:251 -/
def wrapWidth : Nat := 70

/-- `make_decoys(fasta, out_file)`: `reverse=False`, `concatenate=True`.
src: mokapot/parsers/fasta.py:190-197 -/
def makeDecoysDefault (rng : Nat → Nat → List Nat) (old : Option (List Char)) (files : List (List Char)) :
    Option (List Char × Nat) :=
  makeDecoysS false rng defaultPrefix (matchEnds defaultCut noBlock 0) true wrapWidth old files

/-- all clauses of C18 for the entries `os` re-read from an output file against the targets
`ts` (driver op `spec-C18`): count, targets first and unchanged, names, and per sequence the
peptide clauses at the sites `sitesOf t` (plus equal sites when `resClass` gives the class) -/
def fileOK (pre : List Char) (sitesOf : List Char → List Nat) (resClass : Option (Char → Bool))
    (reverse concat : Bool) (ts os : List (List Char × List Char)) : Bool :=
  os.length == (if concat then ts.length else 0) + ts.length &&
  (!concat || os.take ts.length == ts) &&
  (os.drop (if concat then ts.length else 0)).map (·.1) == ts.map (fun t => pre ++ t.1) &&
  (List.zipWith (fun t d => pepsOKAt (sitesOf t.2) reverse t.2 d.2 &&
      (resClass.map (fun cut => cleavageSites cut noBlock d.2 == cleavageSites cut noBlock t.2)).getD true)
    ts (os.drop (if concat then ts.length else 0))).all id

end Mk.Decoys

/-! # Second pass

## FASTA input as a writer lays it out (declarative side of "all FASTA inputs": multi-line
records, descriptions, blank lines, several files, the three newline conventions)

The reader model above (`parseFasta`) is a transcription of the code.  The definitions below
describe the *input*: a file is a non-empty list of records, a record is a header line
(`>name`, optionally a blank and a description) followed by any number of sequence lines
(empty lines allowed, also at the end — a final line end of the file is an empty last line).
`Props/C18Input.lean` proves that the reader recovers `(name, concatenated lines)` of every
record of every file, in order. -/
namespace Mk.Decoys

/-- one record of a FASTA file -/
structure FastaRec where
  name : List Char
  desc : Option (List Char)
  lines : List (List Char)

/-- the description part of the header line: nothing, or a blank and the description -/
def descText : Option (List Char) → List Char
  | none => []
  | some d => ' ' :: d

/-- the header line without its `>` -/
def FastaRec.header (r : FastaRec) : List Char := r.name ++ descText r.desc

/-- every sequence line on a line of its own -/
def linesText (ls : List (List Char)) : List Char := (ls.map (fun l => '\n' :: l)).flatten

/-- what follows the `>` of a record -/
def FastaRec.body (r : FastaRec) : List Char := r.header ++ linesText r.lines

def FastaRec.text (r : FastaRec) : List Char := '>' :: r.body

/-- the protein the record denotes -/
def FastaRec.entry (r : FastaRec) : List Char × List Char := (r.name, r.lines.flatten)

/-- text of a file (line ends written as `\n`) -/
def fastaFileText (rs : List FastaRec) : List Char := joinWith ['\n'] (rs.map FastaRec.text)

/-- newline convention of a file on disk -/
inductive Eol where
  | lf
  | crlf
  | cr

def crlfChar (c : Char) : List Char := if c = '\n' then ['\r', '\n'] else [c]
def crChar (c : Char) : Char := if c = '\n' then '\r' else c

/-- the bytes on disk of a text whose line ends are `\n` -/
def encodeEol : Eol → List Char → List Char
  | Eol.lf, t => t
  | Eol.crlf, t => t.flatMap crlfChar
  | Eol.cr, t => t.map crChar

/-! ## how often the generator is asked (declarative side of the `perms` dict) -/

/-- the interior lengths for which line 398 consults the dict while one protein with the
given sites is processed, in loop order (`pep_len <= 1: continue` never gets there).
src: mokapot/parsers/fasta.py:384-398 -/
def neededLens : List Nat → List Nat
  | [] => []
  | [_] => []
  | s :: e :: rest =>
    if e - 1 - (s + 1) ≤ 1 then neededLens (e :: rest)
    else (e - 1 - (s + 1)) :: neededLens (e :: rest)

/-- …while all proteins of one call are processed -/
def neededLensAll (ends : List Char → List Nat) : List (List Char × List Char) → List Nat
  | [] => []
  | p :: ps => neededLens (cleavageSitesOf ends p.2) ++ neededLensAll ends ps

/-- keys of a dict (newest first) after it has been consulted for `lens` in order -/
def keysAfter : List Nat → List Nat → List Nat
  | [], keys => keys
  | n :: lens, keys => keysAfter lens (if n ∈ keys then keys else n :: keys)

/-- number of different interior lengths ≥ 2 -/
def distinctLens (lens : List Nat) : Nat := (keysAfter lens []).length

/-- **Spec of the number of `np.random.permutation` calls of one `make_decoys` call** whose
peptide interiors have the lengths `lens`: none under reversal; otherwise between one and a
hundred per different length, exactly a hundred per length for a generator that only ever
returns the identity (`allId`: the retry loop gives up), exactly one per length for a
generator that never returns it (`noneId`). -/
def callsOK (reverse : Bool) (lens : List Nat) (calls : Nat) (allId noneId : Bool) : Bool :=
  if reverse then calls == 0
  else decide (distinctLens lens ≤ calls) && decide (calls ≤ 100 * distinctLens lens) &&
    (!allId || calls == 100 * distinctLens lens) && (!noneId || calls == distinctLens lens)

end Mk.Decoys
