import MokapotVerif.Model.Cross
/-!
# C05, third pass: what the chunked *text* reads do to identifier cells, and the key of the fold split

6. `assign_confidence` passes the identifier columns that end up in the result files (`SpecId` → `PSMId`,
   `Peptide`, `Proteins` → `proteinIds`, every additional roll-up level column) through three chunked
   reads of a text file and writes what it has read back each time: the input in chunks of
   `CONFIDENCE_CHUNK_SIZE` (confidence.py:870-899), every sorted temporary file in chunks of
   `MERGE_SORT_CHUNK_SIZE` (utils.py:132-141), every level file again in chunks of `CONFIDENCE_CHUNK_SIZE`
   (confidence.py:141-156).  `pd.read_csv(chunksize=…)` types a column per chunk (`chunkDtypes`, §5): in a
   chunk typed `object` a cell keeps its text, in a chunk typed `int64` / `float64` the cell becomes a
   number and is written back in pandas' spelling of that number (`007` → `7`, `1.50` → `1.5`, `101` →
   `101.0`).  The code as it is (finding D54 of this pass, `text_columns=` of `CSVFileReader`) reads these
   columns with `dtype=str`: `asText = true`.  `asText = false` is the behaviour before (refuted variant,
   `Mutants/CrossText.lean`).  A text is an id `t : Nat`; `clsOf t` its cell class (§5: 0 integer spelling,
   1 fraction spelling, 2 text); `canon d t` the id of the text pandas writes for the number `t` reads as
   under dtype `d`.  One identifier column is modelled (the field `Row.id`); the other identifier columns
   are treated by the code in the same way at the same three sites.
7. `OnDiskPsmDataset._split` (dataset.py:654-673) hashes `str(tuple(x[:2]))` of a row of the interleaved
   spectrum columns; numpy ≥ 2 prints a scalar with its type (`np.int32(1000)`).  The code as it is
   (finding D53) casts every integer column to `int64` and every floating column to `float64` before the
   columns are interleaved: `fixed = true`.
Import-free.
-/
namespace Mk.Cross
open Mk Mk.Brew

/-! ## 6. identifier cells through the chunked text reads -/

/-- the text one chunked text read hands on for a cell with text `t` whose chunk is typed `d`
(src: mokapot/tabular_data.py:196-208 `CSVFileReader.__init__`, 237-246 `get_chunked_data_iterator`) -/
def readCell (asText : Bool) (canon : Nat → Nat → Nat) (d t : Nat) : Nat :=
  if asText || d == 2 then t else canon d t

/-- one identifier column read in chunks of `c` rows and written back
(src: mokapot/tabular_data.py:237-246, mokapot/confidence.py:957-981 `_save_sorted_metadata_chunks`) -/
def readColumn (asText : Bool) (clsOf : Nat → Nat) (canon : Nat → Nat → Nat) (c : Nat) (ts : List Nat) : List Nat :=
  List.zipWith (readCell asText canon) (chunkDtypes c (ts.map clsOf)) ts

/-- the rows of a file after one chunked read of their identifier column
(src: mokapot/tabular_data.py:237-246) -/
def retypeIds (asText : Bool) (clsOf : Nat → Nat) (canon : Nat → Nat → Nat) (c : Nat) (rows : List Row) : List Row :=
  List.zipWith (fun t r => { r with id := t }) (readColumn asText clsOf canon c (rows.map (fun r => r.id))) rows

/-- the level files of a text input: `chunkedLevels` (§3) with the three chunked reads in place — the
input in chunks of `c`, every sorted temporary file in chunks of `m` (the merge), and (in `textFiles`)
the level file in chunks of `c`
(src: mokapot/confidence.py:870-954 `create_sorted_file_iterator`, mokapot/utils.py:132-176 `merge_sort`) -/
def textLevels (asText : Bool) (clsOf : Nat → Nat) (canon : Nat → Nat → Nat) (c m : Nat) (dedup : Bool)
    (nLevels : Nat) (md : List Row) (sc : List Int) : List Row × List (List Row) :=
  let files := (attachScores c (retypeIds asText clsOf canon c md) sc).map
    (fun ch => retypeIds asText clsOf canon m (chunkFile dedup ((ch.map withScore).mergeSort rowBetter)))
  let merged := files.flatten.mergeSort rowBetter
  let out := scan dedup nLevels merged
  ((levelBatches c out.1).flatten, out.2.map (fun l => (levelBatches c l).flatten))

/-- one level's pair of result files: q-values and PEPs from the level file read whole, the rows from the
level file read back in chunks of `c` (src: mokapot/confidence.py:105-186 `write_to_disk`, 406-458) -/
def textLevelFile (asText : Bool) (clsOf : Nat → Nat) (canon : Nat → Nat → Nat) (c : Nat)
    (pep : List Row → List Rat) (rows : List Row) : List (Row × Rat × Rat) × List (Row × Rat × Rat) :=
  writeChunked c (retypeIds asText clsOf canon c rows) (levelQvalues rows) (pep rows) (rows.map (fun r => r.target))

/-- all result files of a text input (src: mokapot/confidence.py:345-458, 700-868) -/
def textFiles (asText : Bool) (clsOf : Nat → Nat) (canon : Nat → Nat → Nat) (c m : Nat) (dedup : Bool)
    (nLevels : Nat) (pep : List Row → List Rat) (md : List Row) (sc : List Int) :
    List (List (Row × Rat × Rat) × List (Row × Rat × Rat)) :=
  ((textLevels asText clsOf canon c m dedup nLevels md sc).1 ::
    (textLevels asText clsOf canon c m dedup nLevels md sc).2).map (textLevelFile asText clsOf canon c pep)

/-! ## 7. the key of the fold split -/

/-- dtype of a numeric spectrum column: floating or integer, storage width, signedness -/
structure NumType where
  float : Bool
  bits : Nat
  signed : Bool
  deriving Repr, DecidableEq, Inhabited

/-- `astype(int64)` for integer kinds, `astype(float64)` for floating kinds
(src: mokapot/dataset.py:654-665) -/
def castWidth (t : NumType) : NumType := { float := t.float, bits := 64, signed := true }

/-- what `str(tuple(x[:2]))` depends on for every row `x` of the interleaved spectrum columns: the common
dtype of *all* spectrum columns (`promote` = numpy's `result_type`, a parameter) — printed with every
scalar — and the first two values (src: mokapot/dataset.py:654-673) -/
def foldKeys {ν : Type} (fixed : Bool) (promote : List NumType → NumType) (types : List NumType)
    (rows : List (List ν)) : List (NumType × List ν) :=
  rows.map (fun x => (promote (if fixed then types.map castWidth else types), x.take 2))

/-- **Specification**: the key of a spectrum is made of the *kinds* of the spectrum columns (integer /
floating) and the first two values — no storage width, no signedness -/
def foldKeysSpec {ν : Type} (promote : List NumType → NumType) (kinds : List Bool) (rows : List (List ν)) :
    List (NumType × List ν) :=
  rows.map (fun x => (promote (kinds.map (fun f => { float := f, bits := 64, signed := true })), x.take 2))

/-- `result_type` of 64 bit signed columns: `float64` when one of them is floating, else `int64` -/
def promote64 (ts : List NumType) : NumType :=
  { float := ts.any (fun t => t.float), bits := 64, signed := true }

end Mk.Cross
