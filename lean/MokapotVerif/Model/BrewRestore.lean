import MokapotVerif.Model.BrewBlocks
/-!
# `argsort` + fancy indexing, `np.hstack` of a fold without rows (third extension of the C02 model)

`Model/Brew.lean` writes the two places where `brew` puts things back into input order as a
*lookup by row label* (`route`: `(foldTags folds).lookup p`, `predict`/`predictChunks`:
`(all.lookup p).getD default`).  The code does something else (brew.py:235-245, 396-399, 484-485):

* `get_index_values` appends `list(df.index)` — the row labels the reader attached — to
  `orig_idx[fold]`;
* `orig_idx = np.argsort(sum(orig_idx, [])).tolist()`, then `np.concatenate(scores)[orig_idx]`;
* `np.concatenate(model_idx)[np.argsort(utils.flatten(test_fold_idx))]` for the routing vector.

Here these steps are modelled as they are: an index permutation `perm` returned by `argsort`
(a **parameter**: numpy's default sort is not stable, any sorting permutation may come back) and
numpy fancy indexing `gather`.  That the result is the lookup by label holds only when the labels
are a permutation of `0 … n-1` — which is exactly what a wrong label (positions inside the
prediction block instead of row labels) breaks.

Also modelled: `np.hstack(fold_scores.pop(0))` (brew.py:466-478) raises `ValueError: need at least
one array to concatenate` when no row of the collection was routed to a fold (`none` here), and the
feature-set test at the entry of `brew` (brew.py:126-129).  Core Lean only.
-/
namespace Mk.Brew

/-! ## `np.argsort` and fancy indexing -/

/-- numpy fancy indexing `a[idx]` (brew.py:241-244, 485) -/
def gather {α : Type} [Inhabited α] (a : List α) (idx : List Nat) : List α :=
  idx.map (fun j => a.getD j default)

/-- `perm` is a possible value of `np.argsort(keys)` (brew.py:236-239, 484): a permutation of the
positions `0 … len(keys)-1` along which the keys are non-decreasing.  Which one among equal keys
is not specified (quicksort). -/
def ArgsortOf (keys perm : List Nat) : Prop :=
  perm.Perm (List.range keys.length) ∧ (perm.map (fun j => keys.getD j 0)).Pairwise (· ≤ ·)

/-- insertion of `(key, position)` before the first entry with a key at least as large -/
def insertByKey (x : Nat × Nat) : List (Nat × Nat) → List (Nat × Nat)
  | [] => [x]
  | y :: ys => if x.1 ≤ y.1 then x :: y :: ys else y :: insertByKey x ys

/-- executable instance used by the driver and the `decide` witnesses: the stable (insertion) sort -/
def argsortStable (keys : List Nat) : List Nat :=
  (keys.zipIdx.foldr insertByKey []).map (·.2)

/-! ## the routing vector -/

/-- `[[i] * len(idx) for i, idx in enumerate(test_fold_idx)]`, concatenated (brew.py:225-228, 242) -/
def modelIdxFlat (folds : List (List Nat)) : List Nat :=
  folds.zipIdx.flatMap (fun fi => List.replicate fi.1.length fi.2)

/-- `np.concatenate(model_idx)[np.argsort(utils.flatten(test_fold_idx))]` (brew.py:233-245);
`perm` = the value of that `argsort` -/
def routeA (folds : List (List Nat)) (perm : List Nat) : List Nat :=
  gather (modelIdxFlat folds) perm

/-! ## `_predict`: per-fold pieces, `hstack`, restoring the input order -/

/-- `orig_idx[f]` after the last chunk: the labels `get_index_values` collected for fold `f`
(brew.py:396-399) -/
def foldLabels {ρ : Type} (f : Nat) (chs : List (List ((Nat × ρ) × Nat))) : List Nat :=
  (foldRows f chs).map (·.1)

/-- `scores[f]`: the raw outputs of model `f` on its rows, chunk after chunk, stacked and
calibrated with that fold's rows (brew.py:446-480) -/
def foldScores {ρ σ : Type} (f : Nat) (chs : List (List ((Nat × ρ) × Nat)))
    (score : Nat → ρ → σ) (target : ρ → Bool) (cal : List (σ × Bool) → σ → σ) : List σ :=
  ((foldRows f chs).map (fun x => score f x.2)).map
    (cal (((foldRows f chs).map (fun x => score f x.2)).zip ((foldRows f chs).map (fun x => target x.2))))

/-- does `np.hstack(fold_scores.pop(0))` go through for every model?  `fold_scores[f]` holds one
array per chunk that had rows of fold `f`; `np.hstack([])` raises `ValueError` (brew.py:466-478) -/
def hstackOk {ρ : Type} (nfolds : Nat) (chs : List (List ((Nat × ρ) × Nat))) : Bool :=
  (List.range nfolds).all (fun f => !(foldRows f chs).isEmpty)

/-- the part of `_predict` after the chunks are tagged (brew.py:432-486) as the code does it:
`np.concatenate(scores)[np.argsort(sum(orig_idx, []))]`, `none` = `ValueError` of `np.hstack`.
`argsort` is the (unspecified among ties) result of `np.argsort` as a function of the label list. -/
def predictChunksA {ρ σ : Type} [Inhabited σ] (nfolds : Nat) (chs : List (List ((Nat × ρ) × Nat)))
    (score : Nat → ρ → σ) (target : ρ → Bool) (cal : List (σ × Bool) → σ → σ)
    (argsort : List Nat → List Nat) : Option (List σ) :=
  if hstackOk nfolds chs then
    some (gather ((List.range nfolds).map (fun f => foldScores f chs score target cal)).flatten
      (argsort ((List.range nfolds).map (fun f => foldLabels f chs)).flatten))
  else none

/-- `_predict` for one collection (brew.py:416-486): reader chunks, `create_chunks`, per-fold
pieces, `hstack`, `argsort` of the collected labels.  `Except`: which exception. -/
def predictTwoA {ρ σ : Type} [Inhabited σ] (readerChunks : List (List (Nat × ρ))) (c nfolds : Nat)
    (routing : List Nat) (score : Nat → ρ → σ) (target : ρ → Bool)
    (cal : List (σ × Bool) → σ → σ) (argsort : List Nat → List Nat) : Except String (List σ) :=
  (optExcept "chunk-mismatch" (pairChunks readerChunks (routingChunks c routing))).bind fun chs =>
    optExcept "hstack" (predictChunksA nfolds chs score target cal argsort)

/-! ## the entry test of `brew` -/

/-- `feat_set = set(psms[0].feature_columns); all(set(p.feature_columns) == feat_set …)`
(brew.py:126-129): equal as sets, order and repetitions do not matter; `psms[0]` of an empty list
is an `IndexError` (not reachable through a non-empty call; `true` here means "no ValueError") -/
def featuresAgree (feats : List (List String)) : Bool :=
  feats.all (fun fs => fs.all (fun x => (feats.headD []).contains x) &&
    (feats.headD []).all (fun x => fs.contains x))

/-! ## the whole run, with the exceptions of `_predict` -/

/-- `_predict` over the collections (brew.py:416-417) with the routing vectors computed by
`argsort` + fancy indexing; `argsortR k` / `argsortP k` are the `argsort`s of collection `k` -/
def predictAllA {ρ σ : Type} [Inhabited σ] (c nfolds : Nat) (files : List (List ρ))
    (testIdx : List (List (List Nat))) (score : Nat → ρ → σ) (target : ρ → Bool)
    (cal : List (σ × Bool) → σ → σ) (argsortR argsortP : Nat → List Nat → List Nat) :
    Except String (List (List σ)) :=
  ((files.zip testIdx).zipIdx).mapM (fun x =>
    predictTwoA (chunks c (indexed x.1.1)) c nfolds (routeA x.1.2 (argsortR x.2 x.1.2.flatten))
      score target cal (argsortP x.2))

/-- `brew` (training path, ensemble off) with every step as the code has it: feature-set test,
`_split` per collection, `make_train_sets`, `parse_in_chunks`, fit loop, sort by fold, routing by
`argsort`, `_predict` with `hstack` and `argsort`.  Errors: `"ValueError-features"`,
`"IndexError"` (`_split`), `"ValueError-choice"`, `"hstack"` / `"chunk-mismatch"` (`_predict`). -/
def brewRunA {ρ σ μ : Type} [Inhabited σ] [Inhabited μ] (cRead cPred folds : Nat)
    (feats : List (List String))
    (files : List (List ρ)) (sorteds : List (List (Nat × Nat)))
    (shuffle : Nat → List (List Nat) → List (List Nat)) (cap : Option Nat)
    (enum : Nat → Nat → List Nat → List Nat) (draw : Nat → Nat → Nat → List Nat)
    (sched : Nat → Nat → List (List (Nat × ρ)) → List (List (Nat × ρ)))
    (ret : List (Nat × μ) → List (Nat × μ))
    (learner : List (Option ρ) → μ) (apply : μ → ρ → σ) (target : ρ → Bool)
    (cal : List (σ × Bool) → σ → σ) (argsortR argsortP : Nat → List Nat → List Nat) :
    Except String (List (Nat × μ) × List (List σ)) :=
  if featuresAgree feats then
    (optExcept "IndexError" (splitAll sorteds folds shuffle)).bind fun testIdx =>
    (optExcept "ValueError-choice" (makeTrainSets testIdx cap (files.map List.length) enum draw)).bind fun trains =>
    let models := sortByFold (ret (fitAll learner (parseInChunks cRead sched files trains)))
    (predictAllA cPred models.length files testIdx (modelScore apply models) target cal argsortR argsortP).map
      fun scores => (models, scores)
  else .error "ValueError-features"

end Mk.Brew
