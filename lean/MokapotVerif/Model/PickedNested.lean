import MokapotVerif.Model.Picked
/-!
# Nested modification annotations and the terminal separator (third pass of C15)

`strip_peptides` as it is (`stripMods`, picked_protein.py:143) ends a modification at the *first*
closing bracket of either kind, so an annotation that itself holds a bracket
(`M[Oxidation (M)]`, `T(Phospho (STY))` — the MaxQuant / UniMod names) leaves its tail in the
sequence, and the ProForma terminal notation `[+42.011]-PEPTIDEK` leaves the `-`
(FINDING-C15.md).  This file holds

* the notation these annotations are written in (`NTok`, `renderPeptideN`) with its ground truth
  (`NTok.residues`) — the *specification* side, independent of any regular expression;
* the executable model of the proposed repair (`stripModsN`, `dropDash`, `stripRawN`, `stripColN`):
  the regular expression
  `\[(?:[^\[\]]|\[[^\[\]]*\])*\]|\((?:[^()]|\([^()]*\))*\)` (a bracketed annotation that may hold one level of
  brackets of its own kind; brackets of the other kind are plain text inside it) and `^-|-$` after
  the flanks are gone.  It is driven against Python's `re` (op `stripn`) and, once the repair is in
  /repo, is the model of picked_protein.py:143-147.

Import-free apart from the first model file.
-/
namespace Mk.Picked

/-- the closing bracket that belongs to an opening one -/
def closerOf (o : Char) : Char := if o == '[' then ']' else ')'

/-- `(?:[^\[\]]|\[[^\[\]]*\])*\]` from the character after the opening bracket `o`: is there a match?
The Boolean is "inside an inner bracket".  At depth 0 the closer ends the annotation and another `o`
opens the inner level; at depth 1 the closer returns to depth 0 and another `o` makes the whole
attempt fail (no alternative of the expression can consume it, and backtracking only reaches
positions that hold something other than the closer).
src: FINDING-C15.md (proposed repair of mokapot/picked_protein.py:143) -/
def scanOk (o : Char) : Bool → List Char → Bool
  | _, [] => false
  | false, c :: cs =>
    if c == closerOf o then true else if c == o then scanOk o true cs else scanOk o false cs
  | true, c :: cs =>
    if c == closerOf o then scanOk o false cs else if c == o then false else scanOk o true cs

/-- `re.sub(MOD, "", s)` for the repaired expression.  State `0` = outside, `1` = inside an
annotation opened by `o`, `2` = inside its inner bracket.  Outside, an opener starts an annotation
iff the scan from the next character succeeds; otherwise it is an ordinary character and the
search resumes at the next position.
src: FINDING-C15.md (proposed repair of mokapot/picked_protein.py:143) -/
def stripModsN : Nat → Char → List Char → List Char
  | _, _, [] => []
  | 0, o, c :: cs =>
    if isOpen c && scanOk c false cs then stripModsN 1 c cs else c :: stripModsN 0 o cs
  | 1, o, c :: cs =>
    if c == closerOf o then stripModsN 0 o cs
    else if c == o then stripModsN 2 o cs else stripModsN 1 o cs
  | _ + 2, o, c :: cs =>
    if c == closerOf o then stripModsN 1 o cs else stripModsN 2 o cs

/-- a leading `-` goes (`^-`) -/
def dropDashL : List Char → List Char
  | [] => []
  | c :: cs => if c == '-' then cs else c :: cs

/-- `re.sub(r"^-|-$", "", s)`: the ProForma terminal separators left once the terminal
modifications are gone. src: FINDING-C15.md (proposed line after mokapot/picked_protein.py:145) -/
def dropDash (s : List Char) : List Char := (dropDashL (dropDashL s).reverse).reverse

/-- the four substitutions of the repaired `strip_peptides`.
src: FINDING-C15.md (mokapot/picked_protein.py:142-147 after the repair) -/
def stripRawN (s : List Char) : List Char := dropDash (dropRight (dropLeft (stripModsN 0 'x' s)))

/-- the repaired `strip_peptides` on a column (the case rule is unchanged).
src: FINDING-C15.md (mokapot/picked_protein.py:121-155 after the repair) -/
def stripColN (col : List (List Char)) : List (List Char) := caseRule (col.map stripRawN)

/-! ## The notation: annotations that may hold one level of brackets -/

/-- a piece of the text of an annotation: a character, or a bracketed group `o … closerOf o` of the
annotation's own kind -/
inductive NItem where
  | ch (c : Char)
  | grp (body : List Char)

/-- neither the annotation's opening bracket nor its closing one -/
def notOwn (o c : Char) : Bool := c != o && c != closerOf o

def NItem.ok (o : Char) : NItem → Bool
  | .ch c => notOwn o c
  | .grp body => body.all (notOwn o)

def NItem.render (o : Char) : NItem → List Char
  | .ch c => [c]
  | .grp body => o :: body ++ [closerOf o]

inductive NTok where
  | res (c : Char)
  | low (c : Char)
  | mod (o : Char) (items : List NItem)

/-- well-formed: residues upper-case, markers lower-case, an annotation opens with `[` or `(`, closes
with the bracket of the same kind, and its text holds brackets of that kind only as complete inner
groups (one level); brackets of the other kind, dots, blanks, digits … are free -/
def NTok.ok : NTok → Bool
  | .res c => c.isUpper
  | .low c => c.isLower
  | .mod o items => isOpen o && items.all (NItem.ok o)

def NTok.render : NTok → List Char
  | .res c => [c]
  | .low c => [c]
  | .mod o items => o :: items.flatMap (NItem.render o) ++ [closerOf o]

def NTok.residues : NTok → List Char
  | .res c => [c]
  | _ => []

def NTok.plain : NTok → List Char
  | .res c => [c]
  | .low c => [c]
  | .mod _ _ => []

def NTok.isMod : NTok → Bool
  | .mod _ _ => true
  | _ => false

def dashIf (b : Bool) : List Char := if b then ['-'] else []

/-- `SEQ` with optional terminal modifications: `nterm - SEQ - cterm`, the separator written only
when `dl` / `dr` say so (ProForma: `[Acetyl]-PEPTIDEK`, `PEPTIDEK-[Amidated]`) -/
def renderCore (nterm : List NTok) (dl : Bool) (toks : List NTok) (dr : Bool) (cterm : List NTok) : List Char :=
  nterm.flatMap NTok.render ++ (dashIf dl ++ (toks.flatMap NTok.render ++ (dashIf dr ++ cterm.flatMap NTok.render)))

/-- `flank.CORE.flank` or plain `CORE` -/
def renderPeptideN (fl : Option (List Char × List Char)) (nterm : List NTok) (dl : Bool) (toks : List NTok)
    (dr : Bool) (cterm : List NTok) : List Char :=
  match fl with
  | none => renderCore nterm dl toks dr cterm
  | some (l, r) => l ++ '.' :: (renderCore nterm dl toks dr cterm ++ '.' :: r)

/-! ## the flat notation of the first pass inside the nested one -/

/-- a token of the first pass read as a token of this file (the annotation's text has no inner groups) -/
def Tok.toN : Tok → NTok
  | .res c => .res c
  | .low c => .low c
  | .mod o body _ => .mod o (body.map NItem.ch)

/-- an annotation closed by the bracket of its own kind whose text does not repeat the opening bracket
(`[+15.99]`, `(ox)`, `[Oxidation (M]` … — every flat notation except the mixed pairs `[ph)`, `(ox]`) -/
def Tok.flat : Tok → Prop
  | .mod o body cl => cl = closerOf o ∧ ∀ c ∈ body, c ≠ o
  | _ => True

end Mk.Picked
