import MokapotVerif.Model.Digest
/-!
# Digestion with general fixed-width enzyme patterns  (mokapot/parsers/fasta.py:419-443)

`Model/Digest.lean` covers the patterns `[cls](?![notNext])`.  `_cleavage_sites`
takes *any* regular expression and records `m.end()` of every match reported by
`re.finditer`.  This file extends the class of patterns to

    C₁ C₂ … C_w (?=L) | C₁ C₂ … C_w (?!L) | C₁ C₂ … C_w          (w ≥ 1)

where every `Cᵢ` and `L` is a residue class `[..]`, a negated class `[^..]` or
`.`: several consumed residues (`KK`, `[KR][^P]`, `K.K`), positive look-ahead
(`\w(?=D)`, `[KR](?=[^P])`), negated classes.  For `w > 1` the position `m.end()`
differs from `m.start() + 1` and matches cannot overlap: after a match the scan
resumes at its end (`re.finditer`: "non-overlapping matches, scanned left to
right").  `cleave` (the double loop of `_cleave`) is the one of
`Model/Digest.lean`, unchanged.

The specification `DigestSpecP` is the one of `DigestSpec`, stated for an
arbitrary set of cleavage positions (`DigestSpecS`), for all length bounds.
-/
namespace Mk

/-- a residue class `[chars]` (`neg = false`) or `[^chars]` (`neg = true`; with
no `chars` this is `.`) -/
structure ResClass where
  neg : Bool
  chars : List Char

def ResClass.has (k : ResClass) (c : Char) : Bool := k.chars.contains c != k.neg

/-- fixed-width enzyme pattern: the consumed classes `first :: more`, then a
one-residue look-ahead on the class `la`: `(?=la)` when `laPos`, else `(?!la)`
(no look-ahead = `(?![])` = `laPos := false, la := ⟨false, []⟩`) -/
structure EnzymeP where
  first : ResClass
  more : List ResClass
  laPos : Bool
  la : ResClass

/-- number of residues a match consumes -/
def EnzymeP.width (e : EnzymeP) : Nat := e.more.length + 1

/-- the look-ahead, evaluated on what follows the consumed residues: at the end
of the sequence `(?!..)` holds and `(?=..)` fails -/
def lookOk (e : EnzymeP) (rest : List Char) : Bool :=
  rest.head?.any e.la.has == e.laPos

/-- do the classes match a prefix of `s`, residue by residue?  If so: what follows -/
def bodyRest : List ResClass → List Char → Option (List Char)
  | [], s => some s
  | _ :: _, [] => none
  | k :: ks, c :: s => if k.has c then bodyRest ks s else none

/-- does the pattern match at the beginning of `s`? -/
def matchHere (e : EnzymeP) (s : List Char) : Bool :=
  (bodyRest (e.first :: e.more) s).any (lookOk e)

/-- `[m.end() for m in enzyme_regex.finditer(sequence)]`: left-to-right scan,
`off` residues already passed, the next `skip` residues belong to the previous
match (the scan resumes at the end of a match).
src: mokapot/parsers/fasta.py:439-441 -/
def matchEndsP (e : EnzymeP) : Nat → Nat → List Char → List Nat
  | _, _, [] => []
  | off, skip + 1, _ :: rest => matchEndsP e (off + 1) skip rest
  | off, 0, c :: rest =>
    if matchHere e (c :: rest) then (off + e.width) :: matchEndsP e (off + 1) e.more.length rest
    else matchEndsP e (off + 1) 0 rest

/-- `_cleavage_sites` for a general pattern.  src: mokapot/parsers/fasta.py:419-443 -/
def cleavageSitesP (e : EnzymeP) (seq : List Char) : List Nat :=
  0 :: (matchEndsP e 0 0 seq ++ [seq.length])

/-- `mokapot.digest` for a general pattern.  src: mokapot/parsers/fasta.py:263-309 -/
def digestP (e : EnzymeP) (seq : List Char) (mc lo hi : Nat) (clip semi : Bool) : List Pep :=
  cleave seq (cleavageSitesP e seq) mc lo hi semi clip

/-- the patterns of `Model/Digest.lean` as general patterns -/
def Enzyme.toP (e : Enzyme) : EnzymeP := ⟨⟨false, e.cls⟩, [], false, ⟨false, e.notNext⟩⟩

/-! ## Specification for an arbitrary set of cleavage positions `S` -/

/-- number of cleavage positions strictly between `a` and `b` -/
def missedS (S : Nat → Bool) (a b : Nat) : Nat :=
  (List.range b).countP (fun p => decide (a < p) && S p)

/-- `seq[a:b]` (`n = len(seq)`) is a fully enzymatic peptide within the limits -/
def EnzymaticS (S : Nat → Bool) (n mc lo hi a b : Nat) : Prop :=
  a < b ∧ b ≤ n ∧ S a = true ∧ S b = true ∧ missedS S a b ≤ mc ∧ lo ≤ b - a ∧ b - a ≤ hi

instance (S : Nat → Bool) (n mc lo hi a b : Nat) : Decidable (EnzymaticS S n mc lo hi a b) := by
  unfold EnzymaticS; infer_instance

/-- `DigestSpec` for the cleavage positions `S` -/
def DigestSpecS (S : Nat → Bool) (seq : List Char) (mc lo hi : Nat) (clip semi : Bool) (p : Pep) : Prop :=
  ∃ a b, EnzymaticS S seq.length mc lo hi a b ∧
    (p = slice seq a b
      ∨ (clip = true ∧ a = 0 ∧ seq.head? = some 'M' ∧ lo ≤ b - 1 ∧ p = slice seq 1 b)
      ∨ (semi = true ∧ ∃ k, 1 ≤ k ∧ k < b - a ∧ lo ≤ b - a - k
            ∧ (p = slice seq (a + k) b ∨ p = slice seq a (b - k))))

def specAtS (S : Nat → Bool) (seq : List Char) (mc lo hi : Nat) (clip semi : Bool) (a b : Nat) : List Pep :=
  if EnzymaticS S seq.length mc lo hi a b then
    slice seq a b
      :: ((if clip && a == 0 && seq.head? == some 'M' && decide (lo ≤ b - 1) then [slice seq 1 b] else [])
        ++ (if semi then
              (List.range (b - a)).flatMap (fun k =>
                if decide (1 ≤ k) && decide (lo ≤ b - a - k) then [slice seq (a + k) b, slice seq a (b - k)]
                else [])
            else []))
  else []

def specListS (S : Nat → Bool) (seq : List Char) (mc lo hi : Nat) (clip semi : Bool) : List Pep :=
  (List.range (seq.length + 1)).flatMap (fun a =>
    (List.range (seq.length + 1)).flatMap (fun b => specAtS S seq mc lo hi clip semi a b))

/-! ## … instantiated with the match ends of a general pattern -/

/-- a match of the pattern ends at `p` -/
def isEndP (e : EnzymeP) (seq : List Char) (p : Nat) : Bool := (matchEndsP e 0 0 seq).contains p

/-- cleavage positions: both ends of the sequence and every match end -/
def isSiteP (e : EnzymeP) (seq : List Char) (p : Nat) : Bool :=
  p == 0 || p == seq.length || isEndP e seq p

/-- `len(sequence)` occurs twice in the list of sites -/
def endDupP (e : EnzymeP) (seq : List Char) : Bool :=
  seq.length == 0 || isEndP e seq seq.length

/-- **Specification of C17 for a general pattern, all length bounds** -/
def DigestSpecP (e : EnzymeP) (seq : List Char) (mc lo hi : Nat) (clip semi : Bool) (p : Pep) : Prop :=
  DigestSpecS (isSiteP e seq) seq mc lo hi clip semi p ∨ (lo = 0 ∧ p = [] ∧ endDupP e seq = true)

/-- executable enumeration of `DigestSpecP` (driver op `digestspecp`); the site
table is computed once -/
def specListP (e : EnzymeP) (seq : List Char) (mc lo hi : Nat) (clip semi : Bool) : List Pep :=
  let ends := matchEndsP e 0 0 seq
  specListS (fun p => p == 0 || p == seq.length || ends.contains p) seq mc lo hi clip semi
    ++ (if lo == 0 && (seq.length == 0 || ends.contains seq.length) then [[]] else [])

/-! ## Declarative reading of `re.finditer` for these patterns

`Starts` is a set of match starts; the three conditions say: every element is a
match, two elements are at least one width apart, and wherever the pattern
matches, a chosen match begins in the window of `width` positions ending there
(so no match could be added, and each chosen match is the leftmost possible). -/

/-- the pattern matches at position `s` of the sequence -/
def matchAt (e : EnzymeP) (seq : List Char) (s : Nat) : Bool := matchHere e (seq.drop s)

structure LeftmostMatches (e : EnzymeP) (seq : List Char) (Starts : Nat → Prop) : Prop where
  sound : ∀ s, Starts s → matchAt e seq s = true
  apart : ∀ s t, Starts s → Starts t → s < t → s + e.width ≤ t
  leftmost : ∀ s, matchAt e seq s = true → ∃ t, Starts t ∧ t ≤ s ∧ s < t + e.width

end Mk
