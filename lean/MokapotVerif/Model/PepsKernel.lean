import MokapotVerif.Model.PepsFile
/-!
# Second extension of the C06 model: the composition code on the *kernel side*

(imports only `Model/PepsFile.lean`; no Mathlib)

The first two model files treat everything between the raw scores and the NNLS solution as an
abstract kernel.  Part of that code is plain composition logic of mokapot itself, and two of
its branches decide whether *any* PEP comes out:

1. `estimate_pi0_by_slope` (peps.py:161-183): the index of the first grid point whose decoy
   density reaches `threshold * max`, the fall-back `pi0 = 1` when there is no left flank, the
   final clamp `max(pi0_est, 1e-10)`.  Only `np.polyfit`'s slope stays a parameter.  The value is
   `pi0` of `qvalues_from_counts` (qvalues.py:286), the `factor` of `hist_nnls` (peps.py:362) and
   `pi0_est` of `kde_nnls` (peps.py:239-241).
2. the NNLS *input* of `peps_from_scores_kde_nnls` (peps.py:243-252):
   `correct = clip(target_pdf - decoy_pdf * pi0, 0, None)`,
   `ratio = np.divide(correct, target_pdf, out=zeros, where=target_pdf > 0)`,
   `pepEst = clip(1 - ratio, 0, 1)` (the repaired code, commit 835a908).  Where the target density is
   exactly `0` (`gaussian_kde` underflows about 38 bandwidths away from the nearest target) the estimate
   is 1.  Before the repair this was `0/0 = NaN` and `scipy.optimize.nnls` refused the vector, the
   estimator raised: refuted variant `Mutants.kdePepEst1Old` (answers `none`).
3. the end-to-end pipelines `kde_nnls` and `from_counts` with these steps in place.
-/
namespace Mk.Peps

/-! ## 1. estimate_pi0_by_slope -/

/-- `np.argmax(decoy_pdf >= v)` scanning from index `i`: the first index whose entry reaches `v`
(`none`: no entry does; `np.argmax` of an all-False array is 0).  src: mokapot/peps.py:176 -/
def firstReach (v : Rat) (i : Nat) : List Rat → Option Nat
  | [] => none
  | x :: xs => if v ≤ x then some i else firstReach v (i + 1) xs

/-- `last_index = np.argmax(decoy_pdf >= threshold * max_decoy)`; `v` is the product
`threshold * max_decoy` as the code computed it (one float multiplication).
src: mokapot/peps.py:175-176 -/
def pi0LastIndex (v : Rat) (dpdf : List Rat) : Nat := (firstReach v 0 dpdf).getD 0

/-- `np.ptp(x) == 0`: maximum and minimum coincide, i.e. every entry equals the first.
src: mokapot/peps.py:177 -/
def ptpIsZero (xs : List Rat) : Bool := xs.all (fun x => decide (x = xs.headD 0))

/-- `last_index < 2 or np.ptp(decoy_pdf[:last_index]) == 0`: no left flank to fit a slope to.
src: mokapot/peps.py:177 -/
def pi0NoFlank (v : Rat) (dpdf : List Rat) : Bool :=
  decide (pi0LastIndex v dpdf < 2) || ptpIsZero (dpdf.take (pi0LastIndex v dpdf))

/-- the literal `1e-10`: the double nearest to `10^-10` is `7737125245533627 / 2^86` -/
def pi0Floor : Rat := 7737125245533627 / 77371252455336267181195264

/-- `estimate_pi0_by_slope(target_pdf, decoy_pdf, threshold)` given the product
`v = threshold * max(decoy_pdf)` and the slope `np.polyfit(decoy_pdf[:last], target_pdf[:last], 1)[0]`
(read only when there is a flank).  src: mokapot/peps.py:161-183 -/
def pi0BySlopeOf (v : Rat) (dpdf : List Rat) (slope : Rat) : Rat :=
  if pi0NoFlank v dpdf then 1 else max slope pi0Floor

/-! ## 2. the NNLS input of kde_nnls -/

/-- `np.clip(target_pdf - decoy_pdf * pi0_est, 0, None)` at one grid point.
src: mokapot/peps.py:243-244 -/
def kdeCorrect (pi0 t d : Rat) : Rat := max (t - d * pi0) 0

/-- `ratio = np.divide(correct, target_pdf, out=np.zeros_like(correct), where=target_pdf > 0)`,
`np.clip(1.0 - ratio, 0, 1)` at one grid point: the division is carried out only on a positive
target density, elsewhere the ratio is 0 and the estimate 1.  Always `some` (the type stays
`Option`: callers and driver were written for the old code).  src: mokapot/peps.py:247-252 -/
def kdePepEst1 (pi0 t d : Rat) : Option Rat :=
  if 0 < t then some (clip 0 1 (1 - kdeCorrect pi0 t d / t)) else some 1

/-- `pepEst` over the evaluation grid (`none` would be a NaN grid point: impossible since the repair).
src: mokapot/peps.py:243-256 -/
def kdePepEstOf (pi0 : Rat) : List Rat → List Rat → Option (List Rat)
  | t :: ts, d :: ds => (kdePepEst1 pi0 t d).bind (fun y => (kdePepEstOf pi0 ts ds).map (fun r => y :: r))
  | _, _ => some []

/-! ## 3. pipelines with these steps in place -/

/-- the numeric kernels of one `kde_nnls` call that remain abstract: the two densities on the
grid `es` (`gaussian_kde`), the product `threshold * max(decoy_pdf)`, the slope of `np.polyfit`, and
the NNLS solver behind `monotonize_nnls(pepEst, w=target_pdf, ascending=False)` (argument: the
vector to monotonise and the weights; result: the solution `d` of the reversed problem) -/
structure KdeKern where
  es : List Rat
  tpdf : List Rat
  dpdf : List Rat
  v : Rat
  slope : Rat
  nnls : List Rat → List Rat → List Rat

/-- `peps_from_scores_kde_nnls(scores, targets)` from the densities on: pi0, the NNLS input,
the NNLS solution, interpolation and clipping as in `kdeNnlsOf`.
src: mokapot/peps.py:232-262 -/
def kdeNnlsFullOf (k : KdeKern) (scores : List Rat) : Option (List Rat) :=
  (kdePepEstOf (pi0BySlopeOf k.v k.dpdf k.slope) k.tpdf k.dpdf).map
    (fun pe => kdeNnlsOf k.es (k.nnls pe k.tpdf) scores)

/-- `qvalues_from_counts(scores, targets)` from the two histogram densities on: `pi0` is
`estimate_pi0_by_slope(target_density, decoy_density)`.  src: mokapot/qvalues.py:283-306 -/
def fromCountsSlopeOf (v : Rat) (ddens : List Rat) (slope : Rat) (xs : List Psm) (ind : List Nat) :
    Option (List Rat) :=
  fromCountsPi0Of (pi0BySlopeOf v ddens slope) xs ind

end Mk.Peps
