/-!
# The key under which a spectrum / peptide / … is remembered (`confidence._entity_key`)

src: mokapot/confidence.py:827 (`_PLAIN_NUMBER`), 830-852 (`_entity_key`), used at 754-766
(`psm_hash = _entity_key([data_row.get(col) for col in level_hash_columns[level]])`).

`Model/Confidence.lean` abstracts a key to a natural number: key *equality* is all the scan uses.
This file says which cell values have equal keys.  A cell reaches `_entity_key` as the row iterator
delivers it: a number (pandas parsed the column of that chunk as int64 / float64), a string (the
chunk's column is an object column), or a bool.  `canonical`:

* a bool is keyed by its name (`"True"` / `"False"` — the same key as the *text* `True`);
* a number is keyed by its value (`float(value)`);
* text matching `^[+-]?(\d+\.?\d*|\.\d+)([eE][+-]?\d+)?$` is keyed as that number
  (`float(value)`) — so `500`, `500.0`, `5e2` and the numbers 500 / 500.0 are one key, whatever
  dtype the chunk was given; every other text (`INF`, `INFINITY`, `NAN`, `1_000`, ` 7`) is keyed by
  itself;
* the key is `str([...])` of the canonical values: here the list itself (the printed form of a list
  of floats and strings is taken to be injective; `repr(-0.0) ≠ repr(0.0)`, hence the flag below).

Numbers are decimal: value `m · 10^e`, normalised so that `m` has no trailing zero.  Assumed: the
decimal is short enough to be a distinct binary64 (≤ 15 significant digits, no overflow); `\d` and
`$` of Python's `re` restricted to ASCII digits / no trailing newline.

No import.
-/
namespace Mk

/-- a cell as the row iterator delivers it -/
inductive ConfCell where
  /-- int / float of value `m · 10^e`; `negz`: a float `-0.0` (only looked at when `m = 0`) -/
  | num (m : Int) (e : Int) (negz : Bool)
  | text (s : List Char)
  | bool (b : Bool)
  deriving DecidableEq, Repr

/-- a canonical value inside the key -/
inductive ConfKeyAtom where
  | num (m : Int) (e : Int) (negz : Bool)      -- normalised decimal
  | text (s : List Char)
  deriving DecidableEq, Repr

/-- strip trailing decimal zeros of the mantissa (fuel: there are fewer of them than `|m|`) -/
def confStripZeros : Nat → Int → Int → Int × Int
  | 0, m, e => (m, e)
  | fuel + 1, m, e => if m ≠ 0 ∧ m % 10 = 0 then confStripZeros fuel (m / 10) (e + 1) else (m, e)

/-- normal form of `m · 10^e` (zero is `0 · 10^0`, keeping the sign flag) -/
def confNormNum (m e : Int) (negz : Bool) : ConfKeyAtom :=
  if m = 0 then .num 0 0 negz
  else .num (confStripZeros (m.toNat + (-m).toNat) m e).1 (confStripZeros (m.toNat + (-m).toNat) m e).2 false

def confIsDigit (c : Char) : Bool := 48 ≤ c.toNat && c.toNat ≤ 57

def confDigitsVal (ds : List Char) : Nat := ds.foldl (fun acc c => acc * 10 + (c.toNat - 48)) 0

/-- `[+-]?` : (negative?, rest) -/
def confSplitSign : List Char → Bool × List Char
  | '-' :: rest => (true, rest)
  | '+' :: rest => (false, rest)
  | cs => (false, cs)

/-- split at the first character satisfying `p`: (before, after-without-it) or `none` -/
def confSplitAt (p : Char → Bool) : List Char → Option (List Char × List Char)
  | [] => none
  | c :: rest =>
    if p c then some ([], rest)
    else (confSplitAt p rest).map (fun ba => (c :: ba.1, ba.2))

/-- `[+-]?\d+` : the exponent -/
def confParseExp (cs : List Char) : Option Int :=
  let sr := confSplitSign cs
  if sr.2 ≠ [] ∧ sr.2.all confIsDigit then
    some (if sr.1 then -(confDigitsVal sr.2 : Int) else (confDigitsVal sr.2 : Int))
  else none

/-- `(\d+\.?\d*|\.\d+)` : (all digits, number of digits after the point) -/
def confParseMant (cs : List Char) : Option (List Char × Nat) :=
  match confSplitAt (fun c => c == '.') cs with
  | none => if cs ≠ [] ∧ cs.all confIsDigit then some (cs, 0) else none
  | some (ip, fp) =>
    if ip.all confIsDigit ∧ fp.all confIsDigit ∧ (ip ≠ [] ∨ fp ≠ []) then some (ip ++ fp, fp.length) else none

/-- `_PLAIN_NUMBER.match(value)` and `float(value)`: `none` — the text is not a plain number -/
def confPlainNumber (s : List Char) : Option ConfKeyAtom :=
  let sr := confSplitSign s
  let me : Option (List Char × Int) :=
    match confSplitAt (fun c => c == 'e' || c == 'E') sr.2 with
    | none => some (sr.2, 0)
    | some (mant, ex) => (confParseExp ex).map (fun x => (mant, x))
  me.bind fun p =>
    (confParseMant p.1).map fun df =>
      let v : Int := confDigitsVal df.1
      confNormNum (if sr.1 then -v else v) (p.2 - df.2) (sr.1 && v == 0)

/-- `canonical(value)`.  src: confidence.py:839-850 -/
def confCanonical : ConfCell → ConfKeyAtom
  | .bool b => .text (if b then "True".toList else "False".toList)
  | .num m e z => confNormNum m e z
  | .text s => (confPlainNumber s).getD (.text s)

/-- `_entity_key(values)` -/
def confEntityKey (cells : List ConfCell) : List ConfKeyAtom := cells.map confCanonical

/-! ## reading a text cell in a chunk of some dtype -/

/-- dtype pandas gave the column in one chunk -/
inductive ConfDtype where
  | numeric    -- int64 / float64: every cell of the chunk read as a number
  | object     -- some cell of the chunk is not a number: all cells stay strings
  deriving DecidableEq, Repr

/-- what the iterator delivers for the text `s` of the file when the chunk's column has dtype `d`
(for a numeric chunk the cell is a plain number by the hypothesis of the theorems; anything else
— `INF`, `NA`, … which pandas also reads as numbers — is outside, see GAPS-C03.md O9(b)) -/
def confReadCell (d : ConfDtype) (s : List Char) : ConfCell :=
  match d, confPlainNumber s with
  | .numeric, some (.num m e z) => .num m e z
  | _, _ => .text s

end Mk
