import MokapotVerif.Model.FsRun
/-!
# Extension of the file-operation model (C09): protein level, several collections, roll-up
tool, the whole command line run

src: mokapot/confidence.py:607-619 (`levels_or_proteins`, the refusal of `proteins` without a
peptide level), 642-822 (the loop over the collections with `file_prefix`, `append_here`,
`unprefixed_written`), 365-392 (`_assign_confidence`: the protein level reads `level_paths[1]`,
writes the protein level file in one piece), 393-459 (loop over `levels_or_proteins`);
mokapot/brew_rollup.py:258-458 (`do_rollup`), 461-479 (`main`); mokapot/mokapot.py:60-73
(verify loop over all PIN files), 80-84 (prefixes), 131-158 (`assign_confidence` call), 160-172
(`--save_models`).

Everything here *adds* to `Model/FsRun.lean`: the operations, `exec` and the discipline
`wellInit` are those of the base model; `collOps` with no prefix, `init = true` and no protein
level is literally `confidenceProg` (`Lemmas/FsRunExt.lean: collOps_base`).  Import-free apart
from the base model.
-/
namespace Mk.FsRun

/-! ## file names of one collection

`file_prefix = file_root` when the collection has no prefix (`None` or `""`), else
`f"{file_root}{prefix}."` (confidence.py:658-660).  Chunk and result files carry `file_prefix`,
the level files only `file_root` (confidence.py:585, 595, 604): collections share them. -/

-- src: mokapot/confidence.py:843-846
def chunkOf : Option Nat → Nat → Name
  | none, i => .chunk i
  | some p, i => .pchunk p i

-- src: mokapot/confidence.py:669
def targetOf : Option Nat → Nat → Name
  | none, l => .target l
  | some p, l => .ptarget p l

-- src: mokapot/confidence.py:678
def decoyOf : Option Nat → Nat → Name
  | none, l => .decoy l
  | some p, l => .pdecoy p l

/-- number of entries of `levels_or_proteins = [*levels, "proteins"]` (confidence.py:600-606):
the protein level is the last one, index `nl` -/
def nlp (prot : Bool) (nl : Nat) : Nat := if prot then nl + 1 else nl

/-! ## the phases with the names of a collection -/

-- src: mokapot/confidence.py:662-684
def xinitLevelOps (p : Option Nat) (decoys : Bool) (hdr : Nat → Outs → List Nat) (l : Nat) :
    List Op :=
  Op.trunc (targetOf p l) (hdr l) :: (if decoys then [Op.trunc (decoyOf p l) (hdr l)] else [])

-- src: mokapot/confidence.py:393-459
def xfinishLevelOps (p : Option Nat) (decoys : Bool) (res resd : Nat → Outs → List Nat) (l : Nat) :
    List Op :=
  Op.read (.level l) :: Op.append (targetOf p l) (res l) ::
    ((if decoys then [Op.append (decoyOf p l) (resd l)] else []) ++ [Op.unlink (.level l)])

def xphase1 (p : Option Nat) (n : Nat) (decoys : Bool) (hdr : Nat → Outs → List Nat) : List Op :=
  (List.range n).flatMap (xinitLevelOps p decoys hdr)

-- src: mokapot/confidence.py:843-859
def xphase2 (p : Option Nat) (k : Nat) (data : Nat → Outs → List Nat) : List Op :=
  (List.range k).map (fun i => Op.trunc (chunkOf p i) (data i))

-- src: mokapot/confidence.py:860-862
def xphase3 (p : Option Nat) (k : Nat) : List Op :=
  (List.range k).map (fun i => Op.read (chunkOf p i))

-- src: mokapot/confidence.py:866-874
def xphase5 (p : Option Nat) (k : Nat) : List Op :=
  (List.range k).map (fun i => Op.unlink (chunkOf p i))

def xphase6 (p : Option Nat) (n : Nat) (decoys : Bool) (res resd : Nat → Outs → List Nat) :
    List Op :=
  (List.range n).flatMap (xfinishLevelOps p decoys res resd)

/-- the protein level (confidence.py:365-392): `TabularDataReader.from_path(level_paths[1]).read()`
— the *second* entry of `level_paths`, by position —, `picked_protein`, then the protein level
file `level_paths[-1]` is written in one piece (`TabularDataWriter.write` = `initialize` +
`append_data` for text, `to_parquet` for Parquet) -/
def protLevelOps (nl : Nat) (pdata : Outs → List Nat) : List Op :=
  [Op.read (.level 1), Op.trunc (.level nl) pdata]

def protOps (prot : Bool) (nl : Nat) (pdata : Outs → List Nat) : List Op :=
  if prot then protLevelOps nl pdata else []

/-- one entry of `zip(psms, scores, descs, prefixes)`: its prefix (`none` = `None` or `""`),
the number of chunk files and what it writes -/
structure Coll where
  pfx : Option Nat
  k : Nat
  hdr : Nat → Outs → List Nat
  data : Nat → Outs → List Nat
  lvhdr : Nat → Outs → List Nat
  lvdata : Nat → Outs → List Nat
  res : Nat → Outs → List Nat
  resd : Nat → Outs → List Nat
  pdata : Outs → List Nat

/-- the body of the loop for one collection (confidence.py:632-801); `init` = the result writers
are initialised (`if not append_to_output_file: writer.initialize()`) -/
def collOps (prot : Bool) (nl : Nat) (decoys : Bool) (init : Bool) (c : Coll) : List Op :=
  (if init then xphase1 c.pfx (nlp prot nl) decoys c.hdr else []) ++ (xphase2 c.pfx c.k c.data ++
    (xphase3 c.pfx c.k ++ (phase4 nl c.lvhdr c.lvdata ++ (xphase5 c.pfx c.k ++
      (protOps prot nl c.pdata ++ xphase6 c.pfx (nlp prot nl) decoys c.res c.resd)))))

/-- the loop of `assign_confidence` over all collections (confidence.py:642-822): `req` is the
caller's `append_to_output_file`, `seen` the current value of `unprefixed_written`; a collection
appends (`append_here`) when the caller asked for it, or when it has no prefix and an un-prefixed
collection was written before; its result writers are initialised otherwise -/
def runOps (prot : Bool) (nl : Nat) (decoys : Bool) (req : Bool) : Bool → List Coll → List Op
  | _, [] => []
  | seen, c :: rest =>
    collOps prot nl decoys (!(req || (seen && c.pfx.isNone))) c ++
      runOps prot nl decoys req (seen || c.pfx.isNone) rest

/-- `assign_confidence` as a whole: `proteins` without a peptide level (`len(levels) < 2`, i.e.
`do_rollup=False`) is refused with a `ValueError` before anything is written
(confidence.py:608-614) -/
def assignOps (prot : Bool) (nl : Nat) (decoys : Bool) (req : Bool) (colls : List Coll) :
    Option (List Op) :=
  if prot && decide (nl < 2) then none else some (runOps prot nl decoys req false colls)

/-- the protein level next to one collection without prefix: `assign_confidence(proteins=…)` -/
def confidenceProgProt (k nl : Nat) (decoys : Bool)
    (hdr data lvhdr lvdata res resd : Nat → Outs → List Nat) (pdata : Outs → List Nat) : List Op :=
  collOps true nl decoys true ⟨none, k, hdr, data, lvhdr, lvdata, res, resd, pdata⟩

/-- the loop as it was before the fix of F1: one flag, set after a collection without prefix and
then applied to *every* later collection, prefixed or not -/
def runOpsOldFlag (prot : Bool) (nl : Nat) (decoys : Bool) : Bool → List Coll → List Op
  | _, [] => []
  | app, c :: rest =>
    collOps prot nl decoys (!app) c ++ runOpsOldFlag prot nl decoys (app || c.pfx.isNone) rest

/-- the chunk, level and result names of a run (what it may write) -/
def runNames (prot : Bool) (nl : Nat) (decoys : Bool) (colls : List Coll) (n : Name) : Prop :=
  (∃ c ∈ colls, ∃ i, i < c.k ∧ n = chunkOf c.pfx i) ∨
  (∃ l, l < nlp prot nl ∧ n = .level l) ∨
  (∃ c ∈ colls, ∃ l, l < nlp prot nl ∧ (n = targetOf c.pfx l ∨ (decoys = true ∧ n = decoyOf c.pfx l)))

/-! ## discipline with declared inputs (the roll-up tool globs the files it is pointed to) -/

/-- as `okStep`, plus: a file matching the declared-input pattern `inp` may be read, a glob is
allowed when everything it can match is a declared input, and no declared input is written,
removed or moved -/
def OkStepIn (inp : Name → Bool) (known : List Name) : Op → Prop
  | .trunc n _ => inp n = false
  | .unlink n => inp n = false
  | .append n _ => inp n = false ∧ n ∈ known
  | .read n => inp n = true ∨ n ∈ known
  | .move s d => inp s = false ∧ inp d = false ∧ s ∈ known
  | .globRead p => ∀ n, p n = true → inp n = true

def WellInitIn (inp : Name → Bool) (known : List Name) : List Op → Prop
  | [] => True
  | op :: rest => OkStepIn inp known op ∧ WellInitIn inp (knownStep known op) rest

/-- the entries of the directory listing that are declared inputs, in listing order -/
def FS.inputs (fs : FS) (inp : Name → Bool) : FS := fs.filter (fun e => inp e.1)

/-! ## the roll-up tool `brew_rollup` (brew_rollup.py:258-455)

`r` is the tool's `file_root`, `base` the base level, `levels` the levels rolled up to (computed
from the base level and the columns of the inputs).  Inputs: every `*.targets.{base}s` /
`*.decoys.{base}s` whose name does not start with `{file_root}.` — in the model every prefixed
result file of level `base` whose prefix is not `r`. -/

-- src: mokapot/brew_rollup.py:278-289
def isRollIn (r base : Nat) : Name → Bool
  | .ptarget p l => l == base && p != r
  | .pdecoy p l => l == base && p != r
  | _ => false

/-- the same without the `startswith(file_root)` filter: the tool's own earlier outputs match -/
def isRollInAll (base : Nat) : Name → Bool
  | .ptarget _ l => l == base
  | .pdecoy _ l => l == base
  | _ => false

-- src: mokapot/brew_rollup.py:386-408 (`auto_finalize`: every writer is initialised first)
def rollTempInit (r : Nat) (levels : List Nat) (thdr : Nat → Outs → List Nat) : List Op :=
  levels.map (fun l => Op.trunc (.temp r l) (thdr l))

-- src: mokapot/brew_rollup.py:409-425
def rollTempFill (r : Nat) (levels : List Nat) (tdata : Nat → Outs → List Nat) : List Op :=
  levels.map (fun l => Op.append (.temp r l) (tdata l))

-- src: mokapot/brew_rollup.py:437-458 (the temporary file is read back, the two result files are
-- written in one piece each, the temporary file is unlinked)
def rollLevelOps (r : Nat) (rt rd : Nat → Outs → List Nat) (l : Nat) : List Op :=
  [Op.read (.temp r l), Op.trunc (.ptarget r l) (rt l), Op.trunc (.pdecoy r l) (rd l),
   Op.unlink (.temp r l)]

def rollOut (r : Nat) (levels : List Nat) (rt rd : Nat → Outs → List Nat) : List Op :=
  levels.flatMap (rollLevelOps r rt rd)

/-- the tool as it was before the fix of F3: the temporary file is read back and left in place -/
def rollLevelOpsKeep (r : Nat) (rt rd : Nat → Outs → List Nat) (l : Nat) : List Op :=
  [Op.read (.temp r l), Op.trunc (.ptarget r l) (rt l), Op.trunc (.pdecoy r l) (rd l)]

def rollupOpsKeepTemp (r base : Nat) (levels : List Nat)
    (thdr tdata rt rd : Nat → Outs → List Nat) : List Op :=
  Op.globRead (isRollIn r base) :: (rollTempInit r levels thdr ++ (rollTempFill r levels tdata ++
    levels.flatMap (rollLevelOpsKeep r rt rd)))

def rollupOpsWith (pat : Name → Bool) (r : Nat) (levels : List Nat)
    (thdr tdata rt rd : Nat → Outs → List Nat) : List Op :=
  Op.globRead pat :: (rollTempInit r levels thdr ++ (rollTempFill r levels tdata ++
    rollOut r levels rt rd))

def rollupOps (r base : Nat) (levels : List Nat) (thdr tdata rt rd : Nat → Outs → List Nat) :
    List Op :=
  rollupOpsWith (isRollIn r base) r levels thdr tdata rt rd

/-- every file matching the pattern is an input, the tool's own earlier outputs included -/
def rollupOpsNoFilter (r base : Nat) (levels : List Nat)
    (thdr tdata rt rd : Nat → Outs → List Nat) : List Op :=
  rollupOpsWith (isRollInAll base) r levels thdr tdata rt rd

/-! ## the command line run (mokapot.py:60-73, 80-84, 131-172) -/

/-- verify step for the `j`-th PIN file: `is_valid_tsv` reads it; when it is not a valid table
(`needs j`, a function of its content) it is read again, converted into `{pin}.tsv` opened with
mode `w`, and that file is moved over the PIN -/
def verifyOps (needs : Nat → Bool) (conv : Nat → Outs → List Nat) (j : Nat) : List Op :=
  Op.read (.pin j) :: (if needs j then
    [Op.read (.pin j), Op.trunc (.pinTsv j) (conv j), Op.move (.pinTsv j) (.pin j)] else [])

def verifyAll (verify : Bool) (nf : Nat) (needs : Nat → Bool) (conv : Nat → Outs → List Nat) :
    List Op :=
  if verify then (List.range nf).flatMap (verifyOps needs conv) else []

-- src: mokapot/mokapot.py:80 (`read_pin(config.psm_files)`)
def readPins (nf : Nat) : List Op := (List.range nf).map (fun j => Op.read (.pin j))

-- src: mokapot/mokapot.py:160-172, mokapot/model.py:205 (`open(out_file, "wb+")`)
def saveModels (nm : Nat) (mdl : Nat → Outs → List Nat) : List Op :=
  (List.range nm).map (fun i => Op.trunc (.model i) (mdl i))

/-- `mokapot.mokapot.main`: verify every PIN file, read them, (brew: no file is written),
`assign_confidence` over the collections (the CLI never passes `append_to_output_file`), save
`nm` models (`--save_models`; `nm = 0` without) -/
def cliMainOps (verify : Bool) (nf : Nat) (needs : Nat → Bool) (conv : Nat → Outs → List Nat)
    (prot : Bool) (nl : Nat) (decoys : Bool) (colls : List Coll)
    (nm : Nat) (mdl : Nat → Outs → List Nat) : List Op :=
  verifyAll verify nf needs conv ++ (readPins nf ++ (runOps prot nl decoys false false colls ++
    saveModels nm mdl))

/-- the PIN files of a command line run -/
def pinNames (nf : Nat) : List Name := (List.range nf).map Name.pin

/-! ## concrete instances (driver, `#guard`s, witnesses) -/

/-- the protein table depends on the peptide level read last -/
def demoPData (outs : Outs) : List Nat := (outs.getLast?.getD []).map (· + 5000)

def demoColl (p : Option Nat) (k : Nat) : Coll :=
  ⟨p, k, demoHdr, demoData, demoLvHdr, demoLvData, demoRes, demoRes, demoPData⟩

/-- a run whose collections are given by (prefix, number of chunks); `req` = the caller's
`append_to_output_file` -/
def demoRun (prot : Bool) (nl : Nat) (decoys : Bool) (req : Bool) (cs : List (Option Nat × Nat)) :
    List Op :=
  runOps prot nl decoys req false (cs.map (fun c => demoColl c.1 c.2))

def demoAssign (prot : Bool) (nl : Nat) (decoys : Bool) (req : Bool) (cs : List (Option Nat × Nat)) :
    Option (List Op) :=
  assignOps prot nl decoys req (cs.map (fun c => demoColl c.1 c.2))

def demoTData (_ : Nat) (outs : Outs) : List Nat := outs.flatten
def demoRollOut (_ : Nat) (outs : Outs) : List Nat := (outs.getLast?.getD []).map (· + 7000)

def demoRollup (r base : Nat) (levels : List Nat) : List Op :=
  rollupOps r base levels demoLvHdr demoTData demoRollOut demoRollOut

def demoRollupNoFilter (r base : Nat) (levels : List Nat) : List Op :=
  rollupOpsNoFilter r base levels demoLvHdr demoTData demoRollOut demoRollOut

def demoRollupKeepTemp (r base : Nat) (levels : List Nat) : List Op :=
  rollupOpsKeepTemp r base levels demoLvHdr demoTData demoRollOut demoRollOut

def demoRunOldFlag (prot : Bool) (nl : Nat) (decoys : Bool) (cs : List (Option Nat × Nat)) : List Op :=
  runOpsOldFlag prot nl decoys false (cs.map (fun c => demoColl c.1 c.2))

def demoConvJ (_ : Nat) (outs : Outs) : List Nat := demoConv outs
def demoModel (i : Nat) (outs : Outs) : List Nat := [9000 + i, outs.length]

def demoCliMain (verify : Bool) (needs : List Bool) (prot : Bool) (nl : Nat) (decoys : Bool)
    (cs : List (Option Nat × Nat)) (nm : Nat) : List Op :=
  cliMainOps verify needs.length (fun j => needs.getD j false) demoConvJ prot nl decoys
    (cs.map (fun c => demoColl c.1 c.2)) nm demoModel

end Mk.FsRun
