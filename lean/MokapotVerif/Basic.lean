def hello := "world"
