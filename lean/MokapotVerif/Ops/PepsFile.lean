import MokapotVerif.Wire
import MokapotVerif.Model.PepsFile
/-! Driver glue for `Model/PepsFile.lean` (C06 extension). -/
namespace Mk.Ops.PepsFile
open Mk Mk.V Mk.Peps

def pfPsms? (v : V) : Option (List (Rat × Bool)) := toList? (toPair? toRat? toBool?) v
def pfRats? (v : V) : Option (List Rat) := toList? toRat? v

/-- an optional algorithm name: the atom `none` (argument omitted) or a string -/
def optName? : V → Option (Option (List Char))
  | atom "none" => some none
  | v => (toStr? v).map (fun s => some s.toList)

def pepAlgAtom : PepAlg → V
  | .qvality => atom "qvality"
  | .qvalityBin => atom "qvality_bin"
  | .kdeNnls => atom "kde_nnls"
  | .histNnls => atom "hist_nnls"

def qAlgAtom : QAlg → V
  | .tdc => atom "tdc"
  | .fromPeps => atom "from_peps"
  | .fromCounts => atom "from_counts"

/-- `pepdispatch name|none` → `[estimator use_binary]` | `reject-KeyError` -/
def opPepDispatch : List V → Option V
  | [n] => do
      let n ← optName? n
      some (match pepAlgOfArg n with
        | some a => list [pepAlgAtom a, ofBool (pepAlgUsesBinary a)]
        | none => atom "reject-KeyError")
  | _ => none

/-- `qdispatch name|none` → estimator | `reject-KeyError` -/
def opQDispatch : List V → Option V
  | [n] => do
      let n ← optName? n
      some (match qAlgOfArg n with
        | some a => qAlgAtom a
        | none => atom "reject-KeyError")
  | _ => none

def isPermOfRange' (ind : List Nat) (n : Nat) : Bool :=
  ind.length == n && (List.range n).all (fun i => ind.contains i)

def validArgsort' (scores : List Rat) (ind : List Nat) : Bool :=
  isPermOfRange' ind scores.length && nonIncreasing (takeIdx 0 scores ind)

/-- what numpy refuses before the composition code runs: `np.interp` on an empty grid or on
`xp`, `fp` of different lengths; a kernel answer of the wrong length in the scatter -/
def kernShapeOk (a : PepAlg) (ps es d : List Rat) (n : Nat) : Bool :=
  match a with
  | .qvality => ps.length == n
  | .qvalityBin => ps.length == n
  | .kdeNnls => !es.isEmpty && es.length == d.length
  | .histNnls => !es.isEmpty && es.length == d.length

/-- `pepsfromscores name|none [qvality kernel output] [es] [d] [[score label] ...]`
→ PEPs | `nan-all` | `reject-KeyError` | `reject-value` -/
def opPepsFromScores : List V → Option V
  | [n, ps, es, d, xs] => do
      let n ← optName? n
      let ps ← pfRats? ps
      let es ← pfRats? es
      let d ← pfRats? d
      let xs ← pfPsms? xs
      some (match pepAlgOfArg n with
        | none => atom "reject-KeyError"
        | some a =>
          if !kernShapeOk a ps es d xs.length then atom "reject-value" else
          match pepsFromScoresOf n ⟨fun _ _ => ps, es, d⟩ xs (stableArgsortDesc xs) with
          | .ok r => ofList ofRat r
          | .error e => atom (if e == "nan-all" then "nan-all" else "reject-" ++ e))
  | _ => none

/-- `frompepshist [es] [d] [[score label] ...] [ind]` → q-values | `nan-all` | `reject-*` -/
def opFromPepsHist : List V → Option V
  | [es, d, xs, ind] => do
      let es ← pfRats? es
      let d ← pfRats? d
      let xs ← pfPsms? xs
      let ind ← toList? toNat? ind
      if es.isEmpty || es.length != d.length then some (atom "reject-value") else
      if !validArgsort' (xs.map (·.1)) ind then some (atom "reject-bad-argsort") else
      if (histNnlsOf es d (xs.map (·.1))).isNone then some (atom "nan-all") else
      some (match fromPepsHistOf es d xs ind with
        | some r => ofList ofRat r
        | none => atom "reject-value")
  | _ => none

/-- `fromcountspi0 pi0 [[score label] ...] [ind]` → q-values | `inf-all` | `nan-all` -/
def opFromCountsPi0 : List V → Option V
  | [pi0, xs, ind] => do
      let pi0 ← toRat? pi0
      let xs ← pfPsms? xs
      let ind ← toList? toNat? ind
      if xs.isEmpty then some (atom "reject-value") else
      if !validArgsort' (xs.map (·.1)) ind then some (atom "reject-bad-argsort") else
      if numDecoys xs == 0 then some (atom "nan-all") else
      some (match fromCountsPi0Of pi0 xs ind with
        | some r => ofList ofRat r
        | none => atom "inf-all")
  | _ => none

def oRow (o : ORow) : V := list [ofNat o.id, ofRat o.score, ofRat o.q, ofRat o.pep]

def filesV (f : List ORow × Option (List ORow)) : V :=
  list [ofList oRow f.1, match f.2 with
    | some d => ofList oRow d
    | none => atom "absent"]

def lRow? : V → Option LRow
  | list [i, s, t] => do some { id := ← toNat? i, score := ← toRat? s, target := ← toBool? t }
  | _ => none

def idScore? (v : V) : Option (Nat × Rat) := toPair? toNat? toRat? v

def pepCall? : V → Option PepCall
  | atom "exit-no-decoys" => some .exitNoDecoys
  | atom "exit-other" => some .exitOther
  | atom "raised" => some .raised
  | v => (pfRats? v).map .ok

/-- `peplevelfiles c decoys desc peps_error [[id score target] ...] [q ...] pepcall`
(`pepcall` = `[pep ...]` | `exit-no-decoys` | `exit-other` | `raised`)
→ `[[[id score q pep] ...] [[id score q pep] ...]|absent]` | `reject-<error>` -/
def opLevelFiles : List V → Option V
  | [c, decoys, desc, pe, rows, qs, pc] => do
      let c ← toNat? c
      let decoys ← toBool? decoys
      let desc ← toBool? desc
      let pe ← toBool? pe
      let rows ← toList? lRow? rows
      let qs ← pfRats? qs
      let pc ← pepCall? pc
      if c == 0 then some (atom "reject-chunk-size") else
      some (match levelFiles c decoys desc pe (fun _ => qs) (fun _ => pc) rows with
        | .ok f => filesV f
        | .error e => atom ("reject-" ++ e))
  | _ => none

/-- `writeconf c decoys [[id score] ...] [q ...] [pep ...] [target ...]`: the chunked writer on
sequences of arbitrary lengths → files | `reject-pandas-length-error` -/
def opWriteConf : List V → Option V
  | [c, decoys, rows, qs, ps, ts] => do
      let c ← toNat? c
      let decoys ← toBool? decoys
      let rows ← toList? idScore? rows
      let qs ← pfRats? qs
      let ps ← pfRats? ps
      let ts ← toList? toBool? ts
      if c == 0 then some (atom "reject-chunk-size") else
      some (match writeConfidences c decoys rows qs ps ts with
        | some f => filesV f
        | none => atom ("reject-" ++ writeError))
  | _ => none

end Mk.Ops.PepsFile

namespace Mk.Ops
open Mk Mk.V Mk.Ops.PepsFile

def pepsFileOps : List (String × (List V → Option V)) :=
  [("pepdispatch", opPepDispatch), ("qdispatch", opQDispatch), ("pepsfromscores", opPepsFromScores),
   ("frompepshist", opFromPepsHist), ("fromcountspi0", opFromCountsPi0), ("peplevelfiles", opLevelFiles),
   ("writeconf", opWriteConf)]

end Mk.Ops
