import MokapotVerif.Wire
import MokapotVerif.Model.Peps
/-! Driver glue for `Model/Peps.lean` (C06). -/
namespace Mk.Ops.Peps
open Mk Mk.V Mk.Peps

def pepPsms? (v : V) : Option (List (Rat × Bool)) := toList? (toPair? toRat? toBool?) v
def rats? (v : V) : Option (List Rat) := toList? toRat? v

/-- `runmax [x ...]` -/
def opRunMax : List V → Option V
  | [xs] => do some (ofList ofRat (runMax (← rats? xs)))
  | _ => none

/-- `runmin [x ...]` -/
def opRunMin : List V → Option V
  | [xs] => do some (ofList ofRat (runMin (← rats? xs)))
  | _ => none

/-- `cumsum [x ...]` -/
def opCumsum : List V → Option V
  | [xs] => do some (ofList ofRat (cumsum (← rats? xs)))
  | _ => none

/-- `interp [xp ...] [fp ...] [x ...]`; numpy raises on empty `xp` and on
different lengths -/
def opInterp : List V → Option V
  | [xp, fp, xs] => do
      let xp ← rats? xp
      let fp ← rats? fp
      let xs ← rats? xs
      if xp.isEmpty || xp.length != fp.length then some (atom "reject-value") else
      some (ofList ofRat (xs.map (interp (xp.zip fp))))
  | _ => none

/-- `qvalitywrap [kernel output, descending-score order] [[score label] ...]` -/
def opQvalityWrap : List V → Option V
  | [ps, xs] => do
      let ps ← rats? ps
      let xs ← pepPsms? xs
      if ps.length != xs.length then some (atom "reject-shape") else
      some (ofList ofRat (qvalityWrap (fun _ _ => ps) xs))
  | _ => none

/-- `kdepeps [eval_scores] [d] [scores]` -/
def opKdePeps : List V → Option V
  | [es, d, xs] => do
      let es ← rats? es
      let d ← rats? d
      let xs ← rats? xs
      if es.isEmpty || es.length != d.length then some (atom "reject-value") else
      some (ofList ofRat (kdeNnlsOf es d xs))
  | _ => none

/-- `histpeps [eval_scores] [d] [scores]` → PEPs or `nan-all` -/
def opHistPeps : List V → Option V
  | [es, d, xs] => do
      let es ← rats? es
      let d ← rats? d
      let xs ← rats? xs
      if es.isEmpty || es.length != d.length then some (atom "reject-value") else
      some (match histNnlsOf es d xs with
        | some r => ofList ofRat r
        | none => atom "nan-all")
  | _ => none

def arrange {β : Type} (dflt : β) (xs : List β) (ind : List Nat) : List β := ind.map (fun i => xs.getD i dflt)

def validArgsort (scores : List Rat) (ind : List Nat) : Bool :=
  isPermOfRange ind scores.length && nonIncreasing (arrange 0 scores ind)

/-- `frompeps [[score label] ...] [peps] [ind]`: `ind` is the result of the
code's `np.argsort(-scores)` (tie order is the caller's) -/
def opFromPeps : List V → Option V
  | [xs, ps, ind] => do
      let xs ← pepPsms? xs
      let ps ← rats? ps
      let ind ← toList? toNat? ind
      if ps.length != xs.length then some (atom "reject-shape") else
      if !validArgsort (xs.map (·.1)) ind then some (atom "reject-bad-argsort") else
      some (match fromPepsOf (xs.map (·.1)) (arrange ((0, false), 0) (xs.zip ps) ind) with
        | some r => ofList ofRat r
        | none => atom "reject-value")
  | _ => none

/-- `fromcounts c [[score label] ...] [ind]` → q-values or `inf-all` -/
def opFromCounts : List V → Option V
  | [c, xs, ind] => do
      let c ← toRat? c
      let xs ← pepPsms? xs
      let ind ← toList? toNat? ind
      if xs.isEmpty then some (atom "reject-value") else
      if !validArgsort (xs.map (·.1)) ind then some (atom "reject-bad-argsort") else
      some (match fromCountsOf c (xs.map (·.1)) (arrange (0, false) xs ind) with
        | some r => ofList ofRat r
        | none => atom "inf-all")
  | _ => none

/-- `spec-C06 lo hi|none eps [scores] [vals]` → `ok` | `fail-<clause>` -/
def opSpecC06 : List V → Option V
  | [lo, hi, eps, xs, vs] => do
      let lo ← toRat? lo
      let hi ← (match hi with
        | atom "none" => some none
        | h => (toRat? h).map some)
      let eps ← toRat? eps
      let xs ← rats? xs
      let vs ← rats? vs
      some (atom (shapeCheck lo hi eps xs vs))
  | _ => none

end Mk.Ops.Peps

namespace Mk.Ops
open Mk Mk.V Mk.Ops.Peps

def pepsOps : List (String × (List V → Option V)) :=
  [("runmax", opRunMax), ("runmin", opRunMin), ("cumsum", opCumsum), ("interp", opInterp),
   ("qvalitywrap", opQvalityWrap), ("kdepeps", opKdePeps), ("histpeps", opHistPeps),
   ("frompeps", opFromPeps), ("fromcounts", opFromCounts), ("spec-C06", opSpecC06)]

end Mk.Ops
