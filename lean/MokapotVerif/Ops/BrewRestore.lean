import MokapotVerif.Wire
import MokapotVerif.Model.Brew
import MokapotVerif.Model.BrewMulti
import MokapotVerif.Model.BrewBlocks
import MokapotVerif.Model.BrewRestore
/-! Driver glue for `Model/BrewRestore.lean`. -/
namespace Mk.Ops.BrewRestore
open Mk V Mk.Brew

def natLists? (v : V) : Option (List (List Nat)) := toList? (toList? toNat?) v

def cap? (v : V) : Option (Option Nat) := do
  let l ← toList? toNat? v
  pure l.head?

def drawFirst (cap : Option Nat) (K : Nat) (_f k _n : Nat) : List Nat :=
  List.range ((capsOf cap K).getD k 0)

/-- the tagged chunks of one collection: the reader delivers the rows `0 … n-1` (labelled with
their number) in chunks of the given lengths, `create_chunks` cuts the routing every `c` -/
def taggedChunks (ls : List Nat) (c : Nat) (r : List Nat) : Option (List (List ((Nat × Nat) × Nat))) :=
  pairChunks (cutBy ls (indexed (List.range ls.sum))) (routingChunks c r)

/-- `foldlabels [reader chunk lengths] <c> <nfolds> [routing]` → `[[labels collected for fold f] …]`
(`orig_idx` at the end of the loop over the chunks), or `reject-chunk-mismatch` -/
def opFoldLabels : List V → Option V
  | [ls, c, k, r] => do
      let ls ← toList? toNat? ls
      let c ← toNat? c
      let k ← toNat? k
      let r ← toList? toNat? r
      if c = 0 then some (atom "reject-chunk0") else
      some (match taggedChunks ls c r with
        | some chs => list ((List.range k).map (fun f => ofList ofNat (foldLabels f chs)))
        | none => atom "reject-chunk-mismatch")
  | _ => none

/-- `restoreorder [[labels of fold f] …]` → for every output position the `fold * 1000000 + j` of the
entry of `np.concatenate(scores)` that `[np.argsort(sum(orig_idx, []))]` puts there (entry `j` of
fold `f`'s stacked scores); any label lists, also ones that are no permutation -/
def opRestoreOrder : List V → Option V
  | [ls] => do
      let ls ← natLists? ls
      let tokens := (ls.zipIdx.map (fun lf => (List.range lf.1.length).map (fun j => lf.2 * 1000000 + j))).flatten
      some (ofList ofNat (gather tokens (argsortStable ls.flatten)))
  | _ => none

/-- `predicttwoa [reader chunk lengths] <c> <nfolds> [routing]` → as `predicttwo`, computed the
code's way (`hstack`, `argsort`, fancy indexing): `reject-chunk-mismatch`, `reject-hstack` -/
def opPredictTwoA : List V → Option V
  | [ls, c, k, r] => do
      let ls ← toList? toNat? ls
      let c ← toNat? c
      let k ← toNat? k
      let r ← toList? toNat? r
      if c = 0 then some (atom "reject-chunk0") else
      some (match predictTwoA (cutBy ls (indexed (List.range ls.sum))) c k r
          (fun f row => f * 1000000 + row) (fun _ => true) (fun _ s => s) argsortStable with
        | .ok out => ofList ofNat out
        | .error e => atom ("reject-" ++ e))
  | _ => none

/-- `routea [[fold] …]` → `np.concatenate(model_idx)[np.argsort(flatten(folds))]` for the folds as
given (any in-fold order) -/
def opRouteA : List V → Option V
  | [fs] => do
      let fs ← natLists? fs
      some (ofList ofNat (routeA fs (argsortStable fs.flatten)))
  | _ => none

def mkFiles (sizes : List Nat) : List (List Nat) :=
  (sizes.foldl (fun (acc : List (List Nat) × Nat) n => (acc.1 ++ [(List.range n).map (· + acc.2)], acc.2 + n))
    ([], 0)).1

def strLists? (v : V) : Option (List (List String)) := toList? (toList? toStr?) v

/-- `brewruna <folds> <cap> <cread> <cpred> [[hashes] per file] [[feature names] per file]` → the
whole run with every step as the code has it: `[[ [fold number, [training rows]] per model ]
[[bit mask of the models whose training table is the one that produced the row's score, per row]
per file] [[row scored, per row] per file]]` (read from the returned scores), or
`reject-<ValueError-features | IndexError | ValueError-choice | hstack | chunk-mismatch>` -/
def opBrewRunA : List V → Option V
  | [f, c, cr, cp, hs, fe] => do
      let f ← toNat? f
      let c ← cap? c
      let cr ← toNat? cr
      let cp ← toNat? cp
      let hs ← natLists? hs
      let fe ← strLists? fe
      if cr = 0 ∨ cp = 0 then some (atom "reject-chunk0") else
      let files := mkFiles (hs.map List.length)
      let sorteds := hs.map (fun h => h.zipIdx.mergeSort (fun a b => decide (a.1 ≤ b.1)))
      let shuffle : Nat → List (List Nat) → List (List Nat) := fun _ fs => fs.map List.reverse
      let run := brewRunA (ρ := Nat) (σ := List Nat × Nat) (μ := List Nat) cr cp f fe files sorteds
        shuffle c (fun _ _ l => l) (drawFirst c files.length)
        (fun _ _ ps => ps.reverse) List.reverse
        (fun tbl => tbl.map (fun o => o.getD 4000000000)) (fun m r => (m, r)) (fun _ => true)
        (fun _ s => s) (fun _ => argsortStable) (fun _ => argsortStable)
      some (match run with
        | .ok (models, scores) =>
          list [list (models.map (fun m => list [ofNat m.1, ofList ofNat m.2])),
                list (scores.map (fun sc => ofList ofNat (sc.map (fun s =>
                  (models.zipIdx.map (fun mi => if mi.1.2 == s.1 then 2 ^ mi.2 else 0)).sum)))),
                list (scores.map (fun sc => ofList ofNat (sc.map (·.2))))]
        | .error e => atom ("reject-" ++ e))
  | _ => none

end Mk.Ops.BrewRestore

namespace Mk.Ops
open Mk.Ops.BrewRestore
def brewRestoreOps : List (String × (List V → Option V)) :=
  [("foldlabels", opFoldLabels), ("restoreorder", opRestoreOrder), ("predicttwoa", opPredictTwoA),
   ("routea", opRouteA), ("brewruna", opBrewRunA)]
end Mk.Ops
