import MokapotVerif.Wire
import MokapotVerif.Model.PinWarn
import MokapotVerif.Ops.Pin
/-! Driver glue for `Model/PinWarn.lean` (wire format as in `Ops/Pin.lean`). -/
namespace Mk.Ops.PinWarn
open Mk V Mk.Pin Mk.Ops.Pin

/-- `pin-warn [args] c r table` → `[[features_to_drop ...] [warned ...]]` (task order, chunk order
inside a task) or `reject-<kind>` -/
def opPinWarn : List V → Option V
  | [a, c, r, t] => do
      let args ← toArgs? a
      let c ← toNat? c
      let r ← toNat? r
      let t ← toTable? t
      match featuresToDrop id args c r t, readPercolatorWarningsId args c r t with
      | .ok d, .ok w => some (list [ofList ofName d, ofList ofName w])
      | .error e, _ => some (atom (errName e))
      | _, .error e => some (atom (errName e))
  | _ => none

end Mk.Ops.PinWarn

namespace Mk.Ops
open Mk V Mk.Ops.PinWarn

def pinWarnOps : List (String × (List V → Option V)) :=
  [("pin-warn", opPinWarn)]

end Mk.Ops
