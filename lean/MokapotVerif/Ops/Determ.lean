import MokapotVerif.Wire
import MokapotVerif.Model.Determ
/-! Driver glue for `Model/Determ.lean` (C08). -/
namespace Mk.Ops.Determ
open Mk V Mk.Determ

def drawV : Draw → V
  | .shuffle n => list [atom "sh", ofNat n]
  | .choice n k => list [atom "ch", ofNat n, ofNat k]
  | .permutation n => list [atom "pm", ofNat n]

def optNat? : V → Option (Option Nat)
  | atom "none" => some none
  | v => (toNat? v).map some

/-- is every `rng.choice(x, k, replace=False)` of the plan possible (`k ≤ len(x)`)?  numpy raises otherwise -/
def feasible (ds : List Draw) : Bool :=
  ds.all (fun d => match d with
    | .choice n k => decide (k ≤ n)
    | _ => true)

/-- `determplan <pretrained> <subset_max_train|none> [[fold sizes of collection 1] …]` →
`[[main draws] [[draws of fit 0] …]]` | `reject-choice` -/
def opPlan : List V → Option V
  | [p, sm, fs] => do
      let p ← toBool? p
      let sm ← optNat? sm
      let fs ← toList? (toList? toNat?) fs
      let main := mainDraws p sm fs
      if !feasible main then some (atom "reject-choice") else
      let k := if p then 0 else nFolds fs
      some (list [ofList drawV main, ofList (fun j => ofList drawV (fitDraws sm fs j)) (List.range k)])
  | _ => none

/-- `determpool <shared> <s0> <subset_max_train|none> [[fold sizes]…] [schedule]` on the toy generator →
`[[values received by fit 0] …] [state of cell 0, 1, …, k]` (`shared` = the refuted variant without `deepcopy`) -/
def opPool : List V → Option V
  | [sh, s0, sm, fs, sched] => do
      let sh ← toBool? sh
      let s0 ← toNat? s0
      let sm ← optNat? sm
      let fs ← toList? (toList? toNat?) fs
      let sched ← toList? toNat? sched
      let k := nFolds fs
      let st : Pool Nat Nat :=
        if sh then
          runPool toyGen (fun _ => 0) (poolInit (runDraws toyGen s0 (mainDraws false sm fs)).2 k (fitDraws sm fs)) sched
        else brewPool toyGen s0 false sm fs sched
      some (list [ofList (fun j => ofList ofNat (st.out j)) (List.range k),
                  ofList (fun c => ofNat (st.heap c)) (List.range (k + 1))])
  | _ => none

def entry? : V → Option (String × List String)
  | list [k, vs] => do pure (← toStr? k, ← toList? toStr? vs)
  | _ => none

def loop? : V → Option (List String × String)
  | list [ks, tag] => do pure (← toList? toStr? ks, ← toStr? tag)
  | _ => none

/-- body of `for pep in peps: peptides[pep].add(prot)` with the set of proteins kept as a list -/
def addTag (tag : String) (_ : String) (old : Option (List String)) : List String := old.getD [] ++ [tag]

/-- `determloop [[key [values]]…] [[[enumeration of the set] tag]…]` → the dictionary after the loops, in order -/
def opLoop : List V → Option V
  | [d, loops] => do
      let d ← toList? entry? d
      let loops ← toList? loop? loops
      let r := loops.foldl (fun d l => keyedLoop (addTag l.2) d l.1) d
      some (ofList (fun e => list [ofStr e.1, ofList ofStr e.2]) r)
  | _ => none

end Mk.Ops.Determ

namespace Mk.Ops
open Mk.Ops.Determ
def determOps : List (String × (List V → Option V)) :=
  [("determplan", opPlan), ("determpool", opPool), ("determloop", opLoop)]
end Mk.Ops
