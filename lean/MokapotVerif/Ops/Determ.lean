import MokapotVerif.Wire
import MokapotVerif.Model.Determ
/-! Driver glue for `Model/Determ.lean` (C08). -/
namespace Mk.Ops.Determ
open Mk V Mk.Determ

def drawV : Draw → V
  | .shuffle n => list [atom "sh", ofNat n]
  | .choice n k => list [atom "ch", ofNat n, ofNat k]
  | .permutation n => list [atom "pm", ofNat n]
  | .integers lo hi => list [atom "in", ofNat lo, ofNat hi]

def optNat? : V → Option (Option Nat)
  | atom "none" => some none
  | v => (toNat? v).map some

/-- is every `rng.choice(x, k, replace=False)` of the plan possible (`k ≤ len(x)`)?  numpy raises otherwise -/
def feasible (ds : List Draw) : Bool :=
  ds.all (fun d => match d with
    | .choice n k => decide (k ≤ n)
    | _ => true)

/-- `determplan <pretrained> <subset_max_train|none> [[fold sizes of collection 1] …]` →
`[[main draws] [[draws of fit 0] …]]` | `reject-choice` -/
def opPlan : List V → Option V
  | [p, sm, fs] => do
      let p ← toBool? p
      let sm ← optNat? sm
      let fs ← toList? (toList? toNat?) fs
      let main := mainDraws p sm fs
      if !feasible main then some (atom "reject-choice") else
      let k := if p then 0 else nFolds fs
      some (list [ofList drawV main, ofList (fun j => ofList drawV (fitDraws sm fs j)) (List.range k)])
  -- second pass: `determplan <model=None> <pretrained> <subset_max_train|none> [[fold sizes]…]` (`mainDrawsOf`)
  | [dm, p, sm, fs] => do
      let dm ← toBool? dm
      let p ← toBool? p
      let sm ← optNat? sm
      let fs ← toList? (toList? toNat?) fs
      let main := mainDrawsOf dm p sm fs
      if !feasible main then some (atom "reject-choice") else
      let k := if p then 0 else nFolds fs
      some (list [ofList drawV main, ofList (fun j => ofList drawV (fitDraws sm fs j)) (List.range k)])
  | _ => none

/-- `determpool <shared> <s0> <subset_max_train|none> [[fold sizes]…] [schedule]` on the toy generator →
`[[values received by fit 0] …] [state of cell 0, 1, …, k]` (`shared` = the refuted variant without `deepcopy`) -/
def opPool : List V → Option V
  | [sh, s0, sm, fs, sched] => do
      let sh ← toBool? sh
      let s0 ← toNat? s0
      let sm ← optNat? sm
      let fs ← toList? (toList? toNat?) fs
      let sched ← toList? toNat? sched
      let k := nFolds fs
      let st : Pool Nat Nat :=
        if sh then
          runPool toyGen (fun _ => 0) (poolInit (runDraws toyGen s0 (mainDraws false sm fs)).2 k (fitDraws sm fs)) sched
        else brewPool toyGen s0 false sm fs sched
      some (list [ofList (fun j => ofList ofNat (st.out j)) (List.range k),
                  ofList (fun c => ofNat (st.heap c)) (List.range (k + 1))])
  | _ => none

def entry? : V → Option (String × List String)
  | list [k, vs] => do pure (← toStr? k, ← toList? toStr? vs)
  | _ => none

def loop? : V → Option (List String × String)
  | list [ks, tag] => do pure (← toList? toStr? ks, ← toStr? tag)
  | _ => none

/-- body of `for pep in peps: peptides[pep].add(prot)` with the set of proteins kept as a list -/
def addTag (tag : String) (_ : String) (old : Option (List String)) : List String := old.getD [] ++ [tag]

/-- `determloop [[key [values]]…] [[[enumeration of the set] tag]…]` → the dictionary after the loops, in order -/
def opLoop : List V → Option V
  | [d, loops] => do
      let d ← toList? entry? d
      let loops ← toList? loop? loops
      let r := loops.foldl (fun d l => keyedLoop (addTag l.2) d l.1) d
      some (ofList (fun e => list [ofStr e.1, ofList ofStr e.2]) r)
  | _ => none

/-- a generator whose state is the list of requests made on it so far and whose values are that history: the
driver answers "on which generator, after which earlier requests" for every shuffle (the harness replays the
history on an independent numpy generator) -/
def traceGen : Gen (List Draw) (List Draw) := { step := fun s d => (s, s ++ [d]) }

/-- `determconf <fasta has decoys> <seed|gen> <unique target peptides of the FASTA> [rows with a group, per collection]`
→ `[[request, [requests made before it on the same generator]] …] [requests on the caller's generator at the end]` -/
def opConf : List V → Option V
  | [hd, form, nt, rows] => do
      let hd ← toBool? hd
      let form ← toStr? form
      let nt ← toNat? nt
      let rows ← toList? toNat? rows
      let arg : Option (SeedArg (List Draw)) :=
        if form == "seed" then some (.seed []) else if form == "gen" then some .gen else none
      let arg ← arg
      let ds := confDraws hd nt rows
      let r := runSeeded traceGen arg [] ds
      some (list [ofList (fun x => list [drawV x.1, ofList drawV x.2]) (ds.zip r.1), ofList drawV r.2])
  | _ => none

/-- `determcv <default|built>` → `[entropy|model-seed|brew-generator, request, [requests made on brew's generator
before its fold shuffles]]`: on which generator, and by which request, the cross-validation seed of the model that
`brew` trains is drawn (`modelCvSeed`, `brewStart` on the trace generator) -/
def opCv : List V → Option V
  | [m] => do
      let m ← toStr? m
      let arg : Option (ModelArg (List Draw)) :=
        if m == "default" then some .default else if m == "built" then some (.built []) else none
      let arg ← arg
      -- histories that tell the three generators apart: entropy `[in 0 0]`, brew's generator `[in 0 1]`, the model's `[]`
      let h := modelCvSeed traceGen [Draw.integers 0 0] [Draw.integers 0 1] arg
      let s := brewStart traceGen [Draw.integers 0 1] arg
      some (list [atom (if h.isEmpty then "model-seed" else if h == [Draw.integers 0 0] then "entropy" else "brew-generator"),
                  drawV (Draw.integers 1 1000000), ofList drawV (s.drop 1)])
  | _ => none

end Mk.Ops.Determ

namespace Mk.Ops
open Mk.Ops.Determ
def determOps : List (String × (List V → Option V)) :=
  [("determplan", opPlan), ("determpool", opPool), ("determloop", opLoop), ("determconf", opConf), ("determcv", opCv)]
end Mk.Ops
