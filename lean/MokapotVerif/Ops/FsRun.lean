import MokapotVerif.Wire
import MokapotVerif.Model.FsRun
import MokapotVerif.Model.FsRunExt
/-! Driver glue for `Model/FsRun.lean` (C09).

Names on the wire are `kind idx` with `kind ∈ chunk | level | target | decoy | input | tsv |
other` (raw atom or encoded string; `idx` is ignored for `input`/`tsv`).  A directory is a
list of `[kind idx token…]` entries (listing order, first binding wins); a final directory is
answered as the sorted list of its effective bindings `[kind idx [token…]]`. -/
namespace Mk.Ops.FsRun
open Mk V Mk.FsRun

def kindStr? : V → Option String
  | atom s => some ((decStr s).getD s)
  | _ => none

def name? (kind : String) (idx : Nat) : Option Name :=
  if kind = "chunk" then some (.chunk idx)
  else if kind = "level" then some (.level idx)
  else if kind = "target" then some (.target idx)
  else if kind = "decoy" then some (.decoy idx)
  else if kind = "input" then some .input
  else if kind = "tsv" then some .inputTsv
  else if kind = "other" then some (.other (toString idx))
  else none

def entry? : V → Option (Name × List Nat)
  | list (k :: i :: toks) => do
      let k ← kindStr? k
      let i ← toNat? i
      let n ← name? k i
      let c ← toks.mapM toNat?
      some (n, c)
  | _ => none

def fs? (v : V) : Option FS := toList? entry? v

def nameKey : Name → Nat × Nat
  | .chunk i => (0, i)
  | .level l => (1, l)
  | .target l => (2, l)
  | .decoy l => (3, l)
  | .input => (4, 0)
  | .inputTsv => (5, 0)
  | .other s => (6, s.toNat?.getD 0)
  | .pchunk p i => (7 + 10 * (p + 1), i)
  | .ptarget p l => (8 + 10 * (p + 1), l)
  | .pdecoy p l => (9 + 10 * (p + 1), l)
  | .temp r l => (10 + 10 * (r + 1), l)
  | .pin j => (11, j)
  | .pinTsv j => (12, j)
  | .model i => (13, i)

/-- kind on the wire; names written under a prefix carry the prefix id in the kind
(`ptarget0 1` = `{prefix 0}.targets.{level 1}`) -/
def nameV (n : Name) : List V :=
  let kind := match n with
    | .chunk _ => "chunk" | .level _ => "level" | .target _ => "target" | .decoy _ => "decoy"
    | .input => "input" | .inputTsv => "tsv" | .other _ => "other"
    | .pchunk p _ => "pchunk" ++ toString p | .ptarget p _ => "ptarget" ++ toString p
    | .pdecoy p _ => "pdecoy" ++ toString p | .temp r _ => "temp" ++ toString r
    | .pin _ => "pin" | .pinTsv _ => "pintsv" | .model _ => "model"
  [atom kind, ofNat (nameKey n).2]

def keyLe (a b : Name × List Nat) : Bool :=
  let ka := nameKey a.1
  let kb := nameKey b.1
  decide (ka.1 < kb.1) || (decide (ka.1 = kb.1) && decide (ka.2 ≤ kb.2))

/-- effective bindings, sorted by (kind, index) -/
def fsV (fs : FS) : V :=
  let names := (fs.map (·.1)).eraseDups
  let eff : FS := names.filterMap (fun n => (FS.get fs n).map (fun c => (n, c)))
  list ((eff.mergeSort keyLe).map (fun e => list (nameV e.1 ++ [ofList ofNat e.2])))

def resultV (r : FS × Outs) : V := list [fsV r.1, ofList (ofList ofNat) r.2]

def opV : Op → V
  | .trunc n _ => list (atom "trunc" :: nameV n)
  | .append n _ => list (atom "append" :: nameV n)
  | .read n => list (atom "read" :: nameV n)
  | .unlink n => list (atom "unlink" :: nameV n)
  | .move s d => list (atom "move" :: (nameV s ++ nameV d))
  | .globRead _ => list [atom "glob", atom "chunk"]

/-- `fsrun <k> <nl> <decoys> [[kind idx token…]…]` → `[[final dir] [outputs]]` of the
`assign_confidence` operation list with the demo data functions -/
def opFsRun (prog : Nat → Nat → Bool → List Op) : List V → Option V
  | [k, nl, d, fs] => do
      let k ← toNat? k
      let nl ← toNat? nl
      let d ← toBool? d
      let fs ← fs? fs
      some (resultV (exec fs [] (prog k nl d)))
  | _ => none

/-- `fsprog <k> <nl> <decoys>` → the operation list `[[op kind idx]…]` (for the comparison with
the traced file operations of the real run) -/
def opFsProg (prog : Nat → Nat → Bool → List Op) : List V → Option V
  | [k, nl, d] => do
      let k ← toNat? k
      let nl ← toNat? nl
      let d ← toBool? d
      some (list ((prog k nl d).map opV))
  | _ => none

/-- `fswellinit <k> <nl> <decoys>` → does the operation list pass the syntactic check? -/
def opFsWellInit (prog : Nat → Nat → Bool → List Op) : List V → Option V
  | [k, nl, d] => do
      let k ← toNat? k
      let nl ← toNat? nl
      let d ← toBool? d
      some (ofBool (wellInit [] (prog k nl d)))
  | _ => none

/-- prefix on the wire: a number, or `none` -/
def pfx? : V → Option (Option Nat)
  | atom "none" => some none
  | v => (toNat? v).map some

/-- collections on the wire: `[[prefix k]…]` -/
def colls? (v : V) : Option (List (Option Nat × Nat)) :=
  toList? (fun e => match e with
    | list [p, k] => do
        let p ← pfx? p
        let k ← toNat? k
        some (p, k)
    | _ => none) v

/-- `fsprogx <prot> <nl> <decoys> <append> [[prefix k]…]` → the operation list of
`assign_confidence` over the collections (`append` = the caller's `append_to_output_file`), or
`reject-valueerror` when the call is refused (`proteins` without a peptide level) -/
def opFsProgX : List V → Option V
  | [pr, nl, d, app, cs] => do
      let pr ← toBool? pr
      let nl ← toNat? nl
      let d ← toBool? d
      let app ← toBool? app
      let cs ← colls? cs
      match demoAssign pr nl d app cs with
      | some prog => some (list (prog.map opV))
      | none => some (atom "reject-valueerror")
  | _ => none

/-- the same for the loop before the fix of F1 (one flag) -/
def opFsProgOldFlag : List V → Option V
  | [pr, nl, d, cs] => do
      let pr ← toBool? pr
      let nl ← toNat? nl
      let d ← toBool? d
      let cs ← colls? cs
      some (list ((demoRunOldFlag pr nl d cs).map opV))
  | _ => none

/-- `fswellinitx <prot> <nl> <decoys> <append> [[prefix k]…]` → does the operation list pass the
check with nothing known at the start?  (`false` = the model itself predicts that leftovers can
reach the results) -/
def opFsWellInitX : List V → Option V
  | [pr, nl, d, app, cs] => do
      let pr ← toBool? pr
      let nl ← toNat? nl
      let d ← toBool? d
      let app ← toBool? app
      let cs ← colls? cs
      some (ofBool (wellInit [] (demoRun pr nl d app cs)))
  | _ => none

/-- kinds with a prefix id (`ptarget0`) as printed by `nameV` -/
def nameX? (kind : String) (idx : Nat) : Option Name :=
  match name? kind idx with
  | some n => some n
  | none =>
    if kind.startsWith "pchunk" then ((kind.drop 6).toNat?).map (fun p => Name.pchunk p idx)
    else if kind.startsWith "ptarget" then ((kind.drop 7).toNat?).map (fun p => Name.ptarget p idx)
    else if kind.startsWith "pdecoy" then ((kind.drop 6).toNat?).map (fun p => Name.pdecoy p idx)
    else if kind.startsWith "temp" then ((kind.drop 4).toNat?).map (fun r => Name.temp r idx)
    else if kind = "pin" then some (.pin idx)
    else if kind = "pintsv" then some (.pinTsv idx)
    else if kind = "model" then some (.model idx)
    else none

def names? (v : V) : Option (List Name) :=
  toList? (fun e => match e with
    | list [k, i] => do
        let k ← kindStr? k
        let i ← toNat? i
        nameX? k i
    | _ => none) v

/-- the names bound in a directory, sorted -/
def fsNamesV (fs : FS) : V :=
  let names := (fs.map (·.1)).eraseDups
  let eff : FS := names.filterMap (fun n => (FS.get fs n).map (fun c => (n, c)))
  list ((eff.mergeSort keyLe).map (fun e => list (nameV e.1)))

/-- `fslistx <prot> <nl> <decoys> <append> [[prefix k]…] [[kind idx]…]` → the files present after
`exec` of the run's operation list in a directory holding exactly the given names (the listing
the model predicts), or `reject-valueerror` -/
def opFsListX : List V → Option V
  | [pr, nl, d, app, cs, ns] => do
      let pr ← toBool? pr
      let nl ← toNat? nl
      let d ← toBool? d
      let app ← toBool? app
      let cs ← colls? cs
      let ns ← names? ns
      let fs : FS := ns.map (fun n => (n, [0]))
      match demoAssign pr nl d app cs with
      | some prog => some (fsNamesV (exec fs [] prog).1)
      | none => some (atom "reject-valueerror")
  | _ => none

/-- `fsrollup <root> <base> [levels…]` → the operation list of the roll-up tool -/
def opFsRollup : List V → Option V
  | [r, b, ls] => do
      let r ← toNat? r
      let b ← toNat? b
      let ls ← toList? toNat? ls
      some (list ((demoRollup r b ls).map opV))
  | _ => none

/-- `fsclimain <verify> [needs…] <prot> <nl> <decoys> [[prefix k]…] <models>` → the operation list
of the command line run -/
def opFsCliMain : List V → Option V
  | [v, needs, pr, nl, d, cs, nm] => do
      let v ← toBool? v
      let needs ← toList? toBool? needs
      let pr ← toBool? pr
      let nl ← toNat? nl
      let d ← toBool? d
      let cs ← colls? cs
      let nm ← toNat? nm
      some (list ((demoCliMain v needs pr nl d cs nm).map opV))
  | _ => none

/-- `fscli [[kind idx token…]…]` → `[[final dir] [outputs]]` of the CLI verify step with
`conv = (· + 1)` on the content read -/
def opFsCli (prog : List Op) : List V → Option V
  | [fs] => do
      let fs ← fs? fs
      some (resultV (exec fs [] prog))
  | _ => none

end Mk.Ops.FsRun

namespace Mk.Ops
open Mk.Ops.FsRun Mk.FsRun
def fsRunOps : List (String × (List V → Option V)) :=
  [("fsrun", opFsRun demoProg), ("fsrunglob", opFsRun demoProgGlob),
   ("fsprog", opFsProg demoProg), ("fsprogglob", opFsProg demoProgGlob),
   ("fswellinit", opFsWellInit demoProg), ("fswellinitglob", opFsWellInit demoProgGlob),
   ("fscli", opFsCli (cliProg demoConv)), ("fscliappend", opFsCli (cliProgAppend demoConv)),
   ("fsprogx", opFsProgX), ("fsprogoldflag", opFsProgOldFlag), ("fswellinitx", opFsWellInitX), ("fslistx", opFsListX),
   ("fsrollup", opFsRollup), ("fsclimain", opFsCliMain)]
end Mk.Ops
