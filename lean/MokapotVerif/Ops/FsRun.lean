import MokapotVerif.Wire
import MokapotVerif.Model.FsRun
/-! Driver glue for `Model/FsRun.lean` (C09).

Names on the wire are `kind idx` with `kind ∈ chunk | level | target | decoy | input | tsv |
other` (raw atom or encoded string; `idx` is ignored for `input`/`tsv`).  A directory is a
list of `[kind idx token…]` entries (listing order, first binding wins); a final directory is
answered as the sorted list of its effective bindings `[kind idx [token…]]`. -/
namespace Mk.Ops.FsRun
open Mk V Mk.FsRun

def kindStr? : V → Option String
  | atom s => some ((decStr s).getD s)
  | _ => none

def name? (kind : String) (idx : Nat) : Option Name :=
  if kind = "chunk" then some (.chunk idx)
  else if kind = "level" then some (.level idx)
  else if kind = "target" then some (.target idx)
  else if kind = "decoy" then some (.decoy idx)
  else if kind = "input" then some .input
  else if kind = "tsv" then some .inputTsv
  else if kind = "other" then some (.other (toString idx))
  else none

def entry? : V → Option (Name × List Nat)
  | list (k :: i :: toks) => do
      let k ← kindStr? k
      let i ← toNat? i
      let n ← name? k i
      let c ← toks.mapM toNat?
      some (n, c)
  | _ => none

def fs? (v : V) : Option FS := toList? entry? v

def nameKey : Name → Nat × Nat
  | .chunk i => (0, i)
  | .level l => (1, l)
  | .target l => (2, l)
  | .decoy l => (3, l)
  | .input => (4, 0)
  | .inputTsv => (5, 0)
  | .other s => (6, s.toNat?.getD 0)

def nameV (n : Name) : List V :=
  let kind := match n with
    | .chunk _ => "chunk" | .level _ => "level" | .target _ => "target" | .decoy _ => "decoy"
    | .input => "input" | .inputTsv => "tsv" | .other _ => "other"
  [atom kind, ofNat (nameKey n).2]

def keyLe (a b : Name × List Nat) : Bool :=
  let ka := nameKey a.1
  let kb := nameKey b.1
  decide (ka.1 < kb.1) || (decide (ka.1 = kb.1) && decide (ka.2 ≤ kb.2))

/-- effective bindings, sorted by (kind, index) -/
def fsV (fs : FS) : V :=
  let names := (fs.map (·.1)).eraseDups
  let eff : FS := names.filterMap (fun n => (FS.get fs n).map (fun c => (n, c)))
  list ((eff.mergeSort keyLe).map (fun e => list (nameV e.1 ++ [ofList ofNat e.2])))

def resultV (r : FS × Outs) : V := list [fsV r.1, ofList (ofList ofNat) r.2]

def opV : Op → V
  | .trunc n _ => list (atom "trunc" :: nameV n)
  | .append n _ => list (atom "append" :: nameV n)
  | .read n => list (atom "read" :: nameV n)
  | .unlink n => list (atom "unlink" :: nameV n)
  | .move s d => list (atom "move" :: (nameV s ++ nameV d))
  | .globRead _ => list [atom "glob", atom "chunk"]

/-- `fsrun <k> <nl> <decoys> [[kind idx token…]…]` → `[[final dir] [outputs]]` of the
`assign_confidence` operation list with the demo data functions -/
def opFsRun (prog : Nat → Nat → Bool → List Op) : List V → Option V
  | [k, nl, d, fs] => do
      let k ← toNat? k
      let nl ← toNat? nl
      let d ← toBool? d
      let fs ← fs? fs
      some (resultV (exec fs [] (prog k nl d)))
  | _ => none

/-- `fsprog <k> <nl> <decoys>` → the operation list `[[op kind idx]…]` (for the comparison with
the traced file operations of the real run) -/
def opFsProg (prog : Nat → Nat → Bool → List Op) : List V → Option V
  | [k, nl, d] => do
      let k ← toNat? k
      let nl ← toNat? nl
      let d ← toBool? d
      some (list ((prog k nl d).map opV))
  | _ => none

/-- `fswellinit <k> <nl> <decoys>` → does the operation list pass the syntactic check? -/
def opFsWellInit (prog : Nat → Nat → Bool → List Op) : List V → Option V
  | [k, nl, d] => do
      let k ← toNat? k
      let nl ← toNat? nl
      let d ← toBool? d
      some (ofBool (wellInit [] (prog k nl d)))
  | _ => none

/-- `fscli [[kind idx token…]…]` → `[[final dir] [outputs]]` of the CLI verify step with
`conv = (· + 1)` on the content read -/
def opFsCli (prog : List Op) : List V → Option V
  | [fs] => do
      let fs ← fs? fs
      some (resultV (exec fs [] prog))
  | _ => none

end Mk.Ops.FsRun

namespace Mk.Ops
open Mk.Ops.FsRun Mk.FsRun
def fsRunOps : List (String × (List V → Option V)) :=
  [("fsrun", opFsRun demoProg), ("fsrunglob", opFsRun demoProgGlob),
   ("fsprog", opFsProg demoProg), ("fsprogglob", opFsProg demoProgGlob),
   ("fswellinit", opFsWellInit demoProg), ("fswellinitglob", opFsWellInit demoProgGlob),
   ("fscli", opFsCli (cliProg demoConv)), ("fscliappend", opFsCli (cliProgAppend demoConv))]
end Mk.Ops
