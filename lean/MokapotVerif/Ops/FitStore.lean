import MokapotVerif.Wire
import MokapotVerif.Model.FitStore
/-! Driver glue for `Model/FitStore.lean` (sessions of `save_model` / foreign writes / `load_model`).

Model states are numbered by the harness (one number per *state* of a Python `Model` object: a re-fit
gives the same object a new number).  File contents: `(true, k)` = the pickle of state `k`;
`(false, 0)` a tab-separated table with two data rows (the probe reads it), `(false, 1)` a text of one
line (`KeyError`, then `pickle.load` refuses), `(false, 2)` an empty file (`EmptyDataError`: not caught),
`(false, 3)` binary bytes that are no pickle (`UnicodeDecodeError`, then `pickle.load` refuses). -/
namespace Mk.Ops.FitStore
open Mk Mk.Fit V

def wirePickle : Pickle (Bool × Nat) Nat :=
  ⟨fun k => (true, k),
   fun b => if b.1 then some b.2 else none,
   fun b => if b.1 then .unicodeError
            else if b.2 = 0 then .row else if b.2 = 1 then .keyError else if b.2 = 2 then .otherError else .unicodeError⟩

def toOp? : V → Option (StoreOp Nat (Bool × Nat) Nat)
  | list [atom "0", m, p] => do pure (.save (← toNat? m) (← toNat? p))
  | list [atom "1", k, p] => do pure (.put (false, ← toNat? k) (← toNat? p))
  | list [atom "2", p] => do pure (.load (← toNat? p))
  | _ => none

def ofLoad : Except LoadErr Nat → V
  | .ok k => ofNat k
  | .error .missing => atom "reject-missing"
  | .error .weightsBranch => atom "reject-weights"
  | .error .unpickle => atom "reject-unpickle"
  | .error .other => atom "reject-other"

/-- `storerun [[0 state path] | [1 kind path] | [2 path] …]` → the results of the loads, in order -/
def opStoreRun : List V → Option V
  | [ops] => do some (ofList ofLoad (storeRun wirePickle [] (← toList? toOp? ops)))
  | _ => none

/-- `storespec …` → the same session answered by the last-write-wins specification -/
def opStoreSpec : List V → Option V
  | [ops] => do some (ofList ofLoad (storeSpecFrom wirePickle [] (← toList? toOp? ops)))
  | _ => none

end Mk.Ops.FitStore

namespace Mk.Ops
open Mk V Mk.Ops.FitStore

def fitStoreOps : List (String × (List V → Option V)) :=
  [("storerun", opStoreRun), ("storespec", opStoreSpec)]

end Mk.Ops
