import MokapotVerif.Wire
import MokapotVerif.Model.Tabular
import MokapotVerif.Model.TabularShared
import MokapotVerif.Ops.Tabular
/-!
Driver glue for `Model/TabularShared.lean`: histories of uses of reader objects over
frames the caller keeps.

    erdr  ::= [src k]                        -- DataFrameReader(frames[k])
            | [mapped erdr [[old new]…]] | [computed erdr name fn] | [computedp erdr name fn]
            | [joined [erdr…]]
            | rdr                             -- any reader of Ops/Tabular.lean (files, …): `extE`
    frame ::= [[name…] [idx…] [[cell…]…]]
    use   ::= [names] | [read cols] | [chunked c cols]
    obs   ::= [names [name…]] | [frame df obj] | [frames [df…]] | raised       obj ::= none | k
-/
namespace Mk.Ops.TabularShared
open Mk Mk.Tabular Mk.Ops.Tabular V

partial def erdr? : V → Option (EReader V)
  | list [atom "src", k] => (toNat? k).map srcE
  | list [atom "mapped", r, m] => do
      let r ← erdr? r
      let m ← toList? (toPair? toStr? toStr?) m
      some (mappedE r m)
  | list [atom "computed", r, n, f] => do
      let r ← erdr? r
      let n ← toStr? n
      let f ← fn? f
      some (computedE r n f)
  | list [atom "computedp", r, n, f] => do
      let r ← erdr? r
      let n ← toStr? n
      let f ← fn? f
      some (computedPE r n f)
  | list [atom "joined", rs] => do
      match rs with
      | list rs =>
        let rs ← rs.mapM erdr?
        some (joinedE rs)
      | _ => none
  | v => (rdr? v).map extE

def frame? : V → Option (DF V)
  | list [ns, idx, ls] => do
      let ns ← names? ns
      let idx ← toList? toNat? idx
      let ls ← toList? (toList? some) ls
      if idx.length ≠ ls.length then none else
      let rows ← ls.mapM (zipRow ns)
      some ⟨ns, idx.zip rows⟩
  | _ => none

def use? : V → Option RUse
  | list [atom "names"] => some RUse.names
  | list [atom "read", cols] => (cols? cols).map RUse.read
  | list [atom "chunked", c, cols] => do
      let c ← toNat? c
      let cols ← cols? cols
      some (RUse.chunked c cols)
  | _ => none

def ofObj (o : Option Nat) : V := o.elim (atom "none") ofNat

def ofObs : RObs V → V
  | RObs.names ns => list [atom "names", ofList ofStr ns]
  | RObs.frame d o => list [atom "frame", ofDF d, ofObj o]
  | RObs.frames chs => list [atom "frames", list (chs.map ofDF)]
  | RObs.raised => atom "raised"

/-- `tab-uses [frame…] [erdr…] [[i use]…]` → `[[obs…] [frame-after…]]` -/
def opUses : List V → Option V
  | [frames, rs, prog] => do
      let st ← toList? frame? frames
      let rs ← toList? erdr? rs
      let prog ← toList? (toPair? toNat? use?) prog
      if prog.all (fun iu => iu.1 < rs.length) then
        let out := runUses rs st prog
        some (list [list (out.1.map ofObs), list (out.2.map ofDF)])
      else none
  | _ => none

end Mk.Ops.TabularShared

namespace Mk.Ops
open Mk.Ops.TabularShared

def tabularSharedOps : List (String × (List V → Option V)) :=
  [("tab-uses", opUses)]

end Mk.Ops
