import MokapotVerif.Wire
import MokapotVerif.Model.PepsKernel
/-! Driver glue for `Model/PepsKernel.lean` (C06, kernel-side composition code). -/
namespace Mk.Ops.PepsKernel
open Mk Mk.V Mk.Peps

def pkRats? (v : V) : Option (List Rat) := toList? toRat? v

/-- `pi0byslope v [decoy_pdf] slope` → `[pi0 last_index no_flank]` -/
def opPi0BySlope : List V → Option V
  | [v, d, s] => do
      let v ← toRat? v
      let d ← pkRats? d
      let s ← toRat? s
      if d.isEmpty then some (atom "reject-value") else
      some (list [ofRat (pi0BySlopeOf v d s), ofNat (pi0LastIndex v d), ofBool (pi0NoFlank v d)])
  | _ => none

/-- `kdepepest pi0 [target_pdf] [decoy_pdf]` → the vector handed to `monotonize_nnls` | `nan` -/
def opKdePepEst : List V → Option V
  | [p, t, d] => do
      let p ← toRat? p
      let t ← pkRats? t
      let d ← pkRats? d
      if t.length != d.length then some (atom "reject-shape") else
      some (match kdePepEstOf p t d with
        | some r => ofList ofRat r
        | none => atom "nan")
  | _ => none

end Mk.Ops.PepsKernel

namespace Mk.Ops
open Mk Mk.V Mk.Ops.PepsKernel

def pepsKernelOps : List (String × (List V → Option V)) :=
  [("pi0byslope", opPi0BySlope), ("kdepepest", opKdePepEst)]

end Mk.Ops
