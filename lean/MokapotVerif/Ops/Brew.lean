import MokapotVerif.Wire
import MokapotVerif.Model.Brew
/-! Driver glue for `Model/Brew.lean`. -/
namespace Mk.Ops.Brew
open Mk V Mk.Brew

def natLists? (v : V) : Option (List (List Nat)) := toList? (toList? toNat?) v

/-- `split <folds> [hashes]` → folds before the in-fold shuffle, or `reject-index` -/
def opSplit : List V → Option V
  | [f, hs] => do
      let f ← toNat? f
      let hs ← toList? toNat? hs
      some (match split hs f with
        | some fs => list (fs.map (ofList ofNat))
        | none => atom "reject-index")
  | _ => none

/-- `brewspec <folds> [hashes] [[fold]…] [[train]…] <capped> [routing]` → violated clauses -/
def opBrewSpec : List V → Option V
  | [f, hs, fs, ts, c, r] => do
      let f ← toNat? f
      let hs ← toList? toNat? hs
      let fs ← natLists? fs
      let ts ← natLists? ts
      let c ← toBool? c
      let r ← toList? toNat? r
      some (ofList ofStr (brewSpecB f hs fs ts c r))
  | _ => none

/-- `route [[fold]…] <n>` → routing vector -/
def opRoute : List V → Option V
  | [fs, n] => do
      let fs ← natLists? fs
      let n ← toNat? n
      some (ofList ofNat (route fs n))
  | _ => none

/-- `caps <cap> <nfiles> [[train sizes per file] per fold]` → expected sizes after sub-sampling -/
def opCaps : List V → Option V
  | [c, k, sz] => do
      let c ← toNat? c
      let k ← toNat? k
      let sz ← natLists? sz
      let caps := perFileCaps c k
      some (list (sz.map (fun sizes =>
        ofList ofNat ((List.range k).map (fun i =>
          if subsampled caps sizes i then caps.getD i 0 else sizes.getD i 0)))))
  | _ => none

/-- `predictid <c> <nfolds> [routing]` → for each row the `(model, row)` that produced its score,
with `score f r = f * 1000000 + r`, identity calibration -/
def opPredictId : List V → Option V
  | [c, k, r] => do
      let c ← toNat? c
      let k ← toNat? k
      let r ← toList? toNat? r
      if c = 0 then some (atom "reject-chunk0") else
      some (ofList ofNat (predict c k (List.range r.length) r (fun f row => f * 1000000 + row)
        (fun _ => true) (fun _ s => s)))
  | _ => none

end Mk.Ops.Brew

namespace Mk.Ops
open Mk.Ops.Brew
def brewOps : List (String × (List V → Option V)) :=
  [("split", opSplit), ("brewspec", opBrewSpec), ("route", opRoute), ("caps", opCaps),
   ("predictid", opPredictId)]
end Mk.Ops
