import MokapotVerif.Wire
import MokapotVerif.Model.GroupingText
/-! Driver glue for `Model/GroupingText.lean`: `read_fasta` from the file contents on.

    grouptext <prefix> <enum> <cls> <notNext> mc lo hi clip semi [filetext…]
        → [[[pep name]…] [[pep sharedvalue]…] [[t d]…] hasDecoys [[groupname [pep…]]…] [[name seq]…]]
          (the Python values: strings as the code hands them out, `protein_map` items in dict order,
          the parsed entries last)  |  reject-indexerror | reject-only-decoys | reject-keyerror
    gpmorder <prefix> [[name [pep…]]…] → [[t d]…]   `protein_map` items in dict order from digested entries
-/
namespace Mk.Ops.GroupingText
open Mk V Mk.Grouping

def str (l : List Char) : String := String.ofList l

def ofPairs (l : List (List Char × List Char)) : V := ofList (fun e => list [ofStr (str e.1), ofStr (str e.2)]) l

def opGrouptext : List V → Option V
  | [pre, en, cls, nn, mc, lo, hi, clip, semi, texts] => do
      let pre ← toStr? pre
      let en ← toNat? en
      let cls ← toStr? cls
      let nn ← toStr? nn
      let mc ← toNat? mc
      let lo ← toNat? lo
      let hi ← toNat? hi
      let clip ← toBool? clip
      let semi ← toBool? semi
      let texts ← toList? toStr? texts
      let files := texts.map String.toList
      let dig : List Char → List Pep := fun s => digest ⟨cls.toList, nn.toList⟩ s mc lo hi clip semi
      let rev := decide (en = 1)
      some (match readFastaText pre.toList rev dig files, parseFastaR files with
        | some (some o), some es =>
          if readFastaTextSafe rev dig files then
            let r := render sortStrs o
            list [ ofPairs r.peptideMap, ofPairs r.shared,
                   ofPairs (decoyMapOrdered (isDecoyPre pre.toList) (mkDecoyPre pre.toList)
                     (buildProteins (digestEntries dig es))),
                   ofBool r.hasDecoys,
                   ofList (fun g => list [ofStr (str g.1), ofList (fun p => ofStr (str p)) g.2]) (renderGroups o.groups),
                   ofPairs es ]
          else atom "reject-keyerror"
        | some none, _ => atom "reject-only-decoys"
        | _, _ => atom "reject-indexerror")
  | _ => none

def opGpmorder : List V → Option V
  | [pre, es] => do
      let pre ← toStr? pre
      let es ← toList? (toPair? toStr? (toList? toStr?)) es
      let es : List (List Char × List String) := es.map (fun e => (e.1.toList, e.2))
      some (ofPairs (decoyMapOrdered (isDecoyPre pre.toList) (mkDecoyPre pre.toList) (buildProteins es)))
  | _ => none

end Mk.Ops.GroupingText

namespace Mk.Ops
open Mk V Mk.Ops.GroupingText

def groupingTextOps : List (String × (List V → Option V)) :=
  [("grouptext", opGrouptext), ("gpmorder", opGpmorder)]

end Mk.Ops
