import MokapotVerif.Wire
import MokapotVerif.Model.ConfidenceInput
/-! Driver glue for `Model/ConfidenceInput.lean`.  Rows on the wire as in `Ops/Confidence.lean`:
`[id spec [keys…] target score]`; a prefix is an integer, `-1` = no prefix. -/
namespace Mk.Ops.ConfInput
open Mk V

def row? : V → Option Row
  | list [i, s, ks, t, sc] => do
      pure { id := ← toNat? i, spec := ← toNat? s, keys := ← toList? toNat? ks,
             target := ← toBool? t, score := ← toInt? sc }
  | _ => none

def rows? (v : V) : Option (List Row) := toList? row? v

def pre? (v : V) : Option (Option Nat) := (toInt? v).map (fun i => if i < 0 then none else some i.toNat)

def coll? : V → Option ConfColl
  | list [p, rs] => do pure { pre := ← pre? p, rows := ← rows? rs }
  | _ => none

def call? : V → Option ConfCall
  | list [a, cs] => do pure { app := ← toBool? a, colls := ← toList? coll? cs }
  | _ => none

def ofPre : Option Nat → V
  | none => ofInt (-1)
  | some p => ofNat p

def ofLines (ls : List ConfLine) : V := ofList (fun (l : ConfLine) => list [ofNat l.1.id, ofRat l.2]) ls

def ofFile (fs : ConfFS) (n : ConfFName) : V :=
  list [ofPre n.pre, ofBool n.decoy, ofNat n.level, (match fs n with
    | none => atom "absent"
    | some ls => ofLines ls)]

/-- the names the calls can touch: every prefix of every call (first occurrences), every level,
targets and decoys -/
def touched (nLevels : Nat) (calls : List ConfCall) : List ConfFName :=
  ((calls.flatMap (·.colls)).map (·.pre)).eraseDups.flatMap fun p =>
    (List.range (nLevels + 1)).flatMap fun l => [⟨p, false, l⟩, ⟨p, true, l⟩]

/-- `levelfilesraw <c> <dedup> <nLevels> <desc> [rows] [scores]` → ids per level file (PSM level
first); the `score` of the rows on the wire is ignored, the score vector is attached chunk-wise -/
def opLevelFilesRaw : List V → Option V
  | [c, d, n, desc, rs, scs] => do
      let c ← toNat? c
      let d ← toBool? d
      let n ← toNat? n
      let desc ← toBool? desc
      let rs ← rows? rs
      let scs ← toList? toInt? scs
      if c = 0 then some (atom "reject-chunk0") else
      match confidenceLevelFilesRaw c d n desc rs scs with
      | none => some (atom "reject-raises")
      | some lvs => some (list (lvs.map (fun lv => ofList (fun (r : Row) => list [ofNat r.id, ofInt r.score]) lv)))
  | _ => none

/-- `confcalls <c> <dedup> <nLevels> <decoys> [[app [[prefix [rows]]…]]…]` → the touched files
after all calls, starting from an empty directory -/
def opConfCalls : List V → Option V
  | [c, d, n, dec, cs] => do
      let c ← toNat? c
      let d ← toBool? d
      let n ← toNat? n
      let dec ← toBool? dec
      let cs ← toList? call? cs
      if c = 0 then some (atom "reject-chunk0") else
      match confRunCalls c d dec n cs (fun _ => none) with
      | none => some (atom "reject-raises")
      | some fs => some (list ((touched n cs).map (ofFile fs)))
  | _ => none

def name? (v : V) : Option RollupName := (toStr? v).map String.toList
def ofName (n : RollupName) : V := ofStr (String.ofList n)

/-- `rolluprunb <buffer> <base> [cols] [cands] [[rows] …targets files] [[rows] …decoys files]`
→ `[[level target-lines decoy-lines]…]`, temporary level files written through a buffer -/
def opRollupRunB : List V → Option V
  | [b, base, cols, cands, ts, ds] => do
      let b ← toNat? b
      let base ← name? base
      let cols ← toList? name? cols
      let cands ← toList? name? cands
      let ts ← toList? rows? ts
      let ds ← toList? rows? ds
      match rollupRunB b rollupDefaultParents base cols cands ts ds with
      | .error e => some (atom ("reject-" ++ e))
      | .ok outs => some (list (outs.map (fun o => list [ofName o.level, ofLines o.targets, ofLines o.decoys])))
  | _ => none

end Mk.Ops.ConfInput

namespace Mk.Ops
open Mk.Ops.ConfInput
def confidenceInputOps : List (String × (List V → Option V)) :=
  [("levelfilesraw", opLevelFilesRaw), ("confcalls", opConfCalls), ("rolluprunb", opRollupRunB)]
end Mk.Ops
