import MokapotVerif.Wire
import MokapotVerif.Model.Tabular
import MokapotVerif.Model.TabularShared
/-!
Driver glue for `Model/Tabular.lean`.  Cells are opaque wire values.

    rdr  ::= [csv [name…] [[cell…]…]]
           | [pq [name…] [[[cell…]…]…]]            -- row groups
           | [frame [name…] [idx…] [[cell…]…]]
           | [series sname name|none [idx…] [cell…]]   -- DataFrameReader.from_series
           | [array name [cell…]]                      -- DataFrameReader.from_array
           | [mapped rdr [[old new]…]]
           | [joined [rdr…]]
           | [computed rdr name fn]
           | [computedp rdr name fn]               -- the class as it is since c6f4cd0: accepts cols = none ([computed …]: the class before)
    fn   ::= [const cell] | [affine a b] | [addcol name a]
    cols ::= none | [name…]
    arg  ::= [frame [name…] [row…]] | [dict row] | [dicts [row…]] | [record row]
    row  ::= [[name cell]…]
    wspec ::= [csv [col…] size kind sep old] | [pq [col…] size kind]
    old  ::= none | [sep [name…] [[cell…]…]]
-/
namespace Mk.Ops.Tabular
open Mk Mk.Tabular V

def names? (v : V) : Option (List Name) := toList? toStr? v

def cols? : V → Option (Option (List Name))
  | atom "none" => some none
  | v => (names? v).map some

def cellInt? : V → Option Int
  | atom s => (String.ofList (s.toList.drop 1)).toInt?
  | _ => none

def ofCellInt (i : Int) : V := atom ("i" ++ toString i)

/-- the computed-column functions the harness can ask for -/
def fn? : V → Option (Nat → Row V → V)
  | list [atom "const", v] => some (fun _ _ => v)
  | list [atom "affine", a, b] => do
      let a ← toInt? a
      let b ← toInt? b
      some (fun i _ => ofCellInt (a * i + b))
  | list [atom "addcol", n, a] => do
      let n ← toStr? n
      let a ← toInt? a
      some (fun i r => match (r.lookup n).bind cellInt? with
        | some x => ofCellInt (x + a * i)
        | none => atom "keyerror")
  | _ => none

def zipRow (names : List Name) (cells : List V) : Option (Row V) :=
  if names.length = cells.length then some (names.zip cells) else none

partial def rdr? : V → Option (Reader V)
  | list [atom "csv", ns, ls] => do
      let ns ← names? ns
      let ls ← toList? (toList? some) ls
      if ls.all (fun l => l.length = ns.length) then some (csvReader ⟨ns, ls⟩) else none
  | list [atom "pq", ns, gs] => do
      let ns ← names? ns
      let gs ← toList? (toList? (toList? some)) gs
      if gs.all (fun g => g.all (fun l => l.length = ns.length)) then some (pqReader ⟨ns, gs⟩) else none
  | list [atom "frame", ns, idx, ls] => do
      let ns ← names? ns
      let idx ← toList? toNat? idx
      let ls ← toList? (toList? some) ls
      if idx.length ≠ ls.length then none else
      let rows ← ls.mapM (zipRow ns)
      some (frameReader ⟨ns, idx.zip rows⟩)
  | list [atom "series", sn, n, idx, cells] => do
      let sn ← toStr? sn
      let n ← (match n with | atom "none" => some none | v => (toStr? v).map some)
      let idx ← toList? toNat? idx
      let cells ← toList? some cells
      if idx.length ≠ cells.length then none else
      some (seriesReader sn n (idx.zip cells))
  | list [atom "array", n, cells] => do
      let n ← toStr? n
      let cells ← toList? some cells
      some (arrayReader n cells)
  | list [atom "mapped", r, m] => do
      let r ← rdr? r
      let m ← toList? (toPair? toStr? toStr?) m
      some (mappedReader r m)
  | list [atom "joined", rs] => do
      match rs with
      | list rs =>
        let rs ← rs.mapM rdr?
        some (joinedReader rs)
      | _ => none
  | list [atom "computed", r, n, f] => do
      let r ← rdr? r
      let n ← toStr? n
      let f ← fn? f
      some (computedReader r n f)
  | list [atom "computedp", r, n, f] => do
      let r ← rdr? r
      let n ← toStr? n
      let f ← fn? f
      some (computedReaderP r n f)
  | _ => none

def ofRow (r : Row V) : V := list (r.map (fun p => list [ofStr p.1, p.2]))
def ofDF (d : DF V) : V :=
  list [ofList ofStr d.names, list (d.rows.map (fun ir => list [ofNat ir.1, ofRow ir.2]))]

def reject : V := atom "reject"

/-- `tab-names rdr` -/
def opNames : List V → Option V
  | [r] => do
      let r ← rdr? r
      some (ofList ofStr r.names)
  | _ => none

/-- `tab-read rdr cols` → frame or `reject` -/
def opRead : List V → Option V
  | [r, cols] => do
      let r ← rdr? r
      let cols ← cols? cols
      some ((r.read cols).elim reject ofDF)
  | _ => none

/-- `tab-chunked rdr c cols` → list of frames or `reject` -/
def opChunked : List V → Option V
  | [r, c, cols] => do
      let r ← rdr? r
      let c ← toNat? c
      let cols ← cols? cols
      some ((r.chunked c cols).elim reject (fun chs => list (chs.map ofDF)))
  | _ => none

/-- `tab-chunks c [x…]` → reference chunking -/
def opChunks : List V → Option V
  | [c, list xs] => do
      let c ← toNat? c
      some (list ((chunks c xs).map list))
  | _ => none

/-- `tab-spec-select cols [name…] [idx…] [[cell…]…]` → the specified result of reading
the table with that column selection (or `reject` for unknown columns) -/
def opSpecSelect : List V → Option V
  | [cols, ns, idx, ls] => do
      let cols ← cols? cols
      let ns ← names? ns
      let idx ← toList? toNat? idx
      let ls ← toList? (toList? some) ls
      if idx.length ≠ ls.length then none else
      let rows ← ls.mapM (zipRow ns)
      some (if colsOK ns cols then ofDF (selectDF cols ⟨ns, idx.zip rows⟩) else reject)
  | _ => none

def row? (v : V) : Option (Row V) := toList? (toPair? toStr? some) v

def arg? : V → Option (Arg V)
  | list [atom "frame", ns, rows] => do
      let ns ← names? ns
      let rows ← toList? row? rows
      some (.frame ⟨ns, rows⟩)
  | list [atom "dict", r] => (row? r).map .dict
  | list [atom "dicts", rs] => (toList? row? rs).map .dictList
  | list [atom "record", r] => (row? r).map .record
  | _ => none

def kind? : V → Option Kind
  | atom "dataframe" => some .dataframe
  | atom "dicts" => some .dicts
  | atom "records" => some .records
  | _ => none

def csvFile? : V → Option (Option (CsvFile V))
  | atom "none" => some none
  | list [ns, ls] => do
      let ns ← names? ns
      let ls ← toList? (toList? some) ls
      some (some ⟨ns, ls⟩)
  | _ => none

/-- `tab-wr-csv [col…] size kind old [arg…]` → `[file-as-read-back [line count]]`:
run `initialize / append_data… / finalize` on the writer that `from_suffix`
returns, over a file that previously held `old`, and read the result back with
the associated reader -/
def opWrCsv : List V → Option V
  | [cs, size, k, old, args] => do
      let cs ← names? cs
      let size ← toNat? size
      let k ← kind? k
      let old ← csvFile? old
      let args ← toList? arg? args
      some (match runFromSuffix (csvWriter cs) k size old args with
        | some disk => (match (csvDiskReader disk).bind (fun r => r.read none) with
            | some d => ofDF d
            | none => atom "reject-read")
        | none => reject)
  | _ => none

/-- `tab-wr-pq [col…] size kind [arg…]` → `[file-as-read-back [row group sizes]]` -/
def opWrPq : List V → Option V
  | [cs, size, k, args] => do
      let cs ← names? cs
      let size ← toNat? size
      let k ← kind? k
      let args ← toList? arg? args
      some (match runFromSuffix (pqWriter cs) k size (none : Option (PqDisk V)) args with
        | some disk => (match (pqDiskReader disk).bind (fun r => r.read none), disk with
            | some d, some pd => list [ofDF d, ofList ofNat (pd.file.groups.map List.length)]
            | _, _ => atom "reject-read")
        | none => reject)
  | _ => none

/-- `tab-emitted size [[x…]…]` → the batches a buffered writer hands on -/
def opEmitted : List V → Option V
  | [size, args] => do
      let size ← toNat? size
      let args ← toList? (toList? some) args
      some (list ((emitted size args).map list))
  | _ => none

/-! ### extension: one-shot `write`, writer objects under `auto_finalize`, separators -/

def wframe? : V → Option (WFrame V)
  | list [ns, rows] => do
      let ns ← names? ns
      let rows ← toList? row? rows
      some ⟨ns, rows⟩
  | _ => none

def pqBack (disk : Option (PqDisk V)) : V :=
  match (pqDiskReader disk).bind (fun r => r.read none), disk with
  | some d, some pd => list [ofDF d, ofList ofNat (pd.file.groups.map List.length)]
  | _, _ => atom "reject-read"

/-- `tab-write1 csv|pq [col…] size old [[name…] [row…]]` → what the associated reader
reads back after `from_suffix(…, buffer_size=size).write(frame)` (`old`: previous
content of a text file, `none` otherwise) -/
def opWrite1 : List V → Option V
  | [atom "csv", cs, size, old, f] => do
      let cs ← names? cs
      let size ← toNat? size
      let old ← csvFile? old
      let f ← wframe? f
      some (match writeFromSuffix (csvWrite1 cs) size old f with
        | some disk => (match (csvDiskReader disk).bind (fun r => r.read none) with
            | some d => ofDF d
            | none => atom "reject-read")
        | none => reject)
  | [atom "pq", cs, size, _old, f] => do
      let cs ← names? cs
      let size ← toNat? size
      let f ← wframe? f
      some (match writeFromSuffix (pqWrite1 cs) size (none : Option (PqDisk V)) f with
        | some disk => pqBack disk
        | none => reject)
  | _ => none

abbrev Store := Option (SepFile V) ⊕ Option (PqDisk V)

def inlWriter (w : Writer (Option (SepFile V)) V) : Writer Store V where
  init := fun s => match s with | .inl a => (w.init a).map Sum.inl | .inr _ => none
  append := fun s f => match s with | .inl a => (w.append a f).map Sum.inl | .inr _ => none
  fin := fun s => match s with | .inl a => (w.fin a).map Sum.inl | .inr _ => none

def inrWriter (w : Writer (Option (PqDisk V)) V) : Writer Store V where
  init := fun s => match s with | .inr a => (w.init a).map Sum.inr | .inl _ => none
  append := fun s f => match s with | .inr a => (w.append a f).map Sum.inr | .inl _ => none
  fin := fun s => match s with | .inr a => (w.fin a).map Sum.inr | .inl _ => none

def sepFile? : V → Option (Option (SepFile V))
  | atom "none" => some none
  | list [sep, ns, ls] => do
      let sep ← toStr? sep
      let ns ← names? ns
      let ls ← toList? (toList? some) ls
      some (some ⟨sep, ⟨ns, ls⟩⟩)
  | _ => none

/-- a writer spec: the writer object with its initial state, and how its file is read back -/
def wspec? : V → Option ((Sess (Option (WFrame V) × Store) V × (Option (WFrame V) × Store)) × (Store → V))
  | list [atom "csv", cs, size, k, sep, old] => do
      let cs ← names? cs
      let size ← toNat? size
      let k ← kind? k
      let sep ← toStr? sep
      let old ← sepFile? old
      some ((fromSuffixSess (inlWriter (csvWriterSep cs sep)) k size, (none, Sum.inl old)),
        fun st => match st with
          | .inl disk => (match (csvAssocReader sep disk).bind (fun r => r.read none) with
              | some d => ofDF d
              | none => atom "reject-read")
          | .inr _ => atom "reject-read")
  | list [atom "pq", cs, size, k] => do
      let cs ← names? cs
      let size ← toNat? size
      let k ← kind? k
      some ((fromSuffixSess (inrWriter (pqWriter cs)) k size, (none, Sum.inr none)),
        fun st => match st with
          | .inr disk => pqBack disk
          | .inl _ => atom "reject-read")
  | _ => none

/-- `tab-auto [wspec…] [[i arg]…]` → per writer, what its associated reader reads back
after `with auto_finalize(writers): writers[i].append_data(arg); …`, or `reject` -/
def opAuto : List V → Option V
  | [specs, prog] => do
      let specs ← toList? wspec? specs
      let prog ← toList? (toPair? toNat? arg?) prog
      some (match runAuto (specs.map (fun s => s.1)) prog with
        | some out => list ((specs.zip out).map (fun so => so.1.2 so.2.2))
        | none => reject)
  | _ => none

/-! ### second pass: programs of calls on several writer objects for one file -/

def call? : V → Option (Call V)
  | atom "init" => some .init
  | atom "fin" => some .fin
  | list [atom "app", a] => (arg? a).map .app
  | list [atom "write", f] => (wframe? f).map .write
  | _ => none

def obj? : V → Option (Kind × Nat)
  | list [k, size] => do
      let k ← kind? k
      let size ← toNat? size
      some (k, size)
  | _ => none

/-- `tab-calls csv|pq [col…] [[kind size]…] old [[j call]…]` → what the associated reader
reads back after the program of calls `objs[j].<call>` on writer objects created by
`from_suffix` for one file (`call ::= init | fin | [app arg] | [write [[name…] [row…]]]`),
or `reject` when a call raises -/
def opCalls : List V → Option V
  | [atom "csv", cs, objs, old, calls] => do
      let cs ← names? cs
      let objs ← toList? obj? objs
      let old ← csvFile? old
      let calls ← toList? (toPair? toNat? call?) calls
      some (match runCalls (csvWriter cs) (csvWrite1 cs) objs old calls with
        | some st => (match (csvDiskReader st.2).bind (fun r => r.read none) with
            | some d => ofDF d
            | none => atom "reject-read")
        | none => reject)
  | [atom "pq", cs, objs, _old, calls] => do
      let cs ← names? cs
      let objs ← toList? obj? objs
      let calls ← toList? (toPair? toNat? call?) calls
      some (match runCalls (pqWriter cs) (pqWrite1 cs) objs (none : Option (PqDisk V)) calls with
        | some st => pqBack st.2
        | none => reject)
  | _ => none

end Mk.Ops.Tabular

namespace Mk.Ops
open Mk.Ops.Tabular

def tabularOps : List (String × (List V → Option V)) :=
  [("tab-names", opNames), ("tab-read", opRead), ("tab-chunked", opChunked), ("tab-chunks", opChunks),
   ("tab-spec-select", opSpecSelect), ("tab-wr-csv", opWrCsv), ("tab-wr-pq", opWrPq), ("tab-emitted", opEmitted),
   ("tab-write1", opWrite1), ("tab-auto", opAuto), ("tab-calls", opCalls)]

end Mk.Ops
