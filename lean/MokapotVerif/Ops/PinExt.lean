import MokapotVerif.Wire
import MokapotVerif.Model.PinExt
import MokapotVerif.Ops.Pin
/-! Driver glue for `Model/PinExt.lean` (wire format of tables, cells, arguments
and datasets as in `Ops/Pin.lean`).  A label cell of a float column is the
two-element list `[num den]`. -/
namespace Mk.Ops.PinExt
open Mk V Mk.Pin Mk.Ops.Pin

def ofResult (x : Except PinErr Dataset) : V :=
  match x with
  | .ok d => ofDataset d
  | .error e => atom (errName e)

/-- `pin-spec-args [args] table` → `[admissible? spec-dataset]` (the declarative specification of a
call with keyword arguments, evaluated independently of the model) -/
def opPinSpecArgs : List V → Option V
  | [a, t] => do
      let args ← toArgs? a
      let t ← toTable? t
      some (list [ofBool (wellFormedArgsB args t), ofDataset (specDatasetArgs args t)])
  | _ => none

/-- `pin-files [args] c r one|many [table ...]` → the list of datasets or `reject-<kind>` -/
def opPinFiles : List V → Option V
  | [a, c, r, atom form, ts] => do
      let args ← toArgs? a
      let c ← toNat? c
      let r ← toNat? r
      let ts ← toList? toTable? ts
      let files ← (if form == "one" then (ts.head?).map PinFiles.one else some (PinFiles.many ts))
      match readPin args c r files with
      | .ok ds => some (ofList ofDataset ds)
      | .error e => some (atom (errName e))
  | _ => none

/-- `pin-index [args] c r table` → the row index of the spectra data frame or `reject-<kind>` -/
def opPinIndex : List V → Option V
  | [a, c, r, t] => do
      let args ← toArgs? a
      let c ← toNat? c
      let r ← toNat? r
      let t ← toTable? t
      match spectraIndex args c r t with
      | .ok ix => some (ofList ofNat ix)
      | .error e => some (atom (errName e))
  | _ => none

def toLCell? : V → Option LCell
  | list [n, d] => do
      let n ← toInt? n
      let d ← toNat? d
      some (.frac n d)
  | v => (toCell? v).map LCell.ofCell

/-- `pin-labels [cell ...]` → `[result admissible?]`: `convert_targets_column` on a label column that
may hold floats (`[num den]`); result = the target flags or `reject-<kind>` -/
def opPinLabels : List V → Option V
  | [cs] => do
      let cells ← toList? toLCell? cs
      let res := match convertTargetsNum cells with
        | .ok bs => ofList ofBool bs
        | .error e => atom (errName e)
      some (list [res, ofBool (labelOkNum cells)])
  | _ => none

end Mk.Ops.PinExt

namespace Mk.Ops
open Mk V Mk.Ops.PinExt

def pinExtOps : List (String × (List V → Option V)) :=
  [("pin-spec-args", opPinSpecArgs), ("pin-files", opPinFiles), ("pin-index", opPinIndex),
   ("pin-labels", opPinLabels)]

end Mk.Ops
