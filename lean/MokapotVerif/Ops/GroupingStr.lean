import MokapotVerif.Wire
import MokapotVerif.Model.Grouping
import MokapotVerif.Model.GroupingExt
import MokapotVerif.Model.GroupingStr
/-! Driver glue for `Model/GroupingStr.lean`: the Python values (strings) `read_fasta` and
`_group_proteins` hand out.  Names are turned into character lists, peptides stay strings.

    grender  <prefix> <enum> [[name [pep…]]…]          → [[[pep name]…] [[pep sharedvalue]…] [[name [pep…]]…] [[t d]…] hasDecoys]
    gdrender <enum> [[name [pep…]]…] [[pep [name…]]…]  → [[[name [pep…]]…] [[pep [name…]]…]]
    gcons    [[name [pep…]]…]                          → T/F  entries of one name carry one peptide set
-/
namespace Mk.Ops.GroupingStr
open Mk V Mk.Grouping

def prots? (v : V) : Option (List (List Char × List String)) :=
  (toList? (toPair? toStr? (toList? toStr?)) v).map (fun l => l.map (fun e => (e.1.toList, e.2)))

def str (l : List Char) : String := String.ofList l

def ofItems (l : List (String × List Char)) : V := ofList (fun e => list [ofStr e.1, ofStr (str e.2)]) l

/-- `grender`: the model of `read_fasta` (stable sorts of the code, decoy test by prefix; enum 0 = match
sets in insertion order, 1 = reversed) with its result rendered as the strings of the code -/
def opGrender : List V → Option V
  | [pre, en, es] => do
      let pre ← toStr? pre
      let en ← toNat? en
      let es ← prots? es
      let enum : Nat → List (GKey (List Char)) → List (GKey (List Char)) :=
        fun _ s => if en = 1 then s.reverse else s
      let srt := sortProteins (buildProteins es)
      some (match readFastaOf (isDecoyPre pre.toList) (mkDecoyPre pre.toList) enum es srt with
        | some o =>
          if groupGoSafe enum ⟨[], pepmap0 es⟩ srt then
            let r := render sortStrs o
            list [ ofItems r.peptideMap, ofItems r.shared,
                   ofList (fun g => list [ofStr (str g.1), ofList ofStr g.2]) (renderGroups o.groups),
                   ofList (fun e => list [ofStr (str e.1), ofStr (str e.2)]) r.proteinMap,
                   ofBool r.hasDecoys ]
          else atom "reject-keyerror"
        | none => atom "reject-only-decoys")
  | _ => none

/-- `gdrender`: both return values of the model of `_group_proteins` with string keys / names -/
def opGdrender : List V → Option V
  | [en, ps, pm] => do
      let en ← toNat? en
      let ps ← prots? ps
      let pm ← toList? (toPair? toStr? (toList? toStr?)) pm
      let pm : List (String × List (List Char)) := pm.map (fun e => (e.1, e.2.map String.toList))
      let rev := decide (en = 1)
      some (if groupProteinsSafe rev ps pm then
          let st := groupProteins rev ps pm
          list [ ofList (fun g => list [ofStr (str g.1), ofList ofStr g.2]) (renderGroups st.grouped),
                 ofList (fun e => list [ofStr e.1, ofList (fun k => ofStr (str (nameOf k))) e.2]) st.pepmap ]
        else atom "reject-keyerror")
  | _ => none

/-- `gcons`: do entries of the same name (with peptides) carry the same peptide set? -/
def opGcons : List V → Option V
  | [es] => do
      let es ← prots? es
      some (ofBool (consistentB es))
  | _ => none

end Mk.Ops.GroupingStr

namespace Mk.Ops
open Mk V Mk.Ops.GroupingStr

def groupingStrOps : List (String × (List V → Option V)) :=
  [("grender", opGrender), ("gdrender", opGdrender), ("gcons", opGcons)]

end Mk.Ops
