import MokapotVerif.Wire
import MokapotVerif.Model.Qvalues
import MokapotVerif.Model.QvaluesArr
import MokapotVerif.Model.QvaluesKey
import MokapotVerif.Model.QvaluesCnt
/-! Driver glue for `Model/QvaluesCnt.lean` (count type explicit; the formula on a histogram). -/
namespace Mk.Ops.QvaluesCnt
open Mk Mk.Qv V

def scoreArr? : V → V → Option ScoreArr
  | atom "float", xs => (toList? toRat? xs).map ScoreArr.floats
  | atom "int", xs => (toList? toInt? xs).map ScoreArr.ints
  | _, _ => none

def labelArr? : V → V → Option LabelArr
  | atom "bool", xs => (toList? toBool? xs).map LabelArr.bools
  | atom "int", xs => (toList? toInt? xs).map LabelArr.ints
  | atom "float", xs => (toList? toRat? xs).map LabelArr.floats
  | _, _ => none

def countType? : V → V → Option (Nat → Nat)
  | atom "i64", _ => some cntI64
  | atom "f32", _ => some roundNat24
  | atom "nat", _ => some id
  | atom "sat", b => (toNat? b).map cntSat
  | _, _ => none

def blocks? (v : V) : Option (List (Blk Rat)) := toList? (toPair? toRat? (toPair? toNat? toNat?)) v

/-- `tdccnt <i64|f32|nat|sat> <B> <desc> <float|int> [score ...] <bool|int|float> [label ...]` →
`tdc` as called with the count dtype explicit -/
def opTdcCnt : List V → Option V
  | [m, b, d, sk, ss, lk, ls] => do
      let ρ ← countType? m b
      let desc ← toBool? d
      let scores ← scoreArr? sk ss
      let labels ← labelArr? lk ls
      some (match tdcEntryR ρ desc scores labels with
        | .ok (some q) => ofList ofRat q
        | .ok none => atom "fail"
        | .error .notBoolean => atom "reject-labels"
        | .error .lengthMismatch => atom "reject-length")
  | _ => none

/-- `qblocks <desc> [[score [targets decoys]] ...]` → the defining formula on the histogram, one
q-value per row -/
def opQBlocks : List V → Option V
  | [d, bs] => do
      let desc ← toBool? d
      let bs ← blocks? bs
      some (ofList ofRat (qBlocks (dirLe leqQ desc) bs))
  | _ => none

/-- `labelsblocks <desc> <thr> [[score [targets decoys]] ...]` → the training label of the targets
of each row (decoys are -1) -/
def opLabelsBlocks : List V → Option V
  | [d, t, bs] => do
      let desc ← toBool? d
      let thr ← toRat? t
      let bs ← blocks? bs
      some (ofList ofInt ((qBlocks (dirLe leqQ desc) bs).map (labelOf thr true)))
  | _ => none

/-- `cumcount <i64|f32|nat|sat> <B> <start> <k>` → the running count after `k` more targets -/
def opCumCount : List V → Option V
  | [m, b, s, k] => do
      let ρ ← countType? m b
      let s ← toNat? s
      let k ← toNat? k
      some (ofNat ((cumsumByR ρ targetInd s (List.replicate k true)).getLastD s))
  | _ => none

end Mk.Ops.QvaluesCnt

namespace Mk.Ops
open Mk V

def qvaluesCntOps : List (String × (List V → Option V)) :=
  [("tdccnt", QvaluesCnt.opTdcCnt), ("qblocks", QvaluesCnt.opQBlocks),
   ("labelsblocks", QvaluesCnt.opLabelsBlocks), ("cumcount", QvaluesCnt.opCumCount)]

end Mk.Ops
