import MokapotVerif.Wire
import MokapotVerif.Model.TdcExt
/-! Driver glue for `Model/TdcExt.lean`.  A row on the wire is `[id spec [keys…] target score]`. -/
namespace Mk.Ops.TdcExt
open Mk V Mk.TdcX

def row? : V → Option Row
  | list [i, s, ks, t, sc] => do
      pure { id := ← toNat? i, spec := ← toNat? s, keys := ← toList? toNat? ks,
             target := ← toBool? t, score := ← toInt? sc }
  | _ => none

def files? (v : V) : Option (List (List Row)) := toList? (toList? row?) v

def ids (rs : List Row) : V := ofList (fun r => ofNat r.id) rs

def levelsOut : Option (List (List Row)) → V
  | some lv => list (lv.map ids)
  | none => atom "reject-raises"

/-- `tdcrollup <nLevels> [[target file rows]…] [[decoy file rows]…]` → `[[ids of level 0] …]`,
or `reject-raises` -/
def opRollup : List V → Option V
  | [n, tf, df] => do
      let n ← toNat? n
      let tf ← files? tf
      let df ← files? df
      some (levelsOut (rollupToolFiles n tf df))
  | _ => none

/-- `tdcensemble <c> [[raw scores of model 0 per row] [model 1] …]` → the ensemble scores -/
def opEnsemble : List V → Option V
  | [c, tab] => do
      let c ← toNat? c
      let tab ← toList? (toList? toRat?) tab
      if c = 0 then some (atom "reject-chunk0") else
      let n := (tab.headD []).length
      some (ofList ofRat (predictEnsemble c (List.range n) tab.length
        (fun f p => (tab.getD f []).getD p 0)))
  | _ => none

/-- `tdcsortfold [fold attribute of the given models…]` → positions of the given models in the
order in which `brew` uses them -/
def opSortFold : List V → Option V
  | [fs] => do
      let fs ← toList? toNat? fs
      some (ofList ofNat ((sortByFold (fs.zipIdx)).map (·.2)))
  | _ => none

/-- `tdcfdp <a> [incorrect ids] [level rows]` → `[[accepted ids] fdp]` -/
def opFdp : List V → Option V
  | [a, bad, rs] => do
      let a ← toRat? a
      let bad ← toList? toNat? bad
      let rs ← toList? row? rs
      if rs.isEmpty then some (list [list [], ofRat 0]) else
      some (list [ids (acceptedRows a rs), ofRat (levelFDP (fun i => bad.contains i) a rs)])
  | _ => none

end Mk.Ops.TdcExt

namespace Mk.Ops
open Mk.Ops.TdcExt
def tdcExtOps : List (String × (List V → Option V)) :=
  [("tdcrollup", opRollup), ("tdcensemble", opEnsemble), ("tdcsortfold", opSortFold), ("tdcfdp", opFdp)]
end Mk.Ops
