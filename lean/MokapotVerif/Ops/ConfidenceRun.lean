import MokapotVerif.Wire
import MokapotVerif.Model.ConfidenceRun
import MokapotVerif.Model.ConfidenceRollup
/-! Driver glue for `Model/ConfidenceBatch.lean`, `Model/ConfidenceRun.lean` and
`Model/ConfidenceRollup.lean`.  Rows on the wire as in `Ops/Confidence.lean`:
`[id spec [keys…] target score]`; a prefix is an integer, `-1` = no prefix. -/
namespace Mk.Ops.ConfRun
open Mk V

def row? : V → Option Row
  | list [i, s, ks, t, sc] => do
      pure { id := ← toNat? i, spec := ← toNat? s, keys := ← toList? toNat? ks,
             target := ← toBool? t, score := ← toInt? sc }
  | _ => none

def rows? (v : V) : Option (List Row) := toList? row? v

def pre? (v : V) : Option (Option Nat) := (toInt? v).map (fun i => if i < 0 then none else some i.toNat)

def coll? : V → Option ConfColl
  | list [p, rs] => do pure { pre := ← pre? p, rows := ← rows? rs }
  | _ => none

def ofPre : Option Nat → V
  | none => ofInt (-1)
  | some p => ofNat p

def ofLines (ls : List ConfLine) : V := ofList (fun (l : ConfLine) => list [ofNat l.1.id, ofRat l.2]) ls

def ofFile (fs : ConfFS) (n : ConfFName) : V :=
  list [ofPre n.pre, ofBool n.decoy, ofNat n.level, (match fs n with
    | none => atom "absent"
    | some ls => ofLines ls)]

/-- the names a call can touch: every prefix (first occurrences), every level, targets and —
listed also when `decoys` is off, to show that they stay absent — decoys -/
def touched (nLevels : Nat) (colls : List ConfColl) : List ConfFName :=
  (colls.map (·.pre)).eraseDups.flatMap fun p =>
    (List.range (nLevels + 1)).flatMap fun l => [⟨p, false, l⟩, ⟨p, true, l⟩]

/-- `confrun <c> <dedup> <nLevels> <decoys> [[prefix [rows]]…]` → `[[prefix decoy level lines]…]`
on an empty directory -/
def opConfRun : List V → Option V
  | [c, d, n, dec, cs] => do
      let c ← toNat? c
      let d ← toBool? d
      let n ← toNat? n
      let dec ← toBool? dec
      let cs ← toList? coll? cs
      if c = 0 then some (atom "reject-chunk0") else
      match confRunAll c d dec n false cs (fun _ => none) with
      | none => some (atom "reject-raises")
      | some st => some (list ((touched n cs).map (ofFile st.1)))
  | _ => none

/-- `levelfiles <c> <dedup> <nLevels> [rows]` → ids per level file (PSM level first), through the
modelled `merge_sort` and the batched scan -/
def opLevelFiles : List V → Option V
  | [c, d, n, rs] => do
      let c ← toNat? c
      let d ← toBool? d
      let n ← toNat? n
      let rs ← rows? rs
      if c = 0 then some (atom "reject-chunk0") else
      match confidenceLevelFiles c d n rs with
      | none => some (atom "reject-raises")
      | some lvs => some (list (lvs.map (fun lv => ofList (fun (r : Row) => ofNat r.id) lv)))
  | _ => none

def name? (v : V) : Option RollupName := (toStr? v).map String.toList
def ofName (n : RollupName) : V := ofStr (String.ofList n)

def parents? (v : V) : Option (List (RollupName × RollupName)) := toList? (toPair? name? name?) v

/-- `rolluplevels <base> [[child parent]…]` → level names -/
def opRollupLevels : List V → Option V
  | [b, ps] => do
      let b ← name? b
      let ps ← parents? ps
      some (ofList ofName (rollupLevelNames ps b))
  | _ => none

/-- `rollupdefault` → the model's `DEFAULT_PARENT_LEVELS`, the accepted `--level` values and
`STANDARD_COLUMN_NAME_MAP` -/
def opRollupDefault : List V → Option V
  | [] => some (list [ofList (fun (cp : RollupName × RollupName) => list [ofName cp.1, ofName cp.2]) rollupDefaultParents,
                      ofList ofName rollupCliLevels,
                      ofList (fun (cp : RollupName × RollupName) => list [ofName cp.1, ofName cp.2]) rollupStdMap])
  | _ => none

/-- `rolluprun <base> [cols] [cands] [[rows] …targets files] [[rows] …decoys files]`
→ `[[level target-lines decoy-lines]…]` -/
def opRollupRun : List V → Option V
  | [b, cols, cands, ts, ds] => do
      let b ← name? b
      let cols ← toList? name? cols
      let cands ← toList? name? cands
      let ts ← toList? rows? ts
      let ds ← toList? rows? ds
      match rollupRun rollupDefaultParents b cols cands ts ds with
      | .error e => some (atom ("reject-" ++ e))
      | .ok outs => some (list (outs.map (fun o => list [ofName o.level, ofLines o.targets, ofLines o.decoys])))
  | _ => none

end Mk.Ops.ConfRun

namespace Mk.Ops
open Mk.Ops.ConfRun
def confidenceRunOps : List (String × (List V → Option V)) :=
  [("confrun", opConfRun), ("levelfiles", opLevelFiles), ("rolluplevels", opRollupLevels),
   ("rollupdefault", opRollupDefault), ("rolluprun", opRollupRun)]
end Mk.Ops
