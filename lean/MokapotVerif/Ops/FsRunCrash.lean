import MokapotVerif.Wire
import MokapotVerif.Model.FsRunCrash
import MokapotVerif.Ops.FsRun
/-! Driver glue for `Model/FsRunCrash.lean` (C09, third pass): command line runs cut inside the
verify step.  A PIN file is given as `[valid? lines]` (is it a valid table; number of `write` calls
of its conversion); contents are the demo tokens: original `[2j+10|11, lines]`, conversion
`[100, 102, …]`.  Directories are printed as in `Ops/FsRun.lean` (`[kind idx [token…]]`). -/
namespace Mk.Ops.FsRunCrash
open Mk V Mk.FsRun Mk.Ops.FsRun

def files? (v : V) : Option (List (Bool × Nat)) :=
  toList? (fun e => match e with
    | list [b, n] => do
        let b ← toBool? b
        let n ← toNat? n
        some (b, n)
    | _ => none) v

/-- further entries of the initial directory: `[[kind idx token…]…]` (stale `pintsv`, chunk … files) -/
def extra? (v : V) : Option FS :=
  toList? (fun e => match e with
    | list (k :: i :: toks) => do
        let k ← kindStr? k
        let i ← toNat? i
        let n ← nameX? k i
        let c ← toks.mapM toNat?
        some (n, c)
    | _ => none) v

/-- `fsclicrash [[valid lines]…] <m> [[kind idx token…]…]` → the directory an earlier command line
run over these files leaves when it is cut after `m` file operations -/
def opCrash : List V → Option V
  | [fl, m, ex] => do
      let fl ← files? fl
      let m ← toNat? m
      let ex ← extra? ex
      some (fsV (crashRun demoValid demoLines (demoPins fl ++ ex) ⟨fl.length, [], m⟩))
  | _ => none

/-- `fsclicrashthen …` → the directory after that *and* the verify loop of the observed run -/
def opCrashThen : List V → Option V
  | [fl, m, ex] => do
      let fl ← files? fl
      let m ← toNat? m
      let ex ← extra? ex
      let debris := crashRun demoValid demoLines (demoPins fl ++ ex) ⟨fl.length, [], m⟩
      some (fsV (verifyLoopC demoValid demoCv (List.range fl.length) (debris, [])).1)
  | _ => none

/-- `fsclimicro [[valid lines]…]` → the verify loop call by call (operation list) -/
def opMicro : List V → Option V
  | [fl] => do
      let fl ← files? fl
      some (list ((cliMicro demoValid demoLines (demoPins fl) (List.range fl.length) []).map opV))
  | _ => none

/-- `fsclicrashprobe …` → as `fsclicrashthen` for the variant that trusts an existing `<pin>.tsv`
(not the code: used to name a violation the model can explain) -/
def opCrashThenProbe : List V → Option V
  | [fl, m, ex] => do
      let fl ← files? fl
      let m ← toNat? m
      let ex ← extra? ex
      let debris := crashRun demoValid demoLines (demoPins fl ++ ex) ⟨fl.length, [], m⟩
      some (fsV ((List.range fl.length).foldl (verifyStepProbe demoValid demoCv) (debris, [])).1)
  | _ => none

end Mk.Ops.FsRunCrash

namespace Mk.Ops
open Mk.Ops.FsRunCrash
def fsRunCrashOps : List (String × (List V → Option V)) :=
  [("fsclicrash", opCrash), ("fsclicrashthen", opCrashThen), ("fsclimicro", opMicro),
   ("fsclicrashprobe", opCrashThenProbe)]
end Mk.Ops
