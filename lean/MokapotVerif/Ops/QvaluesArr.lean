import MokapotVerif.Wire
import MokapotVerif.Model.Qvalues
import MokapotVerif.Model.QvaluesArr
/-! Driver glue for `Model/QvaluesArr.lean` (scores are rationals, natural order `≤`). -/
namespace Mk.Ops.QvaluesArr
open Mk Mk.Qv V

def leqR (a b : Rat) : Bool := decide (a ≤ b)

def psms? (v : V) : Option (List (Rat × Bool)) := toList? (toPair? toRat? toBool?) v

def labelArr? : V → V → Option LabelArr
  | atom "bool", xs => (toList? toBool? xs).map LabelArr.bools
  | atom "int", xs => (toList? toInt? xs).map LabelArr.ints
  | atom "float", xs => (toList? toRat? xs).map LabelArr.floats
  | _, _ => none

def ofErr : TdcErr → V
  | .notBoolean => atom "reject-labels"
  | .lengthMismatch => atom "reject-length"

/-- `tdcarr <desc> [[score label] ...]` → q-values of the array-level model -/
def opTdcArr : List V → Option V
  | [d, xs] => do
      let desc ← toBool? d
      let xs ← psms? xs
      if xs.isEmpty then some (atom "reject-empty") else
      some (match tdcArr leqR desc xs with
        | some q => ofList ofRat q
        | none => atom "fail")
  | _ => none

/-- `fdr2q [fdr ...] [num_total ...] [counts ...]` → the `_fdr2qvalue` loop -/
def opFdr2q : List V → Option V
  | [f, n, c] => do
      let fdr ← toList? toRat? f
      let nt ← toList? toNat? n
      let cs ← toList? toNat? c
      some (match fdr2qvalue fdr nt cs with
        | some q => ofList ofRat q
        | none => atom "reject-group")
  | _ => none

/-- `tdcchk <desc> [score ...] <kind> [label ...]` → validated `tdc` -/
def opTdcChk : List V → Option V
  | [d, ss, k, ls] => do
      let desc ← toBool? d
      let scores ← toList? toRat? ss
      let labels ← labelArr? k ls
      some (match tdcChecked leqR desc scores labels with
        | .ok q => ofList ofRat q
        | .error e => ofErr e)
  | _ => none

/-- `labelschk <desc> <thr> <series> [score ...] <kind> [label ...]` → training labels through
the validated entry (`series = T`: targets arrive as a pandas Series, `astype(bool)`) -/
def opLabelsChk : List V → Option V
  | [d, t, sr, ss, k, ls] => do
      let desc ← toBool? d
      let thr ← toRat? t
      let series ← toBool? sr
      let scores ← toList? toRat? ss
      let labels ← labelArr? k ls
      let r := if series then updateLabelsSeries leqR desc thr scores labels
               else updateLabelsChecked leqR desc thr scores labels
      some (match r with
        | .ok l => ofList ofInt l
        | .error e => ofErr e)
  | _ => none

end Mk.Ops.QvaluesArr

namespace Mk.Ops
open Mk V

def qvaluesArrOps : List (String × (List V → Option V)) :=
  [("tdcarr", QvaluesArr.opTdcArr), ("fdr2q", QvaluesArr.opFdr2q), ("tdcchk", QvaluesArr.opTdcChk),
   ("labelschk", QvaluesArr.opLabelsChk)]

end Mk.Ops
