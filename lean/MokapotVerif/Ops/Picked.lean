import MokapotVerif.Wire
import MokapotVerif.Model.Qvalues
import MokapotVerif.Model.Picked
/-! Driver glue for `Model/Picked.lean`.

Strings outside the modelled domain (non-ASCII characters, line breaks — the
regular-expression `.` and `str.islower/upper` are only modelled for ASCII
text without newlines) are answered with `unsupported`, never guessed. -/
namespace Mk.Ops.Picked
open Mk.V

def pkLe (a b : Rat) : Bool := a ≤ b

def pkOkStr (s : String) : Bool := s.toList.all (fun c => c.toNat < 128 && c != '\n' && c != '\r')

def pkStr? (v : V) : Option (List Char) := (toStr? v).map String.toList
def pkOfStr (s : List Char) : V := ofStr (String.ofList s)

def pkPairs? (v : V) : Option (List (List Char × List Char)) := toList? (toPair? pkStr? pkStr?) v

def pkRow? : V → Option (Mk.Picked.Row Rat)
  | list [t, p, s] => do pure ⟨← toBool? t, ← pkStr? p, ← toRat? s⟩
  | _ => none

def pkEntry? : V → Option (Mk.Picked.Entry Rat)
  | list [g, p, st, s, t] => do pure ⟨← pkStr? g, ← pkStr? p, ← pkStr? st, ← toRat? s, ← toBool? t⟩
  | _ => none

def pkOfEntry (e : Mk.Picked.Entry Rat) : V :=
  list [pkOfStr e.group, pkOfStr e.peptide, pkOfStr e.stripped, ofRat e.score, ofBool e.target]

def pkOfErr : Mk.Picked.Err → V
  | .keyError => atom "reject-keyerror"
  | .unmapped => atom "reject-unmapped"
  | .decoys => atom "reject-decoys"
  | .empty => atom "reject-empty"

def pkProteins? : List V → Option Mk.Picked.Proteins
  | [hd, pre, pm, sh, prm] => do
      pure ⟨← toBool? hd, ← pkStr? pre, ← pkPairs? pm, ← toList? pkStr? sh, ← pkPairs? prm⟩
  | _ => none

def pkStringsOk (P : Mk.Picked.Proteins) (dm : List (List Char × List Char)) (rows : List (Mk.Picked.Row Rat)) : Bool :=
  let ok (s : List Char) : Bool := s.all (fun c => c.toNat < 128 && c != '\n' && c != '\r')
  ok P.decoyPrefix && P.peptideMap.all (fun x => ok x.1 && ok x.2) && P.shared.all ok
    && P.proteinMap.all (fun x => ok x.1 && ok x.2) && dm.all (fun x => ok x.1 && ok x.2)
    && rows.all (fun r => ok r.peptide)

/-- `strip [s ...]` → the stripped column -/
def opStrip : List V → Option V
  | [xs] => do
      let col ← toList? pkStr? xs
      if !col.all (fun s => s.all (fun c => c.toNat < 128 && c != '\n' && c != '\r')) then
        some (atom "unsupported")
      else some (ofList pkOfStr (Mk.Picked.stripCol col))
  | _ => none

/-- `picked hasDecoys prefix peptideMap shared proteinMap dm rows` → entries | reject-… -/
def opPicked : List V → Option V
  | [hd, pre, pm, sh, prm, dm, rows] => do
      let P ← pkProteins? [hd, pre, pm, sh, prm]
      let dm ← pkPairs? dm
      let rows ← toList? pkRow? rows
      if !pkStringsOk P dm rows then some (atom "unsupported") else
      some (match Mk.Picked.picked pkLe P dm rows with
        | .ok es => ofList pkOfEntry es
        | .error e => pkOfErr e)
  | _ => none

/-- `pickedq …` → entries with their protein-level q-values (C01's `tdc`) -/
def opPickedQ : List V → Option V
  | [hd, pre, pm, sh, prm, dm, rows] => do
      let P ← pkProteins? [hd, pre, pm, sh, prm]
      let dm ← pkPairs? dm
      let rows ← toList? pkRow? rows
      if !pkStringsOk P dm rows then some (atom "unsupported") else
      some (match Mk.Picked.picked pkLe P dm rows with
        | .ok es => ofList (fun eq => list [pkOfEntry eq.1, ofRat eq.2]) (Mk.Picked.proteinLevel (tdc pkLe) es)
        | .error e => pkOfErr e)
  | _ => none

/-- `spec-C15 hasDecoys prefix peptideMap shared proteinMap dm rows out` →
`ok` | `fail-<clause>` | reject-… : the declarative spec evaluated on the
implementation's entries `out` -/
def opSpecC15 : List V → Option V
  | [hd, pre, pm, sh, prm, dm, rows, out] => do
      let P ← pkProteins? [hd, pre, pm, sh, prm]
      let dm ← pkPairs? dm
      let rows ← toList? pkRow? rows
      let out ← toList? pkEntry? out
      if !pkStringsOk P dm rows then some (atom "unsupported") else
      some (match Mk.Picked.candidates P dm rows with
        | .ok R =>
          let n := Mk.Picked.specCheck pkLe P R out
          if n = 0 then atom "ok" else atom ("fail-" ++ toString n)
        | .error e => pkOfErr e)
  | _ => none

def pkOfPairs (l : List (List Char × List Char)) : V := ofList (fun x => list [pkOfStr x.1, pkOfStr x.2]) l

def pkOkL (s : List Char) : Bool := s.all (fun c => c.toNat < 128 && c != '\n' && c != '\r')

/-- `matchdecoy shuffledTargets decoys` → the `decoy_map` items of `match_decoy`, in insertion order,
`shuffledTargets` being the targets as arranged by `targets.sample(frac=1, random_state=rng)` -/
def opMatchDecoy : List V → Option V
  | [sh, ds] => do
      let sh ← toList? pkStr? sh
      let ds ← toList? pkStr? ds
      if !(sh.all pkOkL && ds.all pkOkL) then some (atom "unsupported") else
      some (pkOfPairs (Mk.Picked.matchDecoy sh ds))
  | _ => none

/-- apply the drawn arrangement (`perm[i]` = position in `keys` of the i-th shuffled element) -/
def pkShuffle (keys : List (List Char)) (perm : List Nat) : Option (List (List Char)) :=
  if perm.length != keys.length then none else perm.mapM (fun i => keys[i]?)

/-- `pickedfull hasDecoys prefix peptideMap shared proteinMap perm rows` → `[pairing, entries | reject-…]`:
`picked_protein` with the pairing computed by the model of `match_decoy` from the drawn arrangement
`perm` of the sorted peptide-map keys (the pairing is reported as empty when the FASTA has decoys: the
code does not draw one) -/
def opPickedFull : List V → Option V
  | [hd, pre, pm, sh, prm, perm, rows] => do
      let P ← pkProteins? [hd, pre, pm, sh, prm]
      let perm ← toList? toNat? perm
      let rows ← toList? pkRow? rows
      let shuffled ← pkShuffle (Mk.Picked.pairingTargets P) perm
      if !pkStringsOk P [] rows then some (atom "unsupported") else
      let dm := if P.hasDecoys then [] else Mk.Picked.pairing shuffled rows
      some (list [pkOfPairs dm, match Mk.Picked.pickedFull pkLe P shuffled rows with
        | .ok es => ofList pkOfEntry es
        | .error e => pkOfErr e])
  | _ => none

def pkOfEQ (eq : Mk.Picked.Entry Rat × Rat) : V := list [pkOfEntry eq.1, ofRat eq.2]

/-- `pickedfiles hasDecoys prefix peptideMap shared proteinMap dm rows decoys desc` →
`[targets.proteins rows, decoys.proteins rows | none]` (each row `[entry, q]`) | reject-… :
the protein level of `assign_confidence(decoys=…, descs=[desc])`; the arrangement of the level
table is a stable merge sort by descending score (unique when the scores are distinct) -/
def opPickedFiles : List V → Option V
  | [hd, pre, pm, sh, prm, dm, rows, decoys, desc] => do
      let P ← pkProteins? [hd, pre, pm, sh, prm]
      let dm ← pkPairs? dm
      let rows ← toList? pkRow? rows
      let decoys ← toBool? decoys
      let desc ← toBool? desc
      if !pkStringsOk P dm rows then some (atom "unsupported") else
      some (match Mk.Picked.picked pkLe P dm (Mk.Picked.orient (fun (x : Rat) => -x) desc rows) with
        | .ok es =>
          let f := Mk.Picked.proteinFiles (tdc pkLe) decoys (es.mergeSort (fun a b => pkLe b.score a.score))
          list [ofList pkOfEQ f.1, ofOpt (ofList pkOfEQ) f.2]
        | .error e => pkOfErr e)
  | _ => none

/-- `pairkey proteinMap group` → the pair key of a group name -/
def opPairKey : List V → Option V
  | [prm, g] => do
      let prm ← pkPairs? prm
      let g ← pkStr? g
      some (pkOfStr (Mk.Picked.pairKey ⟨true, [], [], [], prm⟩ g))
  | _ => none

end Mk.Ops.Picked

namespace Mk.Ops
open Mk.V Mk.Ops.Picked

def pickedOps : List (String × (List V → Option V)) :=
  [("strip", opStrip), ("picked", opPicked), ("pickedq", opPickedQ), ("spec-C15", opSpecC15),
   ("pairkey", opPairKey), ("matchdecoy", opMatchDecoy), ("pickedfull", opPickedFull),
   ("pickedfiles", opPickedFiles)]

end Mk.Ops
