import MokapotVerif.Wire
import MokapotVerif.Model.Fallback
import MokapotVerif.Model.FallbackTail
import MokapotVerif.Model.FallbackFull
import MokapotVerif.Model.FallbackDtype
/-! Driver glue for `Model/Fallback.lean`. -/
namespace Mk.Ops.Fallback
open Mk V Mk.Fallback

def model? : V → Option FoldModel
  | list [fp, bf, d, o, t] => do
      pure { featPass := ← toNat? fp, bestFeat := ← toNat? bf, desc := ← toBool? d,
             override := ← toBool? o, trained := ← toBool? t }
  | _ => none

def rawLabel? : V → Option RawLabel
  | atom "T" => some (.bool true)
  | atom "F" => some (.bool false)
  | v => (toInt? v).map .int

/-- `fbdecide [[featPass bestFeat desc override trained]…] <pred>` → `model` | `[feature f desc]` -/
def opDecide : List V → Option V
  | [ms, p] => do
      let ms ← toList? model? ms
      let p ← toNat? p
      some (match decide ms p with
        | .useModel => atom "model"
        | .useFeature f d => list [atom "feature", ofNat f, ofBool d])
  | _ => none

/-- `fbpred <thr> [[[score rawlabel]…]…]` → accepted targets summed over collections, or `reject-label` -/
def opPred : List V → Option V
  | [t, cs] => do
      let thr ← toRat? t
      let cs ← toList? (toList? (toPair? toInt? rawLabel?)) cs
      some (match predTotal (fun a b : Int => decide (a ≤ b)) thr cs with
        | some n => ofNat n
        | none => atom "reject-label")
  | _ => none

/-- `fbbest [countsDesc] [countsAsc]` → `[i n desc]` | `none` -/
def opBest : List V → Option V
  | [cd, ca] => do
      let cd ← toList? toNat? cd
      let ca ← toList? toNat? ca
      some (match bestFeature cd ca with
        | some (i, n, d) => list [ofNat i, ofNat n, ofBool d]
        | none => atom "none")
  | _ => none

/-- a collection on the wire: `[[raw labels] [[feature column]…] [model scores]]` -/
def coll? : V → Option Coll
  | list [ls, fs, sc] => do
      pure { labels := ← toList? rawLabel? ls, feats := ← toList? (toList? toInt?) fs,
             modelScores := ← toList? toInt? sc }
  | _ => none

def ofOut (out : List (List Int) × List Bool) : V :=
  list [ofList (ofList ofInt) out.1, ofList ofBool out.2]

def out? : V → Option (List (List Int) × List Bool)
  | list [sc, ds] => do pure (← toList? (toList? toInt?) sc, ← toList? toBool? ds)
  | _ => none

/-- `fbtail [models] <thr> [colls]` → `[[scores per collection] [descs]]` | `reject-label` -/
def opTail : List V → Option V
  | [ms, t, cs] => do
      let ms ← toList? model? ms
      let thr ← toRat? t
      let cs ← toList? coll? cs
      some (match brewTail ms thr cs with
        | some out => ofOut out
        | none => atom "reject-label")
  | _ => none

/-- `fbtailspec [models] <thr> [colls] [[scores] [descs]]` → T/F: `TailSpec` on an output -/
def opTailSpec : List V → Option V
  | [ms, t, cs, o] => do
      let ms ← toList? model? ms
      let thr ← toRat? t
      let cs ← toList? coll? cs
      let o ← out? o
      some (ofBool (tailSpecX ms thr cs o))
  | _ => none

/-- `fbtotal <thr> [colls] [scores per collection]` → accepted genuine targets summed over collections -/
def opTotal : List V → Option V
  | [t, cs, sc] => do
      let thr ← toRat? t
      let cs ← toList? coll? cs
      let sc ← toList? (toList? toInt?) sc
      some (ofNat (totalAcceptedX thr cs sc))
  | _ => none

/-- `fbentry <thr> [colls]` → `[[[ranking column] desc [i n]]…]` per collection | `none` -/
def opEntry : List V → Option V
  | [t, cs] => do
      let thr ← toRat? t
      let cs ← toList? coll? cs
      some (match cs.mapM (fun c => (collBest thr c).map (fun b =>
                list [ofList ofInt (rankColumn b.2.2 (featColumn b.1 c)), ofBool b.2.2, ofNat b.1, ofNat b.2.1])) with
        | some l => list l
        | none => atom "none")
  | _ => none

/-- `fbdirstart <passDesc> <passAsc>` → `[feat_pass desc]` -/
def opDirStart : List V → Option V
  | [a, b] => do
      let a ← toNat? a
      let b ← toNat? b
      some (list [ofNat (dirStart a b).1, ofBool (dirStart a b).2])
  | _ => none

/-- `fbfull <reset> <ensemble> [models] <thr> [colls] [reset scores per collection] [ensemble scores per collection]`
→ `[[scores per collection] [descs]]` | `reject-label`: the tail of `brew` with the source chosen as the code does -/
def opFull : List V → Option V
  | [r, e, ms, t, cs, rs, es] => do
      let r ← toBool? r
      let e ← toBool? e
      let ms ← toList? model? ms
      let thr ← toRat? t
      let cs ← toList? coll? cs
      let rs ← toList? (toList? toInt?) rs
      let es ← toList? (toList? toInt?) es
      some (match brewFull r e ms thr cs { resetScores := rs, ensembleScores := es } with
        | some out => ofOut out
        | none => atom "reject-label")
  | _ => none

/-- `fbtailgspec [models] <thr> [colls] [compared scores per collection] [[scores] [descs]]` → T/F: `TailSpecG` on an
output, for compared scores chosen by the caller -/
def opTailGSpec : List V → Option V
  | [ms, t, cs, sc, o] => do
      let ms ← toList? model? ms
      let thr ← toRat? t
      let cs ← toList? coll? cs
      let sc ← toList? (toList? toInt?) sc
      let o ← out? o
      some (ofBool (tailSpecGX ms thr cs sc o))
  | _ => none

def fitRun? : V → Option FitRun
  | list [p, w] => do pure { pretrained := ← toBool? p, worse := ← toBool? w }
  | _ => none

/-- `fbreset [[pretrained worse]…]` → `[reset [is_trained per fold]]` -/
def opReset : List V → Option V
  | [rs] => do
      let rs ← toList? fitRun? rs
      some (list [ofBool (anyReset rs), ofList ofBool (rs.map fitTrained)])
  | _ => none

/-- `fbpep <desc> [score column]` → the scores handed to the PEP estimator -/
def opPep : List V → Option V
  | [d, col] => do
      let d ← toBool? d
      let col ← toList? toInt? col
      some (ofList ofInt (pepScores d col))
  | _ => none

/-- `fbrank <desc> [stored score column]` → the ranking column of `assign_confidence` for a stored column
(conversion to binary64, then negation when lower-is-better) -/
def opRank : List V → Option V
  | [d, col] => do
      let d ← toBool? d
      let col ← toList? toInt? col
      some (ofList ofInt (entryRankTyped d col))
  | _ => none

/-- `fbdirstartcol <thr> [targets] [stored column of the named feature on the training rows]` → `[feat_pass desc]` -/
def opDirStartCol : List V → Option V
  | [t, ts, col] => do
      let thr ← toRat? t
      let ts ← toList? toBool? ts
      let col ← toList? toInt? col
      some (list [ofNat (dirStartCol thr ts col).1, ofBool (dirStartCol thr ts col).2])
  | _ => none

/-- `fbcast <significant digits> [integers]` → the integers rounded to that many binary digits (53: binary64, 24: binary32) -/
def opCast : List V → Option V
  | [p, xs] => do
      let p ← toNat? p
      let xs ← toList? toInt? xs
      some (ofList ofInt (xs.map (roundBits p)))
  | _ => none

/-- `fbentrydescs <scoresGiven> [descs given by the caller] | none  [found directions] <n>` → the directions used by
`assign_confidence` -/
def opEntryDescs : List V → Option V
  | [g, ds, found, n] => do
      let g ← toBool? g
      let found ← toList? toBool? found
      let n ← toNat? n
      let ds : Option (List Bool) ← (match ds with
        | atom "none" => some none
        | v => (toList? toBool? v).map some)
      some (ofList ofBool (entryDescs g ds found n))
  | _ => none

/-- `fbthenrank <reset> <ensemble> [models] <thr> [colls] [reset scores] [ensemble scores]` → the ranking columns of
`assign_confidence` on the pair returned by the tail of `brew`, one per collection | `reject-label` -/
def opThenRank : List V → Option V
  | [r, e, ms, t, cs, rs, es] => do
      let r ← toBool? r
      let e ← toBool? e
      let ms ← toList? model? ms
      let thr ← toRat? t
      let cs ← toList? coll? cs
      let rs ← toList? (toList? toInt?) rs
      let es ← toList? (toList? toInt?) es
      some (match brewThenRank r e ms thr cs { resetScores := rs, ensembleScores := es } with
        | some out => ofList (ofList ofInt) out
        | none => atom "reject-label")
  | _ => none

end Mk.Ops.Fallback

namespace Mk.Ops
open Mk.Ops.Fallback
def fallbackOps : List (String × (List V → Option V)) :=
  [("fbdecide", opDecide), ("fbpred", opPred), ("fbbest", opBest), ("fbtail", opTail),
   ("fbtailspec", opTailSpec), ("fbtotal", opTotal), ("fbentry", opEntry), ("fbdirstart", opDirStart),
   ("fbfull", opFull), ("fbtailgspec", opTailGSpec), ("fbreset", opReset), ("fbpep", opPep),
   ("fbrank", opRank), ("fbdirstartcol", opDirStartCol), ("fbcast", opCast), ("fbthenrank", opThenRank), ("fbentrydescs", opEntryDescs)]
end Mk.Ops
