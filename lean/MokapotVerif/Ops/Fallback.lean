import MokapotVerif.Wire
import MokapotVerif.Model.Fallback
/-! Driver glue for `Model/Fallback.lean`. -/
namespace Mk.Ops.Fallback
open Mk V Mk.Fallback

def model? : V → Option FoldModel
  | list [fp, bf, d, o, t] => do
      pure { featPass := ← toNat? fp, bestFeat := ← toNat? bf, desc := ← toBool? d,
             override := ← toBool? o, trained := ← toBool? t }
  | _ => none

def rawLabel? : V → Option RawLabel
  | atom "T" => some (.bool true)
  | atom "F" => some (.bool false)
  | v => (toInt? v).map .int

/-- `fbdecide [[featPass bestFeat desc override trained]…] <pred>` → `model` | `[feature f desc]` -/
def opDecide : List V → Option V
  | [ms, p] => do
      let ms ← toList? model? ms
      let p ← toNat? p
      some (match decide ms p with
        | .useModel => atom "model"
        | .useFeature f d => list [atom "feature", ofNat f, ofBool d])
  | _ => none

/-- `fbpred <thr> [[[score rawlabel]…]…]` → accepted targets summed over collections, or `reject-label` -/
def opPred : List V → Option V
  | [t, cs] => do
      let thr ← toRat? t
      let cs ← toList? (toList? (toPair? toInt? rawLabel?)) cs
      some (match predTotal (fun a b : Int => decide (a ≤ b)) thr cs with
        | some n => ofNat n
        | none => atom "reject-label")
  | _ => none

/-- `fbbest [countsDesc] [countsAsc]` → `[i n desc]` | `none` -/
def opBest : List V → Option V
  | [cd, ca] => do
      let cd ← toList? toNat? cd
      let ca ← toList? toNat? ca
      some (match bestFeature cd ca with
        | some (i, n, d) => list [ofNat i, ofNat n, ofBool d]
        | none => atom "none")
  | _ => none

end Mk.Ops.Fallback

namespace Mk.Ops
open Mk.Ops.Fallback
def fallbackOps : List (String × (List V → Option V)) :=
  [("fbdecide", opDecide), ("fbpred", opPred), ("fbbest", opBest)]
end Mk.Ops
