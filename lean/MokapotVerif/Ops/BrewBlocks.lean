import MokapotVerif.Wire
import MokapotVerif.Model.Brew
import MokapotVerif.Model.BrewMulti
import MokapotVerif.Model.BrewBlocks
/-! Driver glue for `Model/BrewBlocks.lean`. -/
namespace Mk.Ops.BrewBlocks
open Mk V Mk.Brew

def natLists? (v : V) : Option (List (List Nat)) := toList? (toList? toNat?) v
def natLists3? (v : V) : Option (List (List (List Nat))) := toList? (toList? (toList? toNat?)) v

/-- the cap travels as `[]` (absent) or `[c]` -/
def cap? (v : V) : Option (Option Nat) := do
  let l ← toList? toNat? v
  pure l.head?

/-- the executable instance of the nondeterminism: increasing enumeration, first positions drawn -/
def drawFirst (cap : Option Nat) (K : Nat) (_f k _n : Nat) : List Nat :=
  List.range ((capsOf cap K).getD k 0)

/-- `maketraincr <chunk_range> <cap> [sizes] [[[fold]…] per file]` → `reject-choice`, or per fold
`[<cap applies> [[train indices] per file]]`: `make_train_sets` with the block size of its inner
loop set to `chunk_range` -/
def opMakeTrainCr : List V → Option V
  | [cr, c, sz, ti] => do
      let cr ← toNat? cr
      let c ← cap? c
      let sz ← toList? toNat? sz
      let ti ← natLists3? ti
      if cr = 0 then some (atom "reject-chunk0") else
      some (match makeTrainSetsCr cr ti c sz (fun _ _ l => l) (drawFirst c sz.length) with
        | none => atom "reject-choice"
        | some trains => list (trains.zipIdx.map (fun tf =>
            list [ofBool (capApplies c (trainTotal ti sz tf.2)), list (tf.1.map (ofList ofNat))])))
  | _ => none

/-- `predicttwo [reader chunk lengths] <c> <nfolds> [routing]` → for each row read the
`model * 1000000 + row` that produced its score (identity calibration), the reader delivering the
rows `0 … n-1` in consecutive chunks of the given lengths and `create_chunks` cutting the routing
every `c`; `reject-chunk-mismatch` when the column assignment / `pop(0)` fails -/
def opPredictTwo : List V → Option V
  | [ls, c, k, r] => do
      let ls ← toList? toNat? ls
      let c ← toNat? c
      let k ← toNat? k
      let r ← toList? toNat? r
      if c = 0 then some (atom "reject-chunk0") else
      some (match predictTwo (cutBy ls (indexed (List.range ls.sum))) c k r
          (fun f row => f * 1000000 + row) (fun _ => true) (fun _ s => s) with
        | some out => ofList ofNat out
        | none => atom "reject-chunk-mismatch")
  | _ => none

/-- `pretrainedopt <folds> [[fold] or [] per model] [trained flags]` → positions of the given
models in the order `brew` uses them, or `reject-ValueError` / `reject-RuntimeError` /
`reject-TypeError` -/
def opPretrainedOpt : List V → Option V
  | [f, nums, flags] => do
      let f ← toNat? f
      let nums ← natLists? nums
      let flags ← toList? toBool? flags
      let ms := (nums.zipIdx.zip flags).map (fun x => (x.1.1.head?, x.1.2, x.2))
      some (match pretrainedOpt ms f with
        | .ok r => ofList ofNat (r.map (·.2))
        | .error e => atom ("reject-" ++ e))
  | _ => none

end Mk.Ops.BrewBlocks

namespace Mk.Ops
open Mk.Ops.BrewBlocks
def brewBlocksOps : List (String × (List V → Option V)) :=
  [("maketraincr", opMakeTrainCr), ("predicttwo", opPredictTwo), ("pretrainedopt", opPretrainedOpt)]
end Mk.Ops
