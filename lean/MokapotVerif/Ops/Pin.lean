import MokapotVerif.Wire
import MokapotVerif.Model.Pin
/-! Driver glue for `Model/Pin.lean`.

Wire format: a name is a string atom; a cell is `none` (missing), an integer,
`T`/`F`, or a string atom; a table is `[[name [cell ...]] ...]` in file order;
optional arguments are `none` or `[name]`. -/
namespace Mk.Ops.Pin
open Mk V Mk.Pin

def toName? (v : V) : Option Name := (toStr? v).map String.toList
def ofName (n : Name) : V := ofStr (String.ofList n)

def toCell? : V → Option Cell
  | atom "none" => some .na
  | atom "T" => some (.bool true)
  | atom "F" => some (.bool false)
  | atom s =>
    match s.toInt? with
    | some i => some (.int i)
    | none => (decStr s).map (fun x => Cell.str x.toList)
  | _ => none

def ofCell : Cell → V
  | .na => atom "none"
  | .int i => ofInt i
  | .bool b => ofBool b
  | .str s => ofName s

def toOptName? : V → Option (Option Name)
  | atom "none" => some none
  | list [x] => (toName? x).map some
  | _ => none

def toTable? (v : V) : Option Table :=
  (toList? (toPair? toName? (toList? toCell?)) v).map Table.mk

def toArgs? : V → Option PinArgs
  | list [a, b, c, d, e] => do
      pure { filename := ← toOptName? a, calcmass := ← toOptName? b, expmass := ← toOptName? c,
             rt := ← toOptName? d, charge := ← toOptName? e }
  | _ => none

def ofDataset (d : Dataset) : V :=
  list [ofList ofName d.columns, ofName d.target, ofList ofName d.spectrum, ofName d.peptide,
        ofName d.protein, ofList ofName d.features, ofList ofName d.metadata, ofList ofName d.level,
        ofOpt ofName d.filename, ofName d.scan, ofName d.specid, ofOpt ofName d.calcmass,
        ofOpt ofName d.expmass, ofOpt ofName d.rt, ofOpt ofName d.charge,
        ofList (fun p => list [ofName p.1, ofList ofCell p.2]) d.spectra,
        ofList ofBool d.targets]

def errName : PinErr → String
  | .missing => "reject-missing"
  | .ambiguous => "reject-ambiguous"
  | .emptyName => "reject-emptyname"
  | .chunkSize => "reject-chunksize"
  | .noObjects => "reject-noobjects"
  | .labelCast => "reject-labelcast"
  | .labelRange => "reject-labelrange"
  | .columnCheck => "reject-columncheck"

/-- `pin-parse [args] c r table` → the model's dataset or `reject-<kind>` -/
def opPinParse : List V → Option V
  | [a, c, r, t] => do
      let args ← toArgs? a
      let c ← toNat? c
      let r ← toNat? r
      let t ← toTable? t
      match readPercolator args c r t with
      | .ok d => some (ofDataset d)
      | .error e => some (atom (errName e))
  | _ => none

/-- `pin-spec table` → `[well-formed? spec-dataset]` (the declarative specification, evaluated
independently of the model) -/
def opPinSpec : List V → Option V
  | [t] => do
      let t ← toTable? t
      some (list [ofBool (wellFormedB t), ofDataset (specDataset t)])
  | _ => none

/-- `pin-idchunks [data] [ids] c` → the column chunks (natural numbers as column names) -/
def opPinIdChunks : List V → Option V
  | [d, i, c] => do
      let d ← toList? toNat? d
      let i ← toList? toNat? i
      let c ← toNat? c
      if c = 0 then some (atom "reject-chunksize") else
      some (ofList (ofList ofNat) (idChunks d i c))
  | _ => none

end Mk.Ops.Pin

namespace Mk.Ops
open Mk V Mk.Ops.Pin

def pinOps : List (String × (List V → Option V)) :=
  [("pin-parse", opPinParse), ("pin-spec", opPinSpec), ("pin-idchunks", opPinIdChunks)]

end Mk.Ops
