import MokapotVerif.Wire
import MokapotVerif.Model.Grouping
import MokapotVerif.Model.GroupingExt
import MokapotVerif.Model.Digest
/-! Driver glue for `Model/GroupingExt.lean`.  Names, peptides and sequences are strings.

    gdirect  <enum> [[name [pep…]]…] [[pep [name…]]…]   → [groups peptides]   model of `_group_proteins`
    gdspec   [[name [pep…]]…] [pep…]                    → [groups peptides]   the declarative spec, evaluated
    gdwf     [[name [pep…]]…] [[pep [name…]]…]          → T/F                 inside the quantifier?
    groupseq <prefix> <enum> <cls> <notNext> mc lo hi clip semi [[name seq]…]
                                                        → [unique shared pmap hasDecoys groups pepsets]
-/
namespace Mk.Ops.GroupingExt
open Mk V Mk.Grouping

def prots? (v : V) : Option (List (String × List String)) :=
  toList? (toPair? toStr? (toList? toStr?)) v

def ofKey (k : List String) : V := ofList ofStr k

def ofGroups (gs : List (List String × List String)) : V :=
  ofList (fun g => list [ofKey g.1, ofList ofStr g.2]) gs

def ofIndex (pm : List (String × List (List String))) : V :=
  ofList (fun e => list [ofStr e.1, ofList ofKey e.2]) pm

/-- `gdirect`: the model of `_group_proteins` on the caller's two dicts (stable sort of the code;
enum 0 = match sets in insertion order, 1 = reversed) -/
def opGdirect : List V → Option V
  | [en, ps, pm] => do
      let en ← toNat? en
      let ps ← prots? ps
      let pm ← prots? pm
      let rev := decide (en = 1)
      some (if groupProteinsSafe rev ps pm then
          list [ofGroups (groupProteins rev ps pm).grouped, ofIndex (groupProteins rev ps pm).pepmap]
        else atom "reject-keyerror")
  | _ => none

/-- `gdspec`: the maximal-subset groups and their group index over the given peptide keys -/
def opGdspec : List V → Option V
  | [ps, keys] => do
      let ps ← prots? ps
      let keys ← toList? toStr? keys
      some (list [ofGroups (specGroups ps), ofIndex (groupIndexOf (specGroups ps) keys)])
  | _ => none

/-- `gdwf`: well-formed proteins and a `peptides` dict that is their inverted incidence -/
def opGdwf : List V → Option V
  | [ps, pm] => do
      let ps ← prots? ps
      let pm ← prots? pm
      some (ofBool (wfB ps && isRawIndexB ps pm))
  | _ => none

def str (l : List Char) : String := String.ofList l

def ofOutC (o : Out (List Char) (List Char)) (pepsets : List (Prot (List Char) (List Char))) : V :=
  list [ ofList (fun e => list [ofStr (str e.1), ofKey (e.2.map str)]) o.peptideMap,
         ofList (fun e => list [ofStr (str e.1), ofList (fun k => ofKey (k.map str)) e.2]) o.shared,
         ofList (fun e => list [ofStr (str e.1), ofStr (str e.2)]) o.proteinMap,
         ofBool o.hasDecoys,
         ofList (fun g => list [ofKey (g.1.map str), ofList (fun p => ofStr (str p)) g.2]) o.groups,
         ofList (fun e => list [ofStr (str e.1), ofList (fun p => ofStr (str p)) e.2]) pepsets ]

/-- `groupseq`: the model of `read_fasta` from the parsed (name, sequence) entries on, with the
digest model of C17 and the code's decoy test / decoy name by prefix -/
def opGroupseq : List V → Option V
  | [pre, en, cls, nn, mc, lo, hi, clip, semi, es] => do
      let pre ← toStr? pre
      let en ← toNat? en
      let cls ← toStr? cls
      let nn ← toStr? nn
      let mc ← toNat? mc
      let lo ← toNat? lo
      let hi ← toNat? hi
      let clip ← toBool? clip
      let semi ← toBool? semi
      let es ← toList? (toPair? toStr? toStr?) es
      let fasta : List (List Char × List Char) := es.map (fun e => (e.1.toList, e.2.toList))
      let dig : List Char → List Pep := fun s => digest ⟨cls.toList, nn.toList⟩ s mc lo hi clip semi
      let rev := decide (en = 1)
      some (match readFastaSeq (isDecoyPre pre.toList) (mkDecoyPre pre.toList) rev dig fasta with
        | some o =>
          if readFastaSeqSafe rev dig fasta then ofOutC o (digestEntries dig fasta)
          else atom "reject-keyerror"
        | none => atom "reject-only-decoys")
  | _ => none

end Mk.Ops.GroupingExt

namespace Mk.Ops
open Mk V Mk.Ops.GroupingExt

def groupingExtOps : List (String × (List V → Option V)) :=
  [("gdirect", opGdirect), ("gdspec", opGdspec), ("gdwf", opGdwf), ("groupseq", opGroupseq)]

end Mk.Ops
