import MokapotVerif.Wire
import MokapotVerif.Model.MergeText
/-! Driver glue for `Model/MergeText.lean` (C14, third pass).  A row on the wire is `[score n spelling]`. -/
namespace Mk.Ops.MergeText
open Mk V

abbrev TRow := (Rat × Int) × String

def leScore (a b : Rat × Int) : Bool := a.1 ≤ b.1

def allDigits (cs : List Char) : Bool := !cs.isEmpty && cs.all Char.isDigit

def digitsVal (cs : List Char) : Nat := cs.foldl (fun a c => 10 * a + (c.toNat - 48)) 0

/-- the numeric reading of one spelling, as `pandas.read_csv` makes it: `(is a decimal?, value)`;
digits → an integer (`007` → 7), digits `.` digits → a decimal (`1.50` → 1.5), anything else: text -/
def readNum (s : String) : Option (Bool × Rat) :=
  let cs := s.toList
  let ip := cs.takeWhile (· != '.')
  let rest := cs.dropWhile (· != '.')
  if rest.isEmpty then (if allDigits ip then some (false, (digitsVal ip : Rat)) else none)
  else if allDigits ip && allDigits (rest.drop 1) then
    some (true, (digitsVal ip : Rat) + (digitsVal (rest.drop 1) : Rat) / ((10 ^ (rest.drop 1).length : Nat) : Rat))
  else none

/-- the per-chunk type inference of one column: all integers → int64, all numbers with a decimal among
them → float64 (every cell, the integers too), otherwise the column stays text -/
def inferCol (l : List String) : Option (List (Bool × Rat)) :=
  (l.mapM readNum).map (fun vs => vs.map (fun v => (vs.any (·.1), v.2)))

def trow? : V → Option TRow
  | list [s, n, t] => do pure ((← toRat? s, ← toInt? n), ← toStr? t)
  | _ => none

def tcols? : V → Option (Option (List String))
  | atom "none" => some none
  | v => (toList? toStr? v).map some

def ofCell : Mk.Merge.TCell String (Bool × Rat) → V
  | .kept s => list [atom "s", ofStr s]
  | .parsed (false, q) => list [atom "i", ofInt q.num]
  | .parsed (true, q) => list [atom "f", ofRat q]

def ofTRow (r : (Rat × Int) × Mk.Merge.TCell String (Bool × Rat)) : V :=
  list [ofRat r.1.1, ofInt r.1.2, ofCell r.2]

/-- `mergetext <text_columns | none> <column> <chunk> [suffix…] [[[score n spelling]…]…]` → the rows
yielded by `merge_sort(paths, score, text_columns)` observed at `column`, or `reject-empty` -/
def opMergeText : List V → Option V
  | [tc, col, c, sfx, ins] => do
      let tc ← tcols? tc
      let col ← toStr? col
      let c ← toNat? c
      let sfx ← toList? toStr? sfx
      let ins ← toList? (toList? trow?) ins
      if c = 0 then some (atom "reject-chunk0") else
      if sfx.length ≠ ins.length then none else
      match Mk.Merge.kmergePathsText leScore inferCol tc col c (sfx.zip ins) with
      | none => some (atom "reject-empty")
      | some out => some (ofList ofTRow out)
  | _ => none

end Mk.Ops.MergeText

namespace Mk.Ops
open Mk V

def mergeTextOps : List (String × (List V → Option V)) :=
  [("mergetext", MergeText.opMergeText)]

end Mk.Ops
