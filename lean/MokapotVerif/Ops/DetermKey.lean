import MokapotVerif.Wire
import MokapotVerif.Model.DetermKey
/-! Driver glue for `Model/DetermKey.lean` (C08, third pass). -/
namespace Mk.Ops.DetermKey
open Mk V Mk.Determ

/-- `determsplit [[repr text of every spectrum-key cell of row 0] …] <folds>` →
`[[key of row 0 …] [[rows of fold 0] …]]` | `[[keys] reject-index]` (the IndexError of `_split`) -/
def opSplit : List V → Option V
  | [rows, folds] => do
      let rows ← toList? (toList? toStr?) rows
      let folds ← toNat? folds
      let keys := rows.map foldKey
      some (list [ofList ofNat keys,
                  ((splitRows rows folds).map (fun fs => ofList (fun f => ofList ofNat f) fs)).getD (atom "reject-index")])
  | _ => none

/-- `determcrc <text>` → `crc32(text.encode())` -/
def opCrc : List V → Option V
  | [t] => do
      let t ← toStr? t
      some (ofNat (crc32 (utf8 t)))
  | _ => none

end Mk.Ops.DetermKey

namespace Mk.Ops
open Mk.Ops.DetermKey
def determKeyOps : List (String × (List V → Option V)) :=
  [("determsplit", opSplit), ("determcrc", opCrc)]
end Mk.Ops
