import MokapotVerif.Wire
import MokapotVerif.Model.TdcExt2
/-! Driver glue for `Model/TdcExt2.lean` (model objects, reset path, chunked training-index loop). -/
namespace Mk.Ops.TdcExt2
open Mk V Mk.TdcX

/-- `tdctrainloop <chunk_range> <ds> [held-out fold]` → the training indices the loop of
`make_train_sets` collects for one file (increasing) -/
def opTrainLoop : List V → Option V
  | [cr, ds, fold] => do
      let cr ← toNat? cr
      let ds ← toNat? ds
      let fold ← toList? toNat? fold
      some (ofList ofNat (Brew.complementLoop cr ds fold ds 0))
  | _ => none

/-- `tdcresetraw <c> [outputs of the caller's model per row]` → what `_predict_with_ensemble(models=[model])`
returns for the collection (before calibration) -/
def opResetRaw : List V → Option V
  | [c, raw] => do
      let c ← toNat? c
      let raw ← toList? toRat? raw
      if c = 0 then some (atom "reject-chunk0") else
      some (ofList ofRat (predictEnsemble c (List.range raw.length) 1 (fun _ p => raw.getD p 0)))
  | _ => none

/-- tables travel with their fold index so that `worse` can be given per fold -/
abbrev Tbl := Nat × List Nat

def fitT (st : List Nat) (t : Tbl) : List Nat := memFit st t.2
def worseT (flags : List Bool) (_ : List Nat) (t : Tbl) : Bool := flags.getD t.1 false

/-- `tdcfitcopies [memory of the caller's model] [[rows fitted in fold f]…] [fit of fold f got worse…]
<caller's model is trained>` → `[[caller's memory after the loop] [[memory of the copy of fold f]…]
<reset> <all trained>]` -/
def opFitCopies : List V → Option V
  | [init, tabs, flags, tr] => do
      let init ← toList? toNat? init
      let tabs ← toList? (toList? toNat?) tabs
      let flags ← toList? toBool? flags
      let tr ← toBool? tr
      let r := fitCopies fitT (worseT flags) (fun _ => tr) init (tabs.zipIdx.map (fun x => (x.2, x.1)))
      some (list [ofList ofNat r.1, list (r.2.map (fun m => ofList ofNat m.1)),
                  ofBool (anyReset r.2), ofBool (allTrained r.2)])
  | _ => none

/-- `tdcbrewobjects <ensemble> <c> [init memory] [[rows fitted in fold f]…] [worse flags] <trained>
[[id feature] per row] [fold routed to, per row]` → the scores of the collection for memorising
objects without calibration (`feature + 512·[the scoring object was fitted on the row]`) -/
def opBrewObjects : List V → Option V
  | [ens, c, init, tabs, flags, tr, rows, routing] => do
      let ens ← toBool? ens
      let c ← toNat? c
      let init ← toList? toNat? init
      let tabs ← toList? (toList? toNat?) tabs
      let flags ← toList? toBool? flags
      let tr ← toBool? tr
      let rows ← toList? (toPair? toNat? toNat?) rows
      let routing ← toList? toNat? routing
      if c = 0 then some (atom "reject-chunk0") else
      some (ofList ofRat (brewObjects fitT (worseT flags) (fun _ => tr) memApply init
        (tabs.zipIdx.map (fun x => (x.2, x.1))) ens c rows routing (fun _ => true) (fun _ s => s)
        (fun l => l.map (·.1))))
  | _ => none

end Mk.Ops.TdcExt2

namespace Mk.Ops
open Mk.Ops.TdcExt2
def tdcExt2Ops : List (String × (List V → Option V)) :=
  [("tdctrainloop", opTrainLoop), ("tdcresetraw", opResetRaw), ("tdcfitcopies", opFitCopies),
   ("tdcbrewobjects", opBrewObjects)]
end Mk.Ops
