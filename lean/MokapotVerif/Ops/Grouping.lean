import MokapotVerif.Wire
import MokapotVerif.Model.Grouping
/-! Driver glue for `Model/Grouping.lean`.  Names and peptides are strings. -/
namespace Mk.Ops.Grouping
open Mk V Mk.Grouping

def entries? (v : V) : Option (List (String × List String)) :=
  toList? (toPair? toStr? (toList? toStr?)) v

def ofKey (k : List String) : V := ofList ofStr k

def ofGroups (gs : List (List String × List String)) : V :=
  ofList (fun g => list [ofKey g.1, ofList ofStr g.2]) gs

def ofOut (o : Out String String) : V :=
  list [ ofList (fun e => list [ofStr e.1, ofKey e.2]) o.peptideMap,
         ofList (fun e => list [ofStr e.1, ofList ofKey e.2]) o.shared,
         ofList (fun e => list [ofStr e.1, ofStr e.2]) o.proteinMap,
         ofBool o.hasDecoys,
         ofGroups o.groups ]

def isDecoyStr (pre : String) (name : String) : Bool := name.startsWith pre
def mkDecoyStr (pre : String) (name : String) : String := pre ++ name

/-- enumeration orders of the match set offered to the harness: 0 = insertion order, 1 = reversed -/
def enumSel (n : Nat) : Nat → List (List String) → List (List String) :=
  fun _ s => if n = 1 then s.reverse else s

/-- `group <prefix> <enum> [[name [pep…]]…]` → model of `read_fasta` (stable sorts);
`reject-only-decoys` = ValueError, `reject-keyerror` = a `pop`/`remove` would raise -/
def opGroup : List V → Option V
  | [pre, en, es] => do
      let pre ← toStr? pre
      let en ← toNat? en
      let es ← entries? es
      let srt := sortProteins (buildProteins es)
      some (match readFastaOf (isDecoyStr pre) (mkDecoyStr pre) (enumSel en) es srt with
        | some o =>
          if groupGoSafe (enumSel en) ⟨[], pepmap0 es⟩ srt then ofOut o else atom "reject-keyerror"
        | none => atom "reject-only-decoys")
  | _ => none

/-- `gspec [[name [pep…]]…]` → the declarative spec: [unique shared groups] -/
def opGspec : List V → Option V
  | [es] => do
      let es ← entries? es
      let P := es.filter (fun e => !e.2.isEmpty)
      some (list [ ofList (fun e => list [ofStr e.1, ofKey e.2]) (specUnique P),
                   ofList (fun e => list [ofStr e.1, ofList ofKey e.2]) (specShared P),
                   ofGroups (specGroups P) ])
  | _ => none

/-- `gwf [[name [pep…]]…]` → is the input inside the property's quantifier? -/
def opGwf : List V → Option V
  | [es] => do
      let es ← entries? es
      some (ofBool (wfB (es.filter (fun e => !e.2.isEmpty))))
  | _ => none

end Mk.Ops.Grouping

namespace Mk.Ops
open Mk V Mk.Ops.Grouping

def groupingOps : List (String × (List V → Option V)) :=
  [("group", opGroup), ("gspec", opGspec), ("gwf", opGwf)]

end Mk.Ops
