import MokapotVerif.Wire
import MokapotVerif.Model.PepsHist
/-! Driver glue for `Model/PepsHist.lean` (C06, histogram side and NNLS systems) and for the end-to-end
models of `Model/PepsKernel.lean` that had no op of their own (`kdeNnlsFullOf`). -/
namespace Mk.Ops.PepsHist
open Mk Mk.V Mk.Peps

def phRats? (v : V) : Option (List Rat) := toList? toRat? v
def phPsms? (v : V) : Option (List (Rat × Bool)) := toList? (toPair? toRat? toBool?) v

def ascending : List Rat → Bool
  | a :: b :: rest => decide (a ≤ b) && ascending (b :: rest)
  | _ => true

def permOfRange (ind : List Nat) (n : Nat) : Bool :=
  ind.length == n && (List.range n).all (fun i => ind.contains i)

def validInd (scores : List Rat) (ind : List Nat) : Bool :=
  permOfRange ind scores.length && nonIncreasing (takeIdx 0 scores ind)

/-- numpy refuses fewer than two edges or edges that are not monotonically increasing -/
def edgesOk (edges : List Rat) : Bool := decide (2 ≤ edges.length) && ascending edges

/-- `histdata [edges] [[score label] ...] density` → `[[midpoints] [target counts|density] [decoy counts|density]]` -/
def opHistData : List V → Option V
  | [e, xs, dens] => do
      let e ← phRats? e
      let xs ← phPsms? xs
      let dens ← toBool? dens
      if !edgesOk e then some (atom "reject-value") else
      let r := histDataOf e xs
      if dens then
        some (list [ofList ofRat r.1, ofList ofRat (histDensity r.2.1 e), ofList ofRat (histDensity r.2.2 e)])
      else
        some (list [ofList ofRat r.1, ofList ofInt r.2.1, ofList ofInt r.2.2])
  | _ => none

/-- `fitsystem [n] [k]` (the ascending problem as the inner call of `fit_nnls` sees it)
→ `[[row ...] [rhs] [w2]]` -/
def opFitSystem : List V → Option V
  | [n, k] => do
      let n ← phRats? n
      let k ← phRats? k
      if n.length != k.length then some (atom "reject-shape") else
      some (list [ofList (ofList ofRat) (fitRows n), ofList ofRat (fitRhs n k), ofList ofRat (fitW2 n)])
  | _ => none

/-- `monosystem N` → the rows of `tril(ones((N, N)))` -/
def opMonoSystem : List V → Option V
  | [n] => do
      let n ← toNat? n
      some (ofList (ofList ofRat) (monoRows n))
  | _ => none

def constKern (e : List Rat) (v slope : Rat) (d : List Rat) : HistKern :=
  ⟨fun _ => e, fun _ => v, fun _ _ => slope, fun _ _ _ => d⟩

/-- `histnnlsfull [edges] v slope [d] [[score label] ...]` → PEPs (`peps_from_scores_hist_nnls` from the
bin edges on) -/
def opHistNnlsFull : List V → Option V
  | [e, v, s, d, xs] => do
      let e ← phRats? e
      let v ← toRat? v
      let s ← toRat? s
      let d ← phRats? d
      let xs ← phPsms? xs
      if !edgesOk e || d.length + 1 != e.length then some (atom "reject-value") else
      some (match histNnlsFullOf (constKern e v s d) xs with
        | some r => ofList ofRat r
        | none => atom "nan-all")
  | _ => none

/-- `histsystem [edges] v slope [[score label] ...]` → `[factor [row ...] [rhs] [w2]]`: the factor of
`estimate_trials_and_successes` and the system the inner `fit_nnls` call hands to the NNLS solver -/
def opHistSystem : List V → Option V
  | [e, v, s, xs] => do
      let e ← phRats? e
      let v ← toRat? v
      let s ← toRat? s
      let xs ← phPsms? xs
      if !edgesOk e then some (atom "reject-value") else
      let k := constKern e v s []
      let tc := countsRat (histCounts (targetScores xs) e)
      let dc := countsRat (histCounts (decoyScores xs) e)
      let f := histFactorOf k tc dc
      let n := tc.reverse
      let kk := (dc.map (fun c => f * c)).reverse
      some (list [ofRat f, ofList (ofList ofRat) (fitRows n), ofList ofRat (fitRhs n kk), ofList ofRat (fitW2 n)])
  | _ => none

/-- `frompepsfull [edges] v slope [d] [[score label] ...] [ind]` → q-values -/
def opFromPepsFull : List V → Option V
  | [e, v, s, d, xs, ind] => do
      let e ← phRats? e
      let v ← toRat? v
      let s ← toRat? s
      let d ← phRats? d
      let xs ← phPsms? xs
      let ind ← toList? toNat? ind
      if !edgesOk e || d.length + 1 != e.length then some (atom "reject-value") else
      if !validInd (xs.map (·.1)) ind then some (atom "reject-bad-argsort") else
      some (match fromPepsFullOf (constKern e v s d) xs ind with
        | some r => ofList ofRat r
        | none => atom "reject-value")
  | _ => none

/-- `fromcountsfull [edges] v slope [[score label] ...] [ind]` → q-values | `inf-all` | `nan-all` -/
def opFromCountsFull : List V → Option V
  | [e, v, s, xs, ind] => do
      let e ← phRats? e
      let v ← toRat? v
      let s ← toRat? s
      let xs ← phPsms? xs
      let ind ← toList? toNat? ind
      if !edgesOk e || xs.isEmpty then some (atom "reject-value") else
      if !validInd (xs.map (·.1)) ind then some (atom "reject-bad-argsort") else
      if numDecoys xs == 0 then some (atom "nan-all") else
      some (match fromCountsFullOf (constKern e v s []) xs ind with
        | some r => ofList ofRat r
        | none => atom "inf-all")
  | _ => none

/-- `kdennlsfull [es] [target_pdf] [decoy_pdf] v slope [d] [score ...]` → PEPs (`kdeNnlsFullOf`: from the
densities on) -/
def opKdeNnlsFull : List V → Option V
  | [es, t, dp, v, s, d, scores] => do
      let es ← phRats? es
      let t ← phRats? t
      let dp ← phRats? dp
      let v ← toRat? v
      let s ← toRat? s
      let d ← phRats? d
      let scores ← phRats? scores
      if es.isEmpty || es.length != d.length || t.length != es.length || dp.length != es.length then
        some (atom "reject-value") else
      some (match kdeNnlsFullOf ⟨es, t, dp, v, s, fun _ _ => d⟩ scores with
        | some r => ofList ofRat r
        | none => atom "nan-all")
  | _ => none

end Mk.Ops.PepsHist

namespace Mk.Ops
open Mk Mk.V Mk.Ops.PepsHist

def pepsHistOps : List (String × (List V → Option V)) :=
  [("histdata", opHistData), ("fitsystem", opFitSystem), ("monosystem", opMonoSystem),
   ("histnnlsfull", opHistNnlsFull), ("histsystem", opHistSystem), ("frompepsfull", opFromPepsFull),
   ("fromcountsfull", opFromCountsFull), ("kdennlsfull", opKdeNnlsFull)]

end Mk.Ops
