import MokapotVerif.Wire
import MokapotVerif.Model.Pepxml
/-!
Driver glue for `Model/Pepxml.lean`.

Wire encoding of the abstract document
  file     ::= bad | [doc [run*]]
  run      ::= [base_name raw_data [spectrum*]]
  spectrum ::= [scan charge ret_time exp_mass [[hit*]*]]
  hit      ::= [calc_mass peptide protein opt(missed) opt(ntt) opt(nmatched) [child*]]
  child    ::= [m [[pos mass]*]] | [s name root opt(pow)] | [a protein]
  opt(x)   ::= none | [x]
-/
namespace Mk.Ops.Pepxml
open Mk V Mk.Pepxml

def toOpt? {β : Type} (f : V → Option β) : V → Option (Option β)
  | atom "none" => some none
  | list [x] => (f x).map some
  | _ => none

def toChars? (v : V) : Option Str := (toStr? v).map String.toList

def toMod? : V → Option Mod
  | list [p, m] => do pure { pos := ← toNat? p, mass := ← toChars? m }
  | _ => none

def toChild? : V → Option Child
  | list [atom "m", ms] => do pure (.mods (← toList? toMod? ms))
  | list [atom "s", n, r, p] => do
      pure (.score (← toStr? n) { root := ← toRat? r, pow := ← toOpt? toInt? p })
  | list [atom "a", a] => do pure (.alt (← toChars? a))
  | _ => none

def toHit? : V → Option Hit
  | list [cm, pep, prot, mc, ntt, nm, ch] => do
      pure { calcMass := ← toRat? cm, peptide := ← toChars? pep, protein := ← toChars? prot,
             missed := ← toOpt? toInt? mc, ntt := ← toOpt? toInt? ntt, nmatched := ← toOpt? toNat? nm,
             children := ← toList? toChild? ch }
  | _ => none

def toSpectrum? : V → Option Spectrum
  | list [sc, z, rt, em, rs] => do
      pure { scan := ← toInt? sc, charge := ← toInt? z, retTime := ← toRat? rt, expMass := ← toRat? em,
             results := ← toList? (toList? toHit?) rs }
  | _ => none

def toRun? : V → Option Run
  | list [b, e, ss] => do
      pure { baseName := ← toChars? b, rawData := ← toChars? e, spectra := ← toList? toSpectrum? ss }
  | _ => none

def toFile? : V → Option File
  | atom "bad" => some .malformed
  | list [atom "doc", rs] => do pure (.doc (← toList? toRun? rs))
  | _ => none

def ofChars (s : Str) : V := ofStr (String.ofList s)

def ofNum (n : Num) : V := list [ofRat n.root, ofOpt ofInt n.pow]

def ofCell : Cell → V
  | .int i => list [atom "i", ofInt i]
  | .text v => list [atom "t", ofNum v]

def ofRow (r : Row) : V :=
  list [ofChars r.msDataFile, ofInt r.scan, ofInt r.charge, ofRat r.retTime, ofRat r.expMass,
        ofRat r.calcMass, ofChars r.peptide, ofChars r.proteins, ofBool r.label,
        list (r.feats.map (fun kv => list [ofStr kv.1, ofCell kv.2]))]

def ofFV : FV → V
  | .missing => atom "nan"
  | .plain v => list [atom "p", ofRat v]
  | .log v => list [atom "l", ofRat v]
  | .logFill m => list [atom "f", ofRat m]
  | .sci r p => list [atom "e", ofRat r, ofInt p]

def ofErr : Err → V
  | .notXml => atom "reject-notxml"
  | .noPsms => atom "reject-nopsms"
  | .noFiles => atom "reject-nofiles"
  | .percolator => atom "reject-percolator"

def zeroCharge (f : File) : Bool :=
  match f with
  | .malformed => false
  | .doc runs => runs.any (fun r => r.spectra.any (fun s => s.charge == 0))

/-- `pepxml <prefix> [file*]` → model of `read_pepxml(files, decoy_prefix, to_df=True)`:
`[[row*] [[column [cell*]]*]]` or `reject-<kind>`.  Documents with an assumed
charge of 0 are outside the model (`exp_mass / 0` is IEEE ±inf/NaN): `unmodelled`. -/
def opPepxml : List V → Option V
  | [p, fs] => do
      let pfx ← toChars? p
      let files ← toList? toFile? fs
      if files.any zeroCharge then some (atom "unmodelled") else
      some (match readPepxml pfx files with
        | .error e => ofErr e
        | .ok t => list [list (t.rows.map ofRow),
                         list (t.feats.map (fun kc => list [ofStr kc.1, list (kc.2.map ofFV)]))])
  | _ => none

def monoPos : List Mod → Bool
  | [] => true
  | m :: ms => ms.all (fun m' => m.pos ≤ m'.pos) && monoPos ms

def modsOkB (pep : Str) (ms : List Mod) : Bool :=
  monoPos ms && ms.all (fun m => m.pos ≤ pep.length)

/-- the peptide the property promises, where it promises one: no `modification_info`
→ the plain peptide; one with ascending in-range positions → `specInsert` -/
def specPeptide (h : Hit) : Option Str :=
  match modLists h with
  | [] => some h.peptide
  | [ms] => if modsOkB h.peptide ms then some (specInsert h.peptide ms) else none
  | _ => none

def specRow (pfx : Str) (c : Run × Spectrum × Hit) : V :=
  let r := c.1; let s := c.2.1; let h := c.2.2
  list [ofChars r.baseName, ofChars r.rawData, ofInt s.scan, ofInt s.charge, ofRat s.retTime,
        ofRat s.expMass, ofRat h.calcMass, ofOpt ofChars (specPeptide h),
        list ((allAccs h).map ofChars), ofBool (specLabel pfx h),
        list ((scoresOf h).map (fun kv => list [ofStr kv.1, ofOpt ofNum (specScore h kv.1)]))]

/-- `pepxml-spec <prefix> [file*]` → the declarative specification evaluated on
the documents: one entry per search hit, in document order over all files. -/
def opSpec : List V → Option V
  | [p, fs] => do
      let pfx ← toChars? p
      let files ← toList? toFile? fs
      some (list (files.flatMap (fun f => match f with
        | .malformed => []
        | .doc runs => (hitContexts runs).map (specRow pfx))))
  | _ => none

/-- `logfeat [opt([root opt(pow)])*]` → `_log_features` on one column -/
def opLogFeat : List V → Option V
  | [cs] => do
      let col ← toList? (toOpt? (fun v => match v with
        | list [r, p] => do pure ({ root := ← toRat? r, pow := ← toOpt? toInt? p } : Num)
        | _ => none)) cs
      some (list ((logFeature col).map ofFV))
  | _ => none

/-- `insertmods <peptide> [[pos mass]*]` → `[model spec-or-none]` -/
def opInsertMods : List V → Option V
  | [p, ms] => do
      let pep ← toChars? p
      let ms ← toList? toMod? ms
      some (list [ofChars (insertMods pep ms),
                  ofOpt ofChars (if modsOkB pep ms then some (specInsert pep ms) else none)])
  | _ => none

/-! ### options (`exclude_features`, `open_modification_bin_size`, default `decoy_prefix`) -/

def ofXV : XV → V
  | .fv v => ofFV v
  | .cell none => atom "nan"
  | .cell (some (.int i)) => list [atom "i", ofInt i]
  | .cell (some (.text n)) => list [atom "t", ofNum n]
  | .flag b => list [atom "b", ofBool b]

/-- a `search_score` of such a name overwrites another key of the PSM dict / duplicates a derived
column (pepxml.py:307): outside the model -/
def reservedName (n : String) : Bool :=
  fixedCols.contains n || n == "mass_diff" || n == "abs_mz_diff" || n == "num_matched_peptides"
    || "charge_".isPrefixOf n

def hitReserved (h : Hit) : Bool := (scoresOf h).any (fun kv => reservedName kv.1)

def fileReserved (f : File) : Bool :=
  match f with
  | .malformed => false
  | .doc runs => (hitContexts runs).any (fun c => hitReserved c.2.2)

/-- `pepxml-opts opt(prefix) [file*] [excluded*] opt(bin)` → model of
`read_pepxml(files, [decoy_prefix,] exclude_features=…, open_modification_bin_size=…)`:
`[[[row opt(tag)]*] [[column [cell*]]*] [feature-column*]]` or `reject-<kind>`;
`unmodelled` for a charge of 0 or a bin size ≤ 0, `unmodelled-name` for a reserved score name. -/
def opPepxmlX : List V → Option V
  | [p, fs, ex, b] => do
      let pfx ← toOpt? toChars? p
      let files ← toList? toFile? fs
      let excl ← toList? toStr? ex
      let bin ← toOpt? toRat? b
      if files.any zeroCharge then some (atom "unmodelled") else
      if bin.any (fun x => decide (x ≤ 0)) then some (atom "unmodelled") else
      if files.any fileReserved then some (atom "unmodelled-name") else
      some (match readPepxmlX (pfx.getD defaultPrefix) excl bin files with
        | .error e => ofErr e
        | .ok t => list [list (t.rows.map (fun o => list [ofRow o.row, ofOpt ofRat o.tag])),
                         list (t.feats.map (fun kc => list [ofStr kc.1, list (kc.2.map ofXV)])),
                         list (t.featCols.map ofStr)])
  | _ => none

/-- `pepxml-reserved [file*]` → `T` iff some search score has a reserved name -/
def opReserved : List V → Option V
  | [fs] => do
      let files ← toList? toFile? fs
      some (ofBool (files.any fileReserved))
  | _ => none

/-! ### second pass: the optional-attribute columns (specification) -/

def attrKeys : List String := ["missed_cleavages", "ntt", "num_matched_peptides"]

def allContexts (files : List File) : List (Run × Spectrum × Hit) :=
  files.flatMap (fun f => match f with
    | .malformed => []
    | .doc runs => hitContexts runs)

/-- the column the property promises for an optional-attribute key, where the theorems of
`Props/C20Attrs.lean` promise one: `none` = no such column (no hit has a cell under the key);
`model-only` = a search score bears the attribute's name or a value is ≥ 10000 -/
def specAttrColumn (ctxs : List (Run × Spectrum × Hit)) (k : String) : V :=
  if ctxs.any (fun c => (scoresOf c.2.2).any (fun kv => kv.1 == k)) then atom "model-only"
  else if ctxs.all (fun c => (attrOf c.2.2 k).isNone) then atom "none"
  else if k == "num_matched_peptides" then list (ctxs.map (fun c => ofFV (nmSpecCell c.2.2.nmatched)))
  else if ctxs.any (fun c => (attrOf c.2.2 k).any (fun i => decide (10000 ≤ i))) then atom "model-only"
  else list (ctxs.map (fun c => ofFV (attrCell (attrOf c.2.2 k))))

/-- `pepxml-attrs [file*]` → for each of the three optional-attribute keys
`[key [specified dict cell of every hit*] specified column]` (hits in document order over all files) -/
def opAttrs : List V → Option V
  | [fs] => do
      let files ← toList? toFile? fs
      let ctxs := allContexts files
      some (list (attrKeys.map (fun k =>
        list [ofStr k, list (ctxs.map (fun c => ofXV (.cell (specCell c.2.2 k)))), specAttrColumn ctxs k])))
  | _ => none

end Mk.Ops.Pepxml

namespace Mk.Ops
open Mk V Mk.Ops.Pepxml

def pepxmlOps : List (String × (List V → Option V)) :=
  [("pepxml", opPepxml), ("pepxml-spec", opSpec), ("logfeat", opLogFeat), ("insertmods", opInsertMods),
   ("pepxml-opts", opPepxmlX), ("pepxml-reserved", opReserved), ("pepxml-attrs", opAttrs)]

end Mk.Ops
