import MokapotVerif.Wire
import MokapotVerif.Model.PepsTool
/-! Driver glue for `Model/PepsTool.lean` (C06: roll-up tool, columns of the result files). -/
namespace Mk.Ops.PepsTool
open Mk Mk.V Mk.Peps

def ptRats? (v : V) : Option (List Rat) := toList? toRat? v

def ptRow (o : ORow) : V := list [ofNat o.id, ofRat o.score, ofRat o.q, ofRat o.pep]

def ptLRow? : V → Option LRow
  | list [i, s, t] => do some { id := ← toNat? i, score := ← toRat? s, target := ← toBool? t }
  | _ => none

def ptPepCall? : V → Option PepCall
  | atom "exit-no-decoys" => some .exitNoDecoys
  | atom "exit-other" => some .exitOther
  | atom "raised" => some .raised
  | v => (ptRats? v).map .ok

/-- `rolluplevelfiles [[id score target] ...] [q ...] pepcall` → `[[[id score q pep] ...] [[...] ...]]` |
`reject-<error>` -/
def opRollupLevelFiles : List V → Option V
  | [rows, qs, pc] => do
      let rows ← toList? ptLRow? rows
      let qs ← ptRats? qs
      let pc ← ptPepCall? pc
      some (match rollupLevelFiles (fun _ => qs) (fun _ => pc) rows with
        | .ok f => list [ofList ptRow f.1, ofList ptRow f.2]
        | .error e => atom ("reject-" ++ e))
  | _ => none

def ptCol? (v : V) : Option Col := (toStr? v).map String.toList
def ptCols (cs : List Col) : V := ofList (fun c => ofStr (String.ofList c)) cs

/-- `pepcolumns level target [extra level columns]` → `[[header names] [names of the data cells, q_value read
as q-value] [columns of the level file]]` of the result files of that level -/
def opPepColumns : List V → Option V
  | [lv, t, ex] => do
      let lv ← ptCol? lv
      let t ← ptCol? t
      let ex ← toList? ptCol? ex
      some (if lv = lvProteins then
          list [ptCols headerColsProteins, ptCols ((dataCols lv t (proteinFileCols t)).map headerName),
                ptCols (proteinFileCols t)]
        else list [ptCols (headerCols ex), ptCols ((dataCols lv t (levelFileCols t ex)).map headerName),
                   ptCols (levelFileCols t ex)])
  | _ => none

end Mk.Ops.PepsTool

namespace Mk.Ops
open Mk Mk.V Mk.Ops.PepsTool

def pepsToolOps : List (String × (List V → Option V)) :=
  [("rolluplevelfiles", opRollupLevelFiles), ("pepcolumns", opPepColumns)]

end Mk.Ops
