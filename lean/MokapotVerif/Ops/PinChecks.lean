import MokapotVerif.Wire
import MokapotVerif.Model.PinChecks
import MokapotVerif.Ops.Pin
/-! Driver glue for `Model/PinChecks.lean` (wire format of names, optional names,
arguments and datasets as in `Ops/Pin.lean`; a type is a string atom). -/
namespace Mk.Ops.PinChecks
open Mk V Mk.Pin Mk.Ops.Pin

def toSpectraCol? (v : V) : Option (Name × List Cell) := toPair? toName? (toList? toCell?) v

/-- the inverse of `Ops/Pin.lean: ofDataset` -/
def toDataset? : V → Option Dataset
  | list [cols, tg, sp, pep, prot, feats, mdat, lvl, fnm, scan, sid, cm, em, rt, ch, spectra, targets] => do
      pure { columns := ← toList? toName? cols, target := ← toName? tg, spectrum := ← toList? toName? sp,
             peptide := ← toName? pep, protein := ← toName? prot, features := ← toList? toName? feats,
             metadata := ← toList? toName? mdat, level := ← toList? toName? lvl, filename := ← toOptName? fnm,
             scan := ← toName? scan, specid := ← toName? sid, calcmass := ← toOptName? cm,
             expmass := ← toOptName? em, rt := ← toOptName? rt, charge := ← toOptName? ch,
             spectra := ← toList? toSpectraCol? spectra, targets := ← toList? toBool? targets }
  | _ => none

def toOptHeader? : V → Option (Option (List Name))
  | atom "none" => some none
  | list [x] => (toList? toName? x).map some
  | _ => none

/-- `pin-checks none|[[name ...]] dataset` → `[ok|reject-columncheck culprit stored-unchanged?]`:
`OnDiskPsmDataset.__init__` on arbitrary field values -/
def opPinChecks : List V → Option V
  | [fc, d] => do
      let fc ← toOptHeader? fc
      let d ← toDataset? d
      let (status, same) := match onDiskInit fc d with
        | .ok d' => ("ok", decide (d' = d))
        | .error e => (errName e, true)
      some (list [atom status, ofOpt ofName (onDiskCulprit fc d), ofBool same])
  | _ => none

/-- `pin-types [args] [[name type] ...]` → the metadata column types, `reject-index` where
`list.index` raises, or `reject-<kind>` of the look-ups -/
def opPinTypes : List V → Option V
  | [a, tc] => do
      let args ← toArgs? a
      let tcols ← toList? (toPair? toName? toStr?) tc
      match metadataTypes args tcols with
      | .ok (some tys) => some (ofList ofStr tys)
      | .ok none => some (atom "reject-index")
      | .error e => some (atom (errName e))
  | _ => none

/-- `pin-labels-u64 [cell ...]` → `[result admissible?]`: `convert_targets_column` on an integer label
column typed unsigned 64-bit; result = the target flags or `reject-<kind>` -/
def opPinLabelsU64 : List V → Option V
  | [cs] => do
      let cells ← toList? toCell? cs
      let res := match convertTargetsU64 cells with
        | .ok bs => ofList ofBool bs
        | .error e => atom (errName e)
      some (list [res, ofBool (labelOk cells)])
  | _ => none

end Mk.Ops.PinChecks

namespace Mk.Ops
open Mk V Mk.Ops.PinChecks

def pinChecksOps : List (String × (List V → Option V)) :=
  [("pin-checks", opPinChecks), ("pin-types", opPinTypes), ("pin-labels-u64", opPinLabelsU64)]

end Mk.Ops
