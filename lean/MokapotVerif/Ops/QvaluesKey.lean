import MokapotVerif.Wire
import MokapotVerif.Model.Qvalues
import MokapotVerif.Model.QvaluesArr
import MokapotVerif.Model.QvaluesKey
/-! Driver glue for `Model/QvaluesKey.lean` (`tdc` with the score dtype explicit). -/
namespace Mk.Ops.QvaluesKey
open Mk Mk.Qv V

def scoreArr? : V → V → Option ScoreArr
  | atom "float", xs => (toList? toRat? xs).map ScoreArr.floats
  | atom "int", xs => (toList? toInt? xs).map ScoreArr.ints
  | _, _ => none

def labelArr? : V → V → Option LabelArr
  | atom "bool", xs => (toList? toBool? xs).map LabelArr.bools
  | atom "int", xs => (toList? toInt? xs).map LabelArr.ints
  | atom "float", xs => (toList? toRat? xs).map LabelArr.floats
  | _, _ => none

def ofErr : TdcErr → V
  | .notBoolean => atom "reject-labels"
  | .lengthMismatch => atom "reject-length"

def ofRes {β : Type} (f : β → V) : Except TdcErr (Option (List β)) → V
  | .ok (some q) => ofList f q
  | .ok none => atom "fail"
  | .error e => ofErr e

/-- `tdcentry <desc> <float|int> [score ...] <bool|int|float> [label ...]` → `tdc` as called -/
def opTdcEntry : List V → Option V
  | [d, sk, ss, lk, ls] => do
      let desc ← toBool? d
      let scores ← scoreArr? sk ss
      let labels ← labelArr? lk ls
      some (ofRes ofRat (tdcEntry desc scores labels))
  | _ => none

/-- `labelsentry <desc> <thr> <float|int> [score ...] <bool|int|float> [label ...]` -/
def opLabelsEntry : List V → Option V
  | [d, t, sk, ss, lk, ls] => do
      let desc ← toBool? d
      let thr ← toRat? t
      let scores ← scoreArr? sk ss
      let labels ← labelArr? lk ls
      some (ofRes ofInt (updateLabelsEntry desc thr scores labels))
  | _ => none

/-- `f32ofint [int ...]` → the float32 value of each integer -/
def opF32OfInt : List V → Option V
  | [xs] => do
      let is ← toList? toInt? xs
      some (ofList ofInt (is.map f32OfInt))
  | _ => none

/-- `f64ofint [int ...]` → the float64 value of each integer (the cast of qvalues.py:107) -/
def opF64OfInt : List V → Option V
  | [xs] => do
      let is ← toList? toInt? xs
      some (ofList ofInt (is.map f64OfInt))
  | _ => none

end Mk.Ops.QvaluesKey

namespace Mk.Ops
open Mk V

def qvaluesKeyOps : List (String × (List V → Option V)) :=
  [("tdcentry", QvaluesKey.opTdcEntry), ("labelsentry", QvaluesKey.opLabelsEntry),
   ("f32ofint", QvaluesKey.opF32OfInt), ("f64ofint", QvaluesKey.opF64OfInt)]

end Mk.Ops
