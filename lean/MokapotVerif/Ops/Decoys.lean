import MokapotVerif.Wire
import MokapotVerif.Model.Decoys
import MokapotVerif.Model.DecoysAnyInput
/-! Driver glue for `Model/Decoys.lean` (C18). -/
namespace Mk.Ops.Decoys
open Mk V

abbrev Entry := List Char × List Char

def chars? (v : V) : Option (List Char) := (toStr? v).map String.toList
def entries? (v : V) : Option (List Entry) := toList? (toPair? chars? chars?) v
def ofChars (l : List Char) : V := ofStr (String.ofList l)
def ofEntries (es : List Entry) : V := ofList (fun e => V.list [ofChars e.1, ofChars e.2]) es

/-- residue class given by its members -/
def classOf (cs : List Char) : Char → Bool := fun c => cs.contains c

/-- the recorded draws `[[n [i …]] …]` as a family; lengths never drawn map to `[]` (the
ops check beforehand that no such length is needed) -/
def famOf (tbl : List (Nat × List Nat)) : Nat → List Nat := fun n => (tbl.lookup n).getD []

def perms? (v : V) : Option (List (Nat × List Nat)) := toList? (toPair? toNat? (toList? toNat?)) v

/-- interior lengths for which `_shuffle_proteins` needs a permutation -/
def neededLens (sites : List Nat) : List Nat :=
  (Mk.Decoys.pairs sites).filterMap (fun p => if p.2 - 1 - (p.1 + 1) ≤ 1 then none else some (p.2 - 1 - (p.1 + 1)))

def permsCover (reverse : Bool) (tbl : List (Nat × List Nat)) (cut block : Char → Bool)
    (ts : List Entry) : Bool :=
  reverse || ts.all (fun t => (neededLens (Mk.Decoys.cleavageSites cut block t.2)).all (fun n => (tbl.lookup n).isSome))

/-- `c18-mkdecoys perms prefix cut block reverse concat w [file …]` → text of the output file -/
def opMkDecoys : List V → Option V
  | [p, pre, cut, block, rev, con, w, files] => do
      let tbl ← perms? p
      let pre ← chars? pre
      let cut ← chars? cut
      let block ← chars? block
      let rev ← toBool? rev
      let con ← toBool? con
      let w ← toNat? w
      let files ← toList? chars? files
      match Mk.Decoys.parseFasta files with
      | none => some (atom "reject-index")
      | some ts =>
        if !permsCover rev tbl (classOf cut) (classOf block) ts then some (atom "missing-perm") else
        match Mk.Decoys.makeDecoys (Mk.Decoys.permsOf rev (famOf tbl)) pre (classOf cut) (classOf block) con w files with
        | none => some (atom "reject-index")
        | some out => some (ofChars out)
  | _ => none

/-- `c18-parse [file …]` → `[[name seq] …]` -/
def opFastaParse : List V → Option V
  | [files] => do
      let files ← toList? chars? files
      match Mk.Decoys.parseFasta files with
      | none => some (atom "reject-index")
      | some ts => some (ofEntries ts)
  | _ => none

/-- `c18-roundtrip w [[name seq] …]` → entries read back from the rendered text -/
def opFastaRt : List V → Option V
  | [w, es] => do
      let w ← toNat? w
      let es ← entries? es
      match Mk.Decoys.parseFasta [Mk.Decoys.renderFasta w es] with
      | none => some (atom "reject-index")
      | some ts => some (ofEntries ts)
  | _ => none

/-- `c18-sites cut block seq` → cleavage sites -/
def opSites18 : List V → Option V
  | [cut, block, s] => do
      let cut ← chars? cut
      let block ← chars? block
      let s ← chars? s
      some (ofList ofNat (Mk.Decoys.cleavageSites (classOf cut) (classOf block) s))
  | _ => none

/-- first failing clause for one target/decoy pair (`none` = all hold).  The conjunction of
the clauses is `pepsOK` (any enzyme) resp. `seqOK` (residue class: plus equal sites). -/
def seqClause (cut block : Char → Bool) (resClass reverse : Bool) (t d : List Char) : Option String :=
  if !(d.length == t.length) then some "length" else
  if !(d.isPerm t) then some "composition" else
  if !((Mk.Decoys.pairs (Mk.Decoys.cleavageSites cut block t)).all (fun p =>
      (Mk.Decoys.slice d p.1 p.2).head? == (Mk.Decoys.slice t p.1 p.2).head? &&
      (Mk.Decoys.slice d p.1 p.2).getLast? == (Mk.Decoys.slice t p.1 p.2).getLast?)) then some "termini" else
  if !((Mk.Decoys.pairs (Mk.Decoys.cleavageSites cut block t)).all (fun p => (Mk.Decoys.slice d p.1 p.2).isPerm (Mk.Decoys.slice t p.1 p.2)))
    then some "peptide-composition" else
  if reverse && !((Mk.Decoys.pairs (Mk.Decoys.cleavageSites cut block t)).all (fun p =>
      Mk.Decoys.interior (Mk.Decoys.slice d p.1 p.2) == (Mk.Decoys.interior (Mk.Decoys.slice t p.1 p.2)).reverse)) then some "reverse-interior" else
  if !(Mk.Decoys.pepsOK cut block reverse t d) then some "peptides" else
  if resClass && !(Mk.Decoys.seqOK cut reverse t d) then some "sites" else none

def firstSome {β : Type} : List (Option β) → Option β
  | [] => none
  | some b :: _ => some b
  | none :: rest => firstSome rest

/-- `spec-C18 prefix cut block reverse concat [[tname tseq] …] [[oname oseq] …]`:
targets (as parsed from the inputs) against the entries re-read from the output file -/
def opSpecC18 : List V → Option V
  | [pre, cut, block, rev, con, ts, os] => do
      let pre ← chars? pre
      let cut ← chars? cut
      let block ← chars? block
      let rev ← toBool? rev
      let con ← toBool? con
      let ts ← entries? ts
      let os ← entries? os
      let nT := if con then ts.length else 0
      if os.length != nT + ts.length then some (atom "fail-count") else
      if con && os.take nT != ts then some (atom "fail-targets-first") else
      let ds := os.drop nT
      if ds.map (·.1) != ts.map (fun t => pre ++ t.1) then some (atom "fail-name") else
      match firstSome (List.zipWith (fun t d =>
          seqClause (classOf cut) (classOf block) block.isEmpty rev t.2 d.2) ts ds) with
      | some c => some (atom ("fail-" ++ c))
      | none => some (atom "ok")
  | _ => none

/-! ### stateful run (`perms` dict + recorded generator calls), arbitrary enzymes, file-level checker -/

/-- generator oracle from the calls recorded in the implementation run: the `k`-th recorded
result; a missing record yields `[]`, which is no permutation of `n ≥ 2` elements — the run then
differs visibly, and the returned call count exceeds the number of records -/
def rngOf (draws : Array (List Nat)) : Nat → Nat → List Nat := fun k _ => (draws[k]?).getD []

inductive Enz where
  | cls (cut block : List Char)
  | tbl (t : List (List Char × List Nat))

def enz? : V → Option Enz
  | V.list [V.atom "class", cut, block] => do
      let c ← chars? cut
      let b ← chars? block
      some (Enz.cls c b)
  | V.list [V.atom "table", t] => do
      let t ← toList? (toPair? chars? (toList? toNat?)) t
      some (Enz.tbl t)
  | _ => none

/-- `[m.end() for m in enzyme_regex.finditer(seq)]` -/
def Enz.ends : Enz → List Char → List Nat
  | Enz.cls c b => Mk.Decoys.matchEnds (classOf c) (classOf b) 0
  | Enz.tbl t => fun s => (t.lookup s).getD []

/-- the table covers every target and every site list is what a regex engine can produce
(hypothesis `EndsOK` of the theorems) -/
def Enz.covers (e : Enz) (ts : List Entry) : Option String :=
  match e with
  | Enz.cls _ _ => none
  | Enz.tbl t =>
    if !ts.all (fun x => (t.lookup x.2).isSome) then some "missing-sites"
    else if !ts.all (fun x => Mk.Decoys.sitesOKb x.2.length (Mk.Decoys.cleavageSitesOf e.ends x.2)) then some "bad-sites"
    else none

def old? : V → Option (Option (List Char))
  | V.atom "none" => some none
  | V.list [t] => (chars? t).map some
  | _ => none

/-- `c18-run draws enz prefix reverse concat w old [file …]` → `[text calls draws_are_permutations]` -/
def opRun : List V → Option V
  | [d, e, pre, rev, con, w, old, files] => do
      let draws ← toList? (toList? toNat?) d
      let e ← enz? e
      let pre ← chars? pre
      let rev ← toBool? rev
      let con ← toBool? con
      let w ← toNat? w
      let old ← old? old
      let files ← toList? chars? files
      -- a site table must cover the targets (a residue class needs no such check)
      let bad : Option String := match e with
        | Enz.cls _ _ => none
        | Enz.tbl _ => (Mk.Decoys.parseFasta files).bind e.covers
      match bad with
      | some msg => some (atom msg)
      | none =>
        match Mk.Decoys.makeDecoysS rev (rngOf draws.toArray) pre e.ends con w old files with
        | none => some (atom "reject-index")
        | some (out, k) =>
          some (V.list [ofChars out, ofNat k,
            ofBool (draws.all (fun p => p.isPerm (List.range p.length)))])
  | _ => none

/-- `c18-run-default draws old [file …]`: every option at its default -/
def opRunDefault : List V → Option V
  | [d, old, files] => do
      let draws ← toList? (toList? toNat?) d
      let old ← old? old
      let files ← toList? chars? files
      match Mk.Decoys.makeDecoysDefault (rngOf draws.toArray) old files with
      | none => some (atom "reject-index")
      | some (out, k) => some (V.list [ofChars out, ofNat k])
  | _ => none

/-- first failing clause for one pair at explicit sites -/
def seqClauseAt (sites : List Nat) (cls : Option (Char → Bool)) (reverse : Bool) (t d : List Char) : Option String :=
  if !(d.length == t.length) then some "length" else
  if !(d.isPerm t) then some "composition" else
  if !((Mk.Decoys.pairs sites).all (fun p =>
      (Mk.Decoys.slice d p.1 p.2).head? == (Mk.Decoys.slice t p.1 p.2).head? &&
      (Mk.Decoys.slice d p.1 p.2).getLast? == (Mk.Decoys.slice t p.1 p.2).getLast?)) then some "termini" else
  if !((Mk.Decoys.pairs sites).all (fun p => (Mk.Decoys.slice d p.1 p.2).isPerm (Mk.Decoys.slice t p.1 p.2)))
    then some "peptide-composition" else
  if reverse && !((Mk.Decoys.pairs sites).all (fun p =>
      Mk.Decoys.interior (Mk.Decoys.slice d p.1 p.2) == (Mk.Decoys.interior (Mk.Decoys.slice t p.1 p.2)).reverse)) then some "reverse-interior" else
  if !(Mk.Decoys.pepsOKAt sites reverse t d) then some "peptides" else
  if (cls.map (fun cut => Mk.Decoys.cleavageSites cut Mk.Decoys.noBlock d != Mk.Decoys.cleavageSites cut Mk.Decoys.noBlock t)).getD false
    then some "sites" else none

/-- `spec-C18-file prefix enz reverse concat [[tname tseq] …] [[oname oseq] …]`: the proved
file-level checker `fileOK` (`C18_make_decoys_any_rng(_class)`); the clause name is diagnostic -/
def opSpecFile : List V → Option V
  | [pre, e, rev, con, ts, os] => do
      let pre ← chars? pre
      let e ← enz? e
      let rev ← toBool? rev
      let con ← toBool? con
      let ts ← entries? ts
      let os ← entries? os
      match e.covers ts with
      | some msg => some (atom msg)
      | none =>
        let cls : Option (Char → Bool) := match e with
          | Enz.cls c [] => some (classOf c)
          | _ => none
        let sitesOf := Mk.Decoys.cleavageSitesOf e.ends
        if Mk.Decoys.fileOK pre sitesOf cls rev con ts os then some (atom "ok") else
        let nT := if con then ts.length else 0
        if os.length != nT + ts.length then some (atom "fail-count") else
        if con && os.take nT != ts then some (atom "fail-targets-first") else
        let ds := os.drop nT
        if ds.map (·.1) != ts.map (fun t => pre ++ t.1) then some (atom "fail-name") else
        match firstSome (List.zipWith (fun t d => seqClauseAt (sitesOf t.2) cls rev t.2 d.2) ts ds) with
        | some c => some (atom ("fail-" ++ c))
        | none => some (atom "fail-file")
  | _ => none

/-- `c18-defaults` → `[prefix cut width]` as the model has them -/
def opDefaults : List V → Option V
  | [] => some (V.list [ofChars Mk.Decoys.defaultPrefix,
      ofChars ("ABCDEFGHIJKLMNOPQRSTUVWXYZ".toList.filter Mk.Decoys.defaultCut), ofNat Mk.Decoys.wrapWidth])
  | _ => none

/-! ### second pass: call-count spec, declarative input layouts -/

/-- `spec-C18-calls reverse [[site …] …] calls allId noneId` → `[verdict distinct]`: the proved spec of
the number of generator calls (`callsOK`, `C18_calls_checker_sound`) on site lists computed by the
caller (one list per protein, in file order) -/
def opSpecCalls : List V → Option V
  | [rev, sites, calls, allId, noneId] => do
      let rev ← toBool? rev
      let sites ← toList? (toList? toNat?) sites
      let calls ← toNat? calls
      let allId ← toBool? allId
      let noneId ← toBool? noneId
      let lens := sites.flatMap Mk.Decoys.neededLens
      some (V.list [atom (if Mk.Decoys.callsOK rev lens calls allId noneId then "ok" else "fail-calls"),
        ofNat (Mk.Decoys.distinctLens lens)])
  | _ => none

def eol? : V → Option Mk.Decoys.Eol
  | V.atom "lf" => some Mk.Decoys.Eol.lf
  | V.atom "crlf" => some Mk.Decoys.Eol.crlf
  | V.atom "cr" => some Mk.Decoys.Eol.cr
  | _ => none

def optChars? : V → Option (Option (List Char))
  | V.atom "none" => some none
  | V.list [t] => (chars? t).map some
  | _ => none

def rec? : V → Option Mk.Decoys.FastaRec
  | V.list [n, d, ls] => do
      let n ← chars? n
      let d ← optChars? d
      let ls ← toList? chars? ls
      some ⟨n, d, ls⟩
  | _ => none

def breakFreeb (l : List Char) : Bool := l.all (fun c => !Mk.Decoys.isBreak c)

/-- executable form of the hypothesis `RecOK` of `C18_fasta_input_parse` -/
def recOKb (r : Mk.Decoys.FastaRec) : Bool :=
  r.name.all (fun c => c != ' ' && !Mk.Decoys.isBreak c) &&
  (r.desc.map breakFreeb).getD true &&
  r.lines.all (fun l => l.all (fun c => !Mk.Decoys.isBreak c && c != '>')) &&
  (!r.header.isEmpty || !r.lines.isEmpty)

/-- `c18-layout [[eol [[name desc lines] …]] …]` → `[[text …] [[name seq] …] hypotheses_hold]`: the
declaratively described input rendered to file texts, and the proteins it denotes
(`C18_fasta_input_parse`: what the reader must return when the hypotheses hold) -/
def opLayout : List V → Option V
  | [fs] => do
      let fss ← toList? (toPair? eol? (toList? rec?)) fs
      let texts := fss.map (fun p => Mk.Decoys.encodeEol p.1 (Mk.Decoys.fastaFileText p.2))
      let entries := (fss.flatMap (·.2)).map Mk.Decoys.FastaRec.entry
      let ok := !fss.isEmpty && fss.all (fun p => !p.2.isEmpty && p.2.all recOKb)
      some (V.list [ofList ofChars texts, ofEntries entries, ofBool ok])
  | _ => none

def file? : V → Option (Mk.Decoys.Eol × Mk.Decoys.FastaFile)
  | V.list [e, lead, rs] => do
      let e ← eol? e
      let lead ← toNat? lead
      let rs ← toList? rec? rs
      some (e, ⟨lead, rs⟩)
  | _ => none

/-- `c18-input [[eol lead [[name desc lines] …]] …]` → `[[text …] [[name seq] …] hypotheses_hold parsed]`:
an input described declaratively *without* restriction on the files (empty files, files of blank
lines, blank lines before the first record, no file at all) rendered to file texts, the proteins it
denotes (`fastaInputEntries`; `C18_fasta_input_parse_any`: what the reader must return when every
record satisfies `RecOK`), and what the model reader makes of the rendered texts (`parseFastaInput`) -/
def opInput : List V → Option V
  | [fs] => do
      let fss ← toList? file? fs
      let texts := fss.map (fun p => Mk.Decoys.encodeEol p.1 p.2.text)
      let entries := Mk.Decoys.fastaInputEntries (fss.map (·.2))
      let ok := fss.all (fun p => p.2.recs.all recOKb)
      let parsed := match Mk.Decoys.parseFastaInput fss with
        | none => atom "reject-index"
        | some ts => ofEntries ts
      some (V.list [ofList ofChars texts, ofEntries entries, ofBool ok, parsed])
  | _ => none

end Mk.Ops.Decoys

namespace Mk.Ops
open Mk V

def decoysOps : List (String × (List V → Option V)) :=
  [("c18-mkdecoys", Decoys.opMkDecoys), ("c18-parse", Decoys.opFastaParse), ("c18-roundtrip", Decoys.opFastaRt),
   ("c18-sites", Decoys.opSites18), ("spec-C18", Decoys.opSpecC18),
   ("c18-run", Decoys.opRun), ("c18-run-default", Decoys.opRunDefault), ("spec-C18-file", Decoys.opSpecFile),
   ("c18-defaults", Decoys.opDefaults), ("spec-C18-calls", Decoys.opSpecCalls), ("c18-layout", Decoys.opLayout),
   ("c18-input", Decoys.opInput)]

end Mk.Ops
