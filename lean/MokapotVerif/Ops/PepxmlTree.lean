import MokapotVerif.Wire
import MokapotVerif.Model.PepxmlTree
import MokapotVerif.Ops.Pepxml
/-!
Driver glue for `Model/PepxmlTree.lean`.

Wire encoding of an element tree
  elem ::= [tag [[key aval]*] [elem*]]
  aval ::= [t text] | [i int] | [q rat] | [n root opt(pow)]
The answer re-encodes the abstract document in the encoding of `Ops/Pepxml.lean`.
-/
namespace Mk.Ops.PepxmlTree
open Mk V Mk.Pepxml Mk.Ops.Pepxml

def toAVal? : V → Option AVal
  | list [atom "t", s] => (toChars? s).map AVal.text
  | list [atom "i", i] => (toInt? i).map AVal.int
  | list [atom "q", q] => (toRat? q).map AVal.rat
  | list [atom "n", r, p] => do pure (AVal.num { root := ← toRat? r, pow := ← toOpt? toInt? p })
  | _ => none

def toAttr? : V → Option (String × AVal)
  | list [k, v] => do pure (← toStr? k, ← toAVal? v)
  | _ => none

partial def toElem? : V → Option Elem
  | list [t, list as, list ks] => do
      pure (Elem.node (← toStr? t) (← as.mapM toAttr?) (← ks.mapM toElem?))
  | _ => none

def ofMod (m : Mod) : V := list [ofNat m.pos, ofChars m.mass]

def ofChild : Child → V
  | .mods ms => list [atom "m", list (ms.map ofMod)]
  | .score n v => list [atom "s", ofStr n, ofRat v.root, ofOpt ofInt v.pow]
  | .alt a => list [atom "a", ofChars a]

def ofHit (h : Hit) : V :=
  list [ofRat h.calcMass, ofChars h.peptide, ofChars h.protein, ofOpt ofInt h.missed, ofOpt ofInt h.ntt,
        ofOpt ofNat h.nmatched, list (h.children.map ofChild)]

def ofSpectrum (s : Spectrum) : V :=
  list [ofInt s.scan, ofInt s.charge, ofRat s.retTime, ofRat s.expMass,
        list (s.results.map (fun res => list (res.map ofHit)))]

def ofRun (r : Run) : V := list [ofChars r.baseName, ofChars r.rawData, list (r.spectra.map ofSpectrum)]

def ofTErr : TErr → V
  | .raises => atom "raises"
  | .unmodelled => atom "unmodelled"

/-- `pepxml-tree <prefix> elem` → `[abstract-document number-of-records hits-counted-on-the-tree]`:
the document that the tree walk reads (`[doc [run*]]`), or `raises` / `unmodelled`; the number of records of
`treeRows` (`none` when it fails); `treeHitCount`. -/
def opTree : List V → Option V
  | [p, t] => do
      let pfx ← toChars? p
      let root ← toElem? t
      let doc := match runsOfTree root with
        | .ok runs => list [atom "doc", list (runs.map ofRun)]
        | .error e => ofTErr e
      let n := match treeRows pfx root with
        | .ok rows => some rows.length
        | .error _ => none
      some (list [doc, ofOpt ofNat n, ofNat (treeHitCount root)])
  | _ => none

end Mk.Ops.PepxmlTree

namespace Mk.Ops
open Mk V Mk.Ops.PepxmlTree

def pepxmlTreeOps : List (String × (List V → Option V)) := [("pepxml-tree", opTree)]

end Mk.Ops
