import MokapotVerif.Wire
import MokapotVerif.Model.FsRunSized
import MokapotVerif.Ops.FsRun
/-! Driver glue for `Model/FsRunSized.lean` (C09, second extension): collections given by their
sizes (rows of the table, length of the score array, `CONFIDENCE_CHUNK_SIZE`), the run with a
SQLite result database.  Names, operations and listings are printed as in `Ops/FsRun.lean`. -/
namespace Mk.Ops.FsRunSized
open Mk V Mk.FsRun Mk.Ops.FsRun

/-- sized collections on the wire: `[[prefix nrows nscores]…]` -/
def sized? (v : V) : Option (List SizedColl) :=
  toList? (fun e => match e with
    | list [p, r, s] => do
        let p ← pfx? p
        let r ← toNat? r
        let s ← toNat? s
        some ⟨p, r, s⟩
    | _ => none) v

def withSized (k : Bool → Nat → Bool → Bool → Nat → List SizedColl → Option V) : List V → Option V
  | pr :: nl :: d :: app :: ch :: ss :: _ => do
      let pr ← toBool? pr
      let nl ← toNat? nl
      let d ← toBool? d
      let app ← toBool? app
      let ch ← toNat? ch
      let ss ← sized? ss
      k pr nl d app ch ss
  | _ => none

/-- why a call is refused: `reject-valueerror` = `proteins` without a peptide level (nothing
written), `reject-lengths` = a written chunk whose score slice has another length (`ValueError`
out of `DataFrame.assign`), `reject-scores` = more score chunks than table chunks (`ValueError`
before the merge) -/
def refusal (pr : Bool) (nl : Nat) (ch : Nat) (ss : List SizedColl) : V :=
  if pr && decide (nl < 2) then atom "reject-valueerror"
  else if ss.all (fun s => lensAgree s.nrows s.nscores ch) then atom "reject-scores"
  else atom "reject-lengths"

/-- `fssized <prot> <nl> <decoys> <append> <chunk> [[prefix nrows nscores]…]` → the operation list
of `assign_confidence`, or the reason why the call is refused -/
def opFsSized : List V → Option V :=
  withSized fun pr nl d app ch ss =>
    match demoAssignSized pr nl d app ch ss with
    | some prog => some (list (prog.map opV))
    | none => some (refusal pr nl ch ss)

/-- `fswellinitsized …` → does the operation list pass the check with nothing known? -/
def opFsWellInitSized : List V → Option V :=
  withSized fun pr nl d app ch ss =>
    match demoAssignSized pr nl d app ch ss with
    | some prog => some (ofBool (wellInit [] prog))
    | none => some (refusal pr nl ch ss)

/-- `fssizedold …` → the operation list of the call before the repair of F4 (more score chunks
than table chunks are merged), or the reason of the refusal -/
def opFsSizedOld : List V → Option V :=
  withSized fun pr nl d app ch ss =>
    match demoAssignSizedOld pr nl d app ch ss with
    | some prog => some (list (prog.map opV))
    | none => some (refusal pr nl ch ss)

/-- `fssizedrefused <prot> <nl> <decoys> <append> <chunk> [[prefix nrows nscores]…]` →
`[completed [ops…]]`: the operations performed up to the end of the call or up to its refusal
because of surplus scores (collections before the refused one are complete) -/
def opFsSizedRefused : List V → Option V :=
  withSized fun pr nl d app ch ss =>
    let r := demoRunChecked pr nl d app ch ss
    some (list [ofBool r.2, list (r.1.map opV)])

/-- `fslistrefused … [[kind idx]…]` → the files present after those operations -/
def opFsListRefused : List V → Option V
  | [pr, nl, d, app, ch, ss, ns] => do
      let ns ← names? ns
      let fs : FS := ns.map (fun n => (n, [0]))
      withSized (fun pr nl d app ch ss =>
        some (fsNamesV (exec fs [] (demoRunChecked pr nl d app ch ss).1).1)) [pr, nl, d, app, ch, ss]
  | _ => none

/-- `fssizedfit <chunk> [[prefix nrows nscores]…]` → `[fit [[merged written]…]]`: has every
collection at most as many score chunks as table chunks, and the two counts -/
def opFsSizedFit : List V → Option V
  | [ch, ss] => do
      let ch ← toNat? ch
      let ss ← sized? ss
      some (list [ofBool (sizesFit ch ss),
        list (ss.map fun s => list [ofNat (chunkCount s.nscores ch),
          ofNat (writtenCount s.nrows s.nscores ch)])])
  | _ => none

/-- `fslistsized <prot> <nl> <decoys> <append> <chunk> [[prefix nrows nscores]…] [[kind idx]…]` →
the files present after `exec` of the operation list in a directory holding the given names -/
def opFsListSized : List V → Option V
  | [pr, nl, d, app, ch, ss, ns] => do
      let ns ← names? ns
      let fs : FS := ns.map (fun n => (n, [0]))
      withSized (fun pr nl d app ch ss =>
        match demoAssignSized pr nl d app ch ss with
        | some prog => some (fsNamesV (exec fs [] prog).1)
        | none => some (refusal pr nl ch ss)) [pr, nl, d, app, ch, ss]
  | _ => none

/-- `fssql <nl> <decoys> <prefix> <k>` → the operation list of a run with `sqlite_path`
(the database is printed as `other 0`) -/
def opFsSql : List V → Option V
  | [nl, d, p, k] => do
      let nl ← toNat? nl
      let d ← toBool? d
      let p ← pfx? p
      let k ← toNat? k
      some (list ((demoSql nl d p k).map opV))
  | _ => none

/-- `fslistsql <nl> <decoys> <prefix> <k> [[kind idx]…]` → the files present afterwards -/
def opFsListSql : List V → Option V
  | [nl, d, p, k, ns] => do
      let nl ← toNat? nl
      let d ← toBool? d
      let p ← pfx? p
      let k ← toNat? k
      let ns ← names? ns
      let fs : FS := (dbName, [0]) :: ns.map (fun n => (n, [0]))
      some (fsNamesV (exec fs [] (demoSql nl d p k)).1)
  | _ => none

end Mk.Ops.FsRunSized

namespace Mk.Ops
open Mk.Ops.FsRunSized
def fsRunSizedOps : List (String × (List V → Option V)) :=
  [("fssized", opFsSized), ("fswellinitsized", opFsWellInitSized), ("fssizedfit", opFsSizedFit),
   ("fssizedold", opFsSizedOld), ("fssizedrefused", opFsSizedRefused), ("fslistrefused", opFsListRefused),
   ("fslistsized", opFsListSized), ("fssql", opFsSql), ("fslistsql", opFsListSql)]
end Mk.Ops
