import MokapotVerif.Wire
import MokapotVerif.Model.PinTsv
/-! Driver glue for `Model/PinTsv.lean`. -/
namespace Mk.Ops
open Mk V

def chars? (v : V) : Option Str := (toStr? v).map String.toList
def ofChars (l : Str) : V := ofStr (String.ofList l)

def sepChar? (v : V) : Option Char := do
  let s ← chars? v
  if s.length = 1 then s.head? else none

def errAtom : PinErr → V
  | .stopIteration => atom "reject-stop"
  | .assertion => atom "reject-assert"

def ofExcept {β : Type} (f : β → V) : Except PinErr β → V
  | .ok b => f b
  | .error e => errAtom e

/-- `pin2tsv <sepC> <sepP> <text>` → output text of the model -/
def opPin2tsv : List V → Option V
  | [c, p, t] => do
      let sepC ← sepChar? c
      let sepP ← chars? p
      let text ← chars? t
      some (ofExcept ofChars (pinToTsv sepC sepP text))
  | _ => none

/-- `validtsv <sepC> <text>` → model verdict of `is_valid_tsv` -/
def opValidtsv : List V → Option V
  | [c, t] => do
      let sepC ← sepChar? c
      let text ← chars? t
      some (ofExcept ofBool (isValid sepC text))
  | _ => none

/-- `validspec <sepC> <text>` → the declarative validity criterion -/
def opValidspec : List V → Option V
  | [c, t] => do
      let sepC ← sepChar? c
      let text ← chars? t
      some (ofBool (validSpecB sepC (pyLines text)))
  | _ => none

/-- `verifystep <text>` → file content after the CLI verify step -/
def opVerifystep : List V → Option V
  | [t] => do
      let text ← chars? t
      some (ofExcept ofChars (verifyStep text))
  | _ => none

def row? : V → Option PinRow
  | list [a, b, c, d, e] => do
      pure { padL := ← chars? a, pre := ← toList? chars? b, prots := ← toList? chars? c,
             post := ← toList? chars? d, padR := ← chars? e }
  | _ => none

def optChars? : V → Option (Option Str)
  | atom "none" => some none
  | list [x] => (chars? x).map some
  | _ => none

def doc? : V → Option PinDoc
  | list [a, b, c, d, e, f] => do
      pure { hpadL := ← chars? a, cols := ← toList? chars? b, hpadR := ← chars? c,
             dd := ← optChars? d, rows := ← toList? row? e, trailingNl := ← toBool? f }
  | _ => none

/-- `spec-C19 <sepC> <sepP> <doc>` →
`[wf sepPOk firstTsvRowOk <PIN text> <expected output text> <expected table>]` -/
def opSpecC19 : List V → Option V
  | [c, p, d] => do
      let sepC ← sepChar? c
      let sepP ← chars? p
      let doc ← doc? d
      some (list [ofBool (doc.wf sepC), ofBool (sepPOk sepC sepP), ofBool (firstTsvRowOk sepC sepP doc),
                  ofChars (renderPin sepC doc), ofChars (renderTsv sepC sepP doc),
                  ofList (ofList ofChars) (specTable sepP doc)])
  | _ => none

/-- `parsetable <sepC> <text>` → table read back from a text -/
def opParsetable : List V → Option V
  | [c, t] => do
      let sepC ← sepChar? c
      let text ← chars? t
      some (ofList (ofList ofChars) (parseTable sepC text))
  | _ => none

/-- `pyspaces` → all code points the model regards as whitespace -/
def opPyspaces : List V → Option V
  | [] => some (ofList ofNat ((List.range 0x110000).filter (fun n => pyIsSpace (Char.ofNat n) && (Char.ofNat n).toNat == n)))
  | _ => none

/-- `convfields <sepP> [fields] <idx> <nCol>` → `convert_line_pin_to_tsv` on split fields -/
def opConvfields : List V → Option V
  | [p, fs, i, n] => do
      let sepP ← chars? p
      let fs ← toList? chars? fs
      let i ← toNat? i
      let n ← toNat? n
      some (ofList ofChars (convertFields sepP fs i n))
  | _ => none

/-! extension: header helper, text-mode reading, the command line tool, several files -/

/-- `headercols <sepC> <header>` → `[n_col idx]` of `parse_pin_header_columns` -/
def opHeadercols : List V → Option V
  | [c, h] => do
      let sepC ← sepChar? c
      let header ← chars? h
      some (ofExcept (fun p => list [ofNat p.1, ofNat p.2]) (parseHeaderCols sepC header))
  | _ => none

/-- `univnl <raw>` → the characters text-mode reading hands over -/
def opUnivnl : List V → Option V
  | [t] => do
      let raw ← chars? t
      some (ofChars (univNl raw))
  | _ => none

def optSepChar? : V → Option (Option Char)
  | atom "none" => some none
  | list [x] => (sepChar? x).map some
  | _ => none

/-- `toolmain <[sepC]|none> <[sepP]|none> <raw input> <old output>` → content of the output file -/
def opToolmain : List V → Option V
  | [c, p, t, o] => do
      let sepC ← optSepChar? c
      let sepP ← optChars? p
      let raw ← chars? t
      let old ← chars? o
      some (ofExcept ofChars (toolMain sepC sepP raw old))
  | _ => none

/-- `verifyfile <raw>` → stored characters after the verify step -/
def opVerifyfile : List V → Option V
  | [t] => do
      let raw ← chars? t
      some (ofExcept ofChars (verifyStepFile raw))
  | _ => none

/-- `verifyfiles <verify_pin> [raw …]` → stored characters of all files after the verify step -/
def opVerifyfiles : List V → Option V
  | [b, fs] => do
      let on ← toBool? b
      let files ← toList? chars? fs
      some (ofExcept (ofList ofChars) (verifyFiles on files))
  | _ => none

/-- `spec-C19-file <sepC> <sepP> <terminator> <doc>` →
`[wf noCR <terminator is one of the three> <stored characters> <PIN text> firstTsvRowOk <expected output text>
<stored characters as read in text mode>]` -/
def opSpecC19File : List V → Option V
  | [c, p, t, d] => do
      let sepC ← sepChar? c
      let sepP ← chars? p
      let term ← chars? t
      let doc ← doc? d
      some (list [ofBool (doc.wf sepC), ofBool doc.noCR, ofBool (lineTerminators.contains term),
                  ofChars (renderPinT sepC term doc), ofChars (renderPin sepC doc),
                  ofBool (firstTsvRowOk sepC sepP doc), ofChars (renderTsv sepC sepP doc),
                  ofChars (univNl (renderPinT sepC term doc))])
  | _ => none

def pinTsvOps : List (String × (List V → Option V)) :=
  [("pin2tsv", opPin2tsv), ("validtsv", opValidtsv), ("validspec", opValidspec),
   ("verifystep", opVerifystep), ("spec-C19", opSpecC19), ("parsetable", opParsetable),
   ("pyspaces", opPyspaces), ("convfields", opConvfields),
   ("headercols", opHeadercols), ("univnl", opUnivnl), ("toolmain", opToolmain),
   ("verifyfile", opVerifyfile), ("verifyfiles", opVerifyfiles), ("spec-C19-file", opSpecC19File)]

end Mk.Ops
