import MokapotVerif.Wire
import MokapotVerif.Model.Cross
import MokapotVerif.Model.Calibrate
/-! Driver glue for `Model/Cross.lean` (C05 extension).  A row on the wire is
`[id spec [keys…] target score]` as in `Ops/Confidence.lean` (the score is sent separately for
`xfiles`, the row's own score field is ignored there). -/
namespace Mk.Ops.Cross
open Mk Mk.Cross V

def row? : V → Option Row
  | list [i, s, ks, t, sc] => do
      pure { id := ← toNat? i, spec := ← toNat? s, keys := ← toList? toNat? ks,
             target := ← toBool? t, score := ← toInt? sc }
  | _ => none

def meanQ (l : List Rat) : Rat := l.sum / (l.length : Rat)

/-- score table → `score m r` (rows are the positions `0 … n-1`) -/
def tableScore (tbl : List (List Rat)) (m r : Nat) : Rat := (tbl.getD m []).getD r 0

def ofXR : Calibrate.XR → V
  | .fin r => ofRat r
  | .pinf => atom "pinf"
  | .ninf => atom "ninf"
  | .nan => atom "nan"

def ofCal : Except Calibrate.CalErr (List Calibrate.XR) → V
  | .ok vs => ofList ofXR vs
  | .error .empty => atom "reject-empty"
  | .error .noPositive => atom "reject-nopositive"

/-- `xensemble <c> [[scores of model 0] [scores of model 1] …]` → the chunked ensemble scores -/
def opEnsemble : List V → Option V
  | [c, tbl] => do
      let c ← toNat? c
      let tbl ← toList? (toList? toRat?) tbl
      if c = 0 then some (atom "reject-chunk0") else
      if tbl.isEmpty then some (atom "reject-nomodels") else
      let n := (tbl.headD []).length
      some (ofList ofRat (ensemble c tbl.length (List.range n) (tableScore tbl) meanQ))
  | _ => none

/-- `xensemblespec [[…] …]` → the chunk-free specification -/
def opEnsembleSpec : List V → Option V
  | [tbl] => do
      let tbl ← toList? (toList? toRat?) tbl
      if tbl.isEmpty then some (atom "reject-nomodels") else
      let n := (tbl.headD []).length
      some (ofList ofRat (ensembleSpec tbl.length (List.range n) (tableScore tbl) meanQ))
  | _ => none

/-- `xreset <c> <thr> [raw scores of the original model] [targets]` → reset-path scores (calibrated) -/
def opReset : List V → Option V
  | [c, thr, raw, ts] => do
      let c ← toNat? c
      let thr ← toRat? thr
      let raw ← toList? toRat? raw
      let ts ← toList? toBool? ts
      if c = 0 then some (atom "reject-chunk0") else
      let n := raw.length
      some (ofCal (resetScores c (List.range n) (fun r => raw.getD r 0) (fun r => ts.getD r false) meanQ
        (Calibrate.calibrate true thr)))
  | _ => none

def fileV (f : List (Row × Rat × Rat) × List (Row × Rat × Rat)) : V :=
  list [ofList (fun x => list [ofNat x.1.id, ofRat x.2.1]) f.1,
        ofList (fun x => list [ofNat x.1.id, ofRat x.2.1]) f.2]

def zeroPep (rows : List Row) : List Rat := rows.map (fun _ => 0)

/-- `xfiles <c> <dedup> <nLevels> [rows] [scores]` → per level `[[[id q]…targets] [[id q]…decoys]]`
along the chunked path (score slices, batches, chunked writer) -/
def opFiles : List V → Option V
  | [c, d, n, rs, sc] => do
      let c ← toNat? c
      let d ← toBool? d
      let n ← toNat? n
      let rs ← toList? row? rs
      let sc ← toList? toInt? sc
      if c = 0 then some (atom "reject-chunk0") else
      if rs.length != sc.length then some (atom "reject-length") else
      some (list ((resultFiles c d n zeroPep rs sc).map fileV))
  | _ => none

/-- `xfilesspec <c> <dedup> <nLevels> [rows] [scores]` → the same files by the chunk-free
description on top of `confidenceLevels` -/
def opFilesSpec : List V → Option V
  | [c, d, n, rs, sc] => do
      let c ← toNat? c
      let d ← toBool? d
      let n ← toNat? n
      let rs ← toList? row? rs
      let sc ← toList? toInt? sc
      if c = 0 then some (atom "reject-chunk0") else
      if rs.length != sc.length then some (atom "reject-length") else
      some (list ((resultFilesSpec (confidenceLevels c d n (scoredRows rs sc)) zeroPep).map fileV))
  | _ => none

/-- `xmaterialise [[[ [idx row] … piece] … pieces of file] … files] [[train idx of file] …]`
→ the materialised training rows (`none` = NaN row) of one fold over several files -/
def opMaterialise : List V → Option V
  | [ps, ts] => do
      let ps ← toList? (toList? (toList? (toPair? toNat? toNat?))) ps
      let ts ← toList? (toList? toNat?) ts
      some (ofList (ofOpt ofNat) (materialiseColls ps ts))
  | _ => none

/-- `xspans <c> <n>` → `[[first label, rows] …]` of the chunk stream a reader delivers for `n` rows -/
def opSpans : List V → Option V
  | [c, n] => do
      let c ← toNat? c
      let n ← toNat? n
      if c = 0 then some (atom "reject-chunk0") else
      some (ofList (fun s => list [ofNat s.1, ofNat s.2]) (chunkSpans c n))
  | _ => none

/-- `xspansspec <c> <n>` → the closed form (`k·c`, `min c (n − k·c)`) -/
def opSpansSpec : List V → Option V
  | [c, n] => do
      let c ← toNat? c
      let n ← toNat? n
      if c = 0 then some (atom "reject-chunk0") else
      some (ofList (fun s => list [ofNat s.1, ofNat s.2]) (chunkSpansSpec c n))
  | _ => none

/-- `xdtypes <c> [cell classes]` → dtype (0 int64, 1 float64, 2 object) under which every row's cell travels -/
def opDtypes : List V → Option V
  | [c, cls] => do
      let c ← toNat? c
      let cls ← toList? toNat? cls
      if c = 0 then some (atom "reject-chunk0") else
      some (ofList ofNat (chunkDtypes c cls))
  | _ => none

def keyVariant (k : Nat) : Nat → Nat → Nat → Nat :=
  if k = 0 then canonKey else if k = 1 then numKey else strKey

/-- value ids of the last level column that denote text which is not a number -/
def textIds (n : Nat) (rs : List Row) (txt : List Bool) : List Nat :=
  ((rs.zip txt).filter (fun p => p.2)).map (fun p => p.1.key (n - 1))

/-- `xkeyfiles <variant> <c> <dedup> <nLevels> [rows] [scores] [frac flags of the spectrum column]
[text flags of the last level column]` → the result files of a text input whose numeric spectrum column
and whose last roll-up level column have mixed spellings.  variant 0 = `_entity_key` (the code as it is),
1 = numbers as floats only (until 0d68f96), 2 = `str()` (until 5233470) — the refuted variants are used
by the harness to say what a disagreement looks like -/
def opKeyFiles : List V → Option V
  | [k, c, d, n, rs, sc, fr, tx] => do
      let k ← toNat? k
      let c ← toNat? c
      let d ← toBool? d
      let n ← toNat? n
      let rs ← toList? row? rs
      let sc ← toList? toInt? sc
      let fr ← toList? toBool? fr
      let tx ← toList? toBool? tx
      if c = 0 then some (atom "reject-chunk0") else
      if rs.length != sc.length || rs.length != fr.length || rs.length != tx.length then some (atom "reject-length") else
      let key := keyVariant k
      let rows1 := keyedRows key c none (fun _ => false) fr rs
      let texts := textIds n rs tx
      let rows2 := if n = 0 then rows1
        else keyedRows key c (some (n - 1)) (fun v => texts.contains v) (rs.map (fun _ => false)) rows1
      some (list ((resultFiles c d n zeroPep rows2 sc).map fileV))
  | _ => none

end Mk.Ops.Cross

namespace Mk.Ops
open Mk.Ops.Cross
def crossOps : List (String × (List V → Option V)) :=
  [("xensemble", opEnsemble), ("xensemblespec", opEnsembleSpec), ("xreset", opReset),
   ("xfiles", opFiles), ("xfilesspec", opFilesSpec), ("xmaterialise", opMaterialise),
   ("xspans", opSpans), ("xspansspec", opSpansSpec), ("xdtypes", opDtypes), ("xkeyfiles", opKeyFiles)]
end Mk.Ops
