import MokapotVerif.Wire
import MokapotVerif.Model.TdcTies
/-! Driver glue for `Model/TdcTies.lean` (accepted set of a level file with tied scores). -/
namespace Mk.Ops.TdcTies
open Mk V Mk.TdcX

def mkRow (x : (Int × Bool) × Nat) : Row :=
  { id := x.2, spec := x.2, keys := [], target := x.1.2, score := x.1.1 }

/-- `tdctiedstop <a> [[score label]… best first]` → `[<rows accepted at q ≤ a> [cut possible after row i…]]` -/
def opTiedStop : List V → Option V
  | [a, rs] => do
      let a ← toRat? a
      let rs ← toList? (toPair? toInt? toBool?) rs
      some (list [ofNat (tiedStop a rs), ofList ofBool (tieCuts (rs.map (·.1)))])
  | _ => none

/-- `tdctiedfdp <a> [incorrect positions] [[score label]… best first]` → `[[accepted positions] fdp]`
(closed form `tiedAccepted` / `tiedFDP`; row id = position) -/
def opTiedFdp : List V → Option V
  | [a, bad, rs] => do
      let a ← toRat? a
      let bad ← toList? toNat? bad
      let rs ← toList? (toPair? toInt? toBool?) rs
      let rows := rs.zipIdx.map mkRow
      some (list [ofList (fun r => ofNat r.id) (tiedAccepted a rows),
                  ofRat (tiedFDP (fun i => bad.contains i) a rows)])
  | _ => none

end Mk.Ops.TdcTies

namespace Mk.Ops
open Mk.Ops.TdcTies
def tdcTiesOps : List (String × (List V → Option V)) :=
  [("tdctiedstop", opTiedStop), ("tdctiedfdp", opTiedFdp)]
end Mk.Ops
