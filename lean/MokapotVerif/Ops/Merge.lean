import MokapotVerif.Wire
import MokapotVerif.Model.Merge
/-! Driver glue for `Model/Merge.lean` (C14).  A row on the wire is `[score id]`. -/
namespace Mk.Ops.Merge
open Mk V

abbrev MRow := Rat × Int

/-- the score order on rows (ties between distinct rows are possible) -/
def leRow (a b : MRow) : Bool := a.1 ≤ b.1

def mrows? (v : V) : Option (List MRow) := toList? (toPair? toRat? toInt?) v
def minputs? (v : V) : Option (List (List MRow)) := toList? mrows? v

def ofMRow (r : MRow) : V := list [ofRat r.1, ofInt r.2]
def ofMRows (rs : List MRow) : V := ofList ofMRow rs

def ofMergeOut : Option (List MRow) → V
  | none => atom "reject-empty"
  | some out => ofMRows out

def ofCheckedOut : Option (List MRow × Bool) → V
  | none => atom "reject-empty"
  | some (out, err) => list [ofMRows out, ofBool err]

/-- `merge [[row…]…]` → rows yielded by the model of `utils.merge_sort` -/
def opMerge : List V → Option V
  | [ins] => do
      let ins ← minputs? ins
      some (ofMergeOut (Mk.Merge.kmerge leRow ins))
  | _ => none

/-- `mergefiles <chunk> [[row…]…]` → the same through the chunked row iterators -/
def opMergeFiles : List V → Option V
  | [c, ins] => do
      let c ← toNat? c
      let ins ← minputs? ins
      if c = 0 then some (atom "reject-chunk0") else
      some (ofMergeOut (Mk.Merge.kmergeFiles leRow c ins))
  | _ => none

/-- `mergechecked <desc> <chunk> [[row…]…]` → `[rows raised?]` of the table merger -/
def opMergeChecked : List V → Option V
  | [d, c, ins] => do
      let d ← toBool? d
      let c ← toNat? c
      let ins ← minputs? ins
      if c = 0 then some (atom "reject-chunk0") else
      some (ofCheckedOut (Mk.Merge.kmergeCheckedFiles leRow d c ins))
  | _ => none

/-- `mergerechunk <chunk> [row…]` → frames of `get_chunked_data_iterator(chunk)` -/
def opRechunk : List V → Option V
  | [c, rows] => do
      let c ← toNat? c
      let rows ← mrows? rows
      if c = 0 then some (atom "reject-chunk0") else
      some (ofList ofMRows (Mk.Merge.kmRechunk c rows))
  | _ => none

/-- `spec-C14-merge [[row…]…] [row…]` → `ok` | `fail-<clause>` -/
def opSpecMerge : List V → Option V
  | [ins, out] => do
      let ins ← minputs? ins
      let out ← mrows? out
      some (atom (Mk.Merge.specMerge leRow ins out))
  | _ => none

/-- `spec-C14-checked <desc> [[row…]…] [row…] <raised?>` → `ok` | `fail-<clause>` -/
def opSpecChecked : List V → Option V
  | [d, ins, out, e] => do
      let d ← toBool? d
      let ins ← minputs? ins
      let out ← mrows? out
      let e ← toBool? e
      some (atom (Mk.Merge.specChecked leRow d ins out e))
  | _ => none

/-- `stablesort <desc> [[row…]…]` → the declarative tie rule: stable sort, in the declared
direction, of the inputs written one after the other -/
def opStableSort : List V → Option V
  | [d, ins] => do
      let d ← toBool? d
      let ins ← minputs? ins
      some (ofMRows (Mk.Merge.stableSortAs leRow d ins.flatten))
  | _ => none

/-- a projected row: the selected columns in the selected order (column 0 = score, 1 = id) -/
def projRow (cols : List Nat) (r : MRow) : List Rat :=
  cols.map (fun c => if c == 0 then r.1 else (r.2 : Rat))

/-- the priority value of a projected row, given the position of the score column in it -/
def keyAt (pos : Nat) (r : List Rat) : Rat := (r.drop pos).headD 0

/-- `mergecols <desc> <chunk> [col…] [[row…]…]` → `[[projected row…] raised?]` of the table merger
with `columns=` (0 = score, 1 = id), `reject-empty`, or `reject-nokey` when the score is not selected -/
def opMergeCols : List V → Option V
  | [d, c, cols, ins] => do
      let d ← toBool? d
      let c ← toNat? c
      let cols ← toList? toNat? cols
      let ins ← minputs? ins
      if c = 0 then some (atom "reject-chunk0") else
      if ins.isEmpty || ins.any List.isEmpty then some (atom "reject-empty") else
      let pos := cols.idxOf 0
      match Mk.Merge.kmergeCheckedCols (fun a b => keyAt pos a ≤ keyAt pos b) (cols.contains 0)
          (projRow cols) d c ins with
      | none => some (atom "reject-nokey")
      | some (out, err) => some (list [ofList (ofList ofRat) out, ofBool err])
  | _ => none

def ofFramesOut : Option (List (List MRow) × Bool) → V
  | none => atom "reject-empty"
  | some (fr, err) => list [ofList ofMRows fr, ofBool err]

/-- `mergeframes <desc> <chunk> <frame size> [[row…]…]` → `[[frame…] raised?]`: what
`get_chunked_data_iterator(frame size)` (`merge_readers`: 1) hands to its consumer -/
def opMergeFrames : List V → Option V
  | [d, c, o, ins] => do
      let d ← toBool? d
      let c ← toNat? c
      let o ← toNat? o
      let ins ← minputs? ins
      if c = 0 || o = 0 then some (atom "reject-chunk0") else
      some (ofFramesOut ((Mk.Merge.kmergeCheckedFiles leRow d c ins).map (Mk.Merge.kmDeliverFrames o)))
  | _ => none

/-- `mergeread <desc> <chunk> [[row…]…]` → `[rows raised?]` of `read()` -/
def opMergeRead : List V → Option V
  | [d, c, ins] => do
      let d ← toBool? d
      let c ← toNat? c
      let ins ← minputs? ins
      if c = 0 then some (atom "reject-chunk0") else
      some (ofCheckedOut ((Mk.Merge.kmergeCheckedFiles leRow d c ins).map Mk.Merge.kmDeliverRead))
  | _ => none

/-- `mergepaths <chunk> [suffix…] [[row…]…]` → rows yielded by `merge_sort` on files with these
suffixes (the row iterator is chosen from the first one), or `reject-empty` when the code raises -/
def opMergePaths : List V → Option V
  | [c, sfx, ins] => do
      let c ← toNat? c
      let sfx ← toList? toStr? sfx
      let ins ← minputs? ins
      if c = 0 then some (atom "reject-chunk0") else
      if sfx.length ≠ ins.length then none else
      some (ofMergeOut (Mk.Merge.kmergePaths leRow c (sfx.zip ins)))
  | _ => none

/-- `mergegroups <row-group size> <chunk> [[row…]…]` → `merge_sort` on Parquet files written in
row groups and read in batches that stop at the row-group borders -/
def opMergeGroups : List V → Option V
  | [g, c, ins] => do
      let g ← toNat? g
      let c ← toNat? c
      let ins ← minputs? ins
      if c = 0 || g = 0 then some (atom "reject-chunk0") else
      some (ofMergeOut (Mk.Merge.kmerge leRow (ins.map (Mk.Merge.kmRowIterGroups g c))))
  | _ => none

/-- `mergecheckedgroups <desc> <row-group size> <chunk> [[row…]…]` → the same for the table merger -/
def opMergeCheckedGroups : List V → Option V
  | [d, g, c, ins] => do
      let d ← toBool? d
      let g ← toNat? g
      let c ← toNat? c
      let ins ← minputs? ins
      if c = 0 || g = 0 then some (atom "reject-chunk0") else
      some (ofCheckedOut (Mk.Merge.kmergeChecked leRow d (ins.map (Mk.Merge.kmRowIterGroups g c))))
  | _ => none

/-- `mergenested <desc> <inner chunk> <outer chunk> [[[row…]…]…]` → `[rows raised?]` of a table merger
whose inputs are table mergers over the groups -/
def opMergeNested : List V → Option V
  | [d, cin, cout, groups] => do
      let d ← toBool? d
      let cin ← toNat? cin
      let cout ← toNat? cout
      let groups ← toList? minputs? groups
      if cin = 0 || cout = 0 then some (atom "reject-chunk0") else
      some (ofCheckedOut (Mk.Merge.kmergeNested leRow d cin cout groups))
  | _ => none

end Mk.Ops.Merge

namespace Mk.Ops
open Mk V

def mergeOps : List (String × (List V → Option V)) :=
  [("merge", Merge.opMerge), ("mergefiles", Merge.opMergeFiles),
   ("mergechecked", Merge.opMergeChecked), ("mergerechunk", Merge.opRechunk),
   ("spec-C14-merge", Merge.opSpecMerge), ("spec-C14-checked", Merge.opSpecChecked),
   ("stablesort", Merge.opStableSort), ("mergecols", Merge.opMergeCols),
   ("mergeframes", Merge.opMergeFrames), ("mergeread", Merge.opMergeRead),
   ("mergepaths", Merge.opMergePaths), ("mergegroups", Merge.opMergeGroups),
   ("mergecheckedgroups", Merge.opMergeCheckedGroups), ("mergenested", Merge.opMergeNested)]

end Mk.Ops
