import MokapotVerif.Wire
import MokapotVerif.Model.Merge
/-! Driver glue for `Model/Merge.lean` (C14).  A row on the wire is `[score id]`. -/
namespace Mk.Ops.Merge
open Mk V

abbrev MRow := Rat × Int

/-- the score order on rows (ties between distinct rows are possible) -/
def leRow (a b : MRow) : Bool := a.1 ≤ b.1

def mrows? (v : V) : Option (List MRow) := toList? (toPair? toRat? toInt?) v
def minputs? (v : V) : Option (List (List MRow)) := toList? mrows? v

def ofMRow (r : MRow) : V := list [ofRat r.1, ofInt r.2]
def ofMRows (rs : List MRow) : V := ofList ofMRow rs

def ofMergeOut : Option (List MRow) → V
  | none => atom "reject-empty"
  | some out => ofMRows out

def ofCheckedOut : Option (List MRow × Bool) → V
  | none => atom "reject-empty"
  | some (out, err) => list [ofMRows out, ofBool err]

/-- `merge [[row…]…]` → rows yielded by the model of `utils.merge_sort` -/
def opMerge : List V → Option V
  | [ins] => do
      let ins ← minputs? ins
      some (ofMergeOut (Mk.Merge.kmerge leRow ins))
  | _ => none

/-- `mergefiles <chunk> [[row…]…]` → the same through the chunked row iterators -/
def opMergeFiles : List V → Option V
  | [c, ins] => do
      let c ← toNat? c
      let ins ← minputs? ins
      if c = 0 then some (atom "reject-chunk0") else
      some (ofMergeOut (Mk.Merge.kmergeFiles leRow c ins))
  | _ => none

/-- `mergechecked <desc> <chunk> [[row…]…]` → `[rows raised?]` of the table merger -/
def opMergeChecked : List V → Option V
  | [d, c, ins] => do
      let d ← toBool? d
      let c ← toNat? c
      let ins ← minputs? ins
      if c = 0 then some (atom "reject-chunk0") else
      some (ofCheckedOut (Mk.Merge.kmergeCheckedFiles leRow d c ins))
  | _ => none

/-- `mergerechunk <chunk> [row…]` → frames of `get_chunked_data_iterator(chunk)` -/
def opRechunk : List V → Option V
  | [c, rows] => do
      let c ← toNat? c
      let rows ← mrows? rows
      if c = 0 then some (atom "reject-chunk0") else
      some (ofList ofMRows (Mk.Merge.kmRechunk c rows))
  | _ => none

/-- `spec-C14-merge [[row…]…] [row…]` → `ok` | `fail-<clause>` -/
def opSpecMerge : List V → Option V
  | [ins, out] => do
      let ins ← minputs? ins
      let out ← mrows? out
      some (atom (Mk.Merge.specMerge leRow ins out))
  | _ => none

/-- `spec-C14-checked <desc> [[row…]…] [row…] <raised?>` → `ok` | `fail-<clause>` -/
def opSpecChecked : List V → Option V
  | [d, ins, out, e] => do
      let d ← toBool? d
      let ins ← minputs? ins
      let out ← mrows? out
      let e ← toBool? e
      some (atom (Mk.Merge.specChecked leRow d ins out e))
  | _ => none

end Mk.Ops.Merge

namespace Mk.Ops
open Mk V

def mergeOps : List (String × (List V → Option V)) :=
  [("merge", Merge.opMerge), ("mergefiles", Merge.opMergeFiles),
   ("mergechecked", Merge.opMergeChecked), ("mergerechunk", Merge.opRechunk),
   ("spec-C14-merge", Merge.opSpecMerge), ("spec-C14-checked", Merge.opSpecChecked)]

end Mk.Ops
