import MokapotVerif.Wire
import MokapotVerif.Model.ConfidenceKey
/-! Driver glue for `Model/ConfidenceKey.lean`.  A cell on the wire: `["n" m e negz]`, `["t" text]`,
`["b" T|F]`. -/
namespace Mk.Ops.ConfKey
open Mk V

def cell? : V → Option ConfCell
  | list [k, m, e, z] => do
      let k ← toStr? k
      if k = "n" then pure (.num (← toInt? m) (← toInt? e) (← toBool? z)) else none
  | list [k, x] => do
      let k ← toStr? k
      if k = "t" then pure (.text (← toStr? x).toList)
      else if k = "b" then pure (.bool (← toBool? x))
      else none
  | _ => none

/-- `entitykeyeq [cells] [cells]` → T iff the two rows have the same key -/
def opEntityKeyEq : List V → Option V
  | [a, b] => do
      let a ← toList? cell? a
      let b ← toList? cell? b
      some (ofBool (confEntityKey a == confEntityKey b))
  | _ => none

/-- `plainnumber <text>` → T iff the text is keyed as a number -/
def opPlainNumber : List V → Option V
  | [s] => do
      let s ← toStr? s
      some (ofBool (confPlainNumber s.toList).isSome)
  | _ => none

end Mk.Ops.ConfKey

namespace Mk.Ops
open Mk.Ops.ConfKey
def confidenceKeyOps : List (String × (List V → Option V)) :=
  [("entitykeyeq", opEntityKeyEq), ("plainnumber", opPlainNumber)]
end Mk.Ops
