import MokapotVerif.Wire
import MokapotVerif.Model.Fit
/-! Driver glue for `Model/Fit.lean`.

The estimators are test fixtures mirrored one-to-one by `harness/c12.py`
(`RecEst`): rows are rational vectors whose entry 0 is a smuggled row id that
never receives a weight; the state is the weight vector. -/
namespace Mk.Ops.Fit
open Mk Mk.Fit V

def leQ (a b : Rat) : Bool := a ≤ b

def vadd (a b : List Rat) : List Rat := List.zipWith (· + ·) a b
def vscale (c : Rat) (a : List Rat) : List Rat := a.map (c * ·)
def vsum (dim : Nat) (rows : List (List Rat)) : List Rat := rows.foldl vadd (List.replicate dim 0)
def dot (a b : List Rat) : Rat := (List.zipWith (· * ·) a b).foldl (· + ·) 0
def dropId (w : List Rat) : List Rat := 0 :: w.tail

/-- `n_neg * sum(pos) - n_pos * sum(neg)` -/
def centroid (dim : Nat) (s : List (List Rat × Bool)) : List Rat :=
  let pos := (s.filter (·.2)).map (·.1)
  let neg := (s.filter (fun p => !p.2)).map (·.1)
  dropId (vadd (vscale (neg.length : Nat) (vsum dim pos)) (vscale (-(pos.length : Nat) : Int) (vsum dim neg)))

/-- order dependent on purpose: `sum_k (k+1) * (±1) * x_k` -/
def posWeighted (dim : Nat) (s : List (List Rat × Bool)) : List Rat :=
  dropId (vsum dim (s.zipIdx.map (fun p => vscale ((if p.1.2 then 1 else -1 : Int) * ((p.2 + 1 : Nat) : Int)) p.1.1)))

def estOf (kind : String) (dim : Nat) : Option (Est (List Rat) Rat (List Rat)) :=
  if kind == "centroid" then some ⟨fun _ s => centroid dim s, dot⟩
  else if kind == "poswt" then some ⟨fun _ s => posWeighted dim s, dot⟩
  else if kind == "warm" then some ⟨fun th s => vadd th (centroid dim s), dot⟩
  else if kind == "col1" then some ⟨fun th _ => th, fun _ r => r.getD 1 0⟩   -- `_CvSpy`: score = feature 1
  else none

def transpose (dim : Nat) (rows : List (List Rat)) : List (List Rat) :=
  (List.range dim).map (fun j => rows.map (fun r => r.getD j 0))

def statusAtom : FitStatus → V
  | .ok => atom "ok"
  | .noTargets => atom "reject-notargets"
  | .noDecoys => atom "reject-nodecoys"
  | .noStart => atom "reject-nostart"
  | .zeroIter => atom "reject-zeroiter"
  | .worseIter => atom "reject-worse-iter"
  | .worseFinal => atom "reject-worse-final"
  | .featMismatch => atom "reject-features"

def ofTrace (tr : List (List (List Rat × Bool))) : V :=
  ofList (ofList (fun p => list [ofRat (p.1.headD 0), ofBool p.2])) tr

def ofOut (o : FitOut (List Rat) (List Rat)) : V :=
  list [statusAtom o.status, ofTrace o.trace, ofOpt (ofList ofRat) o.theta]

def toDir? : V → Option (Option Nat)
  | list [] => some none
  | list [j] => (toNat? j).map some
  | _ => none

structure FitArgs where
  est : Est (List Rat) Rat (List Rat)
  dim : Nat
  cfg : FitCfg
  thr : Rat
  rows : List (List Rat)
  targets : List Bool

def parseFit : List V → Option FitArgs
  | [atom kind, sh, perm, it, thr, ov, dir, rows, targets] => do
      let rows ← toList? (toList? toRat?) rows
      let dim := (rows.headD []).length
      let est ← estOf kind dim
      pure ⟨est, dim, ⟨← toBool? sh, ← toList? toNat? perm, ← toNat? it, ← toBool? ov, ← toDir? dir⟩,
        ← toRat? thr, rows, ← toList? toBool? targets⟩
  | _ => none

/-- `fitmodel kind shuffle perm maxIter thr override dir rows targets` → the model of `Model.fit` -/
def opFitModel (args : List V) : Option V := do
  let a ← parseFit args
  some (ofOut (fitModel a.est leQ a.thr a.cfg (List.replicate a.dim 0) a.rows (transpose a.dim a.rows) a.targets))

/-- the same run evaluated through the bookkeeping-free specification `specGo` -/
def specModel (a : FitArgs) : FitOut (List Rat) (List Rat) :=
  if a.targets.all (· == false) then ⟨.noTargets, [], none⟩
  else if a.targets.all (· == true) then ⟨.noDecoys, [], none⟩
  else ((startLabels leQ a.thr a.targets (transpose a.dim a.rows) a.cfg.direction).map (fun st =>
    if a.cfg.maxIter = 0 then (⟨.zeroIter, [], none⟩ : FitOut (List Rat) (List Rat))
    else afterLoop a.cfg.override st
      (specGo a.est (tdcRelabel leQ a.thr a.targets)
        (if a.cfg.shuffle then a.cfg.perm else List.range a.rows.length) a.rows a.cfg.maxIter
        (List.replicate a.dim 0) st.labels))).getD ⟨.noStart, [], none⟩

def opFitSpec (args : List V) : Option V := do
  let a ← parseFit args
  some (ofOut (specModel a))

/-- `argsort [perm]` -/
def opArgsort : List V → Option V
  | [p] => do
      let p ← toList? toNat? p
      some (ofList ofNat (argsort p))
  | _ => none

def toCol? (v : V) : Option (String × List Rat) := toPair? toStr? (toList? toRat?) v

/-- `predictbyname [stored names] [weights] n [[name [values]] ...]` → scores or `reject-features` -/
def opPredict : List V → Option V
  | [stored, w, n, cols] => do
      let stored ← toList? toStr? stored
      let w ← toList? toRat? w
      let n ← toNat? n
      let cols ← toList? toCol? cols
      some (match predictByName (dot w) stored n cols with
        | some sc => ofList ofRat sc
        | none => atom "reject-features")
  | _ => none

/-- `refitmodel kind shuffle perm maxIter thr override rows targets weights [stored] [[name [values]] ...]`
→ the model of `Model.fit` on a trained model -/
def opRefit : List V → Option V
  | [atom kind, sh, perm, it, thr, ov, rows, targets, w, stored, named] => do
      let rows ← toList? (toList? toRat?) rows
      let dim := (rows.headD []).length
      let est ← estOf kind dim
      let cfg : FitCfg := ⟨← toBool? sh, ← toList? toNat? perm, ← toNat? it, ← toBool? ov, none⟩
      some (ofOut (refitModel est leQ (← toRat? thr) cfg (← toList? toRat? w) rows (← toList? toBool? targets)
        (← toList? toStr? stored) (← toList? toCol? named)))
  | _ => none

/-- the driver's search: a black box that returns nothing and configures nothing (the ops report the
example list it is *given*, which by `C12_search_pairs_aligned` does not depend on the search) -/
def unitSearch : HyperSearch (List Rat) (List Rat) Unit := ⟨fun _ => (), fun _ th => th⟩

/-- `fitcv kind shuffle perm maxIter thr override dir rows targets needsCv` → the model of `Model.fit`
with the `_find_hyperparameters` step: `[status, trace, theta, searches, needsCvAfter]` -/
def opFitCv : List V → Option V
  | [kind, sh, perm, it, thr, ov, dir, rows, targets, needsCv] => do
      let a ← parseFit [kind, sh, perm, it, thr, ov, dir, rows, targets]
      let o := fitModelCv unitSearch (← toBool? needsCv) a.est leQ a.thr a.cfg (List.replicate a.dim 0) a.rows
        (transpose a.dim a.rows) a.targets
      some (list [statusAtom o.out.status, ofTrace o.out.trace, ofOpt (ofList ofRat) o.out.theta,
        ofTrace o.searches, ofBool o.needsCv])
  | _ => none

/-- `cvexamples shuffle perm [row ids] [start labels] needsCv` → the example lists `fitLoopCv` hands to the
search (none or one list of `[id class]`) for given rows / labels / σ / shuffle switch -/
def opCvExamples : List V → Option V
  | [sh, perm, ids, labels, needsCv] => do
      let ids ← toList? toRat? ids
      let est : Est (List Rat) Rat (List Rat) := ⟨fun th _ => th, fun _ _ => 0⟩
      let r := fitLoopCv unitSearch (← toBool? needsCv) est (fun _ => []) (← toBool? sh) (← toList? toNat? perm) 0 []
        (ids.map (fun i => [i])) (← toList? toInt? labels)
      some (ofTrace r.searches)
  | _ => none

/-- `[vec [v…]]`, `[mat w [[…]…]]`, `[higher]` -/
def toProba? : V → Option (ProbaOut Rat)
  | list [atom "vec", v] => (toList? toRat? v).map ProbaOut.vec
  | list [atom "mat", w, rows] => do
      let w ← toNat? w
      let rows ← toList? (toList? toRat?) rows
      pure (ProbaOut.mat w rows)
  | list [atom "higher"] => some ProbaOut.higher
  | _ => none

def toDecision? : V → Option (Option (List Rat))
  | list [] => some none
  | list [v] => (toList? toRat? v).map some
  | _ => none

def ofScores : Except ScoreErr (List Rat) → V
  | .ok s => ofList ofRat s
  | .error .indexError => atom "reject-index"
  | .error .tooManyDims => atom "reject-dims"

/-- `getscores decision proba` → the model of `_get_scores` on the outputs of the estimator's methods -/
def opGetScores : List V → Option V
  | [d, p] => do
      let d ← toDecision? d
      let p ← toProba? p
      some (ofScores (getScores d p))
  | _ => none

/-- the harness's `IntScaler`: position 0 (the id) kept, position `j`: `(x - lo_j) * mult` -/
def intScaler (lo : List Rat) (mult : Rat) (m : List (List Rat)) : List (List Rat) :=
  m.map (fun r => (List.zipWith (fun x l => (x - l) * mult) r lo).zipIdx.map
    (fun p => if p.2 = 0 then r.headD 0 else p.1))

def ofPred : Except PredErr (List Rat) → V
  | .ok s => ofList ofRat s
  | .error .notFitted => atom "reject-notfitted"
  | .error .featMismatch => atom "reject-features"

/-- `predictscaled trained [lo] mult [stored names] [weights] n [[name [values]] ...]` → the model of
`Model.decision_function` with the scaler -/
def opPredictScaled : List V → Option V
  | [tr, lo, mult, stored, w, n, cols] => do
      let lo ← toList? toRat? lo
      let w ← toList? toRat? w
      some (ofPred (predictScaled (← toBool? tr) (intScaler lo (← toRat? mult)) (dot w) (← toList? toStr? stored)
        (← toNat? n) (← toList? toCol? cols)))
  | _ => none


end Mk.Ops.Fit

namespace Mk.Ops
open Mk V Mk.Ops.Fit

def fitOps : List (String × (List V → Option V)) :=
  [("fitmodel", opFitModel), ("fitspec", opFitSpec), ("argsort", opArgsort), ("predictbyname", opPredict),
   ("refitmodel", opRefit), ("fitcv", opFitCv), ("cvexamples", opCvExamples), ("getscores", opGetScores),
   ("predictscaled", opPredictScaled)]

end Mk.Ops
