import MokapotVerif.Wire
import MokapotVerif.Model.Brew
import MokapotVerif.Model.BrewMulti
/-! Driver glue for `Model/BrewMulti.lean`. -/
namespace Mk.Ops.BrewMulti
open Mk V Mk.Brew

def natLists? (v : V) : Option (List (List Nat)) := toList? (toList? toNat?) v
def natLists3? (v : V) : Option (List (List (List Nat))) := toList? (toList? (toList? toNat?)) v

/-- the cap travels as `[]` (absent) or `[c]` -/
def cap? (v : V) : Option (Option Nat) := do
  let l ← toList? toNat? v
  pure l.head?

/-- the executable instance of the nondeterminism: increasing enumeration, first positions drawn -/
def drawFirst (cap : Option Nat) (K : Nat) (_f k _n : Nat) : List Nat :=
  List.range ((capsOf cap K).getD k 0)

/-- `maketrain <cap> [sizes] [[[fold]…] per file]` → `reject-choice`, or per fold
`[<cap applies> [[train indices] per file]]` -/
def opMakeTrain : List V → Option V
  | [c, sz, ti] => do
      let c ← cap? c
      let sz ← toList? toNat? sz
      let ti ← natLists3? ti
      some (match makeTrainSets ti c sz (fun _ _ l => l) (drawFirst c sz.length) with
        | none => atom "reject-choice"
        | some trains => list (trains.zipIdx.map (fun tf =>
            list [ofBool (capApplies c (trainTotal ti sz tf.2)), list (tf.1.map (ofList ofNat))])))
  | _ => none

/-- `pretrained <folds> [fold numbers] [trained flags]` → positions of the given models in the
order `brew` uses them, or `reject-ValueError` / `reject-RuntimeError` -/
def opPretrained : List V → Option V
  | [f, nums, flags] => do
      let f ← toNat? f
      let nums ← toList? toNat? nums
      let flags ← toList? toBool? flags
      let ms := (nums.zipIdx.zip flags).map (fun x => (x.1.1, x.1.2, x.2))
      some (match pretrained ms f with
        | .ok r => ofList ofNat (r.map (·.2))
        | .error e => atom ("reject-" ++ e))
  | _ => none

/-- rows are global row numbers: file `k` holds `off_k … off_k + n_k - 1` -/
def mkFiles (sizes : List Nat) : List (List Nat) :=
  (sizes.foldl (fun (acc : List (List Nat) × Nat) n => (acc.1 ++ [(List.range n).map (· + acc.2)], acc.2 + n))
    ([], 0)).1

/-- `brewrun <folds> <cap> <cread> <cpred> [[hashes] per file]` → the whole model run on abstract
rows: `[[ [fold number, [training rows]] per model ] [[fold routed to, per row] per file]]`, or
`reject`.  The learner returns its table and a score is `(table of the scoring model, row)`; the
routing printed is the model's `routeAll` of the same folds, and the answer is `inconsistent`
unless every returned score is `(table of models[routing], row)` (equal tables of different
folds — possible under sub-sampling — cannot be told apart by the score alone). -/
def opBrewRun : List V → Option V
  | [f, c, cr, cp, hs] => do
      let f ← toNat? f
      let c ← cap? c
      let cr ← toNat? cr
      let cp ← toNat? cp
      let hs ← natLists? hs
      if cr = 0 ∨ cp = 0 then some (atom "reject-chunk0") else
      let files := mkFiles (hs.map List.length)
      let sorteds := hs.map (fun h => h.zipIdx.mergeSort (fun a b => decide (a.1 ≤ b.1)))
      let shuffle : Nat → List (List Nat) → List (List Nat) := fun _ fs => fs
      let run := brewRun (ρ := Nat) (σ := List Nat × Nat) (μ := List Nat) cr cp f files sorteds
        shuffle c (fun _ _ l => l) (drawFirst c files.length)
        (fun _ _ ps => ps.reverse) List.reverse
        (fun tbl => tbl.map (fun o => o.getD 4000000000)) (fun m r => (m, r)) (fun _ => true)
        (fun _ s => s)
      some (match run, splitAll sorteds f shuffle with
        | some (models, scores), some testIdx =>
          let routings := routeAll testIdx files
          let consistent := ((files.zip routings).zip scores).all (fun x =>
            ((x.1.1.zip x.1.2).zip x.2).all (fun y =>
              y.2.2 == y.1.1 && y.2.1 == (models.getD y.1.2 (0, [])).2))
          if consistent then
            list [list (models.map (fun m => list [ofNat m.1, ofList ofNat m.2])),
                  list (routings.map (ofList ofNat))]
          else atom "inconsistent"
        | _, _ => atom "reject")
  | _ => none

end Mk.Ops.BrewMulti

namespace Mk.Ops
open Mk.Ops.BrewMulti
def brewMultiOps : List (String × (List V → Option V)) :=
  [("maketrain", opMakeTrain), ("pretrained", opPretrained), ("brewrun", opBrewRun)]
end Mk.Ops
