import MokapotVerif.Wire
import MokapotVerif.Model.Qvalues
/-! Driver glue for `Model/Qvalues.lean`. -/
namespace Mk.Ops
open Mk V

def leDir (desc : Bool) (a b : Rat) : Bool := if desc then a ≤ b else b ≤ a

def psms? (v : V) : Option (List (Rat × Bool)) := toList? (toPair? toRat? toBool?) v

/-- `tdc <desc> [[score label] ...]` → model q-values -/
def opTdc : List V → Option V
  | [d, xs] => do
      let desc ← toBool? d
      let xs ← psms? xs
      if xs.isEmpty then some (atom "reject-empty") else
      some (ofList ofRat (tdc (leDir desc) xs))
  | _ => none

/-- `qspec <desc> [[score label] ...]` → the defining formula evaluated directly -/
def opQspec : List V → Option V
  | [d, xs] => do
      let desc ← toBool? d
      let xs ← psms? xs
      if xs.isEmpty then some (atom "reject-empty") else
      some (ofList ofRat (xs.map (fun x => qSpec (leDir desc) xs x.1)))
  | _ => none

/-- `labels <desc> <thr> [[score label] ...]` → model training labels -/
def opLabels : List V → Option V
  | [d, t, xs] => do
      let desc ← toBool? d
      let thr ← toRat? t
      let xs ← psms? xs
      if xs.isEmpty then some (atom "reject-empty") else
      some (ofList ofInt (updateLabels (leDir desc) thr xs))
  | _ => none

/-- `declabels <kind> [..]` → decoded booleans or `reject-value` -/
def opDecLabels : List V → Option V
  | [atom "bool", xs] => do
      let bs ← toList? toBool? xs
      (decodeLabels (.bools bs)).map (ofList ofBool)
  | [atom "int", xs] => do
      let is ← toList? toInt? xs
      some (match decodeLabels (.ints is) with
        | some bs => ofList ofBool bs
        | none => atom "reject-value")
  | [atom "float", xs] => do
      let fs ← toList? toRat? xs
      some (match decodeLabels (.floats fs) with
        | some bs => ofList ofBool bs
        | none => atom "reject-value")
  | _ => none

def qvaluesOps : List (String × (List V → Option V)) :=
  [("tdc", opTdc), ("qspec", opQspec), ("labels", opLabels), ("declabels", opDecLabels)]

end Mk.Ops
