import MokapotVerif.Wire
import MokapotVerif.Model.Calibrate
import MokapotVerif.Model.CalibrateKeep
/-! Driver glue for `Model/Calibrate.lean`. -/
namespace Mk.Ops.Calibrate
open Mk Mk.Calibrate V

def ofXR : XR → V
  | XR.fin r => ofRat r
  | XR.pinf => atom "pinf"
  | XR.ninf => atom "ninf"
  | XR.nan => atom "nan"

def ofCalErr : CalErr → V
  | CalErr.empty => atom "reject-empty"
  | CalErr.noPositive => atom "reject-nopositive"

def ofCalRes : Except CalErr (List XR) → V
  | Except.ok vs => ofList ofXR vs
  | Except.error e => ofCalErr e

def calRows? (v : V) : Option (List (Rat × Bool)) := toList? (toPair? toRat? toBool?) v

def toFRow? : V → Option FRow
  | list [f, r, t] => do pure { fold := ← toNat? f, raw := ← toRat? r, target := ← toBool? t }
  | _ => none

/-- `calib <desc> <thr> [[score target] ...]` → model of `calibrate_scores` -/
def opCalib : List V → Option V
  | [d, t, xs] => do
      let desc ← toBool? d
      let thr ← toRat? t
      let xs ← calRows? xs
      some (ofCalRes (calibrate desc thr xs))
  | _ => none

/-- `calspec <desc> <thr> [[score target] ...]` → `[t? d? values?]`: the declarative ingredients
(least accepted target, decoy median) and the defining formula, each `none` where undefined -/
def opCalSpec : List V → Option V
  | [d, t, xs] => do
      let desc ← toBool? d
      let thr ← toRat? t
      let xs ← calRows? xs
      some (list [ofOpt ofRat (specT? desc thr xs), ofOpt ofRat (specD? xs),
                  ofOpt (ofList ofRat) (calSpec? desc thr xs)])
  | _ => none

/-- `predict <chunk> <folds> <thr> [[fold raw target] ...]` → model of `_predict` -/
def opPredict : List V → Option V
  | [c, k, t, rows] => do
      let c ← toNat? c
      let k ← toNat? k
      let thr ← toRat? t
      let rows ← toList? toFRow? rows
      some (ofCalRes (predictFolds c k thr rows))
  | _ => none

/-- `predspec <folds> <thr> [[fold raw target] ...]` → for each fold `f < folds` the spec of
calibrating exactly the rows of that fold: `[[t? d? values?] ...]` -/
def opPredSpec : List V → Option V
  | [k, t, rows] => do
      let k ← toNat? k
      let thr ← toRat? t
      let rows ← toList? toFRow? rows
      some (list ((List.range k).map (fun f =>
        let xs := foldOf f rows
        list [ofOpt ofRat (specT? true thr xs), ofOpt ofRat (specD? xs),
              ofOpt (ofList ofRat) (calSpec? true thr xs)])))
  | _ => none

/-- `median [..]` → model of `np.median` -/
def opMedian : List V → Option V
  | [xs] => do
      let xs ← toList? toRat? xs
      some (ofOpt ofRat (median xs))
  | _ => none

/-- `predictdf <chunk> [<has decision_function> ...] <thr> [[fold raw target] ...]` → model of
`_predict` with the per-model gate of brew.py:461-470 (one flag per fold model) -/
def opPredictDF : List V → Option V
  | [c, dfs, t, rows] => do
      let c ← toNat? c
      let dfs ← toList? toBool? dfs
      let thr ← toRat? t
      let rows ← toList? toFRow? rows
      some (ofCalRes (predictFoldsDF c dfs thr rows))
  | _ => none

def ofCollsRes : Except CalErr (List (List XR)) → V
  | Except.ok vs => ofList (ofList ofXR) vs
  | Except.error e => ofCalErr e

/-- `predictcolls <chunk> [flags] <thr> [[[fold raw target] ...] ...]` → model of
`list(_predict(...))` over several collections: one score list per collection, or the error of
the first collection that cannot be scored -/
def opPredictColls : List V → Option V
  | [c, dfs, t, colls] => do
      let c ← toNat? c
      let dfs ← toList? toBool? dfs
      let thr ← toRat? t
      let colls ← toList? (toList? toFRow?) colls
      some (ofCollsRes (predictColls c dfs thr colls))
  | _ => none

/-- `rescale <a> <b> [[score target] ...]` → the rows with every score replaced by `a·s + b`
(`rescaleRows`, the transformation of `C11_calib_rescale_invariant`) -/
def opRescale : List V → Option V
  | [a, b, xs] => do
      let a ← toRat? a
      let b ← toRat? b
      let xs ← calRows? xs
      some (ofList (fun x => list [ofRat x.1, ofBool x.2]) (rescaleRows a b xs))
  | _ => none

/-- scale / offset of fold `f` from the list of pairs (identity beyond its end) -/
def scaleA (sc : List (Rat × Rat)) (f : Nat) : Rat := (sc.getD f (1, 0)).1
def scaleB (sc : List (Rat × Rat)) (f : Nat) : Rat := (sc.getD f (1, 0)).2

/-- `predictresc <chunk> [flags] <thr> [[a b] per fold] [[fold raw target] ...]` → model of
`_predict` on the rows with every fold model's output re-scaled by its own `(a, b)`
(`rescaleFolds`, the transformation of `C11_gate_rescale_invariant`) -/
def opPredictResc : List V → Option V
  | [c, dfs, t, sc, rows] => do
      let c ← toNat? c
      let dfs ← toList? toBool? dfs
      let thr ← toRat? t
      let sc ← toList? (toPair? toRat? toRat?) sc
      let rows ← toList? toFRow? rows
      some (ofCalRes (predictFoldsDF c dfs thr (rescaleFolds (scaleA sc) (scaleB sc) rows)))
  | _ => none

/-- `gateflags [[fold-attribute has-decision_function] ...]` → the flags `_predict` sees fold by fold
after `fitted.sort(key=fold)` (brew.py:194-195) -/
def opGateFlags : List V → Option V
  | [ms] => do
      let ms ← toList? (toPair? toNat? toBool?) ms
      some (ofList ofBool (gateFlags ms))
  | _ => none

def toModelKeep? : V → Option (Bool × Nat) := toPair? toBool? toNat?

def ofBrewRes : Except CalErr (Option BrewOut) → V
  | Except.error e => ofCalErr e
  | Except.ok none => atom "reject-nonfinite"
  | Except.ok (some (BrewOut.kept sc)) => list [atom "kept", ofList (ofList ofXR) sc]
  | Except.ok (some (BrewOut.bestFeature i)) => list [atom "feature", ofNat i]

/-- `brewkeep <chunk> [flags] <thr> [[override feat_pass] ...] [[[fold raw target] ...] ...]` → model of what
`brew` returns as scores (brew.py:243-291; models in fold order): `[kept [[..] ..]]`, `[feature <model index>]`,
the error of `_predict`, or `reject-nonfinite` -/
def opBrewKeep : List V → Option V
  | [c, dfs, t, ms, colls] => do
      let c ← toNat? c
      let dfs ← toList? toBool? dfs
      let thr ← toRat? t
      let ms ← toList? toModelKeep? ms
      let colls ← toList? (toList? toFRow?) colls
      some (ofBrewRes (brewReturn c dfs thr ms colls))
  | _ => none

/-- `keepspec <thr> [[override feat_pass] ...] [[score ...] ...] [[[fold raw target] ...] ...]` → the spec of the
decision evaluated on given score vectors by the defining formula of the q-value (no `tdc`, no labels):
`[<kept?> <accepted targets over all collections> <largest feat_pass>]` -/
def opKeepSpec : List V → Option V
  | [t, ms, scs, colls] => do
      let thr ← toRat? t
      let ms ← toList? toModelKeep? ms
      let scs ← toList? (toList? toRat?) scs
      let colls ← toList? (toList? toFRow?) colls
      some (list [ofBool (keptSpecB thr ms scs colls), ofNat (acceptedTotal thr scs colls), ofNat (maxFeatPass ms)])
  | _ => none

end Mk.Ops.Calibrate

namespace Mk.Ops
open Mk V Mk.Ops.Calibrate

def calibrateOps : List (String × (List V → Option V)) :=
  [("calib", opCalib), ("calspec", opCalSpec), ("predict", opPredict), ("predspec", opPredSpec),
   ("median", opMedian), ("predictdf", opPredictDF), ("predictcolls", opPredictColls),
   ("rescale", opRescale), ("predictresc", opPredictResc), ("gateflags", opGateFlags),
   ("brewkeep", opBrewKeep), ("keepspec", opKeepSpec)]

end Mk.Ops
