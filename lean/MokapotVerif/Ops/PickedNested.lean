import MokapotVerif.Wire
import MokapotVerif.Model.Picked
import MokapotVerif.Model.PickedNested
import MokapotVerif.Ops.Picked
/-! Driver glue for `Model/PickedNested.lean` (third pass of C15). -/
namespace Mk.Ops.PickedNested
open Mk.V Mk.Ops.Picked

/-- `stripn [s ...]` → the column stripped by the repaired expression (FINDING-C15.md) -/
def opStripN : List V → Option V
  | [xs] => do
      let col ← toList? pkStr? xs
      if !col.all pkOkL then some (atom "unsupported")
      else some (ofList pkOfStr (Mk.Picked.stripColN col))
  | _ => none

/-- `stripmodsn s` → `re.sub(MOD, "", s)` for the repaired expression alone -/
def opStripModsN : List V → Option V
  | [x] => do
      let s ← pkStr? x
      if !pkOkL s then some (atom "unsupported") else some (pkOfStr (Mk.Picked.stripModsN 0 'x' s))
  | _ => none

/-- `dropdash s` → `re.sub(r"^-|-$", "", s)` -/
def opDropDash : List V → Option V
  | [x] => do
      let s ← pkStr? x
      if !pkOkL s then some (atom "unsupported") else some (pkOfStr (Mk.Picked.dropDash s))
  | _ => none

end Mk.Ops.PickedNested

namespace Mk.Ops
open Mk.V Mk.Ops.PickedNested

def pickedNestedOps : List (String × (List V → Option V)) :=
  [("stripn", opStripN), ("stripmodsn", opStripModsN), ("dropdash", opDropDash)]

end Mk.Ops
