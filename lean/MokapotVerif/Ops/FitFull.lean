import MokapotVerif.Wire
import MokapotVerif.Model.FitFull
import MokapotVerif.Ops.Fit
/-! Driver glue for `Model/FitFull.lean` (`Model.fit` from the DataFrame, prediction of the trained object).

Estimators: the fixtures of `Ops/Fit.lean` (`estOf`; the state is the weight vector, position 0 — the
smuggled PSM id — never receives a weight).  Scalers: `[]` = "as-is" (identity), `[mult]` = the
harness's `IntScaler(mult)`: state `lo` = per-column minimum of the matrix it is fitted on
(position 0: 0), transform `(x - lo_j) * mult` with position 0 kept. -/
namespace Mk.Ops.FitFull
open Mk Mk.Fit Mk.Ops.Fit V

def colMin (M : List (List Rat)) (j : Nat) : Rat :=
  (M.map (fun r => r.getD j 0)).foldl min ((M.headD []).getD j 0)

/-- `IntScaler.fit`: the column minima, 0 for the id column -/
def intScalerFit (M : List (List Rat)) : List Rat :=
  (List.range (M.headD []).length).map (fun j => if j = 0 then 0 else colMin M j)

def scalerOf : List Rat → Option (Scaler Rat (List Rat))
  | [] => some ⟨fun _ => [], fun _ M => M⟩
  | [mult] => some ⟨intScalerFit, fun lo M => intScaler lo mult M⟩
  | _ => none

def toOptList? {β : Type} (f : V → Option β) : V → Option (Option (List β))
  | list [] => some none
  | list [v] => (toList? f v).map some
  | _ => none

def toOptStr? : V → Option (Option String)
  | list [] => some none
  | list [v] => (toStr? v).map some
  | _ => none

def ofModel (m : Option (Trained String (List Rat) (List Rat))) : V :=
  ofOpt (fun t => list [ofList ofStr t.features, ofList ofRat t.scaler, ofList ofRat t.theta]) m

/-- `fitfull kind shuffle perm maxIter thr override [dirName?] [[name [values]] …] [used…] [[fc…]?] [targets] [mult?]`
→ `[status trace [[names] [lo] [weights]]|none]` or `reject-keyerror` -/
def opFitFull : List V → Option V
  | [atom kind, sh, perm, it, thr, ov, dir, frame, used, fc, targets, scaler] => do
      let frame ← toList? toCol? frame
      let used ← toList? toStr? used
      let fc ← toOptList? toStr? fc
      let targets ← toList? toBool? targets
      let sc ← scalerOf (← toList? toRat? scaler)
      let names := featureNames (frame.map (·.1)) used fc
      let dim := names.length
      let est ← estOf kind dim
      let cfg : FullCfg String := ⟨← toBool? sh, ← toList? toNat? perm, ← toNat? it, ← toBool? ov, ← toOptStr? dir⟩
      some (match fitFull sc est leQ (← toRat? thr) cfg (List.replicate dim 0) frame used fc targets with
        | none => atom "reject-keyerror"
        | some o => list [statusAtom o.out.status, ofTrace o.out.trace, ofModel o.model])
  | _ => none

def toModel? : V → Option (Option (Trained String (List Rat) (List Rat)))
  | list [] => some none
  | list [list [names, lo, w]] => do
      pure (some ⟨← toList? toStr? names, ← toList? toRat? lo, ← toList? toRat? w⟩)
  | _ => none

def ofPredFull : Option (Except PredErr (List Rat)) → V
  | none => atom "reject-keyerror"
  | some r => ofPred r

/-- `predictfull [[names] [lo] [weights]]? [mult?] n [[name [values]] …] [used…] [[fc…]?]` → the model of
`Model.predict` of the trained object: scores, `reject-notfitted`, `reject-features`, `reject-keyerror` -/
def opPredictFull : List V → Option V
  | [m, scaler, n, frame, used, fc] => do
      let sc ← scalerOf (← toList? toRat? scaler)
      some (ofPredFull (predictFull sc dot (← toModel? m) (← toNat? n) (← toList? toCol? frame) (← toList? toStr? used)
        (← toOptList? toStr? fc)))
  | _ => none

/-- `featurenames [frame names…] [used…] [[fc…]?]` → the feature-name list of the dataset -/
def opFeatureNames : List V → Option V
  | [names, used, fc] => do
      some (ofList ofStr (featureNames (← toList? toStr? names) (← toList? toStr? used) (← toOptList? toStr? fc)))
  | _ => none

end Mk.Ops.FitFull

namespace Mk.Ops
open Mk V Mk.Ops.FitFull

def fitFullOps : List (String × (List V → Option V)) :=
  [("fitfull", opFitFull), ("predictfull", opPredictFull), ("featurenames", opFeatureNames)]

end Mk.Ops
