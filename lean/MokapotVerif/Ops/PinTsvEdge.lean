import MokapotVerif.Wire
import MokapotVerif.Model.PinTsvEdge
/-! Driver glue for `Model/PinTsvEdge.lean` (third pass of C19). -/
namespace Mk.Ops.PinTsvEdge
open Mk V

def chars? (v : V) : Option Str := (toStr? v).map String.toList
def ofChars (l : Str) : V := ofStr (String.ofList l)

def sepChar? (v : V) : Option Char := do
  let s ← chars? v
  if s.length = 1 then s.head? else none

def optChars? : V → Option (Option Str)
  | atom "none" => some none
  | list [x] => (chars? x).map some
  | _ => none

def row? : V → Option PinRow
  | list [a, b, c, d, e] => do
      pure { padL := ← chars? a, pre := ← toList? chars? b, prots := ← toList? chars? c,
             post := ← toList? chars? d, padR := ← chars? e }
  | _ => none

def doc? : V → Option PinDoc
  | list [a, b, c, d, e, f] => do
      pure { hpadL := ← chars? a, cols := ← toList? chars? b, hpadR := ← chars? c,
             dd := ← optChars? d, rows := ← toList? row? e, trailingNl := ← toBool? f }
  | _ => none

/-- `chomp [line …]` → `[line.rstrip("\r\n") …]` -/
def opChomp : List V → Option V
  | [ls] => do
      let ls ← toList? chars? ls
      some (ofList ofChars (ls.map chomp))
  | _ => none

/-- `rewriteline [line …]` → what the converter writes for an unfolded line -/
def opRewriteLine : List V → Option V
  | [ls] => do
      let ls ← toList? chars? ls
      some (ofList ofChars (ls.map rewriteLine))
  | _ => none

/-- `spec-C19-edge <sepC> <sepP> <doc>` → `[tsvEdgeOk plain edgeSensitive lastLineOk]` -/
def opSpecEdge : List V → Option V
  | [c, p, d] => do
      let sepC ← sepChar? c
      let sepP ← chars? p
      let doc ← doc? d
      some (list [ofBool (tsvEdgeOk sepP doc), ofBool doc.plain, ofBool doc.edgeSensitive, ofBool (lastLineOk sepC doc)])
  | _ => none

end Mk.Ops.PinTsvEdge

namespace Mk.Ops
open Mk V Mk.Ops.PinTsvEdge

def pinTsvEdgeOps : List (String × (List V → Option V)) :=
  [("chomp", opChomp), ("rewriteline", opRewriteLine), ("spec-C19-edge", opSpecEdge)]

end Mk.Ops
