import MokapotVerif.Wire
import MokapotVerif.Model.Qvalues
import MokapotVerif.Model.Picked
import MokapotVerif.Model.PickedRun
import MokapotVerif.Ops.Picked
/-! Driver glue for `Model/PickedRun.lean` (second extension of C15). -/
namespace Mk.Ops.PickedRun
open Mk.V Mk.Ops.Picked

/-- the PEP kernel as the harness stubs it (C15 is not about PEPs) -/
def prPepZero (a : List (Mk.Picked.Entry Rat)) : List Rat := a.map (fun _ => 0)

/-- one collection on the wire: `[prefixId, dm, rows, desc]`, `prefixId = 0` for `None` / `""` -/
def prColl? : V → Option (Nat × List (List Char × List Char) × List (Mk.Picked.Row Rat) × Bool)
  | list [p, dm, rows, desc] => do
      pure (← toNat? p, ← pkPairs? dm, ← toList? pkRow? rows, ← toBool? desc)
  | _ => none

def prCall? : V → Option (Bool × List (Nat × List (List Char × List Char) × List (Mk.Picked.Row Rat) × Bool))
  | list [app, colls] => do pure (← toBool? app, ← toList? prColl? colls)
  | _ => none

def prPre (n : Nat) : Option Nat := if n = 0 then none else some n

/-- the protein level table of one collection: `picked_protein` on the oriented peptide level, then
`sort_values(by=score, ascending=False)` (stable merge sort as the arrangement) -/
def prTable (P : Mk.Picked.Proteins) (k : Nat × List (List Char × List Char) × List (Mk.Picked.Row Rat) × Bool) :
    Except Mk.Picked.Err (Mk.Picked.ProtColl Rat) :=
  (Mk.Picked.picked pkLe P k.2.1 (Mk.Picked.orient (fun (x : Rat) => -x) k.2.2.2 k.2.2.1)).map
    (fun es => ⟨prPre k.1, es.mergeSort (fun a b => pkLe b.score a.score)⟩)

def prTables (P : Mk.Picked.Proteins) :
    List (Nat × List (List Char × List Char) × List (Mk.Picked.Row Rat) × Bool) →
      Except Mk.Picked.Err (List (Mk.Picked.ProtColl Rat))
  | [] => .ok []
  | k :: ks => (prTable P k).bind (fun t => (prTables P ks).map (fun ts => t :: ts))

/-- run the calls one after the other on the same directory; a collection on which
`picked_protein` raises aborts everything (answered with its `reject-…`) -/
def prRunCalls (P : Mk.Picked.Proteins) (c : Nat) (decoys : Bool) :
    List (Bool × List (Nat × List (List Char × List Char) × List (Mk.Picked.Row Rat) × Bool)) →
      Mk.Picked.ProtFS Rat → Except Mk.Picked.Err (Mk.Picked.ProtFS Rat)
  | [], fs => .ok fs
  | call :: rest, fs =>
    (prTables P call.2).bind (fun colls =>
      prRunCalls P c decoys rest (Mk.Picked.protRun c (tdc pkLe) prPepZero decoys call.1 colls fs))

def prDedup : List Nat → List Nat
  | [] => []
  | x :: xs => x :: (prDedup xs).filter (fun y => y != x)

def prOfLine (l : Mk.Picked.ProtLine Rat) : V := list [pkOfEntry l.1, ofRat l.2.1]

/-- `pickedrun hasDecoys prefix peptideMap shared proteinMap chunk decoys calls` →
`[[prefixId, isDecoysFile, lines | none] …]` | reject-… : the protein result files after the calls
`calls = [[append_to_output_file, [[prefixId, dm, rows, desc] …]] …]` of `assign_confidence` on one
directory, written in pieces of `chunk` rows -/
def opPickedRun : List V → Option V
  | [hd, pre, pm, sh, prm, c, decoys, calls] => do
      let P ← pkProteins? [hd, pre, pm, sh, prm]
      let c ← toNat? c
      let decoys ← toBool? decoys
      let calls ← toList? prCall? calls
      if c = 0 then none else
      if !calls.all (fun call => call.2.all (fun k => pkStringsOk P k.2.1 k.2.2.1)) then some (atom "unsupported") else
      some (match prRunCalls P c decoys calls (fun _ => none) with
        | .error e => pkOfErr e
        | .ok fs =>
          let ids := prDedup (calls.flatMap (fun call => call.2.map (fun k => k.1)))
          ofList (fun (nd : Nat × Bool) =>
            list [ofNat nd.1, ofBool nd.2, ofOpt (ofList prOfLine) (fs (prPre nd.1, nd.2))])
            (ids.flatMap (fun i => [(i, false), (i, true)])))
  | _ => none

/-- `joingroup [member …]` → the group name `", ".join(members)` and the first member read back from it -/
def opJoinGroup : List V → Option V
  | [ms] => do
      let ms ← toList? pkStr? ms
      some (list [pkOfStr (Mk.Picked.joinGroup ms), pkOfStr (Mk.Picked.firstMember (Mk.Picked.joinGroup ms))])
  | _ => none

end Mk.Ops.PickedRun

namespace Mk.Ops
open Mk.V Mk.Ops.PickedRun

def pickedRunOps : List (String × (List V → Option V)) :=
  [("pickedrun", opPickedRun), ("joingroup", opJoinGroup)]

end Mk.Ops
