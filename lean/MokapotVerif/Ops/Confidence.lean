import MokapotVerif.Wire
import MokapotVerif.Model.Confidence
/-! Driver glue for `Model/Confidence.lean`.  A row on the wire is
`[id spec [keys…] target score]`. -/
namespace Mk.Ops.Conf
open Mk V

def row? : V → Option Row
  | list [i, s, ks, t, sc] => do
      pure { id := ← toNat? i, spec := ← toNat? s, keys := ← toList? toNat? ks,
             target := ← toBool? t, score := ← toInt? sc }
  | _ => none

def rows? (v : V) : Option (List Row) := toList? row? v

def ids (rs : List Row) : V := ofList (fun r => ofNat r.id) rs

/-- `conf <c> <dedup> <nLevels> [rows]` → `[[psm ids] [[level ids]…]]` -/
def opConf : List V → Option V
  | [c, d, n, rs] => do
      let c ← toNat? c
      let d ← toBool? d
      let n ← toNat? n
      let rs ← rows? rs
      if c = 0 then some (atom "reject-chunk0") else
      let out := confidenceLevels c d n rs
      some (list [ids out.1, list (out.2.map ids)])
  | _ => none

/-- `levelspec <level: -1 = spectrum, l ≥ 0 = roll-up level l> [input] [out]` → T/F -/
def opLevelSpec : List V → Option V
  | [l, inp, out] => do
      let l ← toInt? l
      let inp ← rows? inp
      let out ← rows? out
      let key : Row → Nat := if l < 0 then Row.spec else (fun r => r.key l.toNat)
      some (ofBool (levelSpecB key inp out))
  | _ => none

/-- `levelq [rows]` → q-value column of a level file -/
def opLevelQ : List V → Option V
  | [rs] => do
      let rs ← rows? rs
      if rs.isEmpty then some (list []) else some (ofList ofRat (levelQvalues rs))
  | _ => none

/-- `rolluptool <nLevels> [merged rows]` → ids per level -/
def opRollupTool : List V → Option V
  | [n, rs] => do
      let n ← toNat? n
      let rs ← rows? rs
      some (list ((rollupTool n rs).map ids))
  | _ => none

end Mk.Ops.Conf

namespace Mk.Ops
open Mk.Ops.Conf
def confidenceOps : List (String × (List V → Option V)) :=
  [("conf", opConf), ("levelspec", opLevelSpec), ("levelq", opLevelQ), ("rolluptool", opRollupTool)]
end Mk.Ops
