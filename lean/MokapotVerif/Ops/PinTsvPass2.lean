import MokapotVerif.Wire
import MokapotVerif.Model.PinTsvPass2
/-! Driver glue for `Model/PinTsvPass2.lean` (second extension of C19). -/
namespace Mk.Ops.PinTsvPass2
open Mk V

def chars? (v : V) : Option Str := (toStr? v).map String.toList
def ofChars (l : Str) : V := ofStr (String.ofList l)

def sepChar? (v : V) : Option Char := do
  let s ← chars? v
  if s.length = 1 then s.head? else none

def optChars? : V → Option (Option Str)
  | atom "none" => some none
  | list [x] => (chars? x).map some
  | _ => none

def optSepChar? : V → Option (Option Char)
  | atom "none" => some none
  | list [x] => (sepChar? x).map some
  | _ => none

def ofErr : Option PinErr → V
  | none => atom "none"
  | some .stopIteration => atom "reject-stop"
  | some .assertion => atom "reject-assert"

def row? : V → Option PinRow
  | list [a, b, c, d, e] => do
      pure { padL := ← chars? a, pre := ← toList? chars? b, prots := ← toList? chars? c,
             post := ← toList? chars? d, padR := ← chars? e }
  | _ => none

def doc? : V → Option PinDoc
  | list [a, b, c, d, e, f] => do
      pure { hpadL := ← chars? a, cols := ← toList? chars? b, hpadR := ← chars? c,
             dd := ← optChars? d, rows := ← toList? row? e, trailingNl := ← toBool? f }
  | _ => none

/-- `pin2tsvwrites <sepC> <sepP> <text>` → `[[<length of write> …] <exception|none> <what was written, if it raised>]`
(when the function returns, the concatenation of the writes is the answer of `pin2tsv`: `C19_writes_agree`) -/
def opWrites : List V → Option V
  | [c, p, t] => do
      let sepC ← sepChar? c
      let sepP ← chars? p
      let text ← chars? t
      let w := pinToTsvWrites sepC sepP (pyLines text)
      some (list [ofList (fun x => ofNat x.length) w.1, ofErr w.2, ofChars (if w.2.isNone then [] else w.1.flatten)])
  | _ => none

/-- `toolmainfs <[sepC]|none> <[sepP]|none> <raw input> <[old output]|none>` →
`[<content of the output file> <exception|none>]` -/
def opToolmainFs : List V → Option V
  | [c, p, t, o] => do
      let sepC ← optSepChar? c
      let sepP ← optChars? p
      let raw ← chars? t
      let old ← optChars? o
      let r := toolMainFs sepC sepP raw old
      some (list [ofChars r.1, ofErr r.2])
  | _ => none

def file? : V → Option (Str × Option Str)
  | list [a, b] => do pure (← chars? a, ← optChars? b)
  | _ => none

def ofStepFs (s : StepFs) : V := list [ofChars s.pin, ofOpt ofChars s.tsv]

/-- `verifyfilesfs <verify_pin> [[raw <[stale tsv]|none>] …]` →
`[[[pin <[tsv]|none>] …] <exception|none>]` -/
def opVerifyfilesFs : List V → Option V
  | [b, fs] => do
      let on ← toBool? b
      let files ← toList? file? fs
      let r := verifyFilesFs on files
      some (list [ofList ofStepFs r.1, ofErr r.2])
  | _ => none

/-- `spec-C19-doc <sepC> <sepP> <doc>` →
`[wf padsFree ddPlain docValidSpec <ddAccepted && rectangular> <protsFree for a one-character sepP, else F>]` -/
def opSpecDoc : List V → Option V
  | [c, p, d] => do
      let sepC ← sepChar? c
      let sepP ← chars? p
      let doc ← doc? d
      let free := if sepP.length = 1 then doc.protsFree (sepP.headD ' ') else false
      some (list [ofBool (doc.wf sepC), ofBool (doc.padsFree sepC), ofBool doc.ddPlain, ofBool (docValidSpec doc),
                  ofBool (ddAccepted sepC doc && doc.rectangular), ofBool free])
  | _ => none

/-- `spec-C19-all <sepC> <sepP> <doc>` → the answer of `spec-C19` (first six entries:
`wf sepPOk firstTsvRowOk <PIN text> <expected output text> <expected table>`) followed by the six of `spec-C19-doc`
(one request, so that a document is sent once) -/
def opSpecAll : List V → Option V
  | [c, p, d] => do
      let sepC ← sepChar? c
      let sepP ← chars? p
      let doc ← doc? d
      let free := if sepP.length = 1 then doc.protsFree (sepP.headD ' ') else false
      some (list [ofBool (doc.wf sepC), ofBool (sepPOk sepC sepP), ofBool (firstTsvRowOk sepC sepP doc),
                  ofChars (renderPin sepC doc), ofChars (renderTsv sepC sepP doc),
                  ofList (ofList ofChars) (specTable sepP doc),
                  ofBool (doc.wf sepC), ofBool (doc.padsFree sepC), ofBool doc.ddPlain, ofBool (docValidSpec doc),
                  ofBool (ddAccepted sepC doc && doc.rectangular), ofBool free])
  | _ => none

/-- `unfoldtable <sepC> <p> <idx> <text>` → the data rows of the text with the protein column split at `p` -/
def opUnfoldtable : List V → Option V
  | [c, p, i, t] => do
      let sepC ← sepChar? c
      let pc ← sepChar? p
      let idx ← toNat? i
      let text ← chars? t
      some (ofList (ofList ofChars) ((parseTable sepC text).tail.map (unfoldRow pc idx)))
  | _ => none

end Mk.Ops.PinTsvPass2

namespace Mk.Ops
open Mk V Mk.Ops.PinTsvPass2

def pinTsvPass2Ops : List (String × (List V → Option V)) :=
  [("pin2tsvwrites", opWrites), ("toolmainfs", opToolmainFs), ("verifyfilesfs", opVerifyfilesFs),
   ("spec-C19-doc", opSpecDoc), ("spec-C19-all", opSpecAll), ("unfoldtable", opUnfoldtable)]

end Mk.Ops
