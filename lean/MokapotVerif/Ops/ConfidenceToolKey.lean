import MokapotVerif.Wire
import MokapotVerif.Model.ConfidenceToolKey
/-! Driver glue for `Model/ConfidenceToolKey.lean`.  A row on the wire: `[id dtype text score]`,
dtype `n` (the reader chunk's column is numeric) or `o` (object). -/
namespace Mk.Ops.ConfToolKey
open Mk V

def crow? : V → Option ToolCellRow
  | list [i, d, t, sc] => do
      let d ← toStr? d
      let dt ← (if d = "n" then some ConfDtype.numeric else if d = "o" then some ConfDtype.object else none)
      pure { id := ← toNat? i, dtype := dt, text := (← toStr? t).toList, score := ← toInt? sc }
  | _ => none

/-- `toolcellrows <raw?> [rows]` → ids retained at the level (`raw` = T: the tool up to f95d0dc) -/
def opToolCellRows : List V → Option V
  | [raw, rs] => do
      let raw ← toBool? raw
      let rs ← toList? crow? rs
      let out := if raw then toolCellRowsRaw rs else toolCellRows rs
      some (ofList (fun (r : ToolCellRow) => ofNat r.id) out)
  | _ => none

/-- `toolcellspec [input rows] [output rows]` → T iff the output meets `ToolCellSpec` -/
def opToolCellSpec : List V → Option V
  | [inp, out] => do
      let inp ← toList? crow? inp
      let out ← toList? crow? out
      some (ofBool (toolCellSpecB inp out))
  | _ => none

end Mk.Ops.ConfToolKey

namespace Mk.Ops
open Mk.Ops.ConfToolKey
def confidenceToolKeyOps : List (String × (List V → Option V)) :=
  [("toolcellrows", opToolCellRows), ("toolcellspec", opToolCellSpec)]
end Mk.Ops
