import MokapotVerif.Wire
import MokapotVerif.Model.CrossText
/-! Driver glue for `Model/CrossText.lean` (C05, third pass). -/
namespace Mk.Ops.CrossText
open Mk Mk.Cross V

/-- texts are sent as ids; `cls` gives the class of every id, `canon` the id of the integer / float
spelling pandas writes for it (`[[id cls canonInt canonFloat] …]`) -/
structure TextInfo where
  id : Nat
  cls : Nat
  cInt : Nat
  cFloat : Nat

def info? : V → Option TextInfo
  | list [i, k, a, b] => do pure { id := ← toNat? i, cls := ← toNat? k, cInt := ← toNat? a, cFloat := ← toNat? b }
  | _ => none

def clsOf (tb : List TextInfo) (t : Nat) : Nat := ((tb.find? (fun x => x.id == t)).map (fun x => x.cls)).getD 2
def canonOfTbl (tb : List TextInfo) (d t : Nat) : Nat :=
  ((tb.find? (fun x => x.id == t)).map (fun x => if d == 0 then x.cInt else x.cFloat)).getD t

def row? : V → Option Row
  | list [i, s, ks, t, sc] => do
      pure { id := ← toNat? i, spec := ← toNat? s, keys := ← toList? toNat? ks,
             target := ← toBool? t, score := ← toInt? sc }
  | _ => none

def zeroPep (rows : List Row) : List Rat := rows.map (fun _ => 0)

def fileV (f : List (Row × Rat × Rat) × List (Row × Rat × Rat)) : V :=
  list [ofList (fun x => list [ofNat x.1.id, ofRat x.2.1]) f.1,
        ofList (fun x => list [ofNat x.1.id, ofRat x.2.1]) f.2]

/-- `xidcolumn <asText> <c> [[id cls canonInt canonFloat] …] [text ids]` → the column after one chunked read -/
def opIdColumn : List V → Option V
  | [a, c, tb, ts] => do
      let a ← toBool? a
      let c ← toNat? c
      let tb ← toList? info? tb
      let ts ← toList? toNat? ts
      if c = 0 then some (atom "reject-chunk0") else
      some (ofList ofNat (readColumn a (clsOf tb) (canonOfTbl tb) c ts))
  | _ => none

/-- `xtextfiles <asText> <c> <m> <dedup> <nLevels> [[id cls canonInt canonFloat] …] [rows] [scores]` → per level
`[[[text id, q] … targets] [… decoys]]` of a text input whose identifier column goes through the three
chunked reads (row ids are text ids) -/
def opTextFiles : List V → Option V
  | [a, c, m, d, n, tb, rs, sc] => do
      let a ← toBool? a
      let c ← toNat? c
      let m ← toNat? m
      let d ← toBool? d
      let n ← toNat? n
      let tb ← toList? info? tb
      let rs ← toList? row? rs
      let sc ← toList? toInt? sc
      if c = 0 || m = 0 then some (atom "reject-chunk0") else
      if rs.length != sc.length then some (atom "reject-length") else
      some (list ((textFiles a (clsOf tb) (canonOfTbl tb) c m d n zeroPep rs sc).map fileV))
  | _ => none

def numType? : V → Option NumType
  | list [f, b, s] => do pure { float := ← toBool? f, bits := ← toNat? b, signed := ← toBool? s }
  | _ => none

def keyV (k : NumType × List Int) : V :=
  list [ofBool k.1.float, ofNat k.1.bits, ofBool k.1.signed, ofList ofInt k.2]

/-- `xfoldkeys [[float bits signed] … one per spectrum column] [[values of a row] …]` → per row
`[float bits signed [first two values]]`: what `_split` prints and hashes (the code as it is) -/
def opFoldKeys : List V → Option V
  | [ts, rows] => do
      let ts ← toList? numType? ts
      let rows ← toList? (toList? toInt?) rows
      some (ofList keyV (foldKeys true promote64 ts rows))
  | _ => none

/-- `xfoldkeysspec [float flags] [[values] …]` → the specification: kinds and values only -/
def opFoldKeysSpec : List V → Option V
  | [ks, rows] => do
      let ks ← toList? toBool? ks
      let rows ← toList? (toList? toInt?) rows
      some (ofList keyV (foldKeysSpec promote64 ks rows))
  | _ => none

end Mk.Ops.CrossText

namespace Mk.Ops
open Mk.Ops.CrossText
def crossTextOps : List (String × (List V → Option V)) :=
  [("xidcolumn", opIdColumn), ("xtextfiles", opTextFiles), ("xfoldkeys", opFoldKeys),
   ("xfoldkeysspec", opFoldKeysSpec)]
end Mk.Ops
