import MokapotVerif.Wire
import MokapotVerif.Model.Digest
import MokapotVerif.Model.DigestPat
import MokapotVerif.Model.DigestZero
import MokapotVerif.Model.DigestMulti
/-!
Driver glue for `Model/Digest.lean`.

Residue strings travel as plain atoms with a one-letter tag in front (`qMKPAK`,
so that the empty string is the atom `q`); this keeps the exhaustive sweeps
cheap on the Python side.  Requests:

    sites      <cls> <notNext> <seq>                          → [0 5 6 9 9]
    digest     <cls> <notNext> <seq> mc lo hi clip semi        → [qPEP qPEP …]  (model, insertion order)
    digestspec <cls> <notNext> <seq> mc lo hi clip semi        → [qPEP …]       (enumeration of the spec)
    digestspec0 <cls> <notNext> <seq> mc lo hi clip semi       → [qPEP …]       (spec for all bounds, min_length = 0 included)
    digestdefault <seq>                                        → [qPEP …]       (model of `digest(sequence)`)

General patterns (`Model/DigestPat.lean`): a class is an atom `p<chars>` (`[chars]`) or
`n<chars>` (`[^chars]`, `n` alone = `.`); a pattern is `[class …] <laPos> <laClass>`:

    sitesp     [cls …] laPos laCls <seq>                       → [0 3 6]
    digestp    [cls …] laPos laCls <seq> mc lo hi clip semi    → [qPEP …]       (model)
    digestspecp [cls …] laPos laCls <seq> mc lo hi clip semi   → [qPEP …]       (enumeration of the spec, all bounds)

Zero-width rules (`Model/DigestZero.lean`): `lbPos lbCls laPos laCls` = `(?<=lbCls)` / `(?<!lbCls)` and
`(?=laCls)` / `(?!laCls)` (an absent assertion = the negative one on the empty class `p`):

    sitesz      lbPos lbCls laPos laCls <seq>                      → [0 0 2 4]
    digestz     lbPos lbCls laPos laCls <seq> mc lo hi clip semi   → [qPEP …]   (model)
    digestspecz lbPos lbCls laPos laCls <seq> mc lo hi clip semi   → [qPEP …]   (enumeration of `DigestSpecZ`: the code as it is)
    digestspeczi …                                                 → [qPEP …]   (enumeration of `DigestSpecZI`: the property text)

Any regex (`Model/DigestMulti.lean`): the match ends are part of the request; a list that is not weakly
increasing or exceeds `len(seq)` is refused (`reject-ends`: the hypotheses of `C17_digestM_mem_iff_spec`):

    sitesm      [ends …] <seq>                                     → [0 3 3 7 9]
    digestm     [ends …] <seq> mc lo hi clip semi                  → [qPEP …]   (model `digestM`)
    digestspecm [ends …] <seq> mc lo hi clip semi                  → [qPEP …]   (enumeration of `DigestSpecM`)
    digestint   [ends …] <seq> mc lo hi clip semi                  → [qPEP …]   (model `digestInt`: mc, lo, hi may be negative)
    digestspecms [ends …] <seq> mc lo hi clip semi                 → [qPEP …]   (enumeration of `DigestSpecMS`: positions as a set;
                                                                                 only for strictly increasing positive ends)
    matchatp    [cls …] laPos laCls <seq>                          → [T F …]    (`matchAt` at every position 0 … len(seq))
-/
namespace Mk.Ops
open Mk V

def toRes? : V → Option (List Char)
  | atom s =>
    match s.toList with
    | 'q' :: rest => some rest
    | _ => none
  | _ => none

def ofRes (p : List Char) : V := atom (String.ofList ('q' :: p))

def opSites : List V → Option V
  | [c, x, s] => do
      let cls ← toRes? c
      let nn ← toRes? x
      let seq ← toRes? s
      some (ofList ofNat (cleavageSites ⟨cls, nn⟩ seq))
  | _ => none

def digestArgs (f : Enzyme → List Char → Nat → Nat → Nat → Bool → Bool → List Pep) : List V → Option V
  | [c, x, s, mc, lo, hi, clip, semi] => do
      let cls ← toRes? c
      let nn ← toRes? x
      let seq ← toRes? s
      let mc ← toNat? mc
      let lo ← toNat? lo
      let hi ← toNat? hi
      let clip ← toBool? clip
      let semi ← toBool? semi
      some (ofList ofRes (f ⟨cls, nn⟩ seq mc lo hi clip semi))
  | _ => none

def opDigest : List V → Option V := digestArgs digest
def opDigestSpec : List V → Option V := digestArgs specList

end Mk.Ops

namespace Mk.Ops.Digest
open Mk V Mk.Ops

def opDigestSpec0 : List V → Option V := digestArgs specList0

def opDigestDefault : List V → Option V
  | [s] => do
      let seq ← toRes? s
      some (ofList ofRes (digestDefault seq))
  | _ => none

def toClass? : V → Option ResClass
  | atom s =>
    match s.toList with
    | 'p' :: rest => some ⟨false, rest⟩
    | 'n' :: rest => some ⟨true, rest⟩
    | _ => none
  | _ => none

def toPattern? (cs pos la : V) : Option EnzymeP := do
  let classes ← toList? toClass? cs
  let pos ← toBool? pos
  let la ← toClass? la
  match classes with
  | first :: more => some ⟨first, more, pos, la⟩
  | [] => none

def opSitesP : List V → Option V
  | [cs, pos, la, s] => do
      let e ← toPattern? cs pos la
      let seq ← toRes? s
      some (ofList ofNat (cleavageSitesP e seq))
  | _ => none

def digestPArgs (f : EnzymeP → List Char → Nat → Nat → Nat → Bool → Bool → List Pep) : List V → Option V
  | [cs, pos, la, s, mc, lo, hi, clip, semi] => do
      let e ← toPattern? cs pos la
      let seq ← toRes? s
      let mc ← toNat? mc
      let lo ← toNat? lo
      let hi ← toNat? hi
      let clip ← toBool? clip
      let semi ← toBool? semi
      some (ofList ofRes (f e seq mc lo hi clip semi))
  | _ => none

def toZero? (lbPos lb laPos la : V) : Option EnzymeZ := do
  let lbPos ← toBool? lbPos
  let lb ← toClass? lb
  let laPos ← toBool? laPos
  let la ← toClass? la
  some ⟨lbPos, lb, laPos, la⟩

def opSitesZ : List V → Option V
  | [lbPos, lb, laPos, la, s] => do
      let e ← toZero? lbPos lb laPos la
      let seq ← toRes? s
      some (ofList ofNat (cleavageSitesZ e seq))
  | _ => none

def digestZArgs (f : EnzymeZ → List Char → Nat → Nat → Nat → Bool → Bool → List Pep) : List V → Option V
  | [lbPos, lb, laPos, la, s, mc, lo, hi, clip, semi] => do
      let e ← toZero? lbPos lb laPos la
      let seq ← toRes? s
      let mc ← toNat? mc
      let lo ← toNat? lo
      let hi ← toNat? hi
      let clip ← toBool? clip
      let semi ← toBool? semi
      some (ofList ofRes (f e seq mc lo hi clip semi))
  | _ => none

def opSitesM : List V → Option V
  | [es, s] => do
      let ends ← toList? toNat? es
      let seq ← toRes? s
      if endsOk ends seq.length then some (ofList ofNat (cleavageSitesM ends seq.length))
      else some (atom "reject-ends")
  | _ => none

def digestMArgs (f : List Nat → List Char → Nat → Nat → Nat → Bool → Bool → List Pep) : List V → Option V
  | [es, s, mc, lo, hi, clip, semi] => do
      let ends ← toList? toNat? es
      let seq ← toRes? s
      let mc ← toNat? mc
      let lo ← toNat? lo
      let hi ← toNat? hi
      let clip ← toBool? clip
      let semi ← toBool? semi
      if endsOk ends seq.length then some (ofList ofRes (f ends seq mc lo hi clip semi))
      else some (atom "reject-ends")
  | _ => none

def opDigestInt : List V → Option V
  | [es, s, mc, lo, hi, clip, semi] => do
      let ends ← toList? toNat? es
      let seq ← toRes? s
      let mc ← toInt? mc
      let lo ← toInt? lo
      let hi ← toInt? hi
      let clip ← toBool? clip
      let semi ← toBool? semi
      if endsOk ends seq.length then some (ofList ofRes (digestInt ends seq mc lo hi clip semi))
      else some (atom "reject-ends")
  | _ => none

def opDigestSpecMS : List V → Option V
  | [es, s, mc, lo, hi, clip, semi] => do
      let ends ← toList? toNat? es
      let seq ← toRes? s
      let mc ← toNat? mc
      let lo ← toNat? lo
      let hi ← toNat? hi
      let clip ← toBool? clip
      let semi ← toBool? semi
      if endsStrict ends seq.length then some (ofList ofRes (specListMSet ends seq mc lo hi clip semi))
      else some (atom "reject-ends")
  | _ => none

def opMatchAtP : List V → Option V
  | [cs, pos, la, s] => do
      let e ← toPattern? cs pos la
      let seq ← toRes? s
      some (ofList ofBool ((List.range (seq.length + 1)).map (matchAt e seq)))
  | _ => none

end Mk.Ops.Digest

namespace Mk.Ops
open Mk V

def digestOps : List (String × (List V → Option V)) :=
  [("sites", opSites), ("digest", opDigest), ("digestspec", opDigestSpec),
   ("digestspec0", Digest.opDigestSpec0), ("digestdefault", Digest.opDigestDefault),
   ("sitesp", Digest.opSitesP), ("digestp", Digest.digestPArgs digestP),
   ("digestspecp", Digest.digestPArgs specListP),
   ("sitesz", Digest.opSitesZ), ("digestz", Digest.digestZArgs digestZ),
   ("digestspecz", Digest.digestZArgs specListZ), ("digestspeczi", Digest.digestZArgs specListZI),
   ("sitesm", Digest.opSitesM), ("digestm", Digest.digestMArgs digestM),
   ("digestspecm", Digest.digestMArgs specListM), ("digestint", Digest.opDigestInt),
   ("digestspecms", Digest.opDigestSpecMS), ("matchatp", Digest.opMatchAtP)]

end Mk.Ops
