import MokapotVerif.Wire
import MokapotVerif.Model.Digest
/-!
Driver glue for `Model/Digest.lean`.

Residue strings travel as plain atoms with a one-letter tag in front (`qMKPAK`,
so that the empty string is the atom `q`); this keeps the exhaustive sweeps
cheap on the Python side.  Requests:

    sites      <cls> <notNext> <seq>                          → [0 5 6 9 9]
    digest     <cls> <notNext> <seq> mc lo hi clip semi        → [qPEP qPEP …]  (model, insertion order)
    digestspec <cls> <notNext> <seq> mc lo hi clip semi        → [qPEP …]       (enumeration of the spec)
-/
namespace Mk.Ops
open Mk V

def toRes? : V → Option (List Char)
  | atom s =>
    match s.toList with
    | 'q' :: rest => some rest
    | _ => none
  | _ => none

def ofRes (p : List Char) : V := atom (String.ofList ('q' :: p))

def opSites : List V → Option V
  | [c, x, s] => do
      let cls ← toRes? c
      let nn ← toRes? x
      let seq ← toRes? s
      some (ofList ofNat (cleavageSites ⟨cls, nn⟩ seq))
  | _ => none

def digestArgs (f : Enzyme → List Char → Nat → Nat → Nat → Bool → Bool → List Pep) : List V → Option V
  | [c, x, s, mc, lo, hi, clip, semi] => do
      let cls ← toRes? c
      let nn ← toRes? x
      let seq ← toRes? s
      let mc ← toNat? mc
      let lo ← toNat? lo
      let hi ← toNat? hi
      let clip ← toBool? clip
      let semi ← toBool? semi
      some (ofList ofRes (f ⟨cls, nn⟩ seq mc lo hi clip semi))
  | _ => none

def opDigest : List V → Option V := digestArgs digest
def opDigestSpec : List V → Option V := digestArgs specList

def digestOps : List (String × (List V → Option V)) :=
  [("sites", opSites), ("digest", opDigest), ("digestspec", opDigestSpec)]

end Mk.Ops
