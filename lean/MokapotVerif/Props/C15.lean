import MokapotVerif.Lemmas.Picked
import MokapotVerif.Lemmas.PickedStrip
import MokapotVerif.Lemmas.PickedMatch
/-!
# C15 — Picked-protein: one entry per target/decoy protein pair, won by its best peptide

Property theorems only.  `le a b` reads "`b` is at least as good as `a`" and is
any total preorder (`TotalPre`), so arbitrary scores with arbitrary ties are
covered.  Peptide tables, the `Proteins` maps, the pairing `dm` drawn by
`match_decoy` (target-only FASTA) and the arrangement `sorted` left by the
seeded shuffle + `sort_values` of `groupby_max` are all universally
quantified: "for every table, every database, every seed".

`candidates P dm rows = .ok R` says that the real code reaches `groupby_max`
(no exception) with the candidate rows `R`; the pair of a row is its
`Entry.key` (first member of the group name mapped through the target→decoy
name map — "decoy counterpart" as the code defines it, see
`C15_pair_key_counterpart`).
-/
namespace Mk.Picked
variable {α : Type}

/-! ## 1. modifications and flanking residues are ignored -/

/-- **strip_spec**: in any column, a peptide written as `flank.SEQ.flank` or plain
`SEQ`, with bracketed modifications anywhere in `SEQ` (`[...]`, `(...)`, content
arbitrary — dots, digits, letters, opening brackets) and lower-case markers
between the residues, is stripped to exactly the upper-case residues of `SEQ`. -/
theorem C15_strip_spec (col : List (List Char)) (i : Nat)
    (fl : Option (List Char × List Char)) (toks : List Tok)
    (hcol : col[i]? = some (renderPeptide fl toks))
    (hwf : ∀ t ∈ toks, t.wf) (hfl : flanksOk fl) (hres : ∃ c, Tok.res c ∈ toks) :
    (stripCol col)[i]? = some (toks.flatMap Tok.residues) :=
  strip_wellformed col i fl toks hcol hwf hfl hres

/-- two peptides of one table that differ only in modifications, lower-case
markers and flanking residues get the same stripped sequence (hence the same
protein group: the lookup `groupOf` only sees the stripped sequence). -/
theorem C15_strip_ignores_mods_and_flanks (col : List (List Char)) (i j : Nat)
    (fl fl' : Option (List Char × List Char)) (toks toks' : List Tok)
    (hi : col[i]? = some (renderPeptide fl toks)) (hj : col[j]? = some (renderPeptide fl' toks'))
    (hwf : ∀ t ∈ toks, t.wf) (hwf' : ∀ t ∈ toks', t.wf) (hfl : flanksOk fl) (hfl' : flanksOk fl')
    (hres : ∃ c, Tok.res c ∈ toks) (hres' : ∃ c, Tok.res c ∈ toks')
    (hsame : toks.flatMap Tok.residues = toks'.flatMap Tok.residues) :
    (stripCol col)[i]? = (stripCol col)[j]? := by
  rw [C15_strip_spec col i fl toks hi hwf hfl hres, C15_strip_spec col j fl' toks' hj hwf' hfl' hres', hsame]

/-- the lower-case convention: when *every* peptide of the table is written with
lower-case residues, the stripped sequences are the residues in upper case. -/
theorem C15_strip_lowercase_spec (specs : List (Option (List Char × List Char) × List Tok))
    (h : ∀ s ∈ specs, LowerSpec s) :
    stripCol (specs.map (fun s => renderPeptide s.1 s.2))
      = specs.map (fun s => (s.2.flatMap Tok.plain).map Char.toUpper) :=
  strip_all_lower specs h

/-! ## 2. one entry per pair, won by the best peptide -/

/-- **one_entry_per_pair**: whatever the seed (any arrangement the shuffle and
the (key, score) sort can leave), the pair keys of the result are pairwise
distinct, and a pair has an entry iff some retained unique-peptide row belongs
to it. -/
theorem C15_one_entry_per_pair (P : Proteins)
    (dm : List (List Char × List Char)) (rows : List (Row α)) (R sorted : List (Entry α))
    (_hR : candidates P dm rows = .ok R) (hperm : sorted.Perm R) :
    ((pickedOf P sorted).map (fun e => e.key P)).Nodup ∧
    ∀ k, k ∈ (pickedOf P sorted).map (fun e => e.key P) ↔ ∃ r ∈ R, r.key P = k := by
  refine ⟨keepLast_keys_nodup P sorted, fun k => ⟨?_, ?_⟩⟩
  · intro hk
    obtain ⟨e, he, rfl⟩ := List.mem_map.mp hk
    exact ⟨e, hperm.mem_iff.mp (mem_of_mem_keepLast he), rfl⟩
  · rintro ⟨r, hr, rfl⟩
    obtain ⟨e, he, hk⟩ := keepLast_covers P sorted r (hperm.mem_iff.mpr hr)
    exact List.mem_map.mpr ⟨e, he, hk⟩

/-- **entry_is_best_peptide**: every entry is one row of the peptide table —
it reports that row's peptide, the stripped sequence of that very peptide, its
score and its target flag; its group is the group that owns the stripped
sequence; and no retained row of the same pair (target group *or* decoy
counterpart) scores better. -/
theorem C15_entry_is_best_peptide (le : α → α → Bool) (hle : TotalPre le) (P : Proteins)
    (dm : List (List Char × List Char)) (rows : List (Row α)) (R sorted : List (Entry α))
    (hR : candidates P dm rows = .ok R) (hperm : sorted.Perm R) (hs : KeySorted le P sorted) :
    ∀ e ∈ pickedOf P sorted,
      (∃ (i : Nat) (r : Row α), rows[i]? = some r ∧
        (stripCol (rows.map (fun r => r.peptide)))[i]? = some e.stripped ∧
        e.peptide = r.peptide ∧ e.score = r.score ∧ e.target = r.target ∧
        groupOf P (decoyMap P dm) e.stripped = some e.group) ∧
      ∀ r ∈ R, r.key P = e.key P → le r.score e.score = true := by
  intro e he
  have hspec := pickedOf_spec le hle.refl P R sorted hperm hs
  obtain ⟨heR, hmax⟩ := hspec.2.2 e he
  refine ⟨?_, hmax⟩
  rw [(candidates_ok hR).1] at heR
  exact (mem_retained_annotate_iff P _ rows e).mp heR

/-- the candidate rows are exactly the table rows whose stripped sequence has a
protein group (so the two theorems above speak about all of them and only them). -/
theorem C15_retained_iff (P : Proteins) (dm : List (List Char × List Char)) (rows : List (Row α))
    (R : List (Entry α)) (hR : candidates P dm rows = .ok R) (e : Entry α) :
    e ∈ R ↔ ∃ (i : Nat) (r : Row α), rows[i]? = some r ∧
        (stripCol (rows.map (fun r => r.peptide)))[i]? = some e.stripped ∧
        e.peptide = r.peptide ∧ e.score = r.score ∧ e.target = r.target ∧
        groupOf P (decoyMap P dm) e.stripped = some e.group := by
  rw [(candidates_ok hR).1]
  exact mem_retained_annotate_iff P _ rows e

/-- **notation_irrelevant_for_mapping**: two candidate rows whose peptides are notations of the same
residue sequence (whatever their modifications, lower-case markers and flanking residues) belong to
the same protein group, hence to the same target/decoy pair — they compete for one entry. -/
theorem C15_notation_irrelevant_for_mapping (P : Proteins) (dm : List (List Char × List Char))
    (rows : List (Row α)) (R : List (Entry α)) (hR : candidates P dm rows = .ok R)
    (e1 e2 : Entry α) (h1 : e1 ∈ R) (h2 : e2 ∈ R) (i j : Nat)
    (fl fl' : Option (List Char × List Char)) (toks toks' : List Tok)
    (hi : (rows.map (fun r => r.peptide))[i]? = some (renderPeptide fl toks))
    (hj : (rows.map (fun r => r.peptide))[j]? = some (renderPeptide fl' toks'))
    (hs1 : (stripCol (rows.map (fun r => r.peptide)))[i]? = some e1.stripped)
    (hs2 : (stripCol (rows.map (fun r => r.peptide)))[j]? = some e2.stripped)
    (hwf : ∀ t ∈ toks, t.wf) (hwf' : ∀ t ∈ toks', t.wf) (hfl : flanksOk fl) (hfl' : flanksOk fl')
    (hres : ∃ c, Tok.res c ∈ toks) (hres' : ∃ c, Tok.res c ∈ toks')
    (hsame : toks.flatMap Tok.residues = toks'.flatMap Tok.residues) :
    e1.stripped = e2.stripped ∧ e1.group = e2.group ∧ e1.key P = e2.key P := by
  have hst : e1.stripped = e2.stripped := by
    have := C15_strip_ignores_mods_and_flanks _ i j fl fl' toks toks' hi hj hwf hwf' hfl hfl' hres hres' hsame
    rw [hs1, hs2] at this
    exact Option.some.inj this
  obtain ⟨_, _, _, _, _, _, _, hg1⟩ := (C15_retained_iff P dm rows R hR e1).mp h1
  obtain ⟨_, _, _, _, _, _, _, hg2⟩ := (C15_retained_iff P dm rows R hR e2).mp h2
  rw [hst, hg2] at hg1
  have hg : e1.group = e2.group := (Option.some.inj hg1).symm
  exact ⟨hst, hg, by unfold Entry.key; rw [hg]⟩

/-- where the reported group comes from: the unique-peptide map of the FASTA;
only with a target-only FASTA, and only for a sequence that is *not* a unique
target peptide, it is the mirrored (prefixed) group of the unique target peptide
that `match_decoy` paired with it. -/
theorem C15_group_origin (P : Proteins) (dm : List (List Char × List Char)) (rows : List (Row α))
    (R : List (Entry α)) (hR : candidates P dm rows = .ok R) :
    ∀ e ∈ R, P.peptideMap.lookup e.stripped = some e.group ∨
      (P.hasDecoys = false ∧ P.peptideMap.lookup e.stripped = none ∧
        ∃ t gt, (e.stripped, t) ∈ dm ∧ P.peptideMap.lookup t = some gt ∧
          e.group = prefixGroup P.decoyPrefix gt) := by
  intro e he
  obtain ⟨_, _, _, _, _, _, _, hg⟩ := (C15_retained_iff P dm rows R hR e).mp he
  exact groupOf_origin P dm _ _ hg

/-- the executable model (`mergeSort` as one admissible arrangement) meets the
declarative specification `SpecEntries`. -/
theorem C15_picked_meets_spec (le : α → α → Bool) (hle : TotalPre le) (P : Proteins)
    (dm : List (List Char × List Char)) (rows : List (Row α)) (R out : List (Entry α))
    (hR : candidates P dm rows = .ok R) (hout : picked le P dm rows = .ok out) :
    SpecEntries le P R out := by
  unfold picked at hout
  rw [hR] at hout
  simp only [Except.map] at hout
  injection hout with hout
  subst hout
  exact pickedOf_spec le hle.refl P R _ (List.mergeSort_perm _ _) (mergeSort_keySorted le hle P R)

/-- every admissible arrangement (every seed) meets the specification -/
theorem C15_any_seed_meets_spec (le : α → α → Bool) (hle : TotalPre le) (P : Proteins)
    (R sorted : List (Entry α)) (hperm : sorted.Perm R) (hs : KeySorted le P sorted) :
    SpecEntries le P R (pickedOf P sorted) :=
  pickedOf_spec le hle.refl P R sorted hperm hs

/-- the decidable checker the harness runs on the *implementation's* output is
equivalent to the specification. -/
theorem C15_specCheck_iff [DecidableEq α] (le : α → α → Bool) (P : Proteins) (R out : List (Entry α)) :
    specCheck le P R out = 0 ↔ SpecEntries le P R out :=
  specCheck_iff le P R out

/-- the specification pins the result down: when no two candidate rows of one
pair tie, any two results meeting it have the same entries — in particular the
result does not depend on the seed. -/
theorem C15_entries_unique_when_tie_free (le : α → α → Bool) (P : Proteins) (R o1 o2 : List (Entry α))
    (htf : TieFree le P R) (h1 : SpecEntries le P R o1) (h2 : SpecEntries le P R o2) : o1.Perm o2 :=
  spec_unique le P R o1 o2 htf h1 h2

theorem C15_seed_independent_when_tie_free (le : α → α → Bool) (hle : TotalPre le) (P : Proteins)
    (R s1 s2 : List (Entry α)) (htf : TieFree le P R)
    (hp1 : s1.Perm R) (hs1 : KeySorted le P s1) (hp2 : s2.Perm R) (hs2 : KeySorted le P s2) :
    (pickedOf P s1).Perm (pickedOf P s2) :=
  spec_unique le P R _ _ htf (pickedOf_spec le hle.refl P R s1 hp1 hs1)
    (pickedOf_spec le hle.refl P R s2 hp2 hs2)

/-! ## 3. shared peptides never contribute -/

/-- **shared_never_contribute**: given what `read_fasta` guarantees (a shared
peptide is not a key of the unique-peptide map; C16) — and, for a target-only
FASTA, that no decoy sequence paired by `match_decoy` is itself a shared
peptide — a row whose stripped sequence is shared between protein groups is
never a candidate, no entry reports such a sequence, and deleting all those
rows leaves the candidates (hence the entries) unchanged. -/
theorem C15_shared_never_contribute (P : Proteins)
    (dm : List (List Char × List Char)) (rows : List (Row α)) (R sorted : List (Entry α))
    (hR : candidates P dm rows = .ok R) (hperm : sorted.Perm R)
    (hsh : ∀ s ∈ P.shared, groupOf P (decoyMap P dm) s = none) :
    (∀ e ∈ pickedOf P sorted, e.stripped ∉ P.shared) ∧
    retained ((annotate P (decoyMap P dm) rows).filter (fun x => !P.shared.contains x.stripped)) = R := by
  have hRe := (candidates_ok hR).1
  constructor
  · intro e he
    have : e ∈ R := hperm.mem_iff.mp (mem_of_mem_keepLast he)
    rw [hRe] at this
    exact retained_not_shared P _ _ (annotate_annotated P _ rows) hsh e this
  · rw [hRe]
    exact retained_filter_shared P _ _ (annotate_annotated P _ rows) hsh

/-- with decoys in the FASTA the hypothesis of the previous theorem is just
"shared peptides are not unique peptides". -/
theorem C15_shared_hypothesis_with_decoys (P : Proteins) (dm : List (List Char × List Char))
    (hd : P.hasDecoys = true) (hdisj : ∀ s ∈ P.shared, P.peptideMap.lookup s = none) :
    ∀ s ∈ P.shared, groupOf P (decoyMap P dm) s = none := by
  intro s hs
  unfold groupOf decoyMap
  simp [hd, hdisj s hs]

/-! ## 4. the pair key is the target/decoy counterpart relation -/

/-- with the name map `read_fasta` builds (`name ↦ prefix ++ name` for every
protein whose name does not carry the prefix), a target group `g` and a decoy
group `g'` fall into the same pair iff the first member of `g'` is the prefixed
first member of `g`. -/
theorem C15_pair_key_counterpart (P : Proteins) (names : List (List Char)) (g g' : List Char)
    (hmap : P.proteinMap = names.map (fun n => (n, P.decoyPrefix ++ n)))
    (hg : firstMember g ∈ names) (hg' : firstMember g' ∉ names) :
    pairKey P g = P.decoyPrefix ++ firstMember g ∧ pairKey P g' = firstMember g' ∧
    (pairKey P g = pairKey P g' ↔ firstMember g' = P.decoyPrefix ++ firstMember g) := by
  have h1 : pairKey P g = P.decoyPrefix ++ firstMember g := by
    unfold pairKey; rw [hmap, lookup_mirror]; simp [hg]
  have h2 : pairKey P g' = firstMember g' := by
    unfold pairKey; rw [hmap, lookup_mirror]; simp [hg']
  refine ⟨h1, h2, ?_⟩
  rw [h1, h2]
  exact eq_comm

/-- target-only FASTA: the mirrored group given to a decoy peptide lies in the
same pair as the target group it mirrors. -/
theorem C15_mirrored_group_same_pair (P : Proteins) (names : List (List Char)) (g : List Char)
    (hmap : P.proteinMap = names.map (fun n => (n, P.decoyPrefix ++ n)))
    (hpre : ∀ c ∈ P.decoyPrefix, c ≠ ',')
    (hg : firstMember g ∈ names) (hng : P.decoyPrefix ++ firstMember g ∉ names) :
    pairKey P (prefixGroup P.decoyPrefix g) = pairKey P g := by
  have hf := firstMember_prefixGroup P.decoyPrefix g hpre
  have := C15_pair_key_counterpart P names g (prefixGroup P.decoyPrefix g) hmap hg (by rw [hf]; exact hng)
  rw [this.1, this.2.1, hf]

/-! ## 5. protein q-values are C01's formula over exactly these entries -/

/-- **protein_qvalues_are_C01**: whatever order the entries are written in
(`sort_values` by score is unstable), the q-value attached to each entry is the
TDC formula `qSpec` of C01 evaluated on the (score, target) pairs of exactly
the entries. -/
theorem C15_protein_qvalues_are_C01 (le : α → α → Bool) (hle : TotalPre le)
    (entries arr : List (Entry α)) (hperm : arr.Perm entries) :
    proteinLevel (tdc le) arr = arr.map (fun e => (e, qSpec le (entryLabels entries) e.score)) :=
  proteinLevel_eq le hle entries arr hperm

/-! ## 6. when the code does not raise -/

/-- if every row is mapped or is a known shared peptide, and at least one row is
mapped, `picked_protein` raises nothing (so the theorems above apply). -/
theorem C15_no_error_when_all_mapped (P : Proteins) (dm : List (List Char × List Char))
    (rows : List (Row α)) (hk : pairingKeyError P dm = false)
    (hbad : ∀ x ∈ annotate P (decoyMap P dm) rows, isBad P x = false)
    (hne : retained (annotate P (decoyMap P dm) rows) ≠ []) :
    candidates P dm rows = .ok (retained (annotate P (decoyMap P dm) rows)) := by
  obtain ⟨h2, h3⟩ := no_error_of_no_bad P _ hbad
  exact candidates_of_ok P dm rows hk h2 h3 hne

/-! ## 7. target-only FASTA: the pairing `group_without_decoys` obtains from `match_decoy`

`shuffled` is the list of unique target peptides (keys of the peptide map) in the order the
seeded shuffle left them — universally quantified, so the statements hold for every seed. -/

/-- **match_decoy_sound**: every pair `(decoy, target)` of the drawn pairing consists of a
decoy sequence that was offered, a target peptide that was offered, and both have the same
composition key. -/
theorem C15_match_decoy_sound (shuffled decoys : List Str) :
    ∀ dt ∈ matchDecoy shuffled decoys,
      dt.1 ∈ decoys ∧ dt.2 ∈ shuffled ∧ targetComp dt.2 = decoyComp dt.1 :=
  (matchDecoy_inv shuffled decoys).sound

/-- the composition key is the residue multiset: for an upper-case decoy sequence `d` (what
`strip_peptides` returns), a target peptide `t` has the key of `d` iff `t` is an anagram of `d`. -/
theorem C15_same_key_iff_same_residues (d t : Str) (hd : ∀ c ∈ d, c.isUpper = true) :
    targetComp t = decoyComp d ↔ t.Perm d := by
  rw [decoyComp_upper d hd]
  exact targetComp_eq_iff_perm t d

/-- **match_decoy_injective**: "a *unique* random target": no decoy sequence occurs twice in the
pairing, and — the target peptides being distinct dict keys — no target peptide is given to two
decoy sequences. -/
theorem C15_match_decoy_injective (shuffled decoys : List Str) (hnd : shuffled.Nodup) :
    ((matchDecoy shuffled decoys).map Prod.fst).Nodup ∧ ((matchDecoy shuffled decoys).map Prod.snd).Nodup :=
  ⟨(matchDecoy_inv shuffled decoys).keys, matchDecoy_vals_nodup shuffled decoys hnd⟩

/-- **match_decoy_complete**: with distinct decoy sequences (`.unique()`), a decoy sequence stays
without a partner only if every target peptide of its composition has been given to another
decoy sequence. -/
theorem C15_match_decoy_complete (shuffled decoys : List Str) (hnd : decoys.Nodup) :
    ∀ d ∈ decoys, d ∉ (matchDecoy shuffled decoys).map Prod.fst →
      ∀ t ∈ shuffled, targetComp t = decoyComp d → t ∈ (matchDecoy shuffled decoys).map Prod.snd := by
  intro d hd hnk t ht hc
  have h := matchDecoy_invC shuffled decoys hnd
  rcases h.cover t ht with hv | hpool
  · exact hv
  · exact absurd hc (h.exhausted d hd hnk t hpool)

/-- the decoy sequences `group_without_decoys` offers to `match_decoy` are exactly the stripped
sequences of the non-target rows, each once. -/
theorem C15_decoy_seqs (rows : List (Row α)) :
    (decoySeqs rows).Nodup ∧
    ∀ d, d ∈ decoySeqs rows ↔ ∃ (i : Nat) (r : Row α), rows[i]? = some r ∧ r.target = false ∧
      (stripCol (rows.map (fun r => r.peptide)))[i]? = some d := by
  refine ⟨uniqueFirst_nodup _, fun d => ?_⟩
  unfold decoySeqs
  rw [mem_uniqueFirst]
  simp only [List.mem_map, List.mem_filter, Bool.not_eq_eq_eq_not, Bool.not_true]
  constructor
  · rintro ⟨rs, ⟨hmem, htgt⟩, rfl⟩
    obtain ⟨i, hi, hget⟩ := List.mem_iff_getElem.mp hmem
    have h1 : rows[i]? = some rs.1 := by
      rw [List.getElem_zip] at hget
      have hlt : i < rows.length := by simp at hi; omega
      rw [List.getElem?_eq_getElem hlt]
      exact congrArg some (congrArg Prod.fst hget)
    have h2 : (stripCol (rows.map (fun r => r.peptide)))[i]? = some rs.2 := by
      rw [List.getElem_zip] at hget
      have hlt : i < (stripCol (rows.map (fun r => r.peptide))).length := by simp at hi; omega
      rw [List.getElem?_eq_getElem hlt]
      exact congrArg some (congrArg Prod.snd hget)
    exact ⟨i, rs.1, h1, htgt, h2⟩
  · rintro ⟨i, r, hr, htgt, hs⟩
    refine ⟨(r, d), ⟨?_, htgt⟩, rfl⟩
    obtain ⟨h1, e1⟩ := List.getElem?_eq_some_iff.mp hr
    obtain ⟨h2, e2⟩ := List.getElem?_eq_some_iff.mp hs
    have hz : i < (rows.zip (stripCol (rows.map (fun r => r.peptide)))).length := by
      simp only [List.length_zip]; omega
    have : (rows.zip (stripCol (rows.map (fun r => r.peptide))))[i]'hz = (r, d) := by
      rw [List.getElem_zip, e1, e2]
    rw [← this]
    exact List.getElem_mem hz

/-- **pairing_independent_of_key_order**: the targets offered to the seeded shuffle are the keys of the
unique-peptide map in sorted order — two `Proteins` objects whose maps hold the same keys in a different
(hash-dependent) order offer the same list, so the same seed draws the same pairing. -/
theorem C15_pairing_independent_of_key_order (P P' : Proteins)
    (h : (P.peptideMap.map Prod.fst).Perm (P'.peptideMap.map Prod.fst)) :
    pairingTargets P = pairingTargets P' ∧ (pairingTargets P).Perm (P.peptideMap.map Prod.fst) := by
  refine ⟨?_, sortBy_perm _ _⟩
  unfold pairingTargets
  apply List.Perm.eq_of_pairwise (le := fun a b => strLe a b = true)
  · intro a b _ _ h1 h2; exact strLe_antisymm a b h1 h2
  · exact sortBy_pairwise strLe strLe_total strLe_trans _
  · exact sortBy_pairwise strLe strLe_total strLe_trans _
  · exact ((sortBy_perm strLe _).trans h).trans (sortBy_perm strLe _).symm

/-- **pairing_never_key_error**: `proteins.peptide_map[target_peptide]` cannot raise: the partner is
always a key of the peptide map. -/
theorem C15_pairing_never_key_error (P : Proteins) (shuffled : List Str) (rows : List (Row α))
    (hperm : shuffled.Perm (P.peptideMap.map Prod.fst)) :
    pairingKeyError P (pairing shuffled rows) = false := by
  unfold pairingKeyError
  rw [Bool.and_eq_false_iff]
  right
  rw [List.any_eq_false]
  intro dt hdt
  have h := (C15_match_decoy_sound shuffled (decoySeqs rows) dt hdt).2.1
  have := lookup_isSome_of_mem_keys P.peptideMap dt.2 (hperm.subset h)
  simp [this]

/-- **target_only_counterpart**: with a target-only FASTA, a candidate row whose sequence is not a
unique target peptide belongs to the mirrored (prefixed) group of a unique target peptide `t` with the
same composition key, and no other decoy sequence of the table is mirrored through the same `t` —
for every seed. -/
theorem C15_target_only_counterpart (P : Proteins) (shuffled : List Str) (rows : List (Row α))
    (R : List (Entry α)) (hperm : shuffled.Perm (P.peptideMap.map Prod.fst))
    (hkeys : (P.peptideMap.map Prod.fst).Nodup)
    (hR : candidates P (pairing shuffled rows) rows = .ok R) :
    ∀ e ∈ R, P.peptideMap.lookup e.stripped = some e.group ∨
      (P.hasDecoys = false ∧ P.peptideMap.lookup e.stripped = none ∧
        ∃ t gt, (e.stripped, t) ∈ pairing shuffled rows ∧ P.peptideMap.lookup t = some gt ∧
          targetComp t = decoyComp e.stripped ∧ e.group = prefixGroup P.decoyPrefix gt ∧
          ∀ s', (s', t) ∈ pairing shuffled rows → s' = e.stripped) := by
  intro e he
  rcases C15_group_origin P (pairing shuffled rows) rows R hR e he with h | ⟨hd, hn, t, gt, hmem, hgt, hg⟩
  · exact Or.inl h
  · refine Or.inr ⟨hd, hn, t, gt, hmem, hgt, ?_, hg, ?_⟩
    · exact (C15_match_decoy_sound shuffled (decoySeqs rows) _ hmem).2.2
    · intro s' hs'
      have hnd := (C15_match_decoy_injective shuffled (decoySeqs rows) (hperm.nodup_iff.mpr hkeys)).2
      exact pair_fst_eq_of_snd_nodup hnd hs' hmem

/-- a decoy sequence of the table is left without a group only when all unique target peptides of
its composition are taken by other decoy sequences of the table. -/
theorem C15_pairing_complete (shuffled : List Str) (rows : List (Row α)) :
    ∀ d ∈ decoySeqs rows, d ∉ (pairing shuffled rows).map Prod.fst →
      ∀ t ∈ shuffled, targetComp t = decoyComp d → t ∈ (pairing shuffled rows).map Prod.snd :=
  C15_match_decoy_complete shuffled (decoySeqs rows) (C15_decoy_seqs rows).1

/-- the executable model with the pairing computed from the draw meets the specification over the
candidates that pairing yields. -/
theorem C15_pickedFull_meets_spec (le : α → α → Bool) (hle : TotalPre le) (P : Proteins)
    (shuffled : List Str) (rows : List (Row α)) (R out : List (Entry α))
    (hR : candidates P (pairing shuffled rows) rows = .ok R) (hout : pickedFull le P shuffled rows = .ok out) :
    SpecEntries le P R out :=
  C15_picked_meets_spec le hle P (pairing shuffled rows) rows R out hR hout

/-! ## 8. the protein level of `assign_confidence`: lower-is-better scores and the two result files -/

/-- **lower_is_better**: with `descs=[False]` the scores are negated first; every entry then is a
row of the table reported with its *negated* score, and no retained row of the same pair has a
lower original score. -/
theorem C15_lower_is_better (le : α → α → Bool) (hle : TotalPre le) (neg : α → α)
    (hneg : ∀ a b, le (neg a) (neg b) = le b a) (P : Proteins)
    (dm : List (List Char × List Char)) (rows : List (Row α)) (R sorted : List (Entry α))
    (hR : candidates P dm (orient neg false rows) = .ok R) (hperm : sorted.Perm R)
    (hs : KeySorted le P sorted) :
    ∀ e ∈ pickedOf P sorted,
      ∃ (i : Nat) (r : Row α), rows[i]? = some r ∧
        (stripCol (rows.map (fun r => r.peptide)))[i]? = some e.stripped ∧
        e.peptide = r.peptide ∧ e.score = neg r.score ∧ e.target = r.target ∧
        groupOf P (decoyMap P dm) e.stripped = some e.group ∧
        ∀ r2 ∈ R, r2.key P = e.key P → ∀ raw2, r2.score = neg raw2 → le r.score raw2 = true := by
  intro e he
  obtain ⟨⟨i, r', hr', hst, hp, hsc, htg, hg⟩, hmax⟩ :=
    C15_entry_is_best_peptide le hle P dm (orient neg false rows) R sorted hR hperm hs e he
  have hor : orient neg false rows = rows.map (fun r => (⟨r.target, r.peptide, neg r.score⟩ : Row α)) := by
    simp [orient]
  rw [hor] at hr' hst
  rw [List.getElem?_map] at hr'
  simp only [List.map_map] at hst
  cases hri : rows[i]? with
  | none => rw [hri] at hr'; simp at hr'
  | some r =>
    rw [hri] at hr'
    simp only [Option.map_some, Option.some.injEq] at hr'
    subst hr'
    refine ⟨i, r, hri, ?_, hp, hsc, htg, hg, ?_⟩
    · exact hst
    · intro r2 hr2 hk raw2 hraw
      have := hmax r2 hr2 hk
      rw [hraw, hsc, hneg] at this
      exact this

/-- **protein_files**: `targets.proteins` holds exactly the target entries and `decoys.proteins`
(written only with `decoys=True`) exactly the decoy entries, in the order of the level table, each
with the C01 q-value computed over *all* entries — so leaving the decoy file out (`decoys=False`)
changes nothing in `targets.proteins`. -/
theorem C15_protein_files (le : α → α → Bool) (hle : TotalPre le)
    (entries arr : List (Entry α)) (hperm : arr.Perm entries) (decoys : Bool) :
    (proteinFiles (tdc le) decoys arr).1
      = (arr.filter (fun e => e.target)).map (fun e => (e, qSpec le (entryLabels entries) e.score)) ∧
    (proteinFiles (tdc le) decoys arr).2
      = (if decoys then some ((arr.filter (fun e => !e.target)).map
          (fun e => (e, qSpec le (entryLabels entries) e.score))) else none) ∧
    (proteinFiles (tdc le) false arr).1 = (proteinFiles (tdc le) true arr).1 := by
  unfold proteinFiles
  rw [C15_protein_qvalues_are_C01 le hle entries arr hperm]
  refine ⟨?_, ?_, rfl⟩
  · rw [List.filter_map]; rfl
  · cases decoys
    · rfl
    · simp only [if_true]; rw [List.filter_map]; rfl

/-- every entry is written to exactly one of the two files (`decoys=True`), and a level table in
descending score order gives two files in descending score order. -/
theorem C15_protein_files_partition (le : α → α → Bool) (qv : List (α × Bool) → List Rat)
    (arr : List (Entry α)) :
    ((proteinFiles qv true arr).1 ++ ((proteinFiles qv true arr).2.getD [])).Perm (proteinLevel qv arr) ∧
    ((proteinLevel qv arr).Pairwise (fun a b => le b.1.score a.1.score = true) →
      (proteinFiles qv true arr).1.Pairwise (fun a b => le b.1.score a.1.score = true) ∧
      ((proteinFiles qv true arr).2.getD []).Pairwise (fun a b => le b.1.score a.1.score = true)) := by
  unfold proteinFiles
  simp only [if_true, Option.getD_some]
  exact ⟨List.filter_append_perm _ _, fun h => ⟨h.filter _, h.filter _⟩⟩

/-! ## Non-vacuity and evaluation tests -/

def leQ (a b : Rat) : Bool := decide (a ≤ b)

theorem leQ_totalPre : TotalPre leQ := by
  constructor
  · intro a b; simp only [leQ, decide_eq_true_eq]; exact le_total a b
  · intro a b c; simp only [leQ, decide_eq_true_eq]; exact le_trans

/-- a small database with decoys: P1 and the group "P2, P3", peptide CCK shared -/
def exP : Proteins :=
  { hasDecoys := true, decoyPrefix := "decoy_".toList,
    peptideMap := [("AAK".toList, "P1".toList), ("BBK".toList, "P2, P3".toList),
                   ("KAA".toList, "decoy_P1".toList), ("KBB".toList, "decoy_P2, decoy_P3".toList)],
    shared := ["CCK".toList],
    proteinMap := [("P1".toList, "decoy_P1".toList), ("P2".toList, "decoy_P2".toList),
                   ("P3".toList, "decoy_P3".toList)] }

def exRows : List (Row Rat) :=
  [⟨true, "K.AAK.B".toList, 1⟩, ⟨false, "KAA".toList, 2⟩, ⟨true, "BBK".toList, 5⟩,
   ⟨false, "KB[+1.5]B".toList, 3⟩, ⟨true, "CCK".toList, 9⟩, ⟨true, "-.AnA(ox)K.-".toList, 4⟩]

-- the hypotheses are satisfiable by a non-trivial input: the code does not raise, …
#guard (candidates exP [] exRows).toOption.map List.length == some 5
-- … pair P1 has target rows (scores 1, 4) and a decoy row (2): the target row with 4 wins; pair P2 has a
-- target (5) and a decoy (3); the shared peptide CCK (9, the best score of all) is ignored
#guard (picked leQ exP [] exRows).toOption.map (fun es => es.map (fun e => (String.ofList e.group, String.ofList e.peptide, String.ofList e.stripped, e.score, e.target)))
    == some [("P1", "-.AnA(ox)K.-", "AAK", 4, true), ("P2, P3", "BBK", "BBK", 5, true)]
#guard (picked leQ exP [] exRows).toOption.map (fun es => specCheck leQ exP ((candidates exP [] exRows).toOption.getD []) es) == some 0
-- the checker has teeth: dropping an entry, duplicating a pair, a non-maximal row, a foreign row
#guard specCheck leQ exP ((candidates exP [] exRows).toOption.getD []) [⟨"P1".toList, "-.AnA(ox)K.-".toList, "AAK".toList, 4, true⟩] == 2
#guard specCheck leQ exP ((candidates exP [] exRows).toOption.getD [])
    [⟨"P1".toList, "-.AnA(ox)K.-".toList, "AAK".toList, 4, true⟩, ⟨"decoy_P1".toList, "KAA".toList, "KAA".toList, 2, false⟩,
     ⟨"P2, P3".toList, "BBK".toList, "BBK".toList, 5, true⟩] == 1
#guard specCheck leQ exP ((candidates exP [] exRows).toOption.getD [])
    [⟨"decoy_P1".toList, "KAA".toList, "KAA".toList, 2, false⟩, ⟨"P2, P3".toList, "BBK".toList, "BBK".toList, 5, true⟩] == 4
#guard specCheck leQ exP ((candidates exP [] exRows).toOption.getD [])
    [⟨"P1".toList, "AAK".toList, "AAK".toList, 4, true⟩, ⟨"P2, P3".toList, "BBK".toList, "BBK".toList, 5, true⟩] == 3
-- strip
#guard (stripCol ["A.LES[+79.]LIEK.A".toList, "n[1.2]ABC(x]D".toList, "K.PEPmTIDE.-".toList]).map String.ofList
    == ["LESLIEK", "ABCD", "PEPTIDE"]
#guard (stripCol ["abc".toList, "k.de[x].f".toList]).map String.ofList == ["ABC", "DE"]
-- target-only FASTA: mirrored groups
#guard String.ofList (prefixGroup "decoy_".toList "P2, P3".toList) == "decoy_P2, decoy_P3"
-- exceptions
#guard (candidates exP [] ([⟨true, "XXK".toList, 1⟩] : List (Row Rat))).toOption.isNone
#guard (candidates exP [] ([] : List (Row Rat))).toOption.isNone

/-! ### non-vacuity of sections 7 and 8 -/

/-- a target-only database: P1 {AAK, CDK}, group "P2, P3" {BBK}; CCK shared -/
def exPT : Proteins :=
  { hasDecoys := false, decoyPrefix := "decoy_".toList,
    peptideMap := [("AAK".toList, "P1".toList), ("BBK".toList, "P2, P3".toList), ("CDK".toList, "P1".toList)],
    shared := ["CCK".toList],
    proteinMap := [("P1".toList, "decoy_P1".toList), ("P2".toList, "decoy_P2".toList),
                   ("P3".toList, "decoy_P3".toList)] }

/-- the keys as one seeded shuffle may leave them -/
def exShuffled : List Str := ["CDK".toList, "BBK".toList, "AAK".toList]

/-- targets AAK (1), BBK (5); decoys AKA (anagram of AAK, 2), KBB twice (3, 7: one decoy sequence),
DCK (anagram of CDK, 4), KWW (no target of that composition: unpaired, dropped) -/
def exRowsT : List (Row Rat) :=
  [⟨true, "AAK".toList, 1⟩, ⟨false, "K.AKA.-".toList, 2⟩, ⟨true, "BBK".toList, 5⟩, ⟨false, "KBB".toList, 3⟩,
   ⟨false, "KB[+1]B".toList, 7⟩, ⟨false, "DCK".toList, 4⟩, ⟨false, "KWW".toList, 0⟩]

-- hypotheses of `C15_target_only_counterpart` / `C15_pairing_never_key_error` hold for this input
example : exShuffled.Perm (exPT.peptideMap.map Prod.fst) ∧ (exPT.peptideMap.map Prod.fst).Nodup ∧
    exShuffled.Perm (pairingTargets exPT) := by decide
#guard (pairingTargets exPT).map String.ofList == ["AAK", "BBK", "CDK"]
#guard (decoySeqs exRowsT).map String.ofList == ["AKA", "KBB", "DCK", "KWW"]
#guard (pairing exShuffled exRowsT).map (fun x => (String.ofList x.1, String.ofList x.2))
    == [("AKA", "AAK"), ("KBB", "BBK"), ("DCK", "CDK")]
#guard (candidates exPT (pairing exShuffled exRowsT) exRowsT).toOption.map List.length == some 6
-- pair P1: target AAK (1), mirrored decoys AKA (2) and DCK (4) -> decoy_P1 wins with DCK;
-- pair "P2, P3": target BBK (5), mirrored decoy KBB (3, 7) -> the modified decoy peptide wins
#guard (pickedFull leQ exPT exShuffled exRowsT).toOption.map (fun es => es.map (fun e => (String.ofList e.group, String.ofList e.peptide, String.ofList e.stripped, e.score, e.target)))
    == some [("decoy_P1", "DCK", "DCK", 4, false), ("decoy_P2, decoy_P3", "KB[+1]B", "KBB", 7, false)]
-- hypotheses of `C15_same_key_iff_same_residues` / `C15_match_decoy_complete`
example : (∀ c ∈ "AKA".toList, c.isUpper = true) ∧ "AAK".toList.Perm "AKA".toList ∧
    (decoySeqs exRowsT).Nodup ∧ "KWW".toList ∈ decoySeqs exRowsT ∧
    "KWW".toList ∉ (pairing exShuffled exRowsT).map Prod.fst := by decide
-- composition keys outside the upper-case domain are compared as the code compares them
#guard String.ofList (decoyComp "BA1".toList) == "A1B" && String.ofList (targetComp "BA1".toList) == "1AB"

-- `C15_lower_is_better`: the hypothesis on the negation holds for rational scores
example : ∀ a b : Rat, leQ (-a) (-b) = leQ b a := by
  intro a b; simp only [leQ]; congr 1; exact propext Rat.neg_le_neg_iff
#guard (candidates exP [] (orient (fun (x : Rat) => -x) false exRows)).toOption.map List.length == some 5
-- lower is better: pair P1 is now won by the target row with the *lowest* score (1), reported as -1
#guard (picked leQ exP [] (orient (fun (x : Rat) => -x) false exRows)).toOption.map (fun es => es.map (fun e => (String.ofList e.group, String.ofList e.peptide, e.score)))
    == some [("P1", "K.AAK.B", -1), ("decoy_P2, decoy_P3", "KB[+1.5]B", -3)]
-- `C15_protein_files`: targets.proteins / decoys.proteins of the example, q-values over all four entries
#guard ((picked leQ exP [] ([⟨false, "KAA".toList, 9⟩] ++ exRows)).toOption.map (fun es =>
      let f := proteinFiles (tdc leQ) true (es.mergeSort (fun a b => leQ b.score a.score))
      (f.1.map (fun x => (String.ofList x.1.group, x.2)), (f.2.getD []).map (fun x => (String.ofList x.1.group, x.2)))))
    == some ([("P2, P3", 1)], [("decoy_P1", 1)])
#guard ((picked leQ exP [] ([⟨false, "KAA".toList, 9⟩] ++ exRows)).toOption.map (fun es =>
      (proteinFiles (tdc leQ) false (es.mergeSort (fun a b => leQ b.score a.score))).2.isNone)) == some true

/-- a concrete well-formed annotated peptide for `C15_strip_spec`: `K.n[+42.01]PEPmT(ph.os)K.-` -/
def exToks : List Tok :=
  [.low 'n', .mod '[' "+42.01".toList ']', .res 'P', .res 'E', .res 'P', .low 'm', .res 'T',
   .mod '(' "ph.os".toList ')', .res 'K']

example : (∀ t ∈ exToks, t.wf) ∧ flanksOk (some ("K".toList, "-".toList)) ∧ (∃ c, Tok.res c ∈ exToks) ∧
    String.ofList (renderPeptide (some ("K".toList, "-".toList)) exToks) = "K.n[+42.01]PEPmT(ph.os)K.-" ∧
    exToks.flatMap Tok.residues = "PEPTK".toList := by
  refine ⟨?_, ?_, ⟨'P', by simp [exToks]⟩, by decide, by decide⟩
  · intro t ht
    simp only [exToks, List.mem_cons, List.not_mem_nil, or_false] at ht
    rcases ht with rfl | rfl | rfl | rfl | rfl | rfl | rfl | rfl | rfl <;> simp [Tok.wf, isOpen, isClose]
  · constructor <;> (intro c hc; simp at hc; subst hc; decide)

/-- the hypotheses of `C15_pair_key_counterpart` / `C15_mirrored_group_same_pair` hold for `exP` -/
example : exP.proteinMap = ["P1".toList, "P2".toList, "P3".toList].map (fun n => (n, exP.decoyPrefix ++ n)) ∧
    firstMember "P2, P3".toList ∈ ["P1".toList, "P2".toList, "P3".toList] ∧
    firstMember "decoy_P2, decoy_P3".toList ∉ ["P1".toList, "P2".toList, "P3".toList] := by decide

/-- hypotheses of `C15_shared_never_contribute` hold for `exP` -/
example : ∀ s ∈ exP.shared, groupOf exP (decoyMap exP []) s = none := by decide

example : TotalPre leQ := leQ_totalPre

end Mk.Picked
