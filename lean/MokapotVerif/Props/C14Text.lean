import MokapotVerif.Props.C14Paths
import MokapotVerif.Lemmas.MergeText
/-!
# C14, third pass — `merge_sort(paths, score_column, text_columns)`: rows come out *unmodified*

Property theorems only.

* A row as written is `(b, s)`: `b` the score and the cells read back as they are, `s` the spelling of
  an identifier cell.  `TCell.kept s` is the cell handed on as the text it is, `TCell.parsed v` the cell
  re-read as a number by the per-chunk type inference `infer` of the text reader (a parameter: every
  theorem holds for every inference).
* `kmergePathsText le infer textColumns col c files` is `merge_sort(paths, score, text_columns)` on files
  `(suffix, rows as written)` with `MERGE_SORT_CHUNK_SIZE = c`, observed at the identifier column `col`.
-/
namespace Mk.Merge
variable {β σ ν : Type}

/-- the score order on rows with a cell is a total preorder when the score order is -/
theorem C14_text_order_total_preorder {γ : Type} (le : β → β → Bool) (hle : TotalPre le) :
    TotalPre (tcLe (γ := γ) le) :=
  ⟨fun a b => hle.total a.1 b.1, fun a b c h1 h2 => hle.trans a.1 b.1 c.1 h1 h2⟩

/-- "unmodified", per file: with the identifier column listed in `text_columns`, the row iterator of a
text file hands on every row with the cell as it was written — for every reader chunk size and
whatever the type inference would have made of the chunks -/
theorem C14_text_columns_rows_as_written (infer : List σ → Option (List ν)) (c : Nat) (hc : 0 < c)
    (xs : List (β × σ)) : tcRowIterText infer true c xs = xs.map tcKeep :=
  tcRowIterText_true infer c hc xs

/-- refinement: with the identifier column in `text_columns`, `merge_sort` on any path list (text with
any suffixes, Parquet, mixed) yields exactly the rows *as written*, merged as the plain model of the
second pass merges them; in particular (`C14_paths_*`, `C14_kmerge_*`) every row exactly once, globally
sorted, the same for text and Parquet, independent of the chunk size -/
theorem C14_text_columns_merge_as_written (le : β → β → Bool) (infer : List σ → Option (List ν))
    (tcols : Option (List String)) (col : String) (htc : tcActive tcols col = true)
    (c : Nat) (hc : 0 < c) (files : List (String × List (β × σ))) :
    kmergePathsText le infer tcols col c files
      = (kmergePaths (tcLe le) c files).map (List.map tcKeep) := by
  unfold kmergePathsText
  rw [kmergePaths_eq, htc]
  change (if pathsReadable files = true then _ else _) = _
  cases pathsReadable files with
  | false => rfl
  | true =>
    simp only [if_true]
    rw [kmergeFiles_eq (tcLe le) c hc]
    have : files.map (tcReadFile infer true c) = (files.map (·.2)).map (List.map tcKeep) := by
      rw [List.map_map]
      exact List.map_congr_left (fun f _ => tcReadFile_true infer c hc f)
    rw [this]
    exact kmerge_map tcKeep (tcLe le) (tcLe le) (fun _ _ => rfl) _

/-- the clause itself for the parameterised entry point: every written row exactly once with its
identifier cell as written, and in non-increasing score order when the files are sorted -/
theorem C14_text_columns_perm_sorted (le : β → β → Bool) (hle : TotalPre le)
    (infer : List σ → Option (List ν)) (tcols : Option (List String)) (col : String)
    (htc : tcActive tcols col = true) (c : Nat) (hc : 0 < c)
    (files : List (String × List (β × σ))) (out : List (β × TCell σ ν))
    (h : kmergePathsText le infer tcols col c files = some out) :
    out.Perm ((files.map (·.2)).flatten.map tcKeep) ∧
      ((∀ f ∈ files, NonIncr (tcLe le) f.2) → NonIncr (tcLe le) out) := by
  rw [C14_text_columns_merge_as_written le infer tcols col htc c hc] at h
  cases hp : kmergePaths (tcLe le) c files with
  | none => rw [hp] at h; cases h
  | some o =>
    rw [hp] at h
    have ho : out = o.map tcKeep := by cases h; rfl
    obtain ⟨hperm, hsort⟩ :=
      C14_paths_perm_sorted (tcLe le) (C14_text_order_total_preorder le hle) c hc files o hp
    refine ⟨ho ▸ hperm.map tcKeep, fun hs => ?_⟩
    have := hsort hs
    rw [ho]
    unfold NonIncr at this ⊢
    rw [List.pairwise_map]
    exact this

/-- independent of the reader chunk size, identifier spellings included (what fix 3ddf4e0 is about:
without `text_columns` this is false, `Mutant.textColumnsDropped_violates`) -/
theorem C14_text_columns_chunk_invariant (le : β → β → Bool) (infer : List σ → Option (List ν))
    (tcols : Option (List String)) (col : String) (htc : tcActive tcols col = true)
    (c₁ c₂ : Nat) (h₁ : 0 < c₁) (h₂ : 0 < c₂) (files : List (String × List (β × σ))) :
    kmergePathsText le infer tcols col c₁ files = kmergePathsText le infer tcols col c₂ files := by
  rw [C14_text_columns_merge_as_written le infer tcols col htc c₁ h₁,
    C14_text_columns_merge_as_written le infer tcols col htc c₂ h₂, kmergePaths_eq, kmergePaths_eq,
    kmergeFiles_eq _ c₁ h₁, kmergeFiles_eq _ c₂ h₂]

/-- "Parquet ignores it": on a list of Parquet files the result is the same with and without
`text_columns` (and with any other column list): the rows as stored -/
theorem C14_text_columns_parquet_ignored (le : β → β → Bool) (infer : List σ → Option (List ν))
    (tcols : Option (List String)) (col : String) (c : Nat) (hc : 0 < c)
    (files : List (String × List (β × σ))) (hp : ∀ f ∈ files, kmIsParquet f.1 = true) :
    kmergePathsText le infer tcols col c files
      = (kmerge (tcLe le) (files.map (·.2))).map (List.map tcKeep) := by
  unfold kmergePathsText
  change (if pathsReadable files = true then _ else _) = _
  rw [pathsReadable_of_same true files hp, if_pos rfl]
  have : files.map (tcReadFile infer (tcActive tcols col) c)
      = (files.map (·.2)).map (List.map tcKeep) := by
    rw [List.map_map]
    exact List.map_congr_left (fun f hf => tcReadFile_parquet infer _ c hc f (hp f hf))
  rw [this]
  exact kmerge_map tcKeep (tcLe le) (tcLe le) (fun _ _ => rfl) _

/-- whatever `text_columns` says (`None`, `[]`, other columns): the type inference touches the
identifier cells only — the sequence of scores (and of all cells read back as they are) that
`merge_sort` yields is the merge of the written ones, for every chunk size -/
theorem C14_text_columns_scores_any (le : β → β → Bool) (infer : List σ → Option (List ν))
    (hi : InferLen infer) (tcols : Option (List String)) (col : String) (c : Nat) (hc : 0 < c)
    (files : List (String × List (β × σ))) :
    (kmergePathsText le infer tcols col c files).map (List.map (·.1))
      = kmergePaths le c (files.map (fun f => (f.1, f.2.map (·.1)))) := by
  unfold kmergePathsText
  rw [kmergePaths_eq]
  have hr : pathsReadable (files.map (fun f => (f.1, f.2.map (·.1)))) = pathsReadable files := by
    unfold pathsReadable
    simp [List.all_map, Function.comp_def]
  rw [hr]
  change (Option.map _ (if pathsReadable files = true then _ else _)) = _
  cases pathsReadable files with
  | false => rfl
  | true =>
    simp only [if_true]
    rw [kmergeFiles_eq le c hc,
      ← kmerge_map (fun r : β × TCell σ ν => r.1) (tcLe le) le (fun _ _ => rfl)]
    congr 1
    rw [List.map_map, List.map_map]
    exact List.map_congr_left (fun f _ => tcReadFile_fst infer hi _ c hc f)

/-! ## the hypotheses are satisfiable, the model computes -/

example : InferLen exInfer := by
  intro l vs h
  unfold exInfer at h
  split at h
  · cases h; simp
  · cases h

example : tcActive (some ["id", "p"]) "id" = true ∧ tcActive none "id" = false ∧
    tcActive (some []) "id" = false ∧ tcActive (some ["p"]) "id" = false := by decide

-- `007`-like cells in files of 2 and 1 rows, chunk size 1: kept with `text_columns`, re-read without
#guard kmergePathsText (fun a b : Nat => decide (a ≤ b)) exInfer (some ["id"]) "id" 1
    [(".tsv", [(3, (true, 7)), (1, (false, 0))]), (".parquet", [(2, (true, 5))])]
  == some [(3, .kept (true, 7)), (2, .kept (true, 5)), (1, .kept (false, 0))]
#guard kmergePathsText (fun a b : Nat => decide (a ≤ b)) exInfer none "id" 1
    [(".tsv", [(3, (true, 7)), (1, (false, 0))]), (".parquet", [(2, (true, 5))])]
  == some [(3, .parsed 7), (2, .kept (true, 5)), (1, .kept (false, 0))]
#guard kmergePathsText (fun a b : Nat => decide (a ≤ b)) exInfer none "id" 2
    [(".tsv", [(3, (true, 7)), (1, (false, 0))]), (".parquet", [(2, (true, 5))])]
  == some [(3, .kept (true, 7)), (2, .kept (true, 5)), (1, .kept (false, 0))]

end Mk.Merge
