import MokapotVerif.Lemmas.PinExt
/-!
# C10 (extension) — keyword arguments, several files, row index, numeric labels

Property theorems only (gap analysis: `GAPS-C10.md`).  Notation as in
`Props/C10.lean`; in addition

* `args` are the keyword arguments `filename_column=` … `charge_column=` of
  `read_pin` / `read_percolator`; `WellFormedArgs args t` spells out an
  admissible call, `specDatasetArgs args t` the dataset it must return;
* `readPinSched args c r orders files` is `read_pin` on one path or a list /
  tuple of paths (`orders i` = completion order of the scan tasks of file `i`);
* `spectraIndexSched` is the row index of `spectra_dataframe`;
* `convertTargetsNum` is `convert_targets_column` (as repaired in `3dafb34`) on a
  column that may hold floating-point numbers.
-/
namespace Mk.Pin

/-! ## Keyword arguments -/

/-- **C10, calls with keyword arguments.** An admissible call — optional roles
named by the caller in exact letter case or looked up by their default names —
parses, for every column-scan chunk size, row-scan chunk size and completion
order of the scan tasks, into exactly the specified dataset. -/
theorem C10_args_parse_faithful {args : PinArgs} {t : Table} (h : WellFormedArgs args t)
    {c r : Nat} (hc : 1 ≤ c) (hr : 1 ≤ r)
    (order : List (List Name) → List (List Name)) (hord : ∀ l, (order l).Perm l) :
    readPercolatorSched args c r t order = .ok (specDatasetArgs args t) :=
  readPercolatorSched_wfArgs h hc hr order hord

/-- **the default call is the special case**: a well-formed table is an
admissible call without arguments, and the two specifications coincide on it. -/
theorem C10_args_generalises_default {t : Table} (h : WellFormed t) :
    WellFormedArgs {} t ∧ specDatasetArgs {} t = specDataset t := by
  refine ⟨wellFormed_wfArgs h, ?_⟩
  have h1 := C10_args_parse_faithful (wellFormed_wfArgs h) (c := 1) (r := 1) (Nat.le_refl 1) (Nat.le_refl 1) id
    (fun _ => List.Perm.refl _)
  have h2 := readPercolatorSched_wf h (c := 1) (r := 1) Nat.one_pos Nat.one_pos id (fun _ => List.Perm.refl _)
  rw [h1] at h2
  exact Except.ok.inj h2

/-- **a role named by the caller**: the dataset reports exactly the given column
(`col or default`: an empty string stands for the default name) — in the letter
case given; a role not named is the first column with the default name in any
letter case; the spectrum key is [file, scan, time, mass] of the chosen columns. -/
theorem C10_args_role_columns {args : PinArgs} {t : Table} (h : WellFormedArgs args t)
    {c r : Nat} (hc : 1 ≤ c) (hr : 1 ≤ r)
    (order : List (List Name) → List (List Name)) (hord : ∀ l, (order l).Perm l) :
    ∃ d, readPercolatorSched args c r t order = .ok d ∧
      (∀ x, args.filename = some x → d.filename = some (if x.isEmpty then nFilename else x)) ∧
      (∀ x, args.calcmass = some x → d.calcmass = some (if x.isEmpty then nCalcmass else x)) ∧
      (∀ x, args.expmass = some x → d.expmass = some (if x.isEmpty then nExpmass else x)) ∧
      (∀ x, args.rt = some x → d.rt = some (if x.isEmpty then nRetTime else x)) ∧
      (∀ x, args.charge = some x → d.charge = some (if x.isEmpty then nChargeColumn else x)) ∧
      (args.filename = none → d.filename = pick t.header nFilename) ∧
      (args.calcmass = none → d.calcmass = pick t.header nCalcmass) ∧
      (args.expmass = none → d.expmass = pick t.header nExpmass) ∧
      (args.rt = none → d.rt = pick t.header nRetTime) ∧
      (args.charge = none → d.charge = pick t.header nChargeColumn) ∧
      d.spectrum = d.filename.toList ++ [d.scan] ++ d.rt.toList ++ d.expmass.toList ∧
      (∀ x ∈ d.spectrum ++ [d.target], x ∈ t.header) := by
  refine ⟨_, C10_args_parse_faithful h hc hr order hord, ?_, ?_, ?_, ?_, ?_, ?_, ?_, ?_, ?_, ?_, rfl, ?_⟩
  · intro x hx; show specOptional args.filename _ _ = _; rw [hx]; rfl
  · intro x hx; show specOptional args.calcmass _ _ = _; rw [hx]; rfl
  · intro x hx; show specOptional args.expmass _ _ = _; rw [hx]; rfl
  · intro x hx; show specOptional args.rt _ _ = _; rw [hx]; rfl
  · intro x hx; show specOptional args.charge _ _ = _; rw [hx]; rfl
  · intro hx; show specOptional args.filename _ _ = _; rw [hx]; rfl
  · intro hx; show specOptional args.calcmass _ _ = _; rw [hx]; rfl
  · intro hx; show specOptional args.expmass _ _ = _; rw [hx]; rfl
  · intro hx; show specOptional args.rt _ _ = _; rw [hx]; rfl
  · intro hx; show specOptional args.charge _ _ = _; rw [hx]; rfl
  · intro x hx
    have hw := lookupColumns_within (lookupColumns_args (wfArgs_argsOk h))
    have hx' : x ∈ (specClassified args t.header).spectra ++ [(specClassified args t.header).labels] := hx
    rcases List.mem_append.mp hx' with hx' | hx'
    · exact within_spectra hw x hx'
    · have : x = (specClassified args t.header).labels := by simpa using hx'
      subst this; exact hw.labels

/-- **features under keyword arguments**: exactly the columns that are not
reserved in this call and contain no missing value, in file order. In
particular a column with a default optional name that the caller replaced by
another column is a feature, and the column the caller named is not. -/
theorem C10_args_features_spec {args : PinArgs} {t : Table} (h : WellFormedArgs args t)
    {c r : Nat} (hc : 1 ≤ c) (hr : 1 ≤ r)
    (order : List (List Name) → List (List Name)) (hord : ∀ l, (order l).Perm l) :
    ∃ d, readPercolatorSched args c r t order = .ok d ∧ d.features.Sublist t.header ∧
      (∀ f, f ∈ d.features ↔
        f ∈ t.header ∧ reservedArgs args t.header f = false ∧ ∀ cell ∈ t.column f, cell ≠ Cell.na) ∧
      (∀ f ∈ t.header, f ∈ d.metadata ↔ reservedArgs args t.header f = true) := by
  refine ⟨_, C10_args_parse_faithful h hc hr order hord, List.filter_sublist, ?_, ?_⟩
  · intro f
    show f ∈ t.header.filter _ ↔ _
    unfold hasMissing
    rw [List.mem_filter]
    simp only [Bool.and_eq_true, Bool.not_eq_true', List.any_eq_false]
    constructor
    · rintro ⟨h1, h2, h3⟩
      refine ⟨h1, h2, ?_⟩
      intro cell hcell hna; subst hna
      exact h3 _ hcell rfl
    · rintro ⟨h1, h2, h3⟩
      refine ⟨h1, h2, ?_⟩
      intro cell hcell hna
      cases cell with
      | na => exact h3 _ hcell rfl
      | int i => cases hna
      | bool b => cases hna
      | str s => cases hna
  · intro f hf
    show f ∈ specMetadataArgs args t.header ↔ _
    rw [← spec_nonfeat, ← spec_nonfeat_contains (wfArgs_argsOk h) hf, List.contains_iff_mem]

/-- **rows and targets under keyword arguments**: one spectra row per input row
in file order, every spectrum-key column returned in full, targets = the rows
labelled 1 / true. -/
theorem C10_args_rows_and_targets {args : PinArgs} {t : Table} (h : WellFormedArgs args t)
    {c r : Nat} (hc : 1 ≤ c) (hr : 1 ≤ r)
    (order : List (List Name) → List (List Name)) (hord : ∀ l, (order l).Perm l) :
    ∃ d, readPercolatorSched args c r t order = .ok d ∧
      d.spectra = d.spectrum.map (fun x => (x, t.column x)) ∧
      (∀ p ∈ d.spectra, p.2.length = t.nrows) ∧
      d.targets = (t.column d.target).map Cell.isTarget ∧ d.targets.length = t.nrows := by
  have hw := lookupColumns_within (lookupColumns_args (wfArgs_argsOk h))
  refine ⟨_, C10_args_parse_faithful h hc hr order hord, rfl, ?_, rfl, ?_⟩
  · intro p hp
    obtain ⟨x, hx, rfl⟩ := List.mem_map.mp hp
    exact column_length t h.rows (within_spectra hw x hx)
  · show ((t.column (pickD t.header nLabel)).map Cell.isTarget).length = _
    rw [List.length_map]
    exact column_length t h.rows hw.labels

/-- **an argument naming an unknown column is rejected**: if the caller names,
for any optional role, a column the file does not have in exactly that letter
case, parsing fails with "column not found / not unique" — whatever the other
arguments, the chunk sizes and the task order.  (A name in the wrong letter
case is *not* accepted.) -/
theorem C10_args_unknown_column_rejected {args : PinArgs} {t : Table}
    (h : (∃ x, args.filename = some x ∧ orDefault (some x) nFilename ∉ t.header) ∨
         (∃ x, args.calcmass = some x ∧ orDefault (some x) nCalcmass ∉ t.header) ∨
         (∃ x, args.expmass = some x ∧ orDefault (some x) nExpmass ∉ t.header) ∨
         (∃ x, args.rt = some x ∧ orDefault (some x) nRetTime ∉ t.header) ∨
         (∃ x, args.charge = some x ∧ orDefault (some x) nChargeColumn ∉ t.header))
    (c r : Nat) (order : List (List Name) → List (List Name)) :
    ∃ e, readPercolatorSched args c r t order = .error e ∧ (e = .missing ∨ e = .ambiguous) := by
  obtain ⟨e, he⟩ := lookupColumns_unknown_arg h
  exact ⟨e, readPercolatorSched_lookup_error he, lookupColumns_error_kind he⟩

/-- **accepted iff admissible**: among tables with distinct column names and
columns of one positive length, a call whose identifier columns are pairwise
distinct succeeds exactly when it is admissible. -/
theorem C10_args_accepts_iff {args : PinArgs} {t : Table} (hnd : t.header.Nodup)
    (hrows : ∀ p ∈ t.cols, p.2.length = t.nrows) (hn : 0 < t.nrows)
    (hdist : (specSpectrumArgs args t.header ++ [pickD t.header nLabel]).Nodup)
    {c r : Nat} (hc : 1 ≤ c) (hr : 1 ≤ r)
    (order : List (List Name) → List (List Name)) (hord : ∀ l, (order l).Perm l) :
    (∃ d, readPercolatorSched args c r t order = .ok d) ↔ WellFormedArgs args t := by
  constructor
  · rintro ⟨d, hd⟩
    obtain ⟨k, hk⟩ := readPercolatorSched_ok_lookup hd
    have hok := lookupColumns_ok_argsOk hnd hk
    rw [readPercolatorSched_args_core hok hrows hn hc hr order hord] at hd
    obtain ⟨bs, hbs, _⟩ := bind_ok hd
    exact ⟨hnd, hrows, hn, hok.required, hok.filename, hok.calcmass, hok.expmass, hok.rt, hok.charge, hdist,
      (convertTargets_ok_iff _).mp ⟨bs, hbs⟩⟩
  · intro h
    exact ⟨_, C10_args_parse_faithful h hc hr order hord⟩

/-- **independence of chunk sizes, workers and timing, with arguments** -/
theorem C10_args_chunking_and_schedule_irrelevant {args : PinArgs} {t : Table} (h : WellFormedArgs args t)
    {c r c' r' : Nat} (hc : 1 ≤ c) (hr : 1 ≤ r) (hc' : 1 ≤ c') (hr' : 1 ≤ r')
    (order order' : List (List Name) → List (List Name))
    (hord : ∀ l, (order l).Perm l) (hord' : ∀ l, (order' l).Perm l) :
    readPercolatorSched args c r t order = readPercolatorSched args c' r' t order' := by
  rw [C10_args_parse_faithful h hc hr order hord, C10_args_parse_faithful h hc' hr' order' hord']

/-! ## Several files (`read_pin` on a path, a list or a tuple of paths) -/

/-- **one dataset per file, in the order given**: if every file is an
admissible call, `read_pin` returns the list of their specified datasets —
for a single path a one-element list. -/
theorem C10_read_pin_files {args : PinArgs} {c r : Nat} (hc : 1 ≤ c) (hr : 1 ≤ r)
    (orders : Nat → List (List Name) → List (List Name)) (hord : ∀ i l, (orders i l).Perm l)
    (files : PinFiles) (h : ∀ t ∈ tuplizeFiles files, WellFormedArgs args t) :
    readPinSched args c r orders files = .ok ((tuplizeFiles files).map (specDatasetArgs args)) :=
  readPinFrom_wf hc hr orders hord _ 0 h

/-- default arguments: well-formed tables give the datasets of the main theorem -/
theorem C10_read_pin_files_default {c r : Nat} (hc : 1 ≤ c) (hr : 1 ≤ r)
    (orders : Nat → List (List Name) → List (List Name)) (hord : ∀ i l, (orders i l).Perm l)
    (files : PinFiles) (h : ∀ t ∈ tuplizeFiles files, WellFormed t) :
    readPinSched {} c r orders files = .ok ((tuplizeFiles files).map specDataset) := by
  rw [C10_read_pin_files hc hr orders hord files (fun t ht => wellFormed_wfArgs (h t ht))]
  congr 1
  apply List.map_congr_left
  intro t ht
  exact (C10_args_generalises_default (h t ht)).2

/-- **a successful call, any tables and arguments**: as many datasets as files,
the `j`-th dataset is the parse of the `j`-th file. -/
theorem C10_read_pin_one_per_file {args : PinArgs} {c r : Nat}
    (orders : Nat → List (List Name) → List (List Name)) (files : PinFiles) {ds : List Dataset}
    (h : readPinSched args c r orders files = .ok ds) :
    ds.length = (tuplizeFiles files).length ∧
      ∀ j (hj : j < (tuplizeFiles files).length), ∃ d, ds[j]? = some d ∧
        readPercolatorSched args c r (tuplizeFiles files)[j] (orders j) = .ok d := by
  obtain ⟨h1, h2⟩ := readPinFrom_ok orders _ 0 ds h
  refine ⟨h1, fun j hj => ?_⟩
  obtain ⟨d, hd1, hd2⟩ := h2 j hj
  exact ⟨d, hd1, by simpa using hd2⟩

/-- **a malformed file among several**: the call fails with the error of the
first file that does not parse (the files before it parse). -/
theorem C10_read_pin_first_error {args : PinArgs} {c r : Nat}
    (orders : Nat → List (List Name) → List (List Name)) (pre : List Table) (t : Table) (post : List Table)
    {e : PinErr}
    (hpre : ∀ j (h : j < pre.length), ∃ d, readPercolatorSched args c r pre[j] (orders j) = .ok d)
    (ht : readPercolatorSched args c r t (orders pre.length) = .error e) :
    readPinSched args c r orders (.many (pre ++ t :: post)) = .error e :=
  readPinFrom_first_error orders pre 0 t post e (by simpa using hpre) (by simpa using ht)

/-- **a single path** is treated as the one-element list -/
theorem C10_read_pin_single_path (args : PinArgs) (c r : Nat)
    (orders : Nat → List (List Name) → List (List Name)) (t : Table) :
    readPinSched args c r orders (.one t) = readPinSched args c r orders (.many [t]) ∧
    readPinSched args c r orders (.one t)
      = (readPercolatorSched args c r t (orders 0)).bind (fun d => .ok [d]) := by
  refine ⟨rfl, ?_⟩
  show readPinFrom args c r orders 0 [t] = _
  rw [readPinFrom_cons]
  cases readPercolatorSched args c r t (orders 0) <;> rfl

/-! ## The row index of the spectra data frame -/

/-- **row identity**: whenever parsing succeeds — any table, any arguments,
every chunk size and task order — the row index of the spectra data frame is
`0, 1, …, n-1`: entry `i` is input row `i` (this index is what the later
stages use to address the rows of the file). -/
theorem C10_row_index_of_ok {args : PinArgs} {c r : Nat} {t : Table}
    {order : List (List Name) → List (List Name)} (hord : ∀ l, (order l).Perm l) {d : Dataset}
    (h : readPercolatorSched args c r t order = .ok d) :
    spectraIndexSched args c r t order = .ok (List.range t.nrows) := by
  unfold readPercolatorSched at h
  obtain ⟨k, hk, h⟩ := bind_ok h
  split at h
  · cases h
  rename_i hne
  split at h
  · cases h
  rename_i hcr
  have hne' : k.spectra.any (fun s => s.isEmpty) = false := by
    cases hb : k.spectra.any (fun s => s.isEmpty) with
    | false => rfl
    | true => exact absurd hb hne
  exact spectraIndexSched_of_lookup hk hne' (by omega) (by omega) order hord

/-- the same for an admissible call -/
theorem C10_row_index {args : PinArgs} {t : Table} (h : WellFormedArgs args t)
    {c r : Nat} (hc : 1 ≤ c) (hr : 1 ≤ r)
    (order : List (List Name) → List (List Name)) (hord : ∀ l, (order l).Perm l) :
    spectraIndexSched args c r t order = .ok (List.range t.nrows) :=
  C10_row_index_of_ok hord (C10_args_parse_faithful h hc hr order hord)

/-! ## Numeric label columns -/

/-- **conservative extension**: on label columns without fractional numbers the
extended model of `convert_targets_column` is the one used by the main theorem. -/
theorem C10_numeric_labels_conservative (cells : List Cell) :
    convertTargetsNum (cells.map LCell.ofCell) = convertTargets cells :=
  convertTargetsNum_ofCell cells

/-- **numeric label columns, accepted iff admissible** (the code after the repair
`3dafb34`): a label column of integers and / or floats is accepted iff it is all
booleans or every value is exactly 1, 0 or -1 — 1.0, -1.0 and 0.0 are accepted,
a fractional value (1.5, -0.5, …) or a whole number outside the range is
rejected.  (`denPos`: the floats are given as `num / den` with `den > 0`.) -/
theorem C10_numeric_labels_accept_iff {cells : List LCell} (hd : ∀ c ∈ cells, c.denPos = true) :
    (∃ bs, convertTargetsNum cells = .ok bs) ↔ labelOkNum cells = true :=
  convertTargetsNum_ok_iff hd

/-- **targets of a numeric label column**: on an admissible column the targets
are exactly the cells `true`, `1` or `1.0`. -/
theorem C10_numeric_labels_targets {cells : List LCell} (hd : ∀ c ∈ cells, c.denPos = true)
    (h : labelOkNum cells = true) : convertTargetsNum cells = .ok (cells.map LCell.isTarget) :=
  convertTargetsNum_ok hd h

/-- **a fractional label is rejected with the range error**: a numeric column
holding a float that is not a whole number gives "values not in {-1, 0, 1}". -/
theorem C10_fractional_label_rejected {cells : List LCell} (hb : cells.all LCell.isBool = false)
    (hn : cells.all LCell.isNum = true) (hf : ∃ c ∈ cells, c.isWhole = false) :
    convertTargetsNum cells = .error .labelRange := by
  unfold convertTargetsNum
  simp only [hb, hn, Bool.false_eq_true, if_false, Bool.not_true]
  obtain ⟨c, hc, hw⟩ := hf
  have : cells.any (fun c => !c.isWhole) = true := List.any_eq_true.mpr ⟨c, hc, by simp [hw]⟩
  simp [this]

/-! ## Non-vacuity -/

/-- the table of `Props/C10.lean` with two more features -/
def exTable2 : Table :=
  ⟨[("SpecId".toList, [.str "a".toList, .str "b".toList, .str "c".toList]),
    ("LABEL".toList, [.int 1, .int (-1), .int 1]),
    ("f1".toList, [.int 5, .int 6, .int 7]),
    ("scannr".toList, [.int 11, .int 12, .int 13]),
    ("ExpMass".toList, [.int 500, .na, .int 502]),
    ("f2".toList, [.int 1, .na, .int 3]),
    ("FileName".toList, [.str "r1".toList, .str "r1".toList, .str "r2".toList]),
    ("run".toList, [.str "x".toList, .str "y".toList, .str "x".toList]),
    ("Peptide".toList, [.str "P".toList, .str "Q".toList, .str "R".toList]),
    ("Proteins".toList, [.str "X".toList, .str "Y".toList, .str "Z".toList])]⟩

/-- the caller names `run` as the file column and `f1` as the measured mass -/
def exArgs : PinArgs := { filename := some "run".toList, expmass := some "f1".toList }

example : WellFormedArgs exArgs exTable2 := (wellFormedArgsB_iff _ _).mp (by decide +kernel)
example : WellFormedArgs {} exTable2 := (wellFormedArgsB_iff _ _).mp (by decide +kernel)

#guard wellFormedArgsB exArgs exTable2
-- `FileName` and `ExpMass` are no longer reserved: `FileName` becomes a feature, `ExpMass` has a missing value
#guard (readPercolator exArgs 2 2 exTable2).toOption.map (·.features) == some ["FileName".toList]
#guard (readPercolator exArgs 2 2 exTable2).toOption.map (·.spectrum)
  == some ["run".toList, "scannr".toList, "f1".toList]
#guard (List.range 12).all (fun c => (List.range 5).all (fun r =>
  okEq (readPercolator exArgs (c + 1) (r + 1) exTable2) (specDatasetArgs exArgs exTable2)))
-- wrong letter case / unknown column / empty string (= the default name in exact case)
#guard errEq (readPercolator { filename := some "RUN".toList } 19 10 exTable2) .missing
#guard errEq (readPercolator { rt := some "".toList } 19 10 exTable2) .missing
#guard errEq (readPercolator { filename := some "".toList } 19 10 exTable2) .missing
-- several files
#guard (readPin exArgs 3 2 (.many [exTable2, exTable2])).toOption.map (·.length) == some 2
#guard (readPin {} 3 2 (.one exTable2)).toOption.map (·.length) == some 1
#guard (readPin {} 3 2 (.many [exTable2, ⟨exTable2.cols.drop 1⟩, exTable2])).toOption.isNone
-- row index
#guard (List.range 6).all (fun r => (spectraIndex exArgs 4 (r + 1) exTable2).toOption == some [0, 1, 2])
-- numeric labels: 1.0 / -1.0 / 0.0 are targets / decoys; 2.5 is rejected
#guard (convertTargetsNum [.frac 1 1, .frac (-1) 1, .frac 0 1]).toOption == some [true, false, false]
#guard (convertTargetsNum [.frac 5 2, .int 1]).toOption.isNone
#guard (convertTargetsNum [.frac 3 2, .frac (-1) 1]).toOption.isNone
#guard (convertTargetsNum [.frac (-1) 2, .frac 1 1]).toOption.isNone
example : labelOkNum [.frac 1 1, .frac (-1) 1, .frac 0 1] = true ∧
    ∀ c ∈ [LCell.frac 1 1, .frac (-1) 1, .frac 0 1], c.denPos = true := by decide
example : ∃ c ∈ [LCell.frac 3 2, .int 1], c.isWhole = false := ⟨.frac 3 2, by decide⟩
example : ∃ cells : List LCell, cells.all LCell.isBool = false ∧ cells.all LCell.isNum = true :=
  ⟨[.frac 1 1, .int (-1)], by decide⟩

end Mk.Pin
