import MokapotVerif.Lemmas.QvaluesSort
/-!
# C01 — TDC q-values equal the defining formula

Property theorems only.  `le a b` reads "`b` is at least as good as `a`";
`desc=True` is `a ≤ b`, `desc=False` is `b ≤ a` — both are instances of
`TotalPre`, so every theorem covers both score directions.  Lists are of
arbitrary length; `tdcOf … sorted` covers *every* admissible `argsort` result
(any arrangement of ties).
-/
namespace Mk
variable {α β : Type}

/-- C01 main theorem, for any best-first arrangement of the index-tagged input
(i.e. whatever `np.argsort` does with ties): each returned q-value is the
defining formula of its own PSM, in input order. -/
theorem C01_tdc_any_argsort_eq_spec (le : α → α → Bool) (hle : TotalPre le) (xs : List (α × Bool))
    (sorted : List ((α × Bool) × Nat)) (hperm : sorted.Perm xs.zipIdx)
    (hs : SortedDesc le (sorted.map (·.1))) :
    tdcOf le xs.length sorted = xs.map (fun x => qSpec le xs x.1) :=
  tdcOf_eq_spec le hle xs sorted hperm hs

/-- C01 main theorem for the executable model (merge sort as the `argsort`). -/
theorem C01_tdc_eq_spec (le : α → α → Bool) (hle : TotalPre le) (xs : List (α × Bool)) :
    tdc le xs = xs.map (fun x => qSpec le xs x.1) :=
  tdc_eq_spec_aux le hle xs

/-- one value per PSM -/
theorem C01_tdc_length (le : α → α → Bool) (hle : TotalPre le) (xs : List (α × Bool)) :
    (tdc le xs).length = xs.length := by
  rw [C01_tdc_eq_spec le hle]; simp

theorem fdrRaw_pos (T D : Nat) : 0 < fdrRaw T D := by
  unfold fdrRaw
  split
  · exact one_pos
  · rename_i h
    apply div_pos
    · exact_mod_cast Nat.succ_pos D
    · exact_mod_cast Nat.pos_of_ne_zero h

theorem minOver_pos (ys : List Rat) (h : ∀ y ∈ ys, 0 < y) : 0 < minOver ys := by
  induction ys with
  | nil => simp [minOver]
  | cons y ys ih =>
    have : minOver (y :: ys) = min y (minOver ys) := rfl
    rw [this, lt_min_iff]
    exact ⟨h y (by simp), ih (fun z hz => h z (by simp [hz]))⟩

theorem qSpec_pos (le : α → α → Bool) (l : List (α × Bool)) (s : α) : 0 < qSpec le l s := by
  unfold qSpec
  apply minOver_pos
  intro y hy
  obtain ⟨z, _, rfl⟩ := List.mem_map.mp hy
  exact fdrRaw_pos _ _

theorem qSpec_le_one (le : α → α → Bool) (l : List (α × Bool)) (s : α) : qSpec le l s ≤ 1 :=
  ((le_minOver_iff _ _).mp le_rfl).1

/-- q-values lie in (0, 1] -/
theorem C01_tdc_range (le : α → α → Bool) (hle : TotalPre le) (xs : List (α × Bool)) :
    ∀ q ∈ tdc le xs, 0 < q ∧ q ≤ 1 := by
  rw [C01_tdc_eq_spec le hle]
  intro q hq
  obtain ⟨x, _, rfl⟩ := List.mem_map.mp hq
  exact ⟨qSpec_pos le xs x.1, qSpec_le_one le xs x.1⟩

/-- the formula never decreases as the score worsens: `s'` at least as good as `s`
gives `q(s') ≤ q(s)` -/
theorem qSpec_monotone (le : α → α → Bool) (hle : TotalPre le) (l : List (α × Bool)) (s s' : α)
    (h : le s s' = true) : qSpec le l s' ≤ qSpec le l s := by
  unfold qSpec
  rw [le_minOver_iff]
  refine ⟨((le_minOver_iff _ _).mp le_rfl).1, ?_⟩
  intro y hy
  obtain ⟨z, hz, rfl⟩ := List.mem_map.mp hy
  rw [List.mem_filter] at hz
  apply ((le_minOver_iff _ _).mp le_rfl).2
  apply List.mem_map.mpr
  exact ⟨z, List.mem_filter.mpr ⟨hz.1, hle.trans _ _ _ hz.2 h⟩, rfl⟩

/-- q-values never decrease as the score worsens (stated on the returned list) -/
theorem C01_tdc_monotone (le : α → α → Bool) (hle : TotalPre le) (xs : List (α × Bool))
    (i j : Nat) (hi : i < xs.length) (hj : j < xs.length) (h : le xs[i].1 xs[j].1 = true) :
    (tdc le xs)[j]'(by rw [C01_tdc_length le hle]; exact hj)
      ≤ (tdc le xs)[i]'(by rw [C01_tdc_length le hle]; exact hi) := by
  simp only [C01_tdc_eq_spec le hle, List.getElem_map]
  exact qSpec_monotone le hle xs _ _ h

/-- tied scores receive identical q-values -/
theorem C01_tdc_ties_equal (le : α → α → Bool) (hle : TotalPre le) (xs : List (α × Bool))
    (i j : Nat) (hi : i < xs.length) (hj : j < xs.length)
    (h1 : le xs[i].1 xs[j].1 = true) (h2 : le xs[j].1 xs[i].1 = true) :
    (tdc le xs)[i]'(by rw [C01_tdc_length le hle]; exact hi)
      = (tdc le xs)[j]'(by rw [C01_tdc_length le hle]; exact hj) :=
  le_antisymm (C01_tdc_monotone le hle xs j i hj hi h2) (C01_tdc_monotone le hle xs i j hi hj h1)

/-- "returned in input order": permuting the input permutes the output the same
way — each PSM's q-value is a function of its own score and the multiset. -/
theorem C01_tdc_perm_equivariant (le : α → α → Bool) (hle : TotalPre le) (xs ys : List (α × Bool))
    (h : ys.Perm xs) : tdc le ys = ys.map (fun y => qSpec le xs y.1) := by
  rw [C01_tdc_eq_spec le hle]
  apply List.map_congr_left
  intro y _
  exact qSpec_perm le h _

/-- invariance under strictly monotone rescaling: any `f` that preserves the
order relation leaves all q-values unchanged. -/
theorem C01_tdc_strictMono_invariant (le : α → α → Bool) (hle : TotalPre le)
    (le' : β → β → Bool) (hle' : TotalPre le') (f : α → β)
    (hf : ∀ a b, le' (f a) (f b) = le a b) (xs : List (α × Bool)) :
    tdc le' (xs.map (fun x => (f x.1, x.2))) = tdc le xs := by
  rw [C01_tdc_eq_spec le hle, C01_tdc_eq_spec le' hle', List.map_map]
  apply List.map_congr_left
  intro x _
  simp only [Function.comp]
  unfold qSpec cntT cntD
  simp only [List.filter_map, List.map_map, List.countP_map, Function.comp_def, hf]

/-- training labels: +1 ⇔ target with q ≤ thr; −1 ⇔ decoy; 0 ⇔ target with q > thr -/
theorem C01_labels_exact (le : α → α → Bool) (hle : TotalPre le) (thr : Rat) (xs : List (α × Bool)) :
    updateLabels le thr xs = xs.map (fun x =>
      if x.2 = false then (-1 : Int) else if qSpec le xs x.1 ≤ thr then 1 else 0) := by
  unfold updateLabels
  rw [C01_tdc_eq_spec le hle]
  apply List.ext_getElem
  · simp
  · intro i h1 h2
    have hi : i < xs.length := by simpa using h2
    simp only [List.getElem_zipWith, List.getElem_map, labelOf]
    cases xs[i].2 <;> simp
    split <;> rename_i h
    · rw [if_neg (not_le.mpr h)]
    · rw [if_pos (not_lt.mp h)]

/-! ## Non-vacuity: the hypotheses are met by both score directions on `Int`/`Rat` -/

def leInt (desc : Bool) (a b : Int) : Bool := if desc then decide (a ≤ b) else decide (b ≤ a)

theorem leInt_totalPre (desc : Bool) : TotalPre (leInt desc) := by
  constructor
  · intro a b; cases desc <;> simp [leInt] <;> omega
  · intro a b c; cases desc <;> simp [leInt] <;> omega

def leRat (desc : Bool) (a b : Rat) : Bool := if desc then decide (a ≤ b) else decide (b ≤ a)

theorem leRat_totalPre (desc : Bool) : TotalPre (leRat desc) := by
  constructor
  · intro a b; cases desc <;> simp [leRat] <;> exact le_total _ _
  · intro a b c; cases desc <;> simp [leRat] <;> intro h1 h2
    · exact le_trans h2 h1
    · exact le_trans h1 h2

/-- concrete instance of every hypothesis used above -/
example : TotalPre (leInt true) ∧ TotalPre (leRat false) := ⟨leInt_totalPre _, leRat_totalPre _⟩

-- evaluation tests (compiler-evaluated, *tests*, not theorems)
-- evaluation tests (compiler-evaluated: *tests*, not theorems)
#guard tdc (leInt true) [(5, true), (4, true), (4, false), (3, true), (3, false), (1, true)]
    == [3/4, 3/4, 3/4, 3/4, 3/4, 3/4]
#guard tdc (leInt true) [(5, true), (4, false), (4, true), (3, true), (3, true), (1, false)]
    == [1/2, 1/2, 1/2, 1/2, 1/2, 3/4]
#guard tdc (leInt false) [(5, true), (4, true), (4, false), (3, true)] == [2/3, 2/3, 2/3, 2/3]

end Mk
