import MokapotVerif.Lemmas.PickedRun
import MokapotVerif.Props.C15
/-!
# C15, second extension — group names, when the code raises, the protein level of a whole call

Property theorems only (gap list: `GAPS-C15.md`, section "Second pass").

* §9  the "decoy counterpart" relation in terms of the *names that were joined* into a group name
      (`C15_pair_key_counterpart` spoke about `firstMember g`, the text up to the first separator);
* §10 exactly when `picked_protein` raises (the 10 % / 5 % rules, the empty result);
* §11 `targets.proteins` / `decoys.proteins` are written piece by piece (`CONFIDENCE_CHUNK_SIZE`):
      for every piece size the files are those of `C15_protein_files`;
* §12 several collections in one `assign_confidence` call: which file receives what, every section of a
      file is the result of its own collection alone, q-values over that collection's entries.
-/
namespace Mk.Picked
variable {α : Type}

/-! ## 9. the pair key and the names joined into a group -/

/-- **first_member_of_group**: `read_fasta` names a group `", ".join(members)`; reading the first
member back with `.str.split(", ")[0]` returns the first member — for a name that does not hold `", "`
(commas alone are harmless). -/
theorem C15_first_member_of_group (m : Str) (ms : List Str) (h : commaFree m) :
    firstMember (joinGroup (m :: ms)) = m :=
  firstMember_joinGroup m ms h

/-- **pair_key_of_group**: with the name map of `read_fasta`, the pair key of a group is decided by
the *name of its first member*: the prefixed name for a target protein, the name itself otherwise. -/
theorem C15_pair_key_of_group (P : Proteins) (names : List Str) (m : Str) (ms : List Str)
    (hmap : P.proteinMap = names.map (fun n => (n, P.decoyPrefix ++ n))) (h : commaFree m) :
    pairKey P (joinGroup (m :: ms)) = if m ∈ names then P.decoyPrefix ++ m else m := by
  unfold pairKey
  rw [firstMember_joinGroup m ms h, hmap, lookup_mirror]
  by_cases hm : m ∈ names <;> simp [hm]

/-- **counterpart_by_first_member**: a target group (first member `t`, a target protein) and a decoy
group (first member `d`, not a target protein) form one pair — compete for one entry — iff `d` is the
prefixed `t`.  Neither name holds the separator `", "`. -/
theorem C15_counterpart_by_first_member (P : Proteins) (names : List Str) (t d : Str) (ts ds : List Str)
    (hmap : P.proteinMap = names.map (fun n => (n, P.decoyPrefix ++ n)))
    (ht : commaFree t) (hd : commaFree d) (htn : t ∈ names) (hdn : d ∉ names) :
    pairKey P (joinGroup (t :: ts)) = pairKey P (joinGroup (d :: ds)) ↔ d = P.decoyPrefix ++ t := by
  rw [C15_pair_key_of_group P names t ts hmap ht, C15_pair_key_of_group P names d ds hmap hd]
  simp only [htn, hdn, if_true, if_false]
  exact eq_comm

/-- two target groups with different first members (not holding `", "`) never share a pair -/
theorem C15_distinct_targets_distinct_pairs (P : Proteins) (names : List Str) (t t' : Str) (ts ts' : List Str)
    (hmap : P.proteinMap = names.map (fun n => (n, P.decoyPrefix ++ n)))
    (ht : commaFree t) (ht' : commaFree t') (htn : t ∈ names) (htn' : t' ∈ names) (hne : t ≠ t') :
    pairKey P (joinGroup (t :: ts)) ≠ pairKey P (joinGroup (t' :: ts')) := by
  rw [C15_pair_key_of_group P names t ts hmap ht, C15_pair_key_of_group P names t' ts' hmap ht']
  simp only [htn, htn', if_true]
  intro h
  exact hne (List.append_cancel_left h)

/-- the hypothesis `commaFree` is needed: names holding the separator itself (`P, 1` and `P, 2` — not
identifiers `read_fasta` can produce, but possible in a hand-made `Proteins` object) are read back as the
same first member `P`, so the two different target groups share one pair key — which is not the key of
either decoy counterpart. -/
theorem C15_comma_free_needed :
    ∃ (P : Proteins) (names : List Str) (t t' : Str),
      P.proteinMap = names.map (fun n => (n, P.decoyPrefix ++ n)) ∧ t ∈ names ∧ t' ∈ names ∧ t ≠ t' ∧
      pairKey P (joinGroup [t]) = pairKey P (joinGroup [t']) ∧
      pairKey P (joinGroup [t]) ≠ pairKey P (joinGroup [P.decoyPrefix ++ t]) :=
  ⟨⟨true, ['d', '_'], [], [],
      [(['P', ',', ' ', '1'], ['d', '_', 'P', ',', ' ', '1']), (['P', ',', ' ', '2'], ['d', '_', 'P', ',', ' ', '2'])]⟩,
    [['P', ',', ' ', '1'], ['P', ',', ' ', '2']], ['P', ',', ' ', '1'], ['P', ',', ' ', '2'],
    by decide, by decide, by decide, by decide, by decide, by decide⟩

/-- identifiers holding a comma (but not the separator) are paired correctly: `P,1` and `P,2` are different
pairs, each together with its own decoy counterpart (the defect repaired by /repo commit bfdfdaf; the old
reading is refuted in `Mutants/PickedRun.lean`). -/
theorem C15_comma_names_paired :
    ∃ (P : Proteins) (names : List Str) (t t' : Str),
      P.proteinMap = names.map (fun n => (n, P.decoyPrefix ++ n)) ∧ t ∈ names ∧ t' ∈ names ∧
      commaFree t ∧ commaFree t' ∧ (∃ c ∈ t, c = ',') ∧
      pairKey P (joinGroup [t]) ≠ pairKey P (joinGroup [t']) ∧
      pairKey P (joinGroup [t]) = pairKey P (joinGroup [P.decoyPrefix ++ t]) :=
  ⟨⟨true, ['d', '_'], [], [],
      [(['P', ',', '1'], ['d', '_', 'P', ',', '1']), (['P', ',', '2'], ['d', '_', 'P', ',', '2'])]⟩,
    [['P', ',', '1'], ['P', ',', '2']], ['P', ',', '1'], ['P', ',', '2'],
    by decide, by decide, by decide, by decide, by decide, ⟨',', by decide, rfl⟩, by decide, by decide⟩

/-! ## 10. exactly when `picked_protein` raises -/

/-- a row counts against the 10 % rule iff it has no protein group, is not exempt (decoy rows of a
target-only FASTA are) and its stripped sequence is not a known shared peptide -/
theorem C15_bad_row_iff (P : Proteins) (x : ARow α) :
    isBad P x = true ↔ x.group = none ∧ (P.hasDecoys = true ∨ x.row.target = true) ∧ x.stripped ∉ P.shared := by
  unfold isBad isUnmatched
  simp [Option.isNone_iff_eq_none, and_assoc]

/-- **outcome_characterised**: for every table, database and pairing, `picked_protein`
* raises "Fewer than 90 % …" iff strictly more than a tenth of *all* rows are bad rows
  (`C15_bad_row_iff`) — exactly a tenth is accepted;
* otherwise raises "Fewer than 5 % …" iff the FASTA has decoys and the bad *target* rows (the code sums
  the target column) are strictly more than a twentieth of the decoy rows (any at all when the table
  has no decoy row);
* otherwise fails on the empty selection iff no row has a protein group;
* otherwise reaches `groupby_max` with exactly the rows that have a group.
(The `KeyError` of a pairing outside the peptide map comes first; `C15_pairing_never_key_error`.) -/
theorem C15_outcome_characterised (P : Proteins) (dm : List (List Char × List Char)) (rows : List (Row α))
    (hk : pairingKeyError P dm = false) :
    let xs := annotate P (decoyMap P dm) rows
    let bad := xs.countP (isBad P)
    let nd := xs.countP (fun x => !x.row.target)
    let u := xs.countP (fun x => isBad P x && x.row.target)
    (candidates P dm rows = .error .unmapped ↔ rows.length < 10 * bad) ∧
    (candidates P dm rows = .error .decoys ↔ ¬ rows.length < 10 * bad ∧ P.hasDecoys = true ∧
        ((nd = 0 ∧ 0 < u) ∨ (nd ≠ 0 ∧ nd < 20 * u))) ∧
    (candidates P dm rows = .error .empty ↔ ¬ rows.length < 10 * bad ∧
        ¬ (P.hasDecoys = true ∧ ((nd = 0 ∧ 0 < u) ∨ (nd ≠ 0 ∧ nd < 20 * u))) ∧ retained xs = []) ∧
    (∀ R, candidates P dm rows = .ok R ↔ ¬ rows.length < 10 * bad ∧
        ¬ (P.hasDecoys = true ∧ ((nd = 0 ∧ 0 < u) ∨ (nd ≠ 0 ∧ nd < 20 * u))) ∧ retained xs ≠ [] ∧
        R = retained xs) := by
  intro xs bad nd u
  have hlen : xs.length = rows.length := annotate_length P _ rows
  have h1 : tooManyUnmapped P xs = true ↔ rows.length < 10 * bad := by
    unfold tooManyUnmapped; rw [hlen]; simp [bad]
  have h2 : tooManyDecoys P xs = true ↔
      (P.hasDecoys = true ∧ ((nd = 0 ∧ 0 < u) ∨ (nd ≠ 0 ∧ nd < 20 * u))) := by
    unfold tooManyDecoys
    by_cases hz : xs.countP (fun x => !x.row.target) = 0
    · have : nd = 0 := hz
      simp [hz, this, u]
    · simp [hz, u, nd]
  have h3 : (retained xs).isEmpty = true ↔ retained xs = [] := List.isEmpty_iff
  have hn1 : tooManyUnmapped P xs = false ↔ ¬ rows.length < 10 * bad := by
    rw [← h1]; simp
  have hn2 : tooManyDecoys P xs = false ↔
      ¬ (P.hasDecoys = true ∧ ((nd = 0 ∧ 0 < u) ∨ (nd ≠ 0 ∧ nd < 20 * u))) := by
    rw [← h2]; simp
  have hn3 : (retained xs).isEmpty = false ↔ retained xs ≠ [] := by
    rw [ne_eq, ← h3]; simp
  have hc : candidates P dm rows
      = if tooManyUnmapped P xs = true then .error .unmapped
        else if tooManyDecoys P xs = true then .error .decoys
        else if (retained xs).isEmpty = true then .error .empty else .ok (retained xs) := by
    unfold candidates
    rw [hk]
    simp only [Bool.false_eq_true, if_false]
    rfl
  obtain ⟨a1, a2, a3, a4⟩ := outcome_aux _ _ _ _ _ hc
  refine ⟨a1.trans h1, ?_, ?_, fun R => ?_⟩
  · rw [a2, hn1, h2]
  · rw [a3, hn1, hn2, h3]
  · rw [a4 R, hn1, hn2, hn3]

/-! ## 11. the result files are written piece by piece -/

/-- **protein_files_chunk_invariant**: whatever `CONFIDENCE_CHUNK_SIZE` (`c ≥ 1`; smaller than,
equal to or larger than the number of entries), `targets.proteins` and `decoys.proteins` hold —
PEP column aside — exactly the rows `C15_protein_files` describes: the q-values are those of the
whole level table, no row is lost, repeated or routed by another row's flag at a piece boundary. -/
theorem C15_protein_files_chunk_invariant (c : Nat) (hc : 0 < c) (le : α → α → Bool) (hle : TotalPre le)
    (pep : List (Entry α) → List Rat) (hp : ∀ a, (pep a).length = a.length) (decoys : Bool)
    (arr : List (Entry α)) :
    ((proteinFilesChunked c (tdc le) pep decoys arr).1.map dropPep,
      (proteinFilesChunked c (tdc le) pep decoys arr).2.map (List.map dropPep))
      = proteinFiles (tdc le) decoys arr := by
  have hl := tdc_lenOk le hle pep hp
  rw [proteinFilesChunked_eq c hc (tdc le) pep decoys arr (by rw [hl.1, entryLabels_length]) (hp _)]
  unfold proteinFiles
  have e1 := protPart_dropPep (tdc le) pep false ⟨none, arr⟩ (hp _)
  have e2 := protPart_dropPep (tdc le) pep true ⟨none, arr⟩ (hp _)
  simp only [bne_false_eq, bne_true_eq] at e1 e2
  cases decoys
  · simp [e1]
  · simp [e1, e2]

/-- two piece sizes give the same files (PEP column included) -/
theorem C15_protein_files_any_two_chunk_sizes (c c' : Nat) (hc : 0 < c) (hc' : 0 < c')
    (qv : List (α × Bool) → List Rat) (pep : List (Entry α) → List Rat) (hl : LenOk qv pep)
    (decoys : Bool) (arr : List (Entry α)) :
    proteinFilesChunked c qv pep decoys arr = proteinFilesChunked c' qv pep decoys arr := by
  rw [proteinFilesChunked_eq c hc qv pep decoys arr (by rw [hl.1, entryLabels_length]) (hl.2 _),
    proteinFilesChunked_eq c' hc' qv pep decoys arr (by rw [hl.1, entryLabels_length]) (hl.2 _)]

/-! ## 12. several collections in one call -/

/-- **run_files**: for any number of collections, any prefixes (repeated or not), any piece size
`c ≥ 1`, any directory before the call and both values of `append_to_output_file`, the protein
result files after `assign_confidence` are the declarative `protRunSpec`: untouched files stay,
prefix-less collections share their file in call order, a prefix of its own starts afresh. -/
theorem C15_run_files (c : Nat) (hc : 0 < c) (qv : List (α × Bool) → List Rat)
    (pep : List (Entry α) → List Rat) (hl : LenOk qv pep) (decoys app : Bool)
    (colls : List (ProtColl α)) (fs0 : ProtFS α) :
    protRun c qv pep decoys app colls fs0 = protRunSpec qv pep decoys app colls fs0 :=
  protRun_eq_spec c hc qv pep hl decoys app colls fs0

/-- the directory after the call does not depend on `CONFIDENCE_CHUNK_SIZE` -/
theorem C15_run_chunk_size_irrelevant (c c' : Nat) (hc : 0 < c) (hc' : 0 < c')
    (qv : List (α × Bool) → List Rat) (pep : List (Entry α) → List Rat) (hl : LenOk qv pep)
    (decoys app : Bool) (colls : List (ProtColl α)) (fs0 : ProtFS α) :
    protRun c qv pep decoys app colls fs0 = protRun c' qv pep decoys app colls fs0 := by
  rw [C15_run_files c hc qv pep hl, C15_run_files c' hc' qv pep hl]

/-- **run_section_is_own_collection**: every line a collection writes is an entry of *its own*
protein level table with the required flag, and its q-value is the C01 formula over exactly the
entries of that collection — not over those of the other collections sharing the file. -/
theorem C15_run_section_is_own_collection (le : α → α → Bool) (hle : TotalPre le)
    (pep : List (Entry α) → List Rat) (d : Bool) (k : ProtColl α) :
    ∀ l ∈ protPart (tdc le) pep d k,
      l.1 ∈ k.arr ∧ l.1.target = !d ∧ l.2.1 = qSpec le (entryLabels k.arr) l.1.score := by
  intro l hl
  unfold protPart at hl
  rw [List.mem_filter] at hl
  obtain ⟨hz, hf⟩ := hl
  have hq : tdc le (entryLabels k.arr) = k.arr.map (fun e => qSpec le (entryLabels k.arr) e.score) := by
    rw [tdc_eq_spec_aux le hle]
    unfold entryLabels
    rw [List.map_map]
    rfl
  rw [hq] at hz
  have key : ∀ (arr : List (Entry α)) (g : Entry α → Rat) (pp : List Rat) (x : ProtLine α),
      x ∈ arr.zip ((arr.map g).zip pp) → x.1 ∈ arr ∧ x.2.1 = g x.1 := by
    intro arr g
    induction arr with
    | nil => intro pp x hx; simp at hx
    | cons a rest ih =>
      intro pp x hx
      cases pp with
      | nil => simp at hx
      | cons y ys =>
        simp only [List.map_cons, List.zip_cons_cons, List.mem_cons] at hx
        rcases hx with rfl | hx
        · exact ⟨List.mem_cons_self .., rfl⟩
        · obtain ⟨h1, h2⟩ := ih ys x hx
          exact ⟨List.mem_cons_of_mem _ h1, h2⟩
  obtain ⟨h1, h2⟩ := key k.arr _ _ l hz
  refine ⟨h1, ?_, h2⟩
  cases d <;> cases ht : l.1.target <;> simp_all

/-- **run_shared_file**: the default call (no prefixes): `targets.proteins` holds the target sections
of the collections one after the other, in call order, each computed from its own table. -/
theorem C15_run_shared_file (c : Nat) (hc : 0 < c) (qv : List (α × Bool) → List Rat)
    (pep : List (Entry α) → List Rat) (hl : LenOk qv pep) (decoys : Bool)
    (colls : List (ProtColl α)) (hne : colls ≠ []) (hpre : ∀ k ∈ colls, k.pre = none) :
    protRun c qv pep decoys false colls (fun _ => none) (none, false)
      = some (colls.flatMap (protPart qv pep false)) ∧
    protRun c qv pep decoys false colls (fun _ => none) (none, true)
      = if decoys then some (colls.flatMap (protPart qv pep true)) else none := by
  rw [C15_run_files c hc qv pep hl]
  have hf : colls.filter (fun k => k.pre == (none : Option Nat)) = colls := by
    rw [List.filter_eq_self]
    intro k hk
    simp [hpre k hk]
  have he : colls.isEmpty = false := by
    cases colls with
    | nil => exact absurd rfl hne
    | cons _ _ => rfl
  constructor
  · unfold protRunSpec
    dsimp only
    rw [hf, he]
    simp
  · unfold protRunSpec
    dsimp only
    rw [hf, he]
    cases decoys <;> simp

/-- **run_own_prefix**: with pairwise different prefixes (at most one collection without), the files
of a collection hold its own sections and nothing else — no line of another collection, nothing
left from the directory before. -/
theorem C15_run_own_prefix (c : Nat) (hc : 0 < c) (qv : List (α × Bool) → List Rat)
    (pep : List (Entry α) → List Rat) (hl : LenOk qv pep) (decoys : Bool)
    (colls : List (ProtColl α)) (fs0 : ProtFS α) (hnd : (colls.map (fun k => k.pre)).Nodup)
    (k : ProtColl α) (hk : k ∈ colls) :
    protRun c qv pep decoys false colls fs0 (k.pre, false) = some (protPart qv pep false k) ∧
    (decoys = true → protRun c qv pep decoys false colls fs0 (k.pre, true) = some (protPart qv pep true k)) := by
  rw [C15_run_files c hc qv pep hl]
  have hf : ∀ (l : List (ProtColl α)), (l.map (fun k => k.pre)).Nodup → k ∈ l →
      l.filter (fun k' => k'.pre == k.pre) = [k] := by
    intro l
    induction l with
    | nil => intro _ h; simp at h
    | cons a rest ih =>
      intro hn hm
      rw [List.map_cons, List.nodup_cons] at hn
      rcases List.mem_cons.mp hm with rfl | hm'
      · have : rest.filter (fun k' => k'.pre == k.pre) = [] := by
          rw [List.filter_eq_nil_iff]
          intro x hx hpx
          have : x.pre = k.pre := by simpa using hpx
          exact hn.1 (this ▸ List.mem_map_of_mem hx)
        simp [this]
      · have hne : (a.pre == k.pre) = false := by
          simp only [beq_eq_false_iff_ne, ne_eq]
          intro h
          exact hn.1 (h ▸ List.mem_map_of_mem hm')
        simp only [List.filter_cons, hne]
        exact ih hn.2 hm'
  have := hf colls hnd hk
  constructor
  · unfold protRunSpec
    dsimp only
    rw [this]
    cases hp : k.pre <;> simp [lastColl]
  · intro hd
    subst hd
    unfold protRunSpec
    dsimp only
    rw [this]
    cases hp : k.pre <;> simp [lastColl]

/-! ## Non-vacuity and evaluation tests -/

/-- the PEP kernel as the harness stubs it -/
def pepZero (a : List (Entry Rat)) : List Rat := a.map (fun _ => 0)

example : LenOk (tdc leQ) pepZero := tdc_lenOk leQ leQ_totalPre pepZero (by intro a; simp [pepZero])

/-- two level tables: targets 9, 8, decoy 4, target 3 / decoy 9, target 1 -/
def exArr1 : List (Entry Rat) :=
  [⟨"P1".toList, "AAK".toList, "AAK".toList, 9, true⟩, ⟨"P4".toList, "EEK".toList, "EEK".toList, 8, true⟩,
   ⟨"decoy_P2".toList, "KBB".toList, "KBB".toList, 4, false⟩, ⟨"P3".toList, "CDK".toList, "CDK".toList, 3, true⟩]
def exArr2 : List (Entry Rat) :=
  [⟨"decoy_P1".toList, "KAA".toList, "KAA".toList, 9, false⟩, ⟨"P2".toList, "BBK".toList, "BBK".toList, 1, true⟩]

def exShow (f : Option (List (ProtLine Rat))) : Option (List (String × Rat)) :=
  f.map (fun ls => ls.map (fun l => (String.ofList l.1.group, l.2.1)))

-- piece size 1, 2, 5: the same two files; q-values over all four entries (the last target: (1+1)/3)
#guard (proteinFilesChunked 1 (tdc leQ) pepZero true exArr1).1.map (fun l => (String.ofList l.1.group, l.2.1))
    == [("P1", 1/2), ("P4", 1/2), ("P3", 2/3)]
#guard proteinFilesChunked 1 (tdc leQ) pepZero true exArr1 == proteinFilesChunked 2 (tdc leQ) pepZero true exArr1
#guard proteinFilesChunked 5 (tdc leQ) pepZero true exArr1 == proteinFilesChunked 2 (tdc leQ) pepZero true exArr1
#guard (proteinFilesChunked 2 (tdc leQ) pepZero false exArr1).2.isNone
-- two prefix-less collections share the files, sections in call order, q-values per collection
#guard exShow (protRun 2 (tdc leQ) pepZero true false [⟨none, exArr1⟩, ⟨none, exArr2⟩] (fun _ => none) (none, false))
    == some [("P1", 1/2), ("P4", 1/2), ("P3", 2/3), ("P2", 1)]
#guard exShow (protRun 2 (tdc leQ) pepZero true false [⟨none, exArr1⟩, ⟨none, exArr2⟩] (fun _ => none) (none, true))
    == some [("decoy_P2", 2/3), ("decoy_P1", 1)]
-- prefixes of their own; the same prefix twice: the last one stays; decoys=False: no decoys file
#guard exShow (protRun 1 (tdc leQ) pepZero true false [⟨some 1, exArr1⟩, ⟨some 2, exArr2⟩] (fun _ => none) (some 2, false))
    == some [("P2", 1)]
#guard exShow (protRun 1 (tdc leQ) pepZero true false [⟨some 1, exArr1⟩, ⟨some 1, exArr2⟩] (fun _ => none) (some 1, false))
    == some [("P2", 1)]
#guard exShow (protRun 1 (tdc leQ) pepZero false false [⟨some 1, exArr1⟩] (fun _ => none) (some 1, true)) == none
#guard exShow (protRun 1 (tdc leQ) pepZero false false [⟨some 1, exArr1⟩] (fun _ => none) (none, false)) == none
-- append_to_output_file: a second call appends to what the first one left
#guard exShow (protRun 3 (tdc leQ) pepZero true true [⟨some 1, exArr2⟩]
      (protRun 3 (tdc leQ) pepZero true false [⟨some 1, exArr1⟩] (fun _ => none)) (some 1, false))
    == some [("P1", 1/2), ("P4", 1/2), ("P3", 2/3), ("P2", 1)]
-- hypotheses of `C15_run_own_prefix` / `C15_run_shared_file`
example : (([⟨some 1, exArr1⟩, ⟨none, exArr2⟩] : List (ProtColl Rat)).map (fun k => k.pre)).Nodup := by decide
example : ∀ k ∈ ([⟨none, exArr1⟩, ⟨none, exArr2⟩] : List (ProtColl Rat)), k.pre = none := by
  intro k hk; simp at hk; rcases hk with rfl | rfl <;> rfl

-- §9: group names
#guard String.ofList (joinGroup ["P2".toList, "P3".toList, "P5".toList]) == "P2, P3, P5"
#guard String.ofList (firstMember (joinGroup ["sp|Q1|A_HUMAN".toList, "P3".toList])) == "sp|Q1|A_HUMAN"
#guard String.ofList (firstMember (joinGroup ["P,1".toList, "P,2".toList])) == "P,1"
#guard String.ofList (firstMember (joinGroup ["P, 1".toList])) == "P"
example : commaFree "sp|Q1|A_HUMAN".toList ∧ commaFree "P,1".toList ∧ ¬ commaFree "P, 1".toList := by decide

-- §10: the rules on `exP` (database with decoys), one unmappable target row next to `n` mapped decoy rows:
-- 1 of 9 rows is more than a tenth (90 % rule); 1 of 10 is exactly a tenth — accepted by that rule, but 1 bad
-- target row against 9 (or 19) decoy rows is more than a twentieth (5 % rule); against 20 it is exactly a
-- twentieth: accepted
def exTen (n : Nat) : List (Row Rat) :=
  ⟨true, "WWK".toList, 0⟩ :: (List.replicate n ⟨false, "KAA".toList, 1⟩)
#guard (candidates exP [] (exTen 8)) matches .error .unmapped
#guard (candidates exP [] (exTen 9)) matches .error .decoys
#guard (candidates exP [] (exTen 19)) matches .error .decoys
#guard (candidates exP [] (exTen 20)).toOption.map List.length == some 20
example : pairingKeyError exP [] = false := by decide

end Mk.Picked
