import MokapotVerif.Model.Fallback
import MokapotVerif.Props.C01
/-!
# C07 — Best-feature safety net: never silently worse than the best single feature
-/
namespace Mk.Fallback
open Mk

/-! ### helper facts about `argmaxFirst` -/

theorem argmaxFirst_ge (xs : List Nat) : ∀ x ∈ xs, x ≤ (argmaxFirst xs).2 := by
  induction xs with
  | nil => intro x hx; simp at hx
  | cons y ys ih =>
    intro x hx
    simp only [argmaxFirst]
    rcases List.mem_cons.mp hx with rfl | hx
    · split
      · exact le_refl _
      · simp only; omega
    · have := ih x hx
      split
      · simp only; omega
      · exact this

theorem argmaxFirst_mem (xs : List Nat) (h : xs ≠ []) :
    xs[(argmaxFirst xs).1]? = some (argmaxFirst xs).2 := by
  induction xs with
  | nil => exact absurd rfl h
  | cons y ys ih =>
    simp only [argmaxFirst]
    split
    · simp
    · rename_i hlt
      have hne : ys ≠ [] := by
        rintro rfl
        simp [argmaxFirst] at hlt
      simpa using ih hne

/-! ### the decision -/

/-- Unless every model forces its use, `brew` falls back to a feature exactly when the best
single feature accepted strictly more targets in training than the returned scores do. -/
theorem C07_fallback_iff (ms : List FoldModel) (pred : Nat) (hov : ms.all (·.override) = false) :
    (∃ f d, decide ms pred = .useFeature f d) ↔ (bestOfModels ms).2 > pred := by
  unfold decide
  simp only [hov, Bool.false_eq_true, if_false]
  constructor
  · rintro ⟨f, d, h⟩
    split at h
    · assumption
    · cases h
  · intro h
    simp [h]

/-- `feat_total` is the maximum of the models' `feat_pass` -/
theorem C07_feat_total_is_max (ms : List FoldModel) :
    (∀ m ∈ ms, m.featPass ≤ (bestOfModels ms).2) ∧
    (ms ≠ [] → ∃ m ∈ ms, m.featPass = (bestOfModels ms).2) := by
  unfold bestOfModels
  constructor
  · intro m hm
    exact argmaxFirst_ge _ _ (List.mem_map.mpr ⟨m, hm, rfl⟩)
  · intro hne
    have hne' : ms.map (·.featPass) ≠ [] := by simpa using hne
    have h := argmaxFirst_mem _ hne'
    have hmem := List.mem_of_getElem? h
    obtain ⟨m, hm, hv⟩ := List.mem_map.mp hmem
    exact ⟨m, hm, hv⟩

/-- never silently worse: if the models' scores are returned (and not forced), they accept at
least as many targets as the best single feature of *every* fold did -/
theorem C07_never_silently_worse (ms : List FoldModel) (pred : Nat)
    (hov : ms.all (·.override) = false) (h : decide ms pred = .useModel) :
    ∀ m ∈ ms, m.featPass ≤ pred := by
  intro m hm
  have hle := (C07_feat_total_is_max ms).1 m hm
  by_contra hlt
  have hgt : (bestOfModels ms).2 > pred := by omega
  obtain ⟨f, d, hfd⟩ := (C07_fallback_iff ms pred hov).mpr hgt
  rw [h] at hfd
  cases hfd

/-- on fallback the returned feature and direction are those of a model whose best feature
accepted the most targets -/
theorem C07_fallback_returns_best_feature (ms : List FoldModel) (pred : Nat) (f : Nat) (d : Bool)
    (h : decide ms pred = .useFeature f d) :
    ∃ m ∈ ms, m.bestFeat = f ∧ m.desc = d ∧ m.featPass > pred ∧ ∀ m' ∈ ms, m'.featPass ≤ m.featPass := by
  unfold decide at h
  split at h
  · cases h
  · split at h
    · rename_i hov hgt
      have hne : ms ≠ [] := by
        rintro rfl
        simp [bestOfModels, argmaxFirst] at hgt
      have hne' : ms.map (·.featPass) ≠ [] := by simpa using hne
      have hget := argmaxFirst_mem _ hne'
      have hlt : (bestOfModels ms).1 < ms.length := by
        have := (List.getElem?_eq_some_iff.mp hget).1
        simpa [bestOfModels] using this
      refine ⟨ms[(bestOfModels ms).1], List.getElem_mem hlt, ?_⟩
      have hD : ms.getD (bestOfModels ms).1 ⟨0, 0, true, false, false⟩ = ms[(bestOfModels ms).1] := by
        simp [List.getD, hlt]
      rw [hD] at h
      injection h with h1 h2
      have hval : ms[(bestOfModels ms).1].featPass = (bestOfModels ms).2 := by
        have := (List.getElem?_eq_some_iff.mp hget).2
        simpa [bestOfModels] using this
      refine ⟨h1, h2, by rw [hval]; exact hgt, ?_⟩
      intro m' hm'
      rw [hval]
      exact (C07_feat_total_is_max ms).1 m' hm'
    · cases h

/-! ### counting only genuine targets, whatever the label encoding -/

theorem decode_enc (t : Bool) :
    decodeLabel (encPM1 t) = some t ∧ decodeLabel (enc01 t) = some t ∧ decodeLabel (encBool t) = some t := by
  cases t <;> simp [decodeLabel, encPM1, enc01, encBool]

/-- The comparison counts only genuine targets as accepted whatever encoding (1/−1, 1/0,
true/false) each collection's label column uses. -/
theorem C07_pred_counts_genuine_targets {α : Type} (le : α → α → Bool) (thr : Rat)
    (colls : List (List (α × Bool))) (encs : List (Bool → RawLabel))
    (hlen : encs.length = colls.length)
    (henc : ∀ e ∈ encs, e = encPM1 ∨ e = enc01 ∨ e = encBool) :
    predTotal le thr ((colls.zip encs).map (fun ce => ce.1.map (fun x => (x.1, ce.2 x.2))))
      = some ((colls.map (accepted le thr)).sum) := by
  unfold predTotal
  have hdec : ∀ (c : List (α × Bool)) (e : Bool → RawLabel), (e = encPM1 ∨ e = enc01 ∨ e = encBool) →
      decodeColl (c.map (fun x => (x.1, e x.2))) = some c := by
    intro c e he
    unfold decodeColl
    induction c with
    | nil => simp
    | cons x rest ih =>
      have hx : decodeLabel (e x.2) = some x.2 := by
        rcases he with rfl | rfl | rfl
        · exact (decode_enc x.2).1
        · exact (decode_enc x.2).2.1
        · exact (decode_enc x.2).2.2
      simp only [List.map_cons, List.mapM_cons, hx, Option.map_some]
      simp [ih]
  induction colls generalizing encs with
  | nil => simp
  | cons c rest ih =>
    cases encs with
    | nil => simp at hlen
    | cons e es =>
      simp only [List.zip_cons_cons, List.map_cons, List.mapM_cons]
      rw [hdec c e (henc e (by simp))]
      have := ih es (by simpa using hlen) (fun e' he' => henc e' (List.mem_cons_of_mem _ he'))
      simp only [Option.map_eq_some_iff] at this
      obtain ⟨l, hl, hsum⟩ := this
      simp [hl, hsum]

/-- an out-of-range label is rejected -/
theorem C07_label_out_of_range_rejected (i : Int) :
    decodeLabel (.int i) = none ↔ (i < -1 ∨ i > 1) := by
  simp only [decodeLabel]
  split <;> simp_all

/-- (the defect D2 repaired in /repo) the old decoding counted the decoy label −1 as a target -/
theorem C07_old_decoding_counts_decoys : decodeLabelOld (encPM1 false) = some true := by decide

/-! ### training failed: zero scores -/

/-- when a model is untrained the compared scores are all equal -/
theorem C07_untrained_gives_zero_scores (ms : List FoldModel) (sc : List Int)
    (h : ms.all (·.trained) = false) : ∀ s ∈ comparedScores ms sc, s = 0 := by
  unfold comparedScores
  simp only [h, Bool.false_eq_true, if_false]
  intro s hs
  obtain ⟨_, _, rfl⟩ := List.mem_map.mp hs
  rfl

/-! ### `find_best_feature` -/

/-- the selected feature and direction maximise the number of accepted targets over all
features and both directions; nothing is selected iff nothing is accepted anywhere -/
theorem C07_bestFeature_spec (cd ca : List Nat) :
    (bestFeature cd ca = none ↔ (∀ x ∈ cd, x = 0) ∧ (∀ x ∈ ca, x = 0)) ∧
    (∀ i n d, bestFeature cd ca = some (i, n, d) →
      0 < n ∧ (∀ x ∈ cd, x ≤ n) ∧ (∀ x ∈ ca, x ≤ n) ∧
      (if d then cd[i]? = some n else ca[i]? = some n)) := by
  have gd := argmaxFirst_ge cd
  have ga := argmaxFirst_ge ca
  constructor
  · unfold bestFeature
    constructor
    · intro h
      by_cases hd : (argmaxFirst cd).2 > 0
      · simp [hd] at h
        split at h <;> simp at h
      · have hd0 : (argmaxFirst cd).2 = 0 := by omega
        simp [hd0] at h
        refine ⟨fun x hx => by have := gd x hx; omega, fun x hx => by have := ga x hx; omega⟩
    · rintro ⟨h1, h2⟩
      have hd0 : (argmaxFirst cd).2 = 0 := by
        cases cd with
        | nil => simp [argmaxFirst]
        | cons y ys =>
          have := argmaxFirst_mem (y :: ys) (by simp)
          exact h1 _ (List.mem_of_getElem? this)
      have ha0 : (argmaxFirst ca).2 = 0 := by
        cases ca with
        | nil => simp [argmaxFirst]
        | cons y ys =>
          have := argmaxFirst_mem (y :: ys) (by simp)
          exact h2 _ (List.mem_of_getElem? this)
      simp [hd0, ha0]
  · intro i n d h
    unfold bestFeature at h
    by_cases hd : (argmaxFirst cd).2 > 0
    · simp only [hd, if_true, Option.map_some, Option.getD_some] at h
      split at h
      · rename_i hgt
        injection h with h; injection h with h1 h; injection h with h2 h3
        subst h1 h2 h3
        have hne : ca ≠ [] := by rintro rfl; simp [argmaxFirst] at hgt
        refine ⟨by omega, fun x hx => by have := gd x hx; omega, ga, ?_⟩
        simpa using argmaxFirst_mem ca hne
      · rename_i hle
        injection h with h; injection h with h1 h; injection h with h2 h3
        subst h1 h2 h3
        have hne : cd ≠ [] := by rintro rfl; simp [argmaxFirst] at hd
        refine ⟨hd, gd, fun x hx => by have := ga x hx; omega, ?_⟩
        simpa using argmaxFirst_mem cd hne
    · have hd0 : (argmaxFirst cd).2 = 0 := by omega
      simp only [hd0, gt_iff_lt, lt_self_iff_false, if_false, Option.map_none, Option.getD_none] at h
      split at h
      · rename_i hgt
        injection h with h; injection h with h1 h; injection h with h2 h3
        subst h1 h2 h3
        have hne : ca ≠ [] := by rintro rfl; simp [argmaxFirst] at hgt
        refine ⟨hgt, fun x hx => by have := gd x hx; omega, ga, ?_⟩
        simpa using argmaxFirst_mem ca hne
      · cases h

/-! ### direction -/

/-- confidence assignment honours the returned direction: for a lower-is-better feature the
ranking score is order-reversing, so the rows C03 keeps (highest ranking score per key,
non-increasing order) are the *lowest* feature values, listed from low to high -/
theorem C07_confidence_honours_direction (a b : Int) :
    (rankScore false a ≤ rankScore false b ↔ b ≤ a) ∧ (rankScore true a ≤ rankScore true b ↔ a ≤ b) := by
  simp [rankScore]

/-! ### non-vacuity / evaluation tests -/

def exModels : List FoldModel :=
  [⟨10, 2, true, false, true⟩, ⟨14, 1, false, false, true⟩, ⟨14, 0, true, false, true⟩]

#guard decide exModels 13 == .useFeature 1 false      -- first maximum wins
#guard decide exModels 14 == .useModel                -- strict comparison
#guard decide (exModels.map (fun m => { m with override := true })) 0 == .useModel
#guard bestFeature [3, 5, 5] [5, 6, 6] == some (1, 6, false)
#guard bestFeature [3, 5, 5] [5, 5, 1] == some (1, 5, true)   -- descending direction kept on ties
#guard bestFeature [0, 0] [0] == none

example : exModels.all (·.override) = false := by decide

end Mk.Fallback
