import MokapotVerif.Lemmas.PinWarn
import MokapotVerif.Props.C10Ext
/-!
# C10 (third extension) — what the scan tasks report and what is logged; files without rows

Property theorems only (gap analysis: `GAPS-C10.md`, section "Third pass").
Notation as in `Props/C10.lean` / `Props/C10Ext.lean`; in addition

* `featuresToDrop σ args c r t` is the list `features_to_drop` of `read_percolator`
  (pin.py:236-237: the task results without the `None`s, flattened), `σ` the hash order in
  which a task lists its columns (`set(column) - set(spectra)`, pin.py:281);
* `readPercolatorWarnings σ args c r t` the feature names in the `"  - %s"` warning lines
  (pin.py:238-243);
* `specDropped t d` the columns of the file that are not metadata of the dataset `d` and
  hold a missing value, in file order.
-/
namespace Mk.Pin

/-- **"Columns with missing values are dropped from the features" — the drop list**:
whenever a table parses (any keyword arguments, any chunk sizes c, r ≥ 1), the list
`features_to_drop` the tasks report is, for every hash order `σ` of the task's columns,
a re-arrangement of exactly the non-metadata columns with a missing value (each once);
they are logged as warnings iff there are at least two of them (the code as it is:
`len(features_to_drop) > 1` — a single dropped feature is dropped silently). -/
theorem C10_drop_list {args : PinArgs} {t : Table} (hrows : ∀ p ∈ t.cols, p.2.length = t.nrows)
    {c r : Nat} (hc : 1 ≤ c) (hr : 1 ≤ r) {d : Dataset}
    (h : readPercolatorSched args c r t id = .ok d)
    (σ : List Name → List Name) (hσ : ∀ l, (σ l).Perm l) :
    ∃ dropped, featuresToDrop σ args c r t = .ok dropped ∧ dropped.Perm (specDropped t d) ∧
      readPercolatorWarnings σ args c r t
        = .ok (if 2 ≤ (specDropped t d).length then dropped else []) := by
  obtain ⟨k, hk, hmeta, _, _⟩ := readPercolatorSched_ok_parts h
  have hperm := flatten_scanDropOrd_perm hσ t hc r (numRowChunks t.nrows r)
    (k.features t.header) (k.spectra ++ [k.labels]) (by simp)
    (fun x hx => ids_not_features k t.header x hx)
  have hspec : (k.features t.header).filter (naInColumn t r (numRowChunks t.nrows r))
      = specDropped t d := by
    unfold Classified.features specDropped
    rw [List.filter_filter, hmeta]
    apply List.filter_congr
    intro f hf
    rw [← column_length t hrows hf, naInColumn_eq t hr, Bool.and_comm]
  rw [hspec] at hperm
  refine ⟨_, ?_, hperm, ?_⟩
  · unfold featuresToDrop
    rw [h, hk]; rfl
  · unfold readPercolatorWarnings featuresToDrop
    rw [h, hk]
    show Except.ok (dropWarnings _) = _
    unfold dropWarnings featSlices
    rw [hperm.length_eq]
    rfl

/-- **the drop list of an admissible call**: on a table that is well-formed for the call the
tasks report a re-arrangement of the non-reserved columns with a missing value — the
complement, among the non-reserved columns, of the returned features; independent of the
chunk sizes and of the hash order. -/
theorem C10_drop_list_wf {args : PinArgs} {t : Table} (h : WellFormedArgs args t)
    {c r : Nat} (hc : 1 ≤ c) (hr : 1 ≤ r) (σ : List Name → List Name) (hσ : ∀ l, (σ l).Perm l) :
    ∃ dropped, featuresToDrop σ args c r t = .ok dropped ∧
      (∀ f, f ∈ dropped ↔ f ∈ t.header ∧ reservedArgs args t.header f = false ∧
        ∃ cell ∈ t.column f, cell = Cell.na) ∧ dropped.Nodup ∧
      (∀ f ∈ t.header, reservedArgs args t.header f = false →
        (f ∈ dropped ↔ f ∉ (specDatasetArgs args t).features)) := by
  have hp := C10_args_parse_faithful h hc hr id (fun l => List.Perm.refl l)
  obtain ⟨dropped, hd, hperm, _⟩ := C10_drop_list h.rows hc hr hp σ hσ
  obtain ⟨d', hp', _, _, hres⟩ := C10_args_features_spec h hc hr id (fun l => List.Perm.refl l)
  rw [hp] at hp'
  simp only [Except.ok.injEq] at hp'
  subst hp'
  have hmem : ∀ f, f ∈ dropped ↔ f ∈ t.header ∧ reservedArgs args t.header f = false ∧
      hasMissing t f = true := by
    intro f
    rw [hperm.mem_iff]
    unfold specDropped
    rw [List.mem_filter]
    constructor
    · rintro ⟨h1, h2⟩
      simp only [Bool.and_eq_true, Bool.not_eq_true', List.contains_eq_mem, decide_eq_false_iff_not] at h2
      refine ⟨h1, ?_, h2.2⟩
      cases hr' : reservedArgs args t.header f
      · rfl
      · exact absurd ((hres f h1).mpr hr') h2.1
    · rintro ⟨h1, h2, h3⟩
      refine ⟨h1, ?_⟩
      have : f ∉ (specDatasetArgs args t).metadata := fun hm => by
        rw [(hres f h1).mp hm] at h2; cases h2
      simp [this, h3]
  refine ⟨dropped, hd, ?_, ?_, ?_⟩
  · intro f
    rw [hmem f]
    unfold hasMissing
    rw [List.any_eq_true]
    constructor
    · rintro ⟨h1, h2, cell, h3, h4⟩
      refine ⟨h1, h2, cell, h3, ?_⟩
      cases cell <;> first | rfl | cases h4
    · rintro ⟨h1, h2, cell, h3, rfl⟩
      exact ⟨h1, h2, _, h3, rfl⟩
  · exact hperm.nodup_iff.mpr (h.nodup.filter _)
  · intro f hf hnr
    rw [hmem f]
    show _ ↔ f ∉ t.header.filter _
    rw [List.mem_filter]
    simp only [hf, hnr, true_and, Bool.not_false, Bool.true_and, Bool.not_eq_true']
    cases hasMissing t f <;> simp

/-- **a single column with a missing value is dropped without a warning** (the code as it
is, pin.py:238 `> 1`), **two or more are all named**. -/
theorem C10_warning_lines {args : PinArgs} {t : Table} (hrows : ∀ p ∈ t.cols, p.2.length = t.nrows)
    {c r : Nat} (hc : 1 ≤ c) (hr : 1 ≤ r) {d : Dataset}
    (h : readPercolatorSched args c r t id = .ok d)
    (σ : List Name → List Name) (hσ : ∀ l, (σ l).Perm l) :
    ∃ w, readPercolatorWarnings σ args c r t = .ok w ∧
      ((specDropped t d).length ≤ 1 → w = []) ∧
      (2 ≤ (specDropped t d).length → w.Perm (specDropped t d)) := by
  obtain ⟨dropped, _, hperm, hw⟩ := C10_drop_list hrows hc hr h σ hσ
  refine ⟨_, hw, ?_, ?_⟩
  · intro hle
    rw [if_neg (by omega)]
  · intro hge
    rw [if_pos hge]; exact hperm

/-- **a reader that yields no row chunk** (the Parquet reader on a file without data rows):
whatever the columns, `df_spectra_list` stays empty and the call ends in
`ValueError: No objects to concatenate` — a table without rows never yields a dataset
(the text reader yields one empty chunk instead; outside the model, see GAPS-C10). -/
theorem C10_no_rows_no_dataset {args : PinArgs} {t : Table} (h0 : t.nrows = 0) {k : Classified}
    (hk : lookupColumns args t.header = .ok k) (hne : k.spectra.any (fun s => s.isEmpty) = false)
    {c r : Nat} (hc : 1 ≤ c) (hr : 1 ≤ r) (order : List (List Name) → List (List Name)) :
    readPercolatorSched args c r t order = .error .noObjects := by
  unfold readPercolatorSched
  rw [hk]
  show (if _ then _ else _) = _
  rw [hne]
  simp only [Bool.false_eq_true, if_false]
  rw [if_neg (by omega)]
  have hm : numRowChunks t.nrows r = 0 := by
    unfold numRowChunks
    rw [h0, Nat.zero_add]
    exact Nat.div_eq_of_lt (by omega)
  have hfr : ∀ l : List (List Name),
      l.flatMap (scanFrames t (k.spectra ++ [k.labels]) r 0) = [] := by
    intro l
    induction l with
    | nil => rfl
    | cons a as ih =>
      rw [List.flatMap_cons, ih]
      unfold scanFrames
      split <;> rfl
  rw [hm, hfr]
  rfl

/-! ## Non-vacuity -/

/-- `exTable2` with a second feature holding a missing value -/
def exTable4 : Table := ⟨exTable2.cols ++ [("f3".toList, [.na, .int 1, .int 2])]⟩

example : WellFormedArgs exArgs exTable4 := (wellFormedArgsB_iff _ _).mp (by decide +kernel)
example : ∃ d, readPercolatorSched exArgs 2 2 exTable4 id = .ok d ∧ 2 ≤ (specDropped exTable4 d).length :=
  ⟨_, C10_args_parse_faithful ((wellFormedArgsB_iff _ _).mp (by decide +kernel)) (by decide) (by decide)
      id (fun l => List.Perm.refl l), by decide +kernel⟩
example : ∃ σ : List Name → List Name, (∀ l, (σ l).Perm l) ∧ σ ≠ id :=
  ⟨List.reverse, fun l => List.reverse_perm l, fun h => by
    have := congrFun h [['a'], ['b']]; revert this; decide⟩
-- ExpMass (not reserved once `f1` is named), f2, f3 hold a missing value
#guard (readPercolatorWarningsId exArgs 2 2 exTable4).toOption
  == some ["ExpMass".toList, "f2".toList, "f3".toList]
#guard (List.range 14).all (fun c => (List.range 5).all (fun r =>
  (readPercolatorWarningsId exArgs (c + 1) (r + 1) exTable4).toOption
    == some ["ExpMass".toList, "f2".toList, "f3".toList]))
-- default call on exTable2: only f2 has a missing value -> dropped, not logged
#guard (readPercolatorWarningsId {} 3 2 exTable2).toOption == some []
#guard (featuresToDrop id {} 3 2 exTable2).toOption == some ["f2".toList]
#guard (featuresToDrop List.reverse exArgs 19 2 exTable4).toOption
  == some ["f3".toList, "f2".toList, "ExpMass".toList]
-- no rows
def exTable0 : Table := ⟨exTable2.cols.map (fun p => (p.1, []))⟩
example : exTable0.nrows = 0 ∧ (lookupColumns {} exTable0.header).toOption.isSome = true := by decide +kernel
#guard errEq (readPercolator {} 19 10 exTable0) .noObjects

end Mk.Pin
