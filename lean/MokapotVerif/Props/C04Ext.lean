import MokapotVerif.Lemmas.TdcLevelFdr
/-!
# C04 (extension) — the hypotheses of the FDR bound on the paths the base files do not reach

* **roll-up tool** (`brew_rollup`): its row stream with the tie rule made explicit
  (`C04_rollup_tool_stream`, `C04_rollup_tool_decoy_precedes_tied_target`), its level files
  (`C04_rollup_tool_files`), label-blindness for a label-independent stream
  (`C04_rollup_tool_label_blind_given_stream`) and, for the tool's *own* stream, whenever scores
  are distinct within every id (`C04_rollup_tool_survivors_independent_of_labels`); a tie between a
  target and a decoy of one id goes to the DECOY (decoy files are merged first since the repair of
  D29): the tool is label-dependent on exact ties, but only in the conservative direction — a
  surviving target scores strictly higher than every decoy of its id
  (`C04_rollup_tool_surviving_target_beats_decoys`, witness `C04_rollup_tool_ties_favour_decoys`;
  the old targets-first stream is the refuted variant `Mutants/TdcExt.lean: targets_first_…`);
* **T1 on the q-value column** of any level file (`C04_accepted_counts_by_qvalue_column`);
* **brew options**: `ensemble=True` is the mean over all fold models (`C04_ensemble_eq_spec`) and
  therefore not held-out (`C04_ensemble_not_heldout`), while without it the raw score of a row
  does not depend on the labels inside its own fold (`C04_heldout_scores_ignore_fold_labels`);
  models are used in fold order whatever order they arrive in (`C04_models_used_in_fold_order`,
  `C04_pretrained_order_irrelevant`);
* **end to end for label-independent scores**: competition (T5) + q-value column (C01/C03) +
  fixed-ranking bound (T4) composed on the pipeline model, at the PSM level, every roll-up level
  and every level of the roll-up tool (`C04_psm_level_fdr_fixed_scores`,
  `C04_rollup_level_fdr_fixed_scores`, `C04_rollup_tool_level_fdr_fixed_scores`).
-/
namespace Mk.TdcX
open Mk Mk.Tdc Mk.Brew Finset

/-! ## The stand-alone roll-up tool -/

/-- **The tool's row stream.**  On non-empty result files sorted best-first (any number of target
and decoy files, any lengths, any ties) the merged reader raises nothing and yields the *stable*
sort by decreasing score of the decoy files followed by the target files. -/
theorem C04_rollup_tool_stream (tf df : List (List Row)) (hne : tf ++ df ≠ []) (hrow : [] ∉ tf ++ df)
    (hs : ∀ f ∈ tf ++ df, SortedRows f) :
    toolStream tf df = some (Merge.stableSortDesc rowLe (df.flatten ++ tf.flatten), false) :=
  toolStream_eq tf df hne hrow hs

/-- … hence among rows of equal score every decoy row precedes every target row (and rows of one
label keep their file order): the tie rule of the tool looks at the label, in the conservative
direction. -/
theorem C04_rollup_tool_decoy_precedes_tied_target (T D : List Row) (t : Row) :
    (Merge.stableSortDesc rowLe (D ++ T)).filter (Merge.tieWith rowLe t)
      = D.filter (Merge.tieWith rowLe t) ++ T.filter (Merge.tieWith rowLe t) := by
  rw [(Merge.C14_stable_sort_spec rowLe rowLe_totalPre (D ++ T)).2.2 t, List.filter_append]

/-- **One-sided tie rule.**  Whatever the files, scores and ties: a *target* that represents an id
at a level of the tool scores strictly higher than every decoy carrying that id.  So a tie between
a target and a decoy of one id is never decided for the target; relabelling can replace a
surviving target by a tied decoy, never a surviving decoy by a tied target — the estimate can only
become more conservative. -/
theorem C04_rollup_tool_surviving_target_beats_decoys (n l : Nat) (hl : l < n)
    (tf df : List (List Row)) (hne : tf ++ df ≠ []) (hrow : [] ∉ tf ++ df)
    (hs : ∀ f ∈ tf ++ df, SortedRows f)
    (hT : ∀ x ∈ tf.flatten, x.target = true) (hD : ∀ x ∈ df.flatten, x.target = false) :
    ∃ L, rollupToolFiles n tf df = some L ∧
      ∀ r ∈ L.getD l [], r.target = true →
        ∀ d ∈ tf.flatten ++ df.flatten, d.target = false → d.key l = r.key l → d.score < r.score := by
  refine ⟨rollupTool n (Merge.stableSortDesc rowLe (df.flatten ++ tf.flatten)), ?_, ?_⟩
  · unfold rollupToolFiles
    rw [toolStream_eq tf df hne hrow hs]
    rfl
  · intro r hr hrt d hd hdt hk
    have hlev : (rollupTool n (Merge.stableSortDesc rowLe (df.flatten ++ tf.flatten))).getD l []
        = dedupFirst (fun r => r.key l) [] (Merge.stableSortDesc rowLe (df.flatten ++ tf.flatten)) := by
      simp [rollupTool, hl]
    rw [hlev] at hr
    exact first_target_beats_tied_decoys (fun r => r.key l) df.flatten tf.flatten hD hT r hr hrt d
      (by rw [List.mem_append] at hd ⊢; exact hd.symm) hdt hk

/-- **The tool's level files**: one row per id, a highest-scoring one, best first, for every level. -/
theorem C04_rollup_tool_files (n : Nat) (tf df : List (List Row)) (hne : tf ++ df ≠ [])
    (hrow : [] ∉ tf ++ df) (hs : ∀ f ∈ tf ++ df, SortedRows f) :
    ∃ S, S.Perm (tf.flatten ++ df.flatten) ∧ SortedRows S ∧
      rollupToolFiles n tf df = some (rollupTool n S) ∧
      ∀ l, l < n → ∃ lv, (rollupTool n S)[l]? = some lv ∧ LevelSpec (fun r => r.key l) S lv := by
  refine ⟨Merge.stableSortDesc rowLe (df.flatten ++ tf.flatten),
    (Merge.stableSortDesc_perm _ _).trans List.perm_append_comm,
    stableStream_sorted _, ?_, C03_rollup_tool_spec n _ (stableStream_sorted _)⟩
  unfold rollupToolFiles
  rw [toolStream_eq tf df hne hrow hs]
  rfl

/-- **Label-blind for a label-independent stream**: relabelling the rows of the merged stream changes
no level of the tool except the labels the survivors carry. -/
theorem C04_rollup_tool_label_blind_given_stream (f : Nat → Bool) (n : Nat) (S : List Row) :
    rollupTool n (S.map (Row.relabel f)) = (rollupTool n S).map (List.map (Row.relabel f)) := by
  unfold rollupTool
  rw [List.map_map]
  apply List.map_congr_left
  intro l _
  exact dedupFirst_map_relabel (fun r => r.key l) f (fun _ => rfl) [] S

/-- **The tool is label-blind when scores are distinct within every id.**  `rows` are the PSM-level
rows, `f` and `g` two labellings; each labelling distributes the rows over target and decoy files
(any number, sorted best-first, non-empty).  If no two rows with the same level-`l` id have the
same score, level `l` of the tool holds the same PSM ids under both labellings. -/
theorem C04_rollup_tool_survivors_independent_of_labels (n l : Nat) (hl : l < n) (rows : List Row)
    (htf : ∀ a ∈ rows, ∀ b ∈ rows, a.key l = b.key l → a.score = b.score → a = b)
    (f g : Nat → Bool) (tf df tg dg : List (List Row))
    (hnf : tf ++ df ≠ []) (hrf : [] ∉ tf ++ df) (hsf : ∀ x ∈ tf ++ df, SortedRows x)
    (hpf : (tf.flatten ++ df.flatten).Perm (rows.map (Row.relabel f)))
    (hng : tg ++ dg ≠ []) (hrg : [] ∉ tg ++ dg) (hsg : ∀ x ∈ tg ++ dg, SortedRows x)
    (hpg : (tg.flatten ++ dg.flatten).Perm (rows.map (Row.relabel g))) :
    ∃ Lf Lg, rollupToolFiles n tf df = some Lf ∧ rollupToolFiles n tg dg = some Lg ∧
      ∀ i, i ∈ (Lf.getD l []).map Row.id ↔ i ∈ (Lg.getD l []).map Row.id := by
  obtain ⟨Sf, hSf, hsSf, hfiles, _⟩ := C04_rollup_tool_files n tf df hnf hrf hsf
  obtain ⟨Sg, hSg, hsSg, hgiles, _⟩ := C04_rollup_tool_files n tg dg hng hrg hsg
  refine ⟨_, _, hfiles, hgiles, ?_⟩
  intro i
  have hlev : ∀ S, (rollupTool n S).getD l [] = dedupFirst (fun r => r.key l) [] S := by
    intro S; simp [rollupTool, hl]
  rw [hlev, hlev,
    survivors_ids_tiefree (fun r => r.key l) (fun _ _ => rfl) rows htf f Sf (hSf.trans hpf) hsSf i,
    survivors_ids_tiefree (fun r => r.key l) (fun _ _ => rfl) rows htf g Sg (hSg.trans hpg) hsSg i]

/-- **Witness (the code as it is): a tie between a target and a decoy of one id goes to the
decoy.**  Two PSMs with the same peptide and the same score, one target and one decoy: the decoy
PSM 1 represents the peptide; swap both labels and PSM 0 (now the decoy) does.  The tool is not
label-blind on exact ties, but the survivor is a decoy in both runs. -/
theorem C04_rollup_tool_ties_favour_decoys :
    ∃ (r0 r1 : Row) (f : Nat → Bool),
      r0.target = true ∧ r1.target = false ∧ r0.score = r1.score ∧ r0.key 0 = r1.key 0 ∧
      (Row.relabel f r0).target = false ∧ (Row.relabel f r1).target = true ∧
      (rollupToolFiles 1 [[r0]] [[r1]]).map (List.map (List.map Row.id)) = some [[1]] ∧
      (rollupToolFiles 1 [[Row.relabel f r1]] [[Row.relabel f r0]]).map (List.map (List.map Row.id))
        = some [[0]] :=
  ⟨⟨0, 0, [7], true, 5⟩, ⟨1, 1, [7], false, 5⟩, fun i => i == 1, by decide⟩

/-! ## T1 on the q-value column of a level file -/

/-- **T1 read off the file.**  For every level file (of `assign_confidence` or of the roll-up tool;
any rows, any ties) and every `a < 1`: among the rows whose *reported q-value* is `≤ a`,
`decoys + 1 ≤ a · targets` (if there is any such row). -/
theorem C04_accepted_counts_by_qvalue_column (level : List Row) (a : Rat) (ha : a < 1)
    (hne : acceptedRows a level ≠ []) :
    (((acceptedRows a level).countP (fun r => !r.target) + 1 : Nat) : Rat)
      ≤ a * (((acceptedRows a level).countP (fun r => r.target) : Nat) : Rat) := by
  have hacc : acceptedAt (leInt true) (scoreLabels level) a
      = (acceptedRows a level).map (fun r => (r.score, r.target)) := by
    rw [acceptedRows_eq_filter]
    unfold acceptedAt scoreLabels
    rw [List.filter_map]
    rfl
  have h := C04_accepted_counts (leInt true) (leInt_totalPre true) (scoreLabels level) a ha
    (by rw [hacc]; simpa using hne)
  rw [hacc, List.countP_map, List.countP_map] at h
  exact h

/-! ## `brew`: ensemble, held-out scores, model order -/

/-- **`ensemble=True` = mean over all fold models**, row by row, for every prediction chunk size. -/
theorem C04_ensemble_eq_spec {ρ : Type} (c : Nat) (hc : 0 < c) (rows : List ρ) (k : Nat)
    (score : Nat → ρ → Rat) :
    brewScores true c k rows [] score (fun _ => true) (fun _ s => s) = ensembleSpec rows k score := by
  unfold brewScores
  simp only [if_true]
  exact predictEnsemble_eq_spec c hc rows k score

/-- **Held-out scores do not see the labels of their own fold** (`ensemble=False`, any learner, any
capacity).  Tables `rows`, `rows'` of `(features, label)` agree outside fold `f` and carry the same
features inside it (labels inside may differ arbitrarily); model `g` is `learner` applied to the
rows `subs g`, and the rows `subs f` lie outside fold `f`.  Then every row of fold `f` gets the
same raw score from both tables. -/
theorem C04_heldout_scores_ignore_fold_labels {φ : Type} (c : Nat) (hc : 0 < c) (nfolds : Nat)
    (rows rows' : List (φ × Bool)) (hlen : rows'.length = rows.length)
    (routing : List Nat) (hr : routing.length = rows.length) (hlt : ∀ g ∈ routing, g < nfolds)
    (f : Nat) (subs : Nat → List Nat)
    (hheld : ∀ i ∈ subs f, routing[i]? ≠ some f)
    (hout : ∀ i : Nat, routing[i]? ≠ some f → rows[i]? = rows'[i]?)
    (hfeat : ∀ i : Nat, Option.map Prod.fst (rows[i]?) = Option.map Prod.fst (rows'[i]?))
    (learner : List (Option (φ × Bool)) → φ → Rat) (p : Nat) (hp : routing[p]? = some f) :
    (brewScores false c nfolds rows routing
        (fun g r => learner ((subs g).map (fun i => rows[i]?)) r.1) (·.2) (fun _ s => s))[p]?
      = (brewScores false c nfolds rows' routing
        (fun g r => learner ((subs g).map (fun i => rows'[i]?)) r.1) (·.2) (fun _ s => s))[p]? := by
  unfold brewScores
  simp only [Bool.false_eq_true, if_false]
  rw [C02_predict_eq_spec c hc nfolds rows routing hr hlt,
    C02_predict_eq_spec c hc nfolds rows' routing (by rw [hr, hlen]) hlt]
  unfold predictSpec
  have hpr : p < routing.length := by
    by_contra hge
    rw [List.getElem?_eq_none (by omega)] at hp
    simp at hp
  have hp1 : p < rows.length := by omega
  have hp2 : p < rows'.length := by omega
  have hrp : routing[p] = f := by
    rw [List.getElem?_eq_getElem hpr] at hp
    exact Option.some.inj hp
  rw [List.getElem?_eq_getElem (by simp [hr, hp1]), List.getElem?_eq_getElem (by simp [hr, hlen, hp1])]
  simp only [List.getElem_map, List.getElem_zip, hrp]
  have htrain : (subs f).map (fun i => rows[i]?) = (subs f).map (fun i => rows'[i]?) :=
    List.map_congr_left (fun i hi => hout i (hheld i hi))
  have hf := hfeat p
  rw [List.getElem?_eq_getElem hp1, List.getElem?_eq_getElem hp2] at hf
  simp only [Option.map_some, Option.some.injEq] at hf
  rw [htrain, hf]

/-- **Witness: `ensemble=True` is not held-out scoring.**  Two PSMs, two folds, a learner that recalls
its training rows; flipping the label of PSM 0 (inside its own fold, features unchanged) changes the
ensemble score of PSM 0, because the model of the *other* fold was trained on it — while the
held-out score of PSM 0 is unchanged. -/
theorem C04_ensemble_not_heldout :
    ∃ (rows rows' : List (Nat × Bool)) (routing : List Nat) (subs : Nat → List Nat),
      routing = [0, 1] ∧ subs 0 = [1] ∧ subs 1 = [0] ∧
      rows.map (·.1) = rows'.map (·.1) ∧ rows[1]? = rows'[1]? ∧
      (brewScores true 1 2 rows routing (fun g r => memoriser ((subs g).map (fun i => rows[i]?)) r.1)
          (·.2) (fun _ s => s))[0]?
        ≠ (brewScores true 1 2 rows' routing (fun g r => memoriser ((subs g).map (fun i => rows'[i]?)) r.1)
          (·.2) (fun _ s => s))[0]? ∧
      (brewScores false 1 2 rows routing (fun g r => memoriser ((subs g).map (fun i => rows[i]?)) r.1)
          (·.2) (fun _ s => s))[0]?
        = (brewScores false 1 2 rows' routing (fun g r => memoriser ((subs g).map (fun i => rows'[i]?)) r.1)
          (·.2) (fun _ s => s))[0]? :=
  ⟨[(0, true), (1, true)], [(0, false), (1, true)], [0, 1], fun g => if g = 0 then [1] else [0],
    rfl, rfl, rfl, rfl, rfl, by decide +kernel, by decide +kernel⟩

/-- **Models are used in fold order**: if the `fold` attributes of the models at hand (fitted by
worker threads in any completion order, or pre-trained and given in any order) are `1 … k`, then
after `fitted.sort` the model at position `j` is the one with `fold = j + 1`. -/
theorem C04_models_used_in_fold_order {μ : Type} (ms : List (Nat × μ)) (k : Nat)
    (h : (ms.map (·.1)).Perm (List.range' 1 k)) :
    (sortByFold ms).map (·.1) = List.range' 1 k ∧ (sortByFold ms).Perm ms := by
  refine ⟨?_, sortByFold_perm ms⟩
  have hp : ((sortByFold ms).map (·.1)).Perm (List.range' 1 k) :=
    ((sortByFold_perm ms).map _).trans h
  have hs1 : ((sortByFold ms).map (·.1)).Pairwise (· ≤ ·) := by
    rw [List.pairwise_map]; exact sortByFold_sorted ms
  have hs2 : (List.range' 1 k).Pairwise (· ≤ ·) :=
    List.Pairwise.imp (fun h => Nat.le_of_lt h) (List.pairwise_lt_range' (s := 1) (n := k) (step := 1))
  exact List.Perm.eq_of_pairwise (le := (· ≤ ·)) (fun a b _ _ h1 h2 => Nat.le_antisymm h1 h2) hs1 hs2 hp

/-- … and the order in which the models were handed over is irrelevant -/
theorem C04_pretrained_order_irrelevant {μ : Type} (ms ms' : List (Nat × μ)) (hp : ms.Perm ms')
    (hnd : (ms.map (·.1)).Nodup) : sortByFold ms = sortByFold ms' := by
  have hperm : (sortByFold ms).Perm (sortByFold ms') :=
    (sortByFold_perm ms).trans (hp.trans (sortByFold_perm ms').symm)
  refine List.Perm.eq_of_pairwise (le := fun a b => a.1 ≤ b.1) ?_ (sortByFold_sorted ms)
    (sortByFold_sorted ms') hperm
  intro a b ha hb h1 h2
  have ha' : a ∈ ms := (sortByFold_perm ms).mem_iff.mp ha
  have hb' : b ∈ ms := hp.mem_iff.mpr ((sortByFold_perm ms').mem_iff.mp hb)
  exact List.inj_on_of_nodup_map hnd ha' hb' (Nat.le_antisymm h1 h2)

/-! ## End to end for label-independent scores

`merged` is the best-first stream of all PSM rows (scores pairwise distinct, so its arrangement
is determined by the scores alone), `incorrect id` the ground truth.  Correct PSMs are targets;
every incorrect PSM that survives the competition is a target or a decoy by a fair coin — the
labelling `coinLabels … ω` of the PSM ids, one coin per incorrect survivor in ranking order.
The level file is produced by the model of the pipeline from the *labelled* stream, the accepted
set is read off its q-value column (`acceptedRows`: `levelQvalues` = model of `tdc`), and its
false discovery proportion is `levelFDP`.  Summed over the `2^m` equally likely outcomes this is at
most `a · 2^m`: `E[FDP] ≤ a`. -/

/-- **PSM level**: competition per spectrum, q-values, threshold `a` — `E[FDP] ≤ a`. -/
theorem C04_psm_level_fdr_fixed_scores (merged : List Row)
    (hs : merged.Pairwise (fun a b => b.score < a.score)) (hid : (merged.map Row.id).Nodup)
    (incorrect : Nat → Bool) (a : Rat) (ha0 : 0 < a) (ha1 : a < 1) :
    (∑ ω : Fin (nulls (levelKinds incorrect (psmLevel true merged))) → Bool,
        levelFDP incorrect a (psmLevel true
          (merged.map (Row.relabel (coinLabels incorrect (psmLevel true merged) (List.ofFn ω))))))
      ≤ a * 2 ^ nulls (levelKinds incorrect (psmLevel true merged)) :=
  level_bound_of_blind (psmLevel true)
    (fun f rows => (C04_competition_label_blind f true rows 0).2.1)
    (fun rows => by unfold psmLevel; simp only [if_true]; exact dedupFirst_sublist _ _ _)
    merged hs hid incorrect a ha0 ha1

/-- **Every roll-up level** (peptides, modified peptides, …): competition per spectrum, then per
level id — `E[FDP] ≤ a` among the accepted peptides. -/
theorem C04_rollup_level_fdr_fixed_scores (l : Nat) (merged : List Row)
    (hs : merged.Pairwise (fun a b => b.score < a.score)) (hid : (merged.map Row.id).Nodup)
    (incorrect : Nat → Bool) (a : Rat) (ha0 : 0 < a) (ha1 : a < 1) :
    (∑ ω : Fin (nulls (levelKinds incorrect (rollupLevel true merged l))) → Bool,
        levelFDP incorrect a (rollupLevel true
          (merged.map (Row.relabel (coinLabels incorrect (rollupLevel true merged l) (List.ofFn ω)))) l))
      ≤ a * 2 ^ nulls (levelKinds incorrect (rollupLevel true merged l)) :=
  level_bound_of_blind (fun rows => rollupLevel true rows l)
    (fun f rows => (C04_competition_label_blind f true rows l).2.2)
    (fun rows => by
      unfold rollupLevel psmLevel
      simp only [if_true]
      exact (dedupFirst_sublist _ _ _).trans (dedupFirst_sublist _ _ _))
    merged hs hid incorrect a ha0 ha1

/-- **Every level of the roll-up tool**, for a stream with pairwise distinct scores (then the
tool's tie rule never applies). -/
theorem C04_rollup_tool_level_fdr_fixed_scores (l : Nat) (merged : List Row)
    (hs : merged.Pairwise (fun a b => b.score < a.score)) (hid : (merged.map Row.id).Nodup)
    (incorrect : Nat → Bool) (a : Rat) (ha0 : 0 < a) (ha1 : a < 1) :
    (∑ ω : Fin (nulls (levelKinds incorrect (dedupFirst (fun r => r.key l) [] merged))) → Bool,
        levelFDP incorrect a (dedupFirst (fun r => r.key l) []
          (merged.map (Row.relabel (coinLabels incorrect (dedupFirst (fun r => r.key l) [] merged)
            (List.ofFn ω))))))
      ≤ a * 2 ^ nulls (levelKinds incorrect (dedupFirst (fun r => r.key l) [] merged)) :=
  level_bound_of_blind (dedupFirst (fun r => r.key l) [])
    (fun f rows => dedupFirst_map_relabel (fun r => r.key l) f (fun _ => rfl) [] rows)
    (fun _ => dedupFirst_sublist _ _ _)
    merged hs hid incorrect a ha0 ha1

/-! ## Non-vacuity and evaluation tests -/

/-- two spectra (1 and 2), three peptides; PSMs 1 and 3 are incorrect -/
def exStream : List Row :=
  [⟨0, 1, [10], true, 9⟩, ⟨1, 2, [11], true, 7⟩, ⟨2, 1, [10], true, 6⟩, ⟨3, 3, [12], true, 4⟩,
   ⟨4, 4, [13], true, 2⟩]
def exIncorrect (i : Nat) : Bool := i == 1 || i == 3

example : exStream.Pairwise (fun a b => b.score < a.score) := by decide
example : (exStream.map Row.id).Nodup := by decide
-- the competition keeps PSMs 0, 1, 3, 4; two of them are incorrect: two coins
#guard (psmLevel true exStream).map Row.id == [0, 1, 3, 4]
#guard nulls (levelKinds exIncorrect (psmLevel true exStream)) == 2
-- coins (decoy, target): PSM 1 becomes a decoy, PSM 3 stays a target
#guard (psmLevel true (exStream.map (Row.relabel (coinLabels exIncorrect (psmLevel true exStream) [false, true])))).map
    (fun r => (r.id, r.target)) == [(0, true), (1, false), (3, true), (4, true)]
-- at a = 2/3 everything down to PSM 4 is accepted (1 decoy + 1 ≤ 2/3 · 3); one of the three targets is incorrect
#guard (acceptedRows (2/3) (psmLevel true (exStream.map (Row.relabel
    (coinLabels exIncorrect (psmLevel true exStream) [false, true]))))).map Row.id == [0, 1, 3, 4]
#guard levelFDP exIncorrect (2/3) (psmLevel true (exStream.map (Row.relabel
    (coinLabels exIncorrect (psmLevel true exStream) [false, true])))) == 1/3

-- hypotheses of the tool theorems: two files, sorted, non-empty; the stream lists the decoy first on the tie
example : ∀ f ∈ [[(⟨0, 0, [7], true, 5⟩ : Row)]] ++ [[⟨1, 1, [7], false, 5⟩, ⟨2, 2, [8], false, 3⟩]], SortedRows f := by
  intro f hf
  simp only [List.cons_append, List.nil_append, List.mem_cons, List.not_mem_nil, or_false] at hf
  rcases hf with rfl | rfl <;> simp [SortedRows]
#guard (toolStream [[⟨0, 0, [7], true, 5⟩]] [[⟨1, 1, [7], false, 5⟩, ⟨2, 2, [8], false, 3⟩]]).map
    (fun r => (r.1.map Row.id, r.2)) == some ([1, 0, 2], false)
-- an unsorted file makes the tool raise
#guard rollupToolFiles 1 [[⟨0, 0, [7], true, 1⟩, ⟨1, 1, [7], true, 5⟩]] [[⟨2, 2, [8], false, 3⟩]] == none
-- ensemble = mean of both models, whatever the chunk size
#guard predictEnsemble 1 [0, 1, 2] 2 (fun f r => (f * 10 + r : Nat)) == [5, 6, 7]
#guard predictEnsemble 5 [0, 1, 2] 2 (fun f r => (f * 10 + r : Nat)) == [5, 6, 7]
-- models handed over as folds 3, 1, 2 are used as 1, 2, 3
#guard (sortByFold [(3, "c"), (1, "a"), (2, "b")]).map (·.2) == ["a", "b", "c"]

end Mk.TdcX
