import MokapotVerif.Lemmas.PepsTool
import MokapotVerif.Props.C06File
/-!
# C06 (second extension) — the other producers of a `posterior_error_prob` column

Property theorems only (definitions: `Model/PepsTool.lean`; gap analysis: `GAPS-C06.md`, second pass).

* the result files of the roll-up tool (`brew_rollup`): every row of a level is written once, to
  the file of its label, in level order, with the q-value and the PEP of its own position — the same
  files as `assign_confidence`'s level loop writes for the same rows and estimators, for every
  chunk size; unlike that loop the tool does not catch an exit of the PEP estimator.
* the columns of the result files of `assign_confidence`: for every list of extra roll-up level
  columns, and for the protein level, the cells of a data row are written in the order of the
  header line, so the PEP stands under `posterior_error_prob`, the q-value under `q-value`, the
  score under `score`.
-/
namespace Mk
open Peps

/-! ## roll-up tool -/

/-- **the files of a level of the roll-up tool**: when the estimators return one value per row, the
targets file holds exactly the target rows of the level in level order, each with the q-value and the
PEP of its own position, the decoys file the decoy rows likewise. -/
theorem C06_rollup_level_files_spec (Q : List Psm → List Rat) (P : List Psm → PepCall) (rows : List LRow)
    (peps : List Rat) (hQ : (Q (levelPsms rows)).length = rows.length)
    (hP : P (levelPsms rows) = PepCall.ok peps) (hlen : peps.length = rows.length) :
    rollupLevelFiles Q P rows
      = .ok (fileSpec true rows (Q (levelPsms rows)) peps, fileSpec false rows (Q (levelPsms rows)) peps) := by
  unfold rollupLevelFiles
  rw [hP]
  simp only [rollupPeps, Except.bind]
  exact rollupWrite_level rows _ peps hQ hlen

/-- **the tool and `assign_confidence` write the same files**: for the same level rows and the same
estimators (higher-is-better scores, decoys kept, no `peps_error`), for every chunk size `c ≥ 1` of
the chunked writer. -/
theorem C06_rollup_same_as_confidence_level (c : Nat) (hc : 1 ≤ c) (Q : List Psm → List Rat)
    (P : List Psm → PepCall) (rows : List LRow) (peps : List Rat)
    (hQ : (Q (levelPsms rows)).length = rows.length)
    (hP : P (levelPsms rows) = PepCall.ok peps) (hlen : peps.length = rows.length) :
    ∃ t d, rollupLevelFiles Q P rows = .ok (t, d) ∧ levelFiles c true true false Q P rows = .ok (t, some d) := by
  refine ⟨_, _, C06_rollup_level_files_spec Q P rows peps hQ hP hlen, ?_⟩
  have hs : signedPsms true rows = levelPsms rows := by
    simp [signedPsms, levelPsms, signOf]
  have := C06_level_files_spec c hc true true false Q P rows peps hQ (by rw [hs]; exact hP) hlen (by simp)
  simpa using this

/-- **the PEP column of the tool's files is aligned with its row**: if the estimator returns `F` of each
score, every row of either file carries `F` of its own score and is a row of the level with that label. -/
theorem C06_rollup_pep_of_own_score (Q : List Psm → List Rat) (F : Rat → Rat) (rows : List LRow)
    (hQ : (Q (levelPsms rows)).length = rows.length) :
    ∃ t d, rollupLevelFiles Q (fun xs => PepCall.ok (xs.map (fun x => F x.1))) rows = .ok (t, d) ∧
      (∀ o ∈ t, o.pep = F o.score ∧ ∃ r ∈ rows, r.target = true ∧ r.id = o.id ∧ r.score = o.score) ∧
      (∀ o ∈ d, o.pep = F o.score ∧ ∃ r ∈ rows, r.target = false ∧ r.id = o.id ∧ r.score = o.score) := by
  have hs : levelPsms rows = signedPsms true rows := by
    simp [signedPsms, levelPsms, signOf]
  refine ⟨_, _, C06_rollup_level_files_spec Q _ rows _ hQ rfl (by simp [levelPsms]), ?_, ?_⟩
  · intro o ho
    rw [hs] at ho
    have := C06_result_file_pep_of_own_score true true F rows _ o ho
    simpa [signOf] using this
  · intro o ho
    rw [hs] at ho
    have := C06_result_file_pep_of_own_score false true F rows _ o ho
    simpa [signOf] using this

/-- **each row is written once**: the identifiers of the two files together are those of the level -/
theorem C06_rollup_files_partition (Q : List Psm → List Rat) (P : List Psm → PepCall) (rows : List LRow)
    (peps : List Rat) (hQ : (Q (levelPsms rows)).length = rows.length)
    (hP : P (levelPsms rows) = PepCall.ok peps) (hlen : peps.length = rows.length) :
    ∃ t d, rollupLevelFiles Q P rows = .ok (t, d) ∧ ((t ++ d).map (·.id)).Perm (rows.map (·.id)) :=
  ⟨_, _, C06_rollup_level_files_spec Q P rows peps hQ hP hlen,
    (C06_result_files_partition rows _ peps hQ hlen).1⟩

/-- the tool has no fall-back: an exit of the PEP estimator (also the "no decoy hits" one that
`assign_confidence` turns into PEP 0) or an exception ends it; values of another length than the level
are refused by pandas. -/
theorem C06_rollup_failures (Q : List Psm → List Rat) (P : List Psm → PepCall) (rows : List LRow) :
    (P (levelPsms rows) = PepCall.exitNoDecoys → rollupLevelFiles Q P rows = .error "SystemExit") ∧
    (P (levelPsms rows) = PepCall.exitOther → rollupLevelFiles Q P rows = .error "SystemExit") ∧
    (P (levelPsms rows) = PepCall.raised → rollupLevelFiles Q P rows = .error "raised") ∧
    (∀ peps, P (levelPsms rows) = PepCall.ok peps →
      (rollupLevelFiles Q P rows = .error writeError ↔
        ¬ ((Q (levelPsms rows)).length = rows.length ∧ peps.length = rows.length))) := by
  refine ⟨?_, ?_, ?_, ?_⟩
  · intro h; unfold rollupLevelFiles; rw [h]; rfl
  · intro h; unfold rollupLevelFiles; rw [h]; rfl
  · intro h; unfold rollupLevelFiles; rw [h]; rfl
  · intro peps h
    unfold rollupLevelFiles
    rw [h]
    simp only [rollupPeps, Except.bind]
    exact rollupWrite_error_iff rows _ peps

/-! ## columns of the result files of assign_confidence -/

/-- **header and data rows agree, every level but the protein level**: for every list `extras` of
extra level columns (any number, any names other than the fixed ones) the names under which
`write_confidences` writes the cells of a row, with `q_value` read as `q-value`, are the header line —
position by position. -/
theorem C06_result_file_columns_aligned (level target : Col) (extras : List Col)
    (hlv : level ≠ lvProteins)
    (ht : target ∉ [cPSMId, cPeptide, cProteinIds, cScore]) (hte : target ∉ extras)
    (hpe : cProteinIds ∉ extras) (hqe : cQData ∉ extras) :
    (dataCols level target (levelFileCols target extras)).map headerName = headerCols extras := by
  have h1 : target ≠ cPSMId := fun e => ht (by simp [e])
  have h2 : target ≠ cPeptide := fun e => ht (by simp [e])
  have h3 : target ≠ cProteinIds := fun e => ht (by simp [e])
  have h4 : target ≠ cScore := fun e => ht (by simp [e])
  have hf : (levelFileCols target extras).filter (fun c => !decide (c = target))
      = [cPSMId, cPeptide] ++ extras ++ [cProteinIds, cScore] := by
    unfold levelFileCols
    simp only [List.filter_append, filter_ne_self target extras hte]
    simp [h1.symm, h2.symm, h3.symm, h4.symm]
  unfold dataCols
  rw [if_neg hlv, hf]
  have he : ([cPSMId, cPeptide] ++ extras ++ [cProteinIds, cScore] ++ [cQData, cPep]).erase cProteinIds
      = [cPSMId, cPeptide] ++ extras ++ [cScore, cQData, cPep] := by
    have hn : cProteinIds ∉ [cPSMId, cPeptide] ++ extras := by
      intro hm
      rcases List.mem_append.mp hm with hm | hm
      · revert hm; decide
      · exact hpe hm
    rw [List.append_assoc ([cPSMId, cPeptide] ++ extras), List.erase_append_right _ hn]
    rfl
  rw [he]
  unfold headerCols
  have m1 : List.map headerName [cPSMId, cPeptide] = [cPSMId, cPeptide] := by decide
  have m2 : List.map headerName [cScore, cQData, cPep] = [cScore, cQHeader, cPep] := by decide
  have m3 : List.map headerName [cProteinIds] = [cProteinIds] := by decide
  simp only [List.map_append, map_headerName_self extras hqe, m1, m2, m3]
  simp

/-- … and the protein level (columns of `picked_protein`'s table) -/
theorem C06_result_file_columns_aligned_proteins (target : Col)
    (ht : target ∉ [cGroup, cBest, cStripped, cScore]) :
    (dataCols lvProteins target (proteinFileCols target)).map headerName = headerColsProteins := by
  have h1 : target ≠ cGroup := fun e => ht (by simp [e])
  have h2 : target ≠ cBest := fun e => ht (by simp [e])
  have h3 : target ≠ cStripped := fun e => ht (by simp [e])
  have h4 : target ≠ cScore := fun e => ht (by simp [e])
  unfold dataCols proteinFileCols
  rw [if_pos rfl]
  simp [h1.symm, h2.symm, h3.symm, h4.symm]
  decide

/-- **so the PEP of a row stands under `posterior_error_prob`** (and the score under `score`, the q-value
under `q-value`): the three columns have the same position in the header and in the data rows. -/
theorem C06_result_file_pep_column_position (level target : Col) (extras : List Col)
    (hlv : level ≠ lvProteins)
    (ht : target ∉ [cPSMId, cPeptide, cProteinIds, cScore]) (hte : target ∉ extras)
    (hpe : cProteinIds ∉ extras) (hqe : cQData ∉ extras)
    (hfix : ∀ c ∈ [cScore, cQHeader, cPep], c ∉ extras) :
    colIndex cPep ((dataCols level target (levelFileCols target extras)).map headerName)
      = some (extras.length + 4) ∧
    colIndex cPep (headerCols extras) = some (extras.length + 4) ∧
    colIndex cQHeader (headerCols extras) = some (extras.length + 3) ∧
    colIndex cScore (headerCols extras) = some (extras.length + 2) := by
  rw [C06_result_file_columns_aligned level target extras hlv ht hte hpe hqe]
  have hidx : ∀ c ∈ [cScore, cQHeader, cPep], c ≠ cPSMId ∧ c ≠ cPeptide := by decide
  have key : ∀ c ∈ [cScore, cQHeader, cPep],
      colIndex c (headerCols extras) = (colIndex c [cScore, cQHeader, cPep, cProteinIds]).map (· + (extras.length + 2)) := by
    intro c hc
    have hn : c ∉ [cPSMId, cPeptide] ++ extras := by
      intro hm
      rcases List.mem_append.mp hm with hm | hm
      · have := hidx c hc
        simp at hm
        rcases hm with hm | hm
        · exact this.1 hm
        · exact this.2 hm
      · exact hfix c hc hm
    have hl : ([cPSMId, cPeptide] ++ extras).length = extras.length + 2 := by
      simp only [List.length_append, List.length_cons, List.length_nil]
      omega
    unfold headerCols
    rw [colIndex_append_right c _ _ hn, hl]
  have v1 : colIndex cPep [cScore, cQHeader, cPep, cProteinIds] = some 2 := by decide
  have v2 : colIndex cQHeader [cScore, cQHeader, cPep, cProteinIds] = some 1 := by decide
  have v3 : colIndex cScore [cScore, cQHeader, cPep, cProteinIds] = some 0 := by decide
  refine ⟨?_, ?_, ?_, ?_⟩
  · rw [key cPep (by simp), v1]; simp only [Option.map_some, Option.some.injEq]; omega
  · rw [key cPep (by simp), v1]; simp only [Option.map_some, Option.some.injEq]; omega
  · rw [key cQHeader (by simp), v2]; simp only [Option.map_some, Option.some.injEq]; omega
  · rw [key cScore (by simp), v3]; simp only [Option.map_some, Option.some.injEq]; omega

/-! ## Non-vacuity and evaluation tests -/

/-- a level of the tool on which the estimators answer row by row -/
example : rollupLevelFiles (fun xs => xs.map (fun _ => 0)) (fun xs => PepCall.ok (xs.map (fun x => clip 0 1 (1 - x.1 / 4))))
      [⟨7, 3, true⟩, ⟨8, 2, false⟩, ⟨9, 1, true⟩]
    = .ok ([⟨7, 3, 0, 1/4⟩, ⟨9, 1, 0, 3/4⟩], [⟨8, 2, 0, 1/2⟩]) := by
  decide +kernel

/-- the hypotheses of the column theorems hold for the names the code uses: label column `Label`,
extra levels `ModifiedPeptide`, `Precursor`, `PeptideGroup` -/
example : ("Label".toList : Col) ∉ [cPSMId, cPeptide, cProteinIds, cScore] ∧
    ("Label".toList : Col) ∉ ["ModifiedPeptide".toList, "Precursor".toList, "PeptideGroup".toList] ∧
    cProteinIds ∉ ["ModifiedPeptide".toList, "Precursor".toList, "PeptideGroup".toList] ∧
    cQData ∉ ["ModifiedPeptide".toList, "Precursor".toList, "PeptideGroup".toList] ∧
    (∀ c ∈ [cScore, cQHeader, cPep], c ∉ ["ModifiedPeptide".toList, "Precursor".toList, "PeptideGroup".toList]) ∧
    ("peptides".toList : Col) ≠ lvProteins := by
  decide

-- evaluation tests (compiler-evaluated: *tests*, not theorems)
#guard (dataCols "psms".toList "Label".toList (levelFileCols "Label".toList ["Precursor".toList])).map String.ofList
    == ["PSMId", "peptide", "Precursor", "score", "q_value", "posterior_error_prob", "proteinIds"]
#guard (headerCols ["Precursor".toList]).map String.ofList
    == ["PSMId", "peptide", "Precursor", "score", "q-value", "posterior_error_prob", "proteinIds"]
#guard (dataCols lvProteins "Label".toList (proteinFileCols "Label".toList)).map String.ofList
    == ["mokapot protein group", "best peptide", "stripped sequence", "score", "q_value", "posterior_error_prob"]
#guard colIndex cPep (headerCols []) == some 4
-- values of another length than the level: pandas refuses the column assignment
#guard (match rollupLevelFiles (fun _ => [0]) (fun _ => PepCall.ok [1/2, 1/2]) [⟨7, 3, true⟩, ⟨8, 2, false⟩] with
        | .error e => e == writeError
        | .ok _ => false)

end Mk
