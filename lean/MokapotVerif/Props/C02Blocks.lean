import MokapotVerif.Props.C02Multi
import MokapotVerif.Lemmas.BrewBlocks
/-!
# C02 — Cross-validation integrity on the block-wise code paths (second extension)

* the inner block loop of `make_train_sets` for every block size (`C02_make_train_sets_any_block`);
* `_predict` with the reader's chunk iterator and `utils.create_chunks` as two separate
  chunkers: for *any* chunking by the reader the call either raises or returns the
  specified scores (`C02_predict_two_sound`), it goes through exactly when the chunk lengths
  agree (`C02_predict_two_ok_iff`), and it does for the chunk sizes the code uses
  (`C02_predict_two_same_size`);
* the end-to-end statement on the spectrum **key tuples** (`C02_brew_multi_heldout_keys`);
* the list-of-models entry for models without a fold number (`C02_pretrained_opt_*`);
* non-vacuity examples for the theorems of `Props/C02.lean` that had none.
-/
namespace Mk.Brew

/-! ## `make_train_sets`: the block loop -/

/-- whatever the block size `chunk_range` of the inner loop (brew.py:334-346) — in particular
when a file is longer than one block, so that the loop body runs —, `make_train_sets` returns
what it returns with a single block.  All statements about `makeTrainSets`
(`C02_make_train_sets`, `C02_cap_total`, `C02_make_train_sets_ok_iff`) therefore hold for every
block size. -/
theorem C02_make_train_sets_any_block (cr : Nat) (testIdx : List (List (List Nat))) (cap : Option Nat)
    (dataSize : List Nat) (enum : Nat → Nat → List Nat → List Nat) (draw : Nat → Nat → Nat → List Nat) :
    makeTrainSetsCr cr testIdx cap dataSize enum draw = makeTrainSets testIdx cap dataSize enum draw :=
  makeTrainSetsCr_eq cr testIdx cap dataSize enum draw

/-- in particular, block by block, the training indices of a file are exactly the rows outside
the held-out fold, for every block size and every fuel ≥ 0 -/
theorem C02_train_file_any_block (cr ds : Nat) (fold : List Nat) :
    trainFileCr cr ds fold = complement ds fold := by
  rw [trainFileCr_eq, trainFile_eq]

/-- the statement of `C02_make_train_sets` for an arbitrary block size: per fold and file the
training indices have no duplicates and lie in the file outside that file's held-out fold -/
theorem C02_make_train_sets_block_disjoint (cr : Nat) (testIdx : List (List (List Nat))) (cap : Option Nat)
    (dataSize : List Nat) (enum : Nat → Nat → List Nat → List Nat) (draw : Nat → Nat → Nat → List Nat)
    (henum : ∀ f k l, (enum f k l).Perm l) (hdraw : DrawsValid cap dataSize.length draw)
    (folds : Nat) (hne : testIdx ≠ []) (hfolds : ∀ fs ∈ testIdx, fs.length = folds)
    (trains : List (List (List Nat)))
    (h : makeTrainSetsCr cr testIdx cap dataSize enum draw = some trains) :
    trains.length = folds ∧
    ∀ f, f < folds → ∀ k, k < dataSize.length →
      ((trains.getD f []).getD k []).Nodup ∧
      ∀ i ∈ (trains.getD f []).getD k [], i < dataSize.getD k 0 ∧ i ∉ heldOut testIdx k f := by
  rw [C02_make_train_sets_any_block] at h
  obtain ⟨h1, h2⟩ := C02_make_train_sets testIdx cap dataSize enum draw henum hdraw folds hne hfolds trains h
  refine ⟨h1, ?_⟩
  intro f hf k hk
  obtain ⟨_, h3⟩ := h2 f hf
  obtain ⟨hnd, hmem, _⟩ := h3 k hk
  exact ⟨hnd, hmem⟩

/-! ## `_predict`: two chunkers -/

/-- **Soundness for any reader.**  Let the reader deliver the rows of the file (each with its row
label) in consecutive chunks of *any* sizes, and let `create_chunks` cut the routing vector in
chunks of `c ≥ 1`.  If `_predict` does not raise, every row got its own routing entry and the
returned scores are the specified ones: row `p` is scored by the model of `routing[p]`,
calibrated with that fold's rows only.  A disagreement between the two chunkers can therefore
only surface as an exception, never as a PSM scored by another fold's model. -/
theorem C02_predict_two_sound {ρ σ : Type} [Inhabited σ] (readerChunks : List (List (Nat × ρ)))
    (c : Nat) (hc : 0 < c) (nfolds : Nat) (rows : List ρ) (routing : List Nat)
    (hread : readerChunks.flatten = indexed rows)
    (hlen : routing.length = rows.length) (hr : ∀ f ∈ routing, f < nfolds)
    (score : Nat → ρ → σ) (target : ρ → Bool) (cal : List (σ × Bool) → σ → σ) (out : List σ)
    (h : predictTwo readerChunks c nfolds routing score target cal = some out) :
    out = predictSpec rows routing score target cal := by
  unfold predictTwo at h
  simp only [Option.map_eq_some_iff] at h
  obtain ⟨chs, hchs, rfl⟩ := h
  have hflat : chs.flatten = tagged rows routing := by
    rw [pairChunks_flatten _ _ chs hchs, hread]
    unfold routingChunks
    rw [chunks_flatten c hc]
    rfl
  have hn : (chs.map List.length).sum = rows.length := by
    rw [sum_lengths_flatten, hflat]
    unfold tagged
    simp [hlen]
  rw [hn, ← C02_predict_eq_spec c hc nfolds rows routing hlen hr score target cal,
    predict_eq_predictChunks]
  apply predictChunks_congr
  rw [hflat, chunks_flatten c hc]

/-- `_predict` goes through exactly when the reader's chunk lengths are an initial segment of the
lengths `create_chunks` produces (otherwise: `ValueError` of the column assignment, or
`IndexError` of `pop(0)` when the reader yields more chunks) -/
theorem C02_predict_two_ok_iff {ρ σ : Type} [Inhabited σ] (readerChunks : List (List (Nat × ρ)))
    (c nfolds : Nat) (routing : List Nat)
    (score : Nat → ρ → σ) (target : ρ → Bool) (cal : List (σ × Bool) → σ → σ) :
    (predictTwo readerChunks c nfolds routing score target cal).isSome ↔
      readerChunks.map List.length <+: (routingChunks c routing).map List.length := by
  unfold predictTwo
  rw [Option.isSome_map]
  exact pairChunks_isSome_iff _ _

/-- with the chunk size the code hands to both (`CHUNK_SIZE_ROWS_PREDICTION`, any value `c ≥ 1`)
and a reader that cuts every `c` rows, `_predict` succeeds and returns the specified scores -/
theorem C02_predict_two_same_size {ρ σ : Type} [Inhabited σ] (c : Nat) (hc : 0 < c) (nfolds : Nat)
    (rows : List ρ) (routing : List Nat) (hlen : routing.length = rows.length)
    (hr : ∀ f ∈ routing, f < nfolds)
    (score : Nat → ρ → σ) (target : ρ → Bool) (cal : List (σ × Bool) → σ → σ) :
    predictTwo (chunks c (indexed rows)) c nfolds routing score target cal =
      some (predictSpec rows routing score target cal) := by
  have hsome : (predictTwo (chunks c (indexed rows)) c nfolds routing score target cal).isSome := by
    rw [C02_predict_two_ok_iff]
    unfold routingChunks
    rw [chunks_lengths c (indexed rows) routing (by rw [indexed_length, hlen])]
    exact List.prefix_refl _
  obtain ⟨out, hout⟩ := Option.isSome_iff_exists.mp hsome
  rw [hout, C02_predict_two_sound (chunks c (indexed rows)) c hc nfolds rows routing
    (chunks_flatten c hc _) hlen hr score target cal out hout]

/-- … and it equals the one-chunker model `predict` of `Model/Brew.lean` -/
theorem C02_predict_two_eq_predict {ρ σ : Type} [Inhabited σ] (c : Nat) (hc : 0 < c) (nfolds : Nat)
    (rows : List ρ) (routing : List Nat) (hlen : routing.length = rows.length)
    (hr : ∀ f ∈ routing, f < nfolds)
    (score : Nat → ρ → σ) (target : ρ → Bool) (cal : List (σ × Bool) → σ → σ) :
    predictTwo (chunks c (indexed rows)) c nfolds routing score target cal =
      some (predict c nfolds rows routing score target cal) := by
  rw [C02_predict_two_same_size c hc nfolds rows routing hlen hr,
    C02_predict_eq_spec c hc nfolds rows routing hlen hr]

/-! ## end to end on the spectrum key tuples -/

theorem getD_map_nil {β γ : Type} (g : β → γ) (l : List (List β)) (k : Nat) :
    (l.map (fun ks => ks.map g)).getD k [] = (l.getD k []).map g := by
  simp only [List.getD_eq_getElem?_getD, List.getElem?_map]
  cases l[k]? <;> rfl

/-- **End to end in terms of the spectrum keys** (any number of collections; every `argsort` tie
order, shuffle, set enumeration, `rng.choice` draw, chunk size, completion order, learner):
`keys[k][i]` is the tuple of spectrum-key columns of row `i` of collection `k`, hashed as in
dataset.py:653-661.  If `brew` returns `(models, scores)` there are held-out folds and training
sets such that
(K1) rows of a collection with the same spectrum key are in the same held-out fold;
(K2) no training row of fold `f` in collection `k` has the spectrum key of a row held out in
     fold `f` of that collection (in particular it is not that row);
(K3) `models[f]` is the learner applied to the table of those training rows, and the score of a
     row is the (calibrated) output of the model of the one fold that holds it out. -/
theorem C02_brew_multi_heldout_keys {κ ρ σ μ : Type} [Inhabited σ] [Inhabited μ]
    (cRead cPred folds : Nat) (hcr : 0 < cRead) (hcp : 0 < cPred) (hf : 1 ≤ folds)
    (files : List (List ρ)) (hK : 0 < files.length)
    (hfun : List κ → Nat) (keys : List (List (List κ))) (sorteds : List (List (Nat × Nat)))
    (hkl : keys.length = files.length) (hsl : sorteds.length = files.length)
    (hlen : ∀ k, k < files.length → (keys.getD k []).length = (files.getD k []).length)
    (hdata : ∀ k, k < files.length →
      IsArgsort ((keys.getD k []).map (spectrumHash hfun)) (sorteds.getD k []))
    (shuffle : Nat → List (List Nat) → List (List Nat))
    (hshuf : ∀ k fs, List.Forall₂ List.Perm fs (shuffle k fs))
    (cap : Option Nat) (enum : Nat → Nat → List Nat → List Nat)
    (henum : ∀ f k l, (enum f k l).Perm l)
    (draw : Nat → Nat → Nat → List Nat) (hdraw : DrawsValid cap files.length draw)
    (sched : Nat → Nat → List (List (Nat × ρ)) → List (List (Nat × ρ)))
    (hsched : ∀ f k, SchedValid (sched f k))
    (ret : List (Nat × μ) → List (Nat × μ)) (hret : ∀ l, (ret l).Perm l)
    (learner : List (Option ρ) → μ) (apply : μ → ρ → σ) (target : ρ → Bool)
    (cal : List (σ × Bool) → σ → σ) (models : List (Nat × μ)) (scores : List (List σ))
    (hrun : brewRun cRead cPred folds files sorteds shuffle cap enum draw sched ret learner apply
      target cal = some (models, scores)) :
    ∃ (testIdx : List (List (List Nat))) (trains : List (List (List Nat))),
      (∀ k, k < files.length → ∀ i j, i < (files.getD k []).length → j < (files.getD k []).length →
        (keys.getD k [])[i]? = (keys.getD k [])[j]? →
        ∀ f, (i ∈ heldOut testIdx k f ↔ j ∈ heldOut testIdx k f)) ∧
      (∀ f, f < folds → ∀ k, k < files.length → ∀ i ∈ (trains.getD f []).getD k [],
        i ∉ heldOut testIdx k f ∧
        ∀ p ∈ heldOut testIdx k f, (keys.getD k [])[i]? ≠ (keys.getD k [])[p]?) ∧
      (∀ f, f < folds → models[f]? = some (f + 1, learner (trainTable files (trains.getD f [])))) ∧
      scores = predictAllSpec files (routeAll testIdx files) (modelScore apply models) target cal ∧
      (∀ k, k < files.length → ∀ p, p < (files.getD k []).length → ∀ f, f < folds →
        (((routeAll testIdx files).getD k [])[p]? = some f ↔ p ∈ heldOut testIdx k f)) := by
  obtain ⟨testIdx, trains, ⟨_, _, hA⟩, ⟨_, hB⟩, hC, hD1, hD2⟩ :=
    C02_brew_multi_heldout cRead cPred folds hcr hcp hf files hK
      (keys.map (fun ks => ks.map (spectrumHash hfun))) sorteds (by rw [List.length_map, hkl]) hsl
      (by intro k hk; rw [getD_map_nil, List.length_map]; exact hlen k hk)
      (by intro k hk; rw [getD_map_nil]; exact hdata k hk)
      shuffle hshuf cap enum henum draw hdraw sched hsched ret hret learner apply target cal
      models scores hrun
  refine ⟨testIdx, trains, ?_, ?_, hB, hD1, hD2⟩
  · intro k hk i j hi hj hij f
    refine (hA k hk).2.2 i j hi hj ?_ f
    rw [getD_map_nil, List.getElem?_map, List.getElem?_map, hij]
  · intro f hf' k hk i hi
    obtain ⟨_, hmem, _, _⟩ := hC f hf' k hk
    obtain ⟨_, hnot, hhash⟩ := hmem i hi
    refine ⟨hnot, ?_⟩
    intro p hp heq
    apply hhash p hp
    rw [getD_map_nil, List.getElem?_map, List.getElem?_map, heq]

/-! ## trained models given, fold number possibly absent -/

/-- models that all carry a fold number: the entry behaves as `pretrained` -/
theorem C02_pretrained_opt_all_some {μ : Type} (ms : List (Nat × μ × Bool)) (folds : Nat) :
    pretrainedOpt (ms.map (fun m => (some m.1, m.2.1, m.2.2))) folds = pretrained ms folds :=
  pretrainedOpt_all_some ms folds

/-- the list is accepted exactly when it has `folds` entries, all trained, and (two or more
entries) every one carries a fold number; it is then used sorted by fold number -/
theorem C02_pretrained_opt_ok_iff {μ : Type} (ms : List (Option Nat × μ × Bool)) (folds : Nat)
    (r : List (Nat × μ)) :
    pretrainedOpt ms folds = .ok r ↔
      ms.length = folds ∧ (∀ m ∈ ms, m.2.2 = true) ∧
      (ms.length < 2 ∨ ∀ m ∈ ms, m.1.isSome = true) ∧
      r = sortByFold (ms.map (fun m => (m.1.getD 0, m.2.1))) := by
  unfold pretrainedOpt
  by_cases h1 : ms.length = folds
  · rw [if_neg (by simpa using h1)]
    by_cases h2 : ms.all (fun m => m.2.2) = true
    · rw [if_pos h2]
      rw [List.all_eq_true] at h2
      by_cases h3 : foldsComparable (ms.map (fun m => m.1)) = true
      · rw [if_pos h3]
        have h3' : ms.length < 2 ∨ ∀ m ∈ ms, m.1.isSome = true := by
          unfold foldsComparable at h3
          simp only [List.length_map, Bool.or_eq_true, decide_eq_true_eq, List.all_map,
            List.all_eq_true] at h3
          exact h3
        constructor
        · intro h
          injection h with h
          exact ⟨h1, h2, h3', h.symm⟩
        · rintro ⟨_, _, _, rfl⟩
          rfl
      · rw [if_neg h3]
        constructor
        · intro h; injection h
        · rintro ⟨_, _, h, _⟩
          exfalso
          apply h3
          unfold foldsComparable
          simp only [List.length_map, Bool.or_eq_true, decide_eq_true_eq, List.all_map,
            List.all_eq_true]
          exact h
    · rw [if_neg h2]
      rw [List.all_eq_true] at h2
      constructor
      · intro h; injection h
      · rintro ⟨_, h, _⟩
        exact absurd h h2
  · rw [if_pos (by simpa using h1)]
    constructor
    · intro h; injection h
    · rintro ⟨h, _⟩
      exact absurd h h1

/-- `TypeError` exactly for `folds ≥ 2` trained models of the right number one of which has no
fold number (a model fitted outside `brew`) — the entry refuses, it never routes by position -/
theorem C02_pretrained_opt_type_error_iff {μ : Type} (ms : List (Option Nat × μ × Bool)) (folds : Nat) :
    pretrainedOpt ms folds = .error "TypeError" ↔
      ms.length = folds ∧ (∀ m ∈ ms, m.2.2 = true) ∧ 2 ≤ ms.length ∧ ∃ m ∈ ms, m.1 = none := by
  unfold pretrainedOpt
  by_cases h1 : ms.length = folds
  · rw [if_neg (by simpa using h1)]
    by_cases h2 : ms.all (fun m => m.2.2) = true
    · rw [if_pos h2]
      rw [List.all_eq_true] at h2
      by_cases h3 : foldsComparable (ms.map (fun m => m.1)) = true
      · rw [if_pos h3]
        unfold foldsComparable at h3
        simp only [List.length_map, Bool.or_eq_true, decide_eq_true_eq, List.all_map,
          List.all_eq_true] at h3
        constructor
        · intro h; injection h
        · rintro ⟨_, _, h4, m, hm, hnone⟩
          exfalso
          rcases h3 with h3 | h3
          · omega
          · have := h3 m hm
            simp [hnone] at this
      · rw [if_neg h3]
        unfold foldsComparable at h3
        simp only [List.length_map, Bool.or_eq_true, decide_eq_true_eq, List.all_map,
          List.all_eq_true, not_or, Nat.not_lt] at h3
        obtain ⟨h4, h5⟩ := h3
        constructor
        · intro _
          refine ⟨h1, h2, h4, ?_⟩
          by_contra hcon
          apply h5
          intro m hm
          cases hm1 : m.1 with
          | none => exact absurd ⟨m, hm, hm1⟩ hcon
          | some v => simp [hm1]
        · intro _; rfl
    · rw [if_neg h2]
      rw [List.all_eq_true] at h2
      constructor
      · intro h
        injection h with h
        exact absurd h (by decide)
      · rintro ⟨_, h, _⟩
        exact absurd h h2
  · rw [if_pos (by simpa using h1)]
    constructor
    · intro h
      injection h with h
      exact absurd h (by decide)
    · rintro ⟨h, _⟩
      exact absurd h h1

/-! ## Non-vacuity -/

section NonVacuity
open Mk.Brew.Ex

/-- a file of 7 rows, held-out fold `[3, 1, 4]`, blocks of 2 rows: three full blocks and a rest -/
example : trainFileCr 2 7 [3, 1, 4] = [0, 2, 5, 6] := by decide

example : makeTrainSetsCr 2 [[[1, 3], [2, 0]], [[2, 4, 1], [5, 3, 0]]] (some 4) [4, 6] enum (draw (some 4) 2)
    = makeTrainSets [[[1, 3], [2, 0]], [[2, 4, 1], [5, 3, 0]]] (some 4) [4, 6] enum (draw (some 4) 2) :=
  C02_make_train_sets_any_block 2 _ _ _ _ _

example : ([[[0, 2], [3, 5]], [[1, 3], [2, 4]]] : List (List (List Nat))).length = 2 :=
  (C02_make_train_sets_block_disjoint 3 [[[1, 3], [2, 0]], [[2, 4, 1], [5, 3, 0]]] (some 4) [4, 6] enum
    (draw (some 4) 2) enum_valid (draw_valid (some 4) 2) 2 (by decide) (by decide) _ (by decide)).1

/-- five rows read in chunks of 2 by the reader *and* by `create_chunks`: the last chunk lacks fold 0 -/
example : predictTwo (chunks 2 (indexed ["a", "b", "c", "d", "e"])) 2 2 [1, 0, 1, 0, 1]
      (fun f r => s!"{f}{r}") (fun r => r != "c") (fun l s => s!"{s}|{l.length}") =
    some (predictSpec ["a", "b", "c", "d", "e"] [1, 0, 1, 0, 1] (fun f r => s!"{f}{r}")
      (fun r => r != "c") (fun l s => s!"{s}|{l.length}")) :=
  C02_predict_two_same_size 2 (by decide) 2 ["a", "b", "c", "d", "e"] [1, 0, 1, 0, 1] rfl (by decide) _ _ _

/-- a reader that cuts after 2, 2, 1 rows while `create_chunks` cuts every 2: same lengths, accepted;
a reader that cuts after 3 and 2 rows is refused -/
example : (predictTwo (cutBy [2, 2, 1] (indexed [10, 20, 30, 40, 50])) 2 2 [1, 0, 1, 0, 1]
    (fun f r => f * 100 + r) (fun _ => true) (fun _ s => s)).isSome = true := by decide
example : predictTwo (cutBy [3, 2] (indexed [10, 20, 30, 40, 50])) 2 2 [1, 0, 1, 0, 1]
    (fun f r => f * 100 + r) (fun _ => true) (fun _ s => s) = none := by decide

/-- soundness instantiated with a reader whose chunking is not `chunks c`: lengths 3, 3 against
`create_chunks` of 3 on six rows -/
example : ∀ out, predictTwo (cutBy [3, 3] (indexed [10, 20, 30, 40, 50, 60])) 3 2 [1, 0, 1, 0, 1, 1]
      (fun f r => f * 100 + r) (fun _ => true) (fun _ s => s) = some out →
    out = predictSpec [10, 20, 30, 40, 50, 60] [1, 0, 1, 0, 1, 1] (fun f r => f * 100 + r)
      (fun _ => true) (fun _ s => s) :=
  fun out h => C02_predict_two_sound _ 3 (by decide) 2 [10, 20, 30, 40, 50, 60] [1, 0, 1, 0, 1, 1]
    (by decide) rfl (by decide) _ _ _ out h

/-- the key-level end-to-end theorem on the run `Ex.ex_run`: keys of three columns, rows 1 and 3 of
collection 0 differ in the third column only -/
def exKeys : List (List (List Nat)) :=
  [[[3, 4, 0], [1, 4, 0], [3, 4, 0], [1, 4, 9]], [[1, 2], [0, 1], [1, 1], [1, 2], [1, 1], [2, 2]]]

example : ∃ (testIdx trains : List (List (List Nat))),
    ∀ f, f < 2 → ∀ k, k < files.length → ∀ i ∈ (trains.getD f []).getD k [],
      i ∉ heldOut testIdx k f ∧
      ∀ p ∈ heldOut testIdx k f, (exKeys.getD k [])[i]? ≠ (exKeys.getD k [])[p]? :=
  have h := C02_brew_multi_heldout_keys 2 3 2 (by decide) (by decide) (by decide) files (by decide)
    (fun k => k.sum) exKeys sorteds (by decide) (by decide)
    (by intro k hk
        have : k = 0 ∨ k = 1 := by simp [files] at hk; omega
        rcases this with rfl | rfl <;> decide)
    (by intro k hk
        have : k = 0 ∨ k = 1 := by simp [files] at hk; omega
        rcases this with rfl | rfl
        · exact ⟨by unfold SortedByHash; decide, by decide⟩
        · exact ⟨by unfold SortedByHash; decide, by decide⟩)
    shuffle shuffle_valid none enum enum_valid (draw none 2) (draw_valid none 2) sched sched_valid
    List.reverse List.reverse_perm learner apply (fun r => r % 2 == 0) cal _ _ ex_run
  let ⟨t, tr, _, h2, _⟩ := h
  ⟨t, tr, h2⟩

example : pretrainedOpt [(some 2, "b", true), (none, "a", true)] 2 = .error "TypeError" := by decide
example : pretrainedOpt [(none, "a", true)] 1 = .ok [(0, "a")] := by
  rw [C02_pretrained_opt_ok_iff]
  refine ⟨rfl, by decide, Or.inl (by decide), ?_⟩
  unfold sortByFold
  simp
example : pretrainedOpt [(some 2, "b", true), (none, "a", false)] 2 = .error "RuntimeError" := by decide
example : pretrainedOpt [(some 2, "b", true), (none, "a", true)] 3 = .error "ValueError" := by decide
example : (pretrainedOpt [(some 2, "b", true), (none, "a", true)] 2 = .error "TypeError") :=
  (C02_pretrained_opt_type_error_iff _ 2).mpr ⟨rfl, by decide, by decide, (none, "a", true), by decide, rfl⟩

/-! ### examples for theorems of `Props/C02.lean` that had none (GAPS-C02 G4-b) -/

/-- training indices enumerated in a non-increasing order -/
example : (∀ i ∈ [5, 0, 2], i ∉ [3, 1, 4] ∧ i < 6) ∧ [5, 0, 2].Nodup ∧
    (∀ i, i < 6 → i ∉ [3, 1, 4] → i ∈ [5, 0, 2]) :=
  C02_train_disjoint 6 [3, 1, 4] [5, 0, 2] (by decide)

/-- a sub-sample `[2, 5]` of the training indices -/
example : ∀ i ∈ [2, 5], i ∉ [3, 1, 4] ∧ i < 6 :=
  C02_train_subset_cap 6 [3, 1, 4] [5, 0, 2] [2, 5] (by decide) (by decide)

/-- hashes `[5, 3, 5, 1, 3, 9]` (rows 0, 2 and rows 1, 4 are one spectrum each), held-out fold `[3, 1, 4]` -/
example : ∀ i ∈ [2, 5], ∀ j ∈ [3, 1, 4], j < 6 →
    [5, 3, 5, 1, 3, 9].getD i 0 ≠ [5, 3, 5, 1, 3, 9].getD j 0 :=
  C02_train_no_shared_spectrum 6 (fun i => [5, 3, 5, 1, 3, 9].getD i 0) [3, 1, 4] [5, 0, 2] [2, 5]
    (fun i j hi hj => (by decide : ∀ i ∈ List.range 6, ∀ j ∈ List.range 6,
      [5, 3, 5, 1, 3, 9].getD i 0 = [5, 3, 5, 1, 3, 9].getD j 0 → (i ∈ [3, 1, 4] ↔ j ∈ [3, 1, 4]))
      i (List.mem_range.mpr hi) j (List.mem_range.mpr hj))
    (by decide) (by decide)

example : (route [[3, 1, 4], [0, 2, 5]] 6)[4]? = some 0 ↔ 4 ∈ [[3, 1, 4], [0, 2, 5]].getD 0 [] :=
  C02_route_eq [[3, 1, 4], [0, 2, 5]] 6 (by decide) 4 (by decide) 0 (by decide)

/-- both sides of `C02_split_ok_iff`: three hash groups / two folds succeed, one group fails -/
example : (splitWith [(1, 3), (3, 4), (3, 1), (5, 2), (5, 0), (9, 5)] 2).isSome = true :=
  (C02_split_ok_iff _ 2).mpr (by decide)
example : ¬ ∀ p ∈ splitPoints [(7, 0), (7, 1), (7, 2), (7, 3)].length 2,
    ∃ s ∈ groupStarts ([(7, 0), (7, 1), (7, 2), (7, 3)].map (·.1)), p ≤ s :=
  fun h => absurd ((C02_split_ok_iff [(7, 0), (7, 1), (7, 2), (7, 3)] 2).mpr h) (by decide)

/-- five rows read in chunks of 2, pieces reversed inside and appended last-first -/
example : reindex [[(4, "e")], [(3, "d")], [(0, "a")]].flatten [4, 0, 3] =
    [4, 0, 3].map (fun i => ["a", "b", "c", "d", "e"][i]?) :=
  C02_materialise_chunks 2 (by decide) ["a", "b", "c", "d", "e"] [4, 0, 3] (by decide) (by decide)
    [[(0, "a")], [(3, "d")], [(4, "e")]] [[(4, "e")], [(3, "d")], [(0, "a")]] (by decide) (by decide)

end NonVacuity

/-! ## Evaluation tests of the model -/

#guard trainFileCr 1 7 [3, 1, 4] == [0, 2, 5, 6]
#guard trainFileCr 3 7 [3, 1, 4] == [0, 2, 5, 6]
#guard trainFileCr 7 7 [3, 1, 4] == [0, 2, 5, 6]
#guard trainFileCr 0 7 [3, 1, 4] == [0, 2, 5, 6]
#guard trainFile 7 [3, 1, 4] == trainFileCr chunkRange 7 [3, 1, 4]
#guard (List.range 9).all (fun cr => makeTrainSetsCr cr [[[0, 1], [2, 3]], [[3, 4, 5], [0, 1, 2]]] (some 4) [4, 6]
    (fun _ _ l => l) (fun _ _ _ => [1, 0]) == some [[[3, 2], [1, 0]], [[1, 0], [4, 3]]])
#guard routingChunks 2 [1, 0, 1, 0, 1] == [[1, 0], [1, 0], [1]]
#guard cutBy [2, 2, 1] (indexed [10, 20, 30, 40, 50]) == [[(0, 10), (1, 20)], [(2, 30), (3, 40)], [(4, 50)]]
#guard pairChunks [[10, 20], [30]] [[1, 0], [1]] == some [[(10, 1), (20, 0)], [(30, 1)]]
#guard pairChunks [[10, 20], [30]] [[1, 0], [1], [0]] == some [[(10, 1), (20, 0)], [(30, 1)]]
#guard pairChunks [[10, 20], [30]] [[1, 0, 1]] == none
#guard pairChunks [[10, 20], [30]] [[1, 0]] == none
#guard predictTwo (chunks 2 (indexed [10, 20, 30, 40, 50])) 2 3 [2, 0, 2, 0, 2] (fun f r => f * 100 + r)
    (fun _ => true) (fun _ s => s) == some [210, 20, 230, 40, 250]
#guard (List.range 7).all (fun c => predictTwo (chunks (c + 1) (indexed [10, 20, 30, 40])) (c + 1) 3 [2, 0, 2, 0]
    (fun f r => f * 100 + r) (fun _ => true) (fun l s => s + (l.map (·.1)).sum * 1000)
    == some [440210, 60020, 440230, 60040])
#guard predictTwo (chunks 2 (indexed [10, 20, 30, 40, 50])) 3 3 [2, 0, 2, 0, 2] (fun f r => f * 100 + r)
    (fun _ => true) (fun _ s => s) == none

end Mk.Brew
