import MokapotVerif.Lemmas.DigestZero
/-!
# C17 (second extension) — enzyme rules written with look-around only (empty matches)

Property theorems only.  `_cleavage_sites` takes `m.end()` of *every* match of the
enzyme pattern, empty ones included, so trypsin/P may be given as `(?<=[KR])(?!P)`,
Asp-N as `(?=D)`, Lys-C as `(?<=K)`, "anywhere but before proline" as `(?!P)`, no
specificity at all as the empty pattern (`Model/DigestZero.lean`).

* `C17_digestZ_mem_iff_spec`: the digest is exactly `DigestSpecZ`, for every rule,
  sequence, number of missed cleavages, all length bounds, both flags — no hypothesis.
* `DigestSpecZ` is the specification of the property text (`DigestSpecZI`: cleavage
  positions = both ends and every match position) **except** when the rule matches at
  position 0 *and* clipping is on: the code then lists site 0 twice, the N-terminal
  peptide is produced from `start_idx = 1` where `not start_idx` fails, and its clipped
  form is returned only if the peptide stays one missed cleavage below the limit
  (`C17_digestZ_spec_intended`, `C17_digestZ_sound`, `C17_digestZ_complete_noclip`,
  `C17_digestZ_one_less`, witness `C17_digestZ_clip_skipped_witness`).
* Two spellings of a rule that mark the same positions digest alike
  (`C17_digestZ_same_positions`, `C17_digestZ_lookbehind_form`).
-/
namespace Mk

/-! ## the match positions of a zero-width rule -/

/-- reading of `isEndZ`: the sequence splits as `pre ++ rest` at `p`, the look-behind
holds on the last residue of `pre` (at the start of the sequence a positive one
fails, a negative one holds) and the look-ahead on the first residue of `rest`
(likewise at the end) -/
theorem C17_isEndZ_iff (e : EnzymeZ) (seq : List Char) (p : Nat) :
    isEndZ e seq p = true ↔
      ∃ pre rest, seq = pre ++ rest ∧ pre.length = p
        ∧ (pre.getLast?.any e.lb.has) = e.lbPos ∧ (rest.head?.any e.la.has) = e.laPos := by
  have key : ∀ (pre rest : List Char),
      prevAt (pre ++ rest) pre.length = pre.getLast? ∧ (pre ++ rest)[pre.length]? = rest.head? := by
    intro pre rest
    constructor
    · rcases List.eq_nil_or_concat pre with rfl | ⟨l, x, rfl⟩
      · rfl
      · simp [prevAt]
    · rw [List.getElem?_append_right (Nat.le_refl _)]
      cases rest <;> simp
  unfold isEndZ
  simp only [Bool.and_eq_true, decide_eq_true_eq, beq_iff_eq]
  constructor
  · rintro ⟨⟨h1, h2⟩, h3⟩
    refine ⟨seq.take p, seq.drop p, (List.take_append_drop p seq).symm, ?_, ?_, ?_⟩
    · rw [List.length_take]; omega
    · have hk := (key (seq.take p) (seq.drop p)).1
      rw [List.take_append_drop, List.length_take, Nat.min_eq_left h1] at hk
      rw [← hk]; exact h2
    · have hk := (key (seq.take p) (seq.drop p)).2
      rw [List.take_append_drop, List.length_take, Nat.min_eq_left h1] at hk
      rw [← hk]; exact h3
  · rintro ⟨pre, rest, rfl, rfl, h2, h3⟩
    obtain ⟨k1, k2⟩ := key pre rest
    refine ⟨⟨?_, ?_⟩, ?_⟩
    · rw [List.length_append]; omega
    · rw [k1]; exact h2
    · rw [k2]; exact h3

/-- `_cleavage_sites` returns exactly the cleavage positions: 0, `len(seq)` and every
position where the rule matches -/
theorem C17_sitesZ_spec (e : EnzymeZ) (seq : List Char) (p : Nat) :
    p ∈ cleavageSitesZ e seq ↔ p ≤ seq.length ∧ isSiteZ e seq p = true := by
  unfold cleavageSitesZ isSiteZ
  rw [matchEndsZ_top]
  simp only [List.mem_cons, List.mem_append, List.mem_filter, List.mem_range, List.not_mem_nil,
    or_false, Bool.or_eq_true, beq_iff_eq]
  constructor
  · rintro (h | ⟨h1, h2⟩ | h)
    · subst h; exact ⟨Nat.zero_le _, Or.inl (Or.inl rfl)⟩
    · exact ⟨by omega, Or.inr h2⟩
    · subst h; exact ⟨Nat.le_refl _, Or.inl (Or.inr rfl)⟩
  · rintro ⟨h1, (h | h) | h⟩
    · exact Or.inl h
    · exact Or.inr (Or.inr h)
    · exact Or.inr (Or.inl ⟨by omega, h⟩)

/-- the sites are in non-decreasing order: an optional second 0 (the rule matches at
position 0), then strictly increasing positions starting with 0, then `len(seq)` -/
theorem C17_sitesZ_sorted (e : EnzymeZ) (seq : List Char) :
    ∃ inner, cleavageSitesZ e seq = (if startDupZ e seq then [0] else []) ++ inner ++ [seq.length]
      ∧ inner.Pairwise (· < ·) ∧ (∀ x ∈ inner, x ≤ seq.length) ∧ inner.head? = some 0 := by
  refine ⟨(List.range (seq.length + 1)).filter (innerSiteZ e seq), ?_, ?_, ?_, ?_⟩
  · cases hd : startDupZ e seq with
    | false => rw [cleavageSitesZ_eq_of_noDup e seq hd]; rfl
    | true => rw [cleavageSitesZ_eq_of_dup e seq hd]; rfl
  · exact List.Pairwise.filter _ List.pairwise_lt_range
  · intro x hx
    simp only [List.mem_filter, List.mem_range] at hx
    omega
  · rw [List.range_succ_eq_map, List.filter_cons]
    simp [innerSiteZ]

/-- a rule with a positive look-behind never matches at position 0 … -/
theorem C17_startDupZ_lookbehind (e : EnzymeZ) (seq : List Char) (h : e.lbPos = true) :
    startDupZ e seq = false := by
  unfold startDupZ isEndZ
  simp [prevAt, h]

/-- … one without look-behind matches there exactly when its look-ahead holds on the
first residue -/
theorem C17_startDupZ_lookahead (e : EnzymeZ) (seq : List Char) (h : e.lbPos = false) :
    startDupZ e seq = (seq.head?.any e.la.has == e.laPos) := by
  unfold startDupZ isEndZ
  cases seq <;> simp [prevAt, h]

/-! ## the digest is exactly the specification (all bounds, no hypothesis) -/

/-- **C17 main theorem for zero-width rules** -/
theorem C17_digestZ_mem_iff_spec (e : EnzymeZ) (seq : List Char) (mc lo hi : Nat) (clip semi : Bool)
    (p : Pep) :
    p ∈ digestZ e seq mc lo hi clip semi ↔ DigestSpecZ e seq mc lo hi clip semi p :=
  mem_digestZ_iff_spec e seq mc lo hi clip semi p

/-- the enumeration used by the driver op `digestspecz` is `DigestSpecZ` -/
theorem C17_specListZ_mem_iff_spec (e : EnzymeZ) (seq : List Char) (mc lo hi : Nat) (clip semi : Bool)
    (p : Pep) :
    p ∈ specListZ e seq mc lo hi clip semi ↔ DigestSpecZ e seq mc lo hi clip semi p :=
  mem_specListZ e seq mc lo hi clip semi p

/-- the enumeration used by the driver op `digestspeczi` is `DigestSpecZI` -/
theorem C17_specListZI_mem_iff_spec (e : EnzymeZ) (seq : List Char) (mc lo hi : Nat) (clip semi : Bool)
    (p : Pep) :
    p ∈ specListZI e seq mc lo hi clip semi ↔ DigestSpecZI e seq mc lo hi clip semi p :=
  mem_specListZI e seq mc lo hi clip semi p

/-- what the code returns is the specification of the property text whenever the
rule does not match at position 0, or clipping is off -/
theorem C17_digestZ_spec_intended (e : EnzymeZ) (seq : List Char) (mc lo hi : Nat) (clip semi : Bool)
    (h : startDupZ e seq = false ∨ clip = false) (p : Pep) :
    p ∈ digestZ e seq mc lo hi clip semi ↔ DigestSpecZI e seq mc lo hi clip semi p := by
  rw [C17_digestZ_mem_iff_spec]
  unfold DigestSpecZ DigestSpecZI
  rcases h with h | h
  · rw [h, digestSpecSD_false]
  · subst h
    rw [digestSpecSD_noclip]

/-- in every case: nothing is returned that the enzyme rules do not allow … -/
theorem C17_digestZ_sound (e : EnzymeZ) (seq : List Char) (mc lo hi : Nat) (clip semi : Bool) (p : Pep)
    (h : p ∈ digestZ e seq mc lo hi clip semi) : DigestSpecZI e seq mc lo hi clip semi p := by
  rw [C17_digestZ_mem_iff_spec] at h
  unfold DigestSpecZ at h
  unfold DigestSpecZI
  rcases h with h | h
  · exact Or.inl (digestSpecSD_sub _ _ _ _ _ _ _ _ _ h)
  · exact Or.inr h

/-- … and every peptide allowed without clipping is returned (only clipped forms can
be missing) -/
theorem C17_digestZ_complete_noclip (e : EnzymeZ) (seq : List Char) (mc lo hi : Nat) (clip semi : Bool)
    (p : Pep) (h : DigestSpecZI e seq mc lo hi false semi p) :
    p ∈ digestZ e seq mc lo hi clip semi := by
  have h' := (C17_digestZ_spec_intended e seq mc lo hi false semi (Or.inr rfl) p).mpr h
  exact cleave_mono seq _ mc mc lo hi lo hi semi semi false clip p (Nat.le_refl _) (Nat.le_refl _)
    (Nat.le_refl _) id (fun h => by cases h) h'

/-- everything the enzyme rules allow with one missed cleavage fewer is returned,
clipped forms included -/
theorem C17_digestZ_one_less (e : EnzymeZ) (seq : List Char) (mc lo hi : Nat) (clip semi : Bool)
    (p : Pep) (h : DigestSpecZI e seq mc lo hi clip semi p) :
    p ∈ digestZ e seq (mc + 1) lo hi clip semi := by
  rw [C17_digestZ_mem_iff_spec]
  unfold DigestSpecZI at h
  unfold DigestSpecZ
  rcases h with h | h
  · left
    cases hd : startDupZ e seq with
    | false =>
      rw [digestSpecSD_false]
      unfold DigestSpecS EnzymaticS at h ⊢
      obtain ⟨a, b, ⟨e1, e2, e3, e4, e5, e6, e7⟩, h⟩ := h
      exact ⟨a, b, ⟨e1, e2, e3, e4, by omega, e6, e7⟩, h⟩
    | true =>
      rw [digestSpecSD_true]
      exact Or.inr ⟨by omega, by simpa using h⟩
  · exact Or.inr h

/-- the restriction is real: `MPAK` cut by `(?!P)` (sites 0, 0, 2, 3, 4, 4), clipping
on, no missed cleavage, `min_length = 1`: the N-terminal peptide `MP` qualifies, its
clipped form `P` is allowed by the property text and is not returned -/
theorem C17_digestZ_clip_skipped_witness :
    ∃ (e : EnzymeZ) (seq : List Char) (mc lo hi : Nat) (p : Pep),
      DigestSpecZI e seq mc lo hi true false p ∧ p ∉ digestZ e seq mc lo hi true false :=
  ⟨⟨false, ⟨false, []⟩, false, ⟨false, ['P']⟩⟩, ['M', 'P', 'A', 'K'], 0, 1, 4, ['P'],
    (C17_specListZI_mem_iff_spec _ _ _ _ _ _ _ _).mp (by decide), by decide⟩

/-- `min_length = 0`, no clipping: the empty peptide is returned exactly when one end
of the sequence is listed twice among the sites -/
theorem C17_digestZ_empty_peptide_iff (e : EnzymeZ) (seq : List Char) (mc lo hi : Nat) (semi : Bool) :
    [] ∈ digestZ e seq mc lo hi false semi ↔
      lo = 0 ∧ (startDupZ e seq = true ∨ endDupZ e seq = true) := by
  rw [C17_digestZ_mem_iff_spec]
  unfold DigestSpecZ DigestSpecSD
  constructor
  · rintro (⟨a, b, ⟨hab, hbn, -⟩, h | ⟨h, -⟩ | ⟨-, k, k1, k2, k3, h | h⟩⟩ | ⟨h1, -, h3⟩)
    · have := congrArg List.length h
      rw [slice_length] at this; simp at this; omega
    · cases h
    · have := congrArg List.length h
      rw [slice_length] at this; simp at this; omega
    · have := congrArg List.length h
      rw [slice_length] at this; simp at this; omega
    · exact ⟨h1, h3⟩
  · rintro ⟨h1, h3⟩
    exact Or.inr ⟨h1, rfl, h3⟩

/-! ## two spellings of one rule -/

/-- a zero-width rule and a consuming pattern that mark the same positions of this
sequence give the same digest (as sets), whatever the limits and flags -/
theorem C17_digestZ_same_positions (ez : EnzymeZ) (ep : EnzymeP) (seq : List Char)
    (h : ∀ q, isEndZ ez seq q = isEndP ep seq q) (mc lo hi : Nat) (clip semi : Bool) (p : Pep) :
    p ∈ digestZ ez seq mc lo hi clip semi ↔ p ∈ digestP ep seq mc lo hi clip semi := by
  have h0 : startDupZ ez seq = false := by
    unfold startDupZ
    rw [h 0]
    cases hq : isEndP ep seq 0 with
    | false => rfl
    | true =>
      have := (isEndP_sound ep seq 0 hq).1
      have := width_pos ep
      omega
  have hS : isSiteZ ez seq = isSiteP ep seq := by
    funext q; unfold isSiteZ isSiteP; rw [h q]
  have hE : endDupZ ez seq = endDupP ep seq := by
    unfold endDupZ endDupP; rw [h]
  rw [C17_digestZ_mem_iff_spec, mem_digestP_iff_spec]
  unfold DigestSpecZ DigestSpecP
  rw [h0, digestSpecSD_false, hS, hE]
  simp

/-- in particular `(?<=[cls])(?![nn])` digests like `[cls](?![nn])` -/
theorem C17_digestZ_lookbehind_form (e : Enzyme) (seq : List Char) (mc lo hi : Nat) (clip semi : Bool)
    (p : Pep) :
    p ∈ digestZ e.toZ seq mc lo hi clip semi ↔ p ∈ digest e seq mc lo hi clip semi := by
  rw [C17_digestZ_mem_iff_spec, mem_digest_iff_spec0]
  unfold DigestSpecZ DigestSpec0
  rw [startDupZ_toZ, digestSpecSD_false, isSiteZ_toZ, endDupZ_toZ, digestSpecS_isSite]
  simp

/-! ## the unconditional clauses -/

/-- every returned peptide is a contiguous substring of the protein -/
theorem C17_digestZ_substring (e : EnzymeZ) (seq : List Char) (mc lo hi : Nat) (clip semi : Bool) (p : Pep)
    (h : p ∈ digestZ e seq mc lo hi clip semi) : ∃ pre suf, seq = pre ++ p ++ suf := by
  obtain ⟨pre, suf, h⟩ := cleave_infix seq _ mc lo hi semi clip p h
  exact ⟨pre, suf, h.symm⟩

/-- every returned peptide respects the length bounds -/
theorem C17_digestZ_length_bounds (e : EnzymeZ) (seq : List Char) (mc lo hi : Nat) (clip semi : Bool)
    (p : Pep) (h : p ∈ digestZ e seq mc lo hi clip semi) : lo ≤ p.length ∧ p.length ≤ hi := by
  unfold digestZ at h
  rw [mem_cleave] at h
  obtain ⟨i, d, s, t, -, -, -, -, hp⟩ := h
  rw [mem_pepsOf] at hp
  obtain ⟨h1, h2, hp | ⟨-, -, -, c4, hp⟩ | ⟨-, k, k1, k2, k3, hp | hp⟩⟩ := hp
  · subst hp; exact ⟨h1, h2⟩
  · subst hp; rw [List.length_drop]; omega
  · subst hp; rw [List.length_drop]; omega
  · subst hp; rw [List.length_take]; omega

/-- all relaxations at once: more missed cleavages, wider bounds, semi, clip -/
theorem C17_digestZ_mono (e : EnzymeZ) (seq : List Char) (mc mc' lo hi lo' hi' : Nat)
    (clip clip' semi semi' : Bool) (hmc : mc ≤ mc') (hlo : lo' ≤ lo) (hhi : hi ≤ hi')
    (hsemi : semi = true → semi' = true) (hclip : clip = true → clip' = true)
    (p : Pep) (hp : p ∈ digestZ e seq mc lo hi clip semi) :
    p ∈ digestZ e seq mc' lo' hi' clip' semi' :=
  cleave_mono seq _ mc mc' lo hi lo' hi' semi semi' clip clip' p hmc hlo hhi hsemi hclip hp

/-! ## Non-vacuity and evaluation tests -/

/-- `(?<=[KR])(?!P)`: trypsin/P written with look-around only -/
def trypPZ : EnzymeZ := (Enzyme.toZ ⟨['K', 'R'], ['P']⟩)
/-- `(?=D)`: Asp-N -/
def aspNZ : EnzymeZ := ⟨false, ⟨false, []⟩, true, ⟨false, ['D']⟩⟩
/-- `(?!P)`: anywhere but before proline -/
def notBeforeP : EnzymeZ := ⟨false, ⟨false, []⟩, false, ⟨false, ['P']⟩⟩
/-- the empty pattern: no specificity -/
def anywhereZ : EnzymeZ := ⟨false, ⟨false, []⟩, false, ⟨false, []⟩⟩

/-- the hypothesis of `C17_digestZ_spec_intended`, first form (a rule that does not
match at position 0 of this sequence) … -/
example : startDupZ aspNZ ['M', 'A', 'D', 'K'] = false := by decide
/-- … while the same rule does match at position 0 of a sequence starting with D -/
example : startDupZ aspNZ ['D', 'A', 'D', 'K'] = true := by decide

/-- the hypothesis of `C17_digestZ_same_positions` holds for `(?=D)` against `.(?=D)`
on a sequence that does not start with D -/
example : ∀ q, q ≤ 4 → isEndZ aspNZ ['M', 'A', 'D', 'K'] q
    = isEndP ⟨⟨true, []⟩, [], true, ⟨false, ['D']⟩⟩ ['M', 'A', 'D', 'K'] q := by decide

/-- a non-trivial peptide of the specification for a rule matching at position 0: the
clipped form `P` of `MP` = seq[0:2] of `MPAPK` under `(?!P)` (sites 0, 0, 2, 4, 5, 5)
with one missed cleavage allowed (the peptide itself has none) -/
example : DigestSpecZ notBeforeP ['M', 'P', 'A', 'P', 'K'] 1 1 5 true false ['P'] :=
  (C17_specListZ_mem_iff_spec _ _ _ _ _ _ _ _).mp (by decide)
/-- … and it is not in the specification when no missed cleavage is allowed -/
example : ['P'] ∉ specListZ notBeforeP ['M', 'P', 'A', 'P', 'K'] 0 1 5 true false := by decide

-- evaluation tests (compiler-evaluated: *tests*, not theorems)
#guard cleavageSitesZ trypPZ "MKPAKRAAK".toList == [0, 5, 6, 9, 9]
#guard cleavageSitesZ aspNZ "DADKDD".toList == [0, 0, 2, 4, 5, 6]
#guard cleavageSitesZ notBeforeP "MPAK".toList == [0, 0, 2, 3, 4, 4]
#guard cleavageSitesZ anywhereZ "MAK".toList == [0, 0, 1, 2, 3, 3]
#guard cleavageSitesZ anywhereZ [] == [0, 0, 0]
#guard cleavageSitesZ trypPZ [] == [0, 0]
#guard (digestZ notBeforeP "MPAK".toList 0 1 4 true false) == ["MP".toList, "A".toList, "K".toList]
#guard (digestZ notBeforeP "MPAK".toList 1 1 4 true false).contains "P".toList
#guard (specListZI notBeforeP "MPAK".toList 0 1 4 true false).contains "P".toList
#guard (digestZ aspNZ "DADKDD".toList 1 0 4 true true).all
  (fun p => (specListZ aspNZ "DADKDD".toList 1 0 4 true true).contains p)
#guard (specListZ aspNZ "DADKDD".toList 1 0 4 true true).all
  (fun p => (digestZ aspNZ "DADKDD".toList 1 0 4 true true).contains p)
#guard (digestZ anywhereZ [] 0 0 0 false false).contains []

end Mk
