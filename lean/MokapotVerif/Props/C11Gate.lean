import MokapotVerif.Lemmas.CalibrateGate
import MokapotVerif.Props.C11
/-!
# C11, second part — the decision-function gate, several collections, rows of different folds

Property theorems only.  `predictFoldsDF c dfs thr rows` is the model of
`mokapot.brew._predict` for one collection with the per-model test of brew.py:461-470 made
explicit: `dfs[f]` says whether the estimator of `models[f]` exposes `decision_function`
(the property's quantifier "all estimators exposing a decision function"); a fold whose
estimator does not is returned uncalibrated.  `predictFolds c k` of `Props/C11.lean` is the
instance `dfs = replicate k true` (`C11_gate_all_decision_functions`), so every theorem there
is a statement about this model.  `predictColls` is `list(_predict(...))` over several
collections.
-/
namespace Mk.Calibrate

/-! ## The gate -/

/-- the model used by the theorems of `Props/C11.lean` is the gated model with every
estimator exposing a decision function -/
theorem C11_gate_all_decision_functions (c k : Nat) (thr : Rat) (rows : List FRow) :
    predictFoldsDF c (List.replicate k true) thr rows = predictFolds c k thr rows :=
  predictFoldsDF_replicate c k thr rows

/-- Per-fold application under the gate, for every list of flags (any mixture of estimators):
whenever `_predict` returns, it returns one score per row in the original order; the scores of
a fold whose estimator exposes `decision_function` are exactly `calibrate_scores` of that fold's
raw scores and targets — whatever the other folds' estimators are — and the scores of a fold
whose estimator does not are that fold's raw scores, unchanged. -/
theorem C11_gate_per_fold_applied (c : Nat) (dfs : List Bool) (thr : Rat) (rows : List FRow) (out : List XR)
    (hc : 1 ≤ c) (h : predictFoldsDF c dfs thr rows = Except.ok out) :
    out.length = rows.length ∧
      ∀ f (hf : f < dfs.length),
        (dfs[f] = true → calibrate true thr (foldOf f rows) = Except.ok (restrictTo f rows out)) ∧
        (dfs[f] = false → restrictTo f rows out = (foldOf f rows).map (fun x => XR.fin x.1)) := by
  obtain ⟨h1, h2⟩ := predictFoldsDF_ok c dfs thr rows out hc h
  refine ⟨h1, fun f hf => ⟨fun hdf => ?_, fun hdf => ?_⟩⟩
  · have := (h2 f hf).2
    rw [hdf] at this
    exact this
  · have := (h2 f hf).2
    rw [hdf] at this
    simp only [foldSpecDF, Bool.false_eq_true, if_false, Except.ok.injEq] at this
    exact this.symm

/-- The property for every estimator exposing a decision function, fold by fold: if the
estimator of fold `f` has a decision function and the fold is inside the quantifier (`m < t`),
the returned scores of fold `f` are the affine function `a·s + b` of the fold's raw model
output with slope `a = 1/(t − m) > 0`; it is strictly increasing, sends the fold's lowest
accepted target to 0 and its decoy median to −1.  Nothing is assumed about the other folds. -/
theorem C11_gate_fold_scores_affine (c : Nat) (dfs : List Bool) (thr : Rat) (rows : List FRow) (out : List XR)
    (hc : 1 ≤ c) (h : predictFoldsDF c dfs thr rows = Except.ok out) (f : Nat) (hf : f < dfs.length)
    (hdf : dfs[f] = true) (t m : Rat)
    (ht : IsLeastOf (accepted true thr (foldOf f rows)) t) (hm : IsMedianOf (decoys (foldOf f rows)) m)
    (htm : m < t) :
    ∃ a b : Rat, a = 1 / (t - m) ∧ 0 < a ∧ b = -t / (t - m) ∧
      StrictMono (fun s => a * s + b) ∧ a * t + b = 0 ∧ a * m + b = -1 ∧
      restrictTo f rows out = (foldOf f rows).map (fun x => XR.fin (a * x.1 + b)) := by
  have hfun : (fun s => 1 / (t - m) * s + -t / (t - m)) = calF t m := by
    funext s; rw [calF_affine]
  refine ⟨1 / (t - m), -t / (t - m), rfl, one_div_pos.mpr (sub_pos.mpr htm), rfl, ?_, ?_, ?_, ?_⟩
  · rw [hfun]; exact calF_strictMono t m htm
  · rw [← calF_affine]; exact calF_anchor_zero t m
  · rw [← calF_affine]; exact calF_anchor_neg_one t m (ne_of_gt htm)
  · have h1 := ((C11_gate_per_fold_applied c dfs thr rows out hc h).2 f hf).1 hdf
    obtain ⟨a, b, ha, hb, hcal⟩ := C11_calib_affine true thr (foldOf f rows) t m ht hm (ne_of_gt htm)
    rw [hcal] at h1
    rw [← ha, ← hb]
    simpa using h1.symm

/-- the fold-level statement of `Props/C11.lean` with the word "affine" of the property text:
on `predictFolds` (every estimator exposes a decision function) the scores of every fold inside
the quantifier are `a·s + b` of the fold's raw scores with `a = 1/(t − m) > 0`. -/
theorem C11_fold_scores_affine (c k : Nat) (thr : Rat) (rows : List FRow) (out : List XR) (hc : 1 ≤ c)
    (h : predictFolds c k thr rows = Except.ok out) (f : Nat) (hf : f < k) (t m : Rat)
    (ht : IsLeastOf (accepted true thr (foldOf f rows)) t) (hm : IsMedianOf (decoys (foldOf f rows)) m)
    (htm : m < t) :
    ∃ a b : Rat, a = 1 / (t - m) ∧ 0 < a ∧ b = -t / (t - m) ∧
      StrictMono (fun s => a * s + b) ∧ a * t + b = 0 ∧ a * m + b = -1 ∧
      restrictTo f rows out = (foldOf f rows).map (fun x => XR.fin (a * x.1 + b)) := by
  rw [← C11_gate_all_decision_functions] at h
  exact C11_gate_fold_scores_affine c (List.replicate k true) thr rows out hc h f (by simpa using hf)
    (by simp) t m ht hm htm

/-- `_predict` returns scores iff every fold has rows and every fold *whose estimator exposes a
decision function* accepts at least one target at the evaluation FDR (folds of other
estimators are never calibrated and cannot raise the calibration error). -/
theorem C11_gate_returns_iff (c : Nat) (dfs : List Bool) (thr : Rat) (rows : List FRow) (hc : 1 ≤ c)
    (hk : 1 ≤ dfs.length) :
    (∃ out, predictFoldsDF c dfs thr rows = Except.ok out) ↔
      ∀ f (hf : f < dfs.length), foldOf f rows ≠ [] ∧
        (dfs[f] = true → ∃ x ∈ foldOf f rows, x.2 = true ∧ qSpec (calLe true) (foldOf f rows) x.1 ≤ thr) := by
  rw [predictFoldsDF_ok_iff c dfs thr rows hc hk]
  apply forall_congr'; intro f
  apply forall_congr'; intro _
  apply and_congr_right; intro _
  apply imp_congr_right; intro _
  constructor
  · intro hne
    obtain ⟨t, ht⟩ := exists_least_of_ne_nil hne
    obtain ⟨x, hx, _, hx2, hq⟩ := (mem_accepted true thr _ t).mp ht.1
    exact ⟨x, hx, hx2, hq⟩
  · rintro ⟨x, hx, hx2, hq⟩
    exact List.ne_nil_of_mem ((mem_accepted true thr _ x.1).mpr ⟨x, hx, rfl, hx2, hq⟩)

/-- with every fold non-empty, `_predict` raises the calibration RuntimeError exactly when
some fold whose estimator exposes a decision function accepts no target. -/
theorem C11_gate_stops_on_error (c : Nat) (dfs : List Bool) (thr : Rat) (rows : List FRow) (hc : 1 ≤ c)
    (hk : 1 ≤ dfs.length) (hne : ∀ f, f < dfs.length → foldOf f rows ≠ []) :
    predictFoldsDF c dfs thr rows = Except.error CalErr.noPositive ↔
      ∃ f, ∃ hf : f < dfs.length, dfs[f] = true ∧
        ∀ x ∈ foldOf f rows, x.2 = true → thr < qSpec (calLe true) (foldOf f rows) x.1 := by
  constructor
  · intro h
    rcases predictFoldsDF_error c dfs thr rows _ hc h with ⟨he, _⟩ | ⟨_, f, hf, hdf, _, hacc⟩
    · cases he
    · refine ⟨f, hf, hdf, fun x hx hx2 => ?_⟩
      by_contra hq
      have : x.1 ∈ accepted true thr (foldOf f rows) :=
        (mem_accepted true thr _ x.1).mpr ⟨x, hx, rfl, hx2, not_lt.mp hq⟩
      rw [hacc] at this
      simp at this
  · rintro ⟨f, hf, hdf, hno⟩
    cases hp : predictFoldsDF c dfs thr rows with
    | ok out =>
      exfalso
      obtain ⟨x, hx, hx2, hq⟩ := ((C11_gate_returns_iff c dfs thr rows hc hk).mp ⟨out, hp⟩ f hf).2 hdf
      exact absurd hq (not_le.mpr (hno x hx hx2))
    | error e =>
      rcases predictFoldsDF_error c dfs thr rows e hc hp with ⟨_, h0 | ⟨g, hg, h0⟩⟩ | ⟨he, _⟩
      · omega
      · exact absurd h0 (hne g hg)
      · rw [he]

/-- the prediction chunk size has no influence on the gated result either -/
theorem C11_gate_chunk_independent (c c' : Nat) (dfs : List Bool) (thr : Rat) (rows : List FRow) (hc : 1 ≤ c)
    (hc' : 1 ≤ c') : predictFoldsDF c dfs thr rows = predictFoldsDF c' dfs thr rows := by
  unfold predictFoldsDF
  simp only [foldRowsChunked_eq c hc, foldRowsChunked_eq c' hc']

/-! ## Row by row, and rows of different folds -/

/-- Every returned score, row by row: the row `i` of a fold `f` whose estimator exposes a
decision function carries `(s − t)/(t − m)` of *its own fold's* anchors (`t ≠ m`); the row of
a fold whose estimator does not carries its raw score. -/
theorem C11_gate_row_formula (c : Nat) (dfs : List Bool) (thr : Rat) (rows : List FRow) (out : List XR)
    (hc : 1 ≤ c) (h : predictFoldsDF c dfs thr rows = Except.ok out) (i : Nat) (hi : i < rows.length)
    (hf : rows[i].fold < dfs.length) :
    (dfs[rows[i].fold] = true → ∀ t m : Rat,
      IsLeastOf (accepted true thr (foldOf rows[i].fold rows)) t →
      IsMedianOf (decoys (foldOf rows[i].fold rows)) m → t ≠ m →
        out[i]? = some (XR.fin (calF t m rows[i].raw))) ∧
    (dfs[rows[i].fold] = false → out[i]? = some (XR.fin rows[i].raw)) := by
  obtain ⟨hlen, hper⟩ := C11_gate_per_fold_applied c dfs thr rows out hc h
  refine ⟨fun hdf t m ht hm htm => ?_, fun hdf => ?_⟩
  · have h1 := ((hper _ hf).1 hdf)
    rw [C11_calib_eq_formula true thr _ t m ht hm htm] at h1
    simp only [Except.ok.injEq] at h1
    exact restrictTo_pointwise _ rows out (fun s => XR.fin (calF t m s)) hlen h1.symm i hi rfl
  · have h1 := ((hper _ hf).2 hdf)
    exact restrictTo_pointwise _ rows out (fun s => XR.fin s) hlen h1 i hi rfl

/-- "... which is what makes scores from different folds comparable": take any two rows `i`,
`j`, of the same or of different folds, both folds inside the quantifier (anchors `tᵢ > mᵢ`,
`tⱼ > mⱼ`).  Their returned scores are finite; a score is `≥ 0` exactly when the row is at or
above the lowest accepted target *of its own fold* and `≤ −1` exactly when it is at or below
the decoy median *of its own fold* — the same two marks in every fold; hence a row at or above
its fold's acceptance boundary always scores above a row at or below its fold's decoy median,
whatever the scales of the two fold models. -/
theorem C11_folds_comparable (c : Nat) (dfs : List Bool) (thr : Rat) (rows : List FRow) (out : List XR)
    (hc : 1 ≤ c) (h : predictFoldsDF c dfs thr rows = Except.ok out)
    (i j : Nat) (hi : i < rows.length) (hj : j < rows.length)
    (hfi : rows[i].fold < dfs.length) (hfj : rows[j].fold < dfs.length)
    (hdi : dfs[rows[i].fold] = true) (hdj : dfs[rows[j].fold] = true) (ti mi tj mj : Rat)
    (hti : IsLeastOf (accepted true thr (foldOf rows[i].fold rows)) ti)
    (hmi : IsMedianOf (decoys (foldOf rows[i].fold rows)) mi) (htmi : mi < ti)
    (htj : IsLeastOf (accepted true thr (foldOf rows[j].fold rows)) tj)
    (hmj : IsMedianOf (decoys (foldOf rows[j].fold rows)) mj) (htmj : mj < tj) :
    ∃ a b : Rat, out[i]? = some (XR.fin a) ∧ out[j]? = some (XR.fin b) ∧
      (0 ≤ a ↔ ti ≤ rows[i].raw) ∧ (a ≤ -1 ↔ rows[i].raw ≤ mi) ∧
      (0 ≤ b ↔ tj ≤ rows[j].raw) ∧ (b ≤ -1 ↔ rows[j].raw ≤ mj) ∧
      (ti ≤ rows[i].raw → rows[j].raw ≤ mj → b < a) := by
  have hA := (C11_gate_row_formula c dfs thr rows out hc h i hi hfi).1 hdi ti mi hti hmi (ne_of_gt htmi)
  have hB := (C11_gate_row_formula c dfs thr rows out hc h j hj hfj).1 hdj tj mj htj hmj (ne_of_gt htmj)
  have hmonoI := calF_strictMono ti mi htmi
  have hmonoJ := calF_strictMono tj mj htmj
  have a0 : (0 ≤ calF ti mi rows[i].raw ↔ ti ≤ rows[i].raw) := by
    rw [← calF_anchor_zero ti mi]; exact hmonoI.le_iff_le
  have a1 : (calF ti mi rows[i].raw ≤ -1 ↔ rows[i].raw ≤ mi) := by
    rw [← calF_anchor_neg_one ti mi (ne_of_gt htmi)]; exact hmonoI.le_iff_le
  have b0 : (0 ≤ calF tj mj rows[j].raw ↔ tj ≤ rows[j].raw) := by
    rw [← calF_anchor_zero tj mj]; exact hmonoJ.le_iff_le
  have b1 : (calF tj mj rows[j].raw ≤ -1 ↔ rows[j].raw ≤ mj) := by
    rw [← calF_anchor_neg_one tj mj (ne_of_gt htmj)]; exact hmonoJ.le_iff_le
  refine ⟨_, _, hA, hB, a0, a1, b0, b1, fun h1 h2 => ?_⟩
  have := a0.mpr h1
  have := b1.mpr h2
  linarith

/-! ## Several collections -/

/-- `brew` on several collections: whenever scores are returned there is one score vector per
collection, in the order given, and the vector of collection `j` is `_predict` of that
collection's rows *alone* (its own accumulators) — in particular fold `f` of collection `j` is
calibrated with the rows of fold `f` of collection `j` only, never pooled with fold `f` of
another collection although the same model scores both. -/
theorem C11_colls_each_scored_alone (c : Nat) (dfs : List Bool) (thr : Rat) (colls : List (List FRow))
    (outs : List (List XR)) (hc : 1 ≤ c) (h : predictColls c dfs thr colls = Except.ok outs) :
    outs.length = colls.length ∧
    ∀ j (hj : j < colls.length) (hj' : j < outs.length),
      predictFoldsDF c dfs thr colls[j] = Except.ok outs[j] ∧
      outs[j].length = colls[j].length ∧
      ∀ f (hf : f < dfs.length), dfs[f] = true →
        calibrate true thr (foldOf f colls[j]) = Except.ok (restrictTo f colls[j] outs[j]) := by
  have F2 := (mapE_ok _ _ outs).mp h
  refine ⟨F2.length_eq.symm, fun j hj hj' => ?_⟩
  have hj1 := (List.forall₂_iff_get.mp F2).2 j hj hj'
  simp only [List.get_eq_getElem] at hj1
  obtain ⟨hl, hper⟩ := C11_gate_per_fold_applied c dfs thr colls[j] outs[j] hc hj1
  exact ⟨hj1, hl, fun f hf hdf => ((hper f hf).1 hdf)⟩

/-- scores are returned iff *every* collection can be scored: every fold of every collection has
rows and, where its estimator exposes a decision function, accepts a target. -/
theorem C11_colls_returns_iff (c : Nat) (dfs : List Bool) (thr : Rat) (colls : List (List FRow)) (hc : 1 ≤ c)
    (hk : 1 ≤ dfs.length) :
    (∃ outs, predictColls c dfs thr colls = Except.ok outs) ↔
      ∀ rows ∈ colls, ∀ f (hf : f < dfs.length), foldOf f rows ≠ [] ∧
        (dfs[f] = true → ∃ x ∈ foldOf f rows, x.2 = true ∧ qSpec (calLe true) (foldOf f rows) x.1 ≤ thr) := by
  unfold predictColls
  rw [mapE_total]
  apply forall_congr'; intro rows
  apply imp_congr_right; intro _
  exact C11_gate_returns_iff c dfs thr rows hc hk

/-- the run stops at the first collection that cannot be scored, with that collection's error,
and returns nothing (also not the scores of the collections before it). -/
theorem C11_colls_first_failure (c : Nat) (dfs : List Bool) (thr : Rat) (colls : List (List FRow)) (e : CalErr) :
    predictColls c dfs thr colls = Except.error e ↔
      ∃ pre rows post, colls = pre ++ rows :: post ∧
        (∀ r ∈ pre, ∃ out, predictFoldsDF c dfs thr r = Except.ok out) ∧
        predictFoldsDF c dfs thr rows = Except.error e := by
  unfold predictColls
  constructor
  · exact mapE_error _ e colls
  · rintro ⟨pre, rows, post, rfl, hpre, herr⟩
    exact mapE_error_of _ e rows post pre hpre herr

/-! ## Non-vacuity and evaluation tests -/

/-- the brew-level hypotheses are satisfiable: on `exFolds` (two folds) `_predict` returns at
threshold 1, and both folds are inside the quantifier
(fold 0: `t = 5`, decoys 1, 3, `m = 2`; fold 1: `t = 30`, decoy 20) -/
example : (∃ out, predictFolds 2 2 1 exFolds = Except.ok out) ∧
    IsLeastOf (accepted true 1 (foldOf 0 exFolds)) 5 ∧ IsMedianOf (decoys (foldOf 0 exFolds)) 2 ∧
    IsLeastOf (accepted true 1 (foldOf 1 exFolds)) 30 ∧ IsMedianOf (decoys (foldOf 1 exFolds)) 20 := by
  refine ⟨?_, minList_isLeast (by decide +kernel), ⟨1, 3, ?_, ?_, by norm_num⟩,
    minList_isLeast (by decide +kernel), ⟨20, 20, ?_, ?_, by norm_num⟩⟩
  · rw [C11_brew_returns_iff 2 2 1 exFolds (by omega) (by omega)]
    intro f hf
    have : f = 0 ∨ f = 1 := by omega
    rcases this with rfl | rfl
    · exact ⟨by decide +kernel, (5, true), by decide +kernel, rfl, by decide +kernel⟩
    · exact ⟨by decide +kernel, (30, true), by decide +kernel, rfl, by decide +kernel⟩
  all_goals exact ⟨by decide +kernel, by decide +kernel, by decide +kernel⟩

/-- a mixture of estimators (fold 0 with, fold 1 without a decision function) on which
`_predict` returns: the hypotheses of the gate theorems are satisfiable with `dfs` not constant -/
example : (∃ out, predictFoldsDF 2 [true, false] 1 exFolds = Except.ok out) := by
  rw [C11_gate_returns_iff 2 [true, false] 1 exFolds (by omega) (by simp)]
  intro f hf
  have : f = 0 ∨ f = 1 := by simp at hf; omega
  rcases this with rfl | rfl
  · exact ⟨by decide +kernel, fun _ => ⟨(5, true), by decide +kernel, rfl, by decide +kernel⟩⟩
  · exact ⟨by decide +kernel, fun h => by simp at h⟩

-- evaluation tests (compiler-evaluated: *tests*, not theorems)
#guard (match predictFoldsDF 2 [true, false] 1 exFolds with
  | Except.ok v => v == [XR.fin 0, XR.fin 30, XR.fin (-4/3), XR.fin 20, XR.fin 90, XR.fin (-2/3), XR.fin (2/3)]
  | _ => false)
#guard (match predictFoldsDF 2 [false, true] 1 exFolds with
  | Except.ok v => v == [XR.fin 5, XR.fin 0, XR.fin 1, XR.fin (-1), XR.fin 6, XR.fin 3, XR.fin 7]
  | _ => false)
#guard (match predictFoldsDF 3 [true, true] 1 exFolds, predictFolds 3 2 1 exFolds with
  | Except.ok v, Except.ok w => v == w | _, _ => false)
-- a fold without decision function cannot raise the calibration error ...
#guard (match predictFoldsDF 2 [false, false] (1/4) exFolds with
  | Except.ok v => v == [XR.fin 5, XR.fin 30, XR.fin 1, XR.fin 20, XR.fin 90, XR.fin 3, XR.fin 7] | _ => false)
-- ... a fold with one does
#guard (match predictFoldsDF 2 [false, true] (1/4) exFolds with | Except.error CalErr.noPositive => true | _ => false)
#guard (match predictFoldsDF 2 [false, false, false] 1 exFolds with | Except.error CalErr.empty => true | _ => false)
#guard (match predictFoldsDF 2 [] 1 exFolds with | Except.error CalErr.empty => true | _ => false)
-- two collections: each is scored alone; the first failing one stops the run
#guard (match predictColls 2 [true, true] 1 [exFolds, exFolds.reverse] with
  | Except.ok [v, w] => v == w.reverse | _ => false)
#guard (match predictColls 2 [true, true] 1 [exFolds, [⟨0, 1, true⟩]] with | Except.error CalErr.empty => true | _ => false)
#guard (match predictColls 2 [true, true] 1 [[⟨0, 1, false⟩, ⟨1, 1, true⟩], [⟨0, 1, true⟩]] with
  | Except.error CalErr.noPositive => true | _ => false)
#guard (match predictColls 2 [true, true] 1 ([] : List (List FRow)) with | Except.ok [] => true | _ => false)

end Mk.Calibrate
