import MokapotVerif.Lemmas.DecoysInput
import MokapotVerif.Props.C18
/-!
# C18, second pass — "all FASTA inputs (… multi-line records, several files)" derived from a
declarative description of the input

The theorems of `Props/C18.lean` speak about `ts` with `parseFasta files = some ts`: the
targets are whatever the (transcribed) reader makes of the files.  Here the *input* is
described declaratively — a file is a non-empty list of records `>name[ description]` followed
by any number of sequence lines (empty ones allowed, also at the end: final line ends), files
are written with `\n`, `\r\n` or `\r` — and the reader is proved to recover
`(name, concatenated lines)` of every record of every file, in order.  The end-to-end theorem
then needs no hypothesis about the reader.
-/
namespace Mk.Decoys

/-- **several files**: when every file begins with `>` (after newline translation), the
records read from the files together are the records of the first file, then those of the
second, … — whatever the files contain otherwise (final line end or not, blank lines, …) -/
theorem C18_several_files (files : List (List Char)) (hne : files ≠ [])
    (h : ∀ f ∈ files, (univNL f).head? = some '>') :
    parseFastaFiles files = (files.map (fun f => parseFastaFiles [f])).flatten ∧
    ∀ res : List Char → List (List Char × List Char),
      (∀ f ∈ files, parseFasta [f] = some (res f)) →
      parseFasta files = some (files.map res).flatten := by
  refine ⟨parseFastaFiles_several files hne h, ?_⟩
  intro res hres
  unfold parseFasta
  rw [parseFastaFiles_several files hne h]
  exact sequenceOpt_flatten_some parseProtein (fun f => parseFastaFiles [f]) res files hres

/-- **newline conventions**: a file stored with `\r\n` or `\r` line ends (each file its own
convention) reads like the same text stored with `\n` -/
theorem C18_newline_conventions (fs : List (Eol × List Char)) (h : ∀ p ∈ fs, '\r' ∉ p.2) :
    parseFasta (fs.map (fun p => encodeEol p.1 p.2)) = parseFasta (fs.map (·.2)) := by
  unfold parseFasta parseFastaFiles
  have : (fs.map (fun p => encodeEol p.1 p.2)).map univNL = (fs.map (·.2)).map univNL := by
    simp only [List.map_map]
    apply List.map_congr_left
    intro p hp
    simp only [Function.comp]
    rw [univNL_encodeEol p.1 p.2 (h p hp), univNL_id p.2 (h p hp)]
  rw [this]

/-- **one laid-out file**: multi-line records, descriptions, blank lines, final line ends -/
theorem C18_layout_parse_file (rs : List FastaRec) (hne : rs ≠ []) (h : ∀ r ∈ rs, RecOK r) :
    parseFasta [fastaFileText rs] = some (rs.map FastaRec.entry) := by
  unfold parseFasta
  rw [parseFastaFiles_file rs hne h]
  exact sequenceOpt_records rs h

/-- **all FASTA inputs**: any number (≥ 1) of laid-out files, each with its own newline
convention: the reader returns the proteins of all records in file and record order -/
theorem C18_fasta_input_parse (fss : List (Eol × List FastaRec)) (hne : fss ≠ [])
    (hfile : ∀ p ∈ fss, p.2 ≠ []) (hok : ∀ p ∈ fss, ∀ r ∈ p.2, RecOK r) :
    parseFasta (fss.map (fun p => encodeEol p.1 (fastaFileText p.2)))
      = some ((fss.flatMap (·.2)).map FastaRec.entry) := by
  have hcr : ∀ q ∈ fss.map (fun p => (p.1, fastaFileText p.2)), '\r' ∉ q.2 := by
    intro q hq
    obtain ⟨p, hp, rfl⟩ := List.mem_map.mp hq
    exact fastaFileText_no_cr p.2 (hok p hp)
  have e1 : fss.map (fun p => encodeEol p.1 (fastaFileText p.2))
      = (fss.map (fun p => (p.1, fastaFileText p.2))).map (fun q => encodeEol q.1 q.2) := by
    simp [List.map_map, Function.comp_def]
  rw [e1, C18_newline_conventions _ hcr]
  have e2 : (fss.map (fun p => (p.1, fastaFileText p.2))).map (·.2) = fss.map (fun p => fastaFileText p.2) := by
    simp [List.map_map, Function.comp_def]
  rw [e2]
  have hsev := (C18_several_files (fss.map (fun p => fastaFileText p.2)) (by simpa using hne) (by
    intro f hf
    obtain ⟨p, hp, rfl⟩ := List.mem_map.mp hf
    rw [univNL_id _ (fastaFileText_no_cr p.2 (hok p hp))]
    exact fastaFileText_head p.2 (hfile p hp))).1
  unfold parseFasta
  rw [hsev]
  have e3 : (fss.map (fun p => fastaFileText p.2)).map (fun f => parseFastaFiles [f])
      = fss.map (fun p => p.2.map FastaRec.body) := by
    simp only [List.map_map]
    apply List.map_congr_left
    intro p hp
    simp only [Function.comp]
    exact parseFastaFiles_file p.2 (hfile p hp) (hok p hp)
  rw [e3, sequenceOpt_flatten_some parseProtein (fun p : Eol × List FastaRec => p.2.map FastaRec.body)
    (fun p => p.2.map FastaRec.entry) fss (fun p hp => sequenceOpt_records p.2 (hok p hp))]
  simp [List.flatMap, List.map_flatten, List.map_map, Function.comp_def]

/-- **`make_decoys` on any FASTA input, any RNG state, any enzyme** — no hypothesis about the
reader: the call succeeds, and re-reading what it wrote yields the proteins of the input records
(concatenated mode) followed by one decoy per record, `prefix + name` with the peptide-wise
shuffled sequence, accepted by the file-level checker. -/
theorem C18_make_decoys_on_fasta_input (reverse : Bool) {rng : Nat → Nat → List Nat} (hr : RngOK rng)
    (pre : List Char) (hpre : NameOK pre) {ends : List Char → List Nat} (he : EndsOK ends)
    (concat : Bool) (w : Nat) (hw : 1 ≤ w) (old : Option (List Char))
    (fss : List (Eol × List FastaRec)) (hne : fss ≠ [])
    (hfile : ∀ p ∈ fss, p.2 ≠ []) (hok : ∀ p ∈ fss, ∀ r ∈ p.2, RecOK r) :
    ∃ out k perms, makeDecoysS reverse rng pre ends concat w old
          (fss.map (fun p => encodeEol p.1 (fastaFileText p.2))) = some (out, k) ∧
      PermFamily perms ∧ (reverse = true → perms = revPerm ∧ k = 0) ∧
      parseFasta [out] = some ((if concat then (fss.flatMap (·.2)).map FastaRec.entry else []) ++
        ((fss.flatMap (·.2)).map FastaRec.entry).map (decoySpecE perms pre ends)) ∧
      fileOK pre (cleavageSitesOf ends) none reverse concat ((fss.flatMap (·.2)).map FastaRec.entry)
        ((if concat then (fss.flatMap (·.2)).map FastaRec.entry else []) ++
          ((fss.flatMap (·.2)).map FastaRec.entry).map (decoySpecE perms pre ends)) = true := by
  apply C18_make_decoys_any_rng reverse hr pre hpre he concat w hw old _ _
    (C18_fasta_input_parse fss hne hfile hok)
  intro t ht
  obtain ⟨r, hr', rfl⟩ := List.mem_map.mp ht
  obtain ⟨p, hp, hrp⟩ := List.mem_flatMap.mp hr'
  intro hm
  obtain ⟨l, hl, hml⟩ := List.mem_flatten.mp hm
  exact ((hok p hp r hrp).2.2.1 l hl _ hml).2 rfl

/-! ## Non-vacuity -/

/-- a record with a description, a sequence over three lines with a blank line between and a
final empty line -/
def recA : FastaRec := ⟨"sp|A".toList, some "first > protein".toList, ["MKAAAK".toList, [], "BBR".toList, []]⟩
/-- a record without sequence line -/
def recB : FastaRec := ⟨"b".toList, none, []⟩
/-- a record with an empty name (header `> x`) -/
def recC : FastaRec := ⟨[], some "x".toList, ["KK".toList]⟩

example : RecOK recA := by unfold RecOK recA NameOK BreakFree SeqOK FastaRec.header descText; decide
example : RecOK recB := by unfold RecOK recB NameOK BreakFree SeqOK FastaRec.header descText; decide
example : RecOK recC := by unfold RecOK recC NameOK BreakFree SeqOK FastaRec.header descText; decide
example : (univNL ">a\r\nAB\r\n".toList).head? = some '>' := by decide

-- evaluation tests (compiler-evaluated: *tests*, not theorems)
#guard String.ofList (fastaFileText [recA, recB]) == ">sp|A first > protein\nMKAAAK\n\nBBR\n\n>b"
#guard String.ofList (encodeEol Eol.crlf (fastaFileText [recB, recC])) == ">b\r\n> x\r\nKK"
#guard String.ofList (encodeEol Eol.cr (fastaFileText [recB, recC])) == ">b\r> x\rKK"
#guard parseFasta [encodeEol Eol.crlf (fastaFileText [recA, recB]), encodeEol Eol.cr (fastaFileText [recC])]
  == some [("sp|A".toList, "MKAAAKBBR".toList), ("b".toList, []), ([], "KK".toList)]
-- the first file without final line end, the second with one (the shape of the seeded change C18d)
#guard parseFasta [">a\nAB".toList, ">b\nCD\n".toList] == some [("a".toList, "AB".toList), ("b".toList, "CD".toList)]
-- a file that does not begin with `>` is outside `C18_several_files`: its first line continues the previous record
#guard parseFasta [">a\nAB".toList, "b\nCD\n".toList] == some [("a".toList, "ABbCD".toList)]

end Mk.Decoys
