import MokapotVerif.Props.C02
import MokapotVerif.Props.C03
import MokapotVerif.Props.C13
import MokapotVerif.Props.C14
import MokapotVerif.Props.C10
/-!
# C05 — Results do not depend on chunk sizes, worker count, thread timing or file format

The logic of chunk/worker/format independence, stated as *two-configuration* theorems
(`c₁`, `c₂` arbitrary chunk sizes ≥ 1; arbitrary completion orders; both file formats),
derived from the single-configuration theorems of C02, C03, C13 and C14.  PARTIAL: real
preemption inside numpy/sklearn/pyarrow, BLAS summation order and CSV type inference per
chunk are not modelled (DESIGN.md §5 C05); the harness covers them by differential runs.
-/
namespace Mk
open Mk.Brew

/-- confidence chunk size (and per-chunk sort/merge tie handling, and thereby worker
scheduling of the chunk writers): with pairwise distinct scores the PSM-level file is the
same for any two chunk sizes, including sizes that put duplicate PSMs of a spectrum in the
same or in different chunks. -/
theorem C05_confidence_chunk_invariant (c₁ c₂ : Nat) (h₁ : 0 < c₁) (h₂ : 0 < c₂) (rows : List Row)
    (hinj : ∀ a ∈ rows, ∀ b ∈ rows, a.score = b.score → a = b)
    (files₁ files₂ : List (List Row))
    (hf₁ : List.Forall₂ (IsChunkFile true) (chunksOf c₁ rows) files₁)
    (hf₂ : List.Forall₂ (IsChunkFile true) (chunksOf c₂ rows) files₂)
    (m₁ m₂ : List Row) (hp₁ : m₁.Perm files₁.flatten) (hp₂ : m₂.Perm files₂.flatten)
    (hs₁ : SortedRows m₁) (hs₂ : SortedRows m₂) :
    psmLevel true m₁ = psmLevel true m₂ :=
  C03_levelSpec_unique_tiefree Row.spec rows _ _ hinj
    (C03_psm_level_spec c₁ h₁ rows files₁ hf₁ m₁ hp₁ hs₁)
    (C03_psm_level_spec c₂ h₂ rows files₂ hf₂ m₂ hp₂ hs₂)

/-- … and so is every roll-up level, and the whole output of the streaming scan -/
theorem C05_confidence_all_levels_chunk_invariant (c₁ c₂ : Nat) (h₁ : 0 < c₁) (h₂ : 0 < c₂)
    (rows : List Row) (hinj : ∀ a ∈ rows, ∀ b ∈ rows, a.score = b.score → a = b)
    (files₁ files₂ : List (List Row))
    (hf₁ : List.Forall₂ (IsChunkFile true) (chunksOf c₁ rows) files₁)
    (hf₂ : List.Forall₂ (IsChunkFile true) (chunksOf c₂ rows) files₂)
    (m₁ m₂ : List Row) (hp₁ : m₁.Perm files₁.flatten) (hp₂ : m₂.Perm files₂.flatten)
    (hs₁ : SortedRows m₁) (hs₂ : SortedRows m₂) (n : Nat) :
    scan true n m₁ = scan true n m₂ := by
  have h := C05_confidence_chunk_invariant c₁ c₂ h₁ h₂ rows hinj files₁ files₂ hf₁ hf₂ m₁ m₂ hp₁ hp₂ hs₁ hs₂
  rw [C03_scan_eq_levels, C03_scan_eq_levels]
  have hr : rollupLevel true m₁ = rollupLevel true m₂ := by
    funext l; unfold rollupLevel; rw [h]
  rw [h, hr]

/-- de-duplication off: for any two chunk sizes the PSM level holds the same rows (every PSM) -/
theorem C05_no_dedup_chunk_invariant (c₁ c₂ : Nat) (h₁ : 0 < c₁) (h₂ : 0 < c₂) (rows : List Row)
    (files₁ files₂ : List (List Row))
    (hf₁ : List.Forall₂ (IsChunkFile false) (chunksOf c₁ rows) files₁)
    (hf₂ : List.Forall₂ (IsChunkFile false) (chunksOf c₂ rows) files₂)
    (m₁ m₂ : List Row) (hp₁ : m₁.Perm files₁.flatten) (hp₂ : m₂.Perm files₂.flatten)
    (hs₁ : SortedRows m₁) (hs₂ : SortedRows m₂) :
    (psmLevel false m₁).Perm (psmLevel false m₂) :=
  (C03_no_dedup_keeps_all c₁ h₁ rows files₁ hf₁ m₁ hp₁ hs₁).1.trans
    (C03_no_dedup_keeps_all c₂ h₂ rows files₂ hf₂ m₂ hp₂ hs₂).1.symm

/-- prediction chunk size: scores are the same for any two chunk sizes — in particular when a
chunk happens to contain no PSM of some fold -/
theorem C05_predict_chunk_invariant {ρ σ : Type} [Inhabited σ] (c₁ c₂ : Nat) (h₁ : 0 < c₁) (h₂ : 0 < c₂)
    (nfolds : Nat) (rows : List ρ) (routing : List Nat) (hlen : routing.length = rows.length)
    (hr : ∀ f ∈ routing, f < nfolds)
    (score : Nat → ρ → σ) (target : ρ → Bool) (cal : List (σ × Bool) → σ → σ) :
    predict c₁ nfolds rows routing score target cal = predict c₂ nfolds rows routing score target cal := by
  rw [C02_predict_eq_spec c₁ h₁ nfolds rows routing hlen hr, C02_predict_eq_spec c₂ h₂ nfolds rows routing hlen hr]

/-- training read chunk size, worker completion order and set iteration order: the
materialised training rows are the same for any two configurations -/
theorem C05_materialise_invariant {ρ : Type} (c₁ c₂ : Nat) (h₁ : 0 < c₁) (h₂ : 0 < c₂) (rows : List ρ)
    (train : List Nat) (hnd : train.Nodup) (hlt : ∀ i ∈ train, i < rows.length)
    (ps₁ pieces₁ ps₂ pieces₂ : List (List (Nat × ρ)))
    (hps₁ : List.Forall₂ List.Perm ((chunks c₁ (rows.zipIdx.map (fun x => (x.2, x.1)))).map (chunkPiece train)) ps₁)
    (hps₂ : List.Forall₂ List.Perm ((chunks c₂ (rows.zipIdx.map (fun x => (x.2, x.1)))).map (chunkPiece train)) ps₂)
    (hp₁ : pieces₁.Perm ps₁) (hp₂ : pieces₂.Perm ps₂) :
    reindex pieces₁.flatten train = reindex pieces₂.flatten train := by
  rw [C02_materialise_chunks c₁ h₁ rows train hnd hlt ps₁ pieces₁ hps₁ hp₁,
    C02_materialise_chunks c₂ h₂ rows train hnd hlt ps₂ pieces₂ hps₂ hp₂]

/-- merge-sort reader chunk size: any two chunk sizes give the same merged stream (both merges) -/
theorem C05_merge_chunk_invariant {α : Type} (le : α → α → Bool) (c₁ c₂ : Nat) (h₁ : 0 < c₁) (h₂ : 0 < c₂)
    (files : List (List α)) (desc : Bool) :
    Merge.kmergeFiles le c₁ files = Merge.kmergeFiles le c₂ files ∧
    Merge.kmergeCheckedFiles le desc c₁ files = Merge.kmergeCheckedFiles le desc c₂ files := by
  constructor
  · rw [Merge.C14_kmerge_chunk_invariant le c₁ h₁, Merge.C14_kmerge_chunk_invariant le c₂ h₂]
  · rw [Merge.C14_checked_chunk_invariant le desc c₁ h₁, Merge.C14_checked_chunk_invariant le desc c₂ h₂]

/-- worker completion order of the fold fits: whatever order the fitted models arrive in,
sorting by the (pairwise distinct) fold tag gives one and the same list -/
theorem C05_fit_order_invariant {μ : Type} (fold : μ → Nat) (ms₁ ms₂ : List μ) (hperm : ms₁.Perm ms₂)
    (hnd : (ms₁.map fold).Nodup) :
    ms₁.mergeSort (fun a b => decide (fold a ≤ fold b)) = ms₂.mergeSort (fun a b => decide (fold a ≤ fold b)) := by
  have tr : ∀ a b c : μ, decide (fold a ≤ fold b) = true → decide (fold b ≤ fold c) = true →
      decide (fold a ≤ fold c) = true := by
    intro a b c h1 h2; simp only [decide_eq_true_eq] at *; omega
  have tot : ∀ a b : μ, (decide (fold a ≤ fold b) || decide (fold b ≤ fold a)) = true := by
    intro a b; simp only [Bool.or_eq_true, decide_eq_true_eq]; omega
  have s₁ := List.pairwise_mergeSort tr tot ms₁
  have s₂ := List.pairwise_mergeSort tr tot ms₂
  have p : (ms₁.mergeSort (fun a b => decide (fold a ≤ fold b))).Perm
      (ms₂.mergeSort (fun a b => decide (fold a ≤ fold b))) :=
    (List.mergeSort_perm ms₁ _).trans (hperm.trans (List.mergeSort_perm ms₂ _).symm)
  have hnd' : ∀ l : List μ, l.Perm ms₁ → (l.map fold).Nodup := fun l hl =>
    (hl.map fold).nodup_iff.mpr hnd
  have strict : ∀ l : List μ, l.Perm ms₁ → l.Pairwise (fun a b => decide (fold a ≤ fold b) = true) →
      l.Pairwise (fun a b => fold a < fold b) := by
    intro l hl hs
    have nd := hnd' l hl
    rw [List.nodup_iff_pairwise_ne, List.pairwise_map] at nd
    refine (hs.and nd).imp ?_
    intro a b h
    have h1 : fold a ≤ fold b := by simpa using h.1
    exact lt_of_le_of_ne h1 h.2
  exact List.Perm.eq_of_pairwise (le := fun a b => fold a < fold b)
    (fun a b _ _ hab hba => absurd (lt_trans hab hba) (lt_irrefl _))
    (strict _ (List.mergeSort_perm ms₁ _) s₁)
    (strict _ ((List.mergeSort_perm ms₂ _).trans hperm.symm) s₂) p

/-- file format and row-group layout: a delimited-text file and a Parquet file (any batching)
holding the same table deliver, for any chunk sizes, chunk streams that concatenate to the
same rows with the same header -/
theorem C05_format_invariant {β : Type} (ft : Tabular.CsvFile β) (fp : Tabular.PqFile β)
    (c₁ c₂ : Nat) (h₁ : 1 ≤ c₁) (h₂ : 1 ≤ c₂) (cols : Option (List Tabular.Name)) (F : Tabular.DF β)
    (hT : (Tabular.csvReader ft).read cols = some F) (hP : (Tabular.pqReader fp).read cols = some F) :
    ∃ ch₁ ch₂, (Tabular.csvReader ft).chunked c₁ cols = some ch₁ ∧
      (Tabular.pqReader fp).chunked c₂ cols = some ch₂ ∧
      ch₁.flatMap (fun ch => ch.rows) = ch₂.flatMap (fun ch => ch.rows) := by
  obtain ⟨a, ha, hra, _, _⟩ :=
    Tabular.C13_reader_chunked_eq_read _ (Tabular.csvReader_chunkOK ft) c₁ h₁ cols F hT
  obtain ⟨b, hb, hrb, _, _⟩ :=
    Tabular.C13_reader_chunked_eq_read _ (Tabular.pqReader_chunkOK fp) c₂ h₂ cols F hP
  exact ⟨a, b, ha, hb, hra.trans hrb.symm⟩

/-- column-scan chunk size, row-scan chunk size and the completion order of the scan tasks of
`read_pin`: any two configurations parse a well-formed table into the same dataset -/
theorem C05_colscan_chunk_invariant {t : Pin.Table} (h : Pin.WellFormed t) {c r c' r' : Nat}
    (hc : 1 ≤ c) (hr : 1 ≤ r) (hc' : 1 ≤ c') (hr' : 1 ≤ r')
    (order order' : List (List Pin.Name) → List (List Pin.Name))
    (hord : ∀ l, (order l).Perm l) (hord' : ∀ l, (order' l).Perm l) :
    Pin.readPercolatorSched {} c r t order = Pin.readPercolatorSched {} c' r' t order' :=
  Pin.C10_chunking_and_schedule_irrelevant h hc hr hc' hr' order order' hord hord'

/-! non-vacuity: a permutation of three fold-tagged models is put back in fold order -/
#guard [(3, "c"), (1, "a"), (2, "b")].mergeSort (fun a b => decide (a.1 ≤ b.1)) == [(1, "a"), (2, "b"), (3, "c")]

end Mk
