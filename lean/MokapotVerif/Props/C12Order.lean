import MokapotVerif.Lemmas.FitOrder
import MokapotVerif.Props.C12Full
/-!
# C12, second audit pass — input row order for the two remaining entry points

Property theorems only.  `Props/C12.lean` states independence of the *input row order* for `fitModel`
(`C12_fitModel_row_order_invariant`); for `Model.fit` with the hyper-parameter search step
(`fitModelCv`) and for the re-fit of a trained model (`refitModel`) only the shuffle switch / draw
was covered (`C12_fitModelCv_shuffle_invariant`, `C12_refit_shuffle_invariant`) — gaps G1-b and G1-d
of `GAPS-C12.md`.  Both are closed here, unbounded, for any permutation `p` of the rows and any two
shuffle settings / draws.
-/
namespace Mk.Fit
variable {α β ρ θ ν π : Type}

/-- **`Model.fit` with the hyper-parameter search, any input row order.**  Present the same PSMs in
another row order `p` (rows, feature columns and target flags permuted together), any shuffle
switch / draw on either side.  For a search and an estimator that ignore the order of their
examples: same outcome, same learned state, same `_needs_cv` flag, and corresponding search and
`fit` calls receive the same multiset of (row, class) pairs. -/
theorem C12_fitModelCv_row_order_invariant (hs : HyperSearch ρ θ π) (hsearch : SearchPermInvariant hs)
    (needsCv : Bool) (est : Est ρ α θ) (hfit : PermInvariant est) (le : α → α → Bool) (hle : TotalPre le)
    (thr : Rat) (cfg1 cfg2 : FitCfg) (hit : cfg1.maxIter = cfg2.maxIter) (hov : cfg1.override = cfg2.override)
    (hdir : cfg1.direction = cfg2.direction) (th0 : θ) (rows : List ρ) (cols : List (List α))
    (targets : List Bool) (p : List Nat) (hr : rows.length = targets.length)
    (hc : ∀ c ∈ cols, c.length = targets.length) (hp : p.Perm (List.range rows.length))
    (hp1 : cfg1.perm.Perm (List.range rows.length)) (hp2 : cfg2.perm.Perm (List.range rows.length)) :
    let permuted := fitModelCv hs needsCv est le thr cfg1 th0 (gather rows p) (cols.map (fun c => gather c p))
      (gather targets p)
    let original := fitModelCv hs needsCv est le thr cfg2 th0 rows cols targets
    permuted.out.status = original.out.status ∧ permuted.out.theta = original.out.theta ∧
      List.Forall₂ List.Perm permuted.out.trace original.out.trace ∧
      List.Forall₂ List.Perm permuted.searches original.searches ∧ permuted.needsCv = original.needsCv := by
  intro permuted original
  have hpt : p.Perm (List.range targets.length) := by rw [← hr]; exact hp
  have hlt := perm_range_lt hp
  have hplen : p.length = rows.length := by simpa using hp.length_eq
  have hgr : (gather rows p).length = rows.length := by rw [gather_length rows p hlt, hplen]
  show (fitModelCv hs needsCv est le thr cfg1 th0 (gather rows p) (cols.map (fun c => gather c p))
      (gather targets p)).out.status = (fitModelCv hs needsCv est le thr cfg2 th0 rows cols targets).out.status ∧
    (fitModelCv hs needsCv est le thr cfg1 th0 (gather rows p) (cols.map (fun c => gather c p))
      (gather targets p)).out.theta = (fitModelCv hs needsCv est le thr cfg2 th0 rows cols targets).out.theta ∧
    List.Forall₂ List.Perm (fitModelCv hs needsCv est le thr cfg1 th0 (gather rows p) (cols.map (fun c => gather c p))
      (gather targets p)).out.trace (fitModelCv hs needsCv est le thr cfg2 th0 rows cols targets).out.trace ∧
    List.Forall₂ List.Perm (fitModelCv hs needsCv est le thr cfg1 th0 (gather rows p) (cols.map (fun c => gather c p))
      (gather targets p)).searches (fitModelCv hs needsCv est le thr cfg2 th0 rows cols targets).searches ∧
    (fitModelCv hs needsCv est le thr cfg1 th0 (gather rows p) (cols.map (fun c => gather c p))
      (gather targets p)).needsCv = (fitModelCv hs needsCv est le thr cfg2 th0 rows cols targets).needsCv
  unfold fitModelCv
  rw [all_gather targets p hpt, all_gather targets p hpt]
  split
  · exact ⟨rfl, rfl, List.Forall₂.nil, List.Forall₂.nil, rfl⟩
  split
  · exact ⟨rfl, rfl, List.Forall₂.nil, List.Forall₂.nil, rfl⟩
  rw [startLabels_gather le hle thr targets cols hc p hpt, ← hdir]
  cases hst : startLabels le thr targets cols cfg1.direction with
  | none => exact ⟨rfl, rfl, List.Forall₂.nil, List.Forall₂.nil, rfl⟩
  | some st =>
    simp only [Option.map_some, Option.getD_some]
    have hlen : st.labels.length = rows.length := by
      rw [hr]; exact startLabels_length le thr targets cols _ hc st hst
    have hgs : (gather st.labels p).length = (gather rows p).length := by
      rw [hgr, gather_length st.labels p (by rw [hlen]; exact hlt), hplen]
    rw [C12_search_then_fit hs needsCv est le thr cfg1 th0 (gather rows p) (gather targets p)
        ⟨gather st.labels p, st.featPass⟩ (by rw [hgr]; exact hp1) hgs,
      C12_search_then_fit hs needsCv est le thr cfg2 th0 rows targets st hp2 hlen]
    simp only
    have ho1 : (if cfg1.shuffle = true then cfg1.perm else List.range (gather rows p).length).Perm
        (List.range rows.length) := by
      rw [hgr]; split; exact hp1; exact List.Perm.refl _
    have ho2 : (if cfg2.shuffle = true then cfg2.perm else List.range rows.length).Perm (List.range rows.length) := by
      split; exact hp2; exact List.Perm.refl _
    have hex := cvSpec_row_perm rows st.labels p _ _ rows.length rfl hlen hp ho2 ho1
    have hth : cvTheta hs needsCv th0
          (cvSpec (if cfg1.shuffle = true then cfg1.perm else List.range (gather rows p).length) (gather rows p)
            (gather st.labels p))
        = cvTheta hs needsCv th0
          (cvSpec (if cfg2.shuffle = true then cfg2.perm else List.range rows.length) rows st.labels) := by
      unfold cvTheta
      split
      · rw [hsearch _ _ hex]
      · rfl
    rw [hth]
    obtain ⟨a1, a2, a3⟩ := runFrom_row_order_invariant est hfit le hle thr cfg1 cfg2 hit hov
      (cvTheta hs needsCv th0 (cvSpec (if cfg2.shuffle = true then cfg2.perm else List.range rows.length) rows st.labels))
      rows targets st p hr hlen hp hp1 hp2
    refine ⟨a1, a2, a3, ?_, trivial⟩
    split
    · exact List.Forall₂.cons hex List.Forall₂.nil
    · exact List.Forall₂.nil

/-- **Re-fitting a trained model, any input row order.**  `Model.fit` on an already trained model
(start labels from the by-name scores of the stored state), with the PSMs of the new dataset
presented in another row order `p` — training rows, target flags and the named (old-scaled) columns
permuted together — and any shuffle switch / draw on either side: for an order-insensitive
estimator the outcome, the learned state and, as multisets, the examples of every `fit` call are
the same. -/
theorem C12_refit_row_order_invariant [DecidableEq ν] (est : Est (List β) α θ) (hfit : PermInvariant est)
    (le : α → α → Bool) (hle : TotalPre le) (thr : Rat) (cfg1 cfg2 : FitCfg) (hit : cfg1.maxIter = cfg2.maxIter)
    (hov : cfg1.override = cfg2.override) (th : θ) (rows : List (List β)) (targets : List Bool) (stored : List ν)
    (named : List (ν × List β)) (p : List Nat) (hr : rows.length = targets.length)
    (hn : ∀ c ∈ named, c.2.length = targets.length) (hp : p.Perm (List.range rows.length))
    (hp1 : cfg1.perm.Perm (List.range rows.length)) (hp2 : cfg2.perm.Perm (List.range rows.length)) :
    let permuted := refitModel est le thr cfg1 th (gather rows p) (gather targets p) stored (permuteRows named p)
    let original := refitModel est le thr cfg2 th rows targets stored named
    permuted.status = original.status ∧ permuted.theta = original.theta ∧
      List.Forall₂ List.Perm permuted.trace original.trace := by
  intro permuted original
  have hpt : p.Perm (List.range targets.length) := by rw [← hr]; exact hp
  have hgl : (gather targets p).length = targets.length := by
    rw [gather_length targets p (perm_range_lt hpt)]; simpa using hpt.length_eq
  show (refitModel est le thr cfg1 th (gather rows p) (gather targets p) stored (permuteRows named p)).status
      = (refitModel est le thr cfg2 th rows targets stored named).status ∧
    (refitModel est le thr cfg1 th (gather rows p) (gather targets p) stored (permuteRows named p)).theta
      = (refitModel est le thr cfg2 th rows targets stored named).theta ∧
    List.Forall₂ List.Perm
      (refitModel est le thr cfg1 th (gather rows p) (gather targets p) stored (permuteRows named p)).trace
      (refitModel est le thr cfg2 th rows targets stored named).trace
  unfold refitModel
  rw [all_gather targets p hpt, all_gather targets p hpt]
  split
  · exact ⟨rfl, rfl, List.Forall₂.nil⟩
  split
  · exact ⟨rfl, rfl, List.Forall₂.nil⟩
  rw [hgl, predictByName_permuteRows (est.score th) stored targets.length named hn p hpt]
  cases hsc : predictByName (est.score th) stored targets.length named with
  | none => exact ⟨rfl, rfl, List.Forall₂.nil⟩
  | some sc =>
    simp only [Option.map_some, Option.getD_some, refitFrom]
    have hscl : sc.length = targets.length := predictByName_length _ _ _ _ sc hsc
    rw [trainedStart_gather le hle thr targets sc p hpt hscl]
    cases hst : trainedStart le thr targets sc with
    | none => exact ⟨rfl, rfl, List.Forall₂.nil⟩
    | some st =>
      simp only [Option.map_some, Option.getD_some]
      have hlen : st.labels.length = rows.length := by
        rw [hr]; exact trainedStart_length le thr targets sc st hscl hst
      exact runFrom_row_order_invariant est hfit le hle thr cfg1 cfg2 hit hov th rows targets st p hr hlen hp hp1 hp2

/-! ## Non-vacuity and evaluation tests

(`SearchPermInvariant cntSearch`, `PermInvariant cntEst`, `TotalPre leI` are exhibited in `Props/C12.lean`,
`PermInvariant cntEstL` in `Props/C12Full.lean`.) -/

def exNamed : List (String × List Int) := [("b", [5, -1, 3, 4]), ("a", [1, 2, 3, 4])]
def exRows : List (List Int) := [[1, 5], [2, -1], [3, 3], [4, 4]]

example : ([3, 1, 0, 2] : List Nat).Perm (List.range exRows.length) := by decide
example : exRows.length = exTargets.length := rfl
example : ∀ c ∈ exNamed, c.2.length = exTargets.length := by decide
example : ∀ c ∈ [[(5 : Int), -1, 3, 4], [1, 2, 3, 4]], c.length = exTargets.length := by decide

-- a re-fit that trains (state 1 → 7) and the same re-fit with the PSMs in the order 3 1 0 2 and the other switch
#guard (refitModel cntEstL leI (3/4) ⟨true, [2, 0, 3, 1], 2, true, none⟩ 1 exRows exTargets ["a", "b"] exNamed).theta == some 7
#guard (refitModel cntEstL leI (3/4) ⟨false, [0, 1, 2, 3], 2, true, none⟩ 1 (gather exRows [3, 1, 0, 2])
    (gather exTargets [3, 1, 0, 2]) ["a", "b"] (permuteRows exNamed [3, 1, 0, 2])).theta == some 7
-- `Model.fit` with a search step on the same two presentations
#guard (fitModelCv cntSearch true cntEst leI (3/4) ⟨true, [2, 0, 3, 1], 2, true, none⟩ 0 [5, -1, 3, 4] [[5, -1, 3, 4]]
    exTargets).out.theta
  == (fitModelCv cntSearch true cntEst leI (3/4) ⟨false, [0, 1, 2, 3], 2, true, none⟩ 0 (gather [5, -1, 3, 4] [3, 1, 0, 2])
    [gather [5, -1, 3, 4] [3, 1, 0, 2]] (gather exTargets [3, 1, 0, 2])).out.theta
#guard (fitModelCv cntSearch true cntEst leI (3/4) ⟨true, [2, 0, 3, 1], 2, true, none⟩ 0 [5, -1, 3, 4] [[5, -1, 3, 4]]
    exTargets).out.theta.isSome

end Mk.Fit
