import MokapotVerif.Lemmas.DetermKey
import MokapotVerif.Props.C08Seed
/-!
# C08 — the fold key of `_split` (third pass)

Model: `Model/DetermKey.lean` (dataset.py:654-699: `crc32(str(tuple(x[:2])).encode())`, argsort, cuts at group
starts).  "Bit-identical fold assignments … in a fresh interpreter with a different hash seed": which PSMs make up a
fold is a function of the texts of the first two spectrum-key cells of the rows — not of the order numpy's (unstable)
`argsort` gives to equal keys, not of the other key columns, not of the interpreter session.  The fold SIZES are what
the generator model of the first two passes (`splitDraws`, `mainDrawsOf`, `trainInputs`) takes as a parameter: they
are now derived from the table.
-/
namespace Mk.Determ
open Mk.Brew

/-- the executable instance (stable merge sort) is an argsort -/
theorem mergeSort_isArgsort (hashes : List Nat) :
    IsArgsort hashes (hashes.zipIdx.mergeSort (fun a b => decide (a.1 ≤ b.1))) := by
  refine ⟨?_, List.mergeSort_perm _ _⟩
  unfold SortedByHash
  have := List.pairwise_mergeSort (le := fun (a b : Nat × Nat) => decide (a.1 ≤ b.1))
    (fun a b c hab hbc => by simp only [decide_eq_true_eq] at *; omega)
    (fun a b => by simp only [Bool.or_eq_true, decide_eq_true_eq]; omega) hashes.zipIdx
  exact this.imp (fun h => by simpa using h)

/-- **folds_any_two_argsorts** (first sentence of C08 for "fold assignments"): `_split` run twice on the same keys —
whatever order `np.argsort` (not stable) gives to equal keys in either run, whatever the in-fold shuffles do — cuts
the same folds: the second run succeeds when the first does, and fold by fold the rows are the same. -/
theorem C08_folds_any_two_argsorts (hashes : List Nat) (s s' : List (Nat × Nat)) (h : IsArgsort hashes s)
    (h' : IsArgsort hashes s') (folds : Nat) (fs fsShuffled : List (List Nat))
    (hfs : splitWith s folds = some fs) (hsh : List.Forall₂ List.Perm fs fsShuffled) :
    ∃ fs', splitWith s' folds = some fs' ∧ List.Forall₂ List.Perm fsShuffled fs' := by
  obtain ⟨fs', h1, h2⟩ := splitWith_two_argsorts hashes s s' h h' folds fs hfs
  refine ⟨fs', h1, ?_⟩
  exact forall₂_perm_trans (forall₂_perm_symm hsh) h2

/-- **split_refusal_any_two_argsorts**: … and the `IndexError` of `_split` (a split point behind the last group
start) is raised in both runs or in neither. -/
theorem C08_split_refusal_any_two_argsorts (hashes : List Nat) (s s' : List (Nat × Nat)) (h : IsArgsort hashes s)
    (h' : IsArgsort hashes s') (folds : Nat) :
    splitWith s folds = none ↔ splitWith s' folds = none := by
  constructor
  · intro hn
    cases hc : splitWith s' folds with
    | none => rfl
    | some fs' =>
      obtain ⟨fs, h1, _⟩ := splitWith_two_argsorts hashes s' s h' h folds fs' hc
      rw [hn] at h1; cases h1
  · intro hn
    cases hc : splitWith s folds with
    | none => rfl
    | some fs =>
      obtain ⟨fs', h1, _⟩ := splitWith_two_argsorts hashes s s' h h' folds fs hc
      rw [hn] at h1; cases h1

/-- **fold_key_session_independent**: the key of a row is computed from the texts of its first two key cells and
nothing else: two sessions (salted `str` hashes `S`, `S'`) and two tables that agree on the first two key cells of
every row give the same key column.  (Refuted for the builtin `hash()`: `Mutants/Determ.lean: builtinHashKey_violates`.) -/
theorem C08_fold_key_session_independent (S S' : Session) (rows rows' : List (List String))
    (h : rows.map (·.take 2) = rows'.map (·.take 2)) :
    rows.map (foldKeyIn S) = rows'.map (foldKeyIn S') :=
  foldKeyIn_cols_eq S S' rows rows' h

/-- **fold_membership_from_first_two_cells**: the same, carried through `_split`: two sessions, two presentations
of the table that agree on the first two key cells (other key columns, row texts beyond them may differ), any
argsorts: the same folds. -/
theorem C08_fold_membership_from_first_two_cells (S S' : Session) (rows rows' : List (List String))
    (h : rows.map (·.take 2) = rows'.map (·.take 2))
    (s s' : List (Nat × Nat)) (hs : IsArgsort (rows.map (foldKeyIn S)) s) (hs' : IsArgsort (rows'.map (foldKeyIn S')) s')
    (folds : Nat) (fs : List (List Nat)) (hfs : splitWith s folds = some fs) :
    ∃ fs', splitWith s' folds = some fs' ∧ List.Forall₂ List.Perm fs fs' := by
  rw [← C08_fold_key_session_independent S S' rows rows' h] at hs'
  exact splitWith_two_argsorts _ s s' hs hs' folds fs hfs

/-- **split_rows_entry** (refinement: the entry point's model = the abstract split of C02 on the crc32 keys): when
`_split` (executable instance) returns `fs`, then `fs` has `folds` folds that partition the rows, rows whose first
two key cells have the same text share a fold, and every other argsort of the same table returns the same folds. -/
theorem C08_split_rows_entry (rows : List (List String)) (folds : Nat) (hf : 1 ≤ folds) (fs : List (List Nat))
    (h : splitRows rows folds = some fs) :
    fs.length = folds ∧ fs.flatten.Perm (List.range rows.length) ∧
    (∀ i j (hi : i < rows.length) (hj : j < rows.length), rows[i].take 2 = rows[j].take 2 →
      ∀ fold ∈ fs, (i ∈ fold ↔ j ∈ fold)) ∧
    (∀ s', IsArgsort (rows.map foldKey) s' → ∃ fs', splitWith s' folds = some fs' ∧ List.Forall₂ List.Perm fs fs') := by
  unfold splitRows split at h
  have ha := mergeSort_isArgsort (rows.map foldKey)
  obtain ⟨h1, h2, h3⟩ := C02_split_anysort _ _ ha folds hf fs fs h (forall₂_perm_refl fs)
  refine ⟨h1, by simpa using h2, ?_, ?_⟩
  · intro i j hi hj hk fold hfold
    refine h3 i j (by simpa using hi) (by simpa using hj) ?_ fold hfold
    simp [hi, hj, foldKey, hk]
  · intro s' hs'
    exact splitWith_two_argsorts _ _ s' ha hs' folds fs h

/-- **fold_key_range**: the key is a 32-bit unsigned integer for every text — exact in the int64 array that numpy
builds from the `apply_along_axis` results, so `argsort` / `unique` compare integers, never rounded floats. -/
theorem C08_fold_key_range (cells : List String) : foldKey cells < 2 ^ 32 := crc32_lt _

/-- **rng_plan_from_fold_membership**: the requests `brew` makes on its generator were a function of the fold
SIZES (first two passes); fold by fold permuted folds (another argsort, another shuffle, another session) have the
same sizes, hence the same draw plan and the same random inputs of every fit. -/
theorem C08_rng_plan_from_fold_membership {σ ν : Type} (G : Gen σ ν) (fss fss' : List (List (List Nat)))
    (h : List.Forall₂ (List.Forall₂ List.Perm) fss fss')
    (defaultModel pretrained : Bool) (subsetMax : Option Nat) (entropy s0 : σ) (m : ModelArg σ) (sched : List Nat) (j : Nat) :
    foldSizesOf fss = foldSizesOf fss' ∧
    mainDrawsOf defaultModel pretrained subsetMax (foldSizesOf fss) =
      mainDrawsOf defaultModel pretrained subsetMax (foldSizesOf fss') ∧
    trainInputs G entropy s0 m subsetMax (foldSizesOf fss) sched j =
      trainInputs G entropy s0 m subsetMax (foldSizesOf fss') sched j := by
  have e : foldSizesOf fss = foldSizesOf fss' := by
    unfold foldSizesOf
    induction h with
    | nil => rfl
    | cons hab _ ih =>
      simp only [List.map_cons, ih, List.cons.injEq, and_true]
      clear ih
      induction hab with
      | nil => rfl
      | cons hp _ ih2 => simp [hp.length_eq, ih2]
  exact ⟨e, by rw [e], by rw [e]⟩

/-- **brew_random_inputs_function_of_tables** (end to end for the training half of `brew`, as far as a theorem
carries it): two runs in two interpreter sessions (salted hashes `S`, `S'`; entropy sources `entropy`, `entropy'`)
on tables that agree on the first two spectrum-key cells of every row, any argsort in either run, any in-fold
shuffles, any worker schedules: when the first run's splits succeed so do the second's, every collection is cut into
the same folds, `brew` makes the same requests on its generator, and the fit of every fold receives the same
cross-validation seed and the same row permutation. -/
theorem C08_brew_random_inputs_function_of_tables {σ ν : Type} (G : Gen σ ν) (S S' : Session) (folds : Nat)
    (tables tables' : List (List (List String))) (sorteds sorteds' : List (List (Nat × Nat)))
    (h : List.Forall₂ (fun r r' => r.map (·.take 2) = r'.map (·.take 2)) tables tables')
    (hs : List.Forall₂ (fun r s => IsArgsort (r.map (foldKeyIn S)) s) tables sorteds)
    (hs' : List.Forall₂ (fun r s => IsArgsort (r.map (foldKeyIn S')) s) tables' sorteds')
    (fss : List (List (List Nat))) (hfs : splitAllWith sorteds folds = some fss) :
    ∃ fss', splitAllWith sorteds' folds = some fss' ∧ List.Forall₂ (List.Forall₂ List.Perm) fss fss' ∧
      ∀ (defaultModel pretrained : Bool) (subsetMax : Option Nat) (entropy entropy' s0 : σ) (m : ModelArg σ)
        (sched sched' : List Nat) (j : Nat), j < nFolds (foldSizesOf fss) → j ∈ sched → j ∈ sched' →
        mainDrawsOf defaultModel pretrained subsetMax (foldSizesOf fss) =
          mainDrawsOf defaultModel pretrained subsetMax (foldSizesOf fss') ∧
        trainInputs G entropy s0 m subsetMax (foldSizesOf fss) sched j =
          trainInputs G entropy' s0 m subsetMax (foldSizesOf fss') sched' j := by
  obtain ⟨fss', h1, h2⟩ := splitAllWith_two_sessions S S' folds tables tables' sorteds sorteds' h hs hs' fss hfs
  refine ⟨fss', h1, h2, ?_⟩
  intro dm p sm entropy entropy' s0 m sched sched' j hj hjs hjs'
  obtain ⟨e, e1, _⟩ := C08_rng_plan_from_fold_membership G fss fss' h2 dm p sm entropy s0 m sched j
  refine ⟨e1, ?_⟩
  rw [← e]
  exact C08_train_inputs_reproducible G entropy entropy' s0 m sm (foldSizesOf fss) sched sched' j hj hjs hjs'

/-! ## non-vacuity and tests -/

-- zlib's check value, and the key of a row whose first key cell is a text (`filename`)
#guard crc32 (utf8 "123456789") == 0xCBF43926
#guard foldKey ["'run0.mzML'", "1000", "500.25"] == 3247733485
#guard tupleText ["np.int64(7)"] == "(np.int64(7),)"
#guard splitRows [["'a'", "1"], ["'a'", "2"], ["'a'", "1"], ["'b'", "1"], ["'b'", "7"]] 2 == some [[3, 4, 1], [0, 2]]
-- a split point behind the last group start: IndexError
#guard splitRows [["'a'", "1"], ["'a'", "1"], ["'a'", "1"]] 2 == none

/-- two different argsorts of one key column with ties (rows 0, 2 and rows 1, 3), as hypothesised above -/
example : IsArgsort [5, 3, 5, 3] [(3, 1), (3, 3), (5, 0), (5, 2)] ∧ IsArgsort [5, 3, 5, 3] [(3, 3), (3, 1), (5, 2), (5, 0)] ∧
    splitWith [(3, 1), (3, 3), (5, 0), (5, 2)] 2 = some [[1, 3], [0, 2]] ∧
    splitWith [(3, 3), (3, 1), (5, 2), (5, 0)] 2 = some [[3, 1], [2, 0]] := by
  refine ⟨⟨by unfold SortedByHash; decide, by decide⟩, ⟨by unfold SortedByHash; decide, by decide⟩, by decide, by decide⟩

/-- two tables that differ beyond the first two key cells -/
example : ([["'f'", "1", "9.5"], ["'f'", "2", "1.0"]] : List (List String)).map (·.take 2) =
    [["'f'", "1", "0.0"], ["'f'", "2"]].map (·.take 2) := by decide

/-- two collections, two sessions, the second presentation with other third key cells and other argsorts of the
ties: the hypotheses above hold together -/
example :
    List.Forall₂ (fun (r r' : List (List String)) => r.map (·.take 2) = r'.map (·.take 2))
      [[["'f'", "1", "9.5"], ["'f'", "2", "1.0"], ["'f'", "1", "9.5"], ["'f'", "2", "1.0"]], [["'g'", "1"], ["'g'", "2"]]]
      [[["'f'", "1", "0.5"], ["'f'", "2"], ["'f'", "1"], ["'f'", "2", "7"]], [["'g'", "1", "x"], ["'g'", "2", "y"]]] ∧
    splitAllWith [[(3, 1), (3, 3), (5, 0), (5, 2)], [(1, 0), (2, 1)]] 2 = some [[[1, 3], [0, 2]], [[0], [1]]] ∧
    splitAllWith [[(3, 3), (3, 1), (5, 2), (5, 0)], [(1, 0), (2, 1)]] 2 = some [[[3, 1], [2, 0]], [[0], [1]]] ∧
    foldSizesOf [[[1, 3], [0, 2]], [[0], [1]]] = [[2, 2], [1, 1]] := by
  refine ⟨List.Forall₂.cons (by decide) (List.Forall₂.cons (by decide) List.Forall₂.nil), by decide, by decide, by decide⟩

end Mk.Determ
