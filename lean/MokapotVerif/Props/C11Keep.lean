import MokapotVerif.Lemmas.CalibrateKeep
import MokapotVerif.Props.C11Scale
/-!
# C11 (third audit pass) — from `_predict` to what `brew` returns

The property is observed at `brew(...)`.  Between `list(_predict(...))` (the per-fold
calibration, `Props/C11Gate.lean`) and the `return` of `brew` stands one more decision
(brew.py:253-291): the calibrated score vectors are handed back untouched **unless** some fold
model may be overruled (`override=False`) and the best single feature passed *strictly* more
targets in training (`feat_total`) than the calibrated scores accept at `test_fdr`
(`pred_total`, counted per collection on the pooled vector).  The theorems state exactly when
the scores of the statement are the returned ones (in particular on a tie), that the explicit
error of a fold without accepted target is never masked by that fallback, and that the decision
inherits the scale-freeness of the calibration.

Reading note (recorded in gaps/GAPS-C11.md, third pass): when `feat_total > pred_total` the
unchanged code returns the raw values of the best feature — by design, this is the branch
property C07 is about — so the statement of C11 is read under "the learned model is kept";
`C11_keep_returns_calibrated_iff` makes that precondition exact.
-/
namespace Mk.Calibrate

/-- **The returned scores are the per-fold calibrated ones iff the learned model is kept.**
Whenever `_predict` returns (finite) score vectors `sc`, `brew` returns exactly `sc` iff every
fold model carries `override`, or the largest `feat_pass` is `≤` the number of targets that the
defining-formula q-value accepts at `thr` on the pooled vectors — `≤`, not `<`: a tie keeps the
learned model.  Unbounded in collections, rows, folds, chunk size, models. -/
theorem C11_keep_returns_calibrated_iff (c : Nat) (dfs : List Bool) (thr : Rat) (ms : List (Bool × Nat))
    (colls : List (List FRow)) (sc : List (List XR)) (fin : List (List Rat))
    (hp : predictColls c dfs thr colls = Except.ok sc) (hf : allFinColls sc = some fin) :
    brewReturn c dfs thr ms colls = Except.ok (some (BrewOut.kept sc)) ↔ KeptSpec thr ms fin colls := by
  rw [brewReturn_of_ok c dfs thr ms colls sc hp, hf]
  simp only [Option.map_some, Except.ok.injEq, Option.some.injEq]
  rw [keepDecision_kept_iff, featTotal_le_iff, predTotal_eq_accepted]
  rfl

/-- the Boolean spec evaluated by the driver op `keepspec` is `KeptSpec` -/
theorem C11_keep_spec_decidable (thr : Rat) (ms : List (Bool × Nat)) (fin : List (List Rat)) (colls : List (List FRow)) :
    keptSpecB thr ms fin colls = true ↔ KeptSpec thr ms fin colls := by
  simp [keptSpecB, KeptSpec]

/-- the only other outcome is the fallback, taken iff the best feature passed strictly more; it
names the *first* model holding the largest `feat_pass`. -/
theorem C11_keep_fallback_iff (c : Nat) (dfs : List Bool) (thr : Rat) (ms : List (Bool × Nat))
    (colls : List (List FRow)) (sc : List (List XR)) (fin : List (List Rat))
    (hp : predictColls c dfs thr colls = Except.ok sc) (hf : allFinColls sc = some fin) :
    (brewReturn c dfs thr ms colls = Except.ok (some (BrewOut.bestFeature (bestFeatOf ms).1)) ↔
      ¬ KeptSpec thr ms fin colls) ∧
    (brewReturn c dfs thr ms colls = Except.ok (some (BrewOut.kept sc)) ∨
     brewReturn c dfs thr ms colls = Except.ok (some (BrewOut.bestFeature (bestFeatOf ms).1))) := by
  have hk := C11_keep_returns_calibrated_iff c dfs thr ms colls sc fin hp hf
  have hr := brewReturn_of_ok c dfs thr ms colls sc hp
  rw [hf] at hr
  simp only [Option.map_some] at hr
  by_cases h : predTotal thr fin colls < featTotal ms
  · have hd : keepDecision ms (predTotal thr fin colls) sc = BrewOut.bestFeature (bestFeatOf ms).1 := by
      simp [keepDecision, h]
    rw [hd] at hr
    have hnk : ¬ KeptSpec thr ms fin colls := by
      intro hs
      have := hk.mpr hs
      rw [hr] at this
      simp at this
    exact ⟨⟨fun _ => hnk, fun _ => hr⟩, Or.inr hr⟩
  · have hd : keepDecision ms (predTotal thr fin colls) sc = BrewOut.kept sc := by
      simp [keepDecision, h]
    rw [hd] at hr
    refine ⟨⟨fun h' => ?_, fun hn => absurd (hk.mp hr) hn⟩, Or.inl hr⟩
    rw [hr] at h'
    simp at h'

/-- the index named by the fallback is the first position of the largest `feat_pass`
(`max(enumerate(...), key=itemgetter(1))` keeps the first maximal element). -/
theorem C11_keep_best_index_first_max (ms : List (Bool × Nat)) (hne : ms ≠ []) :
    ∃ m, ms[(bestFeatOf ms).1]? = some m ∧ m.2 = maxFeatPass ms ∧
      (∀ x ∈ ms, x.2 ≤ m.2) ∧
      ∀ j, j < (bestFeatOf ms).1 → ∀ x, ms[j]? = some x → x.2 < m.2 := by
  have hs := bestFeatOf_snd ms
  cases ms with
  | nil => exact absurd rfl hne
  | cons m rest =>
    have hb : bestFeatOf (m :: rest) = maxFirstFrom (0, m.2) 1 (rest.map (fun m => m.2)) := rfl
    rw [hb] at hs ⊢
    rcases maxFirstFrom_fst (0, m.2) 1 (rest.map (fun m => m.2)) (by simp) with ⟨h1, h2⟩ | ⟨j, hj, h1, h2, h3, h4⟩
    · rw [h1] at hs ⊢
      refine ⟨m, by simp, by simpa using hs, ?_, fun j hj => absurd hj (by omega)⟩
      intro x hx
      rcases List.mem_cons.mp hx with rfl | hx
      · simp
      · simpa using h2 x.2 (List.mem_map.mpr ⟨x, hx, rfl⟩)
    · rw [h1] at hs ⊢
      have hj' : j < rest.length := by simpa using hj
      simp only [List.getElem_map] at h2 h3 h4 hs ⊢
      have e : 1 + j = j + 1 := by omega
      rw [e]
      refine ⟨rest[j], by simp [hj'], by simpa using hs, ?_, ?_⟩
      · intro x hx
        rcases List.mem_cons.mp hx with rfl | hx
        · omega
        · exact h4 x.2 (List.mem_map.mpr ⟨x, hx, rfl⟩)
      · intro i hi x hx
        cases i with
        | zero =>
          simp only [List.getElem?_cons_zero, Option.some.injEq] at hx
          subst hx
          exact h2
        | succ i =>
          simp only [List.getElem?_cons_succ] at hx
          have hi' : i < j := by omega
          have hil : i < rest.length := by omega
          rw [List.getElem?_eq_getElem hil] at hx
          simp only [Option.some.injEq] at hx
          subst hx
          simpa using h3 i hi'

/-- **A tie keeps the learned model**: if the best feature passed exactly as many targets in
training as the calibrated scores accept, `brew` returns the calibrated scores. -/
theorem C11_keep_on_tie (c : Nat) (dfs : List Bool) (thr : Rat) (ms : List (Bool × Nat))
    (colls : List (List FRow)) (sc : List (List XR)) (fin : List (List Rat))
    (hp : predictColls c dfs thr colls = Except.ok sc) (hf : allFinColls sc = some fin)
    (htie : maxFeatPass ms = acceptedTotal thr fin colls) :
    brewReturn c dfs thr ms colls = Except.ok (some (BrewOut.kept sc)) :=
  (C11_keep_returns_calibrated_iff c dfs thr ms colls sc fin hp hf).mpr (Or.inr (le_of_eq htie))

/-- with `override=True` on every model the calibrated scores are returned whatever the
`feat_pass` values are. -/
theorem C11_keep_when_all_override (c : Nat) (dfs : List Bool) (thr : Rat) (ms : List (Bool × Nat))
    (colls : List (List FRow)) (sc : List (List XR)) (fin : List (List Rat))
    (hp : predictColls c dfs thr colls = Except.ok sc) (hf : allFinColls sc = some fin)
    (ho : ∀ m ∈ ms, m.1 = true) :
    brewReturn c dfs thr ms colls = Except.ok (some (BrewOut.kept sc)) :=
  (C11_keep_returns_calibrated_iff c dfs thr ms colls sc fin hp hf).mpr (Or.inl ho)

/-- **The explicit error is never masked by the fallback**: `brew` stops with the error of
`_predict` (a fold that accepts no target, a fold without rows) iff `_predict` raises it — whatever
the models' `override` / `feat_pass`, also when the best feature would have won. -/
theorem C11_keep_error_not_masked (c : Nat) (dfs : List Bool) (thr : Rat) (ms : List (Bool × Nat))
    (colls : List (List FRow)) (e : CalErr) :
    brewReturn c dfs thr ms colls = Except.error e ↔ predictColls c dfs thr colls = Except.error e := by
  constructor
  · intro h
    cases hp : predictColls c dfs thr colls with
    | error e' =>
      rw [brewReturn_of_error c dfs thr ms colls e' hp] at h
      rw [Except.error.injEq] at h
      rw [h]
    | ok sc =>
      rw [brewReturn_of_ok c dfs thr ms colls sc hp] at h
      cases h
  · exact brewReturn_of_error c dfs thr ms colls e

/-- lifted to the entry point: when `brew` keeps the learned model, the returned vector of
collection `j` restricted to fold `f` is the calibration of exactly the rows of fold `f` of
collection `j` (hence, inside the quantifier, the strictly increasing affine map with anchors
0 and −1 of `C11_gate_fold_scores_affine`). -/
theorem C11_keep_fold_scores_calibrated (c : Nat) (dfs : List Bool) (thr : Rat) (ms : List (Bool × Nat))
    (colls : List (List FRow)) (outs : List (List XR)) (hc : 1 ≤ c)
    (h : brewReturn c dfs thr ms colls = Except.ok (some (BrewOut.kept outs))) :
    outs.length = colls.length ∧
    ∀ j (hj : j < colls.length) (hj' : j < outs.length),
      outs[j].length = colls[j].length ∧
      ∀ f (hf : f < dfs.length), dfs[f] = true →
        calibrate true thr (foldOf f colls[j]) = Except.ok (restrictTo f colls[j] outs[j]) := by
  have hp : predictColls c dfs thr colls = Except.ok outs := by
    cases hp : predictColls c dfs thr colls with
    | error e' =>
      rw [brewReturn_of_error c dfs thr ms colls e' hp] at h
      cases h
    | ok sc =>
      rw [brewReturn_of_ok c dfs thr ms colls sc hp] at h
      simp only [Except.ok.injEq] at h
      cases hf : allFinColls sc with
      | none => rw [hf] at h; simp at h
      | some fin =>
        rw [hf] at h
        simp only [Option.map_some, Option.some.injEq] at h
        unfold keepDecision at h
        split at h
        · cases h
        · simp only [BrewOut.kept.injEq] at h
          rw [h]
  obtain ⟨hl, hper⟩ := C11_colls_each_scored_alone c dfs thr colls outs hc hp
  exact ⟨hl, fun j hj hj' => ⟨(hper j hj hj').2.1, (hper j hj hj').2.2⟩⟩

/-- **The decision is scale-free too**: re-scaling every fold model's output by its own positive
affine map changes neither the returned scores nor *whether* the learned model is kept, nor the
error (the pooled count `pred_total` is taken on the calibrated scores). -/
theorem C11_keep_rescale_invariant (c : Nat) (dfs : List Bool) (thr : Rat) (ms : List (Bool × Nat))
    (colls : List (List FRow)) (A B : Nat → Rat) (hc : 1 ≤ c) (hA : ∀ f, 0 < A f)
    (hid : ∀ f (hf : f < dfs.length), dfs[f] = false → A f = 1 ∧ B f = 0) :
    brewReturn c dfs thr ms (colls.map (rescaleFolds A B)) = brewReturn c dfs thr ms colls := by
  unfold brewReturn
  rw [C11_colls_rescale_invariant c dfs thr colls A B hc hA hid]
  congr 1
  funext sc
  congr 2
  funext fin
  rw [predTotal_targets thr fin colls (colls.map (rescaleFolds A B)) (rescaleFolds_targets A B colls)]

/-! ## Non-vacuity and tests -/

/-- two folds, both estimators with a decision function; the calibrated scores of the pooled
collection accept 4 targets at 1/2 -/
def keepRows : List FRow :=
  [⟨0, 5, true⟩, ⟨0, 1, false⟩, ⟨0, 4, true⟩, ⟨1, 30, true⟩, ⟨1, 10, false⟩, ⟨1, 0, false⟩, ⟨1, 25, true⟩]

def keepCal : List (List XR) :=
  [[XR.fin (1/3), XR.fin (-1), XR.fin 0, XR.fin (1/4), XR.fin (-3/4), XR.fin (-5/4), XR.fin 0]]

def keepFin : List (List Rat) := [[1/3, -1, 0, 1/4, -3/4, -5/4, 0]]

#guard predictColls 2 [true, true] (1/2) [keepRows] == Except.ok keepCal
#guard allFinColls keepCal == some keepFin
#guard predTotal (1/2) keepFin [keepRows] == 4
-- tie: kept; one more: best feature of the first model holding the maximum; override: kept
#guard brewReturn 2 [true, true] (1/2) [(false, 4), (false, 1)] [keepRows] == Except.ok (some (BrewOut.kept keepCal))
#guard brewReturn 2 [true, true] (1/2) [(false, 1), (false, 5), (true, 5)] [keepRows] ==
  Except.ok (some (BrewOut.bestFeature 1))
#guard brewReturn 2 [true, true] (1/2) [(true, 9), (true, 4)] [keepRows] == Except.ok (some (BrewOut.kept keepCal))
-- a fold without accepted target: the error, also when the best feature would win
#guard brewReturn 2 [true, true] (1/4) [(false, 100), (false, 1)] [[⟨0, 1, true⟩, ⟨0, 5, false⟩, ⟨1, 3, true⟩]] ==
  Except.error CalErr.noPositive

/-- the hypotheses of `C11_keep_returns_calibrated_iff` / `C11_keep_on_tie` hold on a non-trivial
input (two folds, exact tie 4 = 4, no override) -/
example : predictColls 2 [true, true] (1/2) [keepRows] = Except.ok keepCal ∧ allFinColls keepCal = some keepFin ∧
    maxFeatPass [(false, 4), (false, 1)] = acceptedTotal (1/2) keepFin [keepRows] ∧
    ¬ (∀ m ∈ [((false, 4) : Bool × Nat), (false, 1)], m.1 = true) :=
  ⟨by
    unfold predictColls
    rw [mapE, mapE]
    unfold predictFoldsDF
    simp only [calibrateFoldDF, calibrateFold, calibrate_unfold]
    decide +kernel, by decide +kernel, by decide +kernel, by decide⟩

/-- … and the fallback side of `C11_keep_fallback_iff` is inhabited as well -/
example : ¬ KeptSpec (1/2) [(false, 1), (false, 5), (true, 5)] keepFin [keepRows] := by
  unfold KeptSpec
  decide +kernel

/-- `C11_keep_error_not_masked`: an input whose `_predict` raises -/
example : predictColls 2 [true, true] (1/4) [[⟨0, 1, true⟩, ⟨0, 5, false⟩, ⟨1, 3, true⟩]] =
    Except.error CalErr.noPositive := by
  unfold predictColls
  rw [mapE, mapE]
  unfold predictFoldsDF
  simp only [calibrateFoldDF, calibrateFold, calibrate_unfold]
  decide +kernel

/-- `C11_keep_rescale_invariant`: a re-scaling that changes the rows -/
example : ((rescaleFolds (fun f => if f = 0 then 3 else 1/2) (fun f => if f = 0 then -7 else 100) keepRows).map
    (fun r => r.raw)) ≠ keepRows.map (fun r => r.raw) := by
  decide +kernel

end Mk.Calibrate
