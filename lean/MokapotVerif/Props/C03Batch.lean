import MokapotVerif.Lemmas.ConfidenceBatch
import MokapotVerif.Props.C03Merge
/-!
# C03 — from the scan to the result files: batches, chunk-wise writing, the executable pipeline

`Props/C03.lean` states what the row-by-row scan writes and what a level must look like.
The code, however, writes the level files in *batches* of `CONFIDENCE_CHUNK_SIZE` rows and the
result files *chunk by chunk* from three separately chunked iterators.  The theorems here show
that, for every chunk size, this machinery is invisible; and that the executable pipeline the
correspondence run compares with the real code (`confidenceLevelFiles`: stable sorts + the
modelled `merge_sort` + batched scan) meets the level specification with respect to the *input
table* — so that agreement of the real output with it is agreement with a proved-correct result.
-/
namespace Mk

/-- **Batching is invisible.**  Whatever `CONFIDENCE_CHUNK_SIZE` is — 1, larger than the table,
even a value that is never reached — the level files after the final flush hold exactly the rows,
in exactly the order, that the row-by-row scan appends; hence every theorem about `scan`
(`C03_scan_eq_levels`, `C03_psm_level_spec`, `C03_higher_level_spec`, `C03_rows_intact`) is a
theorem about the files `assign_confidence` hands to the q-value step. -/
theorem C03_batched_scan_eq_scan (c : Nat) (dedup : Bool) (n : Nat) (merged : List Row) :
    bscan c dedup n merged = scan dedup n merged :=
  bscan_eq_scan c dedup n merged

/-- a batch never holds a full chunk after a row has been handled, and no row is ever in the
file and in the batch at once: file ++ batch grows by exactly the pushed row -/
theorem C03_batch_push (c : Nat) (b : ConfBatch) (r : Row) :
    (b.push c r).close = b.close ++ [r] :=
  ConfBatch.close_push c b r

/-- **Chunk-wise writing is invisible.**  For every chunk size `c ≥ 1` the result writer — data
re-read in chunks of `c` rows, q-values and target flags chunked separately, the three iterators
zipped, rows selected per chunk by boolean masks — appends to `targets.<level>` exactly the
target rows of the level file and to `decoys.<level>` exactly its decoy rows, in level order,
each row next to the q-value computed for *it* on the whole level (`splitTD`); without
`decoys` nothing is produced for the decoys file; the writer never raises. -/
theorem C03_chunked_write_eq_split (c : Nat) (hc : 0 < c) (decoys : Bool) (rows : List Row) :
    confWriteLevelFile c decoys rows
      = some ((splitTD rows).1, if decoys then (splitTD rows).2 else []) :=
  confWriteLevelFile_eq c hc decoys rows

/-- the same for arbitrary q-value / mask columns of the right length (no row is paired with a
neighbour's q-value, whatever the q-values are) -/
theorem C03_chunked_write_alignment (c : Nat) (hc : 0 < c) (decoys : Bool) (rows : List Row)
    (qs : List Rat) (tg : List Bool) (hq : rows.length = qs.length) (ht : rows.length = tg.length) :
    writeChunked c decoys rows qs tg
      = some (confMaskSel (rows.zip qs) tg,
          if decoys then confMaskSel (rows.zip qs) (tg.map (fun b => !b)) else []) := by
  unfold writeChunked chunksOf
  rw [← hq, ← ht, writeChunksGo_chunks c hc decoys rows.length rows qs tg ([], []) hq ht (le_refl _)]
  simp

/-- rows of both result files are in non-increasing score order whenever the level file is -/
theorem C03_result_files_sorted (rows : List Row) (hs : SortedRows rows) :
    SortedRows ((splitTD rows).1.map Prod.fst) ∧ SortedRows ((splitTD rows).2.map Prod.fst) := by
  have h := C03_targets_decoys_partition rows
  rw [h.1, h.2.1]
  exact ⟨SortedRows.sublist List.filter_sublist hs, SortedRows.sublist List.filter_sublist hs⟩

/-- the executable pipeline never raises on a table with at least one row (no chunk file is
empty, so `merge_sort` has a first row in every file) … -/
theorem C03_level_files_total (c : Nat) (hc : 0 < c) (dedup : Bool) (n : Nat) (rows : List Row)
    (hne : rows ≠ []) : ∃ lvs, confidenceLevelFiles c dedup n rows = some lvs := by
  have key : ∃ merged, Merge.kmerge rowLeB ((chunksOf c rows).map
      (fun ch => chunkFile dedup (ch.mergeSort rowBetter))) = some merged := by
    cases hk : Merge.kmerge rowLeB ((chunksOf c rows).map
        (fun ch => chunkFile dedup (ch.mergeSort rowBetter))) with
    | some merged => exact ⟨merged, rfl⟩
    | none =>
      exfalso
      rcases (Merge.C14_kmerge_raises_iff rowLeB _).mp hk with h | h
      · rw [List.map_eq_nil_iff, chunksOf_eq_nil_iff] at h
        exact hne h
      · obtain ⟨ch, hch, he⟩ := List.mem_map.mp h
        have h1 : ch ≠ [] := chunksOf_ne_nil c hc rows ch hch
        have h2 : ch.mergeSort rowBetter ≠ [] := by
          intro h0
          have := (List.mergeSort_perm ch rowBetter).length_eq
          rw [h0] at this
          exact h1 (List.eq_nil_of_length_eq_zero this.symm)
        exact chunkFile_ne_nil dedup _ h2 he
  obtain ⟨merged, hm⟩ := key
  exact ⟨(bscan c dedup n merged).1 :: (bscan c dedup n merged).2, by
    simp only [confidenceLevelFiles, hm, Option.map_some]⟩

/-- … and raises on a table without rows (`merge_sort([])`: `paths[0]`) -/
theorem C03_level_files_empty_table (c : Nat) (dedup : Bool) (n : Nat) :
    confidenceLevelFiles c dedup n [] = none := by
  simp [confidenceLevelFiles, chunksOf, chunksFuel, Merge.kmerge]

/-- **The executable pipeline meets the specification with respect to the input table**, for
every table, chunk size `c ≥ 1`, number of roll-up levels and both settings of the
de-duplication flag: it returns `nLevels + 1` level files; the PSM-level file holds exactly one
highest-scoring unmodified row per spectrum *of the table* (every row of the table, as a
permutation, without de-duplication) in non-increasing score order; every roll-up level file
holds exactly one highest-scoring row per entity among the rows of the PSM-level file. -/
theorem C03_level_files_spec (c : Nat) (hc : 0 < c) (dedup : Bool) (n : Nat) (rows : List Row)
    (lvs : List (List Row)) (h : confidenceLevelFiles c dedup n rows = some lvs) :
    ∃ psm lv, lvs = psm :: lv ∧ lv.length = n ∧ SortedRows psm ∧
      (dedup = true → LevelSpec Row.spec rows psm) ∧
      (dedup = false → psm.Perm rows) ∧
      ∀ l, l < n → LevelSpec (fun r => r.key l) psm (lv.getD l []) := by
  unfold confidenceLevelFiles at h
  obtain ⟨merged, hm, rfl⟩ := Option.map_eq_some_iff.mp h
  have hfiles : List.Forall₂ (IsChunkFile dedup) (chunksOf c rows)
      ((chunksOf c rows).map (fun ch => chunkFile dedup (ch.mergeSort rowBetter))) :=
    conf_forall₂_map_self _ _ _ (fun ch _ => isChunkFile_mergeSort dedup ch)
  have hm' : Merge.kmerge rowLe ((chunksOf c rows).map
      (fun ch => chunkFile dedup (ch.mergeSort rowBetter))) = some merged := hm
  have hsorted : SortedRows merged := by
    rw [sortedRows_iff_nonIncr]
    apply Merge.C14_kmerge_sorted rowLe rowLe_totalPre _ merged _ hm'
    intro xs hxs
    obtain ⟨ch, _, hcf⟩ := forall₂_mem_right hfiles xs hxs
    exact (sortedRows_iff_nonIncr xs).mp (chunkFile_sorted dedup ch xs hcf)
  rw [bscan_eq_scan, scan_eq_levels]
  refine ⟨psmLevel dedup merged, (List.range n).map (rollupLevel dedup merged), rfl, by simp, ?_, ?_, ?_, ?_⟩
  · unfold psmLevel
    split
    · exact SortedRows.sublist (dedupFirst_sublist _ _ _) hsorted
    · exact hsorted
  · intro hd; subst hd
    exact C03_psm_level_spec_with_kmerge c hc rows _ hfiles merged hm'
  · intro hd; subst hd
    exact (C03_no_dedup_keeps_all_with_kmerge c hc rows _ hfiles merged hm').1
  · intro l hl
    have : ((List.range n).map (rollupLevel dedup merged)).getD l [] = rollupLevel dedup merged l := by
      simp [List.getD, hl]
    rw [this]
    exact C03_higher_level_spec dedup merged hsorted l

/-- the same for the executable model behind the driver op `conf` (`confidenceLevels`: a stable
merge sort of the concatenated chunk files stands in for the merge), for every table, chunk size,
number of levels and de-duplication setting; it never fails -/
theorem C03_executable_model_spec (c : Nat) (hc : 0 < c) (dedup : Bool) (n : Nat) (rows : List Row) :
    SortedRows (confidenceLevels c dedup n rows).1 ∧
    (dedup = true → LevelSpec Row.spec rows (confidenceLevels c dedup n rows).1) ∧
    (dedup = false → (confidenceLevels c dedup n rows).1.Perm rows) ∧
    (confidenceLevels c dedup n rows).2.length = n ∧
    ∀ l, l < n → LevelSpec (fun r => r.key l) (confidenceLevels c dedup n rows).1
      ((confidenceLevels c dedup n rows).2.getD l []) := by
  have hfiles : List.Forall₂ (IsChunkFile dedup) (chunksOf c rows)
      ((chunksOf c rows).map (fun ch => chunkFile dedup (ch.mergeSort rowBetter))) :=
    conf_forall₂_map_self _ _ _ (fun ch _ => isChunkFile_mergeSort dedup ch)
  have hperm := List.mergeSort_perm
    ((chunksOf c rows).map (fun ch => chunkFile dedup (ch.mergeSort rowBetter))).flatten rowBetter
  have hsorted := mergeSort_sortedRows
    ((chunksOf c rows).map (fun ch => chunkFile dedup (ch.mergeSort rowBetter))).flatten
  unfold confidenceLevels
  simp only []
  rw [scan_eq_levels]
  refine ⟨?_, ?_, ?_, by simp, ?_⟩
  · unfold psmLevel
    split
    · exact SortedRows.sublist (dedupFirst_sublist _ _ _) hsorted
    · exact hsorted
  · intro hd; subst hd
    exact C03_psm_level_spec c hc rows _ hfiles _ hperm hsorted
  · intro hd; subst hd
    exact (C03_no_dedup_keeps_all c hc rows _ hfiles _ hperm hsorted).1
  · intro l hl
    have : ((List.range n).map (rollupLevel dedup
        (((chunksOf c rows).map (fun ch => chunkFile dedup (ch.mergeSort rowBetter))).flatten.mergeSort
          rowBetter))).getD l [] = rollupLevel dedup
        (((chunksOf c rows).map (fun ch => chunkFile dedup (ch.mergeSort rowBetter))).flatten.mergeSort
          rowBetter) l := by
      simp [List.getD, hl]
    rw [this]
    exact C03_higher_level_spec dedup _ hsorted l
/-- **Uniqueness with ties across groups.**  If no two input rows *of the same group* (same
spectrum / same entity) have equal scores — the quantifier of the property: "score vectors
without exact ties inside a group" — then any two level files meeting the specification hold the
same rows (they may list rows of *different* groups that tie in a different order). -/
theorem C03_levelSpec_unique_rows_groupwise (key : Row → Nat) (input out₁ out₂ : List Row)
    (hinj : ∀ a ∈ input, ∀ b ∈ input, key a = key b → a.score = b.score → a = b)
    (h₁ : LevelSpec key input out₁) (h₂ : LevelSpec key input out₂) : out₁.Perm out₂ := by
  have mem_of : ∀ (o₁ o₂ : List Row), LevelSpec key input o₁ → LevelSpec key input o₂ →
      ∀ r ∈ o₁, r ∈ o₂ := by
    intro o₁ o₂ g₁ g₂ r hr
    obtain ⟨r₂, hr₂, hk₂, hs₂⟩ := g₂.2.2.2 r (g₁.2.2.1 r hr)
    obtain ⟨r₁, hr₁, hk₁, hs₁⟩ := g₁.2.2.2 r₂ (g₂.2.2.1 r₂ hr₂)
    have : r₁ = r := List.inj_on_of_nodup_map g₁.2.1 hr₁ hr (hk₁.trans hk₂)
    subst this
    have hsc : r₁.score = r₂.score := le_antisymm hs₂ hs₁
    have : r₁ = r₂ := hinj _ (g₁.2.2.1 _ hr₁) _ (g₂.2.2.1 _ hr₂) hk₂.symm hsc
    rw [this]; exact hr₂
  exact (List.perm_ext_iff_of_nodup (List.Nodup.of_map _ h₁.2.1) (List.Nodup.of_map _ h₂.2.1)).mpr
    (fun r => ⟨mem_of _ _ h₁ h₂ r, mem_of _ _ h₂ h₁ r⟩)

/-! ## Non-vacuity and evaluation tests -/

-- the batched scan on the example of `Props/C03.lean`, chunk sizes 1, 2 and "never reached"
#guard (bscan 1 true 1 ((exRows.mergeSort rowBetter))).1.map (·.id) == [1, 2, 3]
#guard (bscan 2 true 1 ((exRows.mergeSort rowBetter))).2.map (fun l => l.map (·.id)) == [[1, 2]]
#guard (bscan 0 false 1 ((exRows.mergeSort rowBetter))).1.map (·.id) == [1, 2, 0, 3, 4]
#guard (confidenceLevelFiles 2 true 1 exRows).map (fun l => l.map (fun f => f.map (·.id)))
        == some [[1, 2, 3], [1, 2]]
#guard (confWriteLevelFile 2 true exRows).map (fun p => (p.1.map (·.1.id), p.2.map (·.1.id)))
        == some ([0, 1, 3, 4], [2])
#guard (confWriteLevelFile 2 false exRows).map (fun p => p.2.length) == some 0
-- mis-aligned chunking is refused (pandas raises on a length mismatch)
#guard (writeChunksGo true [[exRows[0]!, exRows[1]!]] [[1]] [[true, true]] ([], [])).isNone

/-- `exRows` has ties across groups only? no: it is tie-free; the group-wise hypothesis holds -/
example : ∀ a ∈ exRows, ∀ b ∈ exRows, a.spec = b.spec → a.score = b.score → a = b := by decide

/-- a table that is tie-free inside every spectrum but has a tie across spectra -/
example : ∀ a ∈ ([⟨0, 1, [], true, 5⟩, ⟨1, 2, [], false, 5⟩, ⟨2, 1, [], true, 3⟩] : List Row),
    ∀ b ∈ ([⟨0, 1, [], true, 5⟩, ⟨1, 2, [], false, 5⟩, ⟨2, 1, [], true, 3⟩] : List Row),
    a.spec = b.spec → a.score = b.score → a = b := by decide

example : exRows ≠ [] := by decide

end Mk
