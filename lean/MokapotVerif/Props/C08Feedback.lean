import MokapotVerif.Lemmas.DetermSeed
import MokapotVerif.Props.C02Multi
/-!
# C08 — feeding the models of one run back (second pass: the third sentence of the property, stated in full)

"Feeding the models returned by one run back into a second run with the same seed, in any order, reproduces the
first run's scores exactly."  Two facts are needed:
1. the second run cuts the same folds: with the same seed the fold shuffles are the same draws — `brew` makes them
   FIRST, before anything that depends on `subset_max_train` or on whether models were given
   (`C08_feedback_same_fold_shuffles`, over the draw model of `Model/Determ.lean` §1);
2. every row is scored by the model of its fold: the given list is sorted by the recorded fold
   (`C08_models_any_order`) and routed as in the first run — the end-to-end statement over the `brew` model of
   C02 (`Model/BrewMulti.lean`: `brewRun` / `brewGiven`) is `C08_feedback_reproduces_scores`.
-/
namespace Mk.Determ
variable {σ ν : Type}

/-- **feedback_same_fold_shuffles**: a run that is given trained models draws, from the same start state, exactly
the fold shuffles of the run that trained them — the same requests answered with the same values, in the same
order — whatever `subset_max_train` either run uses; what the training run draws afterwards (sub-sampling) comes
later in its sequence. -/
theorem C08_feedback_same_fold_shuffles (G : Gen σ ν) (s0 : σ) (subsetMax subsetMax' : Option Nat)
    (foldSizes : List (List Nat)) :
    mainDraws true subsetMax' foldSizes = (mainDraws false subsetMax foldSizes).take (splitDraws foldSizes).length ∧
    (runDraws G s0 (mainDraws true subsetMax' foldSizes)).1 =
      (runDraws G s0 (mainDraws false subsetMax foldSizes)).1.take (splitDraws foldSizes).length := by
  constructor
  · simp [mainDraws]
  · have h1 : mainDraws true subsetMax' foldSizes = splitDraws foldSizes := by simp [mainDraws]
    have h2 : mainDraws false subsetMax foldSizes = splitDraws foldSizes ++ subsetDraws subsetMax foldSizes := by
      simp [mainDraws]
    rw [h1, h2, runDraws_take]

/-- **feedback_generator_state**: after a feed-back run the caller's generator is in the state the training run's
generator had right after ITS fold shuffles (so a third run chained on the same generator continues identically
whether the second run trained or not, as long as nothing is sub-sampled). -/
theorem C08_feedback_generator_state (G : Gen σ ν) (s0 : σ) (subsetMax : Option Nat) (foldSizes : List (List Nat))
    (sched : List Nat) :
    (brewPool G s0 true subsetMax foldSizes sched).heap 0 = (runDraws G s0 (splitDraws foldSizes)).2 ∧
    (brewPool G s0 false none foldSizes sched).heap 0 = (runDraws G s0 (splitDraws foldSizes)).2 := by
  constructor
  · have h : (brewPool G s0 true subsetMax foldSizes sched).heap 0 =
        (poolInit (ν := ν) (runDraws G s0 (mainDraws true subsetMax foldSizes)).2 0 (fitDraws subsetMax foldSizes)).heap 0 := by
      unfold brewPool
      simpa using runPool_heap_unowned G copiedCell 0 (by intro j; unfold copiedCell; omega) sched _
    rw [h]
    simp [poolInit, mainDraws]
  · unfold brewPool
    rw [runPool_heap_unowned G copiedCell 0 (by intro j; unfold copiedCell; omega) sched]
    have : subsetDraws none foldSizes = [] := by
      unfold subsetDraws perFileOf subsetDrawsFold
      simp
    simp [poolInit, mainDraws, this]

example : mainDraws true (some 5) [[4, 3, 3], [2, 2, 2]] = [.shuffle 4, .shuffle 3, .shuffle 3, .shuffle 2, .shuffle 2, .shuffle 2] := by
  decide

example : (mainDraws false (some 5) [[4, 3, 3], [2, 2, 2]]).length = 12 ∧ (splitDraws [[4, 3, 3], [2, 2, 2]]).length = 6 := by
  decide

end Mk.Determ

namespace Mk.Brew

/-- **feedback_reproduces_scores** (the third sentence of C08, end to end over the `brew` model of C02).  A run of
`brew` (any number of collections, any `argsort` tie order, in-fold shuffle = the seeded generator's draws, any
`subset_max_train`, any worker schedule, fit results arriving in any order `ret`) returned `(models, scores)`.
The same models handed back in ANY order (`given` is any permutation), all trained, on the same collections,
with the same seed (`shuffle' = shuffle`) or indeed any other (`shuffle'` arbitrary), and any prediction chunk
size: `brew` returns the same models in fold order and exactly the same scores.
(Restated from `C02_rescoring_same_scores` for the determinism property; the scores are those of
`ensemble=False`.  For `ensemble=True` the scores are the row-wise mean over the models in the order
`C08_models_any_order` fixes — `C04_ensemble_eq_spec`, `C04_pretrained_order_irrelevant`.) -/
theorem C08_feedback_reproduces_scores {ρ σ μ : Type} [Inhabited σ] [Inhabited μ]
    (cRead cPred folds : Nat) (hcr : 0 < cRead) (hcp : 0 < cPred) (hf : 1 ≤ folds)
    (files : List (List ρ)) (hK : 0 < files.length)
    (hashes : List (List Nat)) (sorteds : List (List (Nat × Nat)))
    (hhl : hashes.length = files.length) (hsl : sorteds.length = files.length)
    (hlen : ∀ k, k < files.length → (hashes.getD k []).length = (files.getD k []).length)
    (hdata : ∀ k, k < files.length → IsArgsort (hashes.getD k []) (sorteds.getD k []))
    (shuffle : Nat → List (List Nat) → List (List Nat))
    (hshuf : ∀ k fs, List.Forall₂ List.Perm fs (shuffle k fs))
    (cap : Option Nat) (enum : Nat → Nat → List Nat → List Nat)
    (henum : ∀ f k l, (enum f k l).Perm l)
    (draw : Nat → Nat → Nat → List Nat) (hdraw : DrawsValid cap files.length draw)
    (sched : Nat → Nat → List (List (Nat × ρ)) → List (List (Nat × ρ)))
    (hsched : ∀ f k, SchedValid (sched f k))
    (ret : List (Nat × μ) → List (Nat × μ)) (hret : ∀ l, (ret l).Perm l)
    (learner : List (Option ρ) → μ) (apply : μ → ρ → σ) (target : ρ → Bool)
    (cal : List (σ × Bool) → σ → σ) (models : List (Nat × μ)) (scores : List (List σ))
    (hrun : brewRun cRead cPred folds files sorteds shuffle cap enum draw sched ret learner apply
      target cal = some (models, scores))
    (cPred' : Nat) (hcp' : 0 < cPred') (shuffle' : Nat → List (List Nat) → List (List Nat))
    (hshuf' : ∀ k fs, List.Forall₂ List.Perm fs (shuffle' k fs))
    (given : List (Nat × μ × Bool)) (htr : ∀ m ∈ given, m.2.2 = true)
    (hgiven : (given.map (fun m => (m.1, m.2.1))).Perm models) :
    brewGiven cPred' folds files sorteds shuffle' given apply target cal = .ok (models, scores) :=
  C02_rescoring_same_scores cRead cPred folds hcr hcp hf files hK hashes sorteds hhl hsl hlen hdata shuffle hshuf
    cap enum henum draw hdraw sched hsched ret hret learner apply target cal models scores hrun cPred' hcp'
    shuffle' hshuf' given htr hgiven

/-! non-vacuity: the hypotheses hold together on the concrete run `Mk.Brew.Ex` (two collections, unstable argsort,
reversed shuffles / enumerations / completion orders); the models are handed back in the OTHER order -/
section NonVacuity
open Mk.Brew.Ex

example : brewGiven 1 2 files sorteds (fun _ fs => fs) [(2, 1653, true), (1, 1556, true)] apply
      (fun r => r % 2 == 0) cal
    = .ok ([(1, 1556), (2, 1653)],
        [[1653102, 1556112, 1653122, 1556132], [1653203, 1556213, 1556223, 1653233, 1556243, 1653253]]) :=
  C08_feedback_reproduces_scores 2 3 2 (by decide) (by decide) (by decide) files (by decide) hashes sorteds
    (by decide) (by decide) (by decide)
    (by intro k hk
        have : k = 0 ∨ k = 1 := by simp [files] at hk; omega
        rcases this with rfl | rfl
        · exact ⟨by unfold SortedByHash; decide, by decide⟩
        · exact ⟨by unfold SortedByHash; decide, by decide⟩)
    shuffle shuffle_valid none enum enum_valid (draw none 2) (draw_valid none 2) sched sched_valid
    List.reverse List.reverse_perm learner apply (fun r => r % 2 == 0) cal _ _ ex_run
    1 (by decide) (fun _ fs => fs)
    (by intro k fs
        induction fs with
        | nil => exact List.Forall₂.nil
        | cons x rest ih => exact List.Forall₂.cons (List.Perm.refl x) ih)
    [(2, 1653, true), (1, 1556, true)] (by decide) (by decide)

end NonVacuity

end Mk.Brew
