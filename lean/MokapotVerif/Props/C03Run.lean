import MokapotVerif.Lemmas.ConfidenceRun
import MokapotVerif.Props.C03Batch
/-!
# C03 — several collections: separate, independently computed results

The clause "targets and decoys go to their respective outputs and several collections get
separate, independently computed results" for the loop over collections of `assign_confidence`
(model `confRunAllWith` / `confRunAll`, `Model/ConfidenceRun.lean`): which result file receives which
rows, for every number of collections, every number of levels, every chunk size `c ≥ 1`, every
directory content before the call, with and without decoy files.

The level files of a collection are a *parameter* of `confRunAllWith` (any tie arrangement the scan
may have produced); `C03_run_uses_own_table` ties them to the collection's own table.
-/
namespace Mk

/-- one pass of the loop, pointwise: a file of the collection (`confOwnFile`: its prefix, a level
of the run, decoys only when requested) ends up holding — after what it held before, if and only
if the pass appends (`append_to_output_file`, or an earlier collection without prefix and this
one has none either) — the target (resp. decoy) rows of that collection's level file, each with
its q-value; every other file of the directory is untouched.  The pass never raises. -/
theorem C03_collection_pass (c : Nat) (hc : 0 < c) (decoys : Bool) (m : Nat) (app : Bool)
    (st : ConfFS × Bool) (k : Option Nat × List (List Row)) :
    confWriteColl c decoys m app st k
      = some (collSpec decoys m (confAppendHere app st.2 k.1) k st.1, st.2 || k.1.isNone) :=
  confWriteColl_eq c hc decoys m app st k

/-- **Collections with a prefix of their own.**  If no two collections of the call carry the same
prefix, then after the loop, for every prefixed collection `k` — whatever the other collections
are, prefixed or not, before or after it — the file `<prefix k>.targets.<level l>` holds exactly
the target rows of `k`'s level-`l` file and `<prefix k>.decoys.<level l>` exactly its decoy rows
(order and q-values of `splitTD`); without `decoys` the decoys file is whatever it was before.
The right-hand sides mention neither the other collections nor the directory before the call. -/
theorem C03_collections_prefixed (c : Nat) (hc : 0 < c) (decoys : Bool) (m : Nat)
    (colls : List (Option Nat × List (List Row))) (fs0 : ConfFS)
    (hnd : (confPrefixes colls).Nodup) :
    ∃ st, confRunAllWith c decoys m false colls fs0 = some st ∧
      ∀ k ∈ colls, k.1 ≠ none → ∀ l, l < m →
        st.1 ⟨k.1, false, l⟩ = some (splitTD (k.2.getD l [])).1 ∧
        (decoys = true → st.1 ⟨k.1, true, l⟩ = some (splitTD (k.2.getD l [])).2) ∧
        (decoys = false → st.1 ⟨k.1, true, l⟩ = fs0 ⟨k.1, true, l⟩) := by
  refine ⟨_, confRunAllWith_eq c hc decoys m false colls fs0, ?_⟩
  intro k hk hsome l hl
  refine ⟨?_, ?_, ?_⟩
  · have := collsSpec_prefixed decoys m colls false fs0 hnd k hk hsome ⟨k.1, false, l⟩
      ((confOwnFile_iff _ _ _ _).mpr ⟨rfl, hl, by simp⟩)
    simpa [confTdPart] using this
  · intro hd
    have := collsSpec_prefixed decoys m colls false fs0 hnd k hk hsome ⟨k.1, true, l⟩
      ((confOwnFile_iff _ _ _ _).mpr ⟨rfl, hl, fun _ => hd⟩)
    simpa [confTdPart] using this
  · intro hd
    apply collsSpec_frame
    intro k' _
    cases ho : confOwnFile decoys m k'.1 ⟨k.1, true, l⟩
    · rfl
    · have := ((confOwnFile_iff _ _ _ _).mp ho).2.2 rfl
      rw [hd] at this
      exact absurd this (by simp)

/-- **Independence.**  Two calls — different other collections (with or without prefixes),
different directory contents before the call — in both of which a collection with the same prefix
and the same level files takes part, leave identical result files for that collection. -/
theorem C03_collections_independent (c : Nat) (hc : 0 < c) (m : Nat)
    (colls colls' : List (Option Nat × List (List Row))) (fs0 fs0' : ConfFS)
    (hnd : (confPrefixes colls).Nodup) (hnd' : (confPrefixes colls').Nodup)
    (k : Option Nat × List (List Row)) (hk : k ∈ colls) (hk' : k ∈ colls') (hsome : k.1 ≠ none)
    (st st' : ConfFS × Bool)
    (h : confRunAllWith c true m false colls fs0 = some st)
    (h' : confRunAllWith c true m false colls' fs0' = some st') :
    ∀ d l, l < m → st.1 ⟨k.1, d, l⟩ = st'.1 ⟨k.1, d, l⟩ := by
  obtain ⟨s1, e, hfs⟩ := C03_collections_prefixed c hc true m colls fs0 hnd
  obtain ⟨s2, e', hfs'⟩ := C03_collections_prefixed c hc true m colls' fs0' hnd'
  rw [e] at h; rw [e'] at h'
  cases h; cases h'
  intro d l hl
  cases d
  · rw [(hfs k hk hsome l hl).1, (hfs' k hk' hsome l hl).1]
  · rw [(hfs k hk hsome l hl).2.1 rfl, (hfs' k hk' hsome l hl).2.1 rfl]

/-- **Collections without prefix** share one set of files: after the loop `targets.<level l>`
holds the target rows of the first prefix-less collection's level-`l` file, then those of the
second, … (each block computed from its own collection; what the file held before the call is
gone; prefixed collections in between do not interfere), and `decoys.<level l>` likewise when
requested. -/
theorem C03_collections_unprefixed (c : Nat) (hc : 0 < c) (decoys : Bool) (m : Nat)
    (colls : List (Option Nat × List (List Row))) (fs0 : ConfFS)
    (hne : confUnprefixed colls ≠ []) :
    ∃ st, confRunAllWith c decoys m false colls fs0 = some st ∧
      ∀ l, l < m →
        st.1 ⟨none, false, l⟩
          = some ((confUnprefixed colls).flatMap (fun k => (splitTD (k.2.getD l [])).1)) ∧
        (decoys = true → st.1 ⟨none, true, l⟩
          = some ((confUnprefixed colls).flatMap (fun k => (splitTD (k.2.getD l [])).2))) := by
  refine ⟨_, confRunAllWith_eq c hc decoys m false colls fs0, ?_⟩
  intro l hl
  refine ⟨?_, ?_⟩
  · have := collsSpec_unprefixed decoys m false ⟨none, false, l⟩
      ((confOwnFile_iff _ _ _ _).mpr ⟨rfl, hl, by simp⟩) colls false fs0
    simpa [hne, confTdPart] using this
  · intro hd
    have := collsSpec_unprefixed decoys m false ⟨none, true, l⟩
      ((confOwnFile_iff _ _ _ _).mpr ⟨rfl, hl, fun _ => hd⟩) colls false fs0
    simpa [hne, confTdPart] using this

/-- **Frame.**  A file that is not a result file of any collection of the call — another prefix,
a level the run does not have, a decoys file when `decoys` is off — is left exactly as it was,
whatever the prefixes are. -/
theorem C03_collections_frame (c : Nat) (hc : 0 < c) (decoys : Bool) (m : Nat) (app : Bool)
    (colls : List (Option Nat × List (List Row))) (fs0 : ConfFS) (n : ConfFName)
    (hn : ∀ k ∈ colls, ¬ (n.pre = k.1 ∧ n.level < m ∧ (n.decoy = true → decoys = true))) :
    ∃ st, confRunAllWith c decoys m app colls fs0 = some st ∧ st.1 n = fs0 n := by
  refine ⟨_, confRunAllWith_eq c hc decoys m app colls fs0, ?_⟩
  apply collsSpec_frame
  intro k hk
  cases ho : confOwnFile decoys m k.1 n
  · rfl
  · exact absurd ((confOwnFile_iff _ _ _ _).mp ho) (hn k hk)

/-- **Every collection's result comes from its own table.**  The executable run on tables
(`confRunAll`: the level files are computed inside the loop) is the loop above on level files
each of which was computed by `confidenceLevelFiles` from the table of *its* collection alone —
hence (by `C03_level_files_spec`) meets the level specification with respect to that table. -/
theorem C03_run_uses_own_table (c : Nat) (dedup decoys : Bool) (nLevels : Nat) (app : Bool)
    (colls : List ConfColl) (fs0 : ConfFS) (st : ConfFS × Bool)
    (h : confRunAll c dedup decoys nLevels app colls fs0 = some st) :
    ∃ cl : List (Option Nat × List (List Row)),
      List.Forall₂ (fun (k : ConfColl) x => x.1 = k.pre ∧
        confidenceLevelFiles c dedup nLevels k.rows = some x.2) colls cl ∧
      confRunAllWith c decoys (nLevels + 1) app cl fs0 = some st := by
  unfold confRunAll at h
  rw [confRunAll_eq] at h
  obtain ⟨cl, hcl, hrun⟩ := Option.bind_eq_some_iff.mp h
  refine ⟨cl, ?_, hrun⟩
  clear h hrun
  induction colls generalizing cl with
  | nil =>
    simp only [List.mapM_nil] at hcl
    cases hcl
    exact List.Forall₂.nil
  | cons k rest ih =>
    simp only [List.mapM_cons] at hcl
    cases hk : confidenceLevelFiles c dedup nLevels k.rows with
    | none => simp [hk] at hcl
    | some lvs =>
      cases hm : List.mapM (fun k => (confidenceLevelFiles c dedup nLevels k.rows).map
          (fun lvs => (k.pre, lvs))) rest with
      | none => simp [hk, hm] at hcl
      | some cl' =>
        simp [hk, hm] at hcl
        subst hcl
        exact List.Forall₂.cons ⟨rfl, hk⟩ (ih cl' hm)

/-! ## Non-vacuity and evaluation tests -/

def c03ExLv : List (List Row) := [[exRows[1]!, exRows[2]!, exRows[3]!], [exRows[1]!, exRows[2]!]]

/-- hypotheses of `C03_collections_prefixed` / `C03_collections_unprefixed` on a concrete call
with mixed prefixes -/
example : (confPrefixes [(some 0, c03ExLv), (none, c03ExLv), (some 1, c03ExLv)]).Nodup ∧
    confUnprefixed [(some 0, c03ExLv), (none, c03ExLv), (some 1, c03ExLv)] ≠ [] := by decide

def c03FsNone : ConfFS := fun _ => none

#guard ((confRunAll 2 true true 1 false [⟨some 0, exRows⟩, ⟨some 1, exRows.take 3⟩] c03FsNone).bind
    (fun st => st.1 ⟨some 1, false, 0⟩)).map (fun ls => ls.map (·.1.id)) == some [1]
#guard ((confRunAll 2 true true 1 false [⟨some 0, exRows⟩, ⟨some 1, exRows.take 3⟩] c03FsNone).bind
    (fun st => st.1 ⟨some 0, true, 1⟩)).map (fun ls => ls.map (·.1.id)) == some [2]
-- without prefixes the second collection is appended to the files of the first
#guard ((confRunAll 2 true true 1 false [⟨none, exRows⟩, ⟨none, exRows.take 3⟩] c03FsNone).bind
    (fun st => st.1 ⟨none, false, 0⟩)).map (fun ls => ls.map (·.1.id)) == some [1, 3, 1]
-- decoys off: no decoys file appears
#guard ((confRunAll 2 true false 1 false [⟨none, exRows⟩] c03FsNone).map
    (fun st => (st.1 ⟨none, true, 0⟩).isNone)) == some true
-- mixed prefixes: the prefixed collection after an un-prefixed one starts its own files afresh
#guard ((confRunAll 2 true true 1 false [⟨none, exRows⟩, ⟨some 1, exRows.take 3⟩]
      (fun n => if n.pre = some 1 then some [(exRows[4]!, 1)] else none)).bind
    (fun st => st.1 ⟨some 1, false, 0⟩)).map (fun ls => ls.map (·.1.id)) == some [1]
-- a collection without rows makes the call raise
#guard (confRunAll 2 true true 1 false [⟨none, exRows⟩, ⟨none, []⟩] c03FsNone).isNone

end Mk
