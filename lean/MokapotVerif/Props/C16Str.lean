import MokapotVerif.Lemmas.GroupingStr
import MokapotVerif.Props.C16Ext
/-!
# C16 (second extension) — the strings handed out, exact hash independence, repeated entries

Property theorems only; they close gaps of the second pass of `GAPS-C16.md`:

* **A. group names.**  A group name lists the members *in processing order* (a declarative
  description of the string, the same for every enumeration of the match sets); the code's
  incremental `", ".join([match, prot])` builds exactly the join of the member list; the join
  is injective on blank-free names, so the list-keyed model and the string-keyed code are
  isomorphic (the assumption argued in `Model/Grouping.lean` is now a theorem).
* **B. exact hash independence.**  For a fixed FASTA (entries and tie order of the sorts fixed),
  two runs that differ in the iteration order of the `matches` sets return *equal* Python
  values: the same `peptide_map` (same keys in the same order, same name strings), the same
  keys of `shared_peptides` in the same order, and — because the code sorts the group names
  before joining them (fasta.py:163) — the same `"; "`-joined strings.  `C16_order_independent`
  only gave equality as sets.
* **C.** `has_decoys` does not depend on the entry order either.
* **D. repeated entries.**  A FASTA in which a protein is listed several times with the same
  peptide set (the same file given twice, overlapping files) is inside the property: the result
  is the maximal-subset grouping of the distinct proteins.  `WF` excluded every repeated name.
-/
namespace Mk.Grouping
variable {α β : Type} [DecidableEq α] [DecidableEq β]

/-! ## A. group names -/

/-- **a group name lists, in processing order, exactly the proteins whose peptide set lies inside
the group's** — for every tie order `srt` of the sorts and every enumeration of the match sets;
in particular the name does not depend on the enumeration -/
theorem C16_group_name_lists_members_in_processing_order (isDecoy : α → Bool) (mkDecoy : α → α)
    (enum : Nat → List (GKey α) → List (GKey α)) (henum : ∀ n s, (enum n s).Perm s)
    (entries srt : List (Prot α β)) (hwf : WF (protsOf entries))
    (hperm : srt.Perm (protsOf entries))
    (hsorted : srt.Pairwise (fun a b => b.2.length ≤ a.2.length))
    (o : Out α β) (ho : readFastaOf isDecoy mkDecoy enum entries srt = some o)
    (k : GKey α) (S : List β) (hk : (k, S) ∈ o.groups) : k = membersInOrder srt S := by
  obtain ⟨hidx, hg, _, _⟩ := C16_read_fasta_calls_group_proteins isDecoy mkDecoy enum entries srt o ho
  rw [hg] at hk
  exact groupProteinsOf_key enum henum (protsOf entries) srt (pepmap0 entries) hwf hidx hperm hsorted k S hk

/-- the same for `_group_proteins` called directly: the keys of the returned `grouped` dict list the
members in the order of the function's own sort -/
theorem C16_group_proteins_name_in_processing_order (enum : Nat → List (GKey α) → List (GKey α))
    (henum : ∀ n s, (enum n s).Perm s) (P srt : List (Prot α β)) (pmW : List (PepEntry α β))
    (hwf : WF P) (hidx : IsPepIndex P pmW) (hperm : srt.Perm P)
    (hsorted : srt.Pairwise (fun a b => b.2.length ≤ a.2.length))
    (k : GKey α) (S : List β) (hk : (k, S) ∈ (groupProteinsOf enum pmW srt).grouped) :
    k = membersInOrder srt S :=
  groupProteinsOf_key enum henum P srt pmW hwf hidx hperm hsorted k S hk

/-- the string the code builds when a protein joins a group, `", ".join([match, prot])` with `match`
the string built so far, is the `", "`-join of the extended member list -/
theorem C16_group_name_incremental (m : GKey (List Char)) (c : List Char) (hm : m ≠ []) :
    nameOf (m ++ [c]) = newProt (nameOf m) c ∧ newProt (nameOf m) c = nameOf m ++ sepG ++ c := by
  refine ⟨nameOf_append_singleton m c hm, ?_⟩
  simp [newProt, joinWith, joinTail]

/-- `", ".join` is injective on non-empty lists of blank-free names (`_parse_protein` cuts a name at
the first blank): two member lists with the same name string are the same list -/
theorem C16_group_name_injective (k k' : GKey (List Char)) (hk : k ≠ []) (hk' : k' ≠ [])
    (hb : ∀ x ∈ k, ' ' ∉ x) (hb' : ∀ x ∈ k', ' ' ∉ x) (h : nameOf k = nameOf k') : k = k' :=
  nameOf_injective k k' hk hk' hb hb' h

/-- in a result, different groups have different name strings (so `peptide_map` values and the
split `shared_peptides` values identify groups) -/
theorem C16_result_names_distinct (isDecoy : List Char → Bool) (mkDecoy : List Char → List Char)
    (enum : Nat → List (GKey (List Char)) → List (GKey (List Char))) (henum : ∀ n s, (enum n s).Perm s)
    (entries srt : List (Prot (List Char) β)) (hwf : WF (protsOf entries))
    (hblank : ∀ q S, (q, S) ∈ entries → ' ' ∉ q)
    (hperm : srt.Perm (protsOf entries))
    (hsorted : srt.Pairwise (fun a b => b.2.length ≤ a.2.length))
    (o : Out (List Char) β) (ho : readFastaOf isDecoy mkDecoy enum entries srt = some o)
    (k : GKey (List Char)) (S : List β) (k' : GKey (List Char)) (S' : List β)
    (hk : (k, S) ∈ o.groups) (hk' : (k', S') ∈ o.groups) (h : nameOf k = nameOf k') : k = k' := by
  have hsub := C16_members_subsets isDecoy mkDecoy enum henum entries srt hwf hperm hsorted o ho
  have hfound := C16_group_set_is_member_set isDecoy mkDecoy enum henum entries srt hwf hperm hsorted o ho
  have hne : ∀ k S, (k, S) ∈ o.groups → k ≠ [] := by
    intro k S hk h0
    obtain ⟨q, hq, _⟩ := hfound k S hk
    rw [h0] at hq; simp at hq
  have hbl : ∀ k S, (k, S) ∈ o.groups → ∀ x ∈ k, ' ' ∉ x := by
    intro k S hk x hx
    obtain ⟨Sq, hq, _⟩ := (hsub k S hk).2 x hx
    exact hblank x Sq hq
  exact nameOf_injective k k' (hne k S hk) (hne k' S' hk') (hbl k S hk) (hbl k' S' hk') h

/-! ## B. exact hash independence -/

/-- **the iteration order of the `matches` sets changes no name and no key**: for the same FASTA
entries and the same tie order of the sorts, two runs with any two enumerations return the same
`peptide_map` (as a list of items: same keys in the same order, same group names with the same
member order), the same groups with the same names and peptide sets, the same keys of
`shared_peptides` in the same order, under every shared peptide a permutation of the same group
names, the same `protein_map` and the same `has_decoys` -/
theorem C16_hash_independent_exact (isDecoy : α → Bool) (mkDecoy : α → α)
    (enum enum' : Nat → List (GKey α) → List (GKey α))
    (henum : ∀ n s, (enum n s).Perm s) (henum' : ∀ n s, (enum' n s).Perm s)
    (entries srt : List (Prot α β)) (hwf : WF (protsOf entries))
    (hperm : srt.Perm (protsOf entries))
    (hsorted : srt.Pairwise (fun a b => b.2.length ≤ a.2.length))
    (o o' : Out α β) (ho : readFastaOf isDecoy mkDecoy enum entries srt = some o)
    (ho' : readFastaOf isDecoy mkDecoy enum' entries srt = some o') :
    o.peptideMap = o'.peptideMap ∧
    (∀ k S, (k, S) ∈ o.groups ↔ (k, S) ∈ o'.groups) ∧
    o.shared.map (·.1) = o'.shared.map (·.1) ∧
    (∀ p ks ks', (p, ks) ∈ o.shared → (p, ks') ∈ o'.shared → ks.Perm ks') ∧
    o.proteinMap = o'.proteinMap ∧ o.hasDecoys = o'.hasDecoys := by
  obtain ⟨hidx, hg, hu, hs⟩ := C16_read_fasta_calls_group_proteins isDecoy mkDecoy enum entries srt o ho
  obtain ⟨_, hg', hu', hs'⟩ := C16_read_fasta_calls_group_proteins isDecoy mkDecoy enum' entries srt o' ho'
  obtain ⟨h1, h2, h3⟩ := groupProteinsOf_enum_exact enum enum' henum henum' (protsOf entries) srt
    (pepmap0 entries) hwf hidx hperm hsorted
  obtain ⟨_, hP, _⟩ := groupProteinsOf_inv enum henum (protsOf entries) srt (pepmap0 entries) hwf hidx hperm hsorted
  obtain ⟨_, _, e3, e4, _⟩ := readFastaOf_eq_some _ _ _ _ _ _ ho
  obtain ⟨_, _, e3', e4', _⟩ := readFastaOf_eq_some _ _ _ _ _ _ ho'
  refine ⟨?_, ?_, ?_, ?_, by rw [e3, e3'], by rw [e4, e4']⟩
  · rw [hu, hu']; exact uniquePeps_enum_eq h2 hP.keys h3
  · rw [hg, hg']; exact h1
  · rw [hs, hs']; exact sharedPeps_map_enum_eq h2 hP.keys h3 (·.1) (fun _ _ _ _ => rfl)
  · intro p ks ks' hm hm'
    rw [hs] at hm; rw [hs'] at hm'
    exact h3 p ks ks' ((mem_sharedPeps _ _).mp hm).1 ((mem_sharedPeps _ _).mp hm').1

/-- both return values of `_group_proteins` called directly: same `grouped` items, same keys of the
returned `peptides` dict, under every peptide a permutation of the same group names -/
theorem C16_group_proteins_hash_independent_exact (enum enum' : Nat → List (GKey α) → List (GKey α))
    (henum : ∀ n s, (enum n s).Perm s) (henum' : ∀ n s, (enum' n s).Perm s)
    (P srt : List (Prot α β)) (pmW : List (PepEntry α β)) (hwf : WF P) (hidx : IsPepIndex P pmW)
    (hperm : srt.Perm P) (hsorted : srt.Pairwise (fun a b => b.2.length ≤ a.2.length)) :
    (∀ k S, (k, S) ∈ (groupProteinsOf enum pmW srt).grouped ↔ (k, S) ∈ (groupProteinsOf enum' pmW srt).grouped) ∧
    (groupProteinsOf enum pmW srt).pepmap.map (·.1) = (groupProteinsOf enum' pmW srt).pepmap.map (·.1) ∧
    ∀ p ks ks', (p, ks) ∈ (groupProteinsOf enum pmW srt).pepmap →
      (p, ks') ∈ (groupProteinsOf enum' pmW srt).pepmap → ks.Perm ks' :=
  groupProteinsOf_enum_exact enum enum' henum henum' P srt pmW hwf hidx hperm hsorted

/-- **the order in which the `peptides` dict was filled does not matter either** (fasta.py:100-101
iterates the set `peps`, so the key order of `peptides` and the insertion order of each of its sets
depend on the hash seed): for two index dicts `pmW`, `pmW'` of the same proteins — any key orders,
any enumeration of each set, possibly further keys — and any two enumerations of the match sets,
`_group_proteins` returns the same `grouped` items and under every peptide a permutation of the
same group names; hence, *as dicts*, the same `peptide_map` (peptide ↦ group name) and the same
`shared_peptides` strings (peptide ↦ `"; ".join(sorted(…))`) for every canonical sort -/
theorem C16_peptide_dicts_independent_of_index_order
    (enum enum' : Nat → List (GKey (List Char)) → List (GKey (List Char)))
    (henum : ∀ n s, (enum n s).Perm s) (henum' : ∀ n s, (enum' n s).Perm s)
    (sortS : List (List Char) → List (List Char)) (hcanon : ∀ l l', l.Perm l' → sortS l = sortS l')
    (P srt : List (Prot (List Char) β)) (pmW pmW' : List (PepEntry (List Char) β)) (hwf : WF P)
    (hidx : IsPepIndex P pmW) (hidx' : IsPepIndex P pmW')
    (hkeys : ∀ p, p ∈ pmW.map (·.1) ↔ p ∈ pmW'.map (·.1))
    (hperm : srt.Perm P) (hsorted : srt.Pairwise (fun a b => b.2.length ≤ a.2.length)) :
    (∀ k S, (k, S) ∈ (groupProteinsOf enum pmW srt).grouped ↔ (k, S) ∈ (groupProteinsOf enum' pmW' srt).grouped) ∧
    (∀ p k, (p, k) ∈ uniquePeps (groupProteinsOf enum pmW srt).pepmap ↔
      (p, k) ∈ uniquePeps (groupProteinsOf enum' pmW' srt).pepmap) ∧
    (∀ p v, (p, v) ∈ renderShared sortS (sharedPeps (groupProteinsOf enum pmW srt).pepmap) ↔
      (p, v) ∈ renderShared sortS (sharedPeps (groupProteinsOf enum' pmW' srt).pepmap)) := by
  obtain ⟨h1, h2⟩ := groupProteinsOf_index_exact enum enum' henum henum' P srt pmW pmW' hwf hidx hidx' hperm hsorted
  have hk : ∀ p, p ∈ (groupProteinsOf enum pmW srt).pepmap.map (·.1) ↔
      p ∈ (groupProteinsOf enum' pmW' srt).pepmap.map (·.1) := by
    intro p
    unfold groupProteinsOf
    rw [groupGo_keys, groupGo_keys]
    exact hkeys p
  obtain ⟨a1, a2⟩ := peptide_dicts_eq_of_perm (fun p => (hk p).mp) h2 sortS hcanon
  obtain ⟨b1, b2⟩ := peptide_dicts_eq_of_perm (fun p => (hk p).mpr)
    (fun p ks ks' x y => (h2 p ks' ks y x).symm) sortS hcanon
  exact ⟨h1, fun p k => ⟨a1 p k, b1 p k⟩, fun p v => ⟨a2 p v, b2 p v⟩⟩

/-- Python's `sorted` on strings (`sortStrs`: code-point lexicographic) returns a sorted
rearrangement of its argument, and is *canonical*: it depends on the set it is given, not on the
order in which that set is enumerated -/
theorem C16_sorted_is_canonical (l : List (List Char)) :
    (sortStrs l).Perm l ∧ (sortStrs l).Pairwise (fun a b => strLe a b = true) ∧
    ∀ l', l.Perm l' → sortStrs l = sortStrs l' :=
  ⟨sortStrs_perm l, sortStrs_sorted l, fun _ h => sortStrs_congr h⟩

/-- **the Python values are equal**: for the same FASTA and tie order, whatever the iteration order
of the sets, `read_fasta` returns the same `peptide_map` items (name strings), the same
`shared_peptides` items (`"; ".join(sorted(…))` strings), the same `protein_map`, the same
`has_decoys` — for every sort that is canonical (as `sorted` is, `C16_sorted_is_canonical`) -/
theorem C16_rendered_hash_independent (isDecoy : List Char → Bool) (mkDecoy : List Char → List Char)
    (enum enum' : Nat → List (GKey (List Char)) → List (GKey (List Char)))
    (henum : ∀ n s, (enum n s).Perm s) (henum' : ∀ n s, (enum' n s).Perm s)
    (sortS : List (List Char) → List (List Char)) (hcanon : ∀ l l', l.Perm l' → sortS l = sortS l')
    (entries srt : List (Prot (List Char) β)) (hwf : WF (protsOf entries))
    (hperm : srt.Perm (protsOf entries))
    (hsorted : srt.Pairwise (fun a b => b.2.length ≤ a.2.length))
    (o o' : Out (List Char) β) (ho : readFastaOf isDecoy mkDecoy enum entries srt = some o)
    (ho' : readFastaOf isDecoy mkDecoy enum' entries srt = some o') :
    render sortS o = render sortS o' := by
  obtain ⟨h1, _, _, _, h5, h6⟩ := C16_hash_independent_exact isDecoy mkDecoy enum enum' henum henum'
    entries srt hwf hperm hsorted o o' ho ho'
  obtain ⟨hidx, _, _, hs⟩ := C16_read_fasta_calls_group_proteins isDecoy mkDecoy enum entries srt o ho
  obtain ⟨_, _, _, hs'⟩ := C16_read_fasta_calls_group_proteins isDecoy mkDecoy enum' entries srt o' ho'
  obtain ⟨_, h2, h3⟩ := groupProteinsOf_enum_exact enum enum' henum henum' (protsOf entries) srt
    (pepmap0 entries) hwf hidx hperm hsorted
  obtain ⟨_, hP, _⟩ := groupProteinsOf_inv enum henum (protsOf entries) srt (pepmap0 entries) hwf hidx hperm hsorted
  unfold render
  rw [h1, h5, h6, hs, hs', renderShared_enum_eq h2 hP.keys h3 sortS hcanon]

/-- the value recorded for a shared peptide is the `"; "`-join of a list that is sorted and holds,
once each, exactly the names of the groups containing the peptide -/
theorem C16_shared_value_lists_sorted_group_names (isDecoy : List Char → Bool) (mkDecoy : List Char → List Char)
    (enum : Nat → List (GKey (List Char)) → List (GKey (List Char))) (henum : ∀ n s, (enum n s).Perm s)
    (entries srt : List (Prot (List Char) β)) (hwf : WF (protsOf entries))
    (hperm : srt.Perm (protsOf entries))
    (hsorted : srt.Pairwise (fun a b => b.2.length ≤ a.2.length))
    (o : Out (List Char) β) (ho : readFastaOf isDecoy mkDecoy enum entries srt = some o)
    (p : β) (ks : List (GKey (List Char))) (h : (p, ks) ∈ o.shared) :
    sharedValue sortStrs ks = joinWith sepS (sortStrs (ks.map nameOf)) ∧
    (sortStrs (ks.map nameOf)).Pairwise (fun a b => strLe a b = true) ∧
    (sortStrs (ks.map nameOf)).length = ks.length ∧
    ∀ x, x ∈ sortStrs (ks.map nameOf) ↔ ∃ k S, (k, S) ∈ o.groups ∧ p ∈ S ∧ x = nameOf k := by
  obtain ⟨_, hks⟩ := C16_shared_lists_all_groups isDecoy mkDecoy enum henum entries srt hwf hperm hsorted o ho p ks h
  refine ⟨rfl, sortStrs_sorted _, by rw [(sortStrs_perm _).length_eq, List.length_map], fun x => ?_⟩
  rw [(sortStrs_perm _).mem_iff, List.mem_map]
  constructor
  · rintro ⟨k, hk, rfl⟩
    obtain ⟨S, hS, hp⟩ := (hks k).mp hk
    exact ⟨k, S, hS, hp, rfl⟩
  · rintro ⟨k, S, hS, hp, rfl⟩
    exact ⟨k, (hks k).mpr ⟨S, hS, hp⟩, rfl⟩

/-! ## C. `has_decoys` and the entry order -/

/-- in the setting of `C16_order_independent` (same proteins, any entry order, any tie and set
iteration order) the flag `has_decoys` is the same too -/
theorem C16_has_decoys_order_independent (isDecoy : α → Bool) (mkDecoy : α → α)
    (enum enum' : Nat → List (GKey α) → List (GKey α))
    (henum : ∀ n s, (enum n s).Perm s) (henum' : ∀ n s, (enum' n s).Perm s)
    (entries entries' srt srt' : List (Prot α β))
    (hwf : WF (protsOf entries)) (hwf' : WF (protsOf entries'))
    (hsame : SameInput (protsOf entries) (protsOf entries'))
    (hperm : srt.Perm (protsOf entries)) (hperm' : srt'.Perm (protsOf entries'))
    (hsorted : srt.Pairwise (fun a b => b.2.length ≤ a.2.length))
    (hsorted' : srt'.Pairwise (fun a b => b.2.length ≤ a.2.length))
    (o o' : Out α β) (ho : readFastaOf isDecoy mkDecoy enum entries srt = some o)
    (ho' : readFastaOf isDecoy mkDecoy enum' entries' srt' = some o') :
    o.hasDecoys = o'.hasDecoys := by
  have h1 := C16_has_decoys_iff isDecoy mkDecoy enum henum entries srt hwf hperm hsorted o ho
  have h2 := C16_has_decoys_iff isDecoy mkDecoy enum' henum' entries' srt' hwf' hperm' hsorted' o' ho'
  have key : o.hasDecoys = true ↔ o'.hasDecoys = true := by
    rw [h1, h2]
    constructor
    · rintro ⟨t, S, S', a, b, c⟩
      obtain ⟨T, hT, _⟩ := hsame.1 t S a
      obtain ⟨T', hT', _⟩ := hsame.1 _ S' c
      exact ⟨t, T, T', hT, b, hT'⟩
    · rintro ⟨t, S, S', a, b, c⟩
      obtain ⟨T, hT, _⟩ := hsame.2 t S a
      obtain ⟨T', hT', _⟩ := hsame.2 _ S' c
      exact ⟨t, T, T', hT, b, hT'⟩
  cases h : o.hasDecoys <;> cases h' : o'.hasDecoys <;> simp_all

/-! ## D. repeated entries -/

/-- **a protein listed several times with the same peptide set** (hypothesis `hc`: entries with the
same name and peptides carry the same peptide set — e.g. the same sequence digested twice; the
peptide sets are duplicate-free): the `proteins` dict holds every such protein once
(`buildProteins entries`), and the result of `read_fasta` is the maximal-subset grouping of these
distinct proteins with its consistent peptide maps and the target/decoy pairing; no `KeyError` -/
theorem C16_repeated_entries_meet_spec (isDecoy : α → Bool) (mkDecoy : α → α)
    (enum : Nat → List (GKey α) → List (GKey α)) (henum : ∀ n s, (enum n s).Perm s)
    (entries srt : List (Prot α β))
    (hc : ∀ q S S', (q, S) ∈ protsOf entries → (q, S') ∈ protsOf entries → S = S')
    (hsets : ∀ q S, (q, S) ∈ protsOf entries → S.Nodup)
    (hperm : srt.Perm (buildProteins entries))
    (hsorted : srt.Pairwise (fun a b => b.2.length ≤ a.2.length))
    (o : Out α β) (ho : readFastaOf isDecoy mkDecoy enum entries srt = some o) :
    WF (buildProteins entries) ∧
    (∀ e, e ∈ buildProteins entries ↔ e ∈ protsOf entries) ∧
    IsGrouping (buildProteins entries) o.groups ∧
    IsPeptideMap (buildProteins entries) o.groups o.peptideMap o.shared ∧
    (∀ t d, (t, d) ∈ o.proteinMap ↔
      (∃ S, (t, S) ∈ entries ∧ S ≠ []) ∧ isDecoy t = false ∧ d = mkDecoy t) ∧
    groupGoSafe enum ⟨[], pepmap0 entries⟩ srt = true := by
  obtain ⟨hnd, hmem⟩ := buildProteins_consistent entries hc
  have hwf : WF (buildProteins entries) := by
    refine ⟨hnd, fun q S hq => ?_⟩
    have hq' := (hmem _).mp hq
    exact ⟨((mem_protsOf _ _).mp hq').2, hsets q S hq'⟩
  have hidx : IsPepIndex (buildProteins entries) (pepmap0 entries) :=
    IsPepIndex.congr (fun e => (hmem e).symm) (isPepIndex_pepmap0 entries)
  obtain ⟨hG, hP, hsafe⟩ := groupProteinsOf_inv enum henum (buildProteins entries) srt (pepmap0 entries)
    hwf hidx hperm hsorted
  obtain ⟨h1, h2, h3, _, h5⟩ := readFastaOf_eq_some _ _ _ _ _ _ ho
  have hgrp : IsGrouping (buildProteins entries) (finalSt enum entries srt).grouped :=
    isGrouping_of_GI hG (fun e => hperm.mem_iff)
  have hkeys : ∀ p, p ∈ (finalSt enum entries srt).pepmap.map (·.1) ↔
      ∃ q S, (q, S) ∈ buildProteins entries ∧ p ∈ S := by
    intro p
    rw [finalSt_keys]
    constructor
    · rintro ⟨q, S, hq, hp⟩; exact ⟨q, S, (hmem _).mpr hq, hp⟩
    · rintro ⟨q, S, hq, hp⟩; exact ⟨q, S, (hmem _).mp hq, hp⟩
  refine ⟨hwf, hmem, by rw [h5]; exact hgrp, ?_, ?_, hsafe⟩
  · rw [h1, h2, h5]
    exact isPeptideMap_of_PI hwf hgrp hP hkeys
  · intro t d
    rw [h3, mem_decoyMap]
    constructor
    · rintro ⟨⟨S, hS⟩, a, b⟩; exact ⟨⟨S, (mem_protsOf _ _).mp ((hmem _).mp hS)⟩, a, b⟩
    · rintro ⟨⟨S, hS⟩, a, b⟩; exact ⟨⟨S, (hmem _).mpr ((mem_protsOf _ _).mpr hS)⟩, a, b⟩

/-- the executable model (`readFasta`, the run of the driver) on such a FASTA is an instance of the
runs quantified over in `C16_repeated_entries_meet_spec` -/
theorem C16_repeated_entries_executable_is_instance (isDecoy : α → Bool) (mkDecoy : α → α)
    (entries : List (Prot α β)) :
    readFasta isDecoy mkDecoy entries =
        readFastaOf isDecoy mkDecoy (fun _ s => s) entries (sortProteins (buildProteins entries)) ∧
      (sortProteins (buildProteins entries)).Perm (buildProteins entries) ∧
      (sortProteins (buildProteins entries)).Pairwise (fun a b => b.2.length ≤ a.2.length) :=
  ⟨rfl, sortProteins_perm _, sortProteins_sorted _⟩

/-! ## Non-vacuity and evaluation tests -/

/-- names as character lists; `"A"` ⊋ `"B"`, `"C"` overlaps `"A"`, `"d_A"` has `"B"`'s set -/
def exS : List (Prot (List Char) Nat) :=
  [("B".toList, [1]), ("A".toList, [1, 2, 3]), ("C".toList, [3, 4]), ("d_A".toList, [1])]
def exSsrt : List (Prot (List Char) Nat) :=
  [("A".toList, [1, 2, 3]), ("C".toList, [3, 4]), ("d_A".toList, [1]), ("B".toList, [1])]

example : WF (protsOf exS) := by
  constructor
  · decide
  · intro q S h
    have : (q, S) ∈ exS := ((mem_protsOf _ _).mp h).1
    simp only [exS, List.mem_cons, Prod.mk.injEq, List.not_mem_nil, or_false] at this
    rcases this with ⟨_, rfl⟩ | ⟨_, rfl⟩ | ⟨_, rfl⟩ | ⟨_, rfl⟩ <;> simp
example : exSsrt.Perm (protsOf exS) := by decide
example : exSsrt.Pairwise (fun a b => b.2.length ≤ a.2.length) := by decide
example : ∀ q S, (q, S) ∈ exS → ' ' ∉ q := by
  intro q S h
  simp only [exS, List.mem_cons, Prod.mk.injEq, List.not_mem_nil, or_false] at h
  rcases h with ⟨rfl, _⟩ | ⟨rfl, _⟩ | ⟨rfl, _⟩ | ⟨rfl, _⟩ <;> decide
-- both enumerations succeed; the group names are the members in processing order
example : ((readFastaOf (isDecoyPre "d_".toList) (mkDecoyPre "d_".toList) (fun _ s => s) exS exSsrt).map
    (fun o => o.groups.map (·.1))) = some [["C".toList], ["A".toList, "d_A".toList, "B".toList]] := by decide
example : ((readFastaOf (isDecoyPre "d_".toList) (mkDecoyPre "d_".toList) (fun _ s => s.reverse) exS exSsrt).map
    (fun o => o.shared)) = some [(3, [["C".toList], ["A".toList, "d_A".toList, "B".toList]])] := by decide
example : membersInOrder exSsrt [1, 2, 3] = ["A".toList, "d_A".toList, "B".toList] := by decide
example : nameOf ["A".toList, "d_A".toList, "B".toList] = "A, d_A, B".toList := by decide
-- a name with a blank breaks injectivity: the hypothesis of `C16_group_name_injective` is needed
example : nameOf ["A, B".toList] = nameOf ["A".toList, "B".toList] := by decide

/-- `B` lies inside `A` and inside `C`: the match set of `B` has two elements, the two enumerations
rename the groups in different orders — the set under the shared peptide 1 is enumerated
differently, its sorted join is the same -/
def exT : List (Prot (List Char) Nat) := [("C".toList, [1, 3]), ("A".toList, [1, 2]), ("B".toList, [1])]
example : WF (protsOf exT) := by
  constructor
  · decide
  · intro q S h
    have : (q, S) ∈ exT := ((mem_protsOf _ _).mp h).1
    simp only [exT, List.mem_cons, Prod.mk.injEq, List.not_mem_nil, or_false] at this
    rcases this with ⟨_, rfl⟩ | ⟨_, rfl⟩ | ⟨_, rfl⟩ <;> simp
example : exT.Perm (protsOf exT) := by decide
example : exT.Pairwise (fun a b => b.2.length ≤ a.2.length) := by decide
example : (readFastaOf (isDecoyPre "d_".toList) (mkDecoyPre "d_".toList) (fun _ s => s) exT exT).map (·.shared) =
    some [(1, [["C".toList, "B".toList], ["A".toList, "B".toList]])] := by decide
example : (readFastaOf (isDecoyPre "d_".toList) (mkDecoyPre "d_".toList) (fun _ s => s.reverse) exT exT).map (·.shared) =
    some [(1, [["A".toList, "B".toList], ["C".toList, "B".toList]])] := by decide

/-- two `peptides` dicts of `exT` with other key orders and set enumerations -/
def exTpm : List (PepEntry (List Char) Nat) :=
  [(1, [["C".toList], ["A".toList], ["B".toList]]), (3, [["C".toList]]), (2, [["A".toList]])]
def exTpm' : List (PepEntry (List Char) Nat) :=
  [(2, [["A".toList]]), (1, [["B".toList], ["A".toList], ["C".toList]]), (3, [["C".toList]])]
example : exTpm = pepmap0 exT := by decide
example : IsPepIndex (protsOf exT) exTpm := by
  have : exTpm = pepmap0 exT := by decide
  rw [this]; exact isPepIndex_pepmap0 exT
example : IsPepIndex (protsOf exT) exTpm' := by
  have h1 : exTpm' = wrapIndex [(2, ["A".toList]), (1, ["B".toList, "A".toList, "C".toList]), (3, ["C".toList])] := by
    decide
  have h2 : protsOf exT = exT := by decide
  rw [h1, h2]
  exact isPepIndex_wrapIndex (isRawIndex_of_B (by decide))
example : ∀ p, p ∈ exTpm.map (·.1) ↔ p ∈ exTpm'.map (·.1) := by
  intro p; simp only [exTpm, exTpm', List.map_cons, List.map_nil, List.mem_cons, List.not_mem_nil, or_false]; omega
example : (groupProteinsOf (fun _ s => s) exTpm' exT).pepmap =
    [(2, [["A".toList, "B".toList]]), (1, [["A".toList, "B".toList], ["C".toList, "B".toList]]), (3, [["C".toList, "B".toList]])] := by
  decide

/-- a FASTA that lists `A` twice with the same peptide set -/
def exR : List (Prot Nat Nat) := [(1, [1, 2]), (2, [1]), (1, [1, 2]), (3, [])]
example : ∀ q S S', (q, S) ∈ protsOf exR → (q, S') ∈ protsOf exR → S = S' := consistent_of_B exR (by decide)
example : ¬ WF (protsOf exR) := fun h => absurd h.names (by decide)
example : buildProteins exR = [(1, [1, 2]), (2, [1])] := by decide
example : ([(1, [1, 2]), (2, [1])] : List (Prot Nat Nat)).Perm (buildProteins exR) := by decide
example : (readFastaOf exNdecoy exNmk (fun _ s => s) exR [(1, [1, 2]), (2, [1])]).map (·.groups) =
    some [([1, 2], [1, 2])] := by decide

-- evaluation tests (compiler-evaluated: *tests*, not theorems)
#guard sortStrs ["b".toList, "a, c".toList, "a".toList, "B".toList] ==
  ["B".toList, "a".toList, "a, c".toList, "b".toList]
#guard String.ofList (sharedValue sortStrs [["C".toList], ["A".toList, "d_A".toList, "B".toList]]) == "A, d_A, B; C"
#guard String.ofList (sharedValue sortStrs [["A".toList, "d_A".toList, "B".toList], ["C".toList]]) == "A, d_A, B; C"
#guard (readFasta exDecoy exMk exEntries).map (fun o => o.groups.map (·.1)) ==
  some [["C"], ["A", "B", "d_A"]]
#guard ((readFastaOf (isDecoyPre "d_".toList) (mkDecoyPre "d_".toList) (fun _ s => s) exT exT).map
    (fun o => (render sortStrs o).shared.map (fun e => (e.1, String.ofList e.2)))) == some [(1, "A, B; C, B")]
#guard ((readFastaOf (isDecoyPre "d_".toList) (mkDecoyPre "d_".toList) (fun _ s => s.reverse) exT exT).map
    (fun o => (render sortStrs o).shared.map (fun e => (e.1, String.ofList e.2)))) == some [(1, "A, B; C, B")]
#guard consistentB exR == true
#guard consistentB [((1 : Nat), [(1 : Nat), 2]), (1, [1])] == false

end Mk.Grouping
