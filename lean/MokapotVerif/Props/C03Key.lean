import MokapotVerif.Lemmas.ConfidenceKey
/-!
# C03 — which cells are "the same spectrum / entity": the key of `confidence._entity_key`

The competition theorems treat a key as an abstract value compared by equality.  Here: what that
equality is on the cells of a table (`Model/ConfidenceKey.lean`), for every text, every dtype a
chunk may have been given, every list of key columns.
-/
namespace Mk

/-- **The key does not depend on the chunk a row was read in.**  Whatever dtype pandas gave the
column in the chunk — numeric (then the text is a plain number) or object — the canonical value
of a cell is that of its text; so two rows with the same texts in their key columns have the same
key in every chunking, and the scan's seen-set works on table cells, not on parse artefacts. -/
theorem C03_entity_key_chunk_independent (d : ConfDtype) (s : List Char) :
    confCanonical (confReadCell d s) = confCanonical (.text s) := by
  cases d with
  | object => simp [confReadCell]
  | numeric =>
    unfold confReadCell
    cases hp : confPlainNumber s with
    | none => rfl
    | some a =>
      cases a with
      | text t => rfl
      | num m e z =>
        simp only [confCanonical, hp, Option.getD_some]
        obtain ⟨m0, e0, z0, ha⟩ := confPlainNumber_normal s _ hp
        exact confNormNum_idem m0 e0 z0 m e z ha.symm

/-- the same for whole keys: any assignment of dtypes to the key columns -/
theorem C03_entity_key_of_row_chunk_independent (ds : List ConfDtype) (ss : List (List Char))
    (h : ds.length = ss.length) :
    confEntityKey (List.zipWith confReadCell ds ss) = confEntityKey (ss.map .text) := by
  unfold confEntityKey
  induction ds generalizing ss with
  | nil =>
    cases ss with
    | nil => rfl
    | cons _ _ => simp at h
  | cons d rest ih =>
    cases ss with
    | nil => simp at h
    | cons s ss' =>
      simp only [List.zipWith_cons_cons, List.map_cons, C03_entity_key_chunk_independent]
      rw [ih ss' (by simpa using h)]

/-- **Numbers are keyed by value**: a numeric cell and a plain-number text with the same normal
form have the same key, whatever their spelling -/
theorem C03_entity_key_number_by_value (m e : Int) (z : Bool) (s : List Char)
    (h : confPlainNumber s = some (confNormNum m e z)) :
    confCanonical (.num m e z) = confCanonical (.text s) := by
  simp [confCanonical, h]

/-- **Other text is keyed by itself**: two texts that are not plain numbers have the same key iff
they are the same text, and such a text never shares a key with a number -/
theorem C03_entity_key_text_by_itself (s t : List Char)
    (hs : confPlainNumber s = none) (ht : confPlainNumber t = none) :
    (confCanonical (.text s) = confCanonical (.text t) ↔ s = t) ∧
    (∀ m e z, confCanonical (.text s) ≠ confCanonical (.num m e z)) := by
  refine ⟨?_, ?_⟩
  · simp [confCanonical, hs, ht]
  · intro m e z
    obtain ⟨m', e', z', hn⟩ := confNormNum_isNum m e z
    simp [confCanonical, hs, hn]

/-- **Spellings** (finite table, kernel-evaluated): `500`, `500.0`, `+500.`, `5e2`, `.5E+3`,
`0500`, `5000e-1` and the numbers 500 / 500.0 are one key; `INF`, `INFINITY`, `inf`, `NAN`, `nan`,
`NA`, `1_000`, ` 7`, `7 `, `0x10`, `1e`, `.`, `+`, the empty text and `17_b` are not numbers;
`-0` is a number, but not the key of `0` (`repr(-0.0)`); a bool is keyed as the text of its name. -/
theorem C03_entity_key_spellings :
    (["500", "500.0", "+500.", "5e2", ".5E+3", "0500", "5000e-1"].map
        (fun s => confCanonical (.text s.toList))).all (· == confCanonical (.num 500 0 false)) = true ∧
    confCanonical (.num 5000 (-1) false) = confCanonical (.num 5 2 false) ∧
    (["INF", "INFINITY", "inf", "NAN", "nan", "NA", "1_000", " 7", "7 ", "0x10", "1e", ".", "+", "", "17_b"].map
        (fun s => confPlainNumber s.toList)).all (· == none) = true ∧
    confCanonical (.text "INF".toList) ≠ confCanonical (.text "INFINITY".toList) ∧
    confCanonical (.text "-0".toList) ≠ confCanonical (.text "0".toList) ∧
    confCanonical (.text "-0.0".toList) = confCanonical (.num 0 0 true) ∧
    confCanonical (.bool true) = confCanonical (.text "True".toList) ∧
    confCanonical (.bool false) ≠ confCanonical (.num 0 0 false) := by
  decide

/-! ## Non-vacuity -/

/-- the hypothesis of `C03_entity_key_number_by_value` on a concrete spelling -/
example : confPlainNumber "345.50".toList = some (confNormNum 3455 (-1) false) := by decide

/-- … and of `C03_entity_key_text_by_itself` -/
example : confPlainNumber "PEPTIDEK".toList = none ∧ confPlainNumber "INFINITY".toList = none := by decide

#guard confEntityKey [.num 1 0 false, .text "500".toList] == confEntityKey [.text "1.0".toList, .num 5 2 false]
#guard confEntityKey [.num 1 0 false, .num 11 0 false] != confEntityKey [.num 11 0 false, .num 1 0 false]
#guard confReadCell .numeric "500".toList == .num 5 2 false
#guard confReadCell .object "500".toList == .text "500".toList

end Mk
