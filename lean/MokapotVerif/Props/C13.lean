import MokapotVerif.Lemmas.TabularSession
/-!
# C13 — Chunked table reading equals whole reading; writers lose and reorder nothing

Property theorems only.  Cells live in an arbitrary type `β`; tables have any
number of rows; chunk sizes are any `c ≥ 1`; column selections are any list of
existing columns in any order (or `None`); buffer sizes are any `size ≥ 1`
(`from_suffix` buffers for `size ≥ 2`); append sequences are arbitrary.

Two specification predicates (Model/Tabular.lean) carry the reader clauses:

* `ChunkOK r` — for every chunk size ≥ 1 and every selection, the chunk iterator
  delivers exactly the consecutive chunks (`splitDF`) of the frame `read`
  delivers: same header, same rows, same index labels;
* `ReadsTable r t an` — `read` delivers the selection `selectDF cols t` of the
  table `t`: requested columns, requested order, own index labels.

`C13_reader_chunked_eq_read` and `C13_read_is_selection` turn the predicates into
the statements of the property; the remaining reader theorems establish the
predicates for every reader class, compositionally.
-/
namespace Mk.Tabular
variable {α β σ : Type}

/-! ## chunking -/

/-- concatenating the chunks gives the list back: nothing lost, duplicated or reordered -/
theorem C13_chunks_flatten (c : Nat) (hc : 1 ≤ c) (xs : List α) : (chunks c xs).flatten = xs :=
  chunks_flatten c hc xs

/-- no chunk is empty or longer than `c`; every chunk but the last has exactly `c` elements -/
theorem C13_chunks_lengths (c : Nat) (hc : 1 ≤ c) (xs : List α) :
    (∀ ch ∈ chunks c xs, 0 < ch.length ∧ ch.length ≤ c) ∧ (∀ ch ∈ (chunks c xs).dropLast, ch.length = c) :=
  ⟨chunks_length_bounds c hc xs, chunks_dropLast_full c hc xs⟩

/-- the declarative specification `IsChunking` has exactly one solution, `chunks` -/
theorem C13_chunks_unique (c : Nat) (hc : 1 ≤ c) (xs : List α) (chs : List (List α)) :
    IsChunking c xs chs ↔ chs = chunks c xs :=
  ⟨isChunking_unique c hc chs xs, fun h => h ▸ chunks_isChunking c hc xs⟩

/-- row labels continue across chunks: chunking rows labelled `s, s+1, …` and
concatenating the labels of the chunks gives `s, s+1, …, s+n-1` -/
theorem C13_chunks_index_continuous (c : Nat) (hc : 1 ≤ c) (s : Nat) (xs : List α) :
    ((chunks c (indexFrom s xs)).flatten).map (fun p => p.1) = List.range' s xs.length := by
  rw [chunks_flatten c hc, indexFrom_map_fst]

/-! ## what the two reader predicates mean -/

/-- **Chunk-wise reading equals reading in one piece.**  For a reader satisfying
`ChunkOK`, any chunk size `c ≥ 1` and any selection on which `read` succeeds, the
chunk iterator succeeds, the concatenation of its chunks (rows *with* index
labels) is exactly what `read` returns, every chunk carries the header of
`read`'s frame, and no chunk has more than `c` rows. -/
theorem C13_reader_chunked_eq_read (r : Reader β) (h : ChunkOK r) (c : Nat) (hc : 1 ≤ c)
    (cols : Option (List Name)) (F : DF β) (hF : r.read cols = some F) :
    ∃ chs, r.chunked c cols = some chs
      ∧ chs.flatMap (fun ch => ch.rows) = F.rows
      ∧ (∀ ch ∈ chs, ch.names = F.names)
      ∧ (∀ ch ∈ chs, ch.rows.length ≤ c) := by
  obtain ⟨e, he⟩ := h c hc cols F hF
  exact ⟨_, he, splitDF_flatten e c hc F, splitDF_names e c F, splitDF_sizes e c hc F⟩

/-- **Requested columns in the requested order, values and index of the table.**
For a reader that reads a well-formed table `t`, selecting existing columns `cs`
(any order, any subset, also none at all) returns a frame whose header is `cs`,
whose rows are in one-to-one correspondence, in order, with the rows of `t`, each
under the same index label, with keys `cs` and, under every requested name, the
cell the table holds under that name. -/
theorem C13_read_is_selection (r : Reader β) (t : DF β) (an : Bool) (h : ReadsTable r t an) (hwf : t.WF)
    (cs : List Name) (hcs : ∀ c ∈ cs, c ∈ t.names) :
    ∃ F, r.read (some cs) = some F ∧ F.names = cs ∧ F.rows.length = t.rows.length
      ∧ ∀ p ∈ F.rows.zip t.rows, p.1.1 = p.2.1 ∧ rowKeys p.1.2 = cs
          ∧ ∀ c ∈ cs, p.1.2.lookup c = p.2.2.lookup c := by
  refine ⟨selectDF (some cs) t, h.read (some cs) ((hasAll_iff _ _).mpr hcs) (by simp), rfl, by simp [selectDF], ?_⟩
  intro p hp
  simp only [selectDF, List.zip_map_left] at hp
  obtain ⟨q, hq, rfl⟩ := List.mem_map.mp hp
  have hqq : q.1 = q.2 := mem_zip_self _ _ hq
  have hmem : q.2 ∈ t.rows := (List.of_mem_zip hq).2
  have hkeys : rowKeys q.2.2 = t.names := hwf.2 q.2 hmem
  simp only [Prod.map, id, pick, Option.elim_some]
  rw [hqq]
  refine ⟨rfl, reorder_keys cs _ (fun c hc => by rw [hkeys]; exact hcs c hc), fun c hc => lookup_reorder cs _ c hc⟩

/-- `columns=None` returns the table itself (for readers that accept `None`) -/
theorem C13_read_all (r : Reader β) (t : DF β) (h : ReadsTable r t true) : r.read none = some t := by
  rw [h.read none (by simp [colsOK]) (by simp), selectDF_none]

/-! ## every reader class satisfies the predicates -/

/-- delimited-text reader (any file with at least one column) -/
theorem C13_csv_reader (f : CsvFile β) (hne : f.header ≠ []) :
    ChunkOK (csvReader f) ∧ ReadsTable (csvReader f) f.table true :=
  ⟨csvReader_chunkOK f, csvReader_readsTable f hne⟩

/-- Parquet reader (any row-group layout) -/
theorem C13_parquet_reader (f : PqFile β) : ChunkOK (pqReader f) ∧ ReadsTable (pqReader f) f.table true :=
  ⟨pqReader_chunkOK f, pqReader_readsTable f⟩

/-- Parquet reader, for *whatever* batches `iter_batches` delivers, as long as they
lose and reorder nothing (no assumption on their sizes): the running row offset
makes the concatenated chunks equal to `read`'s rows, index labels included. -/
theorem C13_parquet_reader_any_batching (f : PqFile β) (c : Nat) (hc : 1 ≤ c)
    (batches : List (List (Row β))) (hb : batches.flatten = f.rows)
    (cols : Option (List Name)) (F : DF β) (hF : pqRead f cols = some F) :
    ∃ chs, pqChunkedWith batches f c cols = some chs
      ∧ chs.flatMap (fun ch => ch.rows) = F.rows ∧ ∀ ch ∈ chs, ch.names = F.names :=
  pqChunkedWith_flatten f c hc batches hb cols F hF

/-- Parquet reader: when the batches are full but the last (what pyarrow delivers),
the chunks are exactly the size-`c` chunks of `read`'s frame — the alignment the
column-joining reader relies on. -/
theorem C13_parquet_reader_full_batches (f : PqFile β) (c : Nat) (hc : 1 ≤ c)
    (batches : List (List (Row β))) (hb : IsChunking c f.rows batches)
    (cols : Option (List Name)) (F : DF β) (hF : pqRead f cols = some F) :
    pqChunkedWith batches f c cols = some (splitDF false c F) :=
  pqChunkedWith_chunkOK f c hc batches hb cols F hF

/-- in-memory frame reader (any index labels) -/
theorem C13_frame_reader (d : DF β) : ChunkOK (frameReader d) ∧ ReadsTable (frameReader d) d true :=
  ⟨frameReader_chunkOK d, frameReader_readsTable d⟩

/-- column-renaming reader: chunk-wise = whole for any map; reads the renamed
table when renaming is injective on the columns -/
theorem C13_mapped_reader (r : Reader β) (m : List (Name × Name)) (hc : ChunkOK r) :
    ChunkOK (mappedReader r m)
      ∧ ∀ t an, ReadsTable r t an → t.WF → (t.names.map (newName m)).Nodup →
          ReadsTable (mappedReader r m) (renameDF m t) an :=
  ⟨mapped_chunkOK r m hc, fun t an h hwf hinj => mapped_readsTable r m t an h hwf hinj⟩

/-- computed-column reader: chunk-wise = whole for *every* function of (index
label, selected cells); reads the table extended by the column when the function
depends on the index label only and the column name is new -/
theorem C13_computed_reader (r : Reader β) (col : Name) (fn : Nat → Row β → β) (hc : ChunkOK r) :
    ChunkOK (computedReader r col fn)
      ∧ ∀ t an, ReadsTable r t an → t.WF → col ∉ t.names → (∀ i x y, fn i x = fn i y) →
          ReadsTable (computedReader r col fn) (addCol col fn t) false :=
  ⟨computed_chunkOK r col fn hc, fun t an h hwf hcol hfn => computed_readsTable r col fn t an h hwf hcol hfn⟩

/-- column-joining reader (any number of sub-readers of any kind): chunk-wise =
whole.  The model's `pd.concat(axis=1)` only succeeds on frames with one common
index (the joined reader over one table), so `read` succeeding carries that
condition. -/
theorem C13_joined_reader_chunked (rs : List (Reader β)) (h : ∀ r ∈ rs, ChunkOK r) :
    ChunkOK (joinedReader rs) :=
  joined_chunkOK rs h

/-- column-joining reader reads the column-wise join `joinDF` of the tables its
sub-readers read (all with index labels `idx`), for every selection of columns
across the sub-readers in any order — including selections that leave some
sub-reader without any column; the joined table is well-formed when the column
names are pairwise distinct. -/
theorem C13_joined_reader_reads (rts : List (Reader β × DF β × Bool)) (hne : rts ≠ []) (idx : List Nat)
    (h : ∀ p ∈ rts, ReadsTable p.1 p.2.1 p.2.2 ∧ p.2.1.WF ∧ p.2.1.index = idx) :
    ReadsTable (joinedReader (rts.map (fun p => p.1))) (joinDF idx (rts.map (fun p => p.2.1)))
        (rts.all (fun p => p.2.2))
      ∧ ((((rts.map (fun p => p.2.1)).flatMap (fun t => t.names)).Nodup) →
          (joinDF idx (rts.map (fun p => p.2.1))).WF) := by
  refine ⟨joined_readsTable rts hne idx h, fun hn => joinDF_wf idx _ ?_ ?_ hn⟩
  · intro t ht
    obtain ⟨p, hp, rfl⟩ := List.mem_map.mp ht
    exact (h p hp).2.1
  · intro t ht
    obtain ⟨p, hp, rfl⟩ := List.mem_map.mp ht
    exact (h p hp).2.2

/-- files: the index labels of the concatenated chunks are `0, 1, …, n-1` -/
theorem C13_file_index_continues (f : CsvFile β) (hne : f.header ≠ []) (c : Nat) (hc : 1 ≤ c)
    (cols : Option (List Name)) (hok : colsOK f.header cols = true) :
    ∃ chs, (csvReader f).chunked c cols = some chs
      ∧ (chs.flatMap (fun ch => ch.rows)).map (fun ir => ir.1) = List.range f.lines.length := by
  have hr : (csvReader f).read cols = some (selectDF cols f.table) := by
    simp only [csvReader, csvRead_eq f hne, hok, if_true]
  obtain ⟨chs, h1, h2, _⟩ := C13_reader_chunked_eq_read _ (csvReader_chunkOK f) c hc cols _ hr
  refine ⟨chs, h1, ?_⟩
  rw [h2]
  simp only [selectDF, CsvFile.table, List.map_map]
  have := indexFrom_map_fst 0 f.rows
  simp only [CsvFile.rows, List.length_map] at this
  rw [List.range_eq_range', ← this]
  rfl

/-! ## buffered writer -/

/-- the batches handed to the wrapped writer are the reference chunking (by the
buffer size) of all appended rows, whatever the sizes of the individual appends -/
theorem C13_buffer_emits_chunks (size : Nat) (hs : 1 ≤ size) (appends : List (List α)) :
    emitted size appends = chunks size appends.flatten :=
  emitted_eq_chunks size hs appends

/-- nothing is lost, duplicated or reordered on the way through the buffer -/
theorem C13_buffer_nothing_lost (size : Nat) (hs : 1 ≤ size) (appends : List (List α)) :
    (emitted size appends).flatten = appends.flatten :=
  (emitted_isChunking size hs appends).1

/-- every emitted batch except possibly the last (the forced flush of `finalize`)
has exactly `size` rows; no batch is empty -/
theorem C13_buffer_batches_full (size : Nat) (hs : 1 ≤ size) (appends : List (List α)) :
    (∀ b ∈ (emitted size appends).dropLast, b.length = size)
      ∧ (∀ b ∈ emitted size appends, 0 < b.length ∧ b.length ≤ size) :=
  ⟨(emitted_isChunking size hs appends).2.2, (emitted_isChunking size hs appends).2.1⟩

/-- buffer invariant between appends: what was emitted so far followed by the
buffer content is what was appended so far (after the initial content), every
emitted batch is full, and fewer than `size` rows stay buffered -/
theorem C13_buffer_invariant (size : Nat) (hs : 1 ≤ size) (buf : List α) (appends : List (List α))
    (hbuf : buf.length < size) :
    (emittedAppends size buf appends).1.flatten ++ (emittedAppends size buf appends).2 = buf ++ appends.flatten
      ∧ (∀ b ∈ (emittedAppends size buf appends).1, b.length = size)
      ∧ (emittedAppends size buf appends).2.length < size := by
  have h := emittedAppends_spec size hs appends buf
  exact ⟨h.1, h.2.1, h.2.2 hbuf⟩

/-- **a `BufferedWriter` is transparent**: for any wrapped writer, buffer kind,
buffer size ≥ 1 and any sequence of well-formed appends, `initialize; append…;
finalize` leaves the wrapped writer's storage exactly as appending the
size-`size` chunks of all rows directly would — including the cases where the
wrapped writer raises. -/
theorem C13_buffered_writer_transparent (w : Writer σ β) (cols : List Name) (k : Kind) (size : Nat)
    (hs : 1 ≤ size) (s0 : σ) (args : List (Arg β)) (hargs : ∀ a ∈ args, ArgWF cols k a) :
    runBuffered w k size s0 args
      = runWriter w s0 ((chunks size (args.flatMap Arg.rows)).map (fun rows => ⟨cols, rows⟩)) := by
  rw [runBuffered_eq w cols k size hs s0 args hargs, emitted_eq_chunks size hs, List.flatMap_def]

/-! ## writing and reading back -/

/-- **Delimited-text writer round trip.**  For the writer that
`TabularDataWriter.from_suffix` returns for a text suffix — unbuffered for
`buffer_size ≤ 1`, buffered with any buffer kind otherwise — over *any* previous
file content, any columns (at least one) and any sequence of well-formed appends:
the run succeeds, the associated reader reads back exactly the appended rows, in
order, with unchanged cells under the writer's columns, labelled `0, 1, …`, and
that reader satisfies `ChunkOK` (so chunk-wise read-back gives the same). -/
theorem C13_writer_roundtrip_text (cols : List Name) (hne : cols ≠ []) (k : Kind) (size : Nat)
    (old : Option (CsvFile β)) (args : List (Arg β))
    (hargs : ∀ a ∈ args, ArgWF cols (if 1 < size then k else Kind.dataframe) a) :
    ∃ disk rd, runFromSuffix (csvWriter cols) k size old args = some disk
      ∧ csvDiskReader disk = some rd
      ∧ rd.read none = some ⟨cols, indexFrom 0 (args.flatMap Arg.rows)⟩
      ∧ ChunkOK rd := by
  obtain ⟨frames, h1, h2, h3⟩ := fromSuffix_frames (csvWriter cols) cols k size old args hargs
  rw [h1, csv_run cols old frames (fun f hf => (h2 f hf).1)]
  refine ⟨_, _, rfl, rfl, ?_, csvReader_chunkOK _⟩
  have hl : frames.flatMap (fun f => f.rows.map rowVals) = (frames.flatMap (fun f => f.rows)).map rowVals := by
    simp [List.flatMap_def, List.map_flatten, List.map_map, Function.comp_def]
  rw [hl, h3]
  apply csv_readback cols hne
  intro r hr
  rw [← h3] at hr
  obtain ⟨f, hf, hrf⟩ := List.mem_flatMap.mp hr
  exact (h2 f hf).2 r hrf

/-- **Parquet writer round trip** (distinct column names): same statement; the
file cannot be read before `finalize` closed it (`pqDiskReader` needs `isOpen =
false`), and every append became one row group. -/
theorem C13_writer_roundtrip_parquet (cols : List Name) (hn : cols.Nodup) (k : Kind) (size : Nat)
    (old : Option (PqDisk β)) (args : List (Arg β))
    (hargs : ∀ a ∈ args, ArgWF cols (if 1 < size then k else Kind.dataframe) a) :
    ∃ disk rd, runFromSuffix (pqWriter cols) k size old args = some disk
      ∧ pqDiskReader disk = some rd
      ∧ rd.read none = some ⟨cols, indexFrom 0 (args.flatMap Arg.rows)⟩
      ∧ ChunkOK rd := by
  obtain ⟨frames, h1, h2, h3⟩ := fromSuffix_frames (pqWriter cols) cols k size old args hargs
  rw [h1, pq_run cols hn old frames (fun f hf => (h2 f hf).2)]
  refine ⟨_, _, rfl, rfl, ?_, pqReader_chunkOK _⟩
  have := pq_readback cols (frames.map (fun f => f.rows)) (by
    intro g hg r hr
    obtain ⟨f, hf, rfl⟩ := List.mem_map.mp hg
    exact (h2 f hf).2 r hr)
  simp only [List.map_map, Function.comp_def] at this
  rw [this, ← h3, List.flatMap_def]

/-- a Parquet file whose writer was not finalised cannot be read back -/
theorem C13_parquet_unfinalised_unreadable (cols : List Name) (groups : List (List (List β))) :
    pqDiskReader (some ⟨⟨cols, groups⟩, true⟩ : Option (PqDisk β)) = none := rfl

/-! ## extension: the writer object in use — context managers, `auto_finalize`,
one-shot `write`, the separator option, frame readers from a series / an array -/

/-- **Using the writer object call by call is the run the round-trip theorems are
about.**  For the object `TabularDataWriter.from_suffix` returns (any file writer,
buffer kind and size), `initialize(); append_data(a₁); …; finalize()` issued one
call at a time — equivalently `with writer: …`, since `__enter__`/`__exit__` are
`initialize`/`finalize` — leaves the file writer's storage exactly as
`runFromSuffix` says, failures included. -/
theorem C13_session_eq_run (w : Writer σ β) (k : Kind) (size : Nat) (s0 : σ) (args : List (Arg β)) :
    (runSess (fromSuffixSess w k size) (none, s0) args).map (fun p => p.2) = runFromSuffix w k size s0 args :=
  runSess_fromSuffix w k size s0 args

/-- **`with auto_finalize(writers)`: every writer ends as if it had been used
alone.**  For any writers (of any kinds, in any states) and any program of appends
`writers[i].append_data(a)` interleaved in any way: if the block completes, the
final state of writer `j` is the one `with writers[j]:` alone with *its own*
appends, in their order, would have produced — no append reaches another writer,
none is lost, every writer is initialised before and finalised after its appends;
and the block does complete whenever each writer alone would accept its appends. -/
theorem C13_auto_finalize_independent (ws : List (Sess σ β × σ)) (prog : List (Nat × Arg β)) :
    (∀ out, runAuto ws prog = some out →
        out.length = ws.length
          ∧ ∀ j p, ws[j]? = some p → ∃ t, runSess p.1 p.2 (argsFor j prog) = some t ∧ out[j]? = some t)
      ∧ ((∀ q ∈ prog, q.1 < ws.length) →
          (∀ j p, ws[j]? = some p → (runSess p.1 p.2 (argsFor j prog)).isSome = true) →
          (runAuto ws prog).isSome = true) :=
  ⟨fun out h => runAuto_solo ws prog out h, fun hidx hsolo => runAuto_isSome ws prog hidx hsolo⟩

/-- **Delimited-text writer round trip for every separator** (`sep=` of
`from_suffix`, handed on to the associated reader).  For any separator, any
previous file content (written with any separator), columns (at least one),
buffer kind and size and any sequence of well-formed appends issued call by call:
the run succeeds, `get_associated_reader()` — which is built with the writer's
separator — exists, reads back exactly the appended rows in order under the
writer's columns, labelled `0, 1, …`, and satisfies `ChunkOK`. -/
theorem C13_writer_roundtrip_text_sep (cols : List Name) (hne : cols ≠ []) (sep : String) (k : Kind) (size : Nat)
    (old : Option (SepFile β)) (args : List (Arg β))
    (hargs : ∀ a ∈ args, ArgWF cols (if 1 < size then k else Kind.dataframe) a) :
    ∃ st rd, runSess (fromSuffixSess (csvWriterSep cols sep) k size) (none, old) args = some st
      ∧ csvAssocReader sep st.2 = some rd
      ∧ rd.read none = some ⟨cols, indexFrom 0 (args.flatMap Arg.rows)⟩
      ∧ ChunkOK rd := by
  obtain ⟨frames, h1, h2, h3⟩ := fromSuffix_frames (csvWriterSep cols sep) cols k size old args hargs
  have hrun := runSess_fromSuffix (csvWriterSep cols sep) k size old args
  rw [h1, csvSep_run cols sep old frames (fun f hf => (h2 f hf).1)] at hrun
  obtain ⟨st, hst, hst2⟩ := Option.map_eq_some_iff.mp hrun
  refine ⟨st, csvReader ⟨cols, frames.flatMap (fun f => f.rows.map rowVals)⟩, hst, ?_, ?_, csvReader_chunkOK _⟩
  · rw [hst2]; simp [csvAssocReader, csvReaderSep]
  · have hl : frames.flatMap (fun f => f.rows.map rowVals) = (frames.flatMap (fun f => f.rows)).map rowVals := by
      simp [List.flatMap_def, List.map_flatten, List.map_map, Function.comp_def]
    rw [hl, h3]
    apply csv_readback cols hne
    intro r hr
    rw [← h3] at hr
    obtain ⟨f, hf, hrf⟩ := List.mem_flatMap.mp hr
    exact (h2 f hf).2 r hrf

/-- a reader built with another separator than the writer's does not read the
file (in the model: not available) — the associated reader must carry `sep` -/
theorem C13_text_other_separator_unreadable (cols : List Name) (sep sep' : String) (hs : sep' ≠ sep)
    (lines : List (List β)) :
    (csvAssocReader sep' (some ⟨sep, ⟨cols, lines⟩⟩ : Option (SepFile β))).isNone = true := by
  simp [csvAssocReader, csvReaderSep, hs]

/-- **`auto_finalize` over text writers: every file reads back its own rows.**
Any number of text writers from `from_suffix` — each with its own columns,
separator, buffer kind and size, over any previous file content — used inside one
`with auto_finalize(writers)` block with their appends interleaved in any way
(every append well-formed for the writer it goes to): the block completes, and
the associated reader of writer `j` reads back exactly the rows appended to
writer `j`, in order, unchanged, and satisfies `ChunkOK`. -/
theorem C13_auto_finalize_roundtrip_text
    (specs : List (List Name × String × Kind × Nat × Option (SepFile β))) (prog : List (Nat × Arg β))
    (hne : ∀ s ∈ specs, s.1 ≠ [])
    (hprog : ∀ q ∈ prog, ∃ s, specs[q.1]? = some s
      ∧ ArgWF s.1 (if 1 < s.2.2.2.1 then s.2.2.1 else Kind.dataframe) q.2) :
    ∃ out, runAuto (specs.map (fun s =>
              (fromSuffixSess (csvWriterSep s.1 s.2.1) s.2.2.1 s.2.2.2.1, ((none : Option (WFrame β)), s.2.2.2.2)))) prog
            = some out
      ∧ out.length = specs.length
      ∧ ∀ j s, specs[j]? = some s → ∃ st rd, out[j]? = some st ∧ csvAssocReader s.2.1 st.2 = some rd
          ∧ rd.read none = some ⟨s.1, indexFrom 0 ((argsFor j prog).flatMap Arg.rows)⟩ ∧ ChunkOK rd := by
  have hsolo : ∀ j s, specs[j]? = some s →
      ∃ st rd, runSess (fromSuffixSess (csvWriterSep s.1 s.2.1) s.2.2.1 s.2.2.2.1) (none, s.2.2.2.2) (argsFor j prog)
          = some st ∧ csvAssocReader s.2.1 st.2 = some rd
        ∧ rd.read none = some ⟨s.1, indexFrom 0 ((argsFor j prog).flatMap Arg.rows)⟩ ∧ ChunkOK rd := by
    intro j s hs
    apply C13_writer_roundtrip_text_sep s.1 (hne s (List.mem_of_getElem? hs)) s.2.1 s.2.2.1 s.2.2.2.1 s.2.2.2.2
    intro a ha
    simp only [argsFor, List.mem_map, List.mem_filter] at ha
    obtain ⟨q, ⟨hq, hqj⟩, rfl⟩ := ha
    obtain ⟨s', hs', hwf⟩ := hprog q hq
    have : q.1 = j := by simpa using hqj
    rw [this, hs] at hs'
    cases hs'
    exact hwf
  have hsome : (runAuto (specs.map (fun s =>
      (fromSuffixSess (csvWriterSep s.1 s.2.1) s.2.2.1 s.2.2.2.1, ((none : Option (WFrame β)), s.2.2.2.2)))) prog).isSome
      = true := by
    apply (C13_auto_finalize_independent _ prog).2
    · intro q hq
      obtain ⟨s, hs, _⟩ := hprog q hq
      simpa using (List.getElem?_eq_some_iff.mp hs).1
    · intro j p hp
      simp only [List.getElem?_map, Option.map_eq_some_iff] at hp
      obtain ⟨s, hs, rfl⟩ := hp
      obtain ⟨st, _, h, _⟩ := hsolo j s hs
      simp [h]
  obtain ⟨out, hout⟩ := Option.isSome_iff_exists.mp hsome
  obtain ⟨hlen, hget⟩ := (C13_auto_finalize_independent _ prog).1 out hout
  refine ⟨out, hout, by simpa using hlen, ?_⟩
  intro j s hs
  obtain ⟨t, ht, hoj⟩ := hget j
    (fromSuffixSess (csvWriterSep s.1 s.2.1) s.2.2.1 s.2.2.2.1, ((none : Option (WFrame β)), s.2.2.2.2))
    (by simp [List.getElem?_map, hs])
  obtain ⟨st, rd, h1, h2, h3, h4⟩ := hsolo j s hs
  rw [h1] at ht
  have hst : st = t := Option.some.inj ht
  rw [hst] at h2
  exact ⟨t, rd, hoj, h2, h3, h4⟩

/-- **One-shot `write(data)` on a text writer** (`from_suffix(...).write(df)`,
buffered or not — the buffer is by-passed): it is `initialize(); append_data(df);
finalize()` on the bare file writer, failures included; and for a frame carrying
the writer's columns, over any previous file content, the file then reads back
exactly the frame's rows, in order, unchanged, labelled `0, 1, …`. -/
theorem C13_write_once_text (cols : List Name) (k : Kind) (size : Nat) (old : Option (CsvFile β)) (f : WFrame β) :
    writeFromSuffix (csvWrite1 cols) size old f = runFromSuffix (csvWriter cols) k 0 old [Arg.frame f]
      ∧ (cols ≠ [] → f.names = cols → (∀ r ∈ f.rows, rowKeys r = cols) →
          ∃ disk rd, writeFromSuffix (csvWrite1 cols) size old f = some disk
            ∧ csvDiskReader disk = some rd
            ∧ rd.read none = some ⟨cols, indexFrom 0 f.rows⟩ ∧ ChunkOK rd) := by
  rw [writeFromSuffix_eq]
  constructor
  · by_cases hn : f.names = cols
    · simp [csvWrite1, baseWrite, hn, runFromSuffix, optAll, argFrame]
    · simp [csvWrite1, baseWrite, hn, runFromSuffix, optAll, argFrame, runWriter, csvWriter, csvInit, foldOpt,
        csvAppend]
  · intro hne hn hk
    rw [csvWrite1_eq cols old f hn]
    exact ⟨_, _, rfl, rfl, csv_readback cols hne f.rows hk, csvReader_chunkOK _⟩

/-- **One-shot `write(data)` on a Parquet writer** (`DataFrame.to_parquet`, the
`ParquetWriter` and its schema are not involved; buffered or not): for a frame
carrying the writer's columns the result is a complete file — readable without
any `finalize` — that reads back exactly the frame's rows, in order, unchanged,
labelled `0, 1, …`, whatever the file held before. -/
theorem C13_write_once_parquet (cols : List Name) (size : Nat) (old : Option (PqDisk β)) (f : WFrame β)
    (hn : f.names = cols) (hk : ∀ r ∈ f.rows, rowKeys r = cols) :
    ∃ disk rd, writeFromSuffix (pqWrite1 cols) size old f = some disk
      ∧ pqDiskReader disk = some rd
      ∧ rd.read none = some ⟨cols, indexFrom 0 f.rows⟩ ∧ ChunkOK rd := by
  rw [writeFromSuffix_eq]
  refine ⟨_, _, rfl, rfl, ?_, pqReader_chunkOK _⟩
  have := pq_readback cols [f.rows] (by
    intro g hg r hr
    simp only [List.mem_singleton] at hg
    subst hg
    exact hk r hr)
  simpa [hn] using this

/-- `DataFrameReader.from_series` / `from_array`: one-column frame readers — chunk-wise
= whole, and they read the one-column table of the values (a series under its own
index labels, an array under `0, 1, …`) -/
theorem C13_series_array_readers (sname : Name) (name : Option Name) (vals : List (Nat × β)) (arr : List β)
    (aname : Name) :
    (ChunkOK (seriesReader sname name vals)
        ∧ ReadsTable (seriesReader sname name vals)
            ⟨[name.getD sname], vals.map (fun iv => (iv.1, [(name.getD sname, iv.2)]))⟩ true)
      ∧ (ChunkOK (arrayReader aname arr)
        ∧ ReadsTable (arrayReader aname arr) ⟨[aname], indexFrom 0 (arr.map (fun v => [(aname, v)]))⟩ true) :=
  ⟨⟨frameReader_chunkOK _, frameReader_readsTable _⟩, ⟨frameReader_chunkOK _, frameReader_readsTable _⟩⟩

/-! ## Non-vacuity: the hypotheses are met by concrete, non-trivial inputs -/

/-- a 5-row text file with three columns -/
def exFile : CsvFile Nat := ⟨["a", "b", "c"], [[1, 2, 3], [4, 5, 6], [7, 8, 9], [10, 11, 12], [13, 14, 15]]⟩
/-- the same data as a Parquet file with row groups of 2, 2 and 1 rows -/
def exPq : PqFile Nat := ⟨["a", "b", "c"], [[[1, 2, 3], [4, 5, 6]], [[7, 8, 9], [10, 11, 12]], [[13, 14, 15]]]⟩
/-- an in-memory frame with a non-default index -/
def exFrame : DF Nat := ⟨["d"], [(0, [("d", 70)]), (1, [("d", 71)]), (2, [("d", 72)]), (3, [("d", 73)]), (4, [("d", 74)])]⟩
def exFrame2 : DF Nat := ⟨["d"], [(9, [("d", 70)]), (4, [("d", 71)]), (7, [("d", 72)])]⟩

example : exFile.header ≠ [] := by decide
example : exFile.table.WF := by decide
example : exFrame.WF ∧ exFrame.index = exFile.table.index := by decide
example : IsChunking 2 [1, 2, 3, 4, 5] [[1, 2], [3, 4], [5]] := by
  refine ⟨by decide, ?_, ?_⟩ <;> simp
example : (exFile.table.names.map (newName [("a", "A"), ("zz", "q")])).Nodup := by decide
example : ArgWF ["a", "b"] Kind.dicts (Arg.dictList [[("a", 1), ("b", 2)], [("a", 3), ("b", 4)]] : Arg Nat) := by
  simp [ArgWF, argOK, Arg.rows, rowKeys]
example : ArgWF ["a", "b"] Kind.records (Arg.record [("a", 1), ("b", 2)] : Arg Nat) := by
  simp [ArgWF, argOK, Arg.rows, Arg.names, rowKeys]
example : ArgWF ["a", "b"] Kind.dataframe (Arg.frame ⟨["a", "b"], [[("a", 1), ("b", 2)]]⟩ : Arg Nat) := by
  simp [ArgWF, argOK, Arg.rows, Arg.names, rowKeys]
/-- the hypotheses of `C13_joined_reader_reads` for a text reader joined with a frame reader -/
example : ∀ p ∈ [(csvReader exFile, exFile.table, true), (frameReader exFrame, exFrame, true)],
    ReadsTable p.1 p.2.1 p.2.2 ∧ p.2.1.WF ∧ p.2.1.index = [0, 1, 2, 3, 4] := by
  intro p hp
  simp only [List.mem_cons, List.mem_nil_iff, or_false] at hp
  rcases hp with rfl | rfl
  · exact ⟨csvReader_readsTable exFile (by decide), by decide, by decide⟩
  · exact ⟨frameReader_readsTable exFrame, by decide, by decide⟩

/-! ## Evaluation tests of the model (`#guard`) -/

-- text reader: requested order, continuing index, last chunk short
#guard (csvReader exFile).chunked 2 (some ["c", "a"]) ==
  some [⟨["c", "a"], [(0, [("c", 3), ("a", 1)]), (1, [("c", 6), ("a", 4)])]⟩,
        ⟨["c", "a"], [(2, [("c", 9), ("a", 7)]), (3, [("c", 12), ("a", 10)])]⟩,
        ⟨["c", "a"], [(4, [("c", 15), ("a", 13)])]⟩]
-- a text file without data rows is one empty chunk, a Parquet file none
#guard (csvReader (⟨["a"], []⟩ : CsvFile Nat)).chunked 3 none == some [⟨["a"], []⟩]
#guard (pqReader (⟨["a"], []⟩ : PqFile Nat)).chunked 3 none == some []
-- Parquet: chunks ignore the row groups; empty selection keeps rows and labels
#guard ((pqReader exPq).chunked 3 (some [])).map (fun chs => chs.map (fun d => d.index)) == some [[0, 1, 2], [3, 4]]
#guard (pqReader exPq).read (some ["b"]) == (csvReader exFile).read (some ["b"])
-- frame reader keeps its own labels
#guard ((frameReader exFrame2).chunked 2 none).map (fun chs => chs.map (fun d => d.index)) == some [[9, 4], [7]]
-- renamed + joined + computed column (function of the index label and a selected cell)
#guard ((computedReader (joinedReader [mappedReader (csvReader exFile) [("a", "A")], frameReader exFrame]) "k"
          (fun i r => 100 * i + (r.lookup "d").getD 0)).chunked 4 (some ["k", "d", "A"])).map
        (fun chs => chs.map (fun d => d.rows)) ==
  some [[(0, [("k", 70), ("d", 70), ("A", 1)]), (1, [("k", 171), ("d", 71), ("A", 4)]),
         (2, [("k", 272), ("d", 72), ("A", 7)]), (3, [("k", 373), ("d", 73), ("A", 10)])],
        [(4, [("k", 474), ("d", 74), ("A", 13)])]]
-- a selection that leaves the text sub-reader without a column still delivers every row
#guard ((joinedReader [csvReader exFile, frameReader exFrame]).chunked 2 (some ["d"])).map
        (fun chs => chs.map (fun d => d.index)) == some [[0, 1], [2, 3], [4]]
-- unknown column / chunk size 0 / columns=None on a computed reader: the code raises
#guard ((csvReader exFile).read (some ["zz"])).isNone && ((frameReader exFrame).chunked 0 none).isNone
#guard ((computedReader (csvReader exFile) "k" (fun i _ => i)).read none).isNone
-- buffered writer: batches of exactly `size`, forced last batch, stale file content gone
#guard emitted 3 [[1], [2, 3, 4, 5, 6, 7, 8], [], [9, 10]] == [[1, 2, 3], [4, 5, 6], [7, 8, 9], [10]]
#guard (runFromSuffix (csvWriter ["a", "b"]) Kind.dicts 2 (some ⟨["old"], [[99]]⟩)
          [Arg.dict [("a", 1), ("b", 2)], Arg.dictList [[("a", 3), ("b", 4)], [("a", 5), ("b", 6)]]]) ==
  some (some ⟨["a", "b"], [[1, 2], [3, 4], [5, 6]]⟩)
#guard ((runFromSuffix (pqWriter ["a", "b"]) Kind.records 2 none
          [Arg.record [("a", 1), ("b", 2)], Arg.record [("a", 3), ("b", 4)], Arg.record [("a", 5), ("b", 6)]]).map
        (fun d => d.map (fun pd => (pd.file.groups, pd.isOpen)))) ==
  some (some ([[[1, 2], [3, 4]], [[5, 6]]], false))
-- the text writer refuses a frame whose columns are in another order; an unbuffered writer refuses dicts
#guard (runFromSuffix (csvWriter ["a", "b"]) Kind.dataframe 0 none [Arg.frame ⟨["b", "a"], [[("b", 2), ("a", 1)]]⟩]).isNone
#guard (runFromSuffix (csvWriter ["a", "b"]) Kind.dicts 0 none [Arg.dict [("a", 1), ("b", 2)]]).isNone

/-! ### extension: non-vacuity and evaluation tests -/

/-- the hypotheses of the second half of `C13_computed_reader`: a new column name and a function of the index label -/
example : "k" ∉ exFile.table.names ∧ ∀ (i : Nat) (x y : Row Nat), (fun (j : Nat) (_ : Row Nat) => 10 * j + 1) i x
    = (fun (j : Nat) (_ : Row Nat) => 10 * j + 1) i y := ⟨by decide, fun _ _ _ => rfl⟩

/-- two text writers (different separators, one buffered with dicts, one
unbuffered over a stale file) and an interleaved program meeting the hypotheses
of `C13_auto_finalize_roundtrip_text` -/
def exSpecs : List (List Name × String × Kind × Nat × Option (SepFile Nat)) :=
  [(["a", "b"], ",", Kind.dicts, 2, none), (["c"], "\t", Kind.dataframe, 0, some ⟨";", ⟨["old"], [[9]]⟩⟩)]
def exProg : List (Nat × Arg Nat) :=
  [(0, Arg.dict [("a", 1), ("b", 2)]), (1, Arg.frame ⟨["c"], [[("c", 7)], [("c", 8)]]⟩),
   (0, Arg.dictList [[("a", 3), ("b", 4)], [("a", 5), ("b", 6)]]), (1, Arg.frame ⟨["c"], []⟩)]

example : ∀ s ∈ exSpecs, s.1 ≠ [] := by decide
example : ∀ q ∈ exProg, ∃ s, exSpecs[q.1]? = some s
    ∧ ArgWF s.1 (if 1 < s.2.2.2.1 then s.2.2.1 else Kind.dataframe) q.2 := by
  intro q hq
  simp only [exProg, List.mem_cons, List.mem_nil_iff, or_false] at hq
  rcases hq with rfl | rfl | rfl | rfl <;>
    simp [exSpecs, ArgWF, argOK, Arg.rows, Arg.names, rowKeys]

-- auto_finalize: each file holds its own rows; the stale file (other separator) is gone
#guard (runAuto (exSpecs.map (fun s =>
          (fromSuffixSess (csvWriterSep s.1 s.2.1) s.2.2.1 s.2.2.2.1, ((none : Option (WFrame Nat)), s.2.2.2.2)))) exProg).map
        (fun out => out.map (fun st => st.2)) ==
  some [some ⟨",", ⟨["a", "b"], [[1, 2], [3, 4], [5, 6]]⟩⟩, some ⟨"\t", ⟨["c"], [[7], [8]]⟩⟩]
-- an append to a writer that is not in the list raises
#guard (runAuto [(fromSuffixSess (csvWriterSep ["c"] "\t") Kind.dataframe 0, ((none : Option (WFrame Nat)), none))]
          [(1, Arg.frame ⟨["c"], []⟩)]).isNone
-- one-shot write: text (stale content gone, column order checked), Parquet (one row group, closed, frame's order)
#guard writeFromSuffix (csvWrite1 ["a", "b"]) 5 (some ⟨["old"], [[99]]⟩) ⟨["a", "b"], [[("a", 1), ("b", 2)]]⟩ ==
  some (some ⟨["a", "b"], [[1, 2]]⟩)
#guard (writeFromSuffix (csvWrite1 ["a", "b"]) 0 none (⟨["b", "a"], [[("b", 2), ("a", 1)]]⟩ : WFrame Nat)).isNone
#guard writeFromSuffix (pqWrite1 ["a", "b"]) 3 none (⟨["a", "b"], [[("a", 1), ("b", 2)], [("a", 3), ("b", 4)]]⟩ : WFrame Nat) ==
  some (some ⟨⟨["a", "b"], [[[1, 2], [3, 4]]]⟩, false⟩)
-- series / array readers
#guard ((seriesReader "s" none [(5, 70), (6, 71), (7, 72)]).chunked 2 none).map (fun chs => chs.map (fun d => d.rows)) ==
  some [[(5, [("s", 70)]), (6, [("s", 71)])], [(7, [("s", 72)])]]
#guard ((arrayReader "x" [70, 71, 72]).read (some ["x"])).map (fun d => d.index) == some [0, 1, 2]
#guard (seriesReader "s" (some "n") [(5, 70)]).names == ["n"]

end Mk.Tabular
