import MokapotVerif.Lemmas.PepsKernel
import MokapotVerif.Props.C06File
/-!
# C06 (second extension) — the kernel-side composition code

Property theorems only (definitions: `Model/PepsKernel.lean`; gap analysis: `GAPS-C06.md`, second pass).

* `estimate_pi0_by_slope`: whatever `np.polyfit` returns — a negative slope, zero — the value handed
  on is at least `1e-10`; hence `qvalues_from_counts` needs NO hypothesis on any numeric kernel
  for its shape (`C06_from_counts_slope_shape`; the first extension assumed `0 ≤ pi0`).
* `kde_nnls` (the repaired code, commit 835a908): the vector handed to the NNLS solver always exists —
  on a positive target density it is the ratio `pi0·f_D/f_T` capped at 1, where the target density
  vanishes it is 1 — so "each PSM receives one PEP" holds for `kde_nnls` with no hypothesis on the
  densities (`C06_kde_nnls_full_defined_iff`).  Before the repair the vector existed only on a
  non-vanishing target density and the code raised on well separated targets and decoys: refuted
  variants `Mutants.kdePepEst1Old`, `Mutants.histNnlsOfOld` with the witnesses found in the second pass.
-/
namespace Mk
open Peps

/-! ## estimate_pi0_by_slope -/

/-- `np.argmax(decoy_pdf >= v)`: the first index whose entry reaches `v`, every earlier entry is
below `v`; no index when every entry is below `v` (then `np.argmax` answers 0) -/
theorem C06_pi0_last_index_spec (v : Rat) (dpdf : List Rat) :
    (∀ i, firstReach v 0 dpdf = some i →
      ∃ h : i < dpdf.length, v ≤ dpdf[i] ∧ ∀ (j : Nat) (hj : j < dpdf.length), j < i → dpdf[j] < v) ∧
    (firstReach v 0 dpdf = none ↔ ∀ x ∈ dpdf, x < v) ∧
    (firstReach v 0 dpdf = none → pi0LastIndex v dpdf = 0) := by
  refine ⟨?_, firstReach_none v dpdf 0, ?_⟩
  · intro i h
    obtain ⟨j, hij, hj, hv, hb⟩ := firstReach_some v dpdf 0 i h
    have : i = j := by omega
    subst this
    exact ⟨hj, hv, hb⟩
  · intro h
    simp [pi0LastIndex, h]

/-- `np.ptp(x) == 0` iff all entries are equal (in particular for an empty or one-element slice) -/
theorem C06_ptp_zero_spec (xs : List Rat) : ptpIsZero xs = true ↔ ∀ a ∈ xs, ∀ b ∈ xs, a = b :=
  ptpIsZero_iff xs

/-- the branches of `estimate_pi0_by_slope`: without a left flank (fewer than two grid points before
the decoy density reaches `v`, or a constant flank) the estimate is 1 and the slope is not read; with
a flank it is the slope, clamped from below at `1e-10` — a negative slope is never handed on -/
theorem C06_pi0_by_slope_branches (v : Rat) (dpdf : List Rat) (slope : Rat) :
    (pi0NoFlank v dpdf = true → pi0BySlopeOf v dpdf slope = 1) ∧
    (pi0NoFlank v dpdf = false → pi0Floor ≤ slope → pi0BySlopeOf v dpdf slope = slope) ∧
    (pi0NoFlank v dpdf = false → slope ≤ pi0Floor → pi0BySlopeOf v dpdf slope = pi0Floor) ∧
    (pi0NoFlank v dpdf = true ↔
      (pi0LastIndex v dpdf < 2 ∨ ∀ a ∈ dpdf.take (pi0LastIndex v dpdf), ∀ b ∈ dpdf.take (pi0LastIndex v dpdf), a = b)) := by
  refine ⟨?_, ?_, ?_, ?_⟩
  · intro h; simp [pi0BySlopeOf, h]
  · intro h hs; simp [pi0BySlopeOf, h, max_eq_left hs]
  · intro h hs; simp [pi0BySlopeOf, h, max_eq_right hs]
  · unfold pi0NoFlank
    rw [Bool.or_eq_true, decide_eq_true_eq, ptpIsZero_iff]

/-- **the estimate is positive for every input and every slope** (`≥ 1e-10`) -/
theorem C06_pi0_by_slope_positive (v : Rat) (dpdf : List Rat) (slope : Rat) :
    pi0Floor ≤ pi0BySlopeOf v dpdf slope ∧ 0 < pi0BySlopeOf v dpdf slope :=
  ⟨pi0BySlopeOf_ge v dpdf slope, lt_of_lt_of_le pi0Floor_pos (pi0BySlopeOf_ge v dpdf slope)⟩

/-- **from_counts, from the histogram densities on, shape with no kernel hypothesis at all**: for every
decoy density, every product `v`, every slope of `np.polyfit` (negative, zero, huge) and every `ind`:
one q-value `≥ 0` per PSM, never decreasing as the score worsens, equal for equal scores. -/
theorem C06_from_counts_slope_shape (v : Rat) (ddens : List Rat) (slope : Rat) (xs : List Psm)
    (ind : List Nat) (r : List Rat) (hr : fromCountsSlopeOf v ddens slope xs ind = some r) :
    Shape 0 none (xs.map (·.1)) r :=
  C06_from_counts_pi0_shape _ (le_of_lt (C06_pi0_by_slope_positive v ddens slope).2) xs ind r hr

/-- … and alignment when no target ties with a decoy, for every arrangement of the data set -/
theorem C06_from_counts_slope_perm_equivariant_no_td_ties (v : Rat) (ddens : List Rat) (slope : Rat)
    (xs ys : List Psm) (hperm : ys.Perm xs) (ind : List Nat) (hind : ValidArgsort ys ind)
    (hdec : numDecoys xs ≠ 0) (sx : List Psm) (hsx : sx.Perm xs)
    (h1 : sx.Pairwise (fun a b => b.1 ≤ a.1))
    (hnt : ∀ a ∈ xs, ∀ b ∈ xs, a.1 = b.1 → a.2 = b.2) (htop : (sx.headD (0, false)).2 = true) :
    fromCountsSlopeOf v ddens slope ys ind
      = some (ys.map (fun y => interp (countKnots (countsFactor (pi0BySlopeOf v ddens slope) xs) sx) y.1)) :=
  C06_from_counts_pi0_perm_equivariant_no_td_ties _ xs ys hperm ind hind hdec sx hsx h1 hnt htop

/-! ## the NNLS input of kde_nnls -/

/-- on a positive target density the estimate handed to the NNLS fit is `pi0 · f_D / f_T`, capped
at 1 (a probability) -/
theorem C06_kde_pep_est_value (pi0 t d : Rat) (ht : 0 < t) (hd : 0 ≤ d) (hpi : 0 ≤ pi0) :
    kdePepEst1 pi0 t d = some (min 1 (d * pi0 / t)) :=
  kdePepEst1_pos pi0 t d ht (mul_nonneg hd hpi)

/-- when the vector exists it has one entry per grid point, each in `[0,1]` -/
theorem C06_kde_pep_est_range (pi0 : Rat) (ts ds r : List Rat) (h : kdePepEstOf pi0 ts ds = some r) :
    r.length = min ts.length ds.length ∧ ∀ y ∈ r, 0 ≤ y ∧ y ≤ 1 :=
  kdePepEstOf_some pi0 ts ds r h

/-- **the vector always exists** (restated for the repaired code, commit 835a908: no hypothesis on the
densities, on `pi0` or on the lengths): one entry per grid point, each in `[0,1]`, and the entry is 1
wherever the target density is not positive — the `0/0` of the old code (`Mutants.kdePepEst1Old`,
which answered `none` exactly when the target density had a zero) is gone. -/
theorem C06_kde_pep_est_defined_iff (pi0 : Rat) (ts ds : List Rat) :
    (kdePepEstOf pi0 ts ds ≠ none) ∧
    (∃ r, kdePepEstOf pi0 ts ds = some r ∧ r.length = min ts.length ds.length ∧ ∀ y ∈ r, 0 ≤ y ∧ y ≤ 1) ∧
    (∀ t d, t ≤ 0 → kdePepEst1 pi0 t d = some 1) := by
  obtain ⟨r, hr⟩ := kdePepEstOf_total pi0 ts ds
  refine ⟨by rw [hr]; simp, ⟨r, hr, kdePepEstOf_some pi0 ts ds r hr⟩, fun t d ht => kdePepEst1_nonpos pi0 t d ht⟩

/-- **kde_nnls from the densities on always answers** (restated for the repaired code): NO hypothesis on
the densities, on `np.polyfit` or on the NNLS solver — in particular on a grid where the target density
vanishes.  (For a non-negative NNLS solution the answer has the shape of C06:
`C06_kde_nnls_full_shape`.) -/
theorem C06_kde_nnls_full_defined_iff (k : KdeKern) (scores : List Rat) :
    (kdeNnlsFullOf k scores ≠ none) ∧ (∃ r, kdeNnlsFullOf k scores = some r ∧ r.length = scores.length) := by
  obtain ⟨pe, hpe⟩ := kdePepEstOf_total (pi0BySlopeOf k.v k.dpdf k.slope) k.tpdf k.dpdf
  unfold kdeNnlsFullOf
  rw [hpe]
  exact ⟨by simp, ⟨_, rfl, by simp [kdeNnlsOf]⟩⟩

/-- **kde_nnls from the densities on, shape and alignment**: when the estimator answers and the NNLS
solution is non-negative, the result is `ys.map` of ONE function of the score (fixed by the kernel
outputs, not by the arrangement `ys`) with the shape of C06. -/
theorem C06_kde_nnls_full_shape (k : KdeKern) (hnn : ∀ pe w, ∀ x ∈ k.nnls pe w, 0 ≤ x)
    (ys : List Psm) (r : List Rat) (hr : kdeNnlsFullOf k (ys.map (·.1)) = some r) :
    (∃ pe, kdePepEstOf (pi0BySlopeOf k.v k.dpdf k.slope) k.tpdf k.dpdf = some pe ∧
      r = ys.map (fun y => kdePepFun k.es (k.nnls pe k.tpdf) y.1)) ∧
    Shape 0 (some 1) (ys.map (·.1)) r := by
  unfold kdeNnlsFullOf at hr
  cases hp : kdePepEstOf (pi0BySlopeOf k.v k.dpdf k.slope) k.tpdf k.dpdf with
  | none => rw [hp] at hr; cases hr
  | some pe =>
    rw [hp] at hr
    simp only [Option.map_some, Option.some.injEq] at hr
    subst hr
    exact ⟨⟨pe, rfl, (C06_interp_pointwise k.es _ ys).1⟩, C06_kde_nnls_shape k.es _ _ (hnn pe k.tpdf)⟩

/-- **the input on which the old code failed** (defect found in the second pass, repaired by 835a908; the old
behaviour is `Mutants.kdeNnlsFullOld_violates`): a grid on which the target density vanishes where only
decoys score (grid 0, 1, 2; targets near 2, decoys near 0) — the NNLS input is `[1, 1, 0]`, every PSM
receives a PEP -/
theorem C06_kde_nnls_zero_density_witness :
    kdePepEstOf (pi0BySlopeOf (9/5) [2, 1, 0] 1) [0, 1, 2] [2, 1, 0] = some [1, 1, 0] ∧
    kdeNnlsFullOf ⟨[0, 1, 2], [0, 1, 2], [2, 1, 0], 9/5, 1, fun _ _ => [0, 0, 1]⟩ [0, 2] = some [1, 0] ∧
    kdeNnlsFullOf ⟨[0, 1, 2], [1/100, 1, 2], [2, 1, 0], 9/5, 1, fun _ _ => [0, 0, 1]⟩ [0, 2] = some [1, 0] := by
  decide +kernel

/-! ## Non-vacuity and evaluation tests -/

/-- a density with a flank (the decoy density reaches `v = 9/10 · 4` at index 2, the flank `[1, 2]`
is not constant): the slope is read, a negative one is clamped -/
example : pi0NoFlank (18/5) [1, 2, 4, 3] = false ∧ pi0BySlopeOf (18/5) [1, 2, 4, 3] (-1/2) = pi0Floor ∧
    pi0BySlopeOf (18/5) [1, 2, 4, 3] (3/4) = 3/4 := by
  decide +kernel

/-- densities with and without a zero of the target density -/
example : kdePepEstOf (1/2) [1, 2, 4] [2, 2, 0] = some [1, 1/2, 0] ∧
    kdePepEstOf (1/2) [0, 2, 4] [2, 2, 0] = some [1, 1/2, 0] := by
  decide +kernel

/-- an NNLS stand-in meeting `hnn` (every solution non-negative) -/
example : ∀ pe w : List Rat, ∀ x ∈ (fun (p _ : List Rat) => p.map (fun y => max y 0)) pe w, 0 ≤ x := by
  intro pe w x hx
  obtain ⟨y, _, rfl⟩ := List.mem_map.mp hx
  exact le_max_right _ _

-- evaluation tests (compiler-evaluated: *tests*, not theorems)
#guard pi0LastIndex (9/10 * 10) [1, 3, 9, 10, 2] == 2
#guard pi0LastIndex 100 [1, 3, 9] == 0
#guard pi0NoFlank 9 [9, 10, 2] == true          -- peak at the left edge
#guard pi0NoFlank 9 [0, 0, 9, 10] == true       -- flat flank
#guard pi0NoFlank 9 [0, 1, 9, 10] == false
#guard pi0BySlopeOf 9 [0, 1, 9, 10] 0 == pi0Floor
#guard kdePepEst1 1 0 0 == some 1                -- no target density: ratio 0, estimate 1 (repaired code)
#guard kdePepEst1 1 0 (-1) == some 1
#guard kdePepEst1 (1/2) 4 2 == some (1/4)
#guard fromCountsSlopeOf 9 [0, 1, 9, 10] (-3) [(3, true), (1, false), (2, true), (0, true)] [0, 2, 1, 3]
    == some [0, 3/2 * pi0Floor, 0, 3/2 * pi0Floor]

end Mk
