import MokapotVerif.Lemmas.TdcExt2
/-!
# C04 (second extension) — model objects, the reset path, the chunked training-index loop, and
competition before estimation at the roll-up levels

* **model objects** (`brew.py:186-189`): every fold fits its own deep copy of the caller's model;
  the caller's object is left as it was (`C04_fold_models_are_copies`), so a second call with the
  same object starts from the same state (`C04_model_object_reusable`); a copy of a memorising
  learner has seen the rows the caller's model had seen plus its own training table and nothing
  else (`C04_memorising_copy_saw_only_its_table`), hence no row of its held-out fold
  (`C04_heldout_rows_unseen_by_their_scorer`);
* **which branch scores** (`brew.py:196-252`): `C04_brew_branches`; on the **reset path** the
  scores are the calibrated outputs of the *caller's* model in the state it was handed over in,
  whatever the fitted copies are (`C04_reset_eq_spec`, `C04_reset_scored_by_callers_model`); its
  raw scores do not look at any label (`C04_reset_raw_scores_ignore_labels`) and a calibration that
  is pointwise strictly increasing keeps their order (`C04_reset_order_is_the_callers_models`) —
  the ranking is a fixed one, the case of `C04_psm_level_fdr_fixed_scores`;
* **dataset size**: the training indices collected by the 5 000 000-row loop of `make_train_sets`
  are the rows outside the held-out fold for *every* `chunk_range`
  (`C04_train_rows_any_chunk_range`), so T2 holds on them
  (`C04_heldout_noninterference_any_chunk_range`);
* **competition before estimation at every roll-up level**
  (`C04_rollup_qvalues_after_both_competitions`): the rows of a roll-up level file are winners of
  their spectrum, one per level id, and the q-values are the C01 formula on exactly those rows.
-/
namespace Mk.TdcX
open Mk Mk.Brew

/-! ## Model objects -/

/-- **Every fold model is a copy; the caller's object is untouched.**  Whatever the learner, its
state, the tables and the outcome of the fits: after the fit loop the caller's model is in the
state it was handed over in, there is one fitted object per fold, and the object of fold `f` is
the caller's state fitted on `tables[f]` *only* (no other fold's table has entered it). -/
theorem C04_fold_models_are_copies {σ τ : Type} [Inhabited σ] (fit : σ → τ → σ)
    (worse : σ → τ → Bool) (trained : σ → Bool) (init : σ) (tables : List τ) :
    (fitCopies fit worse trained init tables).1 = init ∧
    (fitCopies fit worse trained init tables).2.length = tables.length ∧
    ∀ f (hf : f < tables.length),
      copyState (fitCopies fit worse trained init tables).2 f = fit init tables[f] :=
  ⟨rfl, fitCopies_length fit worse trained init tables,
    fun f hf => copyState_fitCopies fit worse trained init tables f hf⟩

/-- **The model object can be used again**: a second fit loop started from the caller's object as
the first loop left it gives the same fold models as one started from the original state. -/
theorem C04_model_object_reusable {σ τ : Type} (fit : σ → τ → σ) (worse : σ → τ → Bool)
    (trained : σ → Bool) (init : σ) (tables tables' : List τ) :
    fitCopies fit worse trained (fitCopies fit worse trained init tables).1 tables'
      = fitCopies fit worse trained init tables' := rfl

/-- **A memorising copy has seen its own table and what the caller's model had seen, nothing else.** -/
theorem C04_memorising_copy_saw_only_its_table (worse : List Nat → List Nat → Bool)
    (trained : List Nat → Bool) (init : List Nat) (tables : List (List Nat)) (f : Nat)
    (hf : f < tables.length) (i : Nat) :
    i ∈ copyState (fitCopies memFit worse trained init tables).2 f ↔ i ∈ init ∨ i ∈ tables[f] := by
  rw [copyState_fitCopies memFit worse trained init tables f hf]
  simp [memFit]

/-- **Held-out rows are unseen by their scorer, for a learner of maximal capacity.**  If the rows of
fold `f` are neither in the memory of the caller's model nor in the training table of fold `f`
(C02: the table lies outside the fold), the object that scores fold `f` has not memorised any of
them: its output on such a row carries no memorisation mark. -/
theorem C04_heldout_rows_unseen_by_their_scorer (worse : List Nat → List Nat → Bool)
    (trained : List Nat → Bool) (init : List Nat) (tables : List (List Nat)) (f : Nat)
    (hf : f < tables.length) (fold : List Nat)
    (hinit : ∀ i ∈ fold, i ∉ init) (htab : ∀ i ∈ fold, i ∉ tables[f]) :
    ∀ i ∈ fold, ∀ x : Nat,
      memApply (copyState (fitCopies memFit worse trained init tables).2 f) (i, x) = ((x : Nat) : Rat) := by
  intro i hi x
  have hnot : i ∉ copyState (fitCopies memFit worse trained init tables).2 f := by
    rw [C04_memorising_copy_saw_only_its_table worse trained init tables f hf i]
    rintro (h | h)
    · exact hinit i hi h
    · exact htab i hi h
  have hc : (copyState (fitCopies memFit worse trained init tables).2 f).contains i = false := by
    simp [hnot]
  unfold memApply
  rw [hc]
  simp

/-! ## Which branch scores -/

/-- **The reset path = the caller's model, row by row, calibrated as a whole**, for every
prediction chunk size. -/
theorem C04_reset_eq_spec {ρ : Type} (c : Nat) (hc : 0 < c) (rows : List ρ) (orig : ρ → Rat)
    (target : ρ → Bool) (calAll : List (Rat × Bool) → List Rat) :
    resetScores c rows orig target calAll = resetSpec rows orig target calAll :=
  resetScores_eq_spec c hc rows orig target calAll

/-- **The three branches of `brew`** as a function of the caller's model and the outcome of the
fits: a *trained* model that gets worse in some fold → reset path, scored by the caller's model in
the state `init` it was handed over in (none of this call's tables has entered it); an *untrained*
model that gets worse in some fold → all zeros; no fold gets worse → `brewScores` with the fitted
copies. -/
theorem C04_brew_branches {σ τ ρ : Type} [Inhabited σ] (fit : σ → τ → σ) (worse : σ → τ → Bool)
    (trained : σ → Bool) (apply : σ → ρ → Rat) (init : σ) (tables : List τ) (ensemble : Bool)
    (c : Nat) (hc : 0 < c) (rows : List ρ) (routing : List Nat) (target : ρ → Bool)
    (cal : List (Rat × Bool) → Rat → Rat) (calAll : List (Rat × Bool) → List Rat) :
    (trained init = true → (∃ t ∈ tables, worse init t = true) →
      brewObjects fit worse trained apply init tables ensemble c rows routing target cal calAll
        = resetSpec rows (apply init) target calAll) ∧
    (trained init = false → (∃ t ∈ tables, worse init t = true) →
      brewObjects fit worse trained apply init tables ensemble c rows routing target cal calAll
        = List.replicate rows.length 0) ∧
    ((∀ t ∈ tables, worse init t = false) →
      brewObjects fit worse trained apply init tables ensemble c rows routing target cal calAll
        = brewScores ensemble c tables.length rows routing
            (fun f => apply (copyState (fitCopies fit worse trained init tables).2 f)) target cal) := by
  refine ⟨?_, ?_, ?_⟩
  · intro htr hw
    have hr := (anyReset_fitCopies fit worse trained init tables).mpr ⟨htr, hw⟩
    unfold brewObjects brewScoresAll
    rw [hr]
    simp only [if_true]
    exact resetScores_eq_spec c hc rows (apply init) target calAll
  · intro htr hw
    have hr : anyReset (fitCopies fit worse trained init tables).2 = false := by
      by_contra h
      have h' : anyReset (fitCopies fit worse trained init tables).2 = true := by simpa using h
      have := ((anyReset_fitCopies fit worse trained init tables).mp h').1
      rw [htr] at this
      exact Bool.false_ne_true this
    have ha : allTrained (fitCopies fit worse trained init tables).2 = false := by
      by_contra h
      have h' : allTrained (fitCopies fit worse trained init tables).2 = true := by simpa using h
      rcases (allTrained_fitCopies fit worse trained init tables).mp h' with h1 | h1
      · rw [htr] at h1; exact Bool.false_ne_true h1
      · obtain ⟨t, ht, hwt⟩ := hw
        rw [h1 t ht] at hwt
        exact Bool.false_ne_true hwt
    unfold brewObjects brewScoresAll
    rw [hr, ha]
    simp
  · intro hw
    have hr : anyReset (fitCopies fit worse trained init tables).2 = false := by
      by_contra h
      have h' : anyReset (fitCopies fit worse trained init tables).2 = true := by simpa using h
      obtain ⟨_, t, ht, hwt⟩ := (anyReset_fitCopies fit worse trained init tables).mp h'
      rw [hw t ht] at hwt
      exact Bool.false_ne_true hwt
    have ha := (allTrained_fitCopies fit worse trained init tables).mpr (Or.inr hw)
    unfold brewObjects brewScoresAll
    rw [hr, ha]
    simp

/-- **On the reset path the fitted copies are irrelevant**: whatever objects the fit loop has
produced (`score`, `score'`), whatever `ensemble` and the routing are, the scores are those of the
caller's model. -/
theorem C04_reset_scored_by_callers_model {ρ : Type} (trainedAll trainedAll' ensemble ensemble' : Bool)
    (c nfolds nfolds' : Nat) (rows : List ρ) (routing routing' : List Nat)
    (score score' : Nat → ρ → Rat) (orig : ρ → Rat) (target : ρ → Bool)
    (cal cal' : List (Rat × Bool) → Rat → Rat) (calAll : List (Rat × Bool) → List Rat) :
    brewScoresAll true trainedAll ensemble c nfolds rows routing score orig target cal calAll
      = brewScoresAll true trainedAll' ensemble' c nfolds' rows routing' score' orig target cal' calAll := by
  simp [brewScoresAll]

/-- **The raw scores of the reset path do not look at any label**: two tables with the same
features get the same score vector from the caller's model (before calibration), whatever the
labels are. -/
theorem C04_reset_raw_scores_ignore_labels {φ : Type} (c : Nat) (hc : 0 < c)
    (rows rows' : List (φ × Bool)) (hfeat : rows.map Prod.fst = rows'.map Prod.fst)
    (orig : φ → Rat) :
    predictEnsemble c rows 1 (fun _ r => orig r.1) = predictEnsemble c rows' 1 (fun _ r => orig r.1) := by
  rw [predictEnsemble_eq_spec c hc, predictEnsemble_eq_spec c hc, ensembleSpec_one, ensembleSpec_one]
  have h1 : rows.map (fun r => orig r.1) = (rows.map Prod.fst).map orig := by
    rw [List.map_map]; rfl
  have h2 : rows'.map (fun r => orig r.1) = (rows'.map Prod.fst).map orig := by
    rw [List.map_map]; rfl
  rw [h1, h2, hfeat]

/-- **A pointwise strictly increasing calibration keeps the order of the caller's model**: when
the calibration of a collection is `s ↦ g l s` with `g l` strictly increasing (whatever it reads
from the scores and labels `l` of the collection), a row that the caller's model scores higher
gets the higher final score. -/
theorem C04_reset_order_is_the_callers_models {ρ : Type} (c : Nat) (hc : 0 < c) (rows : List ρ)
    (orig : ρ → Rat) (target : ρ → Bool) (g : List (Rat × Bool) → Rat → Rat)
    (hmono : ∀ l x y, x < y → g l x < g l y) (p q : Nat) (hp : p < rows.length) (hq : q < rows.length)
    (hpq : orig rows[p] < orig rows[q]) :
    (resetScores c rows orig target (fun l => l.map (fun x => g l x.1))).getD p 0
      < (resetScores c rows orig target (fun l => l.map (fun x => g l x.1))).getD q 0 := by
  rw [resetScores_eq_spec c hc]
  unfold resetSpec
  beta_reduce
  rw [zip_map_fst_map]
  simp only [List.getD_eq_getElem?_getD, List.getElem?_map, List.getElem?_eq_getElem hp,
    List.getElem?_eq_getElem hq, Option.map_some, Option.getD_some]
  exact hmono _ _ _ hpq

/-! ## Dataset size: the chunked loop of `make_train_sets` -/

/-- **The training indices for every `chunk_range`**: the loop `while k + chunk_range < ds`
followed by the rest collects exactly the rows of the file outside the held-out fold, whatever
`chunk_range` is (5 000 000 in the source; any other value, any file size). -/
theorem C04_train_rows_any_chunk_range (cr ds fuel : Nat) (fold : List Nat) (i : Nat) :
    i ∈ complementLoop cr ds fold fuel 0 ↔ i < ds ∧ i ∉ fold :=
  mem_complementLoop cr ds fold fuel i

/-- … hence **T2 holds on what the loop collects**: a learner fed rows drawn (with or without
sub-sampling) from the loop's indices cannot tell two tables apart that agree outside the fold. -/
theorem C04_heldout_noninterference_any_chunk_range {ρ σ : Type} (rows rows' : List ρ)
    (hlen : rows.length = rows'.length) (cr fuel : Nat) (fold sub : List Nat)
    (hsub : ∀ i ∈ sub, i ∈ complementLoop cr rows.length fold fuel 0)
    (hsame : ∀ i, i ∉ fold → rows[i]? = rows'[i]?)
    (learner : List (Option ρ) → ρ → σ) :
    learner (sub.map (fun i => rows[i]?)) = learner (sub.map (fun i => rows'[i]?)) :=
  C04_heldout_noninterference rows rows' hlen fold (complementLoop cr rows.length fold fuel 0) sub
    (by rw [C02_train_loop_eq_complement]) hsub hsame learner

/-! ## Competition before estimation at the roll-up levels -/

/-- **T3 at every roll-up level** (peptides, modified peptides, …).  For a best-first stream:
every row of the level file is a row of the PSM-level file (it has won the competition for its
spectrum: no PSM of that spectrum scores higher), the level ids are pairwise distinct, and the
q-value column is the C01 formula evaluated on exactly these rows. -/
theorem C04_rollup_qvalues_after_both_competitions (l : Nat) (merged : List Row)
    (hs : SortedRows merged) :
    (rollupLevel true merged l).Sublist (psmLevel true merged) ∧
    ((rollupLevel true merged l).map (fun r => r.key l)).Nodup ∧
    (∀ r ∈ rollupLevel true merged l, ∀ r' ∈ merged, r'.spec = r.spec → r'.score ≤ r.score) ∧
    levelQvalues (rollupLevel true merged l) = (rollupLevel true merged l).map (fun r =>
      qSpec (leInt true) ((rollupLevel true merged l).map (fun r => (r.score, r.target))) r.score) := by
  have hsub : (rollupLevel true merged l).Sublist (psmLevel true merged) := by
    unfold rollupLevel; exact dedupFirst_sublist _ _ _
  have hpsm : psmLevel true merged = dedupFirst Row.spec [] merged := by
    unfold psmLevel; simp
  obtain ⟨_, hnd, _, hcov⟩ := dedupFirst_levelSpec Row.spec merged hs
  refine ⟨hsub, ?_, ?_, C03_qvalues_are_C01 _⟩
  · unfold rollupLevel; exact dedupFirst_nodup _ _ _
  · intro r hr r' hr' hspec
    have hrp : r ∈ dedupFirst Row.spec [] merged := by rw [← hpsm]; exact hsub.subset hr
    obtain ⟨o, ho, hkey, hle⟩ := hcov r' hr'
    have : o = r := List.inj_on_of_nodup_map hnd ho hrp (by rw [hkey, hspec])
    rw [← this]; exact hle

/-! ## Non-vacuity and evaluation tests -/

-- two folds {0,1} and {2,3}; the caller's model has seen the foreign rows 100, 101
example : ∀ i ∈ [0, 1], i ∉ [100, 101] := by decide
example : ∀ i ∈ [0, 1], i ∉ [[2, 3], [0, 1]][0] := by decide
#guard (fitCopies memFit (fun _ _ => false) (fun _ => false) [100, 101] [[2, 3], [0, 1]]).2.map (·.1)
  == [[100, 101, 2, 3], [100, 101, 0, 1]]
#guard (fitCopies memFit (fun _ _ => false) (fun _ => false) [100, 101] [[2, 3], [0, 1]]).1 == [100, 101]
-- a trained model that gets worse on the table containing row 3: reset; an untrained one: zeros
#guard anyReset (fitCopies memFit (fun _ t => t.contains 3) (fun _ => true) [100] [[2, 3], [0, 1]]).2
#guard !anyReset (fitCopies memFit (fun _ t => t.contains 3) (fun _ => false) [100] [[2, 3], [0, 1]]).2
#guard !allTrained (fitCopies memFit (fun _ t => t.contains 3) (fun _ => false) [100] [[2, 3], [0, 1]]).2
-- reset path: the caller's model (memory [100]) scores rows (id, feature) without any mark, any chunk size
#guard brewObjects memFit (fun _ t => t.contains 3) (fun _ => true) memApply [100] [[2, 3], [0, 1]] false 1
    [(0, 5), (1, 6), (2, 7), (3, 8)] [0, 0, 1, 1] (fun _ => true) (fun _ s => s) (fun l => l.map (·.1)) == [5, 6, 7, 8]
#guard brewObjects memFit (fun _ t => t.contains 3) (fun _ => true) memApply [100] [[2, 3], [0, 1]] false 3
    [(0, 5), (1, 6), (2, 7), (3, 8)] [0, 0, 1, 1] (fun _ => true) (fun _ s => s) (fun l => l.map (·.1)) == [5, 6, 7, 8]
-- no fold gets worse: held-out scoring by the copies, again without any mark
#guard brewObjects memFit (fun _ _ => false) (fun _ => true) memApply [100] [[2, 3], [0, 1]] false 3
    [(0, 5), (1, 6), (2, 7), (3, 8)] [0, 0, 1, 1] (fun _ => true) (fun _ s => s) (fun l => l.map (·.1)) == [5, 6, 7, 8]
-- the chunked loop with chunk_range 2 on a file of 7 rows, fold {1, 4, 6}
#guard complementLoop 2 7 [1, 4, 6] 7 0 == [0, 2, 3, 5]
#guard complementLoop 5000000 7 [1, 4, 6] 7 0 == [0, 2, 3, 5]
-- hypotheses of the strictly increasing calibration: an affine map with positive slope
example : ∀ (_l : List (Rat × Bool)) (x y : Rat), x < y → (x - 3) / 2 < (y - 3) / 2 := by
  intro _ x y h; linarith
-- T3 at the peptide level: PSM 1 loses spectrum 7 to PSM 0 and must not represent peptide 21
#guard (rollupLevel true [⟨0, 7, [20], true, 9⟩, ⟨1, 7, [21], false, 8⟩, ⟨2, 8, [22], true, 5⟩] 0).map Row.id == [0, 2]

end Mk.TdcX
