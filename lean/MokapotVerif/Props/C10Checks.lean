import MokapotVerif.Lemmas.PinChecks
/-!
# C10 (second extension) — the constructor checks as an entry point, the types of
the metadata columns, the size of the column chunks

Property theorems only (gap analysis: `GAPS-C10.md`, section "Second pass").
Notation as in `Props/C10.lean` / `Props/C10Ext.lean`; in addition

* `onDiskInit fileCols d` is `OnDiskPsmDataset.__init__` handed the fields `d`
  (`fileCols = some hdr`: the header re-read from the file named by `filename=`;
  `none`: `filename=None`), `onDiskCulprit` the column its `ValueError` names;
  `NamesKnown hdr d` is the declarative specification of the checks;
* `metadataTypes args tcols` is `metadata_column_types` of the dataset
  `read_percolator` builds, `tcols` the header zipped with the reader's column types;
* `convertTargetsU64` is `convert_targets_column` (as repaired in `dea5393`) on a label
  column typed unsigned 64-bit, `wrap64` the cast `astype(int)` of such a column.
-/
namespace Mk.Pin

/-! ## The column existence checks of the on-disk dataset (dataset.py:497-526) -/

/-- **accepted iff every name is a column of the file**: the constructor succeeds
exactly when every non-empty name among the fifteen fields — all columns, target,
peptide, protein, spectrum key, features, metadata, level columns, file-name, scan,
calculated / measured mass, retention time, charge, spectrum id — occurs in the
header of the file in exactly that letter case; otherwise it raises the
"Column … not found" error.  Any field values, any header. -/
theorem C10_ctor_accepts_iff (fc : List Name) (d : Dataset) :
    (onDiskInit (some fc) d = .ok d ↔ NamesKnown fc d) ∧
    (¬ NamesKnown fc d → onDiskInit (some fc) d = .error .columnCheck) := by
  unfold onDiskInit
  simp only [Option.isNone_some, Bool.false_eq_true, if_false, Option.getD_some]
  constructor
  · constructor
    · intro h
      split at h
      · rename_i hc; exact (datasetChecks_iff fc d).mp hc
      · cases h
    · intro h
      rw [if_pos ((datasetChecks_iff fc d).mpr h)]
  · intro h
    rw [if_neg (fun hc => h ((datasetChecks_iff fc d).mp hc))]

/-- **a foreign column under any field is refused**: one non-empty name that is not
a column of the file — wherever the dataset mentions it — makes the constructor fail. -/
theorem C10_ctor_rejects_foreign {fc : List Name} {d : Dataset} {n : Name}
    (hn : n ∈ d.checkedNames) (hne : n ≠ []) (hfc : n ∉ fc) :
    onDiskInit (some fc) d = .error .columnCheck :=
  (C10_ctor_accepts_iff fc d).2 (fun h => hfc (h n hn hne))

/-- **the fields are stored unchanged**: a successful construction returns the
dataset it was handed. -/
theorem C10_ctor_keeps_fields {fc : Option (List Name)} {d d' : Dataset}
    (h : onDiskInit fc d = .ok d') : d' = d := by
  unfold onDiskInit at h
  split at h
  · simp only [Except.ok.injEq] at h; exact h.symm
  · split at h
    · simp only [Except.ok.injEq] at h; exact h.symm
    · cases h

/-- **the error names the first offending column**: in the order of the tests
(columns, target, peptide, protein, spectrum key, features, metadata, levels,
file-name, scan, calculated mass, measured mass, retention time, charge, spectrum
id) every name before the one reported is empty or a column of the file, the
reported one is neither; nothing is reported iff the dataset is accepted. -/
theorem C10_ctor_culprit (fc : List Name) (d : Dataset) :
    (onDiskCulprit (some fc) d = none ↔ NamesKnown fc d) ∧
    (∀ c, onDiskCulprit (some fc) d = some c →
      ∃ pre post, d.checkedNames = pre ++ c :: post ∧ (∀ x ∈ pre, x ≠ [] → x ∈ fc) ∧ c ≠ [] ∧ c ∉ fc) := by
  unfold onDiskCulprit
  simp only [Option.isNone_some, Bool.false_eq_true, if_false, Option.getD_some]
  constructor
  · rw [firstFailing_none_iff, ← datasetChecks_eq_all, datasetChecks_iff]
  · intro c h
    exact firstFailing_some h

/-- **no file, no checks**: with `filename=None` any field values are stored. -/
theorem C10_ctor_no_file (d : Dataset) : onDiskInit none d = .ok d ∧ onDiskCulprit none d = none :=
  ⟨rfl, rfl⟩

/-- **the parser only reports columns of the file**: whenever parsing succeeds — any
table, keyword arguments, chunk sizes, task order — every name the dataset mentions
is a column of the file, i.e. the constructor (handed the header of that file)
accepts it.  This is the positive counterpart of `C10_column_checks_never_fire`. -/
theorem C10_parse_passes_ctor {args : PinArgs} {c r : Nat} {t : Table}
    {order : List (List Name) → List (List Name)} {d : Dataset}
    (h : readPercolatorSched args c r t order = .ok d) :
    NamesKnown t.header d ∧ onDiskInit (some t.header) d = .ok d := by
  obtain ⟨k, _, _, _, hchk⟩ := readPercolatorSched_ok_parts h
  have hk := (datasetChecks_iff t.header d).mp hchk
  exact ⟨hk, (C10_ctor_accepts_iff t.header d).1.mpr hk⟩

/-! ## Types of the metadata columns (pin.py:207) -/

/-- **every metadata column is reported with its own type**: whenever parsing
succeeds (any arguments, chunk sizes, task order), `metadata_column_types` has one
entry per metadata column, in the order of `metadata_columns`, and entry `i` is a
type the reader lists for column `metadata_columns[i]`; `list.index` never raises.
`tcols` is the header zipped with the reader's column types. -/
theorem C10_metadata_types {τ : Type} {args : PinArgs} {c r : Nat} {t : Table}
    {order : List (List Name) → List (List Name)} {d : Dataset}
    (h : readPercolatorSched args c r t order = .ok d)
    (tcols : List (Name × τ)) (hhdr : tcols.map (·.1) = t.header) :
    ∃ tys, metadataTypes args tcols = .ok (some tys) ∧ tys.length = d.metadata.length ∧
      ∀ p ∈ d.metadata.zip tys, p ∈ tcols := by
  obtain ⟨k, hk, hmeta, _, _⟩ := readPercolatorSched_ok_parts h
  have hw := within_nonfeat (lookupColumns_within hk)
  obtain ⟨tys, h1, h2, h3⟩ := nonfeatTypes_some tcols (k.nonfeat t.header)
    (fun x hx => by rw [hhdr]; exact hw x hx)
  refine ⟨tys, ?_, by rw [hmeta]; exact h2, by rw [hmeta]; exact h3⟩
  unfold metadataTypes
  rw [hhdr, hk]
  simp only [Except.bind]
  rw [h1]

/-- with distinct column names the type of a column is unique, so entry `i` is *the*
type of column `metadata_columns[i]` -/
theorem C10_metadata_types_unique {τ : Type} {tcols : List (Name × τ)} (hnd : (tcols.map (·.1)).Nodup)
    {ms : List Name} {tys : List τ} (hall : ∀ p ∈ ms.zip tys, p ∈ tcols) :
    ∀ m ty ty', (m, ty) ∈ ms.zip tys → (m, ty') ∈ tcols → ty' = ty :=
  fun _ _ _ h1 h2 => typed_keys_unique hnd h2 (hall _ h1)

/-- a table the look-ups refuse has no metadata types either (same error) -/
theorem C10_metadata_types_lookup_error {τ : Type} {args : PinArgs} {tcols : List (Name × τ)} {e : PinErr}
    (h : lookupColumns args (tcols.map (·.1)) = .error e) : metadataTypes args tcols = .error e := by
  unfold metadataTypes
  rw [h]
  rfl

/-! ## Unsigned 64-bit label columns (utils.py:208-226 after the repair `dea5393`) -/

/-- **the wrapping cast changes nothing observable**: on every label column the repaired
conversion of an unsigned 64-bit column — cast with wrap-around, refuse the column if the
cast changed a value, range-test the cast values — fails or succeeds exactly as the
conversion with the range test on the original values, with the same targets.  Hence all
theorems about `convertTargets` (`C10_targets_spec`, `C10_label_out_of_range_rejected`,
`C10_accepts_iff`) hold for such columns too. -/
theorem C10_unsigned_labels (cells : List Cell) : convertTargetsU64 cells = convertTargets cells :=
  convertTargetsU64_eq cells

/-- **a label the cast would wrap is rejected**: an integer column holding a value of
2^63 or more — in particular 2^64 - 1, which wraps to -1 — is refused with the range error.
(False for the code before the repair: `Mutants/PinChecks.lean: convertTargetsU64Wrap_violates`.) -/
theorem C10_unsigned_label_wrap_rejected {cells : List Cell} (hint : cells.all Cell.isInt = true)
    (hbig : ∃ c ∈ cells, 9223372036854775808 ≤ c.intVal) :
    convertTargetsU64 cells = .error .labelRange := by
  rw [convertTargetsU64_eq]
  obtain ⟨c, hc, hb⟩ := hbig
  exact convertTargets_range hint ⟨c, hc, Or.inr (by omega)⟩

/-! ## Size of the column chunks -/

/-- **column chunks are bounded**: every chunk of (the repaired)
`create_chunks_with_identifier` is non-empty and holds at most `max c |ids|`
columns — a task never reads more than a chunk's worth of columns (or the
identifier columns alone). -/
theorem C10_idchunks_sizes {α : Type} (data ids : List α) (hne : ids ≠ []) {c : Nat} (hc : 1 ≤ c) :
    ∀ ch ∈ idChunks data ids c, 0 < ch.length ∧ ch.length ≤ max c ids.length :=
  idChunks_sizes hc data ids hne

/-! ## Non-vacuity -/

/-- 2 rows; a measured-mass column; feature `f2` has a missing value -/
def exTable3 : Table :=
  ⟨[("SpecId".toList, [.str "a".toList, .str "b".toList]),
    ("Label".toList, [.int 1, .int (-1)]),
    ("f1".toList, [.int 5, .int 6]),
    ("ScanNr".toList, [.int 11, .int 12]),
    ("ExpMass".toList, [.int 500, .int 502]),
    ("f2".toList, [.int 1, .na]),
    ("Peptide".toList, [.str "P".toList, .str "Q".toList]),
    ("Proteins".toList, [.str "X".toList, .str "Y".toList])]⟩

/-- the dataset the parser builds for it -/
def exDataset3 : Dataset := specDataset exTable3

/-- the reader's types, zipped with the header -/
def exTypes3 : List (Name × String) :=
  exTable3.header.zip ["str", "int64", "int64", "int64", "float64", "float64", "str", "str"]

#guard okEq (readPercolator {} 3 1 exTable3) exDataset3
example : NamesKnown exTable3.header exDataset3 := (datasetChecks_iff _ _).mp (by decide +kernel)
example : ¬ NamesKnown exTable3.header { exDataset3 with features := ["f1".toList, "F2".toList] } :=
  fun h => absurd ((datasetChecks_iff _ _).mpr h) (by decide +kernel)
#guard (onDiskInit (some exTable3.header) exDataset3).toOption == some exDataset3
-- a feature in the wrong letter case / an unknown rt column / a foreign level column are refused,
-- an empty name and an absent optional role are not tested
#guard (onDiskInit (some exTable3.header) { exDataset3 with features := ["f1".toList, "F2".toList] }).toOption.isNone
#guard onDiskCulprit (some exTable3.header) { exDataset3 with features := ["f1".toList, "F2".toList] }
  == some "F2".toList
#guard onDiskCulprit (some exTable3.header) { exDataset3 with rt := some "rt".toList, specid := "id".toList }
  == some "rt".toList
#guard onDiskCulprit (some exTable3.header) { exDataset3 with level := ["Peptide".toList, "x".toList] }
  == some "x".toList
#guard (onDiskInit (some exTable3.header) { exDataset3 with peptide := [], rt := none }).toOption.isSome
#guard (onDiskInit none { exDataset3 with features := ["nope".toList] }).toOption.isSome
-- metadata types: SpecId, ScanNr, Peptide, Proteins, Label, ExpMass
#guard exDataset3.metadata == ["SpecId", "ScanNr", "Peptide", "Proteins", "Label", "ExpMass"].map String.toList
#guard (metadataTypes {} exTypes3).toOption == some (some ["str", "int64", "str", "str", "int64", "float64"])
example : (exTypes3.map (·.1)).Nodup ∧ exTypes3.map (·.1) = exTable3.header := by decide +kernel
-- unsigned labels: 1 / 0 accepted, 2^64 - 1 and 2^63 refused (both by the "changed by the cast" test)
#guard (convertTargetsU64 [.int 1, .int 0, .int 1]).toOption == some [true, false, true]
#guard (convertTargetsU64 [.int 1, .int 18446744073709551615]).toOption.isNone
#guard (convertTargetsU64 [.int 0, .int 9223372036854775808]).toOption.isNone
#guard wrap64 18446744073709551615 == -1 && wrap64 9223372036854775808 == -9223372036854775808 && wrap64 1 == 1
example : ∃ cells : List Cell, cells.all Cell.isInt = true ∧ ∃ c ∈ cells, 9223372036854775808 ≤ c.intVal :=
  ⟨[.int 1, .int 18446744073709551615], by decide +kernel⟩
-- column chunks: 18 features, 3 identifiers, c = 19 and c = 2
#guard (idChunks (List.range 18) [100, 101, 102] 19).all (fun ch => 0 < ch.length && ch.length ≤ 19)
#guard (idChunks (List.range 18) [100, 101, 102] 2).all (fun ch => 0 < ch.length && ch.length ≤ 3)

end Mk.Pin
