import MokapotVerif.Props.C05Stream
import MokapotVerif.Lemmas.CrossText
/-!
# C05 (third pass) — identifier cells through the chunked text reads; the key of the fold split

`Model/CrossText.lean` §6–§7.  Gap analysis: `GAPS-C05.md`, section "Third pass"; the two defects of the
real code found by this pass (D53, D54) are described in `FINDING-C05.md`.

* §6: the identifier columns of a text input go through three chunked reads (`CONFIDENCE_CHUNK_SIZE`,
  `MERGE_SORT_CHUNK_SIZE`, `CONFIDENCE_CHUNK_SIZE` again), each of which types a column per chunk.  Read as
  text (`text_columns=`, the code as it is) every cell comes back as it is, so the result files of a text
  input are those of the plain model `resultFiles` — for every pair of chunk sizes, with and without ties.
  The reader that infers the types (the code before) does so only when no identifier looks like a number
  (why generated ids such as `t_0_0` never showed it); it is refuted in `Mutants/CrossText.lean`.
* §7: the fold of a spectrum is a function of the kinds and values of the spectrum columns, not of the
  width or signedness they are stored with (Parquet `int32` / `uint32` / `float32` against text = 64 bit),
  and the repaired key is the old one on every table that is stored with 64 bit signed columns.
-/
namespace Mk
open Mk.Brew Mk.Cross

/-! ## identifier cells -/

/-- an identifier column read as text in chunks of any size `c ≥ 1` and written back is the column:
no cell is re-spelled whatever the other cells of its chunk look like -/
theorem C05_id_text_read_verbatim (clsOf : Nat → Nat) (canon : Nat → Nat → Nat) (c : Nat) (hc : 0 < c)
    (ts : List Nat) : readColumn true clsOf canon c ts = ts :=
  readColumn_asText clsOf canon c hc ts

/-- **refinement**: the result files of a text input — with the three chunked text reads of the
identifier column in place (input, sorted temporary files, level files) — are the files of the plain
chunked model, for every `CONFIDENCE_CHUNK_SIZE` `c ≥ 1` and every `MERGE_SORT_CHUNK_SIZE` `m ≥ 1`, whatever
the identifiers look like (`clsOf`) and however pandas would spell them as numbers (`canon`) -/
theorem C05_id_text_files_eq_plain (clsOf : Nat → Nat) (canon : Nat → Nat → Nat) (c m : Nat) (hc : 0 < c)
    (hm : 0 < m) (dedup : Bool) (n : Nat) (pep : List Row → List Rat) (md : List Row) (sc : List Int) :
    textFiles true clsOf canon c m dedup n pep md sc = resultFiles c dedup n pep md sc :=
  textFiles_asText clsOf canon c m hc hm dedup n pep md sc

/-- … hence they satisfy the chunk-free specification of the result files (rows, order, q-values, PEPs,
target/decoy split, identifier text of every row) -/
theorem C05_id_text_files_eq_spec (clsOf : Nat → Nat) (canon : Nat → Nat → Nat) (c m : Nat) (hc : 0 < c)
    (hm : 0 < m) (dedup : Bool) (n : Nat) (pep : List Row → List Rat)
    (hpep : ∀ rows, (pep rows).length = rows.length) (md : List Row) (sc : List Int) (h : md.length = sc.length) :
    textFiles true clsOf canon c m dedup n pep md sc
      = resultFilesSpec (confidenceLevels c dedup n (scoredRows md sc)) pep := by
  rw [C05_id_text_files_eq_plain clsOf canon c m hc hm, C05_result_files_eq_spec c hc dedup n pep hpep md sc h]

/-- the merge-sort chunk size never reaches the result files of a text input — no hypothesis on the
scores (ties allowed), none on the identifiers -/
theorem C05_id_text_merge_chunk_free (clsOf : Nat → Nat) (canon : Nat → Nat → Nat) (c m₁ m₂ : Nat) (hc : 0 < c)
    (h₁ : 0 < m₁) (h₂ : 0 < m₂) (dedup : Bool) (n : Nat) (pep : List Row → List Rat) (md : List Row)
    (sc : List Int) :
    textFiles true clsOf canon c m₁ dedup n pep md sc = textFiles true clsOf canon c m₂ dedup n pep md sc := by
  rw [C05_id_text_files_eq_plain clsOf canon c m₁ hc h₁, C05_id_text_files_eq_plain clsOf canon c m₂ hc h₂]

/-- **two configurations of both constants**: with pairwise distinct scores every result file of a text
input — identifier texts included — is the same for `(c₁, m₁)` and `(c₂, m₂)` -/
theorem C05_id_text_chunk_invariant (clsOf : Nat → Nat) (canon : Nat → Nat → Nat) (c₁ c₂ m₁ m₂ : Nat)
    (hc₁ : 0 < c₁) (hc₂ : 0 < c₂) (hm₁ : 0 < m₁) (hm₂ : 0 < m₂) (n : Nat) (pep : List Row → List Rat)
    (hpep : ∀ rows, (pep rows).length = rows.length) (md : List Row) (sc : List Int) (h : md.length = sc.length)
    (hinj : ∀ a ∈ scoredRows md sc, ∀ b ∈ scoredRows md sc, a.score = b.score → a = b) :
    textFiles true clsOf canon c₁ m₁ true n pep md sc = textFiles true clsOf canon c₂ m₂ true n pep md sc := by
  rw [C05_id_text_files_eq_plain clsOf canon c₁ m₁ hc₁ hm₁, C05_id_text_files_eq_plain clsOf canon c₂ m₂ hc₂ hm₂]
  exact C05_result_files_chunk_invariant c₁ c₂ hc₁ hc₂ n pep hpep md sc h hinj

/-- the reader that infers the types per chunk (the code before D54) hands a column on unchanged when
none of its cells looks like a number … -/
theorem C05_id_inferred_column_all_text (clsOf : Nat → Nat) (canon : Nat → Nat → Nat) (c : Nat) (hc : 0 < c)
    (ts : List Nat) (h : ∀ t ∈ ts, clsOf t = 2) : readColumn false clsOf canon c ts = ts :=
  readColumn_allText false clsOf canon c hc ts h

/-- … so that with identifiers none of which looks like a number (`t_0_0`, `PEPTIDEK`, `sp|P1|…`) its
result files are the plain ones as well: why the dependence on the chunk sizes stayed invisible on
generated tables (it is refuted as soon as some identifiers look numeric: `Mutants/CrossText.lean`) -/
theorem C05_id_inferred_files_all_text (clsOf : Nat → Nat) (canon : Nat → Nat → Nat) (h : ∀ t, clsOf t = 2)
    (c m : Nat) (hc : 0 < c) (hm : 0 < m) (dedup : Bool) (n : Nat) (pep : List Row → List Rat) (md : List Row)
    (sc : List Int) :
    textFiles false clsOf canon c m dedup n pep md sc = resultFiles c dedup n pep md sc := by
  have hr : ∀ (k : Nat), 0 < k → ∀ rows : List Row, retypeIds false clsOf canon k rows = rows := by
    intro k hk rows
    unfold retypeIds
    rw [readColumn_allText false clsOf canon k hk _ (fun t _ => h t)]
    exact zipWith_setId_self rows
  unfold textFiles resultFiles
  have hl : textLevels false clsOf canon c m dedup n md sc = chunkedLevels c dedup n md sc := by
    unfold textLevels chunkedLevels
    simp only [hr c hc, hr m hm]
  rw [hl]
  apply List.map_congr_left
  intro rows _
  unfold textLevelFile
  rw [hr c hc]

/-! ## the key of the fold split -/

/-- the key under which `_split` hashes a spectrum is the specification's: kinds and values -/
theorem C05_fold_keys_eq_spec {ν : Type} (promote : List NumType → NumType) (types : List NumType)
    (rows : List (List ν)) :
    foldKeys true promote types rows = foldKeysSpec promote (types.map (fun t => t.float)) rows := by
  unfold foldKeys foldKeysSpec
  simp only [if_true, List.map_map]
  rfl

/-- **storage independence**: two typings of one table that agree on which columns are floating — text
(always 64 bit) against Parquet `int32` / `uint32` / `int16` / `float32` … — give every spectrum the same
key, for every promotion rule -/
theorem C05_fold_keys_width_free {ν : Type} (promote : List NumType → NumType) (t₁ t₂ : List NumType)
    (h : t₁.map (fun t => t.float) = t₂.map (fun t => t.float)) (rows : List (List ν)) :
    foldKeys true promote t₁ rows = foldKeys true promote t₂ rows := by
  rw [C05_fold_keys_eq_spec, C05_fold_keys_eq_spec, h]

/-- … hence the same hash vector and the same folds (`Mk.Brew.split`, the model of C02), whatever the
hash function: all of `brew`'s scores are computed with the same fold assignment -/
theorem C05_folds_width_free {ν : Type} (promote : List NumType → NumType) (t₁ t₂ : List NumType)
    (h : t₁.map (fun t => t.float) = t₂.map (fun t => t.float)) (rows : List (List ν))
    (hash : NumType × List ν → Nat) (folds : Nat) :
    Brew.split ((foldKeys true promote t₁ rows).map hash) folds
      = Brew.split ((foldKeys true promote t₂ rows).map hash) folds := by
  rw [C05_fold_keys_width_free promote t₁ t₂ h]

/-- on a table stored with 64 bit signed columns (every text input, `int64` / `double` Parquet) the key —
hence every fold assignment computed so far from such input — is what it was before the repair -/
theorem C05_fold_keys_unchanged_on_64 {ν : Type} (promote : List NumType → NumType) (types : List NumType)
    (h : ∀ t ∈ types, t.bits = 64 ∧ t.signed = true) (rows : List (List ν)) :
    foldKeys true promote types rows = foldKeys false promote types rows := by
  unfold foldKeys
  simp only [if_true, Bool.false_eq_true, if_false, map_castWidth_of_64 types h]

/-! ## non-vacuity and tests -/

/-- cell classes of the example texts: `7` ↦ 7 (canonical integer), `107` stands for `007`, `200` for `x8` -/
def c05tCls (t : Nat) : Nat := if t ≥ 200 then 2 else 0
/-- pandas' spelling of the number: `007` ↦ `7` -/
def c05tCanon (_d t : Nat) : Nat := t % 100
def c05tMd : List Row := [⟨107, 1, [10], true, 0⟩, ⟨200, 2, [11], false, 0⟩, ⟨108, 3, [12], true, 0⟩]
def c05tSc : List Int := [3, 2, 1]
def c05tPep (rows : List Row) : List Rat := rows.map (fun _ => 0)

-- hypotheses of `C05_id_text_chunk_invariant` on a table with numeric-looking identifiers
example : c05tMd.length = c05tSc.length ∧
    (∀ a ∈ scoredRows c05tMd c05tSc, ∀ b ∈ scoredRows c05tMd c05tSc, a.score = b.score → a = b) ∧
    (∀ rows, (c05tPep rows).length = rows.length) := by
  refine ⟨rfl, by decide, fun rows => by simp [c05tPep]⟩
-- hypothesis of `C05_id_inferred_files_all_text`
example : ∀ t : Nat, (fun _ => 2) t = 2 := fun _ => rfl
-- hypotheses of `C05_fold_keys_width_free` / `C05_fold_keys_unchanged_on_64`
example : ([⟨false, 32, true⟩, ⟨true, 32, true⟩] : List NumType).map (fun t => t.float)
    = ([⟨false, 64, true⟩, ⟨true, 64, true⟩] : List NumType).map (fun t => t.float) := rfl
example : ∀ t ∈ ([⟨false, 64, true⟩, ⟨true, 64, true⟩] : List NumType), t.bits = 64 ∧ t.signed = true := by decide

#guard readColumn true c05tCls c05tCanon 1 [107, 200, 108] == [107, 200, 108]
#guard readColumn false c05tCls c05tCanon 1 [107, 200, 108] == [7, 200, 8]          -- before D54: `007` → `7`
#guard readColumn false c05tCls c05tCanon 2 [107, 200, 108] == [107, 200, 8]
#guard readColumn false c05tCls c05tCanon 3 [107, 200, 108] == [107, 200, 108]
#guard (textFiles true c05tCls c05tCanon 1 1 true 1 c05tPep c05tMd c05tSc).map (fun f => (f.1.map (·.1.id), f.2.map (·.1.id)))
  == [([107, 108], [200]), ([107, 108], [200])]
#guard textFiles true c05tCls c05tCanon 1 2 true 1 c05tPep c05tMd c05tSc == textFiles true c05tCls c05tCanon 3 1 true 1 c05tPep c05tMd c05tSc
#guard (textFiles false c05tCls c05tCanon 1 1 true 1 c05tPep c05tMd c05tSc).map (fun f => (f.1.map (·.1.id), f.2.map (·.1.id)))
  == [([7, 8], [200]), ([7, 8], [200])]
#guard foldKeys true promote64 [⟨false, 32, true⟩] [[1000], [1001]] == foldKeys false promote64 [⟨false, 64, true⟩] [[1000], [1001]]
#guard foldKeys true promote64 [⟨false, 16, true⟩, ⟨true, 32, true⟩] [[1000, 500, 9]] == [(⟨true, 64, true⟩, [1000, 500])]

end Mk
