import MokapotVerif.Lemmas.CalibrateScale
import MokapotVerif.Props.C11Gate
/-!
# C11 (second audit pass) — which model's `decision_function` test belongs to which fold

The gate theorems of `Props/C11Gate.lean` take the flags `dfs` fold by fold.  `brew` obtains
them from the list of models *after* sorting it by the models' `fold` attribute
(brew.py:194-195); with pre-trained models the caller decides the order of the list.  The
theorems here close that step: the result of `_predict` does not depend on the order in which
the models are listed (distinct fold attributes), and a list given in fold order is used as it is.
-/
namespace Mk.Calibrate

/-- models listed in fold order are taken as they are: the flag of fold `f` is the flag of the
`f`-th listed model (so every theorem of `Props/C11Gate.lean` applies with `dfs` = the listed flags) -/
theorem C11_gate_models_in_fold_order (c : Nat) (models : List (Nat × Bool)) (thr : Rat) (rows : List FRow)
    (h : models.Pairwise (fun a b => a.1 ≤ b.1)) :
    predictModels c models thr rows = predictFoldsDF c (models.map (fun m => m.2)) thr rows := by
  unfold predictModels gateFlags
  rw [sortByFold_of_sorted models h]

/-- **The order in which pre-trained models are passed is irrelevant**: any re-ordering of the
list (fold attributes pairwise distinct) gives the same scores / the same error, for every
mixture of estimators with and without a decision function. -/
theorem C11_gate_model_order_irrelevant (c : Nat) (models models' : List (Nat × Bool)) (thr : Rat)
    (rows : List FRow) (hp : models'.Perm models) (hnd : (models.map (fun m => m.1)).Nodup) :
    predictModels c models' thr rows = predictModels c models thr rows := by
  unfold predictModels gateFlags
  rw [sortByFold_eq_of_perm models models' hp hnd]

/-- the fold that a listed model serves is its rank among the fold attributes: one flag per
model, and the flags are those of the models in ascending attribute order. -/
theorem C11_gate_flags_sorted (models : List (Nat × Bool)) :
    (gateFlags models).length = models.length ∧
    ∃ sorted : List (Nat × Bool), sorted.Perm models ∧ sorted.Pairwise (fun a b => a.1 ≤ b.1) ∧
      gateFlags models = sorted.map (fun m => m.2) := by
  refine ⟨?_, sortByFold models, sortByFold_perm models, sortByFold_sorted models, rfl⟩
  unfold gateFlags
  rw [List.length_map]
  exact (sortByFold_perm models).length_eq

/-- hypotheses satisfiable, statement not trivial: three models listed as folds 3, 1, 2 with
different flags -/
example : ([(3, false), (1, true), (2, true)] : List (Nat × Bool)).Perm [(1, true), (2, true), (3, false)] ∧
    (([(1, true), (2, true), (3, false)] : List (Nat × Bool)).map (fun m => m.1)).Nodup ∧
    gateFlags [(3, false), (1, true), (2, true)] = [true, true, false] ∧
    ([(3, false), (1, true), (2, true)] : List (Nat × Bool)).map (fun m => m.2) ≠ [true, true, false] := by
  refine ⟨by decide, by decide, by decide, by decide⟩

#guard gateFlags [(2, false), (1, true)] == [true, false]
#guard gateFlags [(1, true), (1, false), (0, false)] == [false, true, false]   -- stable on equal attributes
#guard (match predictModels 2 [(2, false), (1, true)] 1 exFolds, predictFoldsDF 2 [true, false] 1 exFolds with
  | Except.ok v, Except.ok w => v == w | _, _ => false)

end Mk.Calibrate
