import MokapotVerif.Lemmas.QvaluesCnt
import MokapotVerif.Props.C01Key
/-!
# C01 — "all lengths ≥ 1": what the count type must provide, and the formula on a histogram

Property theorems only.

* `tdcArrR ρ` is the array-level `tdc` with the dtype of `cum_targets` / `cum_decoys` /
  `num_total` / `cum_decoys + 1` explicit (`ρ n` = what the dtype stores for the exact value `n`).
  A count type that is exact up to `N` returns the defining formula on every input with fewer than
  `N` rows — in particular int64 (the code) on every array that can exist, and float32 counts
  (seeded change C01e) on inputs of fewer than 2^24 rows only; beyond, a float32 running count
  stalls (`C01_float32_count_stalls`) and the formula is lost (`Mutants/QvaluesCnt.lean`).
* `qBlocksAt` evaluates the defining formula on a histogram (score, #targets, #decoys per tie
  group).  It *is* the defining formula of every PSM list with that histogram, in any order — this
  is what lets the harness compare the real `tdc` on 2^24+ rows with the model (`qblocks` op).
-/
namespace Mk
open Mk.Qv
variable {α : Type}

/-- **Count type, sufficiency.**  If the count type stores every value up to `N` exactly, the
pipeline with counts in that type returns the defining formula on every input with fewer than
`N` rows (any scores, labels, both directions). -/
theorem C01_counts_exact_up_to_suffice (ρ : Nat → Nat) (N : Nat) (hρ : ∀ n, n ≤ N → ρ n = n)
    (leq : α → α → Bool) (hle : LinearLe leq) (desc : Bool) (xs : List (α × Bool))
    (h : xs.length + 1 ≤ N) :
    tdcArrR ρ leq desc xs = some (xs.map (fun x => qSpec (dirLe leq desc) xs x.1)) := by
  rw [tdcArrR_eq ρ N hρ leq desc xs h, C01_pipeline_eq_spec leq hle]

/-- natural-number counts (`ρ = id`): every length -/
theorem C01_counts_nat_all_lengths (leq : α → α → Bool) (hle : LinearLe leq) (desc : Bool)
    (xs : List (α × Bool)) :
    tdcArrR id leq desc xs = some (xs.map (fun x => qSpec (dirLe leq desc) xs x.1)) :=
  C01_counts_exact_up_to_suffice id (xs.length + 1) (fun _ _ => rfl) leq hle desc xs (le_refl _)

/-- **the code as it is** (int64 counts): the defining formula for every input of fewer than
2^63 − 1 rows, i.e. every array numpy can hold. -/
theorem C01_int64_counts_eq_spec (leq : α → α → Bool) (hle : LinearLe leq) (desc : Bool)
    (xs : List (α × Bool)) (h : xs.length + 1 < 2 ^ 63) :
    tdcArrR cntI64 leq desc xs = some (xs.map (fun x => qSpec (dirLe leq desc) xs x.1)) := by
  apply C01_counts_exact_up_to_suffice cntI64 (2 ^ 63 - 1) _ leq hle desc xs (by omega)
  intro n hn
  unfold cntI64
  exact Nat.mod_eq_of_lt (by omega)

/-- `tdc` as called, integer cast and int64 counts included, on float scores -/
theorem C01_entry_int64_counts_floats (desc : Bool) (xs : List Rat) (labels : LabelArr)
    (h : xs.length + 1 < 2 ^ 63) :
    tdcEntryR cntI64 desc (.floats xs) labels = tdcEntry desc (.floats xs) labels := by
  unfold tdcEntryR tdcEntry checkInput
  cases hd : decodeLabels labels with
  | none => rfl
  | some bs =>
    simp only [Option.elim, prepScores]
    by_cases hl : xs.length = bs.length
    · simp only [hl, if_true, Except.map]
      have hlen : (xs.zip bs).length + 1 < 2 ^ 63 := by simp [List.length_zip, ← hl]; omega
      rw [C01_int64_counts_eq_spec leqQ leqQ_linear desc _ hlen, tdcKeyArr_eq_tdc,
        C01_tdc_eq_spec _ (leqQ_linear.totalPre desc)]
    · simp [hl, Except.map]

/-- float32 counts (seeded change C01e) are indistinguishable from exact counts on every input of
fewer than 2^24 − 1 rows … -/
theorem C01_float32_counts_exact_below_2p24 (leq : α → α → Bool) (hle : LinearLe leq) (desc : Bool)
    (xs : List (α × Bool)) (h : xs.length + 1 < 2 ^ 24) :
    tdcArrR roundNat24 leq desc xs = some (xs.map (fun x => qSpec (dirLe leq desc) xs x.1)) := by
  apply C01_counts_exact_up_to_suffice roundNat24 (2 ^ 24 - 1) _ leq hle desc xs (by omega)
  intro n hn
  exact roundNat24_small (by omega)

/-- … and beyond, a float32 running count of ones never passes 2^24 (2^24 + 1 rounds to even):
after `2^24 + k` targets `cum_targets` holds `2^24`, not `2^24 + k`, for every `k`. -/
theorem C01_float32_count_stalls (k : Nat) :
    cumsumByR roundNat24 targetInd (2 ^ 24) (List.replicate k true) = List.replicate k (2 ^ 24) :=
  cumsumByR_stall roundNat24 (2 ^ 24) (by decide +kernel) k

/-- any count type with a fixed point under `+1` (saturation, float stall) loses every later PSM -/
theorem C01_count_fixed_point_stalls (ρ : Nat → Nat) (B : Nat) (h : ρ (B + 1) = B) (k : Nat) :
    cumsumByR ρ targetInd B (List.replicate k true) = List.replicate k B :=
  cumsumByR_stall ρ B h k

/-! ## histogram -/

/-- **The defining formula on a histogram.**  For any PSM list `xs` whose histogram is `bs` (any
order), every q-value is the closed form evaluated on the histogram: minimum, over the tie groups at
or worse than the PSM's own score, of (decoys at or better + 1)/(targets at or better), capped at 1. -/
theorem C01_tdc_on_histogram (le : α → α → Bool) (hle : TotalPre le) (bs : List (Blk α))
    (hne : ∀ b ∈ bs, 0 < b.2.1 + b.2.2) (xs : List (α × Bool)) (hp : xs.Perm (expandBlocks bs)) :
    tdc le xs = xs.map (fun x => qBlocksAt le bs x.1) := by
  rw [C01_tdc_perm_equivariant le hle (expandBlocks bs) xs hp]
  apply List.map_congr_left
  intro x _
  exact qSpec_expandBlocks le bs hne x.1

/-- the same for the array-level pipeline with the code's int64 counts, both directions -/
theorem C01_pipeline_on_histogram (leq : α → α → Bool) (hle : LinearLe leq) (desc : Bool)
    (bs : List (Blk α)) (hne : ∀ b ∈ bs, 0 < b.2.1 + b.2.2) (xs : List (α × Bool))
    (hp : xs.Perm (expandBlocks bs)) (h : xs.length + 1 < 2 ^ 63) :
    tdcArrR cntI64 leq desc xs = some (xs.map (fun x => qBlocksAt (dirLe leq desc) bs x.1)) := by
  rw [C01_int64_counts_eq_spec leq hle desc xs h, ← C01_tdc_eq_spec _ (hle.totalPre desc),
    C01_tdc_on_histogram _ (hle.totalPre desc) bs hne xs hp]

/-- the per-row table the driver returns (`qblocks`) is that closed form, row by row -/
theorem C01_qBlocks_rows (le : α → α → Bool) (bs : List (Blk α)) :
    qBlocks le bs = bs.map (fun b => qBlocksAt le bs b.1) :=
  qBlocks_eq le bs

/-- training labels of a PSM list from its histogram -/
theorem C01_labels_on_histogram (le : α → α → Bool) (hle : TotalPre le) (thr : Rat) (bs : List (Blk α))
    (hne : ∀ b ∈ bs, 0 < b.2.1 + b.2.2) (xs : List (α × Bool)) (hp : xs.Perm (expandBlocks bs)) :
    updateLabels le thr xs = xs.map (fun x =>
      if x.2 = false then (-1 : Int) else if qBlocksAt le bs x.1 ≤ thr then 1 else 0) := by
  rw [C01_labels_exact le hle]
  apply List.map_congr_left
  intro x _
  rw [qSpec_perm le hp, qSpec_expandBlocks le bs hne]

/-- q-values depend on the input only through its histogram: two inputs with the same histogram
give every score the same q-value -/
theorem C01_histogram_determines_q (le : α → α → Bool) (bs : List (Blk α)) (xs ys : List (α × Bool))
    (hx : xs.Perm (expandBlocks bs)) (hy : ys.Perm (expandBlocks bs)) (s : α) :
    qSpec le xs s = qSpec le ys s := by
  rw [qSpec_perm le hx, qSpec_perm le hy]

/-! ## non-vacuity and tests -/

/-- hypotheses of the histogram theorems exhibited: non-empty rows, an input in another order -/
example : (∀ b ∈ [((3 : Int), 2, 1), (1, 0, 2)], 0 < b.2.1 + b.2.2) ∧
    [((1 : Int), false), (3, true), (3, false), (1, false), (3, true)].Perm
      (expandBlocks [((3 : Int), 2, 1), (1, 0, 2)]) := by
  decide

/-- a count type exact up to `N` that is not exact beyond: hypothesis of the sufficiency theorem -/
example : (∀ n, n ≤ 5 → cntSat 5 n = n) ∧ cntSat 5 6 ≠ 6 := by
  constructor
  · intro n hn; simp [cntSat, hn]
  · decide

-- tests (not claims): histogram rows with counts beyond 2^24
#guard qBlocks (dirLe leqZ true) [((2 : Int), 2 ^ 24 + 8, 3), (1, 5, 2 ^ 24)]
  == [(4 : Rat) / (2 ^ 24 + 8), (2 ^ 24 + 4 : Rat) / (2 ^ 24 + 13)]
#guard tdcArrR cntI64 leqZ true [((3 : Int), true), (3, false), (1, true)] == some [(2 : Rat) / 2, 2 / 2, 2 / 2]
#guard tdcArrR roundNat24 leqZ false [((3 : Int), true), (3, false), (1, true)] == some [(2 : Rat) / 2, 2 / 2, 1]

end Mk
