import MokapotVerif.Props.C14
import MokapotVerif.Lemmas.MergeNested
/-!
# C14, second pass — a table merger whose inputs are table mergers

Property theorems only.  `kmergeNested le desc cin cout groups` is

    MergedTabularDataReader([MergedTabularDataReader(g, col, desc, reader_chunk_size=cin) for g in groups],
                            col, desc, reader_chunk_size=cout).get_row_iterator()

(result: rows yielded, and whether `ValueError` was then raised; `none`: raises before the first row
because there is no reader or a reader without rows).  The inner mergers are read through their
`get_chunked_data_iterator(cout)`, i.e. frame by frame (`kmDeliverFrames`).
-/
namespace Mk.Merge
variable {α : Type}

/-- "independent of the number of inputs", for merging in stages: when every input is sorted as
declared, merging groups of inputs first and the merged streams afterwards yields exactly what
merging all inputs at once yields — the stable sort of all inputs written one after the other —
and no error, for all reader chunk sizes, in both modes -/
theorem C14_nested_eq_flat (le : α → α → Bool) (hle : TotalPre le) (desc : Bool) (cin cout : Nat)
    (hcin : 0 < cin) (hcout : 0 < cout) (groups : List (List (List α))) (hne : groups ≠ [])
    (hg : ∀ g ∈ groups, g ≠ [] ∧ [] ∉ g ∧ ∀ xs ∈ g, SortedAs le desc xs) :
    kmergeNested le desc cin cout groups = kmergeChecked le desc groups.flatten ∧
    kmergeNested le desc cin cout groups
      = some (stableSortAs le desc groups.flatten.flatten, false) := by
  -- every inner merger delivers its stable sort, in frames, without error
  have hinner : ∀ g ∈ groups, (kmergeCheckedFiles le desc cin g).map (kmDeliverFrames cout)
      = some ((kmDeliverFrames cout (stableSortAs le desc g.flatten, false)).1, false) := by
    intro g hgm
    obtain ⟨h1, h2, h3⟩ := hg g hgm
    rw [C14_checked_chunk_invariant le desc cin hcin, C14_checked_eq_stable_sort le hle desc g h1 h2 h3]
    rfl
  have hI : nestedInner le desc cin cout groups
      = groups.map (fun g => some ((kmDeliverFrames cout (stableSortAs le desc g.flatten, false)).1, false)) := by
    unfold nestedInner
    exact List.map_congr_left hinner
  have hD : (nestedInner le desc cin cout groups).filterMap id
      = groups.map (fun g => ((kmDeliverFrames cout (stableSortAs le desc g.flatten, false)).1, false)) := by
    rw [hI, List.filterMap_map]
    have : (id ∘ fun g : List (List α) =>
        some ((kmDeliverFrames cout (stableSortAs le desc g.flatten, false)).1, false))
        = some ∘ (fun g => ((kmDeliverFrames cout (stableSortAs le desc g.flatten, false)).1, false)) := rfl
    rw [this, List.filterMap_eq_map]
  have hins : ((nestedInner le desc cin cout groups).filterMap id).map nestedInput
      = (groups.map (fun g => stableSortAs le desc g.flatten)).map (List.map some) := by
    rw [hD, List.map_map, List.map_map]
    apply List.map_congr_left
    intro g _
    have hfl := (C14_frames_delivered cout hcout (stableSortAs le desc g.flatten, false)).2.2.1 rfl
    simp only [Function.comp, nestedInput]
    rw [hfl]
    simp
  have hflat : kmergeChecked le desc groups.flatten
      = some (stableSortAs le desc groups.flatten.flatten, false) := by
    apply C14_checked_eq_stable_sort le hle desc
    · obtain ⟨g, hgm⟩ := List.exists_mem_of_ne_nil groups hne
      obtain ⟨xs, hxs⟩ := List.exists_mem_of_ne_nil g (hg g hgm).1
      intro h0
      have : xs ∈ groups.flatten := List.mem_flatten.mpr ⟨g, hgm, hxs⟩
      rw [h0] at this; cases this
    · intro h0
      obtain ⟨g, hgm, hx⟩ := List.mem_flatten.mp h0
      exact (hg g hgm).2.1 hx
    · intro xs hxs
      obtain ⟨g, hgm, hx⟩ := List.mem_flatten.mp hxs
      exact (hg g hgm).2.2 xs hx
  have hnest : kmergeNested le desc cin cout groups
      = some (stableSortAs le desc groups.flatten.flatten, false) := by
    unfold kmergeNested
    have hnone : (nestedInner le desc cin cout groups).any Option.isNone = false := by
      rw [hI]; simp
    rw [hnone]
    simp only [Bool.false_eq_true, if_false]
    rw [hins]
    have hstart : ((groups.map (fun g => stableSortAs le desc g.flatten)).map (List.map some)).any
        startsRaised = false := by
      rw [List.any_eq_false]
      intro x hx
      obtain ⟨y, _, rfl⟩ := List.mem_map.mp hx
      cases y <;> simp [startsRaised]
    rw [hstart]
    simp only [Bool.false_eq_true, if_false]
    rw [C14_checked_natural some le (leRaise le desc) (fun _ _ => rfl) desc]
    -- the outer merger on the stably sorted streams
    have hS : kmergeChecked le desc (groups.map (fun g => stableSortAs le desc g.flatten))
        = some (stableSortAs le desc
            (groups.map (fun g => stableSortAs le desc g.flatten)).flatten, false) := by
      apply C14_checked_eq_stable_sort le hle desc
      · simpa using hne
      · intro h0
        obtain ⟨g, hgm, hx⟩ := List.mem_map.mp h0
        obtain ⟨h1, h2, _⟩ := hg g hgm
        have hp := (stableSortAs_perm le desc g.flatten)
        rw [hx] at hp
        have hnil : g.flatten = [] := List.perm_nil.mp hp.symm |>.symm ▸ rfl
        obtain ⟨xs, hxs⟩ := List.exists_mem_of_ne_nil g h1
        cases xs with
        | nil => exact h2 hxs
        | cons x r =>
          have : x ∈ g.flatten := List.mem_flatten.mpr ⟨_, hxs, by simp⟩
          rw [hnil] at this; cases this
      · intro xs hxs
        obtain ⟨g, _, rfl⟩ := List.mem_map.mp hxs
        exact stableSortAs_sorted le hle desc g.flatten
    rw [hS]
    simp only [Option.map_some, filterMap_id_map_some]
    have hp := stableSortAs_pieces le hle desc (groups.map List.flatten)
    rw [List.map_map] at hp
    have hfun : (stableSortAs le desc ∘ List.flatten) = fun g : List (List α) => stableSortAs le desc g.flatten := rfl
    rw [hfun] at hp
    rw [hp, List.flatten_flatten]
  exact ⟨hnest.trans hflat.symm, hnest⟩

/-- stacked mergers never silently produce an unsorted result either: whenever the outer merger
yields anything, `ValueError` is raised exactly when some input of some inner merger is not sorted as
declared; what was yielded up to then (or up to the end) is sorted as declared and consists of
distinct input rows -/
theorem C14_nested_facts (le : α → α → Bool) (hle : TotalPre le) (desc : Bool) (cin cout : Nat)
    (hcin : 0 < cin) (hcout : 0 < cout) (groups : List (List (List α))) (out : List α) (err : Bool)
    (h : kmergeNested le desc cin cout groups = some (out, err)) :
    (err = true ↔ ∃ g ∈ groups, ¬ ∀ xs ∈ g, SortedAs le desc xs) ∧
    SortedAs le desc out ∧ out.Subperm groups.flatten.flatten := by
  let F : List (List α) → Option (List (List α) × Bool) :=
    fun g => (kmergeCheckedFiles le desc cin g).map (kmDeliverFrames cout)
  have hIF : nestedInner le desc cin cout groups = groups.map F := rfl
  have hDF : (nestedInner le desc cin cout groups).filterMap id = groups.filterMap F := by
    rw [hIF, List.filterMap_map]; rfl
  -- what is known about the delivery `d` of the inner merger over `g`
  have hfacts : ∀ g d, F g = some d →
      SortedAs le desc d.1.flatten ∧ d.1.flatten.Subperm g.flatten ∧
      (d.2 = true ↔ ¬ ∀ xs ∈ g, SortedAs le desc xs) ∧
      (d.2 = false → d.1.flatten.Perm g.flatten) := by
    intro g d hF
    simp only [F] at hF
    rw [C14_checked_chunk_invariant le desc cin hcin] at hF
    cases hr : kmergeChecked le desc g with
    | none => rw [hr] at hF; cases hF
    | some r =>
      rw [hr] at hF
      simp only [Option.map_some, Option.some.injEq] at hF
      subst hF
      have e := C14_entry_points_sorted le hle desc cout hcout g r hr
      refine ⟨e.1, e.2.1, e.2.2.2.2.1, ?_⟩
      intro h2
      obtain ⟨o, er⟩ := r
      have her : er = false := h2
      subst her
      have hfl := (C14_frames_delivered cout hcout (o, false)).2.2.1 rfl
      rw [hfl]
      exact C14_checked_perm le hle desc g o hr
  unfold kmergeNested at h
  by_cases hnone : (nestedInner le desc cin cout groups).any Option.isNone = true
  · rw [if_pos hnone] at h; cases h
  · rw [if_neg hnone] at h
    have hall : ∀ g ∈ groups, ∃ d, F g = some d := by
      intro g hgm
      cases hF : F g with
      | some d => exact ⟨d, rfl⟩
      | none =>
        exfalso; apply hnone
        rw [hIF, List.any_eq_true]
        exact ⟨none, List.mem_map.mpr ⟨g, hgm, hF⟩, rfl⟩
    rw [hDF] at h
    have hmemD : ∀ d ∈ groups.filterMap F, ∃ g ∈ groups, F g = some d := by
      intro d hd
      obtain ⟨g, hgm, hF⟩ := List.mem_filterMap.mp hd
      exact ⟨g, hgm, hF⟩
    have hsub : ((groups.filterMap F).map (fun d => d.1.flatten)).flatten.Subperm
        groups.flatten.flatten :=
      flatten_filterMap_subperm F (fun d => d.1.flatten) groups
        (fun g _ d hF => (hfacts g d hF).2.1)
    by_cases hstart : ((groups.filterMap F).map nestedInput).any startsRaised = true
    · rw [if_pos hstart] at h
      simp only [Option.some.injEq, Prod.mk.injEq] at h
      obtain ⟨rfl, rfl⟩ := h
      refine ⟨?_, by cases desc <;> simp [SortedAs, NonIncr], List.nil_subperm⟩
      simp only [true_iff]
      rw [List.any_eq_true] at hstart
      obtain ⟨x, hx, hsr⟩ := hstart
      obtain ⟨d, hd, rfl⟩ := List.mem_map.mp hx
      obtain ⟨g, hgm, hF⟩ := hmemD d hd
      have := (startsRaised_nestedInput d).mp hsr
      exact ⟨g, hgm, ((hfacts g d hF).2.2.1).mp this.2⟩
    · rw [if_neg hstart] at h
      cases hr : kmergeChecked (leRaise le desc) desc ((groups.filterMap F).map nestedInput) with
      | none => rw [hr] at h; cases h
      | some r =>
        rw [hr] at h
        simp only [Option.map_some, Option.some.injEq, Prod.mk.injEq] at h
        obtain ⟨hout, herr⟩ := h
        obtain ⟨o', e'⟩ := r
        simp only at hout herr
        subst hout; subst herr
        have f := checked_facts (leRaise le desc) (leRaise_totalPre hle desc) desc _ o' e' hr
        refine ⟨?_, sortedAs_filterMap_id le desc o' f.2.1, ?_⟩
        · -- error iff some inner merger raised iff some leaf is unsorted
          have hiff : e' = false ↔ ∀ d ∈ groups.filterMap F, d.2 = false := by
            rw [f.1]
            constructor
            · intro hs d hd
              have hsd := hs (nestedInput d) (List.mem_map.mpr ⟨d, hd, rfl⟩)
              cases h2 : d.2 with
              | false => rfl
              | true =>
                exfalso
                have hne : d.1.flatten ≠ [] := by
                  intro h0
                  apply hstart
                  rw [List.any_eq_true]
                  exact ⟨nestedInput d, List.mem_map.mpr ⟨d, hd, rfl⟩,
                    (startsRaised_nestedInput d).mpr ⟨h0, h2⟩⟩
                unfold nestedInput at hsd
                rw [h2] at hsd
                exact not_sortedAs_raise le desc _ hne hsd
            · intro hs x hx
              obtain ⟨d, hd, rfl⟩ := List.mem_map.mp hx
              obtain ⟨g, _, hF⟩ := hmemD d hd
              unfold nestedInput
              rw [hs d hd]
              simpa using (sortedAs_map_some le desc d.1.flatten).mpr (hfacts g d hF).1
          constructor
          · intro he
            have : ¬ ∀ d ∈ groups.filterMap F, d.2 = false := by
              intro hs; have := hiff.mpr hs; rw [he] at this; cases this
            simp only [not_forall] at this
            obtain ⟨d, hd, h2⟩ := this
            obtain ⟨g, hgm, hF⟩ := hmemD d hd
            have h2' : d.2 = true := by cases hd2 : d.2 <;> simp_all
            exact ⟨g, hgm, ((hfacts g d hF).2.2.1).mp h2'⟩
          · rintro ⟨g, hgm, hns⟩
            obtain ⟨d, hF⟩ := hall g hgm
            have hd : d ∈ groups.filterMap F := List.mem_filterMap.mpr ⟨g, hgm, hF⟩
            have h2 : d.2 = true := ((hfacts g d hF).2.2.1).mpr hns
            cases he : e' with
            | true => rfl
            | false =>
              have := hiff.mp he d hd
              rw [h2] at this; cases this
        · -- sub-multiset
          have h1 := subperm_filterMap_id f.2.2.1
          have h2 : (((groups.filterMap F).map nestedInput).flatten).filterMap id
              = ((groups.filterMap F).map (fun d => d.1.flatten)).flatten := by
            rw [List.filterMap_flatten, List.map_map]
            congr 1
            apply List.map_congr_left
            intro d _
            exact nestedInput_filterMap d
          rw [h2] at h1
          exact h1.trans hsub

/-! ## Non-vacuity and evaluation tests -/

/-- hypotheses of `C14_nested_eq_flat`: two groups (one with a single-row input), ties across groups -/
example : ∀ g ∈ [[[((5 : Int), 0), (3, 1)], [(4, 2)]], [[(5, 3), (5, 4), (1, 5)]]],
    g ≠ [] ∧ [] ∉ g ∧ ∀ xs ∈ g, SortedAs c14LeScore true xs := by
  intro g hgm
  simp only [List.mem_cons, List.not_mem_nil, or_false] at hgm
  rcases hgm with rfl | rfl
  · refine ⟨by simp, by simp, ?_⟩
    intro xs hxs
    simp only [List.mem_cons, List.not_mem_nil, or_false] at hxs
    rcases hxs with rfl | rfl <;> simp [SortedAs, NonIncr, c14LeScore]
  · refine ⟨by simp, by simp, ?_⟩
    intro xs hxs
    simp only [List.mem_cons, List.not_mem_nil, or_false] at hxs
    subst hxs; simp [SortedAs, NonIncr, c14LeScore]

-- evaluation tests (compiler-evaluated: *tests*, not theorems); expected values are the outputs of the real
-- stacked mergers on the same inputs
#guard kmergeNested c14LeScore true 1 2 [[[(5, 0), (3, 1)], [(4, 2)]], [[(5, 3), (5, 4), (1, 5)]]]
    == some ([(5, 0), (5, 3), (5, 4), (4, 2), (3, 1), (1, 5)], false)
#guard kmergeNested c14LeScore true 1 2 [[[(5, 0), (3, 1)], [(4, 2)]], [[(5, 3), (5, 4), (1, 5)]]]
    == kmergeChecked c14LeScore true [[(5, 0), (3, 1)], [(4, 2)], [(5, 3), (5, 4), (1, 5)]]
#guard [1, 2, 3].map (fun c => kmergeNested c14LeScore true 1 c [[[(5, 0), (3, 1), (7, 2)], [(4, 3)]], [[(6, 4), (2, 5)]]])
    == [some ([(6, 4), (5, 0), (4, 3), (3, 1)], true), some ([(6, 4), (5, 0), (4, 3)], true),
        some ([(6, 4), (5, 0), (4, 3), (3, 1)], true)]
#guard [1, 2, 3].map (fun c => kmergeNested c14LeScore true 2 c [[[(5, 0), (3, 1)], [(4, 3), (9, 9)]], [[(6, 4), (2, 5)]]])
    == [some ([(6, 4), (5, 0), (4, 3)], true), some ([(6, 4), (5, 0), (4, 3)], true), some ([], true)]
#guard [1, 2, 3].map (fun c => kmergeNested c14LeScore false 2 c [[[(1, 0), (3, 1)], [(2, 3), (0, 9)]], [[(1, 4), (2, 5)]]])
    == [some ([(1, 0), (1, 4), (2, 3)], true), some ([(1, 0), (1, 4), (2, 3)], true), some ([], true)]
#guard kmergeNested c14LeScore true 1 1 [[[(5, 0)]], []] == none

end Mk.Merge
