import MokapotVerif.Lemmas.DetermSeed
import MokapotVerif.Props.C08Rng
/-!
# C08 — seeds that do not travel with `brew`'s generator (second pass)

Model: `Model/Determ.lean` §3 (the cross-validation seed a `PercolatorModel` draws in its constructor,
model.py:430-436, brew.py:109-123; for `model=None` from `brew`'s own generator since the repair of D39) and §4 (the `rng` argument of `assign_confidence` on its way to the two shuffles
of the protein level: confidence.py:813 → 74 → 372-379 → picked_protein.py:56-64, 114, 200-208 → peptides.py:39,
utils.py:33).  The generator, every state, the entropy state of an unseeded generator, schedules, table sizes and
the number of collections are universally quantified.
-/
namespace Mk.Determ
variable {σ ν : Type}

/-! ## the model object: what reaches the fit besides the row permutation -/

/-- **cv_seed_of_built_model**: for a model the caller built from a seed, the seed of the hyper-parameter search's
cross-validation is the first draw of the generator the model was built on — the state of the process' entropy
source does not reach it. -/
theorem C08_cv_seed_of_built_model (G : Gen σ ν) (entropy entropy' s0 m0 : σ) :
    modelCvSeed G entropy s0 (.built m0) = (G.step m0 (Draw.integers 1 1000000)).1 ∧
    modelCvSeed G entropy s0 (.built m0) = modelCvSeed G entropy' s0 (.built m0) := by
  simp [modelCvSeed, percolatorInit]

/-- **default_model_draws_first** (the repaired D39): with `model=None` the cross-validation seed is the FIRST draw
of `brew`'s own generator — a function of the seed — and everything `brew` draws afterwards starts from the state
that draw leaves: the draw sequence of the call is the constructor's request followed by `mainDraws`. -/
theorem C08_default_model_draws_first (G : Gen σ ν) (entropy s0 : σ) (pretrained : Bool) (subsetMax : Option Nat)
    (foldSizes : List (List Nat)) :
    modelCvSeed G entropy s0 .default = (G.step s0 (Draw.integers 1 1000000)).1 ∧
    (runDraws G s0 (mainDrawsOf true pretrained subsetMax foldSizes)).1 =
      modelCvSeed G entropy s0 .default :: (runDraws G (brewStart G s0 .default) (mainDraws pretrained subsetMax foldSizes)).1 ∧
    (runDraws G s0 (mainDrawsOf true pretrained subsetMax foldSizes)).2 =
      (runDraws G (brewStart G s0 .default) (mainDraws pretrained subsetMax foldSizes)).2 ∧
    mainDrawsOf false pretrained subsetMax foldSizes = mainDraws pretrained subsetMax foldSizes := by
  simp [modelCvSeed, brewStart, percolatorInit, mainDrawsOf, defaultModelDraws, runDraws_cons]

/-- **train_inputs_reproducible** (first sentence of C08 for "model coefficients", as far as a theorem carries it):
everything random that reaches the fit of fold `j` — the cross-validation seed and the row permutation — is the
same in any two runs from the same start state, for the default model (`model=None`) as for a model the caller
built from a seed, whatever the process' entropy source returns and in whatever order the workers run.
(Before the repair of D39 this failed for `.default`: `Mutants/Determ.lean: defaultModel_violates`.) -/
theorem C08_train_inputs_reproducible (G : Gen σ ν) (entropy entropy' s0 : σ) (m : ModelArg σ) (subsetMax : Option Nat)
    (foldSizes : List (List Nat)) (sched sched' : List Nat) (j : Nat) (hj : j < nFolds foldSizes)
    (h1 : j ∈ sched) (h2 : j ∈ sched') :
    trainInputs G entropy s0 m subsetMax foldSizes sched j = trainInputs G entropy' s0 m subsetMax foldSizes sched' j := by
  unfold trainInputs
  rw [(C08_brew_worker_independent G (brewStart G s0 m) subsetMax foldSizes sched sched' j hj h1 h2).1]
  cases m <;> rfl

/-- **train_inputs_spec**: … and they are given by a closed formula in the two seeds and the table sizes. -/
theorem C08_train_inputs_spec (G : Gen σ ν) (entropy s0 m0 : σ) (subsetMax : Option Nat)
    (foldSizes : List (List Nat)) (sched : List Nat) (j : Nat) (hj : j < nFolds foldSizes) (h1 : j ∈ sched) :
    trainInputs G entropy s0 (.built m0) subsetMax foldSizes sched j =
      ((G.step m0 (Draw.integers 1 1000000)).1,
       [(G.step (stateAtFits G s0 false subsetMax foldSizes) (Draw.permutation (fitRows subsetMax foldSizes j))).1]) := by
  unfold trainInputs brewStart
  rw [(C08_brew_fold_draws G s0 subsetMax foldSizes sched j hj h1).1, (C08_cv_seed_of_built_model G entropy entropy s0 m0).1]

/-- **train_inputs_spec_default**: the same closed formula for `model=None`: the cross-validation seed is the first
draw from the start state, the permutation is drawn after the constructor's draw, the fold shuffles and the
sub-sampling draws. -/
theorem C08_train_inputs_spec_default (G : Gen σ ν) (entropy s0 : σ) (subsetMax : Option Nat)
    (foldSizes : List (List Nat)) (sched : List Nat) (j : Nat) (hj : j < nFolds foldSizes) (h1 : j ∈ sched) :
    trainInputs G entropy s0 .default subsetMax foldSizes sched j =
      ((G.step s0 (Draw.integers 1 1000000)).1,
       [(G.step (stateAtFits G (G.step s0 (Draw.integers 1 1000000)).2 false subsetMax foldSizes)
          (Draw.permutation (fitRows subsetMax foldSizes j))).1]) := by
  unfold trainInputs
  rw [(C08_brew_fold_draws G (brewStart G s0 .default) subsetMax foldSizes sched j hj h1).1]
  rfl

/-- **shared_generator_order**: `g = default_rng(seed); brew(psms, PercolatorModel(rng=g), rng=g)` — one generator
for both: the constructor's draw comes first, `brew` then starts from the state it leaves. -/
theorem C08_shared_generator_order (G : Gen σ ν) (s0 : σ) (ds : List Draw) :
    (runDraws G s0 (Draw.integers 1 1000000 :: ds)).1 =
      (percolatorInit G s0).1 :: (runDraws G (percolatorInit G s0).2 ds).1 := by
  simp [runDraws_cons, percolatorInit]

/-! ## the seed argument of `assign_confidence` -/

/-- **int_seed_restarts_every_shuffle**: with an int seed every shuffle of a confidence run — `match_decoy`'s and
`groupby_max`'s, of every collection — is the FIRST draw of a generator in the state the seed determines; in
particular the two shuffles of one collection start from the same state. -/
theorem C08_int_seed_restarts_every_shuffle (G : Gen σ ν) (init s : σ) (hasDecoys : Bool) (nTargets : Nat)
    (rows : List Nat) :
    (runSeeded G (.seed init) s (confDraws hasDecoys nTargets rows)).1 =
      (confDraws hasDecoys nTargets rows).map (fun d => (G.step init d).1) ∧
    (runSeeded G (.seed init) s (confDraws hasDecoys nTargets rows)).2 = s := by
  rw [runSeeded_seed]
  exact ⟨rfl, rfl⟩

/-- **int_seed_collections_independent**: with an int seed the shuffles of a collection are those of an analysis of
that collection alone — whatever collections come before or after it in the same call, and whatever state any
generator of the process is in (an earlier analysis in the same process leaves nothing behind). -/
theorem C08_int_seed_collections_independent (G : Gen σ ν) (init s s' : σ) (hasDecoys : Bool) (nTargets : Nat)
    (before after : List Nat) (r : Nat) :
    (runSeeded G (.seed init) s (confDraws hasDecoys nTargets (before ++ [r] ++ after))).1 =
      (runSeeded G (.seed init) s (confDraws hasDecoys nTargets before)).1 ++
      (runSeeded G (.seed init) s' (confDraws hasDecoys nTargets [r])).1 ++
      (runSeeded G (.seed init) s (confDraws hasDecoys nTargets after)).1 := by
  simp [runSeeded_seed, confDraws, List.flatMap_append]

/-- **generator_threaded_through_collections**: with a Generator object the shuffles are consecutive draws on the
caller's generator: collection after collection, `match_decoy` before `groupby_max`; a further collection starts
in the state the earlier ones leave and does not change what they drew. -/
theorem C08_generator_threaded_through_collections (G : Gen σ ν) (s : σ) (hasDecoys : Bool) (nTargets : Nat)
    (rows : List Nat) (r : Nat) :
    runSeeded G .gen s (confDraws hasDecoys nTargets rows) = runDraws G s (confDraws hasDecoys nTargets rows) ∧
    (runSeeded G .gen s (confDraws hasDecoys nTargets (rows ++ [r]))).1 =
      (runSeeded G .gen s (confDraws hasDecoys nTargets rows)).1 ++
      (runSeeded G .gen (runSeeded G .gen s (confDraws hasDecoys nTargets rows)).2 (protDraws hasDecoys nTargets r)).1 := by
  refine ⟨runSeeded_gen G s _, ?_⟩
  simp [runSeeded_gen, runDraws_append', confDraws]

/-- **repeat_same_seed_same_shuffles** (the first sentence of C08 for the protein level): two confidence runs with
the same seed argument — the same int, or two generators in the same state — make the same shuffles, whatever
else happened in the process in between. -/
theorem C08_repeat_same_seed_same_shuffles (G : Gen σ ν) (init s s' : σ) (ds : List Draw) :
    (runSeeded G (.seed init) s ds).1 = (runSeeded G (.seed init) s' ds).1 ∧
    (runSeeded G .gen s ds).1 = (runDraws G s ds).1 := by
  simp [runSeeded_seed, runSeeded_gen]

/-- **fasta_with_decoys_one_shuffle**: a FASTA that holds the decoys needs no pairing: one shuffle per
collection (the tie-breaking one of `groupby_max`), two with a target-only FASTA — the pairing first. -/
theorem C08_fasta_with_decoys_one_shuffle (nTargets : Nat) (rows : List Nat) :
    confDraws true nTargets rows = rows.map (fun n => Draw.choice n n) ∧
    confDraws false nTargets rows = rows.flatMap (fun n => [Draw.choice nTargets nTargets, Draw.choice n n]) := by
  unfold confDraws protDraws
  constructor
  · have h : ∀ l : List Nat, l.flatMap (fun n => [Draw.choice n n]) = l.map (fun n => Draw.choice n n) := by
      intro l
      induction l with
      | nil => rfl
      | cons a r ih => rw [List.flatMap_cons, ih]; rfl
    simpa using h rows
  · simp

/-! ## non-vacuity and tests -/

example : confDraws false 7 [5, 3] = [.choice 7 7, .choice 5 5, .choice 7 7, .choice 3 3] := by decide
example : confDraws true 7 [5, 3] = [.choice 5 5, .choice 3 3] := by decide

/-- the toy generator tells the two forms of the seed argument apart: an int repeats the pairing shuffle, a
generator moves on -/
example : (runSeeded toyGen (.seed 7) 100 (confDraws false 4 [5, 3])).1 = [7, 7, 7, 7] := by decide
example : (runSeeded toyGen .gen 7 (confDraws false 4 [5, 3])).1 = [7, 31, 105, 325] := by decide
example : (runSeeded toyGen .gen 7 (confDraws false 4 [5, 3])).2 = 983 := by decide

example : trainInputs toyGen 99 7 (.built 5) none [[4, 3, 3]] [2, 0, 1] 0
    = trainInputs toyGen 12345 7 (.built 5) none [[4, 3, 3]] [0, 1, 2] 0 := by decide

example : trainInputs toyGen 99 7 .default none [[4, 3, 3]] [2, 0, 1] 0
    = trainInputs toyGen 12345 7 .default none [[4, 3, 3]] [0, 1, 2] 0 := by decide

example : mainDrawsOf true false none [[2, 1], [3]] = [.integers 1 1000000, .shuffle 2, .shuffle 1, .shuffle 3] := by decide

#guard (trainInputs toyGen 99 7 (.built 5) none [[4, 3, 3]] [2, 0, 1] 0).1 == 5

end Mk.Determ
