import MokapotVerif.Lemmas.CalibrateScale
import MokapotVerif.Props.C11Gate
/-!
# C11 (second audit pass) — the calibrated scores do not depend on the scale and offset of a
fold model's output

"… the lowest-scoring target accepted at the evaluation FDR maps to 0 and the median decoy to
−1, *which is what makes scores from different folds comparable*."  A fold's estimator is only
determined up to a positive affine map of its decision function (margin scale and intercept of
an SVM differ from fold to fold).  `Props/C11Gate.lean` states where the two marks 0 and −1
lie in every fold; the theorems here state the comparability at full strength: replacing the
output `s` of any fold model by `a·s + b` with `a > 0` — a different `(a, b)` for every fold —
changes *nothing* in what `calibrate_scores` / `_predict` / `brew` return, neither the scores
nor whether and with which error the run stops.  A guard such as `np.isclose(t, d)` or an
`eps` in the denominator is not scale-free and is refuted in `Mutants/CalibrateScale.lean`.
-/
namespace Mk.Calibrate

/-! ## One calibration -/

/-- `calibrate_scores(a·scores + b, targets, eval_fdr, desc)` = `calibrate_scores(scores, …)`
for every `a > 0`, `b`: same scores row by row, same `inf`/`nan` entries outside the
quantifier, same error when no target is accepted.  Unbounded, both directions, every
threshold. -/
theorem C11_calib_rescale_invariant (desc : Bool) (thr a b : Rat) (ha : 0 < a) (xs : List (Rat × Bool)) :
    calibrate desc thr (rescaleRows a b xs) = calibrate desc thr xs :=
  calibrate_rescale desc thr a b ha xs

/-- the anchors move with the scores: `t` is the lowest accepted target of `xs` iff `a·t + b`
is the lowest accepted target of the re-scaled input, and likewise for the decoy median —
the acceptance decisions themselves (q-values) are untouched. -/
theorem C11_anchors_rescale (desc : Bool) (thr a b : Rat) (ha : 0 < a) (xs : List (Rat × Bool)) (t m : Rat)
    (ht : IsLeastOf (accepted desc thr xs) t) (hm : IsMedianOf (decoys xs) m) :
    IsLeastOf (accepted desc thr (rescaleRows a b xs)) (rescale a b t) ∧
    IsMedianOf (decoys (rescaleRows a b xs)) (rescale a b m) ∧
    (m < t ↔ rescale a b m < rescale a b t) := by
  refine ⟨?_, ?_, (rescale_strictMono a b ha).lt_iff_lt.symm⟩
  · rw [accepted_rescale desc thr a b ha]
    exact isLeastOf_map (rescale_strictMono a b ha) ht
  · rw [decoys_rescale]
    exact isMedianOf_rescale a b ha hm

/-- Calibration is idempotent inside the quantifier: calibrating the returned scores again
(same targets, same threshold) returns them unchanged — the returned scores already carry
their own anchors 0 and −1. -/
theorem C11_calib_idempotent (desc : Bool) (thr : Rat) (xs : List (Rat × Bool)) (t m : Rat)
    (ht : IsLeastOf (accepted desc thr xs) t) (hm : IsMedianOf (decoys xs) m) (htm : m < t) :
    calibrate desc thr (xs.map (fun x => (calF t m x.1, x.2))) =
      Except.ok (xs.map (fun x => XR.fin (calF t m x.1))) := by
  have hpos : (0 : Rat) < 1 / (t - m) := by
    apply div_pos one_pos
    linarith
  have hmap : xs.map (fun x => (calF t m x.1, x.2)) = rescaleRows (1 / (t - m)) (-t / (t - m)) xs := by
    unfold rescaleRows
    apply List.map_congr_left
    intro x _
    rw [calF_affine]
    rfl
  rw [hmap, calibrate_rescale desc thr _ _ hpos, C11_calib_eq_formula desc thr xs t m ht hm (ne_of_gt htm)]

/-! ## `_predict` / `brew` -/

/-- **Scores of different folds are comparable.**  Give every fold model its own positive scale
`A f` and offset `B f` (folds whose estimator has no decision function are not calibrated, so
their output is left as it is: `A f = 1`, `B f = 0`).  `_predict` returns exactly the same
thing — every score of every row, or the same error — for every prediction chunk size, any
mixture of estimators, every threshold. -/
theorem C11_gate_rescale_invariant (c : Nat) (dfs : List Bool) (thr : Rat) (rows : List FRow)
    (A B : Nat → Rat) (hc : 1 ≤ c) (hA : ∀ f, 0 < A f)
    (hid : ∀ f (hf : f < dfs.length), dfs[f] = false → A f = 1 ∧ B f = 0) :
    predictFoldsDF c dfs thr (rescaleFolds A B rows) = predictFoldsDF c dfs thr rows :=
  predictFoldsDF_rescale c dfs thr rows A B hc hA hid

/-- the same for the model in which every estimator exposes a decision function (the
property's own quantifier): arbitrary positive scales and offsets per fold. -/
theorem C11_fold_rescale_invariant (c k : Nat) (thr : Rat) (rows : List FRow) (A B : Nat → Rat)
    (hc : 1 ≤ c) (hA : ∀ f, 0 < A f) :
    predictFolds c k thr (rescaleFolds A B rows) = predictFolds c k thr rows := by
  rw [← C11_gate_all_decision_functions, ← C11_gate_all_decision_functions]
  apply predictFoldsDF_rescale c _ thr rows A B hc hA
  intro f hf hfalse
  simp at hfalse

/-- ... and for a run over several collections (the same fold models score every
collection, so the same `(A f, B f)` apply to all of them). -/
theorem C11_colls_rescale_invariant (c : Nat) (dfs : List Bool) (thr : Rat) (colls : List (List FRow))
    (A B : Nat → Rat) (hc : 1 ≤ c) (hA : ∀ f, 0 < A f)
    (hid : ∀ f (hf : f < dfs.length), dfs[f] = false → A f = 1 ∧ B f = 0) :
    predictColls c dfs thr (colls.map (rescaleFolds A B)) = predictColls c dfs thr colls := by
  unfold predictColls
  rw [mapE_map]
  apply mapE_congr
  intro rows _
  exact predictFoldsDF_rescale c dfs thr rows A B hc hA hid

/-- Consequence, stated on rows: two rows of *different* folds whose models' outputs are
related to a common underlying score `u` by different positive affine maps
(`rawᵢ = aᵢ·u(i) + bᵢ`), in folds whose anchors sit at the same underlying values `t`, `m`
(`m < t`), receive the calibrated score `(u − t)/(t − m)` of the underlying value — so they
are ordered by `u`, although their raw outputs are on different scales. -/
theorem C11_rows_ordered_by_underlying (c : Nat) (dfs : List Bool) (thr : Rat) (rows : List FRow) (out : List XR)
    (hc : 1 ≤ c) (h : predictFoldsDF c dfs thr rows = Except.ok out)
    (i j : Nat) (hi : i < rows.length) (hj : j < rows.length)
    (hfi : rows[i].fold < dfs.length) (hfj : rows[j].fold < dfs.length)
    (hdi : dfs[rows[i].fold] = true) (hdj : dfs[rows[j].fold] = true)
    (ai bi aj bj t m ui uj : Rat) (hai : 0 < ai) (haj : 0 < aj) (htm : m < t)
    (hti : IsLeastOf (accepted true thr (foldOf rows[i].fold rows)) (rescale ai bi t))
    (hmi : IsMedianOf (decoys (foldOf rows[i].fold rows)) (rescale ai bi m))
    (htj : IsLeastOf (accepted true thr (foldOf rows[j].fold rows)) (rescale aj bj t))
    (hmj : IsMedianOf (decoys (foldOf rows[j].fold rows)) (rescale aj bj m))
    (hui : rows[i].raw = rescale ai bi ui) (huj : rows[j].raw = rescale aj bj uj) :
    out[i]? = some (XR.fin (calF t m ui)) ∧ out[j]? = some (XR.fin (calF t m uj)) ∧
      (ui < uj ↔ calF t m ui < calF t m uj) := by
  have key : ∀ a b u : Rat, 0 < a → calF (rescale a b t) (rescale a b m) (rescale a b u) = calF t m u := by
    intro a b u ha
    unfold calF
    rw [rescale_sub, rescale_sub, mul_div_mul_left _ _ ha.ne']
  have hne : ∀ a b : Rat, 0 < a → rescale a b t ≠ rescale a b m :=
    fun a b ha => ne_of_gt ((rescale_strictMono a b ha) htm)
  have hA := (C11_gate_row_formula c dfs thr rows out hc h i hi hfi).1 hdi _ _ hti hmi (hne ai bi hai)
  have hB := (C11_gate_row_formula c dfs thr rows out hc h j hj hfj).1 hdj _ _ htj hmj (hne aj bj haj)
  rw [hui, key ai bi ui hai] at hA
  rw [huj, key aj bj uj haj] at hB
  exact ⟨hA, hB, (calF_strictMono t m htm).lt_iff_lt.symm⟩

/-! ## Non-vacuity and evaluation tests -/

/-- the hypotheses are satisfiable and the statement is not trivial: `exRows` (targets 5, 4
accepted at 1/2, `t = 4`, `m = 2`) re-scaled by `s ↦ 3·s − 7` has anchors 5 and −1 -/
example : IsLeastOf (accepted true (1/2) (rescaleRows 3 (-7) exRows)) 5 ∧
    IsMedianOf (decoys (rescaleRows 3 (-7) exRows)) (-1) ∧ rescaleRows 3 (-7) exRows ≠ exRows := by
  have h := C11_anchors_rescale true (1/2) 3 (-7) (by norm_num) exRows 4 2
    (minList_isLeast (by decide +kernel))
    ⟨1, 3, ⟨by decide +kernel, by decide +kernel, by decide +kernel⟩,
      ⟨by decide +kernel, by decide +kernel, by decide +kernel⟩, by norm_num⟩
  refine ⟨?_, ?_, by decide +kernel⟩
  · have := h.1; norm_num [rescale] at this; exact this
  · have := h.2.1; norm_num [rescale] at this; exact this

/-- per-fold scales: fold 0 by `2·s + 10`, fold 1 by `s/4 − 3`; all scales positive -/
def exA (f : Nat) : Rat := if f = 0 then 2 else 1/4
def exB (f : Nat) : Rat := if f = 0 then 10 else -3

example : (∀ f, 0 < exA f) ∧
    (rescaleFolds exA exB exFolds).map (fun r => r.raw) ≠ exFolds.map (fun r => r.raw) := by
  refine ⟨fun f => ?_, by decide +kernel⟩
  unfold exA; split <;> norm_num

#guard (match calibrate true (1/2) (rescaleRows 3 (-7) exRows), calibrate true (1/2) exRows with
  | Except.ok v, Except.ok w => v == w | _, _ => false)
#guard (match calibrate false 1 (rescaleRows (1/1024) 5 [(1, true), (2, true), (3, false), (5, false)]),
    calibrate false 1 [(1, true), (2, true), (3, false), (5, false)] with
  | Except.ok v, Except.ok w => v == w | _, _ => false)
#guard (match calibrate true 1 (rescaleRows 3 (-7) exRows), calibrate true 1 exRows with
  | Except.ok v, Except.ok w => v == w && v.contains XR.pinf | _, _ => false)
#guard (match calibrate true (1/4) (rescaleRows 3 (-7) exRows) with
  | Except.error CalErr.noPositive => true | _ => false)
#guard (match predictFolds 2 2 1 (rescaleFolds exA exB exFolds), predictFolds 2 2 1 exFolds with
  | Except.ok v, Except.ok w => v == w | _, _ => false)
#guard (match predictFoldsDF 2 [true, false] 1 (rescaleFolds exA (fun f => if f = 0 then 10 else 0)
      (rescaleFolds (fun _ => 1) (fun _ => 0) exFolds)), predictFoldsDF 2 [true, false] 1 exFolds with
  | Except.ok v, Except.ok w => v != w | _, _ => false)   -- a fold without decision function is NOT scale-free
#guard (match predictFoldsDF 2 [true, false] 1 (rescaleFolds (fun f => if f = 0 then 2 else 1)
      (fun f => if f = 0 then 10 else 0) exFolds), predictFoldsDF 2 [true, false] 1 exFolds with
  | Except.ok v, Except.ok w => v == w | _, _ => false)

end Mk.Calibrate
