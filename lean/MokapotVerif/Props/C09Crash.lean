import MokapotVerif.Lemmas.FsRunCrash
import MokapotVerif.Props.C09Ext
/-!
# C09 (third pass) — leftovers *next to the input*: runs interrupted inside the verify step

`Props/C09Ext.lean` proves the command line run independent of everything in the destination and
input directory **given that both directories hold the same PIN files** and with the branch of the
verify step (`needs j`) as a parameter.  The quantifier of the property also ranges over earlier
runs that failed *inside the command line's own conversion*: they leave `<pin>.tsv` partly
written next to the input, or have already moved it over the input — so the PIN file itself is no
longer what the user wrote and `C09_climain_independent` does not apply.  The theorems here close
that case, unbounded in the number of files, lines, earlier runs and for every cut point:

* the branch is read off the file (`needsOf`), the loop is sequential and content-driven
  (`verifyLoopC`); it *is* the operation list of `C09Ext` (`C09_verify_loop_is_ops`);
* the conversion at the granularity of single `write` calls is that step
  (`C09_micro_complete_is_step`);
* whatever prefix of whatever sequence of earlier command line runs was executed, every PIN file
  holds the user's content or its complete conversion (`C09_interrupted_runs_keep_inputs`) — the
  only hypotheses: the converter's output is accepted by `is_valid_tsv` (`C19_output_valid`,
  `C19_verify_step`) and the analysis writes no PIN file;
* the observed run then gives the results, the saved models and the (converted) input files of a
  run in a clean directory, and no `<pin>.tsv` of a converted file remains
  (`C09_climainC_after_interrupted_runs`); the content of a stale `<pin>.tsv` — torn, truncated,
  junk — never matters (`C09_stale_tsv_content_irrelevant`).

What the hypotheses exclude, with witnesses in `Mutants/FsRunCrash.lean`: a `<pin>.tsv` taken for
up to date because it exists (seeded change C09e), and a move that is not atomic (copy, then
delete — `shutil.move` across file systems; `<pin>.tsv` is created in the directory of the PIN, so
the code's move is a rename).
-/
namespace Mk.FsRun

section loop
variable (valid : List Nat → Bool) (cv : List Nat → List Nat)

/-- **Refinement.** The verify loop that decides each file from the content it has when its turn
comes is the operation list `verifyAll` of `Model/FsRunExt.lean` with `needs j` read off the initial
directory — for every number of files, every directory, every converter. -/
theorem C09_verify_loop_is_ops (nf : Nat) (fs : FS) (outs : Outs) :
    verifyLoopC valid cv (List.range nf) (fs, outs)
      = exec fs outs (verifyAll true nf (needsOf valid fs) (convOf cv)) := by
  rw [verifyLoopC_eq_exec valid cv _ List.nodup_range]
  simp [verifyAll]

/-- After the loop every PIN file holds the normal form of what it held before — itself when it is
a valid table, the conversion of *that file* otherwise —, a converted file's `.tsv` does not exist,
and whatever `.tsv` files, chunk, level, result or model files the directory held plays no part. -/
theorem C09_verify_loop_normalises (nf : Nat) (fs : FS) (outs : Outs) (j : Nat) (hj : j < nf)
    (y : List Nat) (hy : FS.get fs (.pin j) = some y) :
    FS.get (verifyLoopC valid cv (List.range nf) (fs, outs)).1 (.pin j)
      = some (normPin valid cv y) ∧
    (valid y = false →
      FS.get (verifyLoopC valid cv (List.range nf) (fs, outs)).1 (.pinTsv j) = none) := by
  obtain ⟨h1, h2⟩ := verifyLoopC_pin valid cv (List.range nf) List.nodup_range (fs, outs) j
    (List.mem_range.mpr hj)
  have hc : FS.content fs (.pin j) = y := by simp [FS.content, hy]
  simp only [hc] at h1 h2
  constructor
  · rw [h1, hy]; unfold normPin; split <;> rfl
  · intro hv; rw [h2]; simp [hv]

/-- The loop touches PIN files and their `.tsv` only. -/
theorem C09_verify_loop_frame (nf : Nat) (fs : FS) (outs : Outs) (n : Name)
    (hn : notPinName n = true) :
    FS.get (verifyLoopC valid cv (List.range nf) (fs, outs)).1 n = FS.get fs n := by
  apply verifyLoopC_frame
  intro j _
  constructor <;> (intro e; subst e; simp [notPinName] at hn)

/-- **The content of a stale `<pin>.tsv` never matters** (junk, a torn or truncated conversion, the
complete conversion of another file): two directories that differ only in `.tsv` files give the
same PIN files after the loop. -/
theorem C09_stale_tsv_content_irrelevant (nf : Nat) (fs₁ fs₂ : FS) (outs₁ outs₂ : Outs)
    (h : ∀ j, j < nf → FS.get fs₁ (.pin j) = FS.get fs₂ (.pin j)) (j : Nat) (hj : j < nf) :
    FS.get (verifyLoopC valid cv (List.range nf) (fs₁, outs₁)).1 (.pin j)
      = FS.get (verifyLoopC valid cv (List.range nf) (fs₂, outs₂)).1 (.pin j) := by
  obtain ⟨h1, _⟩ := verifyLoopC_pin valid cv (List.range nf) List.nodup_range (fs₁, outs₁) j
    (List.mem_range.mpr hj)
  obtain ⟨h2, _⟩ := verifyLoopC_pin valid cv (List.range nf) List.nodup_range (fs₂, outs₂) j
    (List.mem_range.mpr hj)
  rw [h1, h2]
  simp only [content_congr (h j hj), h j hj]

end loop

section micro
variable (valid : List Nat → Bool) (lines : List Nat → List (List Nat))

/-- **Write granularity = the step.** `open(path_tsv, "w")`, one `write` per line, then the move:
the directory afterwards is, name by name, the one the single truncating write of the operation
list gives — for every number of lines. -/
theorem C09_micro_complete_is_step (fs : FS) (outs : Outs) (j : Nat) (n : Name) :
    FS.get (exec fs outs (verifyMicro valid lines fs j)).1 n
      = FS.get (verifyStepC valid (cvOf lines) (fs, outs) j).1 n := by
  rw [exec_verifyMicro_get, verifyStepC_get]

/-- **Every cut point of every earlier command line run.** Start from any directory in which the
files `j < nf` hold the user's content `x j`; let any sequence of earlier command line runs
execute — each over any number of files, followed by any operations that write no PIN file (its
analysis, with any options), each cut off after an arbitrary number `m` of file operations (inside
the conversion between two `write` calls, before or after the move, during the analysis, or not at
all).  Then every PIN file still exists and holds either the user's content or — only for a file
that needs conversion — its *complete* conversion, and in that case its `.tsv` is gone.  Never a
prefix, never a mixture. -/
theorem C09_interrupted_runs_keep_inputs (hv : ∀ y, valid (cvOf lines y) = true)
    (x : Nat → List Nat) (nf : Nat) (fs₀ : FS)
    (h0 : ∀ j, j < nf → FS.get fs₀ (.pin j) = some (x j))
    (es : List Earlier) (hes : ∀ e ∈ es, ∀ n ∈ writes e.rest, notPinName n = true)
    (j : Nat) (hj : j < nf) :
    ∃ y, FS.get (crashRuns valid lines fs₀ es) (.pin j) = some y ∧
      (y = x j ∨ (valid (x j) = false ∧ y = cvOf lines (x j) ∧
        FS.get (crashRuns valid lines fs₀ es) (.pinTsv j) = none)) :=
  crashRuns_inv valid lines hv x nf es hes fs₀ (fun j hj => ⟨x j, h0 j hj, Or.inl rfl⟩) j hj

end micro

section main
variable (valid : List Nat → Bool) (cv : List Nat → List Nat)
  (nf : Nat) (prot : Bool) (nl : Nat) (decoys : Bool) (colls : List Coll)
  (nm : Nat) (mdl : Nat → Outs → List Nat)

/-- **The results depend on the normal form of the inputs only.** Two directories in which every
PIN file holds the user's content or its complete conversion (the invariant `PinInv`) give the same
values read by the analysis, the same final PIN files — the normal form of the user's content —,
the same result files of every collection and level and the same saved models; no `.tsv` of a
converted file remains. -/
theorem C09_climainC_depends_on_normal_form_only (hv : ∀ y, valid (cv y) = true)
    (hp : prot = true → 2 ≤ nl) (x : Nat → List Nat) (fs₁ fs₂ : FS)
    (h1 : PinInv valid cv x nf fs₁) (h2 : PinInv valid cv x nf fs₂) :
    let r₁ := cliMainC valid cv true nf prot nl decoys colls nm mdl fs₁
    let r₂ := cliMainC valid cv true nf prot nl decoys colls nm mdl fs₂
    r₁.2 = r₂.2 ∧
    (∀ j, j < nf → FS.get r₁.1 (.pin j) = some (normPin valid cv (x j)) ∧
      FS.get r₂.1 (.pin j) = some (normPin valid cv (x j))) ∧
    (∀ j, j < nf → valid (x j) = false →
      FS.get r₁.1 (.pinTsv j) = none ∧ FS.get r₂.1 (.pinTsv j) = none) ∧
    (∀ c ∈ colls, ∀ l, l < nlp prot nl →
      FS.get r₁.1 (targetOf c.pfx l) = FS.get r₂.1 (targetOf c.pfx l)) ∧
    (decoys = true → ∀ c ∈ colls, ∀ l, l < nlp prot nl →
      FS.get r₁.1 (decoyOf c.pfx l) = FS.get r₂.1 (decoyOf c.pfx l)) ∧
    (∀ i, i < nm → FS.get r₁.1 (.model i) = FS.get r₂.1 (.model i)) := by
  intro r₁ r₂
  have hl1 := loop_of_inv valid cv hv x nf fs₁ [] h1
  have hl2 := loop_of_inv valid cv hv x nf fs₂ [] h2
  have hag : ∀ j, j < nf →
      FS.get (verifyLoopC valid cv (List.range nf) (fs₁, [])).1 (.pin j)
        = FS.get (verifyLoopC valid cv (List.range nf) (fs₂, [])).1 (.pin j) := by
    intro j hj
    rw [(hl1 j hj).1, (hl2 j hj).1]
  obtain ⟨ho, _, ht, hd, hm⟩ := C09_climain_independent false nf (fun _ => false)
    (fun _ _ => []) prot nl decoys colls nm mdl hp _ _ [] hag
  have hfr : ∀ (fs : FS) (n : Name), notPinName n = false →
      FS.get (cliMainC valid cv true nf prot nl decoys colls nm mdl fs).1 n
        = FS.get (verifyLoopC valid cv (List.range nf) (fs, [])).1 n := by
    intro fs n hn
    simp only [cliMainC, if_true]
    apply exec_frame
    intro hw
    rw [writes_cliTail nf prot nl decoys colls nm mdl hw] at hn
    exact absurd hn (by simp)
  refine ⟨ho, ?_, ?_, ht, hd, hm⟩
  · intro j hj
    exact ⟨by rw [hfr fs₁ _ rfl]; exact (hl1 j hj).1, by rw [hfr fs₂ _ rfl]; exact (hl2 j hj).1⟩
  · intro j hj hvx
    exact ⟨by rw [hfr fs₁ _ rfl]; exact (hl1 j hj).2 hvx,
      by rw [hfr fs₂ _ rfl]; exact (hl2 j hj).2 hvx⟩

variable (lines : List Nat → List (List Nat))

/-- **The property for leftovers next to the input.**  The user's PIN files hold `x j`.  In one
world any sequence of earlier command line runs (any file sets, any options) was executed in the
input and destination directory, each failing or interrupted at an arbitrary file operation —
between two `write` calls of the conversion, before or after the move, during the analysis — or
completing; in the other world the directory is any directory holding the user's files (for
instance nothing else).  The observed command line run gives in both worlds: the same values read
by the analysis, the same result files, the same saved models; the user's input files end up as the
conversion of *their own* content (or untouched when valid) — never as a leftover, a prefix or a
mixture —, and no `<pin>.tsv` of a converted file remains. -/
theorem C09_climainC_after_interrupted_runs (hv : ∀ y, valid (cvOf lines y) = true)
    (hp : prot = true → 2 ≤ nl) (x : Nat → List Nat) (fs₀ clean : FS)
    (h0 : ∀ j, j < nf → FS.get fs₀ (.pin j) = some (x j))
    (hc : ∀ j, j < nf → FS.get clean (.pin j) = some (x j))
    (es : List Earlier) (hes : ∀ e ∈ es, ∀ n ∈ writes e.rest, notPinName n = true) :
    let r₁ := cliMainC valid (cvOf lines) true nf prot nl decoys colls nm mdl
      (crashRuns valid lines fs₀ es)
    let r₂ := cliMainC valid (cvOf lines) true nf prot nl decoys colls nm mdl clean
    r₁.2 = r₂.2 ∧
    (∀ j, j < nf → FS.get r₁.1 (.pin j) = some (normPin valid (cvOf lines) (x j)) ∧
      FS.get r₂.1 (.pin j) = some (normPin valid (cvOf lines) (x j))) ∧
    (∀ j, j < nf → valid (x j) = false →
      FS.get r₁.1 (.pinTsv j) = none ∧ FS.get r₂.1 (.pinTsv j) = none) ∧
    (∀ c ∈ colls, ∀ l, l < nlp prot nl →
      FS.get r₁.1 (targetOf c.pfx l) = FS.get r₂.1 (targetOf c.pfx l)) ∧
    (decoys = true → ∀ c ∈ colls, ∀ l, l < nlp prot nl →
      FS.get r₁.1 (decoyOf c.pfx l) = FS.get r₂.1 (decoyOf c.pfx l)) ∧
    (∀ i, i < nm → FS.get r₁.1 (.model i) = FS.get r₂.1 (.model i)) :=
  C09_climainC_depends_on_normal_form_only valid (cvOf lines) nf prot nl decoys colls nm mdl hv hp x
    _ _ (crashRuns_inv valid lines hv x nf es hes fs₀ (fun j hj => ⟨x j, h0 j hj, Or.inl rfl⟩))
    (fun j hj => ⟨x j, hc j hj, Or.inl rfl⟩)

/-- The analysis of a command line run (reading the PIN files, `assign_confidence` over any
collections, saving models) writes no PIN file and no `<pin>.tsv`: it is an admissible `rest` of an
earlier run in the theorems above. -/
theorem C09_analysis_writes_no_input (n : Name)
    (h : n ∈ writes (cliTail nf prot nl decoys colls nm mdl)) : notPinName n = true :=
  writes_cliTail nf prot nl decoys colls nm mdl h

/-- A second run over its own output changes nothing: run twice = run once (PIN files), for any
directory. -/
theorem C09_verify_loop_idempotent (hv : ∀ y, valid (cv y) = true) (fs : FS) (outs outs' : Outs)
    (j : Nat) (hj : j < nf) (y : List Nat) (hy : FS.get fs (.pin j) = some y) :
    FS.get (verifyLoopC valid cv (List.range nf)
        ((verifyLoopC valid cv (List.range nf) (fs, outs)).1, outs')).1 (.pin j)
      = FS.get (verifyLoopC valid cv (List.range nf) (fs, outs)).1 (.pin j) := by
  have h1 := (C09_verify_loop_normalises valid cv nf fs outs j hj y hy).1
  rw [(C09_verify_loop_normalises valid cv nf _ outs' j hj _ h1).1, h1]
  congr 1
  unfold normPin
  by_cases h : valid y = true
  · simp [h]
  · simp [h, hv]

end main

/-! ## non-vacuity and compiler-evaluated tests -/

/-- two files, the first needs conversion (3 lines), the second is a valid table; debris of an
earlier run cut after 5 operations (two lines written), plus a stale `.tsv` of the valid file and
unrelated leftovers -/
def crashDirty : FS :=
  crashRun demoValid demoLines
    (demoPins [(false, 3), (true, 0)] ++ [(.pinTsv 1, [666]), (.chunk 0, [667]), (.target 0, [668])])
    ⟨2, [], 5⟩

example : FS.get crashDirty (.pinTsv 0) = some [100, 102] ∧
    FS.get crashDirty (.pin 0) = some [11, 3] := by decide

/-- the hypotheses of `C09_climainC_after_interrupted_runs` are satisfiable, non-trivially -/
example : ∃ (x : Nat → List Nat) (fs₀ : FS) (es : List Earlier),
    (∀ y, demoValid (cvOf demoLines y) = true) ∧
    (∀ j, j < 2 → FS.get fs₀ (.pin j) = some (x j)) ∧
    (∀ e ∈ es, ∀ n ∈ writes e.rest, notPinName n = true) ∧
    demoValid (x 0) = false ∧ crashRuns demoValid demoLines fs₀ es ≠ fs₀ :=
  ⟨fun j => if j = 0 then [11, 3] else [12, 0], demoPins [(false, 3), (true, 0)],
    [⟨2, cliTail 2 false 2 true [demoColl none 2] 1 demoModel, 5⟩], demoCv_valid,
    by intro j hj
       match j, hj with
       | 0, _ => rfl
       | 1, _ => rfl,
    by intro e he n hn
       simp only [List.mem_singleton] at he
       subst he
       exact writes_cliTail _ _ _ _ _ _ _ hn,
    by decide, by decide⟩

-- every cut point of an earlier run over two files, then the observed run: the inputs end up as the
-- conversion of their own content, no `.tsv` of the converted file remains, results as in a clean run
#guard (List.range 40).all (fun m =>
  let fs₀ := demoPins [(false, 3), (true, 0)] ++ [(.pinTsv 1, [666]), (.chunk 0, [667])]
  let debris := crashRun demoValid demoLines fs₀ ⟨2, cliTail 2 false 2 true [demoColl none 2] 1 demoModel, m⟩
  let r₁ := cliMainC demoValid demoCv true 2 false 2 true [demoColl none 2] 1 demoModel debris
  let r₂ := cliMainC demoValid demoCv true 2 false 2 true [demoColl none 2] 1 demoModel
    (demoPins [(false, 3), (true, 0)])
  r₁.2 == r₂.2 && FS.get r₁.1 (.pin 0) == some [100, 102, 104] && FS.get r₁.1 (.pin 1) == some [12, 0] &&
    FS.get r₁.1 (.pinTsv 0) == none && FS.get r₁.1 (.target 1) == FS.get r₂.1 (.target 1) &&
    FS.get r₁.1 (.model 0) == FS.get r₂.1 (.model 0))

-- the cut points really differ: the `.tsv` grows line by line, then the PIN is replaced
#guard (List.range 8).map (fun m =>
    let d := crashRun demoValid demoLines (demoPins [(false, 3)]) ⟨1, [], m⟩
    (FS.get d (.pin 0), FS.get d (.pinTsv 0)))
  == [(some [11, 3], none), (some [11, 3], none), (some [11, 3], none), (some [11, 3], some []),
      (some [11, 3], some [100]), (some [11, 3], some [100, 102]), (some [11, 3], some [100, 102, 104]),
      (some [100, 102, 104], none)]

end Mk.FsRun
