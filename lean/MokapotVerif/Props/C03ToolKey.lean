import MokapotVerif.Lemmas.ConfidenceToolKey
import MokapotVerif.Props.C03Key
/-!
# C03 — the roll-up tool keeps one row per *entity of the file*, whatever pandas made of the cells

"The stand-alone rollup tool applies the same rule to previously written result files."  The tool
reads every input file 10000 rows at a time and pandas infers the dtype of a text column per chunk:
the precursor `17` is the number 17 in one chunk and the text `17` in a chunk that also holds `x9`.
`Model/ConfidenceToolKey.lean` models the level loop on these cells.  With the key of
`assign_confidence` (`toolEntityKey`, the repair proposed in FINDING-C03.md) the retained rows are a
function of what the files say; with the raw values (`toolRawKey`, /repo up to `f95d0dc`) they are not
(`Mutants/ConfidenceToolKey.lean`).
-/
namespace Mk

/-- the key of the repaired tool identifies exactly the rows of one entity -/
theorem toolEntityKey_cell (r : ToolCellRow) : toolEntityKey r.cell = [r.entity] := by
  simp [toolEntityKey, confEntityKey, ToolCellRow.cell, ToolCellRow.entity,
    C03_entity_key_chunk_independent]

/-- **The retained rows do not depend on the chunking of the readers**: whatever dtype each row's
chunk was given (any assignment, row by row), the rows the tool writes for a level are the first
rows per *entity* — the value of the cell in the file, numbers by value, other text by itself. -/
theorem C03_rollup_tool_key_chunk_independent (merged : List ToolCellRow) :
    toolCellRows merged = toolDedupBy ToolCellRow.entity [] merged := by
  unfold toolCellRows
  have h := toolDedupBy_congr (fun r : ToolCellRow => toolEntityKey r.cell) ToolCellRow.entity merged []
    (by
      intro a _ b _
      simp [toolEntityKey_cell])
  simpa using h

/-- … in particular two runs whose streams say the same (ids, texts, scores) but were chunked /
typed differently retain the same PSMs -/
theorem C03_rollup_tool_same_texts_same_rows (m₁ m₂ : List ToolCellRow)
    (h : m₁.map (fun r => (r.id, r.text, r.score)) = m₂.map (fun r => (r.id, r.text, r.score))) :
    (toolCellRows m₁).map (fun r => (r.id, r.text, r.score))
      = (toolCellRows m₂).map (fun r => (r.id, r.text, r.score)) := by
  rw [C03_rollup_tool_key_chunk_independent, C03_rollup_tool_key_chunk_independent]
  have e : ∀ m : List ToolCellRow,
      (toolDedupBy ToolCellRow.entity [] m).map (fun r => (r.id, r.text, r.score))
        = toolDedupBy (fun p : Nat × List Char × Int => confCanonical (.text p.2.1)) []
            (m.map (fun r => (r.id, r.text, r.score))) := by
    intro m
    rw [toolDedupBy_map]
    rfl
  rw [e, e, h]

/-- **The level specification on cells** (full strength, any stream length, any dtype assignment):
on a best-first stream the repaired tool writes, per level, exactly one row per entity of the input
files, a highest-scoring one, in non-increasing score order, and only input rows. -/
theorem C03_rollup_tool_cell_spec (merged : List ToolCellRow)
    (hs : merged.Pairwise (fun a b => b.score ≤ a.score)) :
    ToolCellSpec merged (toolCellRows merged) := by
  rw [C03_rollup_tool_key_chunk_independent]
  refine ⟨List.Pairwise.sublist (toolDedupBy_sublist _ merged []) hs, toolDedupBy_nodup _ merged [], ?_, ?_⟩
  · intro r hr; exact (toolDedupBy_sublist _ merged []).subset hr
  · intro r hr
    exact toolDedupBy_covers ToolCellRow.entity ToolCellRow.score merged [] hs r hr (by simp)

/-- **The numbered keys of `rollupRun` are a sound abstraction of the cells.**  Pair every row of
the merged stream (`Row`, level values numbered — what `toolLevelRows` / `C03_rollup_run_spec` work
on) with its cell.  If the numbering identifies exactly the rows of one entity, the level rows of
`rollupRun` are the rows the repaired tool retains on the cells, for every dtype assignment. -/
theorem C03_rollup_tool_key_abstraction (cands : List RollupName) (lv : RollupName)
    (merged : List (Row × ToolCellRow))
    (hnum : ∀ a ∈ merged, ∀ b ∈ merged,
      (a.1.key (rollupKeyIdx cands lv) = b.1.key (rollupKeyIdx cands lv) ↔ a.2.entity = b.2.entity)) :
    toolLevelRows cands (merged.map Prod.fst) lv
      = (toolDedupBy (fun p : Row × ToolCellRow => toolEntityKey p.2.cell) [] merged).map Prod.fst := by
  unfold toolLevelRows
  rw [dedupFirst_eq_toolDedupBy, toolDedupBy_map]
  congr 1
  have h := toolDedupBy_congr (fun p : Row × ToolCellRow => p.1.key (rollupKeyIdx cands lv))
    (fun p : Row × ToolCellRow => toolEntityKey p.2.cell) merged []
    (by
      intro a ha b hb
      simp only [List.nil_append] at ha hb
      simp [toolEntityKey_cell, hnum a ha b hb])
  simpa using h

/-- **Where the tool was right before the repair**: on a level whose cells never read as numbers
(peptide sequences, `decoy_…` names) the raw Python values and the entity key retain the same
rows — the finding is confined to level columns holding numeric-looking identifiers. -/
theorem C03_rollup_tool_raw_key_on_words (merged : List ToolCellRow)
    (hw : ∀ r ∈ merged, confPlainNumber r.text = none) :
    toolCellRowsRaw merged = toolCellRows merged := by
  unfold toolCellRowsRaw toolCellRows
  have hcell : ∀ r ∈ merged, r.cell = .text r.text := by
    intro r hr
    unfold ToolCellRow.cell confReadCell
    rw [hw r hr]
    cases r.dtype <;> rfl
  have h := toolDedupBy_congr (fun r : ToolCellRow => toolRawKey r.cell)
    (fun r : ToolCellRow => toolEntityKey r.cell) merged []
    (by
      intro a ha b hb
      simp only [List.nil_append] at ha hb
      rw [hcell a ha, hcell b hb]
      simp [toolRawKey, toolEntityKey, confEntityKey, confCanonical, hw a ha, hw b hb])
  simpa using h

/-! ## Non-vacuity -/

/-- the stream of FINDING-C03.md: file `a` (all cells numbers) and file `b` (holds `x9`) merged -/
def c03ToolKeyEx : List ToolCellRow :=
  [⟨0, .numeric, "17".toList, 90⟩, ⟨1, .object, "19".toList, 85⟩, ⟨2, .object, "17".toList, 80⟩,
   ⟨3, .numeric, "18".toList, 70⟩, ⟨4, .object, "x9".toList, 60⟩]

example : c03ToolKeyEx.Pairwise (fun a b => b.score ≤ a.score) := by decide

#guard (toolCellRows c03ToolKeyEx).map (·.id) == [0, 1, 3, 4]
#guard (toolCellRowsRaw c03ToolKeyEx).map (·.id) == [0, 1, 2, 3, 4]
#guard toolCellSpecB c03ToolKeyEx (toolCellRows c03ToolKeyEx)
#guard !toolCellSpecB c03ToolKeyEx (toolCellRowsRaw c03ToolKeyEx)

/-- hypothesis of `C03_rollup_tool_key_abstraction`: entities numbered 0 (`17`), 1 (`19`), 2, 3 -/
example : ∀ a ∈ c03ToolKeyEx.zip [0, 1, 0, 2, 3], ∀ b ∈ c03ToolKeyEx.zip [0, 1, 0, 2, 3],
    (a.2 = b.2 ↔ a.1.entity = b.1.entity) := by decide

/-- hypothesis of `C03_rollup_tool_raw_key_on_words` -/
example : ∀ r ∈ ([⟨0, .object, "PEPTIDEK".toList, 3⟩, ⟨1, .object, "decoy_pre3".toList, 2⟩] : List ToolCellRow),
    confPlainNumber r.text = none := by decide

end Mk
