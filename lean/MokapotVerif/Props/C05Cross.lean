import MokapotVerif.Props.C05
import MokapotVerif.Lemmas.Cross
/-!
# C05 (extension) — chunked paths that `Props/C05.lean` does not reach

`Model/Cross.lean` adds the parts of the pipeline through which a chunk size, the worker count or
the number of collections enters and which no other model contains: the ensemble / reset scoring
(`_predict_with_ensemble`), `brew` over several collections, and the three further uses of
`CONFIDENCE_CHUNK_SIZE` in `assign_confidence` (score slices zipped with file chunks — the first
anchor of the property —, level rows leaving the scan in batches, the result writer zipping four
chunk streams).  Every theorem is `model = declarative spec` for all chunk sizes `c ≥ 1`, or the
two-configuration statement derived from it.  Gap analysis: `GAPS-C05.md`.
-/
namespace Mk
open Mk.Brew Mk.Cross

/-! ## ensemble mode and the reset path -/

/-- `ensemble=True`: for every prediction chunk size `c ≥ 1` and any number `n ≥ 1` of fold models
the returned score of a row is the average of the outputs of *all* models on that row -/
theorem C05_ensemble_eq_spec {ρ σ : Type} [Inhabited σ] (c : Nat) (hc : 0 < c) (n : Nat) (hn : 0 < n)
    (rows : List ρ) (score : Nat → ρ → σ) (avg : List σ → σ) :
    ensemble c n rows score avg = ensembleSpec n rows score avg := by
  unfold ensemble
  rw [ensembleRaw_eq c hc, colMean_chunkPreds n hn]

/-- … hence the same for any two prediction chunk sizes (1 row, a 1-row last chunk, larger than
the file, …) -/
theorem C05_ensemble_chunk_invariant {ρ σ : Type} [Inhabited σ] (c₁ c₂ : Nat) (h₁ : 0 < c₁) (h₂ : 0 < c₂)
    (n : Nat) (hn : 0 < n) (rows : List ρ) (score : Nat → ρ → σ) (avg : List σ → σ) :
    ensemble c₁ n rows score avg = ensemble c₂ n rows score avg := by
  rw [C05_ensemble_eq_spec c₁ h₁ n hn, C05_ensemble_eq_spec c₂ h₂ n hn]

/-- reset path (the re-trained models are discarded): the scores are the calibration of the
original model's outputs on the whole collection, whatever the chunk size; `avg [x] = x` is what
`np.mean` of a single vector does -/
theorem C05_reset_eq_spec {ρ σ τ : Type} [Inhabited σ] (c : Nat) (hc : 0 < c) (rows : List ρ)
    (orig : ρ → σ) (target : ρ → Bool) (avg : List σ → σ) (havg : ∀ x, avg [x] = x)
    (calAll : List (σ × Bool) → τ) :
    resetScores c rows orig target avg calAll = resetSpec rows orig target calAll := by
  unfold resetScores resetSpec
  rw [C05_ensemble_eq_spec c hc 1 (by omega)]
  simp [ensembleSpec, havg]

/-- every scoring mode of `brew` (per-fold routing, ensemble, reset), any number of collections:
the scores of every collection are those of the chunk-free specification; per-fold routing needs
no more than a valid routing vector (a chunk may lack any fold) -/
theorem C05_brew_scores_eq_spec {ρ σ : Type} [Inhabited σ] (reset ens : Bool) (c : Nat) (hc : 0 < c)
    (nfolds : Nat) (hn : 0 < nfolds) (colls : List (List ρ × List Nat))
    (hcolls : ∀ coll ∈ colls, coll.2.length = coll.1.length ∧ ∀ f ∈ coll.2, f < nfolds)
    (score : Nat → ρ → σ) (orig : ρ → σ) (target : ρ → Bool) (avg : List σ → σ) (havg : ∀ x, avg [x] = x)
    (cal : List (σ × Bool) → σ → σ) (calAll : List (σ × Bool) → List σ) :
    brewScores reset ens c nfolds colls score orig target avg cal calAll
      = colls.map (fun coll => collScoresSpec reset ens nfolds coll score orig target avg cal calAll) := by
  unfold brewScores
  apply List.map_congr_left
  intro coll hcoll
  unfold collScores collScoresSpec
  rw [C05_reset_eq_spec c hc _ _ _ _ havg, C05_ensemble_eq_spec c hc nfolds hn,
    C02_predict_eq_spec c hc nfolds coll.1 coll.2 (hcolls coll hcoll).1 (hcolls coll hcoll).2]

/-- two configurations of the prediction chunk size give the same scores for every collection,
in every scoring mode -/
theorem C05_brew_scores_chunk_invariant {ρ σ : Type} [Inhabited σ] (reset ens : Bool) (c₁ c₂ : Nat)
    (h₁ : 0 < c₁) (h₂ : 0 < c₂) (nfolds : Nat) (hn : 0 < nfolds) (colls : List (List ρ × List Nat))
    (hcolls : ∀ coll ∈ colls, coll.2.length = coll.1.length ∧ ∀ f ∈ coll.2, f < nfolds)
    (score : Nat → ρ → σ) (orig : ρ → σ) (target : ρ → Bool) (avg : List σ → σ) (havg : ∀ x, avg [x] = x)
    (cal : List (σ × Bool) → σ → σ) (calAll : List (σ × Bool) → List σ) :
    brewScores reset ens c₁ nfolds colls score orig target avg cal calAll
      = brewScores reset ens c₂ nfolds colls score orig target avg cal calAll := by
  rw [C05_brew_scores_eq_spec reset ens c₁ h₁ nfolds hn colls hcolls score orig target avg havg,
    C05_brew_scores_eq_spec reset ens c₂ h₂ nfolds hn colls hcolls score orig target avg havg]

/-! ## several collections: the training rows of one fold -/

/-- the training rows of a fold drawn from several files are `rows[train]` of every file, file
after file — for every training-read chunk size, every completion order of the chunk tasks and
every enumeration order of the index intersections -/
theorem C05_collections_materialise_eq_spec {ρ : Type} (c : Nat) (hc : 0 < c) :
    ∀ (colls : List (List ρ × List Nat)) (P : List (List (List (Nat × ρ)))),
    (∀ ft ∈ colls, ft.2.Nodup ∧ ∀ i ∈ ft.2, i < ft.1.length) →
    List.Forall₂ (PiecesOf c) colls P →
    materialiseColls P (colls.map (fun ft => ft.2))
      = materialiseCollsSpec (colls.map (fun ft => ft.1)) (colls.map (fun ft => ft.2)) := by
  intro colls P hok hP
  induction hP with
  | nil => simp [materialiseColls, materialiseCollsSpec]
  | @cons ft pieces colls' P' hhead _ ih =>
    obtain ⟨ps, hps, hperm⟩ := hhead
    have h1 := C02_materialise_chunks c hc ft.1 ft.2 (hok ft (by simp)).1 (hok ft (by simp)).2
      ps pieces hps hperm
    have h2 := ih (fun x hx => hok x (List.mem_cons_of_mem _ hx))
    simp only [materialiseColls, materialiseCollsSpec, List.map_cons, List.zip_cons_cons,
      List.flatMap_cons] at *
    rw [h1, h2]

/-- two configurations (chunk sizes, thread timing) materialise the same training table -/
theorem C05_collections_materialise_invariant {ρ : Type} (c₁ c₂ : Nat) (h₁ : 0 < c₁) (h₂ : 0 < c₂)
    (colls : List (List ρ × List Nat)) (P₁ P₂ : List (List (List (Nat × ρ))))
    (hok : ∀ ft ∈ colls, ft.2.Nodup ∧ ∀ i ∈ ft.2, i < ft.1.length)
    (hP₁ : List.Forall₂ (PiecesOf c₁) colls P₁) (hP₂ : List.Forall₂ (PiecesOf c₂) colls P₂) :
    materialiseColls P₁ (colls.map (fun ft => ft.2)) = materialiseColls P₂ (colls.map (fun ft => ft.2)) := by
  rw [C05_collections_materialise_eq_spec c₁ h₁ colls P₁ hok hP₁,
    C05_collections_materialise_eq_spec c₂ h₂ colls P₂ hok hP₂]

/-! ## `CONFIDENCE_CHUNK_SIZE`: score slices, level batches, result writer -/

/-- first anchor of the property: pairing the `i`-th chunk of the file with the `i`-th slice of
the score vector attaches to every row its own score — the chunks are exactly the chunks of the
scored table, and they concatenate to it (any `c ≥ 1`, any table with one score per row) -/
theorem C05_score_slices_aligned {μ σ : Type} (c : Nat) (hc : 0 < c) (md : List μ) (sc : List σ)
    (h : md.length = sc.length) :
    attachScores c md sc = chunksOf c (md.zip sc) ∧ (attachScores c md sc).flatten = md.zip sc := by
  rw [attachScores_eq c md sc h]
  exact ⟨rfl, chunksOf_flatten c hc _⟩

/-- the rows of a level leave the scan in batches of `c`; the level file (the concatenation of
all frames appended) is the list of retained rows for every `c`, also `c = 0` or `c` larger than
the number of rows (only the final flush) and when the last batch is empty -/
theorem C05_level_batches_lossless {α : Type} (c : Nat) (rows : List α) :
    (levelBatches c rows).flatten = rows := levelBatches_flatten c rows

/-- the result writer: zipping the chunks of the level file with the equally cut q-value, PEP
and target arrays and splitting every chunk into targets and decoys gives the two files of the
chunk-free description -/
theorem C05_writer_chunk_invariant {α β γ : Type} (c : Nat) (hc : 0 < c) (rows : List α) (q : List β)
    (p : List γ) (t : List Bool) (hq : q.length = rows.length) (hp : p.length = rows.length)
    (ht : t.length = rows.length) :
    writeChunked c rows q p t = writeWhole rows q p t := writeChunked_eq c hc rows q p t hq hp ht

/-- the level files of the chunked path (scores attached by slices, rows leaving in batches) are
those of the existing model `confidenceLevels` run on the table with its score column -/
theorem C05_chunked_levels_eq (c : Nat) (dedup : Bool) (n : Nat) (md : List Row) (sc : List Int)
    (h : md.length = sc.length) :
    chunkedLevels c dedup n md sc = confidenceLevels c dedup n (scoredRows md sc) := by
  unfold chunkedLevels confidenceLevels
  simp only [levelBatches_flatten, List.map_id']
  have hf : (attachScores c md sc).map (fun ch => chunkFile dedup ((ch.map withScore).mergeSort rowBetter))
      = (chunksOf c (scoredRows md sc)).map (fun ch => chunkFile dedup (ch.mergeSort rowBetter)) := by
    rw [← scoredChunks_eq c md sc h, List.map_map]
    rfl
  rw [hf]

/-- all result files of one collection: the chunked path writes exactly
`targets.<level>` = target rows of the level with their own q-value and PEP, `decoys.<level>` =
the decoy rows, for the PSM level and every roll-up level -/
theorem C05_result_files_eq_spec (c : Nat) (hc : 0 < c) (dedup : Bool) (n : Nat)
    (pep : List Row → List Rat) (hpep : ∀ rows, (pep rows).length = rows.length)
    (md : List Row) (sc : List Int) (h : md.length = sc.length) :
    resultFiles c dedup n pep md sc
      = resultFilesSpec (confidenceLevels c dedup n (scoredRows md sc)) pep := by
  unfold resultFiles resultFilesSpec
  rw [C05_chunked_levels_eq c dedup n md sc h]
  apply List.map_congr_left
  intro rows _
  apply writeChunked_eq c hc
  · rw [C03_qvalues_are_C01]; simp
  · exact hpep rows
  · simp

/-- the executable level model does not depend on the chunk size when the scores are pairwise
distinct (instance of `C05_confidence_all_levels_chunk_invariant` for the stable sorts) -/
theorem C05_confidence_levels_exec_invariant (c₁ c₂ : Nat) (h₁ : 0 < c₁) (h₂ : 0 < c₂) (n : Nat)
    (rows : List Row) (hinj : ∀ a ∈ rows, ∀ b ∈ rows, a.score = b.score → a = b) :
    confidenceLevels c₁ true n rows = confidenceLevels c₂ true n rows := by
  unfold confidenceLevels
  exact C05_confidence_all_levels_chunk_invariant c₁ c₂ h₁ h₂ rows hinj _ _
    (forall₂_map_self _ _ _ (fun ch _ => isChunkFile_mergeSort true ch))
    (forall₂_map_self _ _ _ (fun ch _ => isChunkFile_mergeSort true ch))
    _ _ (List.mergeSort_perm _ _) (List.mergeSort_perm _ _)
    (sortedRows_mergeSort _) (sortedRows_mergeSort _) n

/-- **two configurations of `CONFIDENCE_CHUNK_SIZE`, all three uses included**: with pairwise
distinct scores every result file (rows, order, q-values, PEPs, target/decoy split) is the same -/
theorem C05_result_files_chunk_invariant (c₁ c₂ : Nat) (h₁ : 0 < c₁) (h₂ : 0 < c₂) (n : Nat)
    (pep : List Row → List Rat) (hpep : ∀ rows, (pep rows).length = rows.length)
    (md : List Row) (sc : List Int) (h : md.length = sc.length)
    (hinj : ∀ a ∈ scoredRows md sc, ∀ b ∈ scoredRows md sc, a.score = b.score → a = b) :
    resultFiles c₁ true n pep md sc = resultFiles c₂ true n pep md sc := by
  rw [C05_result_files_eq_spec c₁ h₁ true n pep hpep md sc h,
    C05_result_files_eq_spec c₂ h₂ true n pep hpep md sc h,
    C05_confidence_levels_exec_invariant c₁ c₂ h₁ h₂ n _ hinj]

/-! ## tied scores: what is still independent of the chunk size -/

/-- without the tie-freeness hypothesis of `C05_confidence_chunk_invariant`: for any two chunk
sizes, any per-chunk arrangements and any merge arrangements, the PSM-level files report the same
score column, and the same score for every spectrum (which of several equally scored PSMs of a
spectrum is kept may differ — that is C03's tie rule, not a chunk effect on the scores) -/
theorem C05_psm_scores_chunk_invariant_ties (c₁ c₂ : Nat) (h₁ : 0 < c₁) (h₂ : 0 < c₂) (rows : List Row)
    (files₁ files₂ : List (List Row))
    (hf₁ : List.Forall₂ (IsChunkFile true) (chunksOf c₁ rows) files₁)
    (hf₂ : List.Forall₂ (IsChunkFile true) (chunksOf c₂ rows) files₂)
    (m₁ m₂ : List Row) (hp₁ : m₁.Perm files₁.flatten) (hp₂ : m₂.Perm files₂.flatten)
    (hs₁ : SortedRows m₁) (hs₂ : SortedRows m₂) :
    (psmLevel true m₁).map (fun r => r.score) = (psmLevel true m₂).map (fun r => r.score) ∧
    ((psmLevel true m₁).map (fun r => (r.spec, r.score))).Perm
      ((psmLevel true m₂).map (fun r => (r.spec, r.score))) :=
  ⟨scores_eq_of_levelSpec Row.spec rows _ _
      (C03_psm_level_spec c₁ h₁ rows files₁ hf₁ m₁ hp₁ hs₁)
      (C03_psm_level_spec c₂ h₂ rows files₂ hf₂ m₂ hp₂ hs₂),
   profile_perm Row.spec rows _ _
      (C03_psm_level_spec c₁ h₁ rows files₁ hf₁ m₁ hp₁ hs₁)
      (C03_psm_level_spec c₂ h₂ rows files₂ hf₂ m₂ hp₂ hs₂)⟩

/-! ## Non-vacuity and evaluation tests (compiler-evaluated, labelled as tests) -/
-- example data only; names prefixed to avoid collisions inside `Mk`

/-- arithmetic mean over `Rat`, the instance used by the driver -/
def c05xMeanQ (l : List Rat) : Rat := l.sum / (l.length : Rat)

example : ∀ x : Rat, c05xMeanQ [x] = x := by intro x; simp [c05xMeanQ]

def c05xExScore (m : Nat) (r : Nat) : Rat := (10 * r + m : Nat)

#guard ensemble 2 3 [0, 1, 2, 3, 4] c05xExScore c05xMeanQ == ensembleSpec 3 [0, 1, 2, 3, 4] c05xExScore c05xMeanQ
#guard ensemble 1 3 [0, 1, 2, 3, 4] c05xExScore c05xMeanQ == [1, 11, 21, 31, 41]
#guard ensemble 7 2 [0, 1, 2] c05xExScore c05xMeanQ == [1/2, 21/2, 41/2]
-- all three scoring modes on two collections (routing vectors valid for 2 folds)
def c05xExColls : List (List Nat × List Nat) := [([0, 1, 2], [0, 1, 0]), ([3, 4], [1, 1])]
def c05xExCal (xs : List (Rat × Bool)) (s : Rat) : Rat := s - (xs.map (·.1)).sum
def c05xExCalAll (xs : List (Rat × Bool)) : List Rat := xs.map (fun x => x.1 - (xs.map (·.1)).sum)
#guard brewScores false true 2 2 c05xExColls c05xExScore (fun r => (r : Rat)) (fun _ => true) c05xMeanQ c05xExCal c05xExCalAll
        == [[1/2, 21/2, 41/2], [61/2, 81/2]]
#guard brewScores true false 1 2 c05xExColls c05xExScore (fun r => (r : Rat)) (fun _ => true) c05xMeanQ c05xExCal c05xExCalAll
        == [[-3, -2, -1], [-4, -3]]
#guard brewScores false false 1 2 c05xExColls c05xExScore (fun r => (r : Rat)) (fun _ => true) c05xMeanQ c05xExCal c05xExCalAll
        == brewScores false false 5 2 c05xExColls c05xExScore (fun r => (r : Rat)) (fun _ => true) c05xMeanQ c05xExCal c05xExCalAll
example : ∀ coll ∈ c05xExColls, coll.2.length = coll.1.length ∧ ∀ f ∈ coll.2, f < 2 := by decide

#guard levelBatches 2 [1, 2, 3, 4, 5] == [[1, 2], [3, 4], [5]]
#guard levelBatches 2 [1, 2, 3, 4] == [[1, 2], [3, 4], []]          -- the final flush of an empty batch
#guard levelBatches 0 [1, 2, 3] == [[1, 2, 3]]
#guard attachScores 2 ["a", "b", "c"] [7, 8, 9] == [[("a", 7), ("b", 8)], [("c", 9)]]
#guard writeChunked 2 [1, 2, 3] ["x", "y", "z"] [0, 0, 0] [true, false, true]
        == ([(1, "x", 0), (3, "z", 0)], [(2, "y", 0)])

def c05xExMd : List Row :=
  [ ⟨0, 1, [10], true, 0⟩, ⟨1, 1, [11], true, 0⟩, ⟨2, 2, [10], false, 0⟩,
    ⟨3, 3, [11], true, 0⟩, ⟨4, 2, [12], true, 0⟩ ]
def c05xExSc : List Int := [5, 7, 6, 2, 1]
def c05xExPep (rows : List Row) : List Rat := rows.map (fun _ => 0)

#guard (resultFiles 2 true 1 c05xExPep c05xExMd c05xExSc).map (fun f => (f.1.map (·.1.id), f.2.map (·.1.id)))
        == [([1, 3], [2]), ([1], [2])]
#guard resultFiles 2 true 1 c05xExPep c05xExMd c05xExSc == resultFiles 5 true 1 c05xExPep c05xExMd c05xExSc
#guard resultFiles 1 true 1 c05xExPep c05xExMd c05xExSc == resultFilesSpec (confidenceLevels 3 true 1 (scoredRows c05xExMd c05xExSc)) c05xExPep

/-- the hypotheses of `C05_result_files_chunk_invariant` hold for the example table -/
example : c05xExMd.length = c05xExSc.length ∧
    ∀ a ∈ scoredRows c05xExMd c05xExSc, ∀ b ∈ scoredRows c05xExMd c05xExSc, a.score = b.score → a = b := by
  decide

/-- the hypotheses of `C05_collections_materialise_eq_spec` for two files read in chunks of 2 -/
example : List.Forall₂ (PiecesOf 2) [(["a", "b", "c"], [2, 0]), (["d", "e"], [1])]
    [[[(2, "c")], [(0, "a")]], [[(1, "e")]]] := by
  refine List.Forall₂.cons ⟨[[(0, "a")], [(2, "c")]], ?_, ?_⟩
    (List.Forall₂.cons ⟨[[(1, "e")]], ?_, List.Perm.refl _⟩ List.Forall₂.nil)
  · exact List.Forall₂.cons (List.Perm.refl _) (List.Forall₂.cons (List.Perm.refl _) List.Forall₂.nil)
  · exact List.Perm.swap _ _ _
  · exact List.Forall₂.cons (List.Perm.refl _) List.Forall₂.nil

#guard materialiseColls [[[(2, "c")], [(0, "a")]], [[(1, "e")]]] [[2, 0], [1]]
        == [some "c", some "a", some "e"]

end Mk
